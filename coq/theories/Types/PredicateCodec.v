(* Model of crates/types/src/predicate.rs (node_edges) and predicate/encode.rs (binary codec). *)
From EB Require Export Base.ListX Base.Word Base.Bytes Base.Outcome Generated.Consts.
Open Scope list_scope.
Open Scope Z_scope.

Record node : Type := { n_edge_start : Z (* u16 *); n_program : list Z (* 32 bytes *) }.
Record predicate : Type := { p_nodes : list node; p_edges : list Z (* u16 *) }.

Definition edge_max : Z := 65535.

(* Predicate::node_edges *)
Definition node_edges (p : predicate) (ix : nat) : option (list Z) :=
  match nth_error (p_nodes p) ix with
  | None => None
  | Some nd =>
    if n_edge_start nd =? edge_max then Some []
    else
      let e_start := n_edge_start nd in
      let e_end := match nth_error (p_nodes p) (S ix) with
                   | Some next => if n_edge_start next =? edge_max then zlen (p_edges p) else n_edge_start next
                   | None => zlen (p_edges p)
                   end in
      if (e_end <? e_start) || (zlen (p_edges p) <? e_end) then None
      else Some (firstn (Z.to_nat (e_end - e_start)) (skipn (Z.to_nat e_start) (p_edges p)))
  end.

Inductive penc_err := TooManyNodes | TooManyEdges.
Inductive pdec_err := BytesTooShort.

Definition encode_node (n : node) : list Z := bytes_of_u16 (n_edge_start n) ++ n_program n.

(* encode_predicate *)
Definition encode_predicate (p : predicate) : outcome penc_err (list Z) :=
  if max_nodes <? zlen (p_nodes p) then Err TooManyNodes
  else if max_edges <? zlen (p_edges p) then Err TooManyEdges
  else Ok (bytes_of_u16 (zlen (p_nodes p)) ++ flat_map encode_node (p_nodes p)
           ++ bytes_of_u16 (zlen (p_edges p)) ++ flat_map bytes_of_u16 (p_edges p)).

(* predicate_encoded_size *)
Definition predicate_encoded_size (p : predicate) : Z :=
  zlen (p_nodes p) * node_size_bytes + zlen (p_edges p) * edge_size_bytes + 2 * len_size_bytes.

(* bytes.get(a..b) *)
Definition get_range (a b : Z) (bs : list Z) : option (list Z) :=
  if (b <? a) || (zlen bs <? b) then None
  else Some (firstn (Z.to_nat (b - a)) (skipn (Z.to_nat a) bs)).

(* chunks_exact(n) *)
Fixpoint chunks (fuel : nat) (n : nat) (bs : list Z) : list (list Z) :=
  match fuel with
  | O => []
  | S f => if (length bs <? n)%nat then [] else firstn n bs :: chunks f n (skipn n bs)
  end.

Definition decode_node (ch : list Z) : node :=
  {| n_edge_start := u16_of_bytes (firstn 2 ch); n_program := skipn 2 ch |}.

(* decode_predicate *)
Definition decode_predicate (bs : list Z) : outcome pdec_err predicate :=
  match get_range 0 len_size_bytes bs with
  | None => Err BytesTooShort
  | Some nb =>
    let num_nodes := u16_of_bytes nb in
    match get_range len_size_bytes (len_size_bytes + num_nodes * node_size_bytes) bs with
    | None => Err BytesTooShort
    | Some nbytes =>
      let nodes := map decode_node (firstn (Z.to_nat num_nodes) (chunks (length nbytes) (Z.to_nat node_size_bytes) nbytes)) in
      let num_edges_pos := num_nodes * node_size_bytes + len_size_bytes in
      match get_range num_edges_pos (num_edges_pos + 2) bs with
      | None => Err BytesTooShort
      | Some eb =>
        let num_edges := u16_of_bytes eb in
        let edges_start := num_edges_pos + len_size_bytes in
        match get_range edges_start (edges_start + num_edges * edge_size_bytes) bs with
        | None => Err BytesTooShort
        | Some ebytes =>
            Ok {| p_nodes := nodes;
                  p_edges := map u16_of_bytes (chunks (length ebytes) (Z.to_nat edge_size_bytes) ebytes) |}
        end
      end
    end
  end.
