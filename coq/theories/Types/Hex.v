(* Model of the text codecs of crates/types: the `hex` crate (encode / encode_upper / decode),
   convert.rs (`hex_str_from_words`, `words_from_hex_str`) and fmt.rs (`Display` / `FromStr` of
   `ContentAddress`, `Signature`, `Display` of `PredicateAddress`).
   Characters are their ASCII codes as Z; a string is a `list Z`. *)
From Coq Require Import ZArith List Bool.
From EB Require Export Base.ListX Base.Word Base.Bytes Types.PredicateCodec.
Open Scope list_scope.
Open Scope Z_scope.

(* ---------- the `hex` crate ---------- *)

(* HEX_CHARS_UPPER / HEX_CHARS_LOWER indexed by a nibble: '0' = 48, 'A' = 65, 'a' = 97 *)
Definition hex_digit_upper (n : Z) : Z := if n <? 10 then 48 + n else 55 + n.
Definition hex_digit_lower (n : Z) : Z := if n <? 10 then 48 + n else 87 + n.

(* hex::val : b'A'..=b'F' | b'a'..=b'f' | b'0'..=b'9', anything else is InvalidHexCharacter *)
Definition hex_val (c : Z) : option Z :=
  if (65 <=? c) && (c <=? 70) then Some (c - 65 + 10)
  else if (97 <=? c) && (c <=? 102) then Some (c - 97 + 10)
  else if (48 <=? c) && (c <=? 57) then Some (c - 48)
  else None.

(* BytesToHexChars: high nibble (b >> 4) then low nibble (b & 0x0F) *)
Definition hex_byte_upper (b : Z) : list Z := [hex_digit_upper (b / 16); hex_digit_upper (b mod 16)].
Definition hex_byte_lower (b : Z) : list Z := [hex_digit_lower (b / 16); hex_digit_lower (b mod 16)].

(* hex::encode_upper / hex::encode *)
Definition hex_encode_upper (bs : list Z) : list Z := flat_map hex_byte_upper bs.
Definition hex_encode_lower (bs : list Z) : list Z := flat_map hex_byte_lower bs.

(* hex.chunks(2).map(|pair| val(pair[0]) << 4 | val(pair[1])).collect::<Result<_,_>>() *)
Fixpoint hex_decode_pairs (cs : list Z) : option (list Z) :=
  match cs with
  | [] => Some []
  | [_] => None
  | a :: b :: r =>
    match hex_val a, hex_val b with
    | Some h, Some l =>
      match hex_decode_pairs r with
      | Some bs => Some (h * 16 + l :: bs)
      | None => None
      end
    | _, _ => None
    end
  end.

(* <Vec<u8> as FromHex>::from_hex = hex::decode: OddLength is checked first, then the characters *)
Definition hex_decode (cs : list Z) : option (list Z) :=
  if Nat.even (length cs) then hex_decode_pairs cs else None.

(* ---------- convert.rs ---------- *)

(* hex_str_from_words: hex::encode of the big-endian bytes of all the words *)
Definition words_to_hex (ws : list Z) : list Z := hex_encode_lower (bytes_of_words ws).

(* bytes.chunks_exact(8).map(word_from_bytes): a trailing incomplete chunk is dropped *)
Definition words_of_chunks (bs : list Z) : list Z := map word_of_bytes (chunks (length bs) 8 bs).

(* words_from_hex_str *)
Definition words_from_hex (cs : list Z) : option (list Z) := option_map words_of_chunks (hex_decode cs).

(* ---------- fmt.rs ---------- *)

(* Display for ContentAddress (a = the 32 bytes) and Signature (a = the 64 bytes followed by the id) *)
Definition display_addr (a : list Z) : list Z := hex_encode_upper a.

(* FromStr: hex::decode, then `Vec<u8> -> [u8; n]` (InvalidStringLength unless exactly n bytes) *)
Definition parse_addr (n : nat) (cs : list Z) : option (list Z) :=
  match hex_decode cs with
  | Some bs => if (length bs =? n)%nat then Some bs else None
  | None => None
  end.

(* Signature <-> [u8; 65] *)
Definition sig_bytes (sg : list Z * Z) : list Z := fst sg ++ [snd sg].
Definition sig_of_bytes (bs : list Z) : list Z * Z := (firstn 64 bs, nth 64 bs 0).

Definition display_content_address (a : list Z) : list Z := display_addr a.
Definition parse_content_address (cs : list Z) : option (list Z) := parse_addr 32 cs.
Definition display_signature (sg : list Z * Z) : list Z := display_addr (sig_bytes sg).
Definition parse_signature (cs : list Z) : option (list Z * Z) := option_map sig_of_bytes (parse_addr 65 cs).

(* Display for PredicateAddress: "{contract}:{predicate}"  (':' = 58; there is no FromStr for it) *)
Definition display_predicate_address (c p : list Z) : list Z := display_addr c ++ [58] ++ display_addr p.

(* LowerHex / UpperHex for ContentAddress and Signature: "{byte:02x}" per byte, the same strings as hex::encode(_upper) *)
Definition lower_hex_addr (a : list Z) : list Z := hex_encode_lower a.
Definition upper_hex_addr (a : list Z) : list Z := hex_encode_upper a.
