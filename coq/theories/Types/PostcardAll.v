(* Model of the BINARY (non human-readable) serde surface of crates/types as produced by `postcard::to_allocvec`
   and consumed by `postcard::from_bytes`, for every public data type (C18).

   Postcard wire format (postcard 1.0.10, src/ser/serializer.rs, src/varint.rs, src/de/deserializer.rs):
   * u8: the raw byte; u16 / usize: LEB128 varint of the value (NOT fixed width; at most 3 resp. 10 bytes);
     i64: zig-zag then varint(u64);
   * seq (`Vec<T>`, `&[T]`, `serialize_seq(Some(n))`): varint(usize) length, then the elements;
   * struct: the fields in declaration order, no tags, no length; newtype struct: the inner value.
   crates/types in the binary format:
   * serde/hash.rs `serialize` (used by `ContentAddress` and `Contract::salt`): `bytes[..].serialize(s)` = a seq of u8,
     i.e. varint 32 then the 32 bytes; `deserialize`: `Vec::<u8>::deserialize` then `try_into::<[u8; N]>` (length check);
   * serde/signature.rs: `serialize_seq(Some(64 + 1))`, the 64 signature bytes, the id byte; deserialised through
     `hash::deserialize::<65>` then `From<[u8; 65]>` (first 64 bytes, last byte);
   * serde/bytecode.rs (`Program(Vec<u8>)`, newtype struct): `bytecode.serialize(s)` = a seq of u8; `Vec::deserialize`;
   * everything else is `#[derive(Serialize, Deserialize)]`.
   The pieces for `Solution` / `Mutation` are in Types/Postcard.v (encoders) and Proofs/PostcardProofs.v (decoders).

   Values: a ContentAddress / salt is a `list Z` (32 bytes), a Signature is `(64 bytes, id)`, a PredicateAddress is
   `(contract, predicate)`, a SolutionSet is the list of its solutions, a Program is its bytecode (as in Types/Serde.v). *)
From Coq Require Import ZArith List Bool.
From EB Require Export Types.Postcard Types.PredicateCodec Types.Hex Types.Serde Proofs.PostcardProofs.
Import ListNotations.
Open Scope list_scope.
Open Scope Z_scope.

(* ---------- encoders ---------- *)

(* varint_u16: at most 3 bytes *)
Definition pc_u16 (z : Z) : list Z := varint_go 3 z.

(* ContentAddress([u8; 32]) / Hash through hash::serialize: a byte slice *)
Definition pc_content_address (a : list Z) : list Z := pc_bytes a.

(* PredicateAddress { contract, predicate } *)
Definition pc_predicate_address (pa : list Z * list Z) : list Z :=
  pc_content_address (fst pa) ++ pc_content_address (snd pa).

(* SolutionSet { solutions } *)
Definition pc_solution_set (ss : list solution) : list Z := pc_seq pc_solution ss.

(* Node { edge_start: u16, program_address } *)
Definition pc_node (n : node) : list Z := pc_u16 (n_edge_start n) ++ pc_content_address (n_program n).

(* Predicate { nodes, edges: Vec<u16> } *)
Definition pc_predicate (p : predicate) : list Z := pc_seq pc_node (p_nodes p) ++ pc_seq pc_u16 (p_edges p).

(* Program(Vec<u8>) *)
Definition pc_program (bs : list Z) : list Z := pc_bytes bs.

(* Contract { predicates, salt } *)
Definition pc_contract (c : contract) : list Z := pc_seq pc_predicate (c_predicates c) ++ pc_bytes (c_salt c).

(* Signature([u8; 64], u8): a seq of 64 + 1 bytes *)
Definition pc_signature (sg : list Z * Z) : list Z := pc_bytes (sig_bytes sg).

(* SignedContract { contract, signature } *)
Definition pc_signed_contract (sc : signed_contract) : list Z :=
  pc_contract (sc_contract sc) ++ pc_signature (sc_signature sc).

(* ---------- decoders (input -> value and unread rest) ---------- *)

(* try_take_varint_u16 = `varint_dec 3`: at most 3 bytes, the third one without continuation bit and at most
   max_of_last_byte::<u16>() = 3; padded encodings such as [128; 0] are accepted.  (The value check below says the
   same thing once more: for bytes, third byte <= 3 iff the accumulated value fits 16 bits;
   Proofs/PostcardAllProofs.v dec_u16_is_varint_dec.) *)
Definition dec_u16 (bs : list Z) : option (Z * list Z) :=
  match varint_dec 3 bs with
  | Some (n, r) => if n <? 65536 then Some (n, r) else None
  | None => None
  end.

(* hash::deserialize::<N>: a Vec<u8> of exactly N bytes *)
Definition dec_hash (n : nat) (bs : list Z) : option (list Z * list Z) :=
  match dec_bytes bs with
  | Some (a, r) => if Nat.eqb (length a) n then Some (a, r) else None
  | None => None
  end.

Definition dec_content_address : list Z -> option (list Z * list Z) := dec_hash 32.

Definition dec_predicate_address (bs : list Z) : option ((list Z * list Z) * list Z) :=
  match dec_content_address bs with
  | Some (c, r1) =>
    match dec_content_address r1 with
    | Some (p, r2) => Some ((c, p), r2)
    | None => None
    end
  | None => None
  end.

Definition dec_solution_set : list Z -> option (list solution * list Z) := dec_seq dec_solution.

Definition dec_node (bs : list Z) : option (node * list Z) :=
  match dec_u16 bs with
  | Some (e, r1) =>
    match dec_content_address r1 with
    | Some (a, r2) => Some ({| n_edge_start := e; n_program := a |}, r2)
    | None => None
    end
  | None => None
  end.

Definition dec_predicate (bs : list Z) : option (predicate * list Z) :=
  match dec_seq dec_node bs with
  | Some (ns, r1) =>
    match dec_seq dec_u16 r1 with
    | Some (es, r2) => Some ({| p_nodes := ns; p_edges := es |}, r2)
    | None => None
    end
  | None => None
  end.

Definition dec_program : list Z -> option (list Z * list Z) := dec_bytes.

Definition dec_contract (bs : list Z) : option (contract * list Z) :=
  match dec_seq dec_predicate bs with
  | Some (ps, r1) =>
    match dec_hash 32 r1 with
    | Some (s, r2) => Some ({| c_predicates := ps; c_salt := s |}, r2)
    | None => None
    end
  | None => None
  end.

Definition dec_signature (bs : list Z) : option ((list Z * Z) * list Z) :=
  match dec_hash 65 bs with
  | Some (b, r) => Some (sig_of_bytes b, r)
  | None => None
  end.

Definition dec_signed_contract (bs : list Z) : option (signed_contract * list Z) :=
  match dec_contract bs with
  | Some (c, r1) =>
    match dec_signature r1 with
    | Some (sg, r2) => Some ({| sc_contract := c; sc_signature := sg |}, r2)
    | None => None
    end
  | None => None
  end.

(* `Solution`'s two addresses go through hash::deserialize::<32> as well: a byte sequence of any other length is refused.
   `dec_solution` (Proofs/PostcardProofs.v) reads them as plain byte sequences; the strict readers add the length test, which
   is what `postcard::from_bytes::<Solution>` / `::<SolutionSet>` do. *)
Definition dec_solution_strict (bs : list Z) : option (solution * list Z) :=
  match dec_solution bs with
  | Some (s, r) => if Nat.eqb (length (sol_contract s)) 32 && Nat.eqb (length (sol_predicate s)) 32 then Some (s, r) else None
  | None => None
  end.
Definition dec_solution_set_strict : list Z -> option (list solution * list Z) := dec_seq dec_solution_strict.

(* `postcard::from_bytes`: decode one value, trailing bytes are ignored *)
Definition from_bytes {A} (d : list Z -> option (A * list Z)) (bs : list Z) : option A :=
  match d bs with Some (x, _) => Some x | None => None end.
