(* The postcard wire format as used for hashing solutions (crates/hash: `postcard::to_allocvec`):
   LEB128 varints, zig-zag i64, length-prefixed sequences; a ContentAddress is serialised as a byte sequence. *)
From EB Require Export Base.ListX Base.Word Base.Bytes Vm.Machine.
Open Scope list_scope.
Open Scope Z_scope.

(* varint(u64): 7 bits per byte, low group first, high bit = continuation; at most 10 bytes *)
Fixpoint varint_go (fuel : nat) (n : Z) : list Z :=
  match fuel with
  | O => []
  | S f => if n <? 128 then [n] else (n mod 128 + 128) :: varint_go f (n / 128)
  end.
Definition varint (n : Z) : list Z := varint_go 10 n.

(* zig-zag: (n << 1) ^ (n >> 63) *)
Definition zigzag (z : Z) : Z := if z <? 0 then -2 * z - 1 else 2 * z.
Definition unzigzag (n : Z) : Z := if n mod 2 =? 0 then n / 2 else -((n + 1) / 2).

(* Reading a varint: postcard 1.0.10 src/de/deserializer.rs `try_take_varint_u16/u32/u64`:
     for i in 0..varint_max::<T>() { val = pop()?; out |= (val & 0x7F) << (7 * i);
       if val & 0x80 == 0 { if i == varint_max::<T>() - 1 && val > max_of_last_byte::<T>() { Err(BadVarint) } else { Ok(out) } } }
     Err(BadVarint)
   i.e. at most `fuel` = varint_max::<T>() bytes; a byte without continuation bit ends the number (padded forms such as
   [128; 0] are accepted); the LAST permitted byte must have no continuation bit and must not exceed `maxlast` =
   max_of_last_byte::<T>() (the bits of T that are left for it); running out of input or of fuel is an error. *)
Fixpoint varint_dec_lim (maxlast : Z) (fuel : nat) (bs : list Z) : option (Z * list Z) :=
  match fuel, bs with
  | S f, b :: r => if b <? 128
                   then match f with
                        | O => if b <=? maxlast then Some (b, r) else None
                        | S _ => Some (b, r)
                        end
                   else match varint_dec_lim maxlast f r with
                        | Some (hi, r') => Some ((b - 128) + 128 * hi, r')
                        | None => None
                        end
  | _, _ => None
  end.

(* src/varint.rs: varint_max::<T>() = ceil(bits / 7) bytes, max_of_last_byte::<T>() = (1 << (bits % 7)) - 1.
   The unsigned type read with `fuel` bytes is the widest whole-byte one that needs them: 3 -> u16, 5 -> u32,
   10 -> u64 = usize, 19 -> u128 (see `varint_params` below). *)
Definition varint_bits (fuel : nat) : Z := 8 * (7 * Z.of_nat fuel / 8).
Definition max_of_last_byte (fuel : nat) : Z := 2 ^ (varint_bits fuel mod 7) - 1.

(* `varint_dec 10` is try_take_varint_u64 (= try_take_varint_usize), `varint_dec 3` is try_take_varint_u16 *)
Definition varint_dec (fuel : nat) (bs : list Z) : option (Z * list Z) :=
  varint_dec_lim (max_of_last_byte fuel) fuel bs.

Example varint_params :
  (varint_bits 3 = 16 /\ max_of_last_byte 3 = 3) /\ (varint_bits 5 = 32 /\ max_of_last_byte 5 = 15) /\
  (varint_bits 10 = 64 /\ max_of_last_byte 10 = 1) /\ (varint_bits 19 = 128 /\ max_of_last_byte 19 = 3).
Proof. vm_compute. repeat split. Qed.

Definition pc_i64 (z : Z) : list Z := varint (zigzag z).
Definition pc_seq {A} (f : A -> list Z) (l : list A) : list Z := varint (zlen l) ++ flat_map f l.
Definition pc_words (ws : list Z) : list Z := pc_seq pc_i64 ws.
Definition pc_bytes (bs : list Z) : list Z := pc_seq (fun b => [b]) bs.          (* &[u8] as a seq of u8 *)

Definition pc_mutation (m : mutation) : list Z := pc_words (m_key m) ++ pc_words (m_value m).
Definition pc_solution (s : solution) : list Z :=
  pc_bytes (sol_contract s) ++ pc_bytes (sol_predicate s)
  ++ pc_seq pc_words (sol_data s) ++ pc_seq pc_mutation (sol_muts s).
