(* The postcard wire format as used for hashing solutions (crates/hash: `postcard::to_allocvec`):
   LEB128 varints, zig-zag i64, length-prefixed sequences; a ContentAddress is serialised as a byte sequence. *)
From EB Require Export Base.ListX Base.Word Base.Bytes Vm.Machine.
Open Scope list_scope.
Open Scope Z_scope.

(* varint(u64): 7 bits per byte, low group first, high bit = continuation; at most 10 bytes *)
Fixpoint varint_go (fuel : nat) (n : Z) : list Z :=
  match fuel with
  | O => []
  | S f => if n <? 128 then [n] else (n mod 128 + 128) :: varint_go f (n / 128)
  end.
Definition varint (n : Z) : list Z := varint_go 10 n.

(* zig-zag: (n << 1) ^ (n >> 63) *)
Definition zigzag (z : Z) : Z := if z <? 0 then -2 * z - 1 else 2 * z.
Definition unzigzag (n : Z) : Z := if n mod 2 =? 0 then n / 2 else -((n + 1) / 2).

Fixpoint varint_dec (fuel : nat) (bs : list Z) : option (Z * list Z) :=
  match fuel, bs with
  | S f, b :: r => if b <? 128 then Some (b, r)
                   else match varint_dec f r with
                        | Some (hi, r') => Some ((b - 128) + 128 * hi, r')
                        | None => None
                        end
  | _, _ => None
  end.

Definition pc_i64 (z : Z) : list Z := varint (zigzag z).
Definition pc_seq {A} (f : A -> list Z) (l : list A) : list Z := varint (zlen l) ++ flat_map f l.
Definition pc_words (ws : list Z) : list Z := pc_seq pc_i64 ws.
Definition pc_bytes (bs : list Z) : list Z := pc_seq (fun b => [b]) bs.          (* &[u8] as a seq of u8 *)

Definition pc_mutation (m : mutation) : list Z := pc_words (m_key m) ++ pc_words (m_value m).
Definition pc_solution (s : solution) : list Z :=
  pc_bytes (sol_contract s) ++ pc_bytes (sol_predicate s)
  ++ pc_seq pc_words (sol_data s) ++ pc_seq pc_mutation (sol_muts s).
