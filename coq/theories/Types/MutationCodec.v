(* Model of crates/types/src/solution/{encode,decode}.rs: word encoding of mutations.
   Slice-indexing sites of the Rust are explicit `Panic` outcomes; C06 proves them unreachable. *)
From EB Require Export Base.ListX Base.Word Base.Outcome Vm.Machine.
Open Scope list_scope.
Open Scope Z_scope.

Definition encode_mutation (m : mutation) : list Z :=
  zlen (m_key m) :: m_key m ++ zlen (m_value m) :: m_value m.
Definition encode_mutation_size (m : mutation) : Z := 2 + zlen (m_key m) + zlen (m_value m).
Definition encode_mutations (ms : list mutation) : list Z := zlen ms :: flat_map encode_mutation ms.

Inductive mderr : Type := WordsTooShort | NegativeKeyLength | NegativeValueLength.

(* bytes[a..b] : panics unless a <= b <= len *)
Definition slice (site : string) (a b : Z) (ws : list Z) : outcome mderr (list Z) :=
  if (b <? a) || (zlen ws <? b) then Panic site
  else Ok (firstn (Z.to_nat (b - a)) (skipn (Z.to_nat a) ws)).
(* bytes[i] *)
Definition index (site : string) (i : Z) (ws : list Z) : outcome mderr Z :=
  if (i <? 0) || (zlen ws <=? i) then Panic site
  else match nth_error ws (Z.to_nat i) with Some w => Ok w | None => Panic site end.

Definition sat_usize (z : Z) : Z := Z.min z usize_max.      (* saturating_add results *)

(* decode_mutation *)
Definition decode_mutation (ws : list Z) : outcome mderr mutation :=
  if zlen ws <? 2 then Err WordsTooShort
  else let* k := index "decode_mutation: bytes[0]" 0 ws in
  if k <? 0 then Err NegativeKeyLength
  else
    let key_end := sat_usize (1 + k) in
    if zlen ws <=? key_end then Err WordsTooShort
    else let* key := slice "decode_mutation: bytes[1..key_end]" 1 key_end ws in
    let* vl := index "decode_mutation: bytes[key_end]" key_end ws in
    if vl <? 0 then Err NegativeValueLength
    else
      let value_start := sat_usize (2 + k) in
      let value_end := sat_usize (value_start + vl) in
      if zlen ws <? value_end then Err WordsTooShort
      else let* value := slice "decode_mutation: bytes[value_start..value_end]" value_start value_end ws in
      Ok {| m_key := key; m_value := value |}.

(* the `while i < bytes.len()` loop of decode_mutations; `ws` is bytes[i..] *)
Fixpoint decode_loop (fuel : nat) (ws : list Z) (acc : list mutation) : outcome mderr (list mutation) :=
  match ws with
  | [] => Ok (rev acc)
  | _ =>
    match fuel with
    | O => OutOfFuel
    | S f =>
      let* m := decode_mutation ws in
      decode_loop f (skipn (Z.to_nat (encode_mutation_size m)) ws) (m :: acc)
    end
  end.

(* decode_mutations *)
Definition decode_mutations (ws : list Z) : outcome mderr (list mutation) :=
  match ws with
  | [] => Err WordsTooShort
  | n :: rest =>
      if n <? 0 then Err NegativeValueLength
      else if n =? 0 then Ok []
      else decode_loop (length rest) rest []
  end.
