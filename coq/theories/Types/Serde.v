(* Model of the serde surface of crates/types for HUMAN-READABLE formats, at the level of serde's data model:
   a value tree as produced by `serde_json::to_value` / consumed by `serde_json::from_value`.
   (The binary postcard form is modelled in Types/Postcard.v.)

   Mirrors: the derives in lib.rs / solution.rs / predicate.rs / contract.rs (including `#[serde(alias = ...)]`),
   serde/hash.rs (upper-case hex string + exact length), serde/content_address.rs, serde/signature.rs (65 bytes),
   serde/bytecode.rs (`hex::serialize` = lower-case hex string, `hex::deserialize` = hex::decode).

   What serde's derived `Deserialize` for a struct does on a map, and what is modelled here:
   * every key is matched against the field names and their aliases; unknown keys are skipped (IgnoredAny);
   * a second occurrence of a field (under its name or an alias) is the error `duplicate_field`;
   * a field that never occurred is the error `missing_field` (no field here is an `Option` or has a default);
   hence a field is obtained iff EXACTLY ONE entry of the object carries one of its accepted names.
   serde_json also lets a struct be given as an array of exactly its fields in declaration order
   (`visit_seq`); that is modelled as well.  Newtype structs (`Program`) and the hand-written impls
   (`ContentAddress`, `Signature`) only accept a string. *)
From Coq Require Import String.
From Coq Require Import ZArith List Bool.
From EB Require Export Base.ListX Base.Word Base.Bytes Vm.Machine Types.PredicateCodec Types.Hex.
Open Scope string_scope.
Open Scope list_scope.
Open Scope Z_scope.

(* numbers, strings (lists of character codes), arrays, objects *)
Inductive sval : Type :=
| SNum (z : Z)
| SStr (cs : list Z)
| SSeq (l : list sval)
| SMap (fields : list (string * sval)).

(* ---------- generic machinery ---------- *)

Definition accepts (names : list string) (k : string) : bool := existsb (String.eqb k) names.
Definition matching (names : list string) (fs : list (string * sval)) : list (string * sval) :=
  filter (fun kv => accepts names (fst kv)) fs.
(* the value of the field known under `names`: exactly one matching entry *)
Definition field (names : list string) (fs : list (string * sval)) : option sval :=
  match matching names fs with
  | [kv] => Some (snd kv)
  | _ => None
  end.

Definition obind {A B} (o : option A) (k : A -> option B) : option B :=
  match o with Some a => k a | None => None end.

Fixpoint mapM {A B} (f : A -> option B) (l : list A) : option (list B) :=
  match l with
  | [] => Some []
  | x :: r => obind (f x) (fun y => obind (mapM f r) (fun ys => Some (y :: ys)))
  end.

(* Vec<T> *)
Definition ser_seq {A} (f : A -> sval) (l : list A) : sval := SSeq (map f l).
Definition de_seq {A} (f : sval -> option A) (v : sval) : option (list A) :=
  match v with SSeq l => mapM f l | _ => None end.

(* derived struct visitors with 2 and 3 fields (visit_map / visit_seq), and 1 field *)
Definition de_struct1 {A R} (n1 : list string) (d1 : sval -> option A) (mk : A -> R) (v : sval) : option R :=
  match v with
  | SMap fs => obind (obind (field n1 fs) d1) (fun a => Some (mk a))
  | SSeq [x1] => obind (d1 x1) (fun a => Some (mk a))
  | _ => None
  end.
Definition de_struct2 {A B R} (n1 n2 : list string) (d1 : sval -> option A) (d2 : sval -> option B)
    (mk : A -> B -> R) (v : sval) : option R :=
  match v with
  | SMap fs => obind (obind (field n1 fs) d1) (fun a => obind (obind (field n2 fs) d2) (fun b => Some (mk a b)))
  | SSeq [x1; x2] => obind (d1 x1) (fun a => obind (d2 x2) (fun b => Some (mk a b)))
  | _ => None
  end.
Definition de_struct3 {A B C R} (n1 n2 n3 : list string)
    (d1 : sval -> option A) (d2 : sval -> option B) (d3 : sval -> option C)
    (mk : A -> B -> C -> R) (v : sval) : option R :=
  match v with
  | SMap fs => obind (obind (field n1 fs) d1) (fun a => obind (obind (field n2 fs) d2) (fun b =>
               obind (obind (field n3 fs) d3) (fun c => Some (mk a b c))))
  | SSeq [x1; x2; x3] => obind (d1 x1) (fun a => obind (d2 x2) (fun b => obind (d3 x3) (fun c => Some (mk a b c))))
  | _ => None
  end.

(* ---------- primitives ---------- *)

(* Word = i64, Edge = u16: a JSON number, range-checked on input *)
Definition de_i64 (v : sval) : option Z := match v with SNum z => if i64b z then Some z else None | _ => None end.
Definition de_u16 (v : sval) : option Z := match v with SNum z => if u16b z then Some z else None | _ => None end.
Definition de_u8 (v : sval) : option Z := match v with SNum z => if byteb z then Some z else None | _ => None end.

(* Key / Value = Vec<Word> *)
Definition ser_hr_words (ws : list Z) : sval := ser_seq SNum ws.
Definition de_hr_words (v : sval) : option (list Z) := de_seq de_i64 v.

(* serde/hash.rs: hex::encode_upper as a string; String::deserialize, hex::decode, Vec<u8> -> [u8; N] *)
Definition ser_hr_hash (bs : list Z) : sval := SStr (hex_encode_upper bs).
Definition de_hr_hash (n : nat) (v : sval) : option (list Z) :=
  match v with SStr cs => parse_addr n cs | _ => None end.

(* ---------- the public types ---------- *)

(* ContentAddress([u8; 32]) *)
Definition ser_hr_content_address (a : list Z) : sval := ser_hr_hash a.
Definition de_hr_content_address (v : sval) : option (list Z) := de_hr_hash 32 v.

(* Signature([u8; 64], u8) as (bytes, id): a 65-byte upper-case hex string *)
Definition ser_hr_signature (sg : list Z * Z) : sval := ser_hr_hash (sig_bytes sg).
Definition de_hr_signature (v : sval) : option (list Z * Z) := option_map sig_of_bytes (de_hr_hash 65 v).

(* Program(Vec<u8>): newtype struct, bytecode::serialize = hex::serialize (lower case) *)
Definition ser_hr_program (bs : list Z) : sval := SStr (hex_encode_lower bs).
Definition de_hr_program (v : sval) : option (list Z) := match v with SStr cs => hex_decode cs | _ => None end.

(* Mutation { key, value } *)
Definition ser_hr_mutation (m : mutation) : sval :=
  SMap [("key", ser_hr_words (m_key m)); ("value", ser_hr_words (m_value m))].
Definition de_hr_mutation : sval -> option mutation :=
  de_struct2 ["key"] ["value"] de_hr_words de_hr_words (fun k v => {| m_key := k; m_value := v |}).

(* PredicateAddress { contract, predicate } as a pair *)
Definition ser_hr_predicate_address (pa : list Z * list Z) : sval :=
  SMap [("contract", ser_hr_content_address (fst pa)); ("predicate", ser_hr_content_address (snd pa))].
Definition de_hr_predicate_address : sval -> option (list Z * list Z) :=
  de_struct2 ["contract"] ["predicate"] de_hr_content_address de_hr_content_address (fun c p => (c, p)).

(* Solution { predicate_to_solve, predicate_data (alias decision_variables), state_mutations } *)
Definition ser_hr_solution (s : solution) : sval :=
  SMap [("predicate_to_solve", ser_hr_predicate_address (sol_contract s, sol_predicate s));
        ("predicate_data", ser_seq ser_hr_words (sol_data s));
        ("state_mutations", ser_seq ser_hr_mutation (sol_muts s))].
Definition de_hr_solution : sval -> option solution :=
  de_struct3 ["predicate_to_solve"] ["predicate_data"; "decision_variables"] ["state_mutations"]
    de_hr_predicate_address (de_seq de_hr_words) (de_seq de_hr_mutation)
    (fun pa d ms => {| sol_contract := fst pa; sol_predicate := snd pa; sol_data := d; sol_muts := ms |}).

(* SolutionSet { solutions (alias data) } as the list of its solutions *)
Definition ser_hr_solution_set (ss : list solution) : sval :=
  SMap [("solutions", ser_seq ser_hr_solution ss)].
Definition de_hr_solution_set : sval -> option (list solution) :=
  de_struct1 ["solutions"; "data"] (de_seq de_hr_solution) (fun ss => ss).

(* Node { edge_start, program_address } *)
Definition ser_hr_node (n : node) : sval :=
  SMap [("edge_start", SNum (n_edge_start n)); ("program_address", ser_hr_content_address (n_program n))].
Definition de_hr_node : sval -> option node :=
  de_struct2 ["edge_start"] ["program_address"] de_u16 de_hr_content_address
    (fun e a => {| n_edge_start := e; n_program := a |}).

(* Predicate { nodes, edges } *)
Definition ser_hr_predicate (p : predicate) : sval :=
  SMap [("nodes", ser_seq ser_hr_node (p_nodes p)); ("edges", ser_seq SNum (p_edges p))].
Definition de_hr_predicate : sval -> option predicate :=
  de_struct2 ["nodes"] ["edges"] (de_seq de_hr_node) (de_seq de_u16)
    (fun ns es => {| p_nodes := ns; p_edges := es |}).

(* Contract { predicates, salt (hash::serialize) } *)
Record contract : Type := { c_predicates : list predicate; c_salt : list Z (* 32 bytes *) }.
Definition ser_hr_contract (c : contract) : sval :=
  SMap [("predicates", ser_seq ser_hr_predicate (c_predicates c)); ("salt", ser_hr_hash (c_salt c))].
Definition de_hr_contract : sval -> option contract :=
  de_struct2 ["predicates"] ["salt"] (de_seq de_hr_predicate) (de_hr_hash 32)
    (fun ps s => {| c_predicates := ps; c_salt := s |}).

(* SignedContract { contract, signature } *)
Record signed_contract : Type := { sc_contract : contract; sc_signature : list Z * Z }.
Definition ser_hr_signed_contract (sc : signed_contract) : sval :=
  SMap [("contract", ser_hr_contract (sc_contract sc)); ("signature", ser_hr_signature (sc_signature sc))].
Definition de_hr_signed_contract : sval -> option signed_contract :=
  de_struct2 ["contract"] ["signature"] de_hr_contract de_hr_signature
    (fun c s => {| sc_contract := c; sc_signature := s |}).

(* ---------- input with legacy field names ---------- *)

(* rename the top-level field `old` of an object to `new` *)
Definition rename_field (old new : string) (v : sval) : sval :=
  match v with
  | SMap fs => SMap (map (fun kv => if String.eqb (fst kv) old then (new, snd kv) else kv) fs)
  | _ => v
  end.

(* what a producer using the old names wrote *)
Definition ser_hr_solution_legacy (s : solution) : sval :=
  rename_field "predicate_data" "decision_variables" (ser_hr_solution s).
Definition ser_hr_solution_set_legacy (ss : list solution) : sval :=
  SMap [("data", ser_seq ser_hr_solution_legacy ss)].
