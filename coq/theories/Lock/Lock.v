(* Interleaving model of `essential-lock` (/repo/crates/lock/src/lib.rs):

     pub struct StdLock<T> { data: std::sync::Mutex<T> }
     pub fn apply<U>(&self, f: impl FnOnce(&mut T) -> U) -> U {
         f(&mut self.data.lock().expect("Mutex was poisoned"))
     }

   The `MutexGuard` temporary lives until the end of the statement: the mutex is taken by `lock()`,
   then `f` runs on the protected value, then (after `f` returned) the guard is dropped.

   Model.  A closure `f : &mut T -> U` is a PURE function `T -> T * U` (value left in the cell, value
   returned).  Purity is how "non-reentrant use" is modelled: a closure cannot itself call `apply`
   (nor block, nor panic, so the mutex is never poisoned).  One call of `apply` is split in two
   atomic steps of the calling thread:
     acquire : lock() succeeds; the thread reads the protected value (its snapshot);
     finish  : the closure result computed from the SNAPSHOT is written back, the call is appended
               to the log, the guard is dropped.
   Splitting read and write-back makes a lost update expressible: in the broken variant below
   (no mutual exclusion) two threads can both snapshot the same value.  In the correct model the
   snapshot provably equals `data` during the whole critical section (LockProofs.inv_held).
   Threads are scheduled by an arbitrary list of thread ids (one id = one step of that thread);
   a thread whose next step is `acquire` while the lock is held is NOT enabled (it blocks). *)
From Coq Require Import ZArith List Lia Bool Arith.
Import ListNotations.

(* replace element number n (no change if out of range) *)
Fixpoint upd {A} (l : list A) (n : nat) (x : A) : list A :=
  match l, n with
  | [], _ => []
  | _ :: r, O => x :: r
  | a :: r, S m => a :: upd r m x
  end.

Section LockModel.
Variables T U : Type.

Definition closure : Type := T -> T * U.

Inductive phase : Type :=
| Idle
| Holding (snap : T).      (* lock acquired, protected value read; write-back pending *)

Record thread : Type := mkThread { prog : list closure; ph : phase }.

(* one completed call of `apply`; `e_fn` is a ghost field (which closure it was) *)
Record entry : Type := mkEntry {
  e_tid : nat; e_seen : T; e_written : T; e_result : U; e_fn : closure }.

Record state : Type := mkState {
  data : T;                 (* content of the mutex *)
  holder : option nat;      (* which thread owns the mutex *)
  threads : list thread;    (* thread id = index *)
  log : list entry          (* completed calls, oldest first (completion order) *)
}.

Definition init (v0 : T) (progs : list (list closure)) : state :=
  mkState v0 None (map (fun p => mkThread p Idle) progs) [].

Definition holder_is (h : option nat) (t : nat) : bool :=
  match h with Some t' => Nat.eqb t' t | None => false end.

Definition acquired (s : state) (t : nat) (th : thread) : state :=
  mkState (data s) (Some t) (upd (threads s) t (mkThread (prog th) (Holding (data s)))) (log s).

Definition finished (s : state) (t : nat) (snap : T) (f : closure) (rest : list closure) : state :=
  mkState (fst (f snap)) None (upd (threads s) t (mkThread rest Idle))
          (log s ++ [mkEntry t snap (fst (f snap)) (snd (f snap)) f]).

(* ---------- the lock: relational and executable small-step semantics ---------- *)
Inductive step (s : state) (t : nat) : state -> Prop :=
| step_acquire : forall th f rest,
    nth_error (threads s) t = Some th -> ph th = Idle -> prog th = f :: rest ->
    holder s = None ->
    step s t (acquired s t th)
| step_finish : forall th snap f rest,
    nth_error (threads s) t = Some th -> ph th = Holding snap -> prog th = f :: rest ->
    holder s = Some t ->
    step s t (finished s t snap f rest).

Definition step_fn (s : state) (t : nat) : option state :=
  match nth_error (threads s) t with
  | None => None
  | Some th =>
      match ph th, prog th with
      | _, [] => None                                   (* nothing left to do *)
      | Idle, _ :: _ =>
          match holder s with
          | None => Some (acquired s t th)
          | Some _ => None                              (* blocked in lock() *)
          end
      | Holding snap, f :: rest =>
          if holder_is (holder s) t then Some (finished s t snap f rest) else None
      end
  end.

Fixpoint run_schedule (s : state) (sched : list nat) : option state :=
  match sched with
  | [] => Some s
  | t :: r => match step_fn s t with Some s' => run_schedule s' r | None => None end
  end.

(* ---------- broken variant: a "lock" that does not exclude ---------- *)
Definition step_broken (s : state) (t : nat) : option state :=
  match nth_error (threads s) t with
  | None => None
  | Some th =>
      match ph th, prog th with
      | _, [] => None
      | Idle, _ :: _ => Some (acquired s t th)                   (* holder not checked *)
      | Holding snap, f :: rest => Some (finished s t snap f rest) (* ownership not checked *)
      end
  end.

Fixpoint run_broken (s : state) (sched : list nat) : option state :=
  match sched with
  | [] => Some s
  | t :: r => match step_broken s t with Some s' => run_broken s' r | None => None end
  end.

(* ---------- vocabulary for the properties ---------- *)
Definition all_done (s : state) : Prop := Forall (fun th => prog th = []) (threads s).

Definition has_work (s : state) : Prop :=
  exists t th, nth_error (threads s) t = Some th /\
               (prog th <> [] \/ exists snap, ph th = Holding snap).

(* the log read as a serial execution starting from value v: every call saw the value left by the
   previous one, and wrote/returned what its closure computes from that value *)
Fixpoint serial_chain (v : T) (l : list entry) : Prop :=
  match l with
  | [] => True
  | e :: r => e_seen e = v /\ e_fn e v = (e_written e, e_result e) /\ serial_chain (e_written e) r
  end.

(* running the logged closures one after the other *)
Definition replay (v : T) (l : list entry) : T := fold_left (fun x e => fst (e_fn e x)) l v.

Definition last_written (v : T) (l : list entry) : T := fold_left (fun _ e => e_written e) l v.

Definition calls_of (t : nat) (l : list entry) : list entry :=
  filter (fun e => Nat.eqb (e_tid e) t) l.

(* ---------- history checker (log format of the Rust harness) ---------- *)
(* A record is (tid, seen, written), listed in the order of the global sequence number that the
   harness draws inside the closure (i.e. under the lock). *)
Definition hrec : Type := (nat * T * T)%type.
Definition h_tid (r : hrec) : nat := fst (fst r).
Definition h_seen (r : hrec) : T := snd (fst r).
Definition h_written (r : hrec) : T := snd r.

Variable T_eqb : T -> T -> bool.

Fixpoint check_history (v : T) (l : list hrec) : bool :=
  match l with
  | [] => true
  | r :: rest => T_eqb (h_seen r) v && check_history (h_written r) rest
  end.

Fixpoint hist_chain (v : T) (l : list hrec) : Prop :=
  match l with
  | [] => True
  | r :: rest => h_seen r = v /\ hist_chain (h_written r) rest
  end.

Definition hist_of_log (l : list entry) : list hrec :=
  map (fun e => (e_tid e, e_seen e, e_written e)) l.

End LockModel.

Arguments Idle {T}.
Arguments Holding {T} snap.
Arguments mkThread {T U} prog ph.
Arguments prog {T U} t.
Arguments ph {T U} t.
Arguments mkEntry {T U} e_tid e_seen e_written e_result e_fn.
Arguments e_tid {T U} e.
Arguments e_seen {T U} e.
Arguments e_written {T U} e.
Arguments e_result {T U} e.
Arguments e_fn {T U} e.
Arguments mkState {T U} data holder threads log.
Arguments data {T U} s.
Arguments holder {T U} s.
Arguments threads {T U} s.
Arguments log {T U} s.
Arguments init {T U} v0 progs.
Arguments acquired {T U} s t th.
Arguments finished {T U} s t snap f rest.
Arguments step {T U} s t _.
Arguments step_fn {T U} s t.
Arguments run_schedule {T U} s sched.
Arguments step_broken {T U} s t.
Arguments run_broken {T U} s sched.
Arguments all_done {T U} s.
Arguments has_work {T U} s.
Arguments serial_chain {T U} v l.
Arguments replay {T U} v l.
Arguments last_written {T U} v l.
Arguments calls_of {T U} t l.
Arguments h_tid {T} r.
Arguments h_seen {T} r.
Arguments h_written {T} r.
Arguments check_history {T} T_eqb v l.
Arguments hist_chain {T} v l.
Arguments hist_of_log {T U} l.

(* the counter closure: fetch-and-increment *)
Definition incr : closure Z Z := fun x => (x + 1, x)%Z.
