(* Several locks (EXTRA for C20).  Threads apply closures to named locks; a closure of a thread's
   program is (lock id, closure).  Calls never nest (closures are pure), so a thread is inside at
   most one critical section: the one of the lock named by the head of its program.
   `proj d k` forgets everything that does not concern lock k and yields a state of the one-lock
   model Lock.v; MultiLockProofs shows every step on lock k is a step of that projection and
   every other step leaves it unchanged, so all one-lock theorems hold per lock. *)
From Coq Require Import ZArith List Lia Bool Arith.
From EB Require Import Lock.Lock.
Import ListNotations.

Section Multi.
Variables T U : Type.

Definition mclosure : Type := (nat * closure T U)%type.

Record mthread : Type := mkMThread { mprog : list mclosure; mph : phase T }.
Record cell : Type := mkCell { c_data : T; c_holder : option nat }.
Record mentry : Type := mkMEntry { me_lock : nat; me_entry : entry T U }.
Record mstate : Type := mkMState { cells : list cell; mthreads : list mthread; mlog : list mentry }.

Definition minit (vs : list T) (P : list (list mclosure)) : mstate :=
  mkMState (map (fun v => mkCell v None) vs) (map (fun p => mkMThread p Idle) P) [].

Definition mstep_fn (s : mstate) (t : nat) : option mstate :=
  match nth_error (mthreads s) t with
  | None => None
  | Some th =>
      match mprog th with
      | [] => None
      | (k, f) :: rest =>
          match nth_error (cells s) k with
          | None => None                                  (* no such lock *)
          | Some c =>
              match mph th with
              | Idle =>
                  match c_holder c with
                  | None =>
                      Some (mkMState (upd (cells s) k (mkCell (c_data c) (Some t)))
                                     (upd (mthreads s) t (mkMThread (mprog th) (Holding (c_data c))))
                                     (mlog s))
                  | Some _ => None                        (* blocked in lock() *)
                  end
              | Holding snap =>
                  if holder_is (c_holder c) t then
                    Some (mkMState (upd (cells s) k (mkCell (fst (f snap)) None))
                                   (upd (mthreads s) t (mkMThread rest Idle))
                                   (mlog s ++ [mkMEntry k (mkEntry t snap (fst (f snap)) (snd (f snap)) f)]))
                  else None
              end
          end
      end
  end.

Fixpoint mrun (s : mstate) (sched : list nat) : option mstate :=
  match sched with
  | [] => Some s
  | t :: r => match mstep_fn s t with Some s' => mrun s' r | None => None end
  end.

(* ---------- projection onto one lock ---------- *)
Definition on_lock (k : nat) (c : mclosure) : bool := Nat.eqb (fst c) k.

Definition proj_prog (k : nat) (p : list mclosure) : list (closure T U) := map snd (filter (on_lock k) p).

Definition proj_thread (k : nat) (th : mthread) : thread T U :=
  mkThread (proj_prog k (mprog th))
           (match mph th, mprog th with
            | Holding snap, c :: _ => if on_lock k c then Holding snap else Idle
            | _, _ => Idle
            end).

Definition lock_log (k : nat) (l : list mentry) : list (entry T U) :=
  map me_entry (filter (fun e => Nat.eqb (me_lock e) k) l).

Definition proj (d : T) (k : nat) (s : mstate) : state T U :=
  let c := nth k (cells s) (mkCell d None) in
  mkState (c_data c) (c_holder c) (map (proj_thread k) (mthreads s)) (lock_log k (mlog s)).

Definition m_all_done (s : mstate) : Prop := Forall (fun th => mprog th = []) (mthreads s).

Definition m_has_work (s : mstate) : Prop :=
  exists t th, nth_error (mthreads s) t = Some th /\
               (mprog th <> [] \/ exists snap, mph th = Holding snap).

End Multi.

Arguments mkMThread {T U} mprog mph.
Arguments mprog {T U} m.
Arguments mph {T U} m.
Arguments mkCell {T} c_data c_holder.
Arguments c_data {T} c.
Arguments c_holder {T} c.
Arguments mkMEntry {T U} me_lock me_entry.
Arguments me_lock {T U} m.
Arguments me_entry {T U} m.
Arguments mkMState {T U} cells mthreads mlog.
Arguments cells {T U} m.
Arguments mthreads {T U} m.
Arguments mlog {T U} m.
Arguments minit {T U} vs P.
Arguments mstep_fn {T U} s t.
Arguments mrun {T U} s sched.
Arguments on_lock {T U} k c.
Arguments proj_prog {T U} k p.
Arguments proj_thread {T U} k th.
Arguments lock_log {T U} k l.
Arguments proj {T U} d k s.
Arguments m_all_done {T U} s.
Arguments m_has_work {T U} s.
