(* C10 - Compute forks and joins child programs like a sequential loop over indices.
   This file contains statements only; every proof is `exact <lemma from Proofs/>`.
   Model: `compute_with run fuel climit v` (Vm/Exec.v, mirrors crates/vm/src/compute.rs); `run` executes one child.
   Reference: `compute_seq` / `compute_ref` (Spec/ComputeSpec.v), a left fold over the indices 0..n-1 that
   starts child i from `child_start v s0 i`, runs it, and appends its memory.  Stack top = head of the list. *)
From Coq Require Import ZArith List Bool.
From EB Require Import Vm.Exec Spec.ComputeSpec Proofs.ComputeProofs.
Open Scope list_scope.
Open Scope Z_scope.

(* ---------- the reference is a loop that runs the children one after another ---------- *)

(* no child has run yet: nothing joined, the parent's own pc and halt flag, no gas, no trace *)
Theorem C10_loop_start : forall run climit v s0,
  compute_seq_acc run climit v 0 s0
  = Some {| a_mem := []; a_pc := pc v; a_halt := halt v; a_gas := 0; a_tr := [] |}.
Proof. exact compute_seq_acc_zero. Qed.

(* the loop over n+1 indices is the loop over n indices followed by child n *)
Theorem C10_loop_step : forall run climit v n s0, 0 <= n ->
  compute_seq_acc run climit v (n + 1) s0 = seq_step run climit v s0 (compute_seq_acc run climit v n s0) n.
Proof. exact compute_seq_acc_succ. Qed.

(* ---------- 1. Compute = the sequential loop ---------- *)

(* For a top-level VM with breadth n on top of a stack of at most 4096 words and enough model fuel, Compute
   succeeds exactly when the sequential loop succeeds, with the same parent state (stack s0, memory = old
   memory ++ children's memories in index order, pc/parent_memory/halt/rstack untouched), the same control
   value CComputeResult max_pc children_gas halt, and the same trace. *)
Theorem C10_compute_is_sequential_loop : forall run fuel climit v n s0,
  stack v = n :: s0 -> 1 <= n -> parent_memory v = [] ->
  zlen (stack v) <= 4096 -> pc v < usize_max -> n <= Z.of_nat fuel ->
  forall x, compute_with run fuel climit v = Ok x <-> compute_seq run climit v n s0 = Some x.
Proof. exact compute_is_sequential_loop_top. Qed.

(* ... and when every child returns a value or a typed error (no panic, no fuel exhaustion) with a memory of
   at most 10240 words, a failing loop means that Compute returns a typed error (never a panic). *)
Theorem C10_compute_fails_when_loop_fails : forall run fuel climit v n s0,
  stack v = n :: s0 -> 1 <= n -> parent_memory v = [] ->
  zlen (stack v) <= 4096 -> pc v < usize_max -> n <= Z.of_nat fuel ->
  (forall cv r, run cv = Ok r -> zlen (memory (fst (fst r))) <= 10240) ->
  Z.of_nat fuel * 10240 <= i64_max ->
  (forall i, 0 <= i < n -> settled (run (child_start v s0 i))) ->
  compute_seq run climit v n s0 = None -> exists e, compute_with run fuel climit v = Err e.
Proof. exact compute_seq_failure_top. Qed.

(* The same for any VM state, against the reference of the whole operation (pop the breadth, refuse
   breadth < 1 and nesting, then loop). *)
Theorem C10_compute_matches_reference : forall run fuel climit v,
  zlen (stack v) <= 4096 -> pc v < usize_max -> hd 0 (stack v) <= Z.of_nat fuel ->
  forall x, compute_with run fuel climit v = Ok x <-> compute_ref run climit v = Some x.
Proof. exact compute_is_sequential_loop. Qed.

Theorem C10_compute_reference_failure : forall run fuel climit v,
  zlen (stack v) <= 4096 -> pc v < usize_max -> hd 0 (stack v) <= Z.of_nat fuel ->
  (forall cv r, run cv = Ok r -> zlen (memory (fst (fst r))) <= 10240) ->
  Z.of_nat fuel * 10240 <= i64_max ->
  (forall b s0 i, stack v = b :: s0 -> 0 <= i < b -> settled (run (child_start v s0 i))) ->
  compute_ref run climit v = None -> exists e, compute_with run fuel climit v = Err e.
Proof. exact compute_ref_failure. Qed.

(* ---------- 2. failures ---------- *)

(* no breadth word on the stack *)
Theorem C10_compute_failures_empty_stack : forall run fuel climit v,
  stack v = [] -> compute_with run fuel climit v = Err ECompute.
Proof. exact compute_fail_empty_stack. Qed.

(* breadth below 1 *)
Theorem C10_compute_failures_breadth : forall run fuel climit v b s0,
  stack v = b :: s0 -> b < 1 -> compute_with run fuel climit v = Err ECompute.
Proof. exact compute_fail_breadth. Qed.

(* nested Compute: a VM that already has a parent memory (it is itself a child) cannot Compute *)
Theorem C10_compute_failures_nested : forall run fuel climit v,
  1 <= zlen (parent_memory v) -> compute_with run fuel climit v = Err ECompute.
Proof. exact compute_fail_nested. Qed.

(* some child fails (and no child panics or exhausts the model's fuel) *)
Theorem C10_compute_failures_child_error : forall run fuel climit v n s0,
  stack v = n :: s0 -> 1 <= n -> parent_memory v = [] ->
  zlen (stack v) <= 4096 -> pc v < usize_max -> n <= Z.of_nat fuel ->
  (forall i, 0 <= i < n -> settled (run (child_start v s0 i))) ->
  (exists i e, 0 <= i < n /\ run (child_start v s0 i) = Err e) ->
  compute_with run fuel climit v = Err ECompute.
Proof. exact compute_fail_child_err_top. Qed.

(* all children succeed within the gas limit but old memory + children's memories exceed 10240 words *)
Theorem C10_compute_failures_memory : forall run fuel climit v n s0 a,
  stack v = n :: s0 -> 1 <= n -> parent_memory v = [] ->
  zlen (stack v) <= 4096 -> pc v < usize_max -> n <= Z.of_nat fuel ->
  (forall cv r, run cv = Ok r -> zlen (memory (fst (fst r))) <= 10240) ->
  Z.of_nat fuel * 10240 <= i64_max ->
  compute_seq_acc run climit v n s0 = Some a ->
  10240 < zlen (memory v) + zlen (a_mem a) ->
  compute_with run fuel climit v = Err EMemory.
Proof. exact compute_fail_memory_top. Qed.

(* ---------- 3. what a child starts from; children cannot modify the parent's memory ---------- *)

(* child i: parent's stack (without the breadth) plus the word i, empty memory, the parent's memory as the
   innermost read-only parent memory, the parent's repeat state, the next operation, halt flag clear *)
Theorem C10_child_start_state : forall v s0 i cv,
  child_vm v s0 i = Ok cv ->
  stack cv = i :: s0 /\ memory cv = [] /\ parent_memory cv = memory v :: parent_memory v /\
  rstack cv = rstack v /\ pc cv = pc v + 1 /\ halt cv = false.
Proof. exact child_start_state. Qed.

(* ... and it exists whenever the stack without the breadth has fewer than 4096 words *)
Theorem C10_child_start_exists : forall v s0 i,
  zlen s0 < 4096 -> pc v < usize_max -> child_vm v s0 i = Ok (child_start v s0 i).
Proof. exact child_start_exists. Qed.

(* after a successful Compute (any `run`, no side conditions) the old memory is a prefix of the new one, the
   stack lost exactly the breadth word, and pc, parent memory, repeat state and halt flag of the VM record
   are untouched (the new pc and halt flag travel in the control value) *)
Theorem C10_parent_memory_prefix : forall run fuel climit v v' c tr,
  compute_with run fuel climit v = Ok (v', c, tr) ->
  firstn (length (memory v)) (memory v') = memory v /\
  stack v' = tl (stack v) /\ pc v' = pc v /\ parent_memory v' = parent_memory v /\
  rstack v' = rstack v /\ halt v' = halt v.
Proof. exact compute_parent_unchanged. Qed.

(* ---------- 4. how the execution loop resumes ---------- *)

(* At a Compute whose own cost fits in the gas limit and whose children are run by `exec` with the gas that is
   left: the children's gas is added (out-of-gas error at the Compute if that exceeds the limit), the parent
   jumps to the furthest position p, ORs the halt flag, and stops there if it is set. *)
Theorem C10_exec_compute_resume : forall f E oa limit v spent tr v1 p g h ctr,
  oa (pc v) = Some OCompute ->
  (u64_max <? spent + e_cost E OCompute) || (limit <? spent + e_cost E OCompute) = false ->
  compute_with (fun cv => exec f E oa (limit - (spent + e_cost E OCompute)) cv 0 []) f
               (limit - (spent + e_cost E OCompute)) v = Ok (v1, CComputeResult p g h, ctr) ->
  exec (S f) E oa limit v spent tr =
    if (u64_max <? spent + e_cost E OCompute + g) || (limit <? spent + e_cost E OCompute + g)
    then Err (pc v, EOutOfGas, v)
    else if halt v1 || h
         then Ok ({| pc := p; stack := stack v1; memory := memory v1; parent_memory := parent_memory v1;
                     halt := halt v1 || h; rstack := rstack v1 |},
                  spent + e_cost E OCompute + g, ctr ++ OCompute :: tr)
         else exec f E oa limit
                   {| pc := p; stack := stack v1; memory := memory v1; parent_memory := parent_memory v1;
                      halt := halt v1 || h; rstack := rstack v1 |}
                   (spent + e_cost E OCompute + g) (ctr ++ OCompute :: tr).
Proof. exact exec_compute_resume. Qed.

(* a failing Compute fails the parent at the Compute's position with the Compute's error class *)
Theorem C10_exec_compute_error : forall f E oa limit v spent tr e,
  oa (pc v) = Some OCompute ->
  (u64_max <? spent + e_cost E OCompute) || (limit <? spent + e_cost E OCompute) = false ->
  compute_with (fun cv => exec f E oa (limit - (spent + e_cost E OCompute)) cv 0 []) f
               (limit - (spent + e_cost E OCompute)) v = Err e ->
  exec (S f) E oa limit v spent tr = Err (pc v, e, v).
Proof. exact exec_compute_error. Qed.

(* ---------- examples (every op costs 1, trivial oracles) ---------- *)
Definition ex_env : env :=
  {| e_solutions := []; e_index := 0%nat; e_pre := fun _ _ _ => Some []; e_post := fun _ _ _ => Some [];
     e_cost := fun _ => 1; e_sha256 := fun _ => repeat 0 32; e_ed25519 := fun _ _ _ => Some false;
     e_secp := fun _ _ _ => SecpParseErr |}.

(* final (pc, stack, memory, halt, gas) of a successful run / (position, class) of a failed run *)
Definition show_ok (r : X) : option (Z * list Z * list Z * bool * Z) :=
  match r with Ok (v, g, _) => Some (pc v, stack v, memory v, halt v, g) | _ => None end.
Definition show_err (r : X) : option (Z * errc) :=
  match r with Err (p, e, _) => Some (p, e) | _ => None end.

(* child i allocates i words: the parent ends with 0+1+2 = 3 words, an empty stack, at the op after ComputeEnd;
   gas = 2 (Push, Compute) + 3 children * 4 ops *)
Example C10_ex_alloc_by_index :
  show_ok (exec_ops 100 ex_env [OPush 3; OCompute; ODup; OAlloc; OPop; OComputeEnd] 1000 vm0)
  = Some (6, [], [0; 0; 0], false, 14).
Proof. vm_compute. reflexivity. Qed.

(* child i allocates one word and stores i in it: the children's memories are joined in index order *)
Example C10_ex_index_order :
  show_ok (exec_ops 100 ex_env [OPush 3; OCompute; OPush 1; OAlloc; OStore; OComputeEnd] 1000 vm0)
  = Some (6, [], [0; 1; 2], false, 14).
Proof. vm_compute. reflexivity. Qed.

(* the children's gas counts against the parent's limit: 14 is enough, 13 is not *)
Example C10_ex_children_gas :
  show_err (exec_ops 100 ex_env [OPush 3; OCompute; OPush 1; OAlloc; OStore; OComputeEnd] 13 vm0)
  = Some (1, EOutOfGas).
Proof. vm_compute. reflexivity. Qed.

(* even children stop at the ComputeEnd at 7 (pc 8); odd children jump to 8, allocate a word and stop at the
   ComputeEnd at 10 (pc 11): the parent resumes at 11 with the two words of children 1 and 3 *)
Example C10_ex_furthest_pc :
  show_ok (exec_ops 100 ex_env
             [OPush 4; OCompute; OPush 2; OMod; OPush 2; OSwap; OJumpIf; OComputeEnd;
              OPush 1; OAlloc; OComputeEnd] 1000 vm0)
  = Some (11, [], [0; 0], false, 30).
Proof. vm_compute. reflexivity. Qed.

(* children that stop at Halt (position 5) make the parent resume AT the Halt, which then stops the parent *)
Example C10_ex_child_halt :
  show_ok (exec_ops 100 ex_env [OPush 3; OCompute; OPush 1; OAlloc; OStore; OHalt; OPush 5] 1000 vm0)
  = Some (5, [], [0; 1; 2], false, 15).
Proof. vm_compute. reflexivity. Qed.

(* a nested Compute fails the child, hence the parent, at the parent's Compute *)
Example C10_ex_nested_fails :
  show_err (exec_ops 100 ex_env [OPush 1; OCompute; OPush 1; OCompute; OComputeEnd; OComputeEnd] 1000 vm0)
  = Some (1, ECompute).
Proof. vm_compute. reflexivity. Qed.

Example C10_ex_breadth_zero_fails :
  show_err (exec_ops 100 ex_env [OPush 0; OCompute] 1000 vm0) = Some (1, ECompute).
Proof. vm_compute. reflexivity. Qed.

(* a child error (popping an empty stack) fails the parent with the Compute class *)
Example C10_ex_child_error_fails :
  show_err (exec_ops 100 ex_env [OPush 2; OCompute; OPop; OPop; OComputeEnd] 1000 vm0) = Some (1, ECompute).
Proof. vm_compute. reflexivity. Qed.

(* two children with 10240 words each: the combined memory is above the limit *)
Example C10_ex_memory_limit_fails :
  show_err (exec_ops 100 ex_env [OPush 2; OCompute; OPush 10240; OAlloc; OComputeEnd] 1000 vm0)
  = Some (1, EMemory).
Proof. vm_compute. reflexivity. Qed.

(* the hypotheses of the main theorem on a concrete parent (pc 1, stack [3; 7], memory [9]) whose children are
   run by `exec`: model and sequential reference give the same value *)
Definition ex_prog : list op := [OPush 3; OCompute; OPush 1; OAlloc; OStore; OComputeEnd].
Definition ex_run (cv : vm) : X := exec 50 ex_env (op_at ex_prog) 100 cv 0 [].
Definition ex_parent : vm :=
  {| pc := 1; stack := [3; 7]; memory := [9]; parent_memory := []; halt := false; rstack := [] |}.

Example C10_ex_hypotheses :
  stack ex_parent = 3 :: [7] /\ 1 <= 3 /\ parent_memory ex_parent = [] /\
  zlen (stack ex_parent) <= 4096 /\ pc ex_parent < usize_max /\ 3 <= Z.of_nat 50 /\
  Z.of_nat 50 * 10240 <= i64_max.
Proof. vm_compute. repeat split; discriminate. Qed.

Example C10_ex_reference_value :
  compute_seq ex_run 100 ex_parent 3 [7]
  = Some ({| pc := 1; stack := [7]; memory := [9; 0; 1; 2]; parent_memory := []; halt := false; rstack := [] |},
          CComputeResult 6 12 false,
          [OComputeEnd; OStore; OAlloc; OPush 1; OComputeEnd; OStore; OAlloc; OPush 1;
           OComputeEnd; OStore; OAlloc; OPush 1]).
Proof. vm_compute. reflexivity. Qed.

Example C10_ex_model_value :
  compute_with ex_run 50 100 ex_parent
  = Ok ({| pc := 1; stack := [7]; memory := [9; 0; 1; 2]; parent_memory := []; halt := false; rstack := [] |},
        CComputeResult 6 12 false,
        [OComputeEnd; OStore; OAlloc; OPush 1; OComputeEnd; OStore; OAlloc; OPush 1;
         OComputeEnd; OStore; OAlloc; OPush 1]).
Proof. vm_compute. reflexivity. Qed.
