(* C08 - Stack, predicate, ALU and memory operations compute their documented results.  Statements only.
   `op_spec` (Spec/Ops.v) is the declarative reading of crates/asm-spec/asm.yml: stack top first,
   `Some (stack', memory')` = documented result, `None` = the operation fails. *)
From EB Require Import Vm.Exec Spec.Ops Proofs.OpsRefine Proofs.OpsRefine3 Proofs.OpsRefineAll Proofs.OpsAlgebra Proofs.OpsAlgebraModel.
Open Scope list_scope.
Open Scope Z_scope.

(* A data operation steps to (v', c) exactly when the specification gives the new stack and memory of v',
   control simply continues, and nothing else of the machine changes. *)
Theorem C08_data_op_refines_spec : forall E o v v' c,
  is_data_op o = true -> well_formed_op o -> zlen (stack v) <= 4096 -> zlen (memory v) <= 10240 ->
  (step_basic E o v = Ok (v', c) <->
   (op_spec o (stack v) (memory v) (parent_memory v) = Some (stack v', memory v') /\ c = CNext /\
    pc v' = pc v /\ halt v' = halt v /\ rstack v' = rstack v /\ parent_memory v' = parent_memory v)).
Proof. exact data_op_refines_spec. Qed.

(* Where the specification says the operation fails, the step is a typed error: no result, no panic. *)
Theorem C08_data_op_spec_none_is_error : forall E o v,
  is_data_op o = true -> well_formed_op o -> zlen (stack v) <= 4096 -> zlen (memory v) <= 10240 ->
  op_spec o (stack v) (memory v) (parent_memory v) = None -> exists e, step_basic E o v = Err e.
Proof. exact data_op_spec_none_is_error. Qed.

(* A data operation either produces a result and continues, or is a typed error (never a panic). *)
Theorem C08_data_op_total : forall E o v,
  is_data_op o = true -> zlen (stack v) <= 4096 -> zlen (memory v) <= 10240 ->
  (exists v', step_basic E o v = Ok (v', CNext)) \/ (exists e, step_basic E o v = Err e).
Proof. exact data_op_total. Qed.

(* If the operation at the program counter passes the gas check and fails, execution stops with an error
   that carries that operation's own index and the machine state from before the operation. *)
Theorem C08_error_at_own_index : forall f E oa limit v spent tr o e,
  oa (pc v) = Some o ->
  spent + e_cost E o <= 18446744073709551615 -> spent + e_cost E o <= limit ->
  o <> OCompute ->
  step_basic E o v = Err e ->
  exec (S f) E oa limit v spent tr = Err (pc v, e, v).
Proof. exact error_at_own_index. Qed.

(* The EqSet block parser of the specification reads exactly the documented encoding: a block (top word
   first) is the concatenation of `elem_len :: elem words`; and its comparison is set equality. *)
Theorem C08_block_elems_iff : forall blk es,
  block_elems blk = Some es <-> blk = flat_map (fun e => len e :: e) es.
Proof. exact block_elems_iff. Qed.
Theorem C08_same_set_spec : forall a b, same_set a b = true <-> (forall x, In x a <-> In x b).
Proof. exact same_set_spec. Qed.

(* ---------------- algebraic laws of the documented results ---------------- *)
(* Operand order matters only where documented: Add, Mul, Eq, And, Or, BitAnd, BitOr are commutative
   (including their failure behaviour); Gt/Lt and Gte/Lte mirror each other. *)
Theorem C08_commutative_ops : forall o a b s m pm,
  commutative_op o = true -> op_spec o (a :: b :: s) m pm = op_spec o (b :: a :: s) m pm.
Proof. exact commutative_op_spec. Qed.
Theorem C08_gt_lt_mirror : forall a b s m pm, op_spec OGt (a :: b :: s) m pm = op_spec OLt (b :: a :: s) m pm.
Proof. exact gt_lt_mirror. Qed.
Theorem C08_gte_lte_mirror : forall a b s m pm, op_spec OGte (a :: b :: s) m pm = op_spec OLte (b :: a :: s) m pm.
Proof. exact gte_lte_mirror. Qed.
(* Swap is its own inverse; x - x = 0 never fails; x = x holds; Not yields a boolean and inverts booleans. *)
Theorem C08_swap_involutive : forall s m pm s' m',
  op_spec OSwap s m pm = Some (s', m') -> op_spec OSwap s' m' pm = Some (s, m).
Proof. exact swap_involutive. Qed.
Theorem C08_sub_self : forall a s m pm, op_spec OSub (a :: a :: s) m pm = Some (0 :: s, m).
Proof. exact sub_self. Qed.
Theorem C08_eq_self : forall a s m pm, op_spec OEq (a :: a :: s) m pm = Some (1 :: s, m).
Proof. exact eq_self. Qed.
Theorem C08_not_boolean : forall a s m pm,
  exists r, op_spec ONot (a :: s) m pm = Some (r :: s, m) /\ (r = 0 \/ r = 1).
Proof. exact not_boolean. Qed.
Theorem C08_not_not_boolean : forall a s m pm, a = 0 \/ a = 1 ->
  op_spec ONot (a :: s) m pm = Some (b2z (a =? 0) :: s, m) /\
  op_spec ONot (b2z (a =? 0) :: s) m pm = Some (a :: s, m).
Proof. exact not_not_boolean. Qed.
(* Stack, predicate and ALU operations never touch memory. *)
Theorem C08_pure_stack_op_memory : forall o s m pm s' m',
  pure_stack_op o = true -> op_spec o s m pm = Some (s', m') -> m' = m.
Proof. exact pure_stack_op_memory. Qed.

(* The commutativity law carried over to the code-shaped model through the refinement theorem: with the two
   operands exchanged the machine reaches the very same state (and has no result exactly when it had none). *)
Theorem C08_model_commutative : forall E o a b s v v' c,
  commutative_op o = true -> zlen (a :: b :: s) <= 4096 -> zlen (memory v) <= 10240 ->
  step_basic E o (set_stack v (a :: b :: s)) = Ok (v', c) ->
  step_basic E o (set_stack v (b :: a :: s)) = Ok (v', c).
Proof. exact step_commutative. Qed.

(* ---------------- concrete evaluations of the specification (stack top first) ---------------- *)
(* Sub is lhs - rhs with rhs on top; it fails instead of wrapping *)
Example C08_ex_sub : op_spec OSub [3; 10; 77] [5] [] = Some ([7; 77], [5]) /\
                     op_spec OSub [1; -9223372036854775808] [] [] = None /\
                     op_spec OAdd [1; 9223372036854775807] [] [] = None /\
                     op_spec OMul [4294967296; 4294967296] [] [] = None.
Proof. vm_compute. repeat split. Qed.
(* Div / Mod truncate towards zero and fail for a zero divisor and for MIN / -1 *)
Example C08_ex_div : op_spec ODiv [2; -7] [] [] = Some ([-3], []) /\ op_spec OMod [2; -7] [] [] = Some ([-1], []) /\
                     op_spec ODiv [0; 5] [] [] = None /\ op_spec OMod [0; 5] [] [] = None /\
                     op_spec ODiv [-1; -9223372036854775808] [] [] = None /\
                     op_spec OMod [-1; -9223372036854775808] [] [] = None.
Proof. vm_compute. repeat split. Qed.
(* shifts: ShrI is floor division, Shr shifts the unsigned image, Shl keeps the low 64 bits; 0..63 only *)
Example C08_ex_shift : op_spec OShrI [1; -5] [] [] = Some ([-3], []) /\
                       op_spec OShr [60; -1] [] [] = Some ([15], []) /\
                       op_spec OShl [63; 3] [] [] = Some ([-9223372036854775808], []) /\
                       op_spec OShl [64; 1] [] [] = None /\ op_spec OShr [-1; 1] [] [] = None.
Proof. vm_compute. repeat split. Qed.
(* comparisons and logic give 0/1 *)
Example C08_ex_pred : op_spec OGt [3; 10] [] [] = Some ([1], []) /\ op_spec OLte [3; 10] [] [] = Some ([0], []) /\
                      op_spec OAnd [0; 7] [] [] = Some ([0], []) /\ op_spec OOr [0; 7] [] [] = Some ([1], []) /\
                      op_spec ONot [7] [] [] = Some ([0], []) /\ op_spec OBitAnd [6; 3] [] [] = Some ([2], []).
Proof. vm_compute. repeat split. Qed.
(* stack operations: exactly the addressed positions *)
Example C08_ex_stack :
  op_spec ODupFrom [2; 10; 11; 12; 13] [] [] = Some ([12; 10; 11; 12; 13], []) /\
  op_spec OSwapIndex [3; 10; 11; 12; 13; 14] [] [] = Some ([13; 11; 12; 10; 14], []) /\
  op_spec OSelect [1; 20; 10; 77] [] [] = Some ([20; 77], []) /\
  op_spec OSelect [2; 20; 10; 77] [] [] = None /\
  op_spec OSelectRange [1; 2; 4; 3; 2; 1; 77] [] [] = Some ([4; 3; 77], []) /\
  op_spec OSelectRange [0; 2; 4; 3; 2; 1; 77] [] [] = Some ([2; 1; 77], []) /\
  op_spec OLoadS [0; 10; 11; 12] [] [] = Some ([12; 10; 11; 12], []) /\
  op_spec OStoreS [0; 99; 10; 11; 12] [] [] = Some ([10; 11; 99], []) /\
  op_spec OReserve [2; 10; 11] [] [] = Some ([2; 0; 0; 10; 11], []) /\
  op_spec ODrop [2; 10; 11; 12] [] [] = Some ([12], []) /\ op_spec ODrop [3; 10; 11] [] [] = None.
Proof. vm_compute. repeat split. Qed.
(* a full stack: Push and Dup fail, Swap does not *)
Example C08_ex_full :
  op_spec (OPush 1) (repeat 0 4096) [] [] = None /\ op_spec ODup (repeat 0 4096) [] [] = None /\
  op_spec OSwap (1 :: 2 :: repeat 0 4094) [] [] = Some (2 :: 1 :: repeat 0 4094, []) /\
  op_spec OReserve (4094 :: 7 :: nil) [] [] = Some (1 :: repeat 0 4094 ++ [7], []) /\
  op_spec OReserve (4095 :: 7 :: nil) [] [] = None.
Proof. vm_compute. repeat split. Qed.
(* EqRange compares exactly the two addressed ranges; EqSet ignores order and duplicates, rejects bad blocks *)
Example C08_ex_eq :
  op_spec OEqRange [2; 4; 3; 4; 3; 77] [] [] = Some ([1; 77], []) /\
  op_spec OEqRange [2; 4; 3; 4; 5; 77] [] [] = Some ([0; 77], []) /\
  op_spec OEqRange [0; 77] [] [] = Some ([1; 77], []) /\
  op_spec OEqRange [3; 1; 2; 3; 1; 2] [] [] = None /\
  (* lhs = {[1],[1],[2]}, rhs = {[2],[1]} *)
  op_spec OEqSet [4; 1; 1; 1; 2;  6; 1; 2; 1; 1; 1; 1;  77] [] [] = Some ([1; 77], []) /\
  (* lhs = {[1]}, rhs = {[2],[1]} *)
  op_spec OEqSet [4; 1; 1; 1; 2;  2; 1; 1;  77] [] [] = Some ([0; 77], []) /\
  (* rhs block [5; 1]: element length 5 exceeds the block *)
  op_spec OEqSet [2; 5; 1;  0;  77] [] [] = None.
Proof. vm_compute. repeat split. Qed.
(* memory: exactly the addressed words, everything else unchanged *)
Example C08_ex_memory :
  op_spec OStoreRange [1; 2; 8; 7; 99] [50; 51; 52; 53] [] = Some ([99], [50; 7; 8; 53]) /\
  op_spec OStoreRange [3; 2; 8; 7; 99] [50; 51; 52; 53] [] = None /\
  op_spec OLoadRange [2; 1; 99] [50; 51; 52; 53] [] = Some ([52; 51; 99], [50; 51; 52; 53]) /\
  op_spec OStore [2; 9; 99] [50; 51; 52; 53] [] = Some ([99], [50; 51; 9; 53]) /\
  op_spec OLoad [4; 99] [50; 51; 52; 53] [] = None /\
  op_spec OAlloc [2; 99] [50; 51] [] = Some ([2; 99], [50; 51; 0; 0]) /\
  op_spec OAlloc [10239; 99] [50; 51] [] = None /\
  op_spec OFree [1; 99] [50; 51] [] = Some ([99], [50]) /\ op_spec OFree [3; 99] [50; 51] [] = None /\
  op_spec OLoadP [1; 99] [50] [[60; 61]; [70]] = Some ([61; 99], [50]) /\
  op_spec OLoadP [0; 99] [50] [] = None /\
  op_spec OLoadRangeP [2; 0; 99] [50] [[60; 61]] = Some ([61; 60; 99], [50]).
Proof. vm_compute. repeat split. Qed.

(* the model on a concrete machine: the hypotheses of the theorems are satisfiable *)
Definition C08_env : env :=
  {| e_solutions := []; e_index := 0; e_pre := fun _ _ _ => None; e_post := fun _ _ _ => None;
     e_cost := fun _ => 1; e_sha256 := fun _ => repeat 0 32; e_ed25519 := fun _ _ _ => None;
     e_secp := fun _ _ _ => SecpParseErr |}.
Definition C08_vm : vm :=
  {| pc := 2; stack := [0; 10; 77]; memory := [5; 6]; parent_memory := []; halt := false; rstack := [] |}.
Example C08_ex_model :
  step_basic C08_env OSub C08_vm = Ok (set_stack C08_vm [10; 77], CNext) /\
  op_spec OSub (stack C08_vm) (memory C08_vm) (parent_memory C08_vm) = Some ([10; 77], [5; 6]) /\
  step_basic C08_env ODiv C08_vm = Err EAlu /\
  op_spec ODiv (stack C08_vm) (memory C08_vm) (parent_memory C08_vm) = None /\
  exec 5 C08_env (op_at [OPush 10; OPush 0; ODiv; OPop]) 100 C08_vm 2 [] = Err (2, EAlu, C08_vm).
Proof. vm_compute. repeat split. Qed.
