(* C01 - Solution-set verdict equals the predicate-graph reference semantics.  Statements only.
   (Per-graph core: level sort, rejection of malformed/cyclic graphs before any run, evaluation order,
   inputs, and verdict = reference.  The reference semantics is Spec/GraphRef.v.) *)
From Coq Require Import List Arith Permutation Sorted.
From EB Require Import Proofs.KahnBase Proofs.Kahn Spec.InnerSpec Proofs.InnerEval Spec.GraphRef Proofs.C01Glue.
Import ListNotations.
Open Scope nat_scope.

(* The level sort succeeds exactly on acyclic graphs (edges counted with multiplicity, any numbering) ... *)
Theorem C01_kahn_ok_iff_acyclic : forall p pm, create_parent_map p = Ok pm ->
  ((exists levels, parallel_topo_sort p pm = Ok levels) <-> acyclic p).
Proof. exact kahn_ok_iff_acyclic. Qed.

(* ... it never runs out of fuel and never panics ... *)
Theorem C01_kahn_total : forall p pm, create_parent_map p = Ok pm ->
  parallel_topo_sort p pm <> OutOfFuel /\ forall s, parallel_topo_sort p pm <> Panic s.
Proof. exact kahn_no_fuel_no_panic. Qed.

(* ... and its levels list every node exactly once, with every edge going to a strictly later level. *)
Theorem C01_kahn_levels : forall p pm levels,
  create_parent_map p = Ok pm -> parallel_topo_sort p pm = Ok levels ->
  Permutation (concat levels) (seq 0 (length (p_nodes p))) /\
  NoDup (concat levels) /\ (forall v, In v (concat levels) <-> v < length (p_nodes p)) /\
  (forall L, In L levels -> L <> []) /\
  (forall L, In L levels -> StronglySorted lt L) /\
  (forall u v i j Li Lj, KahnBase.edge p u v ->
     nth_error levels i = Some Li -> In u Li -> nth_error levels j = Some Lj -> In v Lj -> i < j).
Proof. exact kahn_levels. Qed.

(* The parent map lists the parents of a node in ascending order, once per edge: the reference's parents. *)
Theorem C01_parents_of_spec : forall p pm, create_parent_map p = Ok pm ->
  forall v, parents_of pm v = parents_ref p v.
Proof. exact parents_of_spec. Qed.

(* A graph whose edge lists are malformed is rejected: invalid-graph error, cache untouched, NOT A SINGLE program run. *)
Theorem C01_malformed_rejected_before_any_run :
  forall run p collect_all is_def mode cache ix,
    create_parent_map p = Err (InvalidNodeEdges ix) ->
    check_predicate_inner run p collect_all is_def mode cache
    = Ok {| ir_res := Err (PInvalidNodeEdges ix); ir_cache := cache; ir_events := [] |}.
Proof. exact malformed_parent_map. Qed.

(* The same for a cyclic graph. *)
Theorem C01_cyclic_rejected_before_any_run :
  forall run p collect_all is_def mode cache pm ix,
    create_parent_map p = Ok pm -> parallel_topo_sort p pm = Err (InvalidNodeEdges ix) ->
    check_predicate_inner run p collect_all is_def mode cache
    = Ok {| ir_res := Err (PInvalidNodeEdges ix); ir_cache := cache; ir_events := [] |}.
Proof. exact malformed_topo_sort. Qed.

(* When no program fails, every node is run exactly once, after all of its parents. *)
Theorem C01_each_node_once_after_parents :
  forall run p collect_all pm levels r,
    create_parent_map p = Ok pm -> parallel_topo_sort p pm = Ok levels ->
    single_pass run p collect_all = Ok r -> no_program_failed (ir_res r) ->
    map fst (ir_events r) = concat levels /\ NoDup (map fst (ir_events r)) /\
    Permutation (map fst (ir_events r)) (seq 0 (length (p_nodes p))) /\
    forall pre v ins post, ir_events r = pre ++ (v, ins) :: post ->
                           forall u, In u (parents_ref p v) -> In u (map fst pre).
Proof. exact c01_each_node_once. Qed.

(* Its inputs are exactly the (stack, memory) results of its parents in ascending parent order, once per edge. *)
Theorem C01_inputs_are_parent_outputs :
  forall run p collect_all pm levels r,
    create_parent_map p = Ok pm -> parallel_topo_sort p pm = Ok levels ->
    single_pass run p collect_all = Ok r -> run_respects_leaf run -> no_program_failed (ir_res r) ->
    forall v ins, In (v, ins) (ir_events r) ->
      ins = flat_map (fun u => opt_list (out_of_events run p (ir_events r) u)) (parents_ref p v) /\
      forall u, In u (parents_ref p v) -> is_leaf p u = false /\ exists o, out_of_events run p (ir_events r) u = Some o.
Proof. exact c01_inputs. Qed.

(* The check succeeds exactly when, in the reference semantics, every node runs without failing and every leaf ends
   with 1 or with a data output ... *)
Theorem C01_verdict_equals_reference :
  forall run p collect_all pm levels r,
    create_parent_map p = Ok pm -> parallel_topo_sort p pm = Ok levels ->
    single_pass run p collect_all = Ok r -> run_respects_leaf run ->
    ((exists gas data, ir_res r = Ok (gas, data)) <-> (forall v, v < length (p_nodes p) -> good_val (vals p run v))).
Proof. exact c01_ok_iff. Qed.

(* ... with the reference gas (saturating sum over all nodes) and the memories of the data-output leaves ... *)
Theorem C01_gas_and_data_equal_reference :
  forall run p collect_all pm levels r,
    create_parent_map p = Ok pm -> parallel_topo_sort p pm = Ok levels ->
    single_pass run p collect_all = Ok r -> run_respects_leaf run ->
    forall gas data, ir_res r = Ok (gas, data) ->
      gas = fold_left (fun a v => gas_add a (vals p run v)) (concat levels) 0%Z /\
      data = flat_map (fun v => data_of (vals p run v)) (concat levels).
Proof. exact c01_ok_values. Qed.

(* ... "unsatisfied" reports exactly the leaves that did not end with 1 / a data output ... *)
Theorem C01_unsatisfied_equals_reference :
  forall run p collect_all pm levels r,
    create_parent_map p = Ok pm -> parallel_topo_sort p pm = Ok levels ->
    single_pass run p collect_all = Ok r -> run_respects_leaf run ->
    forall us, ir_res r = Err (PConstraintsUnsatisfied us) ->
      (forall v, v < length (p_nodes p) -> ran_ok (vals p run v)) /\ us <> [] /\
      us = flat_map (fun v => unsat_of v (vals p run v)) (concat levels).
Proof. exact c01_unsat. Qed.

(* ... and the first reported failing node is a genuine failure of the reference on complete inputs. *)
Theorem C01_failure_is_genuine :
  forall run p collect_all pm levels r,
    create_parent_map p = Ok pm -> parallel_topo_sort p pm = Ok levels ->
    single_pass run p collect_all = Ok r -> run_respects_leaf run ->
    forall failed, ir_res r = Err (PProgramErrors failed) ->
      exists f tl pre post, failed = f :: tl /\ concat levels = pre ++ f :: post /\
        (forall v, In v pre -> ran_ok (vals p run v)) /\ vals p run f = Ok NVFail /\ (collect_all = false -> tl = []).
Proof. exact c01_failed. Qed.
