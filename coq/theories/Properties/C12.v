(* C12 - Access and crypto ops expose solution data and agree with the hash/sign crates.
   This file contains statements only; every proof is `exact <lemma from Proofs/AccessCrypto.v>`.
   Stack lists have the TOP AT THE HEAD.  The hash and signature primitives are the opaque oracles
   e_sha256 / e_ed25519 / e_secp of the environment: every statement holds for ALL oracles and says exactly
   which bytes they are applied to.  `r` is the repeat stack (irrelevant for these ops). *)
From EB Require Import Vm.Step Spec.StateReadSpec Proofs.StateReadProofs Proofs.AccessCrypto.
Open Scope list_scope.
Open Scope Z_scope.

(* ---- PredicateData: exactly the addressed words, pushed in order (last word on top) ---- *)
(* (the first hypothesis says that the slot, a Rust Vec, has a usize length) *)
Theorem C12_predicate_data_spec : forall E r len vix six s s',
  zlen (nth (Z.to_nat six) (sol_data (this_solution E)) []) <= 18446744073709551615 -> zlen s <= 4096 ->
  (step_access E OPredicateData (len :: vix :: six :: s) r = Ok s' <->
   (0 <= six < zlen (sol_data (this_solution E)) /\ 0 <= vix /\ 0 <= len /\
    vix + len <= zlen (nth (Z.to_nat six) (sol_data (this_solution E)) [])) /\
   zlen s + len <= 4096 /\
   s' = rev (firstn (Z.to_nat len) (skipn (Z.to_nat vix) (nth (Z.to_nat six) (sol_data (this_solution E)) []))) ++ s).
Proof. exact predicate_data_spec. Qed.

(* any out-of-range request is an access error *)
Theorem C12_predicate_data_out_of_range : forall E r len vix six s,
  zlen (nth (Z.to_nat six) (sol_data (this_solution E)) []) <= 18446744073709551615 ->
  ~ (0 <= six < zlen (sol_data (this_solution E)) /\ 0 <= vix /\ 0 <= len /\
     vix + len <= zlen (nth (Z.to_nat six) (sol_data (this_solution E)) [])) ->
  step_access E OPredicateData (len :: vix :: six :: s) r = Err EAccess.
Proof. exact predicate_data_out_of_range. Qed.

(* in range but the words do not fit the stack: a stack error *)
Theorem C12_predicate_data_overflow : forall E r len vix six s,
  zlen (nth (Z.to_nat six) (sol_data (this_solution E)) []) <= 18446744073709551615 ->
  (0 <= six < zlen (sol_data (this_solution E)) /\ 0 <= vix /\ 0 <= len /\
   vix + len <= zlen (nth (Z.to_nat six) (sol_data (this_solution E)) [])) ->
  zlen s <= 4096 -> 4096 < zlen s + len ->
  step_access E OPredicateData (len :: vix :: six :: s) r = Err EStack.
Proof. exact predicate_data_overflow. Qed.

(* missing operands are an access error; and the outcome is never a panic *)
Theorem C12_predicate_data_short_stack : forall E r s, (length s < 3)%nat ->
  step_access E OPredicateData s r = Err EAccess.
Proof. exact predicate_data_short_stack. Qed.
Theorem C12_predicate_data_no_panic : forall E r len vix six s,
  zlen (nth (Z.to_nat six) (sol_data (this_solution E)) []) <= 18446744073709551615 -> zlen s <= 4096 ->
  (exists s', step_access E OPredicateData (len :: vix :: six :: s) r = Ok s') \/
  step_access E OPredicateData (len :: vix :: six :: s) r = Err EAccess \/
  step_access E OPredicateData (len :: vix :: six :: s) r = Err EStack.
Proof. exact predicate_data_no_panic. Qed.

(* ---- PredicateDataLen: the length of the slot, an access error for an out-of-range slot; the
        `expect` (Panic) branch is unreachable on a stack within the limit ---- *)
Theorem C12_predicate_data_len_spec : forall E r six s, zlen (six :: s) <= 4096 ->
  step_access E OPredicateDataLen (six :: s) r =
  if (0 <=? six) && (six <? zlen (sol_data (this_solution E)))
  then Ok (zlen (nth (Z.to_nat six) (sol_data (this_solution E)) []) :: s) else Err EAccess.
Proof. exact predicate_data_len_spec. Qed.
Theorem C12_predicate_data_len_empty : forall E r, step_access E OPredicateDataLen [] r = Err EAccess.
Proof. exact predicate_data_len_empty. Qed.

(* ---- PredicateDataSlots: the number of slots ---- *)
Theorem C12_predicate_data_slots_spec : forall E r s,
  step_access E OPredicateDataSlots s r =
  if zlen s <? 4096 then Ok (zlen (sol_data (this_solution E)) :: s) else Err EStack.
Proof. exact predicate_data_slots_spec. Qed.

(* ---- ThisAddress / ThisContractAddress: the 32-byte address as 4 big-endian words (first word deepest) ---- *)
Theorem C12_this_address_spec : forall E r s, zlen s <= 4096 -> length (sol_predicate (this_solution E)) = 32%nat ->
  step_access E OThisAddress s r =
  if zlen s + 4 <=? 4096 then Ok (rev (words4 (sol_predicate (this_solution E))) ++ s) else Err EStack.
Proof. exact this_address_spec. Qed.
Theorem C12_this_contract_address_spec : forall E r s, zlen s <= 4096 -> length (sol_contract (this_solution E)) = 32%nat ->
  step_access E OThisContractAddress s r =
  if zlen s + 4 <=? 4096 then Ok (rev (words4 (sol_contract (this_solution E))) ++ s) else Err EStack.
Proof. exact this_contract_address_spec. Qed.

(* 32 bytes <-> 4 words is a bijection, so the pushed words determine the address and conversely *)
Theorem C12_words4_bytes32_inverse :
  (forall b, length b = 32%nat -> Forall byte b -> bytes_of_words (words4 b) = b) /\
  (forall ws, length ws = 4%nat -> Forall i64 ws -> words4 (bytes_of_words ws) = ws).
Proof. exact words4_bytes32_inverse. Qed.

(* ---- PredicateExists: 1 exactly when some solution of the set hashes to the given 4 words ---- *)
Theorem C12_predicate_exists_spec : forall E r w0 w1 w2 w3 s, zlen (w3 :: w2 :: w1 :: w0 :: s) <= 4096 ->
  exists b, step_access E OPredicateExists (w3 :: w2 :: w1 :: w0 :: s) r = Ok (word_of_bool b :: s) /\
    (b = true <-> exists sol, In sol (e_solutions E) /\
                              e_sha256 E (pred_data_preimage sol) = bytes_of_words [w0; w1; w2; w3]).
Proof. exact predicate_exists_spec. Qed.
(* the hashed bytes: length-prefixed slots, then contract, then predicate address *)
Theorem C12_pred_data_preimage : forall sol,
  pred_data_preimage sol =
  bytes_of_words (flat_map (fun slot => zlen slot :: slot) (sol_data sol)
                  ++ words4 (sol_contract sol) ++ words4 (sol_predicate sol)).
Proof. exact pred_data_preimage_spec. Qed.
Theorem C12_predicate_exists_short : forall E r s, (length s < 4)%nat ->
  step_access E OPredicateExists s r = Err EStack.
Proof. exact predicate_exists_short. Qed.

(* ---- Sha256: hashes exactly the first n bytes of the ceil(n/8) words below the length ---- *)
Theorem C12_sha256_op_spec : forall E n ws s, 0 <= n -> zlen ws = (n + 7) / 8 -> zlen s + 4 <= 4096 ->
  step_crypto E OSha256 (n :: rev ws ++ s) =
  Ok (rev (words4 (e_sha256 E (firstn (Z.to_nat n) (bytes_of_words ws)))) ++ s).
Proof. exact sha256_op_spec. Qed.
(* a whole number of words *)
Theorem C12_sha256_whole_words : forall E ws s, zlen s + 4 <= 4096 ->
  step_crypto E OSha256 (8 * zlen ws :: rev ws ++ s) = Ok (rev (words4 (e_sha256 E (bytes_of_words ws))) ++ s).
Proof. exact sha256_whole_words. Qed.
(* no room for the 4 digest words (only possible when fewer than 3 data words were popped) *)
Theorem C12_sha256_no_room : forall E n ws s, 0 <= n -> zlen ws = (n + 7) / 8 -> zlen s <= 4096 ->
  length (e_sha256 E (firstn (Z.to_nat n) (bytes_of_words ws))) = 32%nat -> 4096 < zlen s + 4 ->
  step_crypto E OSha256 (n :: rev ws ++ s) = Err EStack.
Proof. exact sha256_op_full. Qed.
(* empty stack, negative length or too few words: a stack error *)
Theorem C12_sha256_bad_operands : forall E s,
  match s with [] => True | n :: s1 => n < 0 \/ zlen s1 < (n + 7) / 8 end ->
  step_crypto E OSha256 s = Err EStack.
Proof. exact sha256_op_error. Qed.

(* ---- VerifyEd25519: the oracle gets exactly key (4 words), signature (8 words), first n message bytes ---- *)
Theorem C12_verify_ed25519_marshalling : forall E key4 sig8 n ws s,
  length key4 = 4%nat -> length sig8 = 8%nat -> 0 <= n -> zlen ws = (n + 7) / 8 -> zlen s < 4096 ->
  step_crypto E OVerifyEd25519 (rev key4 ++ rev sig8 ++ n :: rev ws ++ s) =
  match e_ed25519 E (bytes_of_words key4) (bytes_of_words sig8) (firstn (Z.to_nat n) (bytes_of_words ws)) with
  | None => Err ECrypto
  | Some b => Ok (word_of_bool b :: s)
  end.
Proof. exact verify_ed25519_marshalling. Qed.
Theorem C12_verify_ed25519_short : forall E s, (length s < 13)%nat -> step_crypto E OVerifyEd25519 s = Err EStack.
Proof. exact verify_ed25519_short. Qed.

(* ---- RecoverSecp256k1 ---- *)
(* a recovery id outside 0..3 is a crypto error; the oracle does not appear in the result *)
Theorem C12_recover_secp256k1_bad_id : forall E rid sig8 h4 s, length sig8 = 8%nat -> length h4 = 4%nat ->
  rid < 0 \/ 3 < rid ->
  step_crypto E ORecoverSecp256k1 (rid :: rev sig8 ++ rev h4 ++ s) = Err ECrypto.
Proof. exact recover_secp256k1_bad_id. Qed.
(* otherwise the oracle gets (digest, signature, id); malformed signature -> error; well-formed but
   unrecoverable -> five zero words; key (33 bytes) -> 4 words of the first 32 bytes, then the 33rd byte on top *)
Theorem C12_recover_secp256k1_marshalling : forall E rid sig8 h4 s, length sig8 = 8%nat -> length h4 = 4%nat ->
  0 <= rid <= 3 -> zlen s + 5 <= 4096 ->
  step_crypto E ORecoverSecp256k1 (rid :: rev sig8 ++ rev h4 ++ s) =
  match e_secp E (bytes_of_words h4) (bytes_of_words sig8) rid with
  | SecpParseErr => Err ECrypto
  | SecpNoKey => Ok (0 :: 0 :: 0 :: 0 :: 0 :: s)
  | SecpKey k => Ok (nth 32 k 0 :: rev (words4 (firstn 32 k)) ++ s)
  end.
Proof. exact recover_secp256k1_marshalling. Qed.
Theorem C12_recover_secp256k1_short : forall E s, (length s < 13)%nat -> step_crypto E ORecoverSecp256k1 s = Err EStack.
Proof. exact recover_secp256k1_short. Qed.

(* ---- non-vacuity (example_env: solution 1 has data [[10;11;12];[];[13]], contract 01.., predicate 02..;
        its "hash" is the first 32 bytes of the input, zero padded) ---- *)
Example C12_example_predicate_data : step_access example_env OPredicateData [2; 1; 0; 99] [] = Ok [12; 11; 99].
Proof. vm_compute. reflexivity. Qed.
Example C12_example_predicate_data_out_of_range : step_access example_env OPredicateData [3; 1; 0; 99] [] = Err EAccess.
Proof. vm_compute. reflexivity. Qed.
Example C12_example_predicate_data_len :
  step_access example_env OPredicateDataLen [0; 99] [] = Ok [3; 99] /\
  step_access example_env OPredicateDataLen [3; 99] [] = Err EAccess /\
  step_access example_env OPredicateDataSlots [99] [] = Ok [3; 99].
Proof. vm_compute. auto. Qed.
Example C12_example_this_address :
  step_access example_env OThisAddress [99] [] =
    Ok [144680345676153346; 144680345676153346; 144680345676153346; 144680345676153346; 99] /\
  step_access example_env OThisContractAddress [99] [] =
    Ok [72340172838076673; 72340172838076673; 72340172838076673; 72340172838076673; 99].
Proof. vm_compute. auto. Qed.
(* the preimage of solution 1 starts with the words 3 10 11 12, so its stand-in hash is those 4 words *)
Example C12_example_predicate_exists :
  step_access example_env OPredicateExists [12; 11; 10; 3; 99] [] = Ok [1; 99] /\
  step_access example_env OPredicateExists [4; 3; 2; 1; 99] [] = Ok [0; 99].
Proof. vm_compute. auto. Qed.
(* 11 bytes = 2 words, the last 5 bytes of the second word are not hashed *)
Example C12_example_sha256 :
  step_crypto example_env OSha256 [11; 72623859790382856; 1; 99] = Ok [0; 0; 72623842526232576; 1; 99].
Proof. vm_compute. reflexivity. Qed.
Example C12_example_verify_ed25519 :
  step_crypto example_env OVerifyEd25519 ([1; 1; 1; 1] ++ [8; 7; 6; 5; 4; 3; 2; 1] ++ [3; 0; 99]) = Ok [1; 99] /\
  step_crypto example_env OVerifyEd25519 ([1; 1; 1; 1] ++ [8; 7; 6; 5; 4; 3; 2; 1] ++ [3; 72057594037927936; 99]) = Ok [0; 99] /\
  step_crypto example_env OVerifyEd25519 ([2; 1; 1; 1] ++ [8; 7; 6; 5; 4; 3; 2; 1] ++ [3; 0; 99]) = Err ECrypto.
Proof. vm_compute. auto. Qed.
Example C12_example_recover_secp256k1 :
  step_crypto example_env ORecoverSecp256k1 ([0] ++ [8; 7; 6; 5; 4; 3; 2; 1] ++ [4; 3; 2; 1] ++ [99]) = Ok [0; 0; 0; 0; 0; 99] /\
  step_crypto example_env ORecoverSecp256k1 ([1] ++ [8; 7; 6; 5; 4; 3; 2; 1] ++ [4; 3; 2; 1] ++ [99]) = Ok [3; 5; 0; 0; 0; 99] /\
  step_crypto example_env ORecoverSecp256k1 ([2] ++ [8; 7; 6; 5; 4; 3; 2; 1] ++ [4; 3; 2; 1] ++ [99]) = Err ECrypto /\
  step_crypto example_env ORecoverSecp256k1 ([4] ++ [8; 7; 6; 5; 4; 3; 2; 1] ++ [4; 3; 2; 1] ++ [99]) = Err ECrypto.
Proof. vm_compute. auto. Qed.
