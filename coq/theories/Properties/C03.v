(* C03 - Deferral and post-state reads of the two-pass check.
   This file contains statements only; every proof is `exact <lemma from Proofs/>`.
   Declarative vocabulary (Spec/TwoPassSpec.v):
     edge p u v      node u of predicate p has an edge to v;  reach p = reflexive-transitive closure of edge p;
     closed_graph p  every edge target is a node;
     num k           the key k read as a big-endian number in base 2^64 (digit of word w is w - i64_min);
     last_entry ps c k   value of the LAST entry of the insertion list ps for (contract c, key k), if any;
     overlay ps pre c k  that value if any ([] = deletion, returned as the empty value), else the last value
                         of the one-key pre-state read `pre c k 1`, None if that read fails;
     keys_from k m   k, succ k, succ (succ k), ... at most m keys, stopping at the maximal key;
     collect         all-or-nothing collection of a list of options;
     st_val st c k   value of key k of contract c in the in-memory state (absent = []);
     overlay_val     last_entry if any, else st_val;
     muts_of c sols / last_mut k ms / set_pairs sols : the mutations proposed for contract c in solution order
                     then mutation order / the value of the last one with key k / all (contract,key) pairs;
     agree_pre / agree_post : two VM environments with the same solutions, index and pre (resp. post) view.
   Model functions: find_deferred, should_cache, remove_deferred, remove_not_deferred (Check/Graph.v),
   next_key, read_or_fallback, post_get, post_has_contract, build_post_state, state_view (Check/Set.v),
   step_state_read (Vm/Step.v), check_predicate_inner (Check/Inner.v), deferred_ref (Spec/GraphRef.v). *)
From Coq Require Import ZArith List Lia Bool Permutation Relations.
From EB Require Import Check.Set Spec.GraphRef Spec.TwoPassSpec Proofs.Deferred Proofs.PostState.
Import ListNotations.
Open Scope list_scope.

(* ============ which programs are deferred to the second pass ============ *)

(* The deferred set is exactly the set of nodes reachable from a node (of the graph) whose program performs a
   post-state read (`seed`): every such program and every program depending on one.  Dangling edge targets
   that are reachable are members too (they have no children and are never run). *)
Theorem C03_deferred_is_reachability : forall p seed v,
  In v (find_deferred p seed) <->
  exists u, (u < length (p_nodes p))%nat /\ seed u = true /\ reach p u v.
Proof. exact find_deferred_spec. Qed.

(* The deferred set is duplicate free. *)
Theorem C03_deferred_nodup : forall p seed, NoDup (find_deferred p seed).
Proof. exact find_deferred_NoDup. Qed.

(* One-step characterisation: a node is deferred iff it reads the post-state or has a deferred parent. *)
Theorem C03_deferred_closed_characterisation : forall p seed v,
  closed_graph p -> (v < length (p_nodes p))%nat ->
  (In v (find_deferred p seed) <->
   seed v = true \/ exists par, edge p par v /\ In par (find_deferred p seed)).
Proof. exact find_deferred_closed. Qed.

(* In a closed graph every deferred index is a node. *)
Theorem C03_deferred_closed_nodes : forall p seed v,
  closed_graph p -> In v (find_deferred p seed) -> (v < length (p_nodes p))%nat.
Proof. exact find_deferred_closed_lt. Qed.

(* On the nodes of the graph the deferred set is the one of the reference semantics (Spec/GraphRef.v):
   "the node or one of its ancestors reads the post-state". *)
Theorem C03_deferred_matches_reference : forall p reader v,
  (v < length (p_nodes p))%nat ->
  (In v (find_deferred p reader) <-> deferred_ref p reader (length (p_nodes p)) v = true).
Proof. exact find_deferred_matches_ref. Qed.

(* ============ the two passes partition the nodes ============ *)

(* The first pass keeps exactly the non-deferred members of the levels, the second exactly the deferred ones;
   together they are a permutation of all members; no level of either pass is empty. *)
Theorem C03_passes_partition_nodes : forall levels d,
  Permutation (concat (remove_deferred levels d) ++ concat (remove_not_deferred levels d)) (concat levels) /\
  (forall x, In x (concat (remove_deferred levels d)) <-> In x (concat levels) /\ ~ In x d) /\
  (forall x, In x (concat (remove_not_deferred levels d)) <-> In x (concat levels) /\ In x d) /\
  Forall (fun l => l <> []) (remove_deferred levels d) /\
  Forall (fun l => l <> []) (remove_not_deferred levels d).
Proof. exact passes_partition_nodes. Qed.

(* Each pass filters every level in place and drops the levels that became empty: the order of the levels
   and the order inside the levels are preserved. *)
Theorem C03_passes_order_preserved : forall levels d,
  remove_deferred levels d = filter (fun l => negb (is_nil l)) (map (filter (keep_first d)) levels) /\
  remove_not_deferred levels d = filter (fun l => negb (is_nil l)) (map (filter (keep_second d)) levels) /\
  concat (remove_deferred levels d) = filter (keep_first d) (concat levels) /\
  concat (remove_not_deferred levels d) = filter (keep_second d) (concat levels).
Proof. exact passes_order_preserved. Qed.

(* Every node occurs in the two passes together exactly as often as in the level list (once, for a
   topological sort): it is evaluated in exactly one pass. *)
Theorem C03_passes_count : forall levels d x,
  (count_occ Nat.eq_dec (concat (remove_deferred levels d)) x
   + count_occ Nat.eq_dec (concat (remove_not_deferred levels d)) x
   = count_occ Nat.eq_dec (concat levels) x)%nat.
Proof. exact passes_count. Qed.

(* A node's output is kept for the second pass iff it is not deferred and has a deferred child. *)
Theorem C03_should_cache_spec : forall p d v,
  should_cache p d v = true <->
  ~ In v d /\ exists c, (exists cs, children p v = Some cs /\ In c cs) /\ In c d.
Proof. exact should_cache_spec. Qed.

(* What a pass of check_predicate_inner evaluates (its recorded run events): whole levels of that pass's
   level list, from the first one on, and all of them unless a program failed. *)
Theorem C03_pass_evaluates_its_levels : forall run p collect_all is_def mode cache r,
  check_predicate_inner run p collect_all is_def mode cache = Ok r ->
  (exists ix, ir_res r = Err (PInvalidNodeEdges ix) /\ ir_events r = []) \/
  exists pm sorted j,
    create_parent_map p = Ok pm /\ parallel_topo_sort p pm = Ok sorted /\
    map fst (ir_events r) = concat (firstn j (pass_levels p is_def mode sorted)) /\
    ((forall e, ir_res r <> Err (PProgramErrors e)) ->
     map fst (ir_events r) = concat (pass_levels p is_def mode sorted)).
Proof. exact inner_events_nodes. Qed.

(* The first pass (Outputs) never evaluates a deferred node; the second pass (Checks) evaluates only deferred nodes. *)
Theorem C03_pass_split : forall run p collect_all is_def mode cache r x,
  check_predicate_inner run p collect_all is_def mode cache = Ok r ->
  In x (map fst (ir_events r)) ->
  match mode with
  | Outputs => ~ In x (find_deferred p is_def)
  | Checks => In x (find_deferred p is_def)
  end.
Proof. exact inner_events_split. Qed.

(* ============ keys ============ *)
Open Scope Z_scope.

(* next_key adds one to the key read as a number, keeps the length and the word range. *)
Theorem C03_next_key_is_successor : forall k k',
  next_key k = Some k' ->
  num k' = num k + 1 /\ length k' = length k /\ (Forall i64 k -> Forall i64 k').
Proof. exact next_key_is_successor. Qed.

(* There is no successor exactly for the empty key and for the maximal key of each length. *)
Theorem C03_next_key_none : forall k,
  next_key k = None <-> k = [] \/ Forall (fun w => w = i64_max) k.
Proof. exact next_key_none. Qed.

(* The number determines the key among keys of one length, so next_key k is THE successor. *)
Theorem C03_next_key_unique : forall k k' k'',
  Forall i64 k -> next_key k = Some k' ->
  Forall i64 k'' -> length k'' = length k -> num k'' = num k + 1 -> k'' = k'.
Proof. exact next_key_unique. Qed.

(* The i-th key of a range is the i-th successor of the first. *)
Theorem C03_keys_from_nth : forall m k i k',
  nth_error (keys_from k m) i = Some k' ->
  num k' = num k + Z.of_nat i /\ length k' = length k /\ (Forall i64 k -> Forall i64 k').
Proof. exact keys_from_nth. Qed.

(* A range is shorter than requested only if it reached a key without successor. *)
Theorem C03_keys_from_full : forall m k,
  length (keys_from k m) = m \/ exists k', In k' (keys_from k m) /\ next_key k' = None.
Proof. exact keys_from_full. Qed.

(* ============ post-state reads ============ *)

(* The lookup of the post view is "last entry wins" ... *)
Theorem C03_post_get_is_last_entry : forall ps c k, post_get ps c k = last_entry ps c k.
Proof. exact post_get_last_entry. Qed.
(* ... where last_entry means: (c,k,v) occurs in ps and no entry for (c,k) occurs after it. *)
Theorem C03_last_entry_spec : forall ps c k v,
  last_entry ps c k = Some v <-> exists ps1 ps2, ps = ps1 ++ (c, k, v) :: ps2 /\ no_entry ps2 c k.
Proof. exact last_entry_spec. Qed.
Theorem C03_last_entry_none : forall ps c k, last_entry ps c k = None <-> no_entry ps c k.
Proof. exact last_entry_none. Qed.

(* A post-state read of a contract for which the set proposes mutations returns, for each key of the requested
   range, the overlay value; it fails iff one of the needed pre-state reads fails. *)
Theorem C03_post_read_is_overlay : forall ps pre c k n,
  post_has_contract ps c = true -> 0 <= n <= 10241 ->
  read_or_fallback ps pre c k n = collect (map (overlay ps pre c) (keys_from k (Z.to_nat n))).
Proof. exact read_or_fallback_is_overlay. Qed.

(* The same, key by key. *)
Theorem C03_post_read_pointwise : forall ps pre c k n vs,
  post_has_contract ps c = true -> 0 <= n <= 10241 ->
  read_or_fallback ps pre c k n = Some vs ->
  length vs = length (keys_from k (Z.to_nat n)) /\
  forall i k', nth_error (keys_from k (Z.to_nat n)) i = Some k' ->
               exists v, nth_error vs i = Some v /\ overlay ps pre c k' = Some v.
Proof. exact read_or_fallback_pointwise. Qed.

Theorem C03_post_read_fails_iff : forall ps pre c k n,
  post_has_contract ps c = true -> 0 <= n <= 10241 ->
  (read_or_fallback ps pre c k n = None <->
   exists k', In k' (keys_from k (Z.to_nat n)) /\ last_entry ps c k' = None /\ pre c k' 1 = None).
Proof. exact read_or_fallback_fails_iff. Qed.

(* A post-state read of a contract without proposed mutations is the pre-state read, request unchanged. *)
Theorem C03_post_read_passthrough : forall ps pre c k n,
  post_has_contract ps c = false -> read_or_fallback ps pre c k n = pre c k n.
Proof. exact read_or_fallback_passthrough. Qed.

(* The in-memory pre-state answers a range with the stored values of the successive keys (at most 10241). *)
Theorem C03_state_view_range : forall st c k n,
  0 <= n -> state_view st c k n = Some (map (st_val st c) (keys_from k (Z.to_nat (Z.min n 10241)))).
Proof. exact state_view_spec_min. Qed.

(* Over the in-memory pre-state both cases coincide: every post-state read, own or external contract, returns
   for each key the proposed value if any (empty = deleted) and otherwise the pre-state value. *)
Theorem C03_post_view_in_memory : forall ps st c k n,
  0 <= n ->
  read_or_fallback ps (state_view st) c k n
  = Some (map (overlay_val ps st c) (keys_from k (Z.to_nat (Z.min n 10241)))).
Proof. exact post_view_is_overlay_min. Qed.

(* ============ the post state built from the solution set ============ *)

(* The value proposed for (c,k) is that of the last mutation with key k among the solutions for contract c,
   in solution order then mutation order. *)
Theorem C03_post_get_build : forall sols c k,
  post_get (build_post_state sols) c k = last_mut k (muts_of c sols).
Proof. exact post_get_build. Qed.

(* When no (contract,key) pair is mutated twice in the whole set it is simply that mutation's value. *)
Theorem C03_post_get_build_unique : forall sols c k v,
  NoDup (set_pairs sols) ->
  (post_get (build_post_state sols) c k = Some v <->
   exists s m, In s sols /\ In m (sol_muts s) /\ sol_contract s = c /\ m_key m = k /\ m_value m = v).
Proof. exact post_get_build_unique. Qed.

(* ... and then the overlay does not depend on the order of the solutions. *)
Theorem C03_overlay_well_defined : forall sols sols' c k,
  Permutation sols sols' -> NoDup (set_pairs sols) ->
  post_get (build_post_state sols) c k = post_get (build_post_state sols') c k /\
  post_has_contract (build_post_state sols) c = post_has_contract (build_post_state sols') c.
Proof. exact overlay_well_defined. Qed.

Theorem C03_post_view_order_independent : forall sols sols' pre c k n,
  Permutation sols sols' -> NoDup (set_pairs sols) ->
  read_or_fallback (build_post_state sols) pre c k n = read_or_fallback (build_post_state sols') pre c k n.
Proof. exact post_view_order_independent. Qed.

(* ============ pre-state reads never observe mutations ============ *)

(* KeyRange / KeyRangeExtern consult only the pre view: their result is the same under any post view;
   PostKeyRange / PostKeyRangeExtern consult only the post view. *)
Theorem C03_pre_reads_ignore_mutations : forall E1 E2 s m,
  (agree_pre E1 E2 ->
   step_state_read E1 OKeyRange s m = step_state_read E2 OKeyRange s m /\
   step_state_read E1 OKeyRangeExtern s m = step_state_read E2 OKeyRangeExtern s m) /\
  (agree_post E1 E2 ->
   step_state_read E1 OPostKeyRange s m = step_state_read E2 OPostKeyRange s m /\
   step_state_read E1 OPostKeyRangeExtern s m = step_state_read E2 OPostKeyRangeExtern s m).
Proof. exact pre_reads_ignore_mutations. Qed.

(* ============ examples ============ *)
Open Scope nat_scope.
(* chain 2 -> 1 -> 0 : node 0 is a leaf, node 1 has the edge [0], node 2 the edge [1] *)
Definition ex_chain : predicate :=
  {| p_nodes := [ {| n_edge_start := 65535; n_program := [] |};
                  {| n_edge_start := 0; n_program := [] |};
                  {| n_edge_start := 1; n_program := [] |} ];
     p_edges := [0%Z; 1%Z] |}.

Example C03_ex_children : map (children ex_chain) [0; 1; 2; 3] = [Some []; Some [0]; Some [1]; None].
Proof. vm_compute. reflexivity. Qed.
(* a post-state read in the root defers the whole chain *)
Example C03_ex_deferred_chain : find_deferred ex_chain (Nat.eqb 2) = [2; 1; 0].
Proof. vm_compute. reflexivity. Qed.
(* a read in the middle defers 1 and 0; 2 runs in the first pass and its output is cached for the second *)
Example C03_ex_deferred_middle :
  let d := find_deferred ex_chain (Nat.eqb 1) in
  d = [1; 0] /\ remove_deferred [[2]; [1]; [0]] d = [[2]] /\ remove_not_deferred [[2]; [1]; [0]] d = [[1]; [0]] /\
  map (should_cache ex_chain d) [0; 1; 2] = [false; false; true].
Proof. vm_compute. repeat split; reflexivity. Qed.
Example C03_ex_partition :
  remove_deferred [[0; 3]; [1; 2]; [4]] [1; 2; 4] = [[0; 3]] /\
  remove_not_deferred [[0; 3]; [1; 2]; [4]] [1; 2; 4] = [[1; 2]; [4]].
Proof. vm_compute. split; reflexivity. Qed.

Open Scope Z_scope.
Example C03_ex_next_key : next_key [1; i64_max] = Some [2; i64_min] /\ next_key [i64_max; i64_max] = None /\
                          num [2; i64_min] = num [1; i64_max] + 1.
Proof. vm_compute. repeat split; reflexivity. Qed.

(* contract c: the set sets key [5] to [7] and deletes key [6]; the pre-state holds [6] -> [9] and [7] -> [8] *)
Definition ex_c : list Z := repeat 1 32.
Definition ex_ps : post_state := [(ex_c, [5], [7]); (ex_c, [6], [])].
Definition ex_st : state := [(ex_c, [([6], [9]); ([7], [8])])].
Example C03_ex_overlay_read :
  post_has_contract ex_ps ex_c = true /\
  read_or_fallback ex_ps (state_view ex_st) ex_c [5] 3 = Some [[7]; []; [8]] /\
  state_view ex_st ex_c [5] 3 = Some [[]; [9]; [8]].
Proof. vm_compute. repeat split; reflexivity. Qed.
(* the same through build_post_state, with a later solution for another contract *)
Definition ex_sols : list solution :=
  [ {| sol_contract := ex_c; sol_predicate := []; sol_data := [];
       sol_muts := [ {| m_key := [5]; m_value := [7] |}; {| m_key := [6]; m_value := [] |} ] |};
    {| sol_contract := repeat 2 32; sol_predicate := []; sol_data := [];
       sol_muts := [ {| m_key := [5]; m_value := [1] |} ] |} ].
Example C03_ex_build :
  read_or_fallback (build_post_state ex_sols) (state_view ex_st) ex_c [5] 3 = Some [[7]; []; [8]] /\
  read_or_fallback (build_post_state (rev ex_sols)) (state_view ex_st) ex_c [5] 3 = Some [[7]; []; [8]] /\
  read_or_fallback (build_post_state ex_sols) (state_view ex_st) (repeat 3 32) [5] 3 = Some [[]; []; []].
Proof. vm_compute. repeat split; reflexivity. Qed.
