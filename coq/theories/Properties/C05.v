(* C05 - The VM is total: it never panics and stays within its resource bounds.  Statements only.

   Reading guide.  In the model (Vm/Machine.v, Vm/Step.v, Vm/Exec.v) every Rust expression that could panic,
   abort or wrap (unchecked `+=`, `expect`, ...) is an explicit `Panic "site"` outcome, so "never panics and
   never overflows, with and without overflow checks" is: the model never returns `Panic _`.
   `Inv v` (Spec/VmInvariant.v) is the resource/typing invariant of a machine state: at most 4096 stack words,
   10240 memory words, 4096 repeat entries, compute depth at most 1, every word an i64, pc a usize.
   `env_ok E` says that the caller-supplied solution data and the state/crypto oracles are well typed.
   `exec fuel E oa limit v spent tr` runs the program given by the op accessor `oa` from state `v`. *)
From Coq Require Import ZArith List Lia Bool.
From EB Require Import Vm.Machine Vm.Step Vm.Exec Spec.VmInvariant.
From EB Require Import Proofs.AsmCodec Proofs.VmInv Proofs.VmInvStep Proofs.VmInvExec.
Open Scope list_scope.
Open Scope Z_scope.

(* The invariant literally contains the four bounds of the property text. *)
Theorem C05_invariant_bounds : forall v, Inv v ->
  zlen (stack v) <= 4096 /\ zlen (memory v) <= 10240 /\ zlen (rstack v) <= 4096 /\ zlen (parent_memory v) <= 1.
Proof. exact Inv_bounds. Qed.

(* One step of any operation other than Compute, from a state within bounds, ends in a state within bounds,
   and a requested jump target is a valid usize. *)
Theorem C05_step_preserves_bounds : forall E o v v' c,
  env_ok E -> well_formed_op o -> Inv v -> step_basic E o v = Ok (v', c) ->
  Inv v' /\ (forall p, c = CPc p -> 0 <= p <= usize_max).
Proof. exact step_basic_inv. Qed.

(* One step of any operation never reaches a panic / overflow site. *)
Theorem C05_step_never_panics : forall E o v,
  env_ok E -> well_formed_op o -> Inv v -> forall s, step_basic E o v <> Panic s.
Proof. exact step_basic_no_panic. Qed.

(* Running any program (Compute included, any gas limit, any fuel) from a state within bounds: the final
   state is within bounds, and so is the state reported with a typed error. *)
Theorem C05_exec_preserves_bounds : forall E oa fuel limit v spent tr,
  env_ok E -> (forall p o, oa p = Some o -> well_formed_op o /\ 0 <= p < usize_max) -> Inv v ->
  (forall v' g tr', exec fuel E oa limit v spent tr = Ok (v', g, tr') -> Inv v') /\
  (forall p e v1, exec fuel E oa limit v spent tr = Err (p, e, v1) -> Inv v1).
Proof. exact exec_inv. Qed.

(* Running any program never reaches a panic / overflow site: the result is success, a typed error, or the
   model's fuel ran out.  (The fuel bound only limits the Compute breadth the model attempts.) *)
Theorem C05_exec_never_panics : forall E oa fuel limit v spent tr,
  env_ok E -> (forall p o, oa p = Some o -> well_formed_op o /\ 0 <= p < usize_max) -> Inv v ->
  Z.of_nat fuel * 10240 <= i64_max ->
  forall s, exec fuel E oa limit v spent tr <> Panic s.
Proof. exact exec_no_panic. Qed.

(* Specialisation: any sequence of operations, started from the initial machine state. *)
Theorem C05_ops_total : forall E ops fuel limit,
  env_ok E -> Forall well_formed_op ops -> zlen ops <= usize_max -> Z.of_nat fuel * 10240 <= i64_max ->
  (forall s, exec_ops fuel E ops limit vm0 <> Panic s) /\
  (forall v' g tr', exec_ops fuel E ops limit vm0 = Ok (v', g, tr') ->
     zlen (stack v') <= 4096 /\ zlen (memory v') <= 10240 /\ zlen (rstack v') <= 4096 /\ zlen (parent_memory v') <= 1).
Proof. exact ops_total. Qed.

(* Specialisation: any byte string used as bytecode.  Decoding never panics; if it yields a program, running
   that program never panics and ends within bounds. *)
Theorem C05_bytecode_total : forall E bs fuel limit,
  env_ok E -> Forall byte bs -> zlen bs <= usize_max -> Z.of_nat fuel * 10240 <= i64_max ->
  (forall s, from_bytes bs <> Panic s) /\
  (forall ops, from_bytes bs = Ok ops ->
     (forall s, exec_ops fuel E ops limit vm0 <> Panic s) /\
     (forall v' g tr', exec_ops fuel E ops limit vm0 = Ok (v', g, tr') ->
        zlen (stack v') <= 4096 /\ zlen (memory v') <= 10240 /\ zlen (rstack v') <= 4096 /\ zlen (parent_memory v') <= 1)).
Proof. exact bytecode_total. Qed.

(* ---------- non-vacuity ---------- *)
(* a full stack, a full memory, one parent memory (we are inside a Compute) and a pending repeat *)
Definition C05_ex_vm : vm :=
  {| pc := 17; stack := repeat 7 (Z.to_nat 4096); memory := repeat (-1) (Z.to_nat 10240);
     parent_memory := [[1; 2]]; halt := false;
     rstack := [{| s_counter := 3; s_up := Some 10; s_index := 5 |}] |}.

Definition C05_ex_env : env :=
  {| e_solutions := [{| sol_contract := repeat 1 32; sol_predicate := repeat 2 32;
                        sol_data := [[1; 2; 3]; []]; sol_muts := [] |}];
     e_index := 0;
     e_pre := fun _ _ _ => Some [[5; 6]; []];
     e_post := fun _ _ _ => None;
     e_cost := fun _ => 1;
     e_sha256 := fun _ => repeat 0 32;
     e_ed25519 := fun _ _ _ => Some true;
     e_secp := fun _ _ _ => SecpKey (repeat 3 33) |}.

Example C05_example_state : Inv C05_ex_vm.
Proof.
  assert (I7 : i64 7) by (apply i64b_spec; reflexivity).
  assert (Im : i64 (-1)) by (apply i64b_spec; reflexivity).
  constructor; cbn [C05_ex_vm stack memory rstack parent_memory pc].
  - rewrite zlen_repeat. vm_compute; discriminate.
  - rewrite zlen_repeat. vm_compute; discriminate.
  - vm_compute; discriminate.
  - vm_compute; discriminate.
  - apply Forall_repeat; exact I7.
  - apply Forall_repeat; exact Im.
  - constructor; [|constructor]. split; [vm_compute; discriminate|].
    constructor; [apply i64b_spec; reflexivity|constructor; [apply i64b_spec; reflexivity|constructor]].
  - constructor; [|constructor]. unfold slot_ok; cbn [s_counter s_up s_index].
    split; [apply i64b_spec; reflexivity|split; [apply i64b_spec; reflexivity|split; vm_compute; discriminate]].
  - split; vm_compute; discriminate.
Qed.

Example C05_example_env : env_ok C05_ex_env.
Proof.
  constructor; cbn [C05_ex_env e_solutions e_index e_pre e_post e_cost e_sha256 e_secp].
  - repeat constructor; try (apply i64b_spec; reflexivity); try (apply byteb_spec; reflexivity);
      vm_compute; discriminate.
  - cbn; lia.
  - intros c k n vs [= <-]. repeat constructor; apply i64b_spec; reflexivity.
  - intros c k n vs [=].
  - intros o. split; vm_compute; discriminate.
  - intros bs. split; [reflexivity|apply Forall_repeat; apply byteb_spec; reflexivity].
  - intros h s i k [= <-]. split; [reflexivity|].
    repeat (apply Forall_cons; [apply byteb_spec; reflexivity|]). apply Forall_nil.
Qed.

(* a program with a repeat loop, a Compute with three children that allocate memory, and a state read;
   it satisfies the hypotheses of the exec theorems and runs to success in the model *)
Definition C05_ex_ops : list op :=
  [OPush 2; OPush 1; ORepeat; OPush 4; OPop; ORepeatEnd;
   OPush 3; OCompute; OPush 5; OAlloc; OPop; OComputeEnd;
   OPush 1; OPush 1; OPush 1; OPush 0; OKeyRange; OPush 0; OPredicateDataLen].

Example C05_example_run :
  Forall well_formed_op C05_ex_ops /\ zlen C05_ex_ops <= usize_max /\ Z.of_nat 100 * 10240 <= i64_max /\
  (exists v' g tr, exec_ops 100 C05_ex_env C05_ex_ops 1000 vm0 = Ok (v', g, tr) /\ zlen (memory v') = 15).
Proof.
  split; [repeat constructor; apply i64b_spec; reflexivity|].
  split; [vm_compute; discriminate|]. split; [vm_compute; discriminate|].
  eexists _, _, _. split; [vm_compute; reflexivity|reflexivity].
Qed.
