(* C18 (text and serde part) - hex strings, Display/FromStr and the human-readable serde format round-trip
   every value, including the legacy field names accepted on input.  Statements only.
   Vocabulary: Types/Hex.v (characters are ASCII codes), Types/Serde.v (`sval` = the tree `serde_json::to_value`
   yields; `ser_hr_X` / `de_hr_X` = Serialize / Deserialize of X for human-readable formats; a struct field is
   found iff exactly one entry of the object carries its name or alias), Proofs/HexSerdeProofs.v
   (`wf_addr` = 32 bytes, `wf_sig` = 64 bytes and a one-byte id, `swf_*` = i64 words, u16 edges, 32-byte addresses:
   what the Rust types guarantee; `codes "..."` = the ASCII codes of a literal). *)
From Coq Require Import String.
From Coq Require Import ZArith List Bool Permutation.
From EB Require Import Types.Hex Types.Serde Spec.PredicateSpec Proofs.HexSerdeProofs.
Import ListNotations.
Open Scope string_scope.
Open Scope list_scope.
Open Scope Z_scope.

(* ================= hex ================= *)

(* Upper-case hex of any bytes decodes to the same bytes. *)
Theorem hex_roundtrip_upper : forall bs, Forall byte bs -> hex_decode (hex_encode_upper bs) = Some bs.
Proof. exact HexSerdeProofs.hex_roundtrip_upper. Qed.

(* Lower-case hex of any bytes decodes to the same bytes. *)
Theorem hex_roundtrip_lower : forall bs, Forall byte bs -> hex_decode (hex_encode_lower bs) = Some bs.
Proof. exact HexSerdeProofs.hex_roundtrip_lower. Qed.

(* A string of odd length is rejected. *)
Theorem hex_decode_odd : forall cs, Nat.odd (length cs) = true -> hex_decode cs = None.
Proof. exact HexSerdeProofs.hex_decode_odd. Qed.

(* A string containing a character that is not a hex digit is rejected. *)
Theorem hex_decode_bad_char : forall c cs, In c cs -> hex_val c = None -> hex_decode cs = None.
Proof. exact HexSerdeProofs.hex_decode_bad_char. Qed.

(* The upper- and lower-case renderings of the same bytes decode alike. *)
Theorem hex_decode_case_insensitive : forall bs,
  Forall byte bs -> hex_decode (hex_encode_upper bs) = hex_decode (hex_encode_lower bs).
Proof. exact HexSerdeProofs.hex_decode_case_insensitive. Qed.

(* Decoding ignores the case of every letter of ANY string (mixed case included). *)
Theorem hex_decode_ignores_case : forall cs,
  hex_decode (map ascii_upper cs) = hex_decode cs /\ hex_decode (map ascii_lower cs) = hex_decode cs.
Proof. exact (fun cs => conj (hex_decode_to_upper cs) (hex_decode_to_lower cs)). Qed.

(* Whatever decodes, decodes to bytes, one per two characters. *)
Theorem hex_decode_sound : forall cs bs,
  hex_decode cs = Some bs -> Forall byte bs /\ length cs = (2 * length bs)%nat.
Proof. exact HexSerdeProofs.hex_decode_sound. Qed.

Example hex_encode_upper_ex : hex_encode_upper [255; 0; 171] = codes "FF00AB".
Proof. vm_compute. reflexivity. Qed.
Example hex_encode_lower_ex : hex_encode_lower [255; 0; 171] = codes "ff00ab".
Proof. vm_compute. reflexivity. Qed.
Example hex_decode_mixed_ex : hex_decode (codes "ff00Ab") = Some [255; 0; 171].
Proof. vm_compute. reflexivity. Qed.
Example hex_decode_odd_ex : hex_decode (codes "ff0") = None.
Proof. vm_compute. reflexivity. Qed.
Example hex_decode_bad_ex : hex_decode (codes "fg") = None /\ hex_decode (codes "0x12") = None.
Proof. vm_compute. split; reflexivity. Qed.

(* ================= words <-> hex strings (convert.rs) ================= *)

(* hex_str_from_words then words_from_hex_str is the identity. *)
Theorem words_hex_roundtrip : forall ws, Forall i64 ws -> words_from_hex (words_to_hex ws) = Some ws.
Proof. exact HexSerdeProofs.words_hex_roundtrip. Qed.

(* The upper-case rendering of the same words is accepted as well. *)
Theorem words_hex_roundtrip_upper : forall ws,
  Forall i64 ws -> words_from_hex (hex_encode_upper (bytes_of_words ws)) = Some ws.
Proof. exact HexSerdeProofs.words_hex_roundtrip_upper. Qed.

(* words_from_hex_str silently drops up to 7 trailing bytes (chunks_exact): it is not injective on strings. *)
Theorem words_from_hex_drops_tail : forall ws extra,
  Forall i64 ws -> Forall byte extra -> (length extra < 8)%nat ->
  words_from_hex (hex_encode_lower (bytes_of_words ws ++ extra)) = Some ws.
Proof. exact HexSerdeProofs.words_from_hex_drops_tail. Qed.

(* Whatever parses, parses to words in range. *)
Theorem words_from_hex_i64 : forall cs ws, words_from_hex cs = Some ws -> Forall i64 ws.
Proof. exact HexSerdeProofs.words_from_hex_i64. Qed.

Example words_to_hex_ex : words_to_hex [1; -1] = codes "0000000000000001ffffffffffffffff".
Proof. vm_compute. reflexivity. Qed.
Example words_from_hex_ex : words_from_hex (codes "0000000000000001FFFFFFFFFFFFFFFF") = Some [1; -1].
Proof. vm_compute. reflexivity. Qed.
Example words_from_hex_tail_ex : words_from_hex (codes "0000000000000001ffff") = Some [1].
Proof. vm_compute. reflexivity. Qed.

(* ================= Display / FromStr (fmt.rs) ================= *)

(* Display then FromStr is the identity on n-byte values (n = 32: ContentAddress, n = 65: Signature). *)
Theorem display_fromstr_roundtrip : forall n a,
  length a = n -> Forall byte a -> parse_addr n (display_addr a) = Some a.
Proof. exact HexSerdeProofs.display_fromstr_roundtrip. Qed.

(* The rendering of a value of another length is rejected. *)
Theorem display_fromstr_wrong_length : forall n a,
  length a <> n -> Forall byte a -> parse_addr n (display_addr a) = None.
Proof. exact HexSerdeProofs.display_fromstr_wrong_length. Qed.

(* The lower-case ({:x}) rendering parses back too. *)
Theorem lower_hex_fromstr_roundtrip : forall n a,
  length a = n -> Forall byte a -> parse_addr n (lower_hex_addr a) = Some a.
Proof. exact HexSerdeProofs.lower_hex_fromstr_roundtrip. Qed.

(* Whatever parses has exactly n bytes. *)
Theorem parse_addr_sound : forall n cs a, parse_addr n cs = Some a -> length a = n /\ Forall byte a.
Proof. exact HexSerdeProofs.parse_addr_sound. Qed.

(* ContentAddress: to_string().parse() is the identity. *)
Theorem content_address_display_roundtrip : forall a,
  length a = 32%nat /\ Forall byte a -> parse_content_address (display_content_address a) = Some a.
Proof. exact HexSerdeProofs.content_address_display_roundtrip. Qed.

(* Signature (64 bytes, id): to_string().parse() is the identity. *)
Theorem signature_display_roundtrip : forall sg : list Z * Z,
  length (fst sg) = 64%nat /\ Forall byte (fst sg) /\ byte (snd sg) ->
  parse_signature (display_signature sg) = Some sg.
Proof. exact HexSerdeProofs.signature_display_roundtrip. Qed.

(* PredicateAddress displays as CONTRACT:PREDICATE: 64 digits, ':', 64 digits, and both halves parse back. *)
Theorem display_predicate_address_parts : forall c p,
  wf_addr c -> wf_addr p ->
  length (display_predicate_address c p) = 129%nat /\
  parse_content_address (firstn 64 (display_predicate_address c p)) = Some c /\
  nth 64 (display_predicate_address c p) 0 = 58 /\
  parse_content_address (skipn 65 (display_predicate_address c p)) = Some p.
Proof. exact HexSerdeProofs.display_predicate_address_parts. Qed.

Example display_content_address_ex :
  display_content_address ex_predicate_addr = codes "000102030405060708090A0B0C0D0E0F101112131415161718191A1B1C1D1E1F"
  /\ parse_content_address (codes "000102030405060708090a0b0c0d0e0f101112131415161718191a1b1c1d1e1f") = Some ex_predicate_addr.
Proof. vm_compute. split; reflexivity. Qed.
Example display_signature_ex :
  display_signature ex_signature = codes
    "000102030405060708090A0B0C0D0E0F101112131415161718191A1B1C1D1E1F202122232425262728292A2B2C2D2E2F303132333435363738393A3B3C3D3E3F03"
  /\ parse_signature (display_signature ex_signature) = Some ex_signature
  /\ parse_content_address (display_signature ex_signature) = None.
Proof. vm_compute. repeat split; reflexivity. Qed.

(* ================= serde, human-readable: round trips ================= *)

Theorem content_address_hr_roundtrip : forall a,
  wf_addr a -> de_hr_content_address (ser_hr_content_address a) = Some a.
Proof. exact HexSerdeProofs.content_address_hr_roundtrip. Qed.

Theorem signature_hr_roundtrip : forall sg, wf_sig sg -> de_hr_signature (ser_hr_signature sg) = Some sg.
Proof. exact HexSerdeProofs.signature_hr_roundtrip. Qed.

(* Program bytecode is written in lower case; upper case is accepted on input. *)
Theorem program_hr_roundtrip : forall bs, Forall byte bs ->
  de_hr_program (ser_hr_program bs) = Some bs /\ de_hr_program (SStr (hex_encode_upper bs)) = Some bs.
Proof. exact (fun bs F => conj (HexSerdeProofs.program_hr_roundtrip bs F) (program_hr_upper bs F)). Qed.

Theorem mutation_hr_roundtrip : forall m,
  Forall i64 (m_key m) /\ Forall i64 (m_value m) -> de_hr_mutation (ser_hr_mutation m) = Some m.
Proof. exact HexSerdeProofs.mutation_hr_roundtrip. Qed.

Theorem predicate_address_hr_roundtrip : forall c p,
  wf_addr c -> wf_addr p -> de_hr_predicate_address (ser_hr_predicate_address (c, p)) = Some (c, p).
Proof. exact HexSerdeProofs.predicate_address_hr_roundtrip. Qed.

Theorem solution_hr_roundtrip : forall s,
  wf_addr (sol_contract s) /\ wf_addr (sol_predicate s) /\
  Forall (Forall i64) (sol_data s) /\ Forall swf_mutation (sol_muts s) ->
  de_hr_solution (ser_hr_solution s) = Some s.
Proof. exact HexSerdeProofs.solution_hr_roundtrip. Qed.

Theorem solution_set_hr_roundtrip : forall ss,
  Forall swf_solution ss -> de_hr_solution_set (ser_hr_solution_set ss) = Some ss.
Proof. exact HexSerdeProofs.solution_set_hr_roundtrip. Qed.

Theorem node_hr_roundtrip : forall n,
  0 <= n_edge_start n < 65536 /\ length (n_program n) = 32%nat /\ Forall byte (n_program n) ->
  de_hr_node (ser_hr_node n) = Some n.
Proof. exact HexSerdeProofs.node_hr_roundtrip. Qed.

Theorem predicate_hr_roundtrip : forall p,
  Forall wf_node (p_nodes p) /\ Forall (fun e => 0 <= e < 65536) (p_edges p) ->
  de_hr_predicate (ser_hr_predicate p) = Some p.
Proof. exact HexSerdeProofs.predicate_hr_roundtrip. Qed.

Theorem contract_hr_roundtrip : forall c,
  Forall wf_pred (c_predicates c) /\ wf_addr (c_salt c) -> de_hr_contract (ser_hr_contract c) = Some c.
Proof. exact HexSerdeProofs.contract_hr_roundtrip. Qed.

Theorem signed_contract_hr_roundtrip : forall sc,
  swf_contract (sc_contract sc) /\ wf_sig (sc_signature sc) ->
  de_hr_signed_contract (ser_hr_signed_contract sc) = Some sc.
Proof. exact HexSerdeProofs.signed_contract_hr_roundtrip. Qed.

(* ================= legacy field names ================= *)

(* A SolutionSet written with `data` instead of `solutions` reads back the same. *)
Theorem alias_accepted_solution_set : forall ss,
  Forall swf_solution ss ->
  de_hr_solution_set (rename_field "solutions" "data" (ser_hr_solution_set ss)) = Some ss.
Proof. exact HexSerdeProofs.alias_accepted_solution_set. Qed.

(* A Solution written with `decision_variables` instead of `predicate_data` reads back the same. *)
Theorem alias_accepted_solution : forall s,
  swf_solution s ->
  de_hr_solution (rename_field "predicate_data" "decision_variables" (ser_hr_solution s)) = Some s.
Proof. exact HexSerdeProofs.alias_accepted_solution. Qed.

(* Both legacy names at once: {"data": [{.., "decision_variables": .., ..}, ..]}. *)
Theorem legacy_solution_set_accepted : forall ss,
  Forall swf_solution ss -> de_hr_solution_set (ser_hr_solution_set_legacy ss) = Some ss.
Proof. exact HexSerdeProofs.legacy_solution_set_accepted. Qed.

(* Giving a field under both its name and its alias is rejected (serde: duplicate field). *)
Theorem alias_duplicate_rejected : forall a b c d,
  de_hr_solution_set (SMap [("solutions", a); ("data", b)]) = None /\
  de_hr_solution (SMap [("predicate_to_solve", a); ("predicate_data", b); ("decision_variables", c);
                        ("state_mutations", d)]) = None.
Proof. exact (fun a b c d => conj (alias_duplicate_rejected_solution_set a b) (alias_duplicate_rejected_solution a b c d)). Qed.

(* ================= field order, unknown fields ================= *)

(* The value of a field does not depend on the order of the object's entries. *)
Theorem field_order_irrelevant : forall ns fs fs', Permutation fs fs' -> field ns fs = field ns fs'.
Proof. exact field_perm. Qed.

(* Deserialising a Solution does not depend on the order of the fields ... *)
Theorem solution_field_order : forall fs fs',
  Permutation fs fs' -> de_hr_solution (SMap fs) = de_hr_solution (SMap fs').
Proof. exact HexSerdeProofs.solution_field_order. Qed.

(* ... so the serialised fields of a well-formed solution, in any order, read back as that solution. *)
Theorem solution_hr_roundtrip_any_order : forall s fs,
  swf_solution s ->
  Permutation fs
    [("predicate_to_solve", ser_hr_predicate_address (sol_contract s, sol_predicate s));
     ("predicate_data", ser_seq ser_hr_words (sol_data s));
     ("state_mutations", ser_seq ser_hr_mutation (sol_muts s))] ->
  de_hr_solution (SMap fs) = Some s.
Proof. exact HexSerdeProofs.solution_hr_roundtrip_any_order. Qed.

(* Same for the other derived structs. *)
Theorem struct_field_order : forall fs fs', Permutation fs fs' ->
  de_hr_mutation (SMap fs) = de_hr_mutation (SMap fs') /\
  de_hr_solution_set (SMap fs) = de_hr_solution_set (SMap fs') /\
  de_hr_predicate (SMap fs) = de_hr_predicate (SMap fs') /\
  de_hr_contract (SMap fs) = de_hr_contract (SMap fs').
Proof.
  exact (fun fs fs' P => conj (mutation_field_order fs fs' P) (conj (solution_set_field_order fs fs' P)
           (conj (predicate_field_order fs fs' P) (contract_field_order fs fs' P)))).
Qed.

(* Unknown fields are ignored. *)
Theorem solution_unknown_field_ignored : forall k v fs,
  ~ In k ["predicate_to_solve"; "predicate_data"; "decision_variables"; "state_mutations"] ->
  de_hr_solution (SMap ((k, v) :: fs)) = de_hr_solution (SMap fs).
Proof. exact HexSerdeProofs.solution_unknown_field_ignored. Qed.

Theorem solution_set_unknown_field_ignored : forall k v fs,
  ~ In k ["solutions"; "data"] -> de_hr_solution_set (SMap ((k, v) :: fs)) = de_hr_solution_set (SMap fs).
Proof. exact HexSerdeProofs.solution_set_unknown_field_ignored. Qed.

(* ================= rejections ================= *)

(* A field none of whose names occurs is missing. *)
Theorem field_missing : forall ns fs, Forall (fun kv => ~ In (fst kv) ns) fs -> field ns fs = None.
Proof. exact HexSerdeProofs.field_missing. Qed.

(* A bad hex string / a wrong length is rejected for addresses and signatures. *)
Theorem content_address_hr_bad_char : forall c cs,
  In c cs -> hex_val c = None -> de_hr_content_address (SStr cs) = None.
Proof. exact HexSerdeProofs.content_address_hr_bad_char. Qed.

Theorem content_address_hr_wrong_length : forall a,
  length a <> 32%nat -> Forall byte a -> de_hr_content_address (ser_hr_content_address a) = None.
Proof. exact HexSerdeProofs.content_address_hr_wrong_length. Qed.

Theorem signature_hr_wrong_length : forall bs,
  length bs <> 65%nat -> Forall byte bs -> de_hr_signature (ser_hr_hash bs) = None.
Proof. exact HexSerdeProofs.signature_hr_wrong_length. Qed.

(* A number outside i64 anywhere in a key or value is rejected. *)
Theorem words_hr_out_of_range : forall z l r, ~ i64 z -> de_hr_words (SSeq (map SNum l ++ SNum z :: r)) = None.
Proof. exact HexSerdeProofs.words_hr_out_of_range. Qed.

(* What deserialises as a content address has 32 bytes. *)
Theorem content_address_hr_sound : forall v a, de_hr_content_address v = Some a -> wf_addr a.
Proof. exact HexSerdeProofs.content_address_hr_sound. Qed.

(* ================= examples ================= *)

(* the hypotheses are satisfiable *)
Example ex_wf : swf_solution ex_solution /\ wf_sig ex_signature /\ swf_signed_contract ex_signed_contract.
Proof. exact (conj ex_solution_wf (conj ex_signature_wf ex_signed_contract_wf)). Qed.

(* the JSON tree of a concrete solution *)
Example ser_hr_solution_ex :
  ser_hr_solution ex_solution =
  SMap [("predicate_to_solve",
         SMap [("contract", SStr (codes "ABABABABABABABABABABABABABABABABABABABABABABABABABABABABABABABAB"));
               ("predicate", SStr (codes "000102030405060708090A0B0C0D0E0F101112131415161718191A1B1C1D1E1F"))]);
        ("predicate_data", SSeq [SSeq [SNum 1; SNum (-2)]; SSeq []]);
        ("state_mutations",
         SSeq [SMap [("key", SSeq [SNum 0]); ("value", SSeq [SNum 42; SNum (-9223372036854775808)])]])].
Proof. vm_compute. reflexivity. Qed.

Example de_hr_solution_ex : de_hr_solution (ser_hr_solution ex_solution) = Some ex_solution.
Proof. vm_compute. reflexivity. Qed.

(* legacy names, fields in another order, lower-case addresses, an unknown field *)
Example de_hr_legacy_ex :
  de_hr_solution_set
    (SMap [("data",
       SSeq [SMap [("state_mutations",
                    SSeq [SMap [("value", SSeq [SNum 42; SNum (-9223372036854775808)]); ("key", SSeq [SNum 0])]]);
                   ("comment", SStr (codes "ignored"));
                   ("decision_variables", SSeq [SSeq [SNum 1; SNum (-2)]; SSeq []]);
                   ("predicate_to_solve",
                    SMap [("predicate", SStr (codes "000102030405060708090a0b0c0d0e0f101112131415161718191a1b1c1d1e1f"));
                          ("contract", SStr (codes "abababababababababababababababababababababababababababababababab"))])]])])
  = Some [ex_solution].
Proof. vm_compute. reflexivity. Qed.

Example de_hr_legacy_roundtrip_ex :
  de_hr_solution_set (ser_hr_solution_set_legacy [ex_solution; ex_solution]) = Some [ex_solution; ex_solution].
Proof. vm_compute. reflexivity. Qed.

(* rejections: missing field, wrong kind, out-of-range number, short address, array of the wrong arity *)
Example de_hr_reject_ex :
  de_hr_mutation (SMap [("key", SSeq [])]) = None /\
  de_hr_mutation (SMap [("key", SSeq []); ("value", SNum 0)]) = None /\
  de_hr_mutation (SMap [("key", SSeq []); ("value", SSeq [SNum 9223372036854775808])]) = None /\
  de_hr_content_address (SStr (codes "ABAB")) = None /\
  de_hr_content_address (SSeq []) = None /\
  de_hr_node (SMap [("edge_start", SNum 65536); ("program_address", ser_hr_content_address ex_contract_addr)]) = None /\
  de_hr_mutation (SSeq [SSeq []]) = None.
Proof. vm_compute. repeat split; reflexivity. Qed.

(* serde_json also reads a struct from an array of its fields in declaration order *)
Example de_hr_struct_as_array_ex :
  de_hr_mutation (SSeq [SSeq [SNum 1]; SSeq [SNum 2]]) = Some {| m_key := [1]; m_value := [2] |}.
Proof. vm_compute. reflexivity. Qed.

Example signed_contract_hr_ex :
  de_hr_signed_contract (ser_hr_signed_contract ex_signed_contract) = Some ex_signed_contract.
Proof. vm_compute. reflexivity. Qed.

Example ser_hr_program_ex :
  ser_hr_program [255; 0; 171] = SStr (codes "ff00ab") /\ de_hr_program (SStr (codes "FF00ab")) = Some [255; 0; 171].
Proof. vm_compute. split; reflexivity. Qed.
