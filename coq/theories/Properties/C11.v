(* C11 - State-read ops pass the exact request and lay results out as documented.
   This file contains statements only; every proof is `exact <lemma from Proofs/StateReadProofs.v>`.
   Stack lists have the TOP AT THE HEAD.  `key_range_region`, `pair_words`, `total_len`, `key_range_fits`
   are the declarative layout definitions of Spec/StateReadSpec.v. *)
From EB Require Import Vm.Step Spec.StateReadSpec Proofs.StateReadProofs.
Open Scope list_scope.
Open Scope Z_scope.

(* ---- 1. the request: right view, right contract, exactly the popped key and count; stack left = s ---- *)

(* KeyRange asks the PRE view for the contract of the solution being checked. *)
Theorem C11_key_range_request : forall E maddr n key s m, 0 <= maddr -> 0 <= n ->
  step_state_read E OKeyRange (maddr :: n :: zlen key :: rev key ++ s) m =
  match e_pre E (sol_contract (this_solution E)) key n with
  | None => Err EStateRead
  | Some vs => let* m' := write_values_to_memory maddr vs m in Ok (s, m')
  end.
Proof. exact key_range_request. Qed.

(* PostKeyRange asks the POST view for the same contract. *)
Theorem C11_post_key_range_request : forall E maddr n key s m, 0 <= maddr -> 0 <= n ->
  step_state_read E OPostKeyRange (maddr :: n :: zlen key :: rev key ++ s) m =
  match e_post E (sol_contract (this_solution E)) key n with
  | None => Err EStateRead
  | Some vs => let* m' := write_values_to_memory maddr vs m in Ok (s, m')
  end.
Proof. exact post_key_range_request. Qed.

(* KeyRangeExtern asks the PRE view for the 4-word external address found below the key (w0 deepest). *)
Theorem C11_key_range_extern_request : forall E maddr n key s m, 0 <= maddr -> 0 <= n -> forall w0 w1 w2 w3,
  step_state_read E OKeyRangeExtern (maddr :: n :: zlen key :: rev key ++ [w3; w2; w1; w0] ++ s) m =
  match e_pre E (bytes_of_words [w0; w1; w2; w3]) key n with
  | None => Err EStateRead
  | Some vs => let* m' := write_values_to_memory maddr vs m in Ok (s, m')
  end.
Proof. exact key_range_extern_request. Qed.

(* PostKeyRangeExtern asks the POST view for the external address. *)
Theorem C11_post_key_range_extern_request : forall E maddr n key s m, 0 <= maddr -> 0 <= n -> forall w0 w1 w2 w3,
  step_state_read E OPostKeyRangeExtern (maddr :: n :: zlen key :: rev key ++ [w3; w2; w1; w0] ++ s) m =
  match e_post E (bytes_of_words [w0; w1; w2; w3]) key n with
  | None => Err EStateRead
  | Some vs => let* m' := write_values_to_memory maddr vs m in Ok (s, m')
  end.
Proof. exact post_key_range_extern_request. Qed.

(* ---- invalid operands are errors, whatever the environment (views) is ---- *)

(* Every stack is either a well-formed operand block or rejected with a stack/memory error. *)
Theorem C11_operands_total : forall st,
  (exists maddr n key s, st = maddr :: n :: zlen key :: rev key ++ s /\ 0 <= maddr /\ 0 <= n /\
                         key_range_args st = Ok (maddr, n, key, s))
  \/ key_range_args st = Err EStack \/ key_range_args st = Err EMemory.
Proof. exact key_range_args_cases. Qed.

(* An operand error is the result of the op for every environment: the views are not consulted. *)
Theorem C11_operand_error_any_env : forall E o st m e, is_key_range_op o ->
  key_range_args st = Err e -> step_state_read E o st m = Err e.
Proof. exact state_read_args_error. Qed.

(* negative memory address *)
Theorem C11_negative_address : forall maddr s, maddr < 0 -> key_range_args (maddr :: s) = Err EMemory.
Proof. exact kra_neg_addr. Qed.
(* negative count *)
Theorem C11_negative_count : forall maddr n s, 0 <= maddr -> n < 0 -> key_range_args (maddr :: n :: s) = Err EStack.
Proof. exact kra_neg_count. Qed.
(* negative key length, or key length larger than the remaining stack *)
Theorem C11_bad_key_length : forall maddr n klen s, 0 <= maddr -> 0 <= n -> (klen < 0 \/ zlen s < klen) ->
  key_range_args (maddr :: n :: klen :: s) = Err EStack.
Proof. exact kra_bad_klen. Qed.
(* fewer than three operands *)
Theorem C11_missing_operands :
  key_range_args [] = Err EStack /\
  (forall maddr, 0 <= maddr -> key_range_args [maddr] = Err EStack) /\
  (forall maddr n, 0 <= maddr -> 0 <= n -> key_range_args [maddr; n] = Err EStack).
Proof. exact (conj kra_empty (conj kra_one kra_two)). Qed.
(* fewer than 4 contract words below the key (extern variants) *)
Theorem C11_extern_short_contract : forall E o maddr n key s m,
  o = OKeyRangeExtern \/ o = OPostKeyRangeExtern -> 0 <= maddr -> 0 <= n -> (length s < 4)%nat ->
  step_state_read E o (maddr :: n :: zlen key :: rev key ++ s) m = Err EStack.
Proof. exact key_range_extern_short_contract. Qed.

(* ---- 2. the layout ---- *)

(* The result in every case: laid out if there are no values or they fit the allocated memory, else a
   memory error (never a panic: the unchecked `+=` of the Rust loop cannot overflow). *)
Theorem C11_key_range_layout_eq : forall maddr vs m,
  0 <= maddr <= 9223372036854775807 -> zlen m <= 10240 ->
  write_values_to_memory maddr vs m =
  if key_range_fits maddr vs m then Ok (key_range_region maddr vs m) else Err EMemory.
Proof. exact key_range_layout_eq. Qed.

(* Success iff no values or  maddr + 2*|vs| + total length <= |m|;  and then the memory is
   m[..maddr] ++ [a_0; l_0; a_1; l_1; ...] ++ v_0 ++ v_1 ++ ... ++ m[maddr + 2|vs| + total ..]. *)
Theorem C11_key_range_layout : forall maddr vs m m',
  0 <= maddr <= 9223372036854775807 -> zlen m <= 10240 ->
  (write_values_to_memory maddr vs m = Ok m' <->
   (vs = [] \/ maddr + 2 * zlen vs + total_len vs <= zlen m) /\
   m' = firstn (Z.to_nat maddr) m
        ++ flat_map (fun '(a, l) => [a; l]) (addr_len_pairs (maddr + 2 * zlen vs) vs)
        ++ concat vs
        ++ skipn (Z.to_nat (maddr + 2 * zlen vs + total_len vs)) m).
Proof. exact key_range_layout. Qed.

(* Results that do not fit in the allocated memory are a memory error. *)
Theorem C11_key_range_no_fit : forall maddr vs m,
  0 <= maddr <= 9223372036854775807 -> zlen m <= 10240 ->
  vs <> [] -> zlen m < maddr + 2 * zlen vs + total_len vs ->
  write_values_to_memory maddr vs m = Err EMemory.
Proof. exact key_range_layout_nofit. Qed.

(* The pair list: a_0 = a, a_{i+1} = a_i + |v_i|, l_i = |v_i|. *)
Theorem C11_pairs_unfold : forall a v r, addr_len_pairs a (v :: r) = (a, zlen v) :: addr_len_pairs (a + zlen v) r.
Proof. reflexivity. Qed.

(* Memory is never grown, and no word outside [maddr, maddr + 2|vs| + total) changes. *)
Theorem C11_memory_not_grown : forall maddr vs m,
  0 <= maddr -> (vs = [] \/ maddr + 2 * zlen vs + total_len vs <= zlen m) ->
  length (key_range_region maddr vs m) = length m.
Proof. exact key_range_region_length. Qed.
Theorem C11_other_words_unchanged : forall maddr vs m i,
  0 <= maddr -> (vs = [] \/ maddr + 2 * zlen vs + total_len vs <= zlen m) ->
  (Z.of_nat i < maddr \/ maddr + 2 * zlen vs + total_len vs <= Z.of_nat i) ->
  nth_error (key_range_region maddr vs m) i = nth_error m i.
Proof. exact key_range_region_outside. Qed.
Theorem C11_write_total : forall maddr vs m, 0 <= maddr <= 9223372036854775807 -> zlen m <= 10240 ->
  (exists m', write_values_to_memory maddr vs m = Ok m' /\ length m' = length m) \/
  write_values_to_memory maddr vs m = Err EMemory.
Proof. exact write_values_to_memory_total. Qed.

(* ---- 3. a state error is returned unchanged: nothing else happens ---- *)
Theorem C11_state_error_returned : forall E o maddr n key s m, 0 <= maddr -> 0 <= n ->
  (o = OKeyRange /\ e_pre E (sol_contract (this_solution E)) key n = None) \/
  (o = OPostKeyRange /\ e_post E (sol_contract (this_solution E)) key n = None) ->
  step_state_read E o (maddr :: n :: zlen key :: rev key ++ s) m = Err EStateRead.
Proof. exact state_error_returned. Qed.
Theorem C11_state_error_returned_extern : forall E o maddr n key w0 w1 w2 w3 s m, 0 <= maddr -> 0 <= n ->
  (o = OKeyRangeExtern /\ e_pre E (bytes_of_words [w0; w1; w2; w3]) key n = None) \/
  (o = OPostKeyRangeExtern /\ e_post E (bytes_of_words [w0; w1; w2; w3]) key n = None) ->
  step_state_read E o (maddr :: n :: zlen key :: rev key ++ [w3; w2; w1; w0] ++ s) m = Err EStateRead.
Proof. exact state_error_returned_extern. Qed.

(* ---- request and layout together: the complete effect of KeyRange when the view answers ---- *)
Theorem C11_key_range_success : forall E maddr n key s m vs,
  0 <= maddr <= 9223372036854775807 -> 0 <= n -> zlen m <= 10240 ->
  e_pre E (sol_contract (this_solution E)) key n = Some vs ->
  step_state_read E OKeyRange (maddr :: n :: zlen key :: rev key ++ s) m =
  if key_range_fits maddr vs m then Ok (s, key_range_region maddr vs m) else Err EMemory.
Proof. exact key_range_success. Qed.

(* ---- non-vacuity ---- *)
(* key [5;6], 3 values [[7;8];[];[9]] written at address 1 of a 12-word memory: pairs (7,2) (9,0) (9,1), then 7 8 9 *)
Example C11_example_key_range :
  step_state_read example_env OKeyRange [1; 3; 2; 6; 5; 99] (repeat 0 12)
  = Ok ([99], [0; 7; 2; 9; 0; 9; 1; 7; 8; 9; 0; 0]).
Proof. vm_compute. reflexivity. Qed.
Example C11_example_region :
  key_range_region 1 [[7; 8]; []; [9]] (repeat 0 12) = [0; 7; 2; 9; 0; 9; 1; 7; 8; 9; 0; 0].
Proof. vm_compute. reflexivity. Qed.
(* one word too few of memory: a memory error *)
Example C11_example_no_fit :
  step_state_read example_env OKeyRange [1; 3; 2; 6; 5; 99] (repeat 0 9) = Err EMemory.
Proof. vm_compute. reflexivity. Qed.
(* extern variant on the post view: contract words 1 2 3 4 (1 deepest), key [5], one value *)
Example C11_example_post_extern :
  step_state_read example_env OPostKeyRangeExtern [0; 1; 1; 5; 4; 3; 2; 1; 99] [8; 8; 8; 8]
  = Ok ([99], [2; 1; 42; 8]).
Proof. vm_compute. reflexivity. Qed.
(* the view has no answer for another key: the state error is returned *)
Example C11_example_state_error :
  step_state_read example_env OKeyRange [1; 3; 1; 5; 99] (repeat 0 12) = Err EStateRead.
Proof. vm_compute. reflexivity. Qed.
Example C11_example_negative_address :
  step_state_read example_env OKeyRange [-1; 3; 2; 6; 5; 99] (repeat 0 12) = Err EMemory.
Proof. vm_compute. reflexivity. Qed.
