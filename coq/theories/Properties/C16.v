(* C16 - The validators accept exactly the sets, predicates and contracts within the documented limits,
   and a solution set returned by the mutation-computing check still has one mutation per slot.
   This file contains statements only; every proof is `exact <lemma from Proofs/ValidateProofs.v>`. *)
From Coq Require Import ZArith List.
From EB Require Import Check.Validate Proofs.ValidateProofs.
Import ListNotations.
Open Scope list_scope.
Open Scope Z_scope.

(* `total_mutations` is the plain sum of the mutation counts; it is what the Rust sums up. *)
Theorem C16_total_mutations_is_sum : forall sols,
  state_mutations_len sols = total_mutations sols /\
  total_mutations sols = fold_right (fun s a => zlen (sol_muts s) + a) 0 sols.
Proof. exact (fun sols => conj (state_mutations_len_total sols) eq_refl). Qed.

(* Set validation accepts exactly: 1..=100 solutions; each with <= 100 data slots of <= 10000 words;
   <= 1000 mutations in total; per solution no key twice, keys <= 1000 words, values <= 10000 words. *)
Theorem C16_check_set_iff : forall sols,
  check_set sols = Ok tt <->
  (1 <= zlen sols <= 100 /\
   Forall (fun s => zlen (sol_data s) <= 100 /\ Forall (fun v => zlen v <= 10000) (sol_data s)) sols /\
   total_mutations sols <= 1000 /\
   Forall (fun s => NoDup (map m_key (sol_muts s)) /\
                    Forall (fun m => zlen (m_key m) <= 1000 /\ zlen (m_value m) <= 10000) (sol_muts s)) sols).
Proof. exact check_set_iff. Qed.

(* Otherwise the verdict is a typed error: never a panic, never out of the model's fuel. *)
Theorem C16_check_set_total : forall sols, check_set sols = Ok tt \/ exists e, check_set sols = Err e.
Proof. exact check_set_total. Qed.

(* Predicate validation accepts exactly up to 1000 nodes and 1000 edges. *)
Theorem C16_check_predicate_iff : forall p,
  check_predicate_limits p = Ok tt <-> zlen (p_nodes p) <= 1000 /\ zlen (p_edges p) <= 1000.
Proof. exact check_predicate_iff. Qed.

(* Contract validation accepts exactly up to 100 predicates, each within the predicate limits. *)
Theorem C16_check_contract_iff : forall ps,
  check_contract ps = Ok tt <->
  zlen ps <= 100 /\ Forall (fun p => zlen (p_nodes p) <= 1000 /\ zlen (p_edges p) <= 1000) ps.
Proof. exact check_contract_iff. Qed.

(* Validity is monotone and order independent: every part of a valid contract is valid, and whether a
   contract is accepted does not depend on the order of its predicates. *)
Theorem C16_check_contract_parts_valid : forall a b,
  check_contract (a ++ b) = Ok tt -> check_contract a = Ok tt /\ check_contract b = Ok tt.
Proof. exact check_contract_app_valid. Qed.
Theorem C16_check_contract_order_independent : forall a b,
  Permutation.Permutation a b -> (check_contract a = Ok tt <-> check_contract b = Ok tt).
Proof. exact check_contract_perm. Qed.

(* Contract validation never panics; when it names a predicate, it is the first invalid one with its own error. *)
Theorem C16_check_contract_total : forall ps, check_contract ps = Ok tt \/ exists e, check_contract ps = Err e.
Proof. exact check_contract_total. Qed.
Theorem C16_check_contract_first_invalid : forall ps ix e,
  check_contract ps = Err (PInvalidPredicate ix e) ->
  exists p, nth_error ps ix = Some p /\ check_predicate_limits p = Err e /\
            forall j q, (j < ix)%nat -> nth_error ps j = Some q -> check_predicate_limits q = Ok tt.
Proof. exact check_contract_first_invalid. Qed.
(* The only errors are "too many predicates" (more than 100) and "predicate ix is invalid" (first such ix). *)
Theorem C16_check_contract_error : forall ps e,
  check_contract ps = Err e ->
  (e = PTooManyPredicates /\ 100 < zlen ps) \/
  (zlen ps <= 100 /\
   exists ix p e', e = PInvalidPredicate ix e' /\ nth_error ps ix = Some p /\
                   check_predicate_limits p = Err e' /\
                   forall j q, (j < ix)%nat -> nth_error ps j = Some q -> check_predicate_limits q = Ok tt).
Proof. exact check_contract_error. Qed.

(* A signed contract additionally needs a recoverable signature. *)
Theorem C16_check_signed_contract_iff : forall rec ps,
  check_signed_contract rec ps = Ok tt <->
  rec = true /\ (zlen ps <= 100 /\ Forall (fun p => zlen (p_nodes p) <= 1000 /\ zlen (p_edges p) <= 1000) ps).
Proof. exact check_signed_contract_iff. Qed.

(* Appending the computed mutations keeps one mutation per key in every solution, keeps the number of
   solutions, and every solution keeps its contract, predicate, data and declared mutations (as a prefix). *)
Theorem C16_decode_mutations_set_still_valid : forall data sols sols',
  Forall (fun s => NoDup (map m_key (sol_muts s))) sols ->
  decode_mutations_set data sols = Ok sols' ->
  Forall (fun s => NoDup (map m_key (sol_muts s))) sols' /\
  length sols' = length sols /\
  Forall2 (fun s s' => sol_contract s' = sol_contract s /\ sol_predicate s' = sol_predicate s /\
                       sol_data s' = sol_data s /\ exists extra, sol_muts s' = sol_muts s ++ extra) sols sols'.
Proof. exact computed_set_still_valid. Qed.

(* ... so the set returned by the mutation-computing check satisfies the one-mutation-per-slot rule ... *)
Theorem C16_computed_set_still_valid : forall fuel lk collect_all mode sols pre post caches r g sols',
  Forall (fun s => NoDup (map m_key (sol_muts s))) sols ->
  check_and_compute fuel lk collect_all mode sols pre post caches = Ok r -> cr_res r = Ok (g, sols') ->
  Forall (fun s => NoDup (map m_key (sol_muts s))) sols' /\
  length sols' = length sols /\
  Forall2 (fun s s' => sol_contract s' = sol_contract s /\ sol_predicate s' = sol_predicate s /\
                       sol_data s' = sol_data s /\ exists extra, sol_muts s' = sol_muts s ++ extra) sols sols'.
Proof. exact computed_set_still_valid_check. Qed.

(* ... and so does the set returned by the two-pass check. *)
Theorem C16_computed_set_still_valid_two_pass : forall fuel lk collect_all sols pre_state r g sols',
  Forall (fun s => NoDup (map m_key (sol_muts s))) sols ->
  two_pass fuel lk collect_all sols pre_state = Ok r -> tp_res r = Ok (g, sols') ->
  Forall (fun s => NoDup (map m_key (sol_muts s))) sols' /\
  length sols' = length sols /\
  Forall2 (fun s s' => sol_contract s' = sol_contract s /\ sol_predicate s' = sol_predicate s /\
                       sol_data s' = sol_data s /\ exists extra, sol_muts s' = sol_muts s ++ extra) sols sols'.
Proof. exact computed_set_still_valid_two_pass. Qed.

(* Appending computed mutations fails exactly when one of their keys is already taken (declared or
   computed earlier) or occurs twice among them ... *)
Theorem C16_duplicate_is_error : forall seen ms acc,
  apply_muts seen ms acc = None <->
  (exists m, In m ms /\ In (m_key m) seen) \/ ~ NoDup (map m_key ms).
Proof. exact apply_muts_none_iff. Qed.
(* ... and that failure is reported as the duplicate-mutation error of that solution. *)
Theorem C16_duplicate_is_reported : forall ix seen mem r ms acc,
  decode_mutations mem = Ok ms ->
  ((exists m, In m ms /\ In (m_key m) seen) \/ ~ NoDup (map m_key ms)) ->
  apply_outputs ix seen (mem :: r) acc = Err (SMutationsDuplicate ix).
Proof. exact apply_outputs_duplicate. Qed.

(* ---------- each limit at exactly the bound (accepted) and one above (rejected) ---------- *)
(* number of solutions: 0, 1, 100, 101 *)
Example ex_solutions_0 : check_set [] = Err VEmpty.
Proof. vm_compute. reflexivity. Qed.
Example ex_solutions_1 : check_set [ex_sol [] []] = Ok tt.
Proof. vm_compute. reflexivity. Qed.
Example ex_solutions_100 : check_set (repeat (ex_sol [[1]] (ex_muts 2)) 100) = Ok tt.
Proof. vm_compute. reflexivity. Qed.
Example ex_solutions_101 : check_set (repeat (ex_sol [[1]] (ex_muts 2)) 101) = Err VTooManySolutions.
Proof. vm_compute. reflexivity. Qed.
(* predicate data slots: 100, 101 (the error names the solution) *)
Example ex_data_slots_100 : check_set [ex_sol [] []; ex_sol (repeat [1; 2] 100) []] = Ok tt.
Proof. vm_compute. reflexivity. Qed.
Example ex_data_slots_101 : check_set [ex_sol [] []; ex_sol (repeat [1; 2] 101) []] = Err (VPredicateDataLen 1).
Proof. vm_compute. reflexivity. Qed.
(* words in a predicate data slot: 10000, 10001 *)
Example ex_data_words_10000 : check_set [ex_sol [[1]; ex_words 10000] []] = Ok tt.
Proof. vm_compute. reflexivity. Qed.
Example ex_data_words_10001 : check_set [ex_sol [[1]; ex_words 10001] []] = Err VPredDataValueTooLarge.
Proof. vm_compute. reflexivity. Qed.
(* mutations over the whole set: 10 * 100 = 1000, 1001 *)
Example ex_mutations_1000 : check_set (repeat (ex_sol [] (ex_muts 100)) 10) = Ok tt.
Proof. vm_compute. reflexivity. Qed.
Example ex_mutations_1001 : check_set (ex_sol [] (ex_muts 1) :: repeat (ex_sol [] (ex_muts 100)) 10) = Err VTooManyMutations.
Proof. vm_compute. reflexivity. Qed.
(* key size: 1000, 1001 *)
Example ex_key_1000 : check_set [ex_sol [] [ex_mut [1] [2]; ex_mut (ex_words 1000) [3]]] = Ok tt.
Proof. vm_compute. reflexivity. Qed.
Example ex_key_1001 : check_set [ex_sol [] [ex_mut [1] [2]; ex_mut (ex_words 1001) [3]]] = Err VKeyTooLarge.
Proof. vm_compute. reflexivity. Qed.
(* value size: 10000, 10001 *)
Example ex_value_10000 : check_set [ex_sol [] [ex_mut [1] [2]; ex_mut [3] (ex_words 10000)]] = Ok tt.
Proof. vm_compute. reflexivity. Qed.
Example ex_value_10001 : check_set [ex_sol [] [ex_mut [1] [2]; ex_mut [3] (ex_words 10001)]] = Err VValueTooLarge.
Proof. vm_compute. reflexivity. Qed.
(* the same key twice in one solution is rejected (and reported before the size of the duplicate is
   looked at); the same key in two different solutions is accepted *)
Example ex_duplicate_key : check_set [ex_sol [] []; ex_sol [] [ex_mut [9] [1]; ex_mut [8] []; ex_mut [9] [2]]] = Err (VMultipleMutations 1).
Proof. vm_compute. reflexivity. Qed.
Example ex_duplicate_key_before_size :
  check_set [ex_sol [] [ex_mut [9] [1]; ex_mut [9] (ex_words 10001)]] = Err (VMultipleMutations 0).
Proof. vm_compute. reflexivity. Qed.
Example ex_same_key_two_solutions : check_set [ex_sol [] [ex_mut [9] [1]]; ex_sol [] [ex_mut [9] [2]]] = Ok tt.
Proof. vm_compute. reflexivity. Qed.

(* predicates: nodes 1000 / 1001, edges 1000 / 1001 *)
Example ex_pred_at_bounds : check_predicate_limits (ex_pred 1000 1000) = Ok tt.
Proof. vm_compute. reflexivity. Qed.
Example ex_pred_nodes_1001 : check_predicate_limits (ex_pred 1001 0) = Err PTooManyNodes.
Proof. vm_compute. reflexivity. Qed.
Example ex_pred_edges_1001 : check_predicate_limits (ex_pred 1000 1001) = Err PTooManyEdges.
Proof. vm_compute. reflexivity. Qed.
(* contracts: 100 / 101 predicates; the first invalid predicate is the one reported *)
Example ex_contract_100 : check_contract (repeat (ex_pred 1000 1000) 100) = Ok tt.
Proof. vm_compute. reflexivity. Qed.
Example ex_contract_101 : check_contract (repeat (ex_pred 1 1) 101) = Err PTooManyPredicates.
Proof. vm_compute. reflexivity. Qed.
Example ex_contract_first_invalid :
  check_contract [ex_pred 2 2; ex_pred 1000 1001; ex_pred 1001 0] = Err (PInvalidPredicate 1 PTooManyEdges).
Proof. vm_compute. reflexivity. Qed.
(* signed contracts *)
Example ex_signed_ok : check_signed_contract true (repeat (ex_pred 1000 1000) 100) = Ok tt.
Proof. vm_compute. reflexivity. Qed.
Example ex_signed_bad_signature : check_signed_contract false [ex_pred 1 1] = Err PSignature.
Proof. vm_compute. reflexivity. Qed.
Example ex_signed_bad_contract : check_signed_contract true (repeat (ex_pred 1 1) 101) = Err PTooManyPredicates.
Proof. vm_compute. reflexivity. Qed.

(* computed mutations: solution 1 declares key [9]; its program outputs mutations of keys [7] and [8]:
   they are appended after the declared one, the other solution is untouched ... *)
Example ex_computed_appended :
  decode_mutations_set [(1%nat, [encode_mutations [ex_mut [7] [70]]; encode_mutations [ex_mut [8] []]])]
                       [ex_sol [] [ex_mut [9] [1]]; ex_sol [[5]] [ex_mut [9] [4]]]
  = Ok [ex_sol [] [ex_mut [9] [1]]; ex_sol [[5]] [ex_mut [9] [4]; ex_mut [7] [70]; ex_mut [8] []]].
Proof. vm_compute. reflexivity. Qed.
(* ... a computed mutation of the declared key [9] is an error (cf. finding F9) ... *)
Example ex_computed_duplicates_declared :
  decode_mutations_set [(1%nat, [encode_mutations [ex_mut [7] [70]; ex_mut [9] [3]]])]
                       [ex_sol [] [ex_mut [9] [1]]; ex_sol [[5]] [ex_mut [9] [4]]]
  = Err (SMutationsDuplicate 1).
Proof. vm_compute. reflexivity. Qed.
(* ... and so is the same computed key from two different leaf programs. *)
Example ex_computed_duplicates_computed :
  decode_mutations_set [(0%nat, [encode_mutations [ex_mut [7] [70]]; encode_mutations [ex_mut [7] [71]]])]
                       [ex_sol [] [ex_mut [9] [1]]]
  = Err (SMutationsDuplicate 0).
Proof. vm_compute. reflexivity. Qed.
