(* C13 - Bytecode encoding is a bijection that matches the assembly specification.
   This file contains statements only; every proof is `exact <lemma from Proofs/>`. *)
From Coq Require Import String.
From EB Require Import Asm.Op Generated.OpTable Proofs.AsmCodec.
Open Scope list_scope.
Open Scope Z_scope.

(* The table of the hand-written model (opcode, path, short name, immediate bytes of each of the 62
   constructors) is the table regenerated from crates/asm-spec/asm.yml on this run ... *)
Theorem C13_optable_agrees : map op_row all_ops = spec_table.
Proof. exact optable_agrees. Qed.

(* ... which is byte-compatible with the pinned table /verif/pinned/opcodes.tsv. *)
Theorem C13_optable_pinned : spec_table = pinned_table.
Proof. exact optable_pinned. Qed.

(* `all_ops` lists every constructor (Push with immediate 0) and no opcode twice. *)
Theorem C13_all_ops_complete : forall o, In (match o with OPush _ => OPush 0 | _ => o end) all_ops.
Proof. exact all_ops_complete. Qed.
Theorem C13_opcodes_nodup : NoDup (map opcode_of all_ops).
Proof. exact opcodes_nodup. Qed.

(* Serialising any sequence of operations and parsing it back yields the same sequence. *)
Theorem C13_decode_encode : forall ops, Forall well_formed_op ops -> from_bytes (to_bytes ops) = Ok ops.
Proof. exact decode_encode. Qed.

(* Parsing any byte string either fails or yields operations that serialise to exactly those bytes. *)
Theorem C13_encode_decode : forall bs ops, Forall byte bs -> from_bytes bs = Ok ops -> to_bytes ops = bs.
Proof. exact encode_decode. Qed.

(* ... so encoding is unambiguous. *)
Theorem C13_to_bytes_injective : forall a b,
  Forall well_formed_op a -> Forall well_formed_op b -> to_bytes a = to_bytes b -> a = b.
Proof. exact to_bytes_injective. Qed.

(* The parser is total: never a panic, never out of the model's fuel. *)
Theorem C13_from_bytes_total : forall bs, from_bytes bs <> OutOfFuel /\ no_panic (from_bytes bs).
Proof. exact from_bytes_total. Qed.

(* The valid opcode bytes are exactly those declared in the specification ... *)
Theorem C13_opcode_valid_iff_in_spec : forall b,
  opcode_decode b <> None <-> In b (map (fun r => fst (fst (fst r))) spec_table).
Proof. exact opcode_valid_iff_in_spec. Qed.
Theorem C13_opcode_decode_encode : forall o,
  opcode_decode (opcode_of o) = Some (match o with OPush _ => OPush 0 | _ => o end).
Proof. exact opcode_decode_encode. Qed.

(* ... every other byte, at any operation boundary, is rejected as an invalid opcode ... *)
Theorem C13_invalid_opcode_error : forall ops b rest,
  Forall well_formed_op ops -> opcode_decode b = None ->
  from_bytes (to_bytes ops ++ b :: rest) = Err (InvalidOpcode b).
Proof. exact invalid_opcode_error. Qed.

(* ... and a truncated Push immediate as not-enough-bytes. *)
Theorem C13_truncated_push_error : forall ops rest,
  Forall well_formed_op ops -> (length rest < 8)%nat ->
  from_bytes (to_bytes ops ++ opcode_of (OPush 0) :: rest) = Err NotEnoughBytes.
Proof. exact truncated_push_error. Qed.

(* Push carries 8 big-endian bytes of the two's complement image, every other op none. *)
Theorem C13_push_immediate_be : forall w, to_bytes1 (OPush w) = 1 :: be_bytes 8 (w mod 2 ^ 64).
Proof. exact push_immediate_be. Qed.
Theorem C13_arg_bytes : forall o, Z.of_nat (length (to_bytes1 o)) = 1 + arg_bytes o.
Proof. exact arg_bytes_spec. Qed.

(* Serialisation is a monoid homomorphism and parsing inverts it on concatenations (no lookahead or
   state leaks from one program's bytes into the next). *)
Theorem C13_to_bytes_app : forall a b, to_bytes (a ++ b) = to_bytes a ++ to_bytes b.
Proof. exact to_bytes_app. Qed.
Theorem C13_decode_concat : forall a b, Forall well_formed_op a -> Forall well_formed_op b ->
  from_bytes (to_bytes a ++ to_bytes b) = Ok (a ++ b).
Proof. exact decode_concat. Qed.

(* Non-vacuity: a concrete program round-trips and a concrete bad string is rejected. *)
Example C13_example_roundtrip :
  from_bytes (to_bytes [OPush (-1); OPop; OPush 9223372036854775807; OComputeEnd]) =
  Ok [OPush (-1); OPop; OPush 9223372036854775807; OComputeEnd].
Proof. vm_compute. reflexivity. Qed.
Example C13_example_invalid : from_bytes [2; 0] = Err (InvalidOpcode 0).
Proof. vm_compute. reflexivity. Qed.
