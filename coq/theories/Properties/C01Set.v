(* C01 / C03 at the level of the whole solution set: the two-pass entry point equals the reference semantics.
   Statements only; every proof is `exact <lemma from Proofs/SetRef*.v>`.
   Model:      two_pass (Check/Set.v) = check_and_compute in mode Outputs, build_post_state, check_and_compute in mode
               Checks with the caches of the first call.
   Reference:  reference (Spec/GraphRef.v) = graph_ok of every predicate, then pass_all over the non-deferred nodes
               (pre-state as post view), apply_all, pass_all over the deferred nodes (overlay view), apply_all.
   Setting of all theorems: `lk` maps every (contract, predicate address) to a CLOSED graph (KahnBase.closed: every edge
   target is a node; dangling edges are outside the claim) and every program address to a byte string.
   The reference appends data outputs in node order, the model in level order: the computed mutations of a solution
   are equal as multisets (Permutation), contract / predicate address / data are unchanged. *)
From Coq Require Import ZArith List Lia Bool Permutation Arith.
From EB Require Import Check.Set Spec.GraphRef Spec.InnerSpec Proofs.KahnBase Proofs.KahnRef
  Proofs.SetRefVm Proofs.SetRefNode Proofs.SetRefMuts Proofs.SetRef Proofs.SetRefExist.
Import ListNotations.
Open Scope list_scope.
Local Open Scope nat_scope.

(* 1. run_program reports a leaf result exactly when it is asked to run a leaf ... *)
Theorem C01_run_program_respects_leaf : forall fuel c prog leaf ins o g,
  run_program fuel c prog leaf ins = Ok (PRun o g) ->
  if leaf then exists lo, o = OutLeaf lo else exists s m, o = OutParent s m.
Proof. exact run_program_leaf_shape. Qed.

(* ... so the runner of every solution satisfies the premise `run_respects_leaf` of the per-predicate theorems ... *)
Theorem C01_run_for_respects_leaf : forall fuel lk st sols post i p, run_respects_leaf (run_for fuel lk st sols post i p).
Proof. exact run_for_respects_leaf. Qed.

(* ... its gas is a u64 (in particular non-negative: saturating sums do not depend on the order) ... *)
Theorem C01_run_program_gas : forall fuel c prog leaf ins o g,
  run_program fuel c prog leaf ins = Ok (PRun o g) -> (0 <= g <= 18446744073709551615)%Z.
Proof. exact run_program_gas. Qed.

(* ... and it observes neither the mutations of the solutions nor, for a program without PostKeyRange /
   PostKeyRangeExtern, the post view; the views are observed only through their answers. *)
Theorem C01_run_program_observes : forall post_too fuel c1 c2 prog leaf ins,
  Forall2 (fun a b => sol_contract a = sol_contract b /\ sol_predicate a = sol_predicate b /\ sol_data a = sol_data b)
          (sc_solutions c1) (sc_solutions c2) /\ sc_index c1 = sc_index c2 /\
  (forall c k n, sc_pre c1 c k n = sc_pre c2 c k n) /\
  (post_too = true -> forall c k n, sc_post c1 c k n = sc_post c2 c k n) ->
  (post_too = false -> Forall byte prog /\ bytes_contains_any prog post_effects = false) ->
  run_program fuel c1 prog leaf ins = run_program fuel c2 prog leaf ins.
Proof. exact run_program_sim. Qed.

(* 2. (a) A solution whose predicate graph is cyclic or malformed: the reference reports it, and the entry point (when
   it returns) reports InvalidNodeEdges for that solution and has recorded no run of any of its nodes in either pass:
   rejected rather than partially evaluated. *)
Theorem C01_set_invalid_graph_rejected : forall fuel lk st,
  (forall c a, KahnBase.closed (lk_predicate lk c a)) ->
  forall collect_all sols i r,
    reference fuel lk st sols = RefInvalidGraph i ->
    two_pass fuel lk collect_all sols st = Ok r ->
    i < length sols /\ graph_ok (sol_predicate_of lk (nth i sols empty_solution)) = false /\
    (exists errs ix, tp_res r = Err (SFailed errs) /\ In (i, PInvalidNodeEdges ix) errs) /\
    (forall v ins, ~ In (i, v, ins) (tp_events1 r)) /\ (forall v ins, ~ In (i, v, ins) (tp_events2 r)).
Proof. exact invalid_graph_rejected. Qed.

(* 3. The first pass (check_set_predicates in mode Outputs from empty caches, post view = pre-state) against
   pass_all over the non-deferred nodes, when all graphs are valid.  `rs` are the per-solution results (to which
   TM_outputs_pass / TM_cache_contents apply); on success the caches handed to the second pass are theirs, the
   reference pass succeeds with all summaries ok, the same total gas, and per solution the same data outputs up to
   order; on failure the reference pass, if it returns, has a summary that is not ok. *)
Theorem C01_set_first_pass_equals_reference : forall fuel lk st,
  (forall c a, KahnBase.closed (lk_predicate lk c a)) ->
  forall collect_all sols sr,
    (forall i, i < length sols -> graph_ok (sol_predicate_of lk (nth i sols empty_solution)) = true) ->
    check_set_predicates fuel lk collect_all Outputs sols (state_view st) (state_view st) (map (fun _ => []) sols) = Ok sr ->
    exists rs,
      Forall2 (fun i r => check_predicate fuel lk collect_all Outputs
                            {| sc_solutions := sols; sc_index := i; sc_pre := state_view st; sc_post := state_view st |} [] = Ok r)
              (seq 0 (length sols)) rs /\
      (forall g data, sr_res sr = Ok (g, data) ->
         sr_caches sr = map ir_cache rs /\
         exists s1, pass_all fuel lk st sols (pre_v st) false (seq 0 (length sols)) = Ok s1 /\
                    forallb (fun s => ps_ok (snd s)) s1 = true /\
                    g = fold_left (fun a s => sat_add_u64 a (ps_gas (snd s))) s1 0%Z /\
                    Forall2 (fun x y => fst x = fst y /\ Permutation (snd x) (snd y))
                            data (map (fun s => (fst s, ps_data (snd s))) s1)) /\
      (forall e, sr_res sr = Err e ->
         forall s1, pass_all fuel lk st sols (pre_v st) false (seq 0 (length sols)) = Ok s1 ->
                    forallb (fun s => ps_ok (snd s)) s1 = false).
Proof. exact first_pass_vs_reference. Qed.

(* 3'. Mutation decoding does not depend on the order of the data outputs: related inputs (same data outputs per
   solution up to order, same solutions up to the order of their mutations) give related results or both fail. *)
Theorem C01_set_decode_mutations_order : forall dA dB sA sB,
  Forall2 (fun x y => fst x = fst y /\ Permutation (snd x) (snd y)) dA dB ->
  Forall2 (fun a b => (sol_contract a = sol_contract b /\ sol_predicate a = sol_predicate b /\ sol_data a = sol_data b) /\
                      Permutation (sol_muts a) (sol_muts b)) sA sB ->
  (forall rA, decode_mutations_set dA sA = Ok rA ->
     exists rB, decode_mutations_set dB sB = Ok rB /\
       Forall2 (fun a b => (sol_contract a = sol_contract b /\ sol_predicate a = sol_predicate b /\ sol_data a = sol_data b) /\
                           Permutation (sol_muts a) (sol_muts b)) rA rB) /\
  (forall e, decode_mutations_set dA sA = Err e -> exists e', decode_mutations_set dB sB = Err e').
Proof. exact decode_mutations_order. Qed.

(* 3''. ... and the post-state views built from two such results of the same solution set answer every read alike. *)
Theorem C01_set_post_views_equal : forall dA dB sols A B pre,
  decode_mutations_set dA sols = Ok A -> decode_mutations_set dB sols = Ok B ->
  Forall2 (fun a b => (sol_contract a = sol_contract b /\ sol_predicate a = sol_predicate b /\ sol_data a = sol_data b) /\
                      Permutation (sol_muts a) (sol_muts b)) A B ->
  forall c k n, read_or_fallback (build_post_state A) pre c k n = read_or_fallback (build_post_state B) pre c k n.
Proof. exact post_views_equal_dms. Qed.

(* 4. The composition, for a call of the entry point that returns (a Panic / OutOfFuel of a program run propagates):
   (a) an invalid graph is rejected without running anything of that solution;
   (b) if the reference accepts with gas g and solutions solsB, the entry point accepts with the same gas and
       solutions that agree with solsB up to the order of the appended mutations;
   (c) if the reference rejects, the entry point returns an error;
   and conversely, if the entry point accepts, so does the reference. *)
Theorem C01_two_pass_equals_reference : forall fuel lk st,
  (forall c a, KahnBase.closed (lk_predicate lk c a)) -> (forall a, Forall byte (lk_program lk a)) ->
  forall collect_all sols r,
    two_pass fuel lk collect_all sols st = Ok r ->
    (forall i, reference fuel lk st sols = RefInvalidGraph i ->
       (exists errs ix, tp_res r = Err (SFailed errs) /\ In (i, PInvalidNodeEdges ix) errs) /\
       (forall v ins, ~ In (i, v, ins) (tp_events1 r)) /\ (forall v ins, ~ In (i, v, ins) (tp_events2 r))) /\
    (forall g solsB runs, reference fuel lk st sols = RefOk g solsB runs ->
       exists solsA, tp_res r = Ok (g, solsA) /\
         Forall2 (fun a b => (sol_contract a = sol_contract b /\ sol_predicate a = sol_predicate b /\ sol_data a = sol_data b) /\
                             Permutation (sol_muts a) (sol_muts b)) solsA solsB) /\
    (reference fuel lk st sols = RefFailed -> exists e, tp_res r = Err e) /\
    (forall x, tp_res r = Ok x -> exists g s runs, reference fuel lk st sols = RefOk g s runs).
Proof. exact two_pass_equals_reference. Qed.

(* 4'. (b) at full strength: when the reference accepts, the entry point RETURNS (no program run of the model can
   panic or run out of fuel, because the model performs exactly the runs of the reference) and accepts with the same
   gas and the same solutions up to the order of the appended mutations. *)
Theorem C01_two_pass_accepts_when_reference_accepts : forall fuel lk st,
  (forall c a, KahnBase.closed (lk_predicate lk c a)) -> (forall a, Forall byte (lk_program lk a)) ->
  forall collect_all sols g solsB runs,
    reference fuel lk st sols = RefOk g solsB runs ->
    exists r solsA, two_pass fuel lk collect_all sols st = Ok r /\ tp_res r = Ok (g, solsA) /\
      Forall2 (fun a b => (sol_contract a = sol_contract b /\ sol_predicate a = sol_predicate b /\ sol_data a = sol_data b) /\
                          Permutation (sol_muts a) (sol_muts b)) solsA solsB.
Proof. exact two_pass_accepts. Qed.

(* ------------------------------------------------------------------------------------------ *)
(* Examples: one solution of contract 1..1 proposing key [5] := [42]; the pre-state holds [5] -> [40].
   Predicate = diamond 0 -> {1, 2} -> 3 with programs (given as bytes):
     0: push 7                                           (parent output: stack [7])
     1: push 1; add                                      (stack [8])
     2: reads key [5] of the POST state into a 5-word memory and turns the memory into the encoding of the
        mutation list [ key [9] := value read ]          (deferred; its child 3 is deferred too)
     3: leaf: pops its inputs and ends with the single word 2: its memory is a data output.
   The first pass runs 0 and 1, the second 2 and 3; the computed mutation is [9] := [42] (the proposed value, not the
   pre-state value 40); total gas 1 + 2 + 17 + 3 = 23. *)
Open Scope Z_scope.
Definition ex_c : list Z := repeat 1 32.
Definition ex_st : state := [(ex_c, [([5], [40])])].
Definition ex_sol : solution :=
  {| sol_contract := ex_c; sol_predicate := repeat 2 32; sol_data := [];
     sol_muts := [ {| m_key := [5]; m_value := [42] |} ] |}.
Definition ex_nd (start : Z) (a : Z) : node := {| n_edge_start := start; n_program := [a] |}.
Definition ex_diamond : predicate :=
  {| p_nodes := [ex_nd 0 0; ex_nd 2 1; ex_nd 3 2; ex_nd 65535 3]; p_edges := [1; 2; 3; 3] |}.
Definition ex_progs : list (list op) :=
  [ [OPush 7];
    [OPush 1; OAdd];
    [OPush 5; OAlloc; OPop; OPush 5; OPush 1; OPush 1; OPush 2; OPostKeyRange;
     OPush 1; OPush 0; OStore; OPush 1; OPush 1; OStore; OPush 9; OPush 2; OStore];
    [OPop; OPop; OPush 2] ].
Definition ex_lk (p : predicate) : lookup :=
  {| lk_predicate := fun _ _ => p;
     lk_program := fun a => nth (Z.to_nat (hd 0 a)) (map to_bytes ex_progs) [] |}.
Definition ex_sol_out : solution :=
  {| sol_contract := ex_c; sol_predicate := repeat 2 32; sol_data := [];
     sol_muts := [ {| m_key := [5]; m_value := [42] |}; {| m_key := [9]; m_value := [42] |} ] |}.

(* the hypotheses of the theorems hold for this lookup *)
Example C01_set_ex_hypotheses :
  (forall c a, KahnBase.closed (lk_predicate (ex_lk ex_diamond) c a)) /\
  (forall a, Forall byte (lk_program (ex_lk ex_diamond) a)).
Proof.
  split.
  - intros c a. apply closed_b_iff. vm_compute. reflexivity.
  - intros a. cbn [ex_lk lk_program].
    assert (H : Forall (Forall byte) (map to_bytes ex_progs)).
    { apply Forall_forall. intros bs Hbs. apply Forall_forall. intros b Hb.
      assert (Hc : forallb (forallb (fun b => (0 <=? b) && (b <? 256))) (map to_bytes ex_progs) = true) by (vm_compute; reflexivity).
      rewrite forallb_forall in Hc. specialize (Hc bs Hbs). rewrite forallb_forall in Hc. specialize (Hc b Hb).
      unfold byte. lia. }
    destruct (nth_in_or_default (Z.to_nat (hd 0 a)) (map to_bytes ex_progs) []) as [Hin|Hd].
    + rewrite Forall_forall in H. exact (H _ Hin).
    + rewrite Hd. constructor.
Qed.

(* both the entry point and the reference accept, with the same gas, the same solutions, and the runs recorded by the
   two passes are the reference's runs *)
Example C01_set_ex_two_pass_agrees :
  match two_pass 50 (ex_lk ex_diamond) false [ex_sol] ex_st, reference 50 (ex_lk ex_diamond) ex_st [ex_sol] with
  | Ok r, RefOk g sols runs =>
      tp_res r = Ok (g, sols) /\ g = 23 /\ sols = [ex_sol_out] /\ tp_events1 r ++ tp_events2 r = runs /\
      map (fun e => snd (fst e)) (tp_events1 r) = [0; 1]%nat /\ map (fun e => snd (fst e)) (tp_events2 r) = [2; 3]%nat
  | _, _ => False
  end.
Proof. vm_compute. repeat split; reflexivity. Qed.

(* with the pre-state as post view (a single pass) the computed value would be 40: the second pass does see the overlay *)
Example C01_set_ex_overlay_matters :
  read_or_fallback (build_post_state [ex_sol]) (state_view ex_st) ex_c [5] 1 = Some [[42]] /\
  state_view ex_st ex_c [5] 1 = Some [[40]].
Proof. vm_compute. split; reflexivity. Qed.

(* a cyclic predicate (0 -> 1 -> 0): the reference reports solution 0, the entry point reports InvalidNodeEdges for it
   and records no run *)
Definition ex_cycle : predicate := {| p_nodes := [ex_nd 0 0; ex_nd 1 1]; p_edges := [1; 0] |}.
Example C01_set_ex_cycle_rejected :
  reference 50 (ex_lk ex_cycle) ex_st [ex_sol] = RefInvalidGraph 0 /\
  two_pass 50 (ex_lk ex_cycle) false [ex_sol] ex_st
  = Ok {| tp_res := Err (SFailed [(0%nat, PInvalidNodeEdges 0)]); tp_events1 := []; tp_events2 := [] |}.
Proof. vm_compute. split; reflexivity. Qed.

(* a failing leaf (node 3 ends with 0 instead of 2): both reject *)
Definition ex_lk_bad : lookup :=
  {| lk_predicate := fun _ _ => ex_diamond;
     lk_program := fun a => nth (Z.to_nat (hd 0 a))
                              (map to_bytes (firstn 3 ex_progs ++ [ [OPop; OPop; OPush 0] ])) [] |}.
Example C01_set_ex_unsatisfied :
  reference 50 ex_lk_bad ex_st [ex_sol] = RefFailed /\
  match two_pass 50 ex_lk_bad false [ex_sol] ex_st with
  | Ok r => tp_res r = Err (SFailed [(0%nat, PConstraintsUnsatisfied [3%nat])])
  | _ => False
  end.
Proof. vm_compute. split; reflexivity. Qed.

(* Why (a) and (c) are stated for calls that return: the reference inspects all graphs first and never runs a node
   whose parent failed, whereas the entry point runs the solutions in order and, with collect_all, goes on after a
   failure on incomplete inputs; such a run can exhaust the model's fuel (in the Rust: not terminate / panic).
   Solution 0 has the diamond, solution 1 the cycle; with fuel 1 the first program of solution 0 does not finish. *)
Definition ex_lk2 : lookup :=
  {| lk_predicate := fun _ a => if hd 0 a =? 2 then ex_diamond else ex_cycle;
     lk_program := fun a => nth (Z.to_nat (hd 0 a)) (map to_bytes ex_progs) [] |}.
Definition ex_sol3 : solution := {| sol_contract := ex_c; sol_predicate := repeat 3 32; sol_data := []; sol_muts := [] |}.
Example C01_set_ex_invalid_but_no_return :
  reference 1 ex_lk2 ex_st [ex_sol; ex_sol3] = RefInvalidGraph 1 /\
  two_pass 1 ex_lk2 false [ex_sol; ex_sol3] ex_st = OutOfFuel /\
  (forall c a, KahnBase.closed (lk_predicate ex_lk2 c a)).
Proof.
  split; [vm_compute; reflexivity|]. split; [vm_compute; reflexivity|].
  intros c a. apply closed_b_iff. cbn [ex_lk2 lk_predicate]. destruct (hd 0 a =? 2); vm_compute; reflexivity.
Qed.
(* node 0 fails at once; with collect_all the entry point still runs node 1 (three pushes) on no inputs and runs out of
   fuel 2, while the reference skips the children of the failed node and reports the failure *)
Definition ex_lk_fail : lookup :=
  {| lk_predicate := fun _ _ => ex_diamond;
     lk_program := fun a => nth (Z.to_nat (hd 0 a)) (map to_bytes [ [OPop]; [OPush 1; OPush 1; OPush 1]; []; [] ]) [] |}.
Example C01_set_ex_failed_but_no_return :
  reference 2 ex_lk_fail ex_st [ex_sol] = RefFailed /\
  two_pass 2 ex_lk_fail true [ex_sol] ex_st = OutOfFuel /\
  match two_pass 2 ex_lk_fail false [ex_sol] ex_st with
  | Ok r => tp_res r = Err (SFailed [(0%nat, PProgramErrors [0%nat])])
  | _ => False
  end.
Proof. vm_compute. repeat split; reflexivity. Qed.
