(* C01 (graph part) - the level sort of the predicate-graph checker: every node exactly once, after all of
   its parents; cyclic graphs and malformed edge lists are rejected with an error.
   Statements only; every proof is `exact <lemma from Proofs/>`.
   Definitions used (Proofs/KahnBase.v, Proofs/Kahn.v):
     valid p   := forall ix, ix < n -> children p ix <> None             (n = number of nodes)
     edge p u v := u < n /\ exists cs, children p u = Some cs /\ In v cs
     closed p  := forall u v, edge p u v -> v < n
     acyclic p := exists rank, forall u v, edge p u v -> rank u < rank v
     cnt p u v := multiplicity of v in the edge list of u;  indeg p K v := sum of cnt p u v over u in K
     Inv p m   := keys of m strictly ascending /\ all keys < n /\ forall v d, aget v m = Some d -> d = indeg p (akeys m) v
   `valid p` follows from `create_parent_map p = Ok pm` (K_create_parent_map_valid), and `closed p` turned out
   not to be needed for the level sort (dangling targets are never keys of the in-degree map), so the
   theorems below are stated without them: they are stronger than the versions with both hypotheses. *)
From Coq Require Import Arith List Permutation Sorted.
From EB Require Import Check.Graph Spec.GraphRef Proofs.KahnBase Proofs.Kahn Proofs.KahnRef.
Import ListNotations.
Local Open Scope nat_scope.
Local Open Scope list_scope.

(* ---- 1. the parent map ---- *)
(* With valid edge ranges the parent map is built ... *)
Theorem K_create_parent_map_ok : forall p, valid p -> exists pm, create_parent_map p = Ok pm.
Proof. exact create_parent_map_ok. Qed.
(* ... and only then. *)
Theorem K_create_parent_map_valid : forall p pm, create_parent_map p = Ok pm -> valid p.
Proof. exact create_parent_map_valid. Qed.
(* The error names the FIRST node whose edge range is invalid. *)
Theorem K_create_parent_map_err : forall p ix, create_parent_map p = Err (InvalidNodeEdges ix) ->
  ix < length (p_nodes p) /\ children p ix = None /\ forall j, j < ix -> children p j <> None.
Proof. exact create_parent_map_err. Qed.
(* Never a panic, never out of fuel: the result is a map or an InvalidNodeEdges error. *)
Theorem K_create_parent_map_total : forall p,
  (forall s, create_parent_map p <> Panic s) /\ create_parent_map p <> OutOfFuel.
Proof. exact create_parent_map_total. Qed.
(* The recorded parents of v are the reference's: ascending, once per edge (multi-edges repeated). *)
Theorem K_parents_of_spec : forall p pm, create_parent_map p = Ok pm ->
  forall v, parents_of pm v = parents_ref p v.
Proof. exact parents_of_spec. Qed.
Theorem K_parents_ref_unfold : forall p v,
  parents_ref p v = flat_map (fun u => repeat u (count_occ Nat.eq_dec (kids p u) v)) (seq 0 (length (p_nodes p))).
Proof. exact (fun p v => eq_refl). Qed.
(* u is listed among the parents of v exactly when there is an edge u -> v. *)
Theorem K_parents_ref_in : forall p u v, In u (parents_ref p v) <-> edge p u v.
Proof. exact parents_ref_in. Qed.

(* ---- 2. the in-degree map ---- *)
(* reduce_in_degrees subtracts the multiplicity (the saturating decrement is truncated subtraction) ... *)
Theorem K_aget_reduce : forall x cs m,
  aget x (reduce_in_degrees m cs) = option_map (fun d => d - count_occ Nat.eq_dec cs x) (aget x m).
Proof. exact aget_reduce. Qed.
(* ... the initial map satisfies the invariant (degree = number of edges from the remaining nodes) ... *)
Theorem K_Inv_in_degrees : forall p pm, create_parent_map p = Ok pm -> Inv p (in_degrees (length (p_nodes p)) pm).
Proof. exact Inv_in_degrees. Qed.
(* ... and processing ANY remaining node (decrement its children, remove it) preserves it; in particular the
   decrement never saturates. *)
Theorem K_Inv_step : forall p m u, Inv p m -> In u (akeys m) ->
  Inv p (aremove u (reduce_in_degrees m (kids p u))).
Proof. exact Inv_step. Qed.

(* ---- 3. shape of the levels ---- *)
(* Every node occurs exactly once; no level is empty; levels are strictly ascending; every edge goes from
   an earlier level to a strictly later one. *)
Theorem K_kahn_levels : forall p pm levels,
  create_parent_map p = Ok pm -> parallel_topo_sort p pm = Ok levels ->
  Permutation (concat levels) (seq 0 (length (p_nodes p))) /\
  NoDup (concat levels) /\ (forall v, In v (concat levels) <-> v < length (p_nodes p)) /\
  (forall L, In L levels -> L <> []) /\
  (forall L, In L levels -> StronglySorted lt L) /\
  (forall u v i j Li Lj, edge p u v ->
     nth_error levels i = Some Li -> In u Li -> nth_error levels j = Some Lj -> In v Lj -> i < j).
Proof. exact kahn_levels. Qed.
(* Every node is scheduled strictly after each of its (recorded) parents. *)
Theorem K_kahn_parents_before : forall p pm levels,
  create_parent_map p = Ok pm -> parallel_topo_sort p pm = Ok levels ->
  forall v j Lj, nth_error levels j = Some Lj -> In v Lj ->
  forall u, In u (parents_of pm v) -> exists i Li, i < j /\ nth_error levels i = Some Li /\ In u Li.
Proof. exact kahn_parents_before. Qed.

(* ---- 4. success exactly on acyclic graphs ---- *)
Theorem K_kahn_ok_iff_acyclic : forall p pm, create_parent_map p = Ok pm ->
  ((exists levels, parallel_topo_sort p pm = Ok levels) <-> acyclic p).
Proof. exact kahn_ok_iff_acyclic. Qed.
(* The version with the hypotheses of the task text. *)
Theorem K_kahn_ok_iff_acyclic_closed : forall p pm, valid p -> closed p -> create_parent_map p = Ok pm ->
  ((exists levels, parallel_topo_sort p pm = Ok levels) <-> acyclic p).
Proof. exact kahn_ok_iff_acyclic_closed. Qed.
(* A cyclic graph gives the cycle error ... *)
Theorem K_kahn_cyclic_err : forall p pm, create_parent_map p = Ok pm -> ~ acyclic p ->
  parallel_topo_sort p pm = Err (InvalidNodeEdges 0).
Proof. exact kahn_cyclic_err. Qed.
(* ... every error is that error and means a cycle ... *)
Theorem K_kahn_err_cyclic : forall p pm e, create_parent_map p = Ok pm -> parallel_topo_sort p pm = Err e ->
  e = InvalidNodeEdges 0 /\ ~ acyclic p.
Proof. exact kahn_err_cyclic. Qed.
(* ... and the fuel S n always suffices; no panic. *)
Theorem K_kahn_no_fuel_no_panic : forall p pm, create_parent_map p = Ok pm ->
  parallel_topo_sort p pm <> OutOfFuel /\ forall s, parallel_topo_sort p pm <> Panic s.
Proof. exact kahn_no_fuel_no_panic. Qed.

(* ---- 5. the executable reference test ---- *)
Theorem K_acyclic_ref_iff : forall p, valid p -> closed p -> (acyclic_ref p = true <-> acyclic p).
Proof. exact acyclic_ref_iff. Qed.
Theorem K_edges_valid_iff : forall p, edges_valid p = true <-> valid p.
Proof. exact edges_valid_iff. Qed.
Theorem K_closed_b_iff : forall p, closed_b p = true <-> closed p.
Proof. exact closed_b_iff. Qed.
(* graph_ok of the reference = create_parent_map and parallel_topo_sort both succeed (closed graphs). *)
Theorem K_graph_ok_iff_sort_ok : forall p, closed p ->
  (graph_ok p = true <-> exists levels, sort_of p = Ok levels).
Proof. exact graph_ok_iff_sort_ok. Qed.

(* ---- 6. examples ---- *)
(* diamond 0 -> {1,2} -> 3 : levels [[0];[1;2];[3]], parents of 3 are [1;2] *)
Example K_ex_diamond :
  edges_valid ex_diamond = true /\ closed_b ex_diamond = true /\
  map (children ex_diamond) [0; 1; 2; 3] = [Some [1; 2]; Some [3]; Some [3]; Some []] /\
  (exists pm, create_parent_map ex_diamond = Ok pm /\ map (parents_of pm) [0; 1; 2; 3] = [[]; [0]; [0]; [1; 2]]) /\
  sort_of ex_diamond = Ok [[0]; [1; 2]; [3]] /\ acyclic_ref ex_diamond = true.
Proof. exact ex_diamond_sort. Qed.
(* chain 2 -> 1 -> 0 : sorted against the index order *)
Example K_ex_chain :
  edges_valid ex_chain = true /\ closed_b ex_chain = true /\
  map (children ex_chain) [0; 1; 2] = [Some []; Some [0]; Some [1]] /\
  sort_of ex_chain = Ok [[2]; [1]; [0]] /\ acyclic_ref ex_chain = true.
Proof. exact ex_chain_sort. Qed.
(* double edge 0 => 1 : the parent is recorded twice *)
Example K_ex_multi :
  edges_valid ex_multi = true /\ closed_b ex_multi = true /\
  (exists pm, create_parent_map ex_multi = Ok pm /\ parents_of pm 1 = [0; 0]) /\
  sort_of ex_multi = Ok [[0]; [1]].
Proof. exact ex_multi_sort. Qed.
(* 2-cycle, self loop, and a cycle behind a root: rejected *)
Example K_ex_cycle2 :
  edges_valid ex_cycle2 = true /\ closed_b ex_cycle2 = true /\
  sort_of ex_cycle2 = Err (InvalidNodeEdges 0) /\ acyclic_ref ex_cycle2 = false.
Proof. exact ex_cycle2_rejected. Qed.
Example K_ex_self :
  edges_valid ex_self = true /\ closed_b ex_self = true /\
  sort_of ex_self = Err (InvalidNodeEdges 0) /\ acyclic_ref ex_self = false.
Proof. exact ex_self_rejected. Qed.
Example K_ex_late_cycle :
  edges_valid ex_late_cycle = true /\ closed_b ex_late_cycle = true /\
  sort_of ex_late_cycle = Err (InvalidNodeEdges 0) /\ acyclic_ref ex_late_cycle = false.
Proof. exact ex_late_cycle_rejected. Qed.
(* malformed edge ranges: the first invalid node is reported *)
Example K_ex_bad_range :
  edges_valid ex_bad_range = false /\
  map (children ex_bad_range) [0; 1; 2; 3] = [Some [1]; None; None; Some []] /\
  sort_of ex_bad_range = Err (InvalidNodeEdges 1).
Proof. exact ex_bad_range_rejected. Qed.
(* a dangling edge target is ignored by the sort *)
Example K_ex_dangling :
  edges_valid ex_dangling = true /\ closed_b ex_dangling = false /\
  sort_of ex_dangling = Ok [[0]; [1]].
Proof. exact ex_dangling_sorted. Qed.
