(* C06 - Checker and decoders are total on untrusted input.  Statements only.

   Reading guide.  In the models every Rust expression that could panic (`expect`, slice indexing, unchecked
   arithmetic) is an explicit `Panic "site"` outcome, so "never panics, never indexes out of bounds" is: the
   entry point never returns `Panic _`.  `OutOfFuel` is the model's way of saying "did not finish within the
   model's fuel".  The decoders and the graph helpers are proved to need no fuel.  The check entry points run
   node programs with unlimited gas (they need not terminate), so for them `OutOfFuel` is explicitly ALLOWED:
   the statements below only exclude `Panic`.
   Nothing is assumed of predicates (cyclic graphs, edges to missing nodes, malformed edge ranges, any number
   of nodes) nor of program bytecode beyond being a list of bytes whose length fits a usize, nor of what the
   programs compute (outputs that are not mutation encodings, read counts of any size).  What IS assumed is
   that caller-supplied words are i64 values and addresses are 32 bytes (Rust types guarantee it).
   Named hypotheses (Spec/CheckTyped.v): `sol_ok`, `sol_ok2` (with i64 mutation keys/values), `view_ok`,
   `sm_ok`, `state_ok`, `lk_ok`; the three main theorems spell them out. *)
From Coq Require Import ZArith List Lia Bool String.
From EB Require Import Types.MutationCodec Types.PredicateCodec Asm.Op Vm.Mapped Vm.Machine Vm.Exec.
From EB Require Import Check.Graph Check.Inner Check.Validate Check.Set Spec.VmInvariant Spec.CheckTyped.
From EB Require Import Proofs.MutationProofs Proofs.PredicateProofs Proofs.AsmCodec Proofs.MappedProofs
                       Proofs.ValidateProofs Proofs.CheckTotal.
Import ListNotations.
Open Scope list_scope.
Open Scope Z_scope.

(* ================= binary decoders ================= *)

(* Decoding one mutation from any word list returns a mutation or a typed error; no fuel involved. *)
Theorem C06_decode_mutation_total : forall ws,
  (forall s, decode_mutation ws <> Panic s) /\ decode_mutation ws <> OutOfFuel.
Proof. exact decode_mutation_total. Qed.

(* Decoding a mutation list (a program's data output) from any word list likewise. *)
Theorem C06_decode_mutations_total : forall ws,
  (forall s, decode_mutations ws <> Panic s) /\ decode_mutations ws <> OutOfFuel.
Proof. exact decode_mutations_total. Qed.

(* Decoding a predicate from any byte list returns a predicate or a typed error. *)
Theorem C06_decode_predicate_total : forall bs,
  (forall s, decode_predicate bs <> Panic s) /\ decode_predicate bs <> OutOfFuel.
Proof. exact decode_predicate_total. Qed.

(* Predicate::node_edges on any predicate and index: None, or a slice of the edge list (never out of bounds). *)
Theorem C06_node_edges_total : forall p ix,
  node_edges p ix = None \/
  exists l, node_edges p ix = Some l /\ (forall e, In e l -> In e (p_edges p)).
Proof. exact node_edges_total. Qed.

(* Parsing bytecode from any byte list: operations or a typed error, within the model's fuel. *)
Theorem C06_from_bytes_total : forall bs,
  from_bytes bs <> OutOfFuel /\ (forall s, from_bytes bs <> Panic s).
Proof. exact from_bytes_total. Qed.

(* The mapped bytecode form likewise. *)
Theorem C06_mapped_try_from_total : forall bs,
  try_from_bytes bs <> OutOfFuel /\ forall s, try_from_bytes bs <> Panic s.
Proof. exact try_from_bytes_total. Qed.

(* ================= validation entry points ================= *)

(* check_set on any solution set: Ok or a typed error. *)
Theorem C06_check_set_total : forall sols,
  check_set sols = Ok tt \/ exists e, check_set sols = Err e.
Proof. exact check_set_total. Qed.

(* check_contract on any list of predicates: Ok or a typed error. *)
Theorem C06_check_contract_total : forall ps,
  check_contract ps = Ok tt \/ exists e, check_contract ps = Err e.
Proof. exact check_contract_total. Qed.

(* The parent map and the level sort of ANY predicate graph (cyclic, dangling edges, invalid ranges):
   a result or InvalidNodeEdges; no panic and the loop bound of the model is never hit. *)
Theorem C06_level_sort_total : forall p,
  (forall s, create_parent_map p <> Panic s) /\ create_parent_map p <> OutOfFuel /\
  (forall pm, create_parent_map p = Ok pm ->
     parallel_topo_sort p pm <> OutOfFuel /\ forall s, parallel_topo_sort p pm <> Panic s).
Proof. exact level_sort_total. Qed.

(* ================= the check entry points ================= *)

(* check_predicate_inner adds no panic site of its own: with a node runner that never panics it never panics,
   for any predicate, deferral test, mode and cache.  (OutOfFuel can only come from the runner.) *)
Theorem C06_check_predicate_inner_no_panic : forall run p collect_all is_def mode cache,
  (forall ix leaf ins s, run ix leaf ins <> Panic s) ->
  forall s, check_predicate_inner run p collect_all is_def mode cache <> Panic s.
Proof. exact inner_no_panic. Qed.

(* Running ANY byte string as a node program on ANY well-typed parent outputs (their total size is checked at
   run time) never panics; a parent output is again well-typed and within the VM limits, a data output is a
   list of i64 words.  OutOfFuel is allowed: the program runs with unlimited gas. *)
Theorem C06_run_program_no_panic : forall fuel c prog leaf parents,
  Forall (fun s => Forall (Forall i64) (sol_data s) /\ zlen (sol_data s) <= i64_max
                   /\ Forall (fun d => zlen d <= i64_max) (sol_data s)
                   /\ length (sol_contract s) = 32%nat /\ Forall byte (sol_contract s)
                   /\ length (sol_predicate s) = 32%nat /\ Forall byte (sol_predicate s)) (sc_solutions c) ->
  (sc_index c < length (sc_solutions c))%nat ->
  (forall c' k n vs, sc_pre c c' k n = Some vs -> Forall (Forall i64) vs) ->
  (forall c' k n vs, sc_post c c' k n = Some vs -> Forall (Forall i64) vs) ->
  Forall (fun io => Forall i64 (fst io) /\ Forall i64 (snd io)) parents ->
  Forall byte prog -> zlen prog <= usize_max -> Z.of_nat fuel * 10240 <= i64_max ->
  (forall s, run_program fuel c prog leaf parents <> Panic s) /\
  (forall st mem g, run_program fuel c prog leaf parents = Ok (PRun (OutParent st mem) g) ->
     Forall i64 st /\ Forall i64 mem /\ zlen st <= 4096 /\ zlen mem <= 10240) /\
  (forall mem g, run_program fuel c prog leaf parents = Ok (PRun (OutLeaf (DataOutput mem)) g) ->
     Forall i64 mem /\ zlen mem <= 10240).
Proof. exact run_program_no_panic. Qed.

(* What run_program needs of its context is exactly the environment hypothesis of C05. *)
Theorem C06_env_for_ok : forall c, ctx_ok c -> env_ok (env_for c).
Proof. exact env_for_ok. Qed.

(* The harness state view and the post-state view return i64 words when the stored / proposed values do. *)
Theorem C06_state_view_i64 : forall st,
  Forall (fun ce => Forall (fun e => Forall i64 (snd e)) (snd ce)) st ->
  forall c k n vs, state_view st c k n = Some vs -> Forall (Forall i64) vs.
Proof. exact state_view_i64. Qed.
Theorem C06_read_or_fallback_i64 : forall ps pre,
  Forall (fun e => Forall i64 (snd e)) ps ->
  (forall c k n vs, pre c k n = Some vs -> Forall (Forall i64) vs) ->
  forall c k n vs, read_or_fallback ps pre c k n = Some vs -> Forall (Forall i64) vs.
Proof. exact read_or_fallback_i64. Qed.

(* Mutations decoded from a memory of i64 words have i64 keys and values (they are slices of it). *)
Theorem C06_decode_mutations_i64 : forall ws ms,
  decode_mutations ws = Ok ms -> Forall i64 ws ->
  Forall (fun m => Forall i64 (m_key m) /\ Forall i64 (m_value m)) ms.
Proof. exact decode_mutations_i64. Qed.

(* check_predicate for one solution: ANY lookup of predicates and program bytes; every cached parent output
   stays well-typed (the invariant that lets outputs be fed to children and to the second pass). *)
Theorem C06_check_predicate_no_panic : forall fuel lk collect_all mode c cache,
  (forall a, Forall byte (lk_program lk a) /\ zlen (lk_program lk a) <= usize_max) ->
  Z.of_nat fuel * 10240 <= i64_max ->
  Forall sol_ok (sc_solutions c) -> (sc_index c < length (sc_solutions c))%nat ->
  view_ok (sc_pre c) -> view_ok (sc_post c) ->
  Forall (fun e => Forall i64 (fst (snd e)) /\ Forall i64 (snd (snd e))) cache ->
  (forall s, check_predicate fuel lk collect_all mode c cache <> Panic s) /\
  (forall r, check_predicate fuel lk collect_all mode c cache = Ok r ->
     Forall (fun e => Forall i64 (fst (snd e)) /\ Forall i64 (snd (snd e))) (ir_cache r) /\
     (forall g d, ir_res r = Ok (g, d) -> Forall (Forall i64) d)).
Proof. exact check_predicate_no_panic. Qed.

(* check_set_predicates: all solutions; neither the call nor the result it carries is a Panic. *)
Theorem C06_check_set_predicates_no_panic : forall fuel lk collect_all mode sols pre post caches,
  lk_ok lk -> Z.of_nat fuel * 10240 <= i64_max ->
  Forall sol_ok sols -> view_ok pre -> view_ok post ->
  Forall (Forall (fun e => sm_ok (snd e))) caches ->
  (forall s, check_set_predicates fuel lk collect_all mode sols pre post caches <> Panic s) /\
  (forall r, check_set_predicates fuel lk collect_all mode sols pre post caches = Ok r ->
     Forall (Forall (fun e => sm_ok (snd e))) (sr_caches r) /\
     (forall g data, sr_res r = Ok (g, data) -> Forall (fun d => Forall (Forall i64) (snd d)) data) /\
     (forall s, sr_res r <> Panic s)).
Proof. exact check_set_predicates_no_panic. Qed.

(* check_and_compute_solution_set: data outputs that are not mutation encodings give a typed error; the
   solutions with the computed mutations appended are again well-typed. *)
Theorem C06_check_and_compute_no_panic : forall fuel lk collect_all mode sols pre post caches,
  lk_ok lk -> Z.of_nat fuel * 10240 <= i64_max ->
  Forall sol_ok2 sols -> view_ok pre -> view_ok post ->
  Forall (Forall (fun e => sm_ok (snd e))) caches ->
  (forall s, check_and_compute fuel lk collect_all mode sols pre post caches <> Panic s) /\
  (forall r, check_and_compute fuel lk collect_all mode sols pre post caches = Ok r ->
     Forall (Forall (fun e => sm_ok (snd e))) (cr_caches r) /\
     (forall g sols', cr_res r = Ok (g, sols') -> Forall sol_ok2 sols')).
Proof. exact check_and_compute_no_panic. Qed.

(* The two-pass entry point: for ANY lookup (predicates cyclic / dangling / malformed, programs any bytes),
   any collect_all flag, well-typed solutions and pre-state, it returns a result, a typed error, or the
   model's fuel runs out (programs run with unlimited gas); it never panics. *)
Theorem C06_two_pass_no_panic : forall fuel lk collect_all sols pre_state,
  (forall a, Forall byte (lk_program lk a) /\ zlen (lk_program lk a) <= usize_max) ->
  Z.of_nat fuel * 10240 <= i64_max ->
  Forall (fun s =>
    (Forall (Forall i64) (sol_data s) /\ zlen (sol_data s) <= i64_max
     /\ Forall (fun d => zlen d <= i64_max) (sol_data s)
     /\ length (sol_contract s) = 32%nat /\ Forall byte (sol_contract s)
     /\ length (sol_predicate s) = 32%nat /\ Forall byte (sol_predicate s))
    /\ Forall (fun m => Forall i64 (m_key m) /\ Forall i64 (m_value m)) (sol_muts s)) sols ->
  Forall (fun ce => Forall (fun e => Forall i64 (snd e)) (snd ce)) pre_state ->
  forall s, two_pass fuel lk collect_all sols pre_state <> Panic s.
Proof. exact two_pass_no_panic. Qed.

(* ... and the result inside a successful return is a value or a typed error. *)
Theorem C06_two_pass_result_no_panic : forall fuel lk collect_all sols pre_state r,
  two_pass fuel lk collect_all sols pre_state = Ok r -> forall s, tp_res r <> Panic s.
Proof. exact two_pass_result_no_panic. Qed.

(* ================= examples: untrusted inputs give typed errors ================= *)

(* count 1, then a mutation with key length 1 and nothing after the key *)
Example C06_ex_decode_mutations_short : decode_mutations [1; 1; 5] = Err WordsTooShort.
Proof. vm_compute. reflexivity. Qed.
(* a huge count and no data *)
Example C06_ex_decode_mutations_huge : decode_mutations [i64_max] = Ok [].
Proof. vm_compute. reflexivity. Qed.
(* a huge key length: the saturating additions keep the slice bounds in range *)
Example C06_ex_decode_mutations_huge_key : decode_mutations [1; i64_max; 7] = Err WordsTooShort.
Proof. vm_compute. reflexivity. Qed.
Example C06_ex_decode_mutations_negative : decode_mutations [1; -1; 7] = Err NegativeKeyLength.
Proof. vm_compute. reflexivity. Qed.
Example C06_ex_decode_predicate_empty : decode_predicate [] = Err BytesTooShort.
Proof. vm_compute. reflexivity. Qed.

Definition C06_addr : list Z := repeat 7 32.
(* a node whose edge range starts after the end of the edge list *)
Definition C06_bad_range : predicate := {| p_nodes := [{| n_edge_start := 5; n_program := C06_addr |}]; p_edges := [] |}.
Example C06_ex_node_edges_invalid : node_edges C06_bad_range 0 = None.
Proof. vm_compute. reflexivity. Qed.

(* a two-node cycle 0 -> 1 -> 0, and a node with an edge to a missing node 9 *)
Definition C06_cyclic : predicate :=
  {| p_nodes := [{| n_edge_start := 0; n_program := C06_addr |}; {| n_edge_start := 1; n_program := C06_addr |}];
     p_edges := [1; 0] |}.
Definition C06_dangling : predicate :=
  {| p_nodes := [{| n_edge_start := 0; n_program := C06_addr |}]; p_edges := [9] |}.
Definition C06_toy_run (ix : nat) (leaf : bool) (ins : list sm) : outcome unit prog_res :=
  Ok (PRun (if leaf then OutLeaf (Satisfied true) else OutParent [] []) 1).

Example C06_ex_cyclic :
  check_predicate_inner C06_toy_run C06_cyclic false (fun _ => false) Outputs []
  = Ok {| ir_res := Err (PInvalidNodeEdges 0); ir_cache := []; ir_events := [] |}.
Proof. vm_compute. reflexivity. Qed.
Example C06_ex_bad_range :
  check_predicate_inner C06_toy_run C06_bad_range false (fun _ => false) Outputs []
  = Ok {| ir_res := Err (PInvalidNodeEdges 0); ir_cache := []; ir_events := [] |}.
Proof. vm_compute. reflexivity. Qed.
Example C06_ex_dangling :
  exists r, check_predicate_inner C06_toy_run C06_dangling false (fun _ => false) Outputs [] = Ok r.
Proof. eexists. vm_compute. reflexivity. Qed.

(* ---- the hypotheses of the two-pass theorem are satisfiable; untrusted programs give typed errors ---- *)
Definition C06_sol : solution :=
  {| sol_contract := repeat 1 32; sol_predicate := repeat 2 32; sol_data := [[1; 2]; []];
     sol_muts := [{| m_key := [4]; m_value := [5; 6] |}] |}.
Definition C06_state : state := [(repeat 1 32, [([4], [9]); ([0], [i64_min])])].
Definition C06_leaf : predicate := {| p_nodes := [{| n_edge_start := 65535; n_program := C06_addr |}]; p_edges := [] |}.
(* a leaf program that pushes 2 (= "data output") and leaves an empty memory: not a mutation encoding *)
Definition C06_lk_bad_output : lookup :=
  {| lk_predicate := fun _ _ => C06_leaf; lk_program := fun _ => to_bytes [OPush 2] |}.
(* garbage bytecode *)
Definition C06_lk_garbage : lookup := {| lk_predicate := fun _ _ => C06_leaf; lk_program := fun _ => [255; 0; 3] |}.
(* a cyclic predicate *)
Definition C06_lk_cyclic : lookup := {| lk_predicate := fun _ _ => C06_cyclic; lk_program := fun _ => [] |}.

Example C06_ex_hyps :
  Forall sol_ok2 [C06_sol] /\ state_ok C06_state /\ Z.of_nat 100 * 10240 <= i64_max /\
  lk_ok C06_lk_bad_output /\ lk_ok C06_lk_garbage /\ lk_ok C06_lk_cyclic.
Proof.
  assert (B : forall l, forallb byteb l = true -> Forall byte l).
  { intros l H. apply Forall_forall. intros x Hx. apply byteb_spec. rewrite forallb_forall in H. exact (H x Hx). }
  assert (W : forall l, forallb i64b l = true -> Forall i64 l).
  { intros l H. apply Forall_forall. intros x Hx. apply i64b_spec. rewrite forallb_forall in H. exact (H x Hx). }
  split.
  { constructor; [|constructor]. split.
    - unfold sol_ok, C06_sol; cbn [sol_data sol_contract sol_predicate].
      split; [repeat constructor; apply i64b_spec; reflexivity|].
      split; [vm_compute; discriminate|]. split; [repeat constructor; vm_compute; discriminate|].
      split; [reflexivity|]. split; [apply B; reflexivity|]. split; [reflexivity|apply B; reflexivity].
    - cbn [C06_sol sol_muts]. constructor; [|constructor]. split; cbn [m_key m_value]; apply W; reflexivity. }
  split.
  { unfold state_ok, kv_ok, C06_state. constructor; [|constructor]. cbn [snd].
    constructor; [apply W; reflexivity|]. constructor; [apply W; reflexivity|constructor]. }
  split; [vm_compute; discriminate|].
  split; [intros a; cbn [C06_lk_bad_output lk_program]; split; [apply B; reflexivity|vm_compute; discriminate]|].
  split; [intros a; cbn [C06_lk_garbage lk_program]; split; [apply B; reflexivity|vm_compute; discriminate]|].
  intros a; cbn [C06_lk_cyclic lk_program]; split; [constructor|vm_compute; discriminate].
Qed.

Example C06_ex_two_pass_bad_output :
  exists r, two_pass 100 C06_lk_bad_output false [C06_sol] C06_state = Ok r /\ tp_res r = Err (SMutationsDecode 0).
Proof. eexists. split; vm_compute; reflexivity. Qed.
Example C06_ex_two_pass_garbage :
  exists r, two_pass 100 C06_lk_garbage false [C06_sol] C06_state = Ok r /\
            tp_res r = Err (SFailed [(0%nat, PProgramErrors [0%nat])]).
Proof. eexists. split; vm_compute; reflexivity. Qed.
Example C06_ex_two_pass_cyclic :
  exists r, two_pass 100 C06_lk_cyclic true [C06_sol] C06_state = Ok r /\
            tp_res r = Err (SFailed [(0%nat, PInvalidNodeEdges 0)]).
Proof. eexists. split; vm_compute; reflexivity. Qed.
