(* C01 (numbering independence) - "The verdict, the failing solution/node indices, the reported data outputs and the
   total gas are a function of the graph's edges only and do not depend on how the nodes happen to be numbered."
   Statements only.  Because a node starts from the concatenation of its parents' results in ASCENDING PARENT ORDER,
   the order of co-parents is part of the semantics; the theorems are about renamings `pi` that keep that order:
     graph_ren p p' pi pi' :=  same number n of nodes, pi/pi' mutually inverse bijections of {0..n-1},
        (R1) forall v < n, parents_ref p' (pi v) = map pi (parents_ref p v)    (same parents, same multiplicity, same order:
                                                                               pi is monotone on every parent set)
        (R2) forall v < n, leaf_ref p' (pi v) = leaf_ref p v
     run_ren p run run' pi :=  (R3) forall v < n, run' (pi v) = run v          (the same program at the renamed position)
   The last example shows that without the order part of R1 the verdict can change. *)
From Coq Require Import List Arith ZArith Permutation Lia.
From EB Require Import Proofs.KahnBase Proofs.Kahn Spec.InnerSpec Proofs.InnerEval Spec.GraphRef Proofs.C01Glue Proofs.Renumber.
Import ListNotations.
Open Scope nat_scope.

(* The reference value of every node is the same, for every fuel ... *)
Theorem C01_value_renumber : forall p p' run run' pi pi',
  graph_ren p p' pi pi' -> run_ren p run run' pi ->
  forall fuel v, v < length (p_nodes p) ->
    value p' run' (fun _ => false) fuel (pi v) = value p run (fun _ => false) fuel v.
Proof. exact value_renumber. Qed.

(* ... in particular with the fuel the theorems of C01 use. *)
Theorem C01_vals_renumber : forall p p' run run' pi pi',
  graph_ren p p' pi pi' -> run_ren p run run' pi ->
  forall v, v < length (p_nodes p) -> vals p' run' (pi v) = vals p run v.
Proof. exact vals_renumber. Qed.

(* The hypotheses are symmetric: the inverse renaming satisfies them in the other direction. *)
Theorem C01_renumbering_symmetric : forall p p' run run' pi pi',
  graph_ren p p' pi pi' -> run_ren p run run' pi -> graph_ren p' p pi' pi /\ run_ren p' run' run pi'.
Proof. exact renumbering_sym. Qed.

(* R2 may be replaced by: the children of the renamed node are the renamed children (in any order). *)
Theorem C01_leaf_of_children : forall p p' pi u,
  Permutation (kids p' (pi u)) (map pi (kids p u)) -> leaf_ref p' (pi u) = leaf_ref p u.
Proof. exact leaf_of_kids_perm. Qed.

(* Edges correspond, so one graph is acyclic iff the other is ... *)
Theorem C01_edges_renumber : forall p p' pi pi', graph_ren p p' pi pi' ->
  forall u v, u < length (p_nodes p) -> v < length (p_nodes p) ->
    (KahnBase.edge p u v <-> KahnBase.edge p' (pi u) (pi v)).
Proof. exact edge_renumber_iff. Qed.
Theorem C01_acyclic_numbering_independent : forall p p' pi pi', graph_ren p p' pi pi' -> (acyclic p <-> acyclic p').
Proof. exact acyclic_renumber. Qed.
(* ... and the level sort accepts one iff it accepts the other (a cyclic graph is rejected under any numbering). *)
Theorem C01_sort_verdict_numbering_independent : forall p p' pi pi' pm pm', graph_ren p p' pi pi' ->
  create_parent_map p = Ok pm -> create_parent_map p' = Ok pm' ->
  ((exists levels, parallel_topo_sort p pm = Ok levels) <-> (exists levels', parallel_topo_sort p' pm' = Ok levels')).
Proof. exact sort_ok_renumber. Qed.

(* The check succeeds on one graph iff it succeeds on the renumbered one ... *)
Theorem C01_verdict_numbering_independent :
  forall p p' run run' pi pi' ca ca' pm pm' levels levels' r r',
    graph_ren p p' pi pi' -> run_ren p run run' pi ->
    create_parent_map p = Ok pm -> parallel_topo_sort p pm = Ok levels ->
    create_parent_map p' = Ok pm' -> parallel_topo_sort p' pm' = Ok levels' ->
    single_pass run p ca = Ok r -> single_pass run' p' ca' = Ok r' ->
    run_respects_leaf run -> run_respects_leaf run' ->
    ((exists g d, ir_res r = Ok (g, d)) <-> (exists g' d', ir_res r' = Ok (g', d'))).
Proof. exact verdict_renumber. Qed.

(* ... with the same total gas (programs report non-negative gas; the saturating sum does not depend on the order) ... *)
Theorem C01_gas_numbering_independent :
  forall p p' run run' pi pi' ca ca' pm pm' levels levels' r r',
    graph_ren p p' pi pi' -> run_ren p run run' pi ->
    create_parent_map p = Ok pm -> parallel_topo_sort p pm = Ok levels ->
    create_parent_map p' = Ok pm' -> parallel_topo_sort p' pm' = Ok levels' ->
    single_pass run p ca = Ok r -> single_pass run' p' ca' = Ok r' ->
    run_respects_leaf run -> run_respects_leaf run' ->
    forall g d g' d', (forall v leaf ins o gs, run v leaf ins = Ok (PRun o gs) -> (0 <= gs)%Z) ->
      ir_res r = Ok (g, d) -> ir_res r' = Ok (g', d') -> g = g'.
Proof. exact gas_renumber. Qed.

(* ... and the same data outputs up to their order (the order follows the level order, which follows the numbering). *)
Theorem C01_data_numbering_independent :
  forall p p' run run' pi pi' ca ca' pm pm' levels levels' r r',
    graph_ren p p' pi pi' -> run_ren p run run' pi ->
    create_parent_map p = Ok pm -> parallel_topo_sort p pm = Ok levels ->
    create_parent_map p' = Ok pm' -> parallel_topo_sort p' pm' = Ok levels' ->
    single_pass run p ca = Ok r -> single_pass run' p' ca' = Ok r' ->
    run_respects_leaf run -> run_respects_leaf run' ->
    forall g d g' d', ir_res r = Ok (g, d) -> ir_res r' = Ok (g', d') -> Permutation d d'.
Proof. exact data_renumber. Qed.

(* When both report unsatisfied leaves, they report the same leaves (renamed), up to order. *)
Theorem C01_unsatisfied_numbering_independent :
  forall p p' run run' pi pi' ca ca' pm pm' levels levels' r r',
    graph_ren p p' pi pi' -> run_ren p run run' pi ->
    create_parent_map p = Ok pm -> parallel_topo_sort p pm = Ok levels ->
    create_parent_map p' = Ok pm' -> parallel_topo_sort p' pm' = Ok levels' ->
    single_pass run p ca = Ok r -> single_pass run' p' ca' = Ok r' ->
    run_respects_leaf run -> run_respects_leaf run' ->
    forall us us', ir_res r = Err (PConstraintsUnsatisfied us) -> ir_res r' = Err (PConstraintsUnsatisfied us') ->
      Permutation (map pi us) us'.
Proof. exact failure_indices_renumber. Qed.

(* R1 says exactly: edge multiplicities correspond and pi is monotone on the parent set of every node. *)
Theorem C01_R1_from_monotone : forall p p' pi pi',
  length (p_nodes p') = length (p_nodes p) ->
  (forall v, v < length (p_nodes p) -> pi v < length (p_nodes p)) ->
  (forall v, v < length (p_nodes p) -> pi' v < length (p_nodes p)) ->
  (forall v, v < length (p_nodes p) -> pi' (pi v) = v) ->
  (forall v, v < length (p_nodes p) -> pi (pi' v) = v) ->
  (forall u v, u < length (p_nodes p) -> v < length (p_nodes p) ->
     count_occ Nat.eq_dec (kids p' (pi u)) (pi v) = count_occ Nat.eq_dec (kids p u) v) ->
  (forall v u1 u2, v < length (p_nodes p) -> In u1 (parents_ref p v) -> In u2 (parents_ref p v) -> u1 < u2 -> pi u1 < pi u2) ->
  forall v, v < length (p_nodes p) -> parents_ref p' (pi v) = map pi (parents_ref p v).
Proof. exact parents_of_monotone. Qed.
Theorem C01_R1_gives_monotone : forall p p' pi pi', graph_ren p p' pi pi' ->
  forall v u1 u2, v < length (p_nodes p) -> In u1 (parents_ref p v) -> In u2 (parents_ref p v) -> u1 < u2 -> pi u1 < pi u2.
Proof. exact monotone_of_parents. Qed.

(* The arithmetic fact behind the gas theorem: a saturating sum of non-negative numbers does not depend on the order. *)
Theorem C01_sat_sum_perm : forall l l', Forall (fun x => (0 <= x)%Z) l -> Permutation l l' ->
  forall a, (0 <= a)%Z -> fold_left sat_add_u64 l a = fold_left sat_add_u64 l' a.
Proof. exact sat_sum_perm. Qed.
Theorem C01_sat_sum_closed : forall l, Forall (fun x => (0 <= x)%Z) l -> forall a, (a <= 18446744073709551615)%Z ->
  fold_left sat_add_u64 l a = Z.min (a + fold_right Z.add 0%Z l) 18446744073709551615%Z.
Proof. exact sat_sum_closed. Qed.

(* ---- Examples ---- *)
Definition rn_nd (start : Z) : node := {| n_edge_start := start; n_program := [] |}.
(* 0 -> 1 -> 2 and the same chain numbered backwards, 2 -> 1 -> 0 *)
Definition rn_chain012 : predicate := {| p_nodes := [rn_nd 0; rn_nd 1; rn_nd 65535]; p_edges := [1; 2]%Z |}.
Definition rn_chain210 : predicate := {| p_nodes := [rn_nd 65535; rn_nd 0; rn_nd 1]; p_edges := [0; 1]%Z |}.
Definition rev3 (v : nat) : nat := 2 - v.
(* a node appends the constant 10 * (v + 1) to the concatenation of its input stacks and costs v + 1;
   a leaf reports the result as a data output *)
Definition rn_run (v : nat) (leaf : bool) (ins : list sm) : outcome unit prog_res :=
  let s := (flat_map fst ins ++ [10 * Z.of_nat (S v)])%Z in
  Ok (PRun (if leaf then OutLeaf (DataOutput s) else OutParent s []) (Z.of_nat (S v))).
(* the renumbered programs: position w holds the program of the ORIGINAL node pi' w *)
Definition rn_run' (w : nat) : bool -> list sm -> outcome unit prog_res := rn_run (rev3 w).

Lemma rn_run_respects_leaf (f : nat -> nat) : run_respects_leaf (fun w => rn_run (f w)).
Proof. intros ix ins g o H. unfold rn_run in H. cbn in H. discriminate. Qed.

Example C01_renumber_chain_example :
  graph_ren rn_chain012 rn_chain210 rev3 rev3 /\ run_ren rn_chain012 rn_run rn_run' rev3 /\
  run_respects_leaf rn_run /\ run_respects_leaf rn_run' /\
  (forall v leaf ins o gs, rn_run v leaf ins = Ok (PRun o gs) -> (0 <= gs)%Z) /\
  (* R1, spelled out: parents of nodes 0,1,2 are [],[0],[1]; of the renamed nodes 2,1,0 they are [],[2],[1] *)
  map (parents_ref rn_chain012) [0; 1; 2] = [[]; [0]; [1]] /\
  map (fun v => parents_ref rn_chain210 (rev3 v)) [0; 1; 2] = [[]; [2]; [1]] /\
  (* both sort, in opposite index order, and give the same verdict, gas and data *)
  match create_parent_map rn_chain012, create_parent_map rn_chain210 with
  | Ok pm, Ok pm' => parallel_topo_sort rn_chain012 pm = Ok [[0]; [1]; [2]] /\
                     parallel_topo_sort rn_chain210 pm' = Ok [[2]; [1]; [0]]
  | _, _ => False
  end /\
  match single_pass rn_run rn_chain012 false, single_pass rn_run' rn_chain210 false with
  | Ok r, Ok r' => ir_res r = Ok (6%Z, [[10; 20; 30]%Z]) /\ ir_res r' = Ok (6%Z, [[10; 20; 30]%Z]) /\
                   map fst (ir_events r) = [0; 1; 2] /\ map fst (ir_events r') = [2; 1; 0]
  | _, _ => False
  end.
Proof.
  split; [|split; [|split; [|split; [|split; [|split; [|split; [|split]]]]]]].
  - constructor; try (intros [|[|[|v]]] Hv; cbn in Hv; try lia; vm_compute; try reflexivity; lia).
    reflexivity.
  - intros [|[|[|v]]] leaf ins Hv; cbn in Hv; try lia; reflexivity.
  - exact (rn_run_respects_leaf (fun w => w)).
  - exact (rn_run_respects_leaf rev3).
  - intros v leaf ins o gs H. unfold rn_run in H. injection H as _ E. subst gs. lia.
  - vm_compute. reflexivity.
  - vm_compute. reflexivity.
  - vm_compute. split; reflexivity.
  - vm_compute. repeat split; reflexivity.
Qed.

(* Why the order part of R1 is needed.  The diamond 0 -> {1,2} -> 3 with the two middle nodes swapped (pi = (1 2)) is
   the same predicate with the two middle PROGRAMS swapped.  Everything corresponds except the order of the parents of
   node 3, so node 3 receives its inputs in the other order: here the original is accepted, the renumbering rejected. *)
Definition rn_diamond : predicate := {| p_nodes := [rn_nd 0; rn_nd 2; rn_nd 3; rn_nd 65535]; p_edges := [1; 2; 3; 3]%Z |}.
Definition swap12 (v : nat) : nat := match v with 1 => 2 | 2 => 1 | _ => v end.
(* inner nodes append their own identity; the leaf is satisfied iff it sees exactly [0;1;0;2] *)
Definition ord_run (v : nat) (leaf : bool) (ins : list sm) : outcome unit prog_res :=
  if leaf then Ok (PRun (OutLeaf (Satisfied (if list_eq_dec Z.eq_dec (flat_map fst ins) [0; 1; 0; 2]%Z then true else false))) 1%Z)
  else Ok (PRun (OutParent (flat_map fst ins ++ [Z.of_nat v]) []) 1%Z).
Definition ord_run' (w : nat) : bool -> list sm -> outcome unit prog_res := ord_run (swap12 w).

Example C01_renumber_needs_parent_order :
  (* a bijection; children (hence edges, with multiplicity) and leaves correspond; programs correspond *)
  (forall v, v < 4 -> swap12 v < 4 /\ swap12 (swap12 v) = v) /\
  (forall u, u < 4 -> Permutation (kids rn_diamond (swap12 u)) (map swap12 (kids rn_diamond u))) /\
  (forall v, v < 4 -> leaf_ref rn_diamond (swap12 v) = leaf_ref rn_diamond v) /\
  run_ren rn_diamond ord_run ord_run' swap12 /\
  run_respects_leaf ord_run /\ run_respects_leaf ord_run' /\
  (* but the parents of node 3 are listed in the other order: R1 fails ... *)
  parents_ref rn_diamond (swap12 3) = [1; 2] /\ map swap12 (parents_ref rn_diamond 3) = [2; 1] /\
  ~ graph_ren rn_diamond rn_diamond swap12 swap12 /\
  (In 1 (parents_ref rn_diamond 3) /\ In 2 (parents_ref rn_diamond 3) /\ 1 < 2 /\ swap12 2 < swap12 1) /\
  (* ... the leaf sees [0;1;0;2] in the original and [0;2;0;1] in the renumbering, and the verdict changes *)
  match single_pass ord_run rn_diamond false, single_pass ord_run' rn_diamond false with
  | Ok r, Ok r' => ir_res r = Ok (4%Z, []) /\ ir_res r' = Err (PConstraintsUnsatisfied [3]) /\
                   map snd (ir_events r) = [[]; [([0], [])]; [([0], [])]; [([0; 1], []); ([0; 2], [])]]%Z /\
                   map snd (ir_events r') = [[]; [([0], [])]; [([0], [])]; [([0; 2], []); ([0; 1], [])]]%Z
  | _, _ => False
  end /\
  vals rn_diamond ord_run 3 = Ok (NVLeaf (Satisfied true) 1%Z) /\
  vals rn_diamond ord_run' (swap12 3) = Ok (NVLeaf (Satisfied false) 1%Z).
Proof.
  assert (Hk : forall u, u < 4 -> Permutation (kids rn_diamond (swap12 u)) (map swap12 (kids rn_diamond u))).
  { intros [|[|[|[|u]]]] Hu; try lia; vm_compute; try apply Permutation_refl. apply perm_swap. }
  split; [|split; [exact Hk|split; [|split; [|split; [|split; [|split; [|split; [|split; [|split]]]]]]]]].
  - intros [|[|[|[|v]]]] Hv; try lia; cbn; split; (lia || reflexivity).
  - intros v Hv. apply leaf_of_kids_perm. apply Hk. exact Hv.
  - intros [|[|[|[|v]]]] leaf ins Hv; cbn in Hv; try lia; reflexivity.
  - intros ix ins g o H. unfold ord_run in H. discriminate.
  - intros ix ins g o H. unfold ord_run', ord_run in H. discriminate.
  - reflexivity.
  - reflexivity.
  - intros G. pose proof (gr_parents _ _ _ _ G 3) as H. cbn in H. specialize (H ltac:(lia)). discriminate.
  - vm_compute. repeat split; auto.
  - vm_compute. repeat split; reflexivity.
Qed.
