(* C04 - A solution set is a set: results do not depend on solution order.  Statements only.
   The whole-set statement "an accepted set proposes at most one value per contract and key" is FALSE of the code
   (known finding F10, `C04_refuted`); the order-independence theorems are therefore stated for sets whose
   (contract, key) pairs are pairwise distinct (`NoDup (set_pairs sols)` = `unique_slots`).
   PARTIAL: order independence is proved for the content address, for set validation and for the post-state view
   that the second pass reads; the lift to the whole two-pass result (verdict, gas, computed mutations) is covered by
   the correspondence over all permutations, not by a theorem. *)
From Coq Require Import List Permutation.
From EB Require Import Check.Validate Check.Set Hash.Addr Spec.TwoPassSpec
     Proofs.ValidateProofs Proofs.AddrProofs Proofs.PostState.
Import ListNotations.
Open Scope Z_scope.

(* The content address of a set does not depend on the order of its solutions (for any 32-byte hash). *)
Theorem C04_set_addr_perm : forall (H : list Z -> list Z) sols sols',
  Permutation sols sols' -> (forall bs, length (H bs) = 32%nat) ->
  set_preimage H sols = set_preimage H sols' /\ set_addr H sols = set_addr H sols'.
Proof. exact set_addr_perm. Qed.

(* Set validation gives the same verdict for every order. *)
Theorem C04_check_set_perm : forall sols sols',
  Permutation sols sols' -> (check_set sols = Ok tt <-> check_set sols' = Ok tt).
Proof. exact check_set_perm. Qed.

(* What acceptance guarantees about slots: no solution mutates the same key twice ... *)
Theorem C04_accepted_unique_per_solution : forall sols,
  check_set sols = Ok tt -> Forall (fun s => NoDup (map m_key (sol_muts s))) sols.
Proof. exact accepted_set_unique_slots_per_solution. Qed.

(* ... but NOT "one value per contract and key over the whole set" (known finding F10) ... *)
Theorem C04_refuted :
  exists sols, check_set sols = Ok tt /\
    ~ NoDup (flat_map (fun s => map (fun m => (sol_contract s, m_key m)) (sol_muts s)) sols).
Proof. exact ValidateProofs.C04_refuted. Qed.

(* ... and on the witness the post-state depends on the order of the two solutions. *)
Theorem C04_overlay_order_dependent_on_witness :
  check_set [f10_s1; f10_s2] = Ok tt /\ check_set [f10_s2; f10_s1] = Ok tt /\
  post_get (build_post_state [f10_s1; f10_s2]) f10_contract [9] = Some [2] /\
  post_get (build_post_state [f10_s2; f10_s1]) f10_contract [9] = Some [1] /\
  post_get (build_post_state [f10_s1; f10_s2]) f10_contract [9] <>
  post_get (build_post_state [f10_s2; f10_s1]) f10_contract [9].
Proof. exact overlay_order_dependent_on_witness. Qed.

(* Outside that class the post-state is well defined: the proposed value of a slot, and the whole post-state
   view read by the second pass, do not depend on the order of the solutions. *)
Theorem C04_overlay_well_defined : forall sols sols' c k,
  Permutation sols sols' -> NoDup (set_pairs sols) ->
  post_get (build_post_state sols) c k = post_get (build_post_state sols') c k /\
  post_has_contract (build_post_state sols) c = post_has_contract (build_post_state sols') c.
Proof. exact overlay_well_defined. Qed.

Theorem C04_post_view_order_independent_partial : forall sols sols' pre c k n,
  Permutation sols sols' -> NoDup (set_pairs sols) ->
  read_or_fallback (build_post_state sols) pre c k n = read_or_fallback (build_post_state sols') pre c k n.
Proof. exact post_view_order_independent. Qed.
