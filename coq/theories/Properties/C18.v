(* C18 - Wire, text and serde codecs round-trip every value.  Statements only.
   This file: mutation word codec, word/byte conversions, binary (postcard) solution encoding.
   Properties/PredicateCodecThms.v: predicate binary codec and node_edges (the PC_ theorems).
   Properties/TextCodecThms.v: hex, Display/FromStr and the human-readable serde surface incl. legacy field names. *)
From Coq Require Import List.
From EB Require Import Types.MutationCodec Base.Bytes Vm.Machine Types.Postcard
     Proofs.MutationProofs Proofs.AccessCrypto Proofs.PostcardProofs.
Import ListNotations.
Open Scope Z_scope.

(* Decoding the encoding of any list of mutations returns the original list. *)
Theorem C18_decode_encode_mutations : forall ms, Forall fits ms -> decode_mutations (encode_mutations ms) = Ok ms.
Proof. exact decode_encode_mutations. Qed.

(* One mutation, followed by anything. *)
Theorem C18_decode_encode_mutation : forall m rest, fits m -> decode_mutation (encode_mutation m ++ rest) = Ok m.
Proof. exact decode_mutation_encode. Qed.

(* The encoding is injective and its reported size is its length. *)
Theorem C18_encode_mutations_injective : forall a b,
  Forall fits a -> Forall fits b -> encode_mutations a = encode_mutations b -> a = b.
Proof. exact encode_mutations_injective. Qed.
Theorem C18_mutation_size_eq : forall m, encode_mutation_size m = zlen (encode_mutation m).
Proof. exact encode_mutation_size_eq. Qed.

(* Words <-> 8 big-endian bytes are inverse in both directions ... *)
Theorem C18_word_of_bytes_of_word : forall w, i64 w -> word_of_bytes (bytes_of_word w) = w.
Proof. exact word_of_bytes_of_word. Qed.
Theorem C18_bytes_of_word_of_bytes : forall bs, length bs = 8%nat -> Forall byte bs -> bytes_of_word (word_of_bytes bs) = bs.
Proof. exact bytes_of_word_of_bytes. Qed.

(* ... and so are the fixed-width conversions (32 bytes / 4 words, 64 bytes / 8 words, any multiple of 8). *)
Theorem C18_words4_bytes32_inverse :
  (forall b, length b = 32%nat -> Forall byte b -> bytes_of_words (words4 b) = b) /\
  (forall ws, length ws = 4%nat -> Forall i64 ws -> words4 (bytes_of_words ws) = ws).
Proof. exact words4_bytes32_inverse. Qed.
Theorem C18_bytes_of_words_of_bytes :
  forall k b, length b = (8 * k)%nat -> Forall byte b -> bytes_of_words (words_of_bytes k b) = b.
Proof. exact bytes_of_words_of_bytes. Qed.
Theorem C18_words_of_bytes_of_words : forall ws fuel,
  Forall i64 ws -> (length ws <= fuel)%nat -> words_of_bytes fuel (bytes_of_words ws) = ws.
Proof. exact words_of_bytes_of_words. Qed.

(* The binary (postcard) encoding of a solution decodes back to the solution (prefix-free). *)
Theorem C18_postcard_solution_roundtrip : forall s rest,
  wf_solution s -> dec_solution (pc_solution s ++ rest) = Some (s, rest).
Proof. exact dec_solution_roundtrip. Qed.

(* Non-vacuity. *)
Example C18_example_mutations :
  decode_mutations (encode_mutations [{| m_key := [1; 2]; m_value := [] |}; {| m_key := []; m_value := [-5] |}])
  = Ok [{| m_key := [1; 2]; m_value := [] |}; {| m_key := []; m_value := [-5] |}].
Proof. vm_compute. reflexivity. Qed.
