(* Predicate binary codec and Predicate::node_edges: the parts of C18 (round trip, edge slice),
   C06 (decoder totality) and C17 (size, injectivity of the hashed encoding) that concern predicates.
   Statements only; every proof is `exact <lemma from Proofs/PredicateProofs.v>`.
   Vocabulary (Spec/PredicateSpec.v): wf_node / wf_pred = what a Rust Node / Predicate always satisfies
   (u16 edge_start and edges, 32-byte program address); doc_edge_end = documented end of a node's edge
   range; hdr_nodes / hdr_edges = the two big-endian counts read from a byte string; too_short. *)
From Coq Require Import ZArith List Lia Bool.
From EB Require Import Types.PredicateCodec Spec.PredicateSpec Proofs.PredicateProofs.
Import ListNotations.
Open Scope list_scope.
Open Scope Z_scope.

(* ---- C18: round trip ---- *)

(* Any predicate with at most 1000 nodes and 1000 edges encodes, and decoding the bytes returns it. *)
Theorem PC_decode_encode_predicate : forall p,
  wf_pred p -> zlen (p_nodes p) <= 1000 -> zlen (p_edges p) <= 1000 ->
  exists bs, encode_predicate p = Ok bs /\ decode_predicate bs = Ok p.
Proof. exact decode_encode_predicate. Qed.

(* Bytes after the encoding are ignored by the decoder (as in the Rust: only `get` of prefixes). *)
Theorem PC_decode_encode_predicate_extra : forall p extra,
  wf_pred p -> zlen (p_nodes p) <= 1000 -> zlen (p_edges p) <= 1000 ->
  exists bs, encode_predicate p = Ok bs /\ decode_predicate (bs ++ extra) = Ok p.
Proof. exact decode_encode_predicate_extra. Qed.

(* ---- encoder errors ---- *)

(* TooManyNodes exactly when there are more than 1000 nodes. *)
Theorem PC_encode_err_nodes : forall p,
  encode_predicate p = Err TooManyNodes <-> 1000 < zlen (p_nodes p).
Proof. exact encode_err_nodes. Qed.

(* TooManyEdges exactly when the nodes fit and there are more than 1000 edges. *)
Theorem PC_encode_err_edges : forall p,
  encode_predicate p = Err TooManyEdges <-> zlen (p_nodes p) <= 1000 /\ 1000 < zlen (p_edges p).
Proof. exact encode_err_edges. Qed.

(* Success exactly when both counts are at most 1000. *)
Theorem PC_encode_ok_iff : forall p,
  (exists bs, encode_predicate p = Ok bs) <-> zlen (p_nodes p) <= 1000 /\ zlen (p_edges p) <= 1000.
Proof. exact encode_ok_iff. Qed.

(* The encoder never panics and never runs out of model fuel. *)
Theorem PC_encode_total : forall p,
  (forall s, encode_predicate p <> Panic s) /\ encode_predicate p <> OutOfFuel.
Proof. exact encode_total. Qed.

(* ---- C17: size, injectivity ---- *)

(* The reported size is the actual length of the encoding: 34 per node, 2 per edge, 4 for the counts. *)
Theorem PC_encoded_size_eq_length : forall p bs,
  wf_pred p -> encode_predicate p = Ok bs ->
  predicate_encoded_size p = zlen bs /\
  zlen bs = 34 * zlen (p_nodes p) + 2 * zlen (p_edges p) + 4.
Proof. exact encoded_size_eq_length. Qed.

(* Two predicates with the same encoding are equal (so equal addresses mean equal predicates,
   up to SHA-256 collisions). *)
Theorem PC_encode_predicate_injective : forall p q bs,
  wf_pred p -> wf_pred q -> encode_predicate p = Ok bs -> encode_predicate q = Ok bs -> p = q.
Proof. exact encode_predicate_injective. Qed.

(* The encoding is a string of bytes. *)
Theorem PC_encode_bytes : forall p bs, wf_pred p -> encode_predicate p = Ok bs -> Forall byte bs.
Proof. exact encode_bytes. Qed.

(* ---- C06: the decoder is total ---- *)

(* On any input whatsoever: no panic, no fuel exhaustion. *)
Theorem PC_decode_predicate_total : forall bs,
  (forall s, decode_predicate bs <> Panic s) /\ decode_predicate bs <> OutOfFuel.
Proof. exact decode_predicate_total. Qed.

(* ... so the result is the typed error or a predicate. *)
Theorem PC_decode_result : forall bs,
  decode_predicate bs = Err BytesTooShort \/ exists p, decode_predicate bs = Ok p.
Proof. exact decode_result. Qed.

(* On a byte string, BytesTooShort is reported exactly when the string is shorter than 2, or than
   2 + 34*n, or than 2 + 34*n + 2, or than 2 + 34*n + 2 + 2*e, where n and e are the two counts read. *)
Theorem PC_decode_too_short_iff : forall bs,
  Forall byte bs ->
  (decode_predicate bs = Err BytesTooShort <->
   zlen bs < 2
   \/ zlen bs < 2 + 34 * u16_of_bytes (firstn 2 bs)
   \/ zlen bs < 2 + 34 * u16_of_bytes (firstn 2 bs) + 2
   \/ zlen bs < 2 + 34 * u16_of_bytes (firstn 2 bs) + 2
                + 2 * u16_of_bytes (firstn 2 (skipn (Z.to_nat (2 + 34 * u16_of_bytes (firstn 2 bs))) bs))).
Proof. exact decode_too_short_iff. Qed.

(* ... and it succeeds exactly otherwise. *)
Theorem PC_decode_ok_iff : forall bs,
  Forall byte bs -> ((exists p, decode_predicate bs = Ok p) <-> ~ too_short bs).
Proof. exact decode_ok_iff. Qed.

(* ---- C18: node_edges ---- *)

(* The documented end of a node's range. *)
Theorem PC_doc_edge_end_next : forall p ix nx,
  nth_error (p_nodes p) (S ix) = Some nx -> n_edge_start nx <> 65535 -> doc_edge_end p ix = n_edge_start nx.
Proof. exact doc_edge_end_next. Qed.
Theorem PC_doc_edge_end_next_leaf : forall p ix nx,
  nth_error (p_nodes p) (S ix) = Some nx -> n_edge_start nx = 65535 -> doc_edge_end p ix = zlen (p_edges p).
Proof. exact doc_edge_end_next_leaf. Qed.
Theorem PC_doc_edge_end_last : forall p ix,
  nth_error (p_nodes p) (S ix) = None -> doc_edge_end p ix = zlen (p_edges p).
Proof. exact doc_edge_end_last. Qed.

(* The reported slice: None out of bounds; empty for a leaf (edge_start = 65535); otherwise exactly
   edges[e_start .. e_end] when e_start <= e_end <= |edges| and None when not. *)
Theorem PC_node_edges_documented_range : forall p ix,
  ((length (p_nodes p) <= ix)%nat -> node_edges p ix = None) /\
  (forall nd, nth_error (p_nodes p) ix = Some nd ->
     (n_edge_start nd = 65535 -> node_edges p ix = Some []) /\
     (n_edge_start nd <> 65535 ->
        let e_start := n_edge_start nd in
        let e_end := doc_edge_end p ix in
        (e_start <= e_end <= zlen (p_edges p) ->
           node_edges p ix = Some (firstn (Z.to_nat (e_end - e_start)) (skipn (Z.to_nat e_start) (p_edges p)))) /\
        (~ (e_start <= e_end <= zlen (p_edges p)) -> node_edges p ix = None))).
Proof. exact node_edges_documented_range. Qed.

(* The same for a non-leaf node as an equivalence. *)
Theorem PC_node_edges_some_iff : forall p ix nd l,
  nth_error (p_nodes p) ix = Some nd -> n_edge_start nd <> 65535 ->
  (node_edges p ix = Some l <->
   n_edge_start nd <= doc_edge_end p ix <= zlen (p_edges p) /\
   l = firstn (Z.to_nat (doc_edge_end p ix - n_edge_start nd)) (skipn (Z.to_nat (n_edge_start nd)) (p_edges p))).
Proof. exact node_edges_some_iff. Qed.

(* node_edges returns nothing or a list of the predicate's own edges. *)
Theorem PC_node_edges_total : forall p ix,
  node_edges p ix = None \/
  exists l, node_edges p ix = Some l /\ (forall e, In e l -> In e (p_edges p)).
Proof. exact node_edges_total. Qed.

(* A reported slice is no longer than the edge list ... *)
Theorem PC_node_edges_length : forall p ix l,
  node_edges p ix = Some l -> (length l <= length (p_edges p))%nat.
Proof. exact node_edges_length. Qed.

(* ... and for a non-leaf node has exactly e_end - e_start elements. *)
Theorem PC_node_edges_slice_length : forall p ix nd l,
  nth_error (p_nodes p) ix = Some nd -> n_edge_start nd <> 65535 -> 0 <= n_edge_start nd ->
  node_edges p ix = Some l -> zlen l = doc_edge_end p ix - n_edge_start nd.
Proof. exact node_edges_slice_length. Qed.

(* ---- Examples: the hypotheses are satisfiable; concrete behaviour ---- *)

(* node 0 -> edges [1;2]; nodes 1 and 2 are leaves. *)
Example PC_ex_wf : wf_pred ex_pred.
Proof. exact ex_pred_wf. Qed.
Example PC_ex_encode :
  encode_predicate ex_pred = Ok ex_bytes /\ zlen ex_bytes = 110 /\ predicate_encoded_size ex_pred = 110.
Proof. exact ex_encode_len. Qed.
Example PC_ex_roundtrip : decode_predicate ex_bytes = Ok ex_pred.
Proof. exact ex_roundtrip. Qed.
Example PC_ex_roundtrip_extra : decode_predicate (ex_bytes ++ [1; 2; 3]) = Ok ex_pred.
Proof. exact ex_roundtrip_extra. Qed.
(* one byte cut off *)
Example PC_ex_truncated : decode_predicate (firstn 109 ex_bytes) = Err BytesTooShort.
Proof. exact ex_truncated. Qed.
(* every proper prefix fails *)
Example PC_ex_truncated_all :
  forallb (fun k => match decode_predicate (firstn k ex_bytes) with Err BytesTooShort => true | _ => false end)
          (seq 0 110) = true.
Proof. exact ex_truncated_all. Qed.
Example PC_ex_node_edges :
  node_edges ex_pred 0 = Some [1; 2] /\ node_edges ex_pred 1 = Some [] /\
  node_edges ex_pred 2 = Some [] /\ node_edges ex_pred 3 = None.
Proof. exact ex_node_edges. Qed.
(* non-leaf followed by non-leaf; ranges that leave the edge list give None *)
Example PC_ex_node_edges2 :
  node_edges ex_pred2 0 = Some [1] /\ node_edges ex_pred2 1 = None /\ node_edges ex_pred2 2 = None.
Proof. exact ex_node_edges2. Qed.
