(* C04 (validation part) - Set validation does not depend on the order of the solutions; an accepted set has
   one mutation per key WITHIN each solution.  The stronger reading "at most one value per contract and key
   over the whole set" is FALSE of the code (known finding F10) and is refuted here on a concrete witness.
   This file contains statements only; every proof is `exact <lemma from Proofs/ValidateProofs.v>`. *)
From Coq Require Import ZArith List Permutation.
From EB Require Import Check.Validate Proofs.ValidateProofs.
Import ListNotations.
Open Scope list_scope.
Open Scope Z_scope.

(* Reordering the solutions does not change whether set validation accepts. *)
Theorem C04_check_set_perm : forall sols sols',
  Permutation sols sols' -> (check_set sols = Ok tt <-> check_set sols' = Ok tt).
Proof. exact check_set_perm. Qed.

(* What acceptance really guarantees about slots: no solution mutates the same key twice. *)
Theorem C04_accepted_unique_per_solution : forall sols,
  check_set sols = Ok tt -> Forall (fun s => NoDup (map m_key (sol_muts s))) sols.
Proof. exact accepted_set_unique_slots_per_solution. Qed.

(* The class outside of which C04 is not claimed: one proposed value per (contract, key) over the whole set. *)
Theorem C04_unique_slots_def : forall sols,
  unique_slots sols <-> NoDup (flat_map (fun s => map (fun m => (sol_contract s, m_key m)) (sol_muts s)) sols).
Proof. exact (fun sols => conj (fun H => H) (fun H => H)). Qed.
(* Inside the class the per-solution rule holds as well. *)
Theorem C04_unique_slots_per_solution : forall sols,
  unique_slots sols -> Forall (fun s => NoDup (map m_key (sol_muts s))) sols.
Proof. exact unique_slots_per_solution. Qed.

(* FINDING F10: an accepted set may propose two values for one contract and key ... *)
Theorem C04_refuted :
  exists sols, check_set sols = Ok tt /\
    ~ NoDup (flat_map (fun s => map (fun m => (sol_contract s, m_key m)) (sol_muts s)) sols).
Proof. exact ValidateProofs.C04_refuted. Qed.

(* ... and then the post-state overlay depends on the order of the solutions (both orders are accepted;
   the later solution's value wins). *)
Theorem C04_overlay_order_dependent_on_witness :
  check_set [f10_s1; f10_s2] = Ok tt /\ check_set [f10_s2; f10_s1] = Ok tt /\
  post_get (build_post_state [f10_s1; f10_s2]) f10_contract [9] = Some [2] /\
  post_get (build_post_state [f10_s2; f10_s1]) f10_contract [9] = Some [1] /\
  post_get (build_post_state [f10_s1; f10_s2]) f10_contract [9] <>
  post_get (build_post_state [f10_s2; f10_s1]) f10_contract [9].
Proof. exact overlay_order_dependent_on_witness. Qed.

(* the witness: the same 32-byte contract, both solutions mutate key [9], values [1] and [2] *)
Example ex_f10_witness :
  sol_contract f10_s1 = repeat 7 32 /\ sol_contract f10_s2 = repeat 7 32 /\
  map (fun m => (m_key m, m_value m)) (sol_muts f10_s1) = [([9], [1])] /\
  map (fun m => (m_key m, m_value m)) (sol_muts f10_s2) = [([9], [2])] /\
  ~ unique_slots [f10_s1; f10_s2].
Proof.
  repeat split; try reflexivity.
  intros H. vm_compute in H. inversion H as [|x l Hx Hl]; subst. apply Hx. left. reflexivity.
Qed.

(* order independence on a concrete accepted set of three different solutions, and on a rejected one *)
Example ex_perm_accepted :
  check_set [ex_sol [[1]] (ex_muts 3); ex_sol [] [ex_mut [9] [1]]; ex_sol [[2]; [3]] []] = Ok tt /\
  check_set [ex_sol [[2]; [3]] []; ex_sol [[1]] (ex_muts 3); ex_sol [] [ex_mut [9] [1]]] = Ok tt.
Proof. split; vm_compute; reflexivity. Qed.
Example ex_perm_rejected :
  check_set [ex_sol [] []; ex_sol [] [ex_mut [9] [1]; ex_mut [9] [2]]] = Err (VMultipleMutations 1) /\
  check_set [ex_sol [] [ex_mut [9] [1]; ex_mut [9] [2]]; ex_sol [] []] = Err (VMultipleMutations 0).
Proof. split; vm_compute; reflexivity. Qed.
(* a set inside the class *)
Example ex_unique_slots : unique_slots [f10_s1; ex_sol [] [ex_mut [9] [2]]].
Proof.
  unfold unique_slots. vm_compute.
  constructor; [|constructor; [|constructor]]; cbn [In]; intros H.
  - destruct H as [H|H]; [discriminate H | exact H].
  - exact H.
Qed.
