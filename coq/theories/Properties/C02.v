(* C02 - Validation is deterministic under any thread schedule and pool size.
   This file contains statements only; every proof is `exact <lemma from Proofs/>`.

   The semantics of a parallel section (Check/Par.v): n tasks, task i a pure function `f i` of inputs that are
   immutable while the section runs; an event `Finish i` writes `f i` into slot i; a schedule is the list of
   the finishing indices in completion order; the join reads the slots by index once all are written.
   TRUSTED BASE of this property (not proved here):
     (T1) the closures the Rust hands to rayon are such pure functions: they share no mutable state
          (checked by the harness with a shared-state inventory of the sources; the one shared mutable
          object, the OnceLock of vm/src/cached.rs, IS modelled, see C02_once_cell_benign);
     (T2) rayon delivers the results of an indexed parallel iterator by index (collect into Vec, partition:
          original order; collect into BTreeMap: by key) and runs every task of a non-short-circuiting
          section exactly once; a pool of any size executes the tasks in some order.
   Everything else - that the order is irrelevant, that the sequential models of Check/Set.v, Check/Inner.v
   and Vm/Exec.v are what every schedule computes - is proved. *)
From Coq Require Import ZArith List Arith Bool Permutation Sorted String.
From EB Require Import Check.Par Check.Set Proofs.ParProofs Proofs.ParInst Proofs.ParEntry Proofs.ParLevels.
Import ListNotations.
Open Scope list_scope.
Open Scope nat_scope.

(* ---------------- the indexed parallel map ---------------- *)

(* Whatever the completion order, the slot vector read at the join is the sequential map. *)
Theorem C02_par_map_schedule_independent : forall (R : Type) (f : nat -> R) (n : nat) (sched : list nat),
  Permutation sched (seq 0 n) -> collect (run_par f n sched) = Some (map f (seq 0 n)).
Proof. exact (@par_map_schedule_independent). Qed.

(* Two complete schedules leave identical slots. *)
Theorem C02_par_map_two_schedules : forall (R : Type) (f : nat -> R) (n : nat) (s1 s2 : list nat),
  Permutation s1 (seq 0 n) -> Permutation s2 (seq 0 n) -> run_par f n s1 = run_par f n s2.
Proof. exact (@par_map_two_schedules). Qed.

(* The join is not passed while some task has not finished. *)
Theorem C02_incomplete_schedule_blocks : forall (R : Type) (f : nat -> R) (n : nat) (sched : list nat) (i : nat),
  i < n -> ~ In i sched -> collect (run_par f n sched) = None.
Proof. exact (@run_par_incomplete). Qed.

(* Any number of workers (length qs), any assignment of the tasks to their queues, any interleaving. *)
Theorem C02_pool_size_independent : forall (R : Type) (f : nat -> R) (n : nat) (qs : list (list nat)) (s : list nat),
  Permutation (concat qs) (seq 0 n) -> interleave qs s -> collect (run_par f n s) = Some (map f (seq 0 n)).
Proof. exact (@pool_size_independent). Qed.

(* A section over a list of keys (the nodes of a level) is the map over that list. *)
Theorem C02_par_map_over_keys : forall (R K : Type) (g : K -> R) (d : K) (ks : list K) (sched : list nat),
  Permutation sched (seq 0 (length ks)) ->
  collect (run_par (fun j => g (nth j ks d)) (length ks) sched) = Some (map g ks).
Proof. exact (@par_map_over_keys). Qed.

(* ---------------- the OnceLock ---------------- *)

(* If every closure passed to get_or_init evaluates to the same value `init`, then under any schedule of
   Finish / InitCell events - whichever task initialises the cell and whenever - the slots are those of the
   cell-free section in which every reader is given `init`; the cell ends as Some init iff somebody went
   through get_or_init, and never holds anything else. *)
Theorem C02_once_cell_benign : forall (R C : Type) (tasks : nat -> task R C) (init_of : nat -> C) (init : C),
  (forall i, init_of i = init) -> forall (n : nat) (sched : list event),
  slots (run_cell tasks init_of n sched) = run_par (task_with tasks init) n (finishes sched) /\
  cell (run_cell tasks init_of n sched) = (if existsb (touches tasks) sched then Some init else None) /\
  (forall c, cell (run_cell tasks init_of n sched) = Some c -> c = init).
Proof. exact (@once_cell_benign). Qed.

Theorem C02_once_cell_schedule_independent : forall (R C : Type) (tasks : nat -> task R C) (init_of : nat -> C) (init : C),
  (forall i, init_of i = init) -> forall (n : nat) (sched : list event),
  Permutation (finishes sched) (seq 0 n) ->
  collect (slots (run_cell tasks init_of n sched)) = Some (map (task_with tasks init) (seq 0 n)).
Proof. exact (@once_cell_schedule_independent). Qed.

(* The model of PredicateExists tests membership in exactly the value every caller initialises the cell with. *)
Theorem C02_predicate_exists_reads_cell : forall (E : env) (h : list Z),
  existsb (fun sol => bytes_eqb (e_sha256 E (pred_data_preimage sol)) h) (e_solutions E) =
  existsb (fun x => bytes_eqb x h) (pred_hashes E).
Proof. exact predicate_exists_reads_cell. Qed.

(* ---------------- failures by index ---------------- *)

(* `.partition(Result::is_ok)`: both halves, in particular the list [(index, error)], are those of the
   sequential map, in ascending index order. *)
Theorem C02_failures_by_index_deterministic : forall (A E : Type) (f : nat -> A + E) (n : nat) (sched : list nat),
  Permutation sched (seq 0 n) ->
  option_map partition_results (collect (run_par f n sched)) = Some (partition_results (map f (seq 0 n))) /\
  option_map failures (collect (run_par f n sched)) = Some (failures (map f (seq 0 n))) /\
  StronglySorted lt (map fst (failures (map f (seq 0 n)))).
Proof. exact (@first_error_by_index_deterministic). Qed.

(* Every reported (i, e) is the error of task i itself. *)
Theorem C02_failures_are_own_errors : forall (A E : Type) (rs : list (A + E)),
  StronglySorted lt (map fst (failures rs)) /\
  (forall i e, In (i, e) (failures rs) -> nth_error rs i = Some (inr e)).
Proof. exact (@failures_sorted). Qed.

(* The `failed` list of check_set_predicates is `failures` of the classified per-solution results. *)
Theorem C02_set_failed_is_failures : forall (rs : list inner_result) (s : nat),
  flat_map (fun ir : nat * inner_result => match ir_res (snd ir) with Err e => [(fst ir, e)] | _ => [] end)
           (combine (seq s (length rs)) rs) = failures_from s (map classify rs).
Proof. exact set_failed_is_failures. Qed.

(* ---------------- collect::<Result<Vec<_>,_>>() of Compute ---------------- *)

(* rayon hands back the error of SOME failing child (`chosen_error`: the first failing one in completion
   order) and may skip children once a failure has been seen (`try_schedule`).  What the parent observes -
   all results by index, or the bare fact that some child failed - does not depend on the schedule. *)
Theorem C02_compute_error_projection_deterministic :
  forall (R : Type) (failed : R -> bool) (f : nat -> R) (n : nat) (sched : list nat),
  try_schedule failed f n sched ->
  option_map observe (try_collect failed f n sched) = Some (try_collect_seq failed f n).
Proof. exact (@try_collect_projection_deterministic). Qed.

(* In the model: the parent's result does not depend on which error the failing children carry ... *)
Theorem C02_compute_join_error_payload_irrelevant : forall (climit : Z) (v : vm) (s0 : list Z) (rs rs' : list X),
  Forall2 same_up_to_error rs rs' -> compute_join climit v s0 rs = compute_join climit v s0 rs'.
Proof. exact compute_join_error_payload_irrelevant. Qed.

(* ... and join_children is that observation: all values by index or Err tt. *)
Theorem C02_join_children_observe : forall (rs : list X) (acc : list (vm * Z * list op)),
  children_status rs = Ok tt ->
  join_children rs acc = if existsb is_err rs then Err tt else Ok (rev acc ++ ok_values rs).
Proof. exact join_children_observe. Qed.

(* ---------------- the three sections of the sequential models ---------------- *)

(* (a) The per-solution checks run as an indexed parallel map under any complete schedule yield what
   check_solutions_go computes (a Panic / OutOfFuel of a task is carried as a value and joined by index). *)
Theorem C02_check_solutions_schedule_independent :
  forall (fuel : nat) (lk : lookup) (collect_all : bool) (mode : run_mode) (sols : list solution) (pre post : view)
         (caches : list (list (nat * sm))) (sched : list nat),
  Permutation sched (seq 0 (length sols)) ->
  option_map seq_outcomes
    (collect (run_par (fun i => check_predicate fuel lk collect_all mode
                                  {| sc_solutions := sols; sc_index := i; sc_pre := pre; sc_post := post |}
                                  (nth i caches []))
                      (length sols) sched)) =
  Some (check_solutions_go fuel lk collect_all mode sols pre post (seq 0 (length sols)) caches).
Proof. exact check_solutions_schedule_independent. Qed.

(* When no task panics or exhausts the model's fuel, the slots are exactly the sequential results. *)
Theorem C02_check_solutions_schedule_independent_ok :
  forall (fuel : nat) (lk : lookup) (collect_all : bool) (mode : run_mode) (sols : list solution) (pre post : view)
         (caches : list (list (nat * sm))) (sched : list nat) (rs : list inner_result),
  Permutation sched (seq 0 (length sols)) ->
  check_solutions_go fuel lk collect_all mode sols pre post (seq 0 (length sols)) caches = Ok rs ->
  collect (run_par (sol_task fuel lk collect_all mode sols pre post caches) (length sols) sched) = Some (map Ok rs).
Proof. exact check_solutions_schedule_independent_ok. Qed.

(* (b) The per-node runs of one level: inputs are computed from the caches as they are at the START of the
   level (`st`), task j is the node at position j; any completion order gives the list run_level computes. *)
Theorem C02_run_level_schedule_independent :
  forall (run : nat -> bool -> list sm -> outcome unit prog_res) (p : predicate) (pm : list (nat * list nat))
         (st : inner_state) (level sched : list nat),
  Permutation sched (seq 0 (length level)) ->
  option_map seq_outcomes
    (collect (run_par (fun j => let ix := nth j level 0 in
                                let ins := inputs_of pm st ix in
                                let* r := run ix (is_leaf p ix) ins in Ok (ix, r, ins))
                      (length level) sched)) =
  Some (run_level run p pm st level).
Proof. exact run_level_schedule_independent. Qed.

(* The same with the BTreeMap explicit: results inserted under their node index in completion order `done`,
   then walked in key order ... *)
Theorem C02_run_level_keyed_schedule_independent :
  forall (run : nat -> bool -> list sm -> outcome unit prog_res) (p : predicate) (pm : list (nat * list nat))
         (st : inner_state) (level done : list nat),
  StronglySorted lt level -> Permutation done level ->
  seq_outcomes (map snd (collect_keyed (node_task run p pm st) done)) = run_level run p pm st level.
Proof. exact run_level_keyed_schedule_independent. Qed.

(* ... and the levels the checker runs are strictly ascending, in either run mode. *)
Theorem C02_levels_ascending : forall (p : predicate) (pm : list (nat * list nat)) (sorted : list (list nat)) (deferred : list nat),
  parallel_topo_sort p pm = Ok sorted ->
  Forall (StronglySorted lt) (remove_deferred sorted deferred) /\
  Forall (StronglySorted lt) (remove_not_deferred sorted deferred).
Proof. exact run_levels_sorted. Qed.

Theorem C02_keyed_collect_schedule_independent : forall (V : Type) (g : nat -> V) (level done : list nat),
  StronglySorted lt level -> Permutation done level ->
  collect_keyed g done = map (fun ix => (ix, g ix)) level.
Proof. exact (@keyed_collect_schedule_independent). Qed.

(* (c) The children of Compute: the list `rs` of compute_with (a map over zrange_z breadth). *)
Theorem C02_compute_children_schedule_independent :
  forall (run : vm -> X) (v : vm) (s0 : list Z) (breadth : Z) (sched : list nat),
  Permutation sched (seq 0 (Z.to_nat breadth)) ->
  collect (run_par (fun j => match child_vm v s0 (Z.of_nat j) with
                             | Ok cv => run cv
                             | Panic s => Panic s
                             | _ => Err (pc v, ECompute, v)
                             end) (Z.to_nat breadth) sched) =
  Some (map (fun i => match child_vm v s0 i with
                      | Ok cv => run cv
                      | Panic s => Panic s
                      | _ => Err (pc v, ECompute, v)
                      end) (zrange_z breadth)).
Proof. exact compute_children_schedule_independent. Qed.

(* compute_with with its section run under any complete schedule oracle is compute_with. *)
Theorem C02_compute_with_schedule_independent :
  forall (run : vm -> X) (sch : Z -> list nat) (fuel : nat) (climit : Z) (v : vm),
  (forall b, Permutation (sch b) (seq 0 (Z.to_nat b))) ->
  compute_with_par run sch fuel climit v = compute_with run fuel climit v.
Proof. exact compute_with_schedule_independent. Qed.

(* ---------------- the entry points, every section under an arbitrary schedule oracle ---------------- *)
(* ssch: completion order of the solutions; nsch: of the nodes of a level; csch: of the Compute children.
   Each oracle may inspect everything its section depends on; all that is required is completeness.
   Same Ok/Err, same failing indices, same gas, same data outputs, same mutations in the same order, same
   caches and same run events as the sequential model. *)

Theorem C02_exec_schedule_independent :
  forall (csch : vm -> Z -> list nat), (forall v b, Permutation (csch v b) (seq 0 (Z.to_nat b))) ->
  forall (fuel : nat) (E : env) (oa : Z -> option op) (limit : Z) (v : vm) (spent : Z) (tr : list op),
  exec_par csch fuel E oa limit v spent tr = exec fuel E oa limit v spent tr.
Proof. exact exec_par_eq. Qed.

Theorem C02_check_set_predicates_schedule_independent :
  forall (ssch : run_mode -> list solution -> list nat)
         (nsch : sol_ctx -> list (nat * list nat) -> inner_state -> list nat -> list nat)
         (csch : vm -> Z -> list nat) (fuel : nat) (lk : lookup) (collect_all : bool),
  oracles_complete ssch nsch csch ->
  forall (mode : run_mode) (sols : list solution) (pre post : view) (caches : list (list (nat * sm))),
  check_set_predicates_par_all ssch nsch csch fuel lk collect_all mode sols pre post caches =
  check_set_predicates fuel lk collect_all mode sols pre post caches.
Proof. exact check_set_predicates_par_all_eq. Qed.

Theorem C02_check_and_compute_schedule_independent :
  forall (ssch : run_mode -> list solution -> list nat)
         (nsch : sol_ctx -> list (nat * list nat) -> inner_state -> list nat -> list nat)
         (csch : vm -> Z -> list nat) (fuel : nat) (lk : lookup) (collect_all : bool),
  oracles_complete ssch nsch csch ->
  forall (mode : run_mode) (sols : list solution) (pre post : view) (caches : list (list (nat * sm))),
  check_and_compute_par ssch nsch csch fuel lk collect_all mode sols pre post caches =
  check_and_compute fuel lk collect_all mode sols pre post caches.
Proof. exact check_and_compute_par_eq. Qed.

Theorem C02_two_pass_schedule_independent :
  forall (ssch : run_mode -> list solution -> list nat)
         (nsch : sol_ctx -> list (nat * list nat) -> inner_state -> list nat -> list nat)
         (csch : vm -> Z -> list nat) (fuel : nat) (lk : lookup) (collect_all : bool),
  oracles_complete ssch nsch csch ->
  forall (sols : list solution) (pre_state : state),
  two_pass_par ssch nsch csch fuel lk collect_all sols pre_state = two_pass fuel lk collect_all sols pre_state.
Proof. exact two_pass_par_eq. Qed.

(* ---------------- examples ---------------- *)
Definition ex_f (i : nat) : nat := i * i + 1.

(* 4 tasks, 3 complete schedules, one vector *)
Example C02_example_schedule_a : collect (run_par ex_f 4 [0; 1; 2; 3]) = Some [1; 2; 5; 10].
Proof. reflexivity. Qed.
Example C02_example_schedule_b : collect (run_par ex_f 4 [3; 1; 0; 2]) = Some [1; 2; 5; 10].
Proof. reflexivity. Qed.
Example C02_example_schedule_c : collect (run_par ex_f 4 [2; 3; 1; 0]) = Some [1; 2; 5; 10].
Proof. reflexivity. Qed.
(* an incomplete schedule does not pass the join; intermediate slots are visibly partial *)
Example C02_example_incomplete :
  collect (run_par ex_f 4 [3; 1; 0]) = None /\ run_par ex_f 4 [3; 1; 0] = [Some 1; Some 2; None; Some 10].
Proof. split; reflexivity. Qed.
(* the hypothesis of the main theorem is satisfiable *)
Example C02_example_complete : Permutation [2; 3; 1; 0] (seq 0 4).
Proof. exact example_permutation. Qed.
(* two workers with queues [0;2] and [1;3], one of their interleavings *)
Example C02_example_pool : interleave [[0; 2]; [1; 3]] [1; 0; 3; 2] /\ Permutation (concat [[0; 2]; [1; 3]]) (seq 0 4).
Proof. exact example_pool. Qed.

(* the once cell: task 0 does not read it, tasks 1 and 2 do; initialised by task 2 early, or by task 1 at its end *)
Definition ex_tasks (i : nat) : task nat nat :=
  match i with 0 => Pure 10 | 1 => ReadCell (fun c => c + 1) | _ => ReadCell (fun c => c * 2) end.
Example C02_example_once_cell :
  let r1 := run_cell ex_tasks (fun _ => 7) 3 [InitCell 2; Finish 1; Finish 0; Finish 2] in
  let r2 := run_cell ex_tasks (fun _ => 7) 3 [Finish 0; Finish 1; InitCell 2; Finish 2] in
  collect (slots r1) = Some [10; 8; 14] /\ collect (slots r2) = Some [10; 8; 14] /\
  cell r1 = Some 7 /\ cell r2 = Some 7 /\ init_by r1 = Some 2 /\ init_by r2 = Some 1 /\
  cell (run_cell ex_tasks (fun _ => 7) 3 [Finish 0]) = None.
Proof. repeat split; reflexivity. Qed.
(* the hypothesis matters: were the initialisers different (not a function of immutable inputs), the
   results would depend on the schedule *)
Example C02_example_once_cell_impure_init :
  collect (slots (run_cell ex_tasks (fun i => i) 3 [Finish 0; Finish 1; Finish 2])) = Some [10; 2; 2] /\
  collect (slots (run_cell ex_tasks (fun i => i) 3 [Finish 0; Finish 2; Finish 1])) = Some [10; 3; 4].
Proof. split; reflexivity. Qed.

(* partition by index *)
Definition ex_results (i : nat) : nat + string :=
  match i with 1 => inr "b"%string | 3 => inr "d"%string | _ => inl (i * 10) end.
Example C02_example_partition :
  option_map partition_results (collect (run_par ex_results 5 [4; 3; 0; 2; 1])) =
  Some ([(0, 0); (2, 20); (4, 40)], [(1, "b"%string); (3, "d"%string)]).
Proof. reflexivity. Qed.

(* the error rayon hands back depends on the schedule, the observation does not;
   a short-circuited schedule (task 0 and 2 never ran) gives the same observation *)
Definition ex_failed (r : nat + string) : bool := match r with inr _ => true | inl _ => false end.
Definition ex_oks (i : nat) : nat + string := inl (i * 10).
Example C02_example_chosen_error :
  try_collect ex_failed ex_results 5 [0; 1; 2; 3; 4] = Some (ChildFailed 1 (inr "b"%string)) /\
  try_collect ex_failed ex_results 5 [4; 3; 2; 1; 0] = Some (ChildFailed 3 (inr "d"%string)) /\
  option_map observe (try_collect ex_failed ex_results 5 [0; 1; 2; 3; 4]) = Some ObsSomeChildFailed /\
  option_map observe (try_collect ex_failed ex_results 5 [4; 3; 2; 1; 0]) = Some ObsSomeChildFailed /\
  option_map observe (try_collect ex_failed ex_results 5 [4; 3]) = Some ObsSomeChildFailed /\
  try_collect_seq ex_failed ex_results 5 = ObsSomeChildFailed /\
  option_map observe (try_collect ex_failed ex_oks 3 [2; 1; 0]) = Some (ObsOk [inl 0; inl 10; inl 20]) /\
  try_collect ex_failed ex_oks 3 [2; 1] = None.
Proof. repeat split; reflexivity. Qed.

(* BTreeMap: results of the level [1;4;6] inserted in the order 6, 1, 4 *)
Example C02_example_keyed : collect_keyed (fun k => k * 10) [6; 1; 4] = [(1, 10); (4, 40); (6, 60)].
Proof. reflexivity. Qed.

(* a concrete run of the model: 4 solutions; the predicate has a parent node 0 (Push 7) and two leaves; leaf 1
   runs a Compute of breadth 2.  Solutions 1 and 3 solve a predicate whose second leaf is unsatisfied. *)
Open Scope Z_scope.
Definition ex_pred (bad : bool) : predicate :=
  {| p_nodes := [ {| n_edge_start := 0; n_program := [0] |};
                  {| n_edge_start := 65535; n_program := [1] |};
                  {| n_edge_start := 65535; n_program := [if bad then 3 else 2] |} ];
     p_edges := [1; 2] |}.
Definition ex_lk : lookup :=
  {| lk_predicate := fun _ a => ex_pred (hd 0 a =? 1);
     lk_program := fun a => match a with
                            | [0] => to_bytes [OPush 7]
                            | [1] => to_bytes [OPop; OPush 2; OCompute; OPop; OComputeEnd; OPush 1]
                            | [2] => to_bytes [OPop; OPush 1]
                            | _ => to_bytes [OPop; OPush 0]
                            end |}.
Definition ex_sol (bad : bool) : solution :=
  {| sol_contract := repeat 0 32; sol_predicate := repeat (if bad then 1 else 0) 32; sol_data := []; sol_muts := [] |}.
Definition ex_good : list solution := [ex_sol false; ex_sol false; ex_sol false].
Definition ex_mixed : list solution := [ex_sol false; ex_sol true; ex_sol false; ex_sol true].
(* every section in reverse order, resp. rotated *)
Definition rev_sched (n : nat) : list nat := rev (seq 0 n).
Definition rot_sched (n : nat) : list nat := match seq 0 n with [] => [] | x :: r => r ++ [x] end.

Example C02_example_two_pass_ok :
  two_pass_par (fun _ s => rev_sched (length s)) (fun _ _ _ l => rot_sched (length l)) (fun _ b => rev_sched (Z.to_nat b))
               100 ex_lk true ex_good [] = two_pass 100 ex_lk true ex_good [] /\
  option_map (fun r => tp_res r) (match two_pass 100 ex_lk true ex_good [] with Ok r => Some r | _ => None end)
  = Some (Ok (33, ex_good)).
Proof. split; vm_compute; reflexivity. Qed.

Example C02_example_two_pass_failures :
  two_pass_par (fun _ s => rot_sched (length s)) (fun _ _ _ l => rev_sched (length l)) (fun _ b => rot_sched (Z.to_nat b))
               100 ex_lk true ex_mixed [] = two_pass 100 ex_lk true ex_mixed [] /\
  option_map (fun r => tp_res r) (match two_pass 100 ex_lk true ex_mixed [] with Ok r => Some r | _ => None end)
  = Some (Err (SFailed [(1%nat, PConstraintsUnsatisfied [2%nat]); (3%nat, PConstraintsUnsatisfied [2%nat])])).
Proof. split; vm_compute; reflexivity. Qed.

(* the children of a Compute of breadth 3 finishing in the order 2, 0, 1 *)
Definition ex_vm : vm := {| pc := 0; stack := [3]; memory := [5]; parent_memory := []; halt := false; rstack := [] |}.
Example C02_example_compute_children :
  compute_with_par (fun cv => Ok (cv, 1, [])) (fun _ => [2%nat; 0%nat; 1%nat]) 10 100 ex_vm =
  compute_with (fun cv => Ok (cv, 1, [])) 10 100 ex_vm /\
  is_ok (compute_with (fun cv => Ok (cv, 1, [])) 10 100 ex_vm) = true.
Proof. split; vm_compute; reflexivity. Qed.
