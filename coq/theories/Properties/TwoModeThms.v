(* The two run modes of check_predicate_inner called in sequence over a shared cache (parts of C01 and C03): statements.
   Model: Check/Inner.v.  Reference: Spec/GraphRef.v (value).  Vocabulary: Spec/InnerSpec.v and the head of Proofs/TwoMode.v.
   Setting of all theorems: the graph passes create_parent_map / parallel_topo_sort (`sorted` are its levels);
     D  = find_deferred p is_def   (the deferred nodes: a post-state read, or a descendant of one; see C03),
     r1 = the call in mode Outputs with run1 from the empty cache,
     r2 = the call in mode Checks with run2 from the cache returned by r1   (same p, same is_def; run2 may differ from
          run1: the second pass reads another post-state),
     run12 D run1 run2 = "run1 on the non-deferred nodes, run2 on the deferred nodes": the runner seen by the reference,
     nodes_first / nodes_second D sorted = the non-deferred / deferred nodes in level order,
     out_of_events run p evs u = the (stack, memory) node u handed on, read off its run event,
     out12 .. u = that output, taken from the events of the call that ran u.
   "No program failed" = the result is Ok or "constraints unsatisfied".  A Panic / OutOfFuel of a program run
   propagates (then there is no r1 / r2). *)
From Coq Require Import List Arith Lia Bool Permutation ZArith.
From EB Require Import Spec.InnerSpec Proofs.InnerEval Proofs.TwoMode Properties.InnerThms.
Import ListNotations.
Open Scope list_scope.
Local Open Scope nat_scope.

(* 1. First call (mode Outputs, empty cache), no program failed: the run events are exactly the non-deferred nodes,
   each once, in level order, after all of its parents (which are all non-deferred); the inputs of every run are the
   outputs of all parents in ascending parent order; and the result of every run is the reference value of the node,
   both for the reference that SKIPS the deferred nodes and for the reference under run12 (whatever run2 is). *)
Theorem TM_outputs_pass :
  forall run1 p collect_all is_def pm sorted r1,
    create_parent_map p = Ok pm -> parallel_topo_sort p pm = Ok sorted -> run_respects_leaf run1 ->
    check_predicate_inner run1 p collect_all is_def Outputs [] = Ok r1 ->
    no_program_failed (ir_res r1) ->
    let D := find_deferred p is_def in
    let n := length (p_nodes p) in
    map fst (ir_events r1) = nodes_first D sorted /\
    NoDup (map fst (ir_events r1)) /\
    (forall v, In v (map fst (ir_events r1)) <-> v < n /\ ~ In v D) /\
    (forall pre v ins post, ir_events r1 = pre ++ (v, ins) :: post ->
       forall u, In u (parents_ref p v) -> ~ In u D /\ In u (map fst pre)) /\
    (forall v ins, In (v, ins) (ir_events r1) ->
       ins = flat_map (fun u => opt_list (out_of_events run1 p (ir_events r1) u)) (parents_ref p v) /\
       (forall u, In u (parents_ref p v) -> exists o, out_of_events run1 p (ir_events r1) u = Some o) /\
       exists res, run1 v (is_leaf p v) ins = Ok res /\ res <> PFail /\
                   value p run1 (fun x => memb x D) (S n) v = Ok (nval_of res) /\
                   forall run2, value p (run12 D run1 run2) (fun _ => false) (S n) v = Ok (nval_of res)).
Proof. exact outputs_pass_is_reference_on_non_deferred. Qed.

(* 1'. The shared cache returned by that call: its keys are exactly the nodes with should_cache, ascending, each once;
   the entry of u is the output of u; should_cache holds exactly for the non-deferred nodes with a deferred child
   (such a node is never a leaf, so it has an output). *)
Theorem TM_cache_contents :
  forall run1 p collect_all is_def pm sorted r1,
    create_parent_map p = Ok pm -> parallel_topo_sort p pm = Ok sorted -> run_respects_leaf run1 ->
    check_predicate_inner run1 p collect_all is_def Outputs [] = Ok r1 ->
    no_program_failed (ir_res r1) ->
    let D := find_deferred p is_def in
    let n := length (p_nodes p) in
    map fst (ir_cache r1) = filter (should_cache p D) (seq 0 n) /\
    (forall u, aget u (ir_cache r1) = if should_cache p D u then out_of_events run1 p (ir_events r1) u else None) /\
    (forall u, should_cache p D u = true ->
       In u (map fst (ir_events r1)) /\ exists o, out_of_events run1 p (ir_events r1) u = Some o) /\
    (forall u, should_cache p D u = true <-> u < n /\ ~ In u D /\ exists c, In c (kids p u) /\ In c D).
Proof. exact outputs_pass_cache_contents. Qed.

(* 2. Second call (mode Checks, cache of the first call), no program failed in either: the run events are exactly the
   deferred nodes, each once, in level order, after their deferred parents; the inputs of every run are the outputs of
   ALL parents in ascending parent order (as many inputs as parent edges: nothing is dropped), a non-deferred parent's
   output being the cache entry written by the first call; the result of every run is the reference value under
   run12.  The second call does not change what the cache answers. *)
Theorem TM_checks_pass_inputs :
  forall run1 run2 p is_def pm sorted,
    create_parent_map p = Ok pm -> parallel_topo_sort p pm = Ok sorted ->
    forall collect_all1 collect_all2 r1 r2,
    run_respects_leaf run1 -> run_respects_leaf run2 ->
    check_predicate_inner run1 p collect_all1 is_def Outputs [] = Ok r1 ->
    check_predicate_inner run2 p collect_all2 is_def Checks (ir_cache r1) = Ok r2 ->
    no_program_failed (ir_res r1) -> no_program_failed (ir_res r2) ->
    map fst (ir_events r2) = nodes_second (find_deferred p is_def) sorted /\
    NoDup (map fst (ir_events r2)) /\
    (forall v, In v (map fst (ir_events r2)) <-> v < length (p_nodes p) /\ In v (find_deferred p is_def)) /\
    (forall pre v ins post, ir_events r2 = pre ++ (v, ins) :: post ->
       forall u, In u (parents_ref p v) -> In u (find_deferred p is_def) -> In u (map fst pre)) /\
    (forall v ins, In (v, ins) (ir_events r2) ->
       ins = flat_map (fun u => opt_list (out12 (find_deferred p is_def) run1 run2 p (ir_events r1) (ir_events r2) u))
                      (parents_ref p v) /\
       length ins = length (parents_ref p v) /\
       (forall u, In u (parents_ref p v) ->
          exists o, out12 (find_deferred p is_def) run1 run2 p (ir_events r1) (ir_events r2) u = Some o /\
                    (~ In u (find_deferred p is_def) ->
                     In u (map fst (ir_events r1)) /\ aget u (ir_cache r1) = Some o)) /\
       exists res, run2 v (is_leaf p v) ins = Ok res /\ res <> PFail /\
                   value p (run12 (find_deferred p is_def) run1 run2) (fun _ => false) (S (length (p_nodes p))) v
                   = Ok (nval_of res)) /\
    (forall u, aget u (ir_cache r2) = aget u (ir_cache r1)).
Proof. exact checks_pass_is_reference_on_deferred. Qed.

(* 3. Over the two calls, when neither reports a program failure, every node is run exactly once: the non-deferred
   nodes in the first call, the deferred ones in the second. *)
Theorem TM_each_node_once :
  forall run1 run2 p is_def pm sorted,
    create_parent_map p = Ok pm -> parallel_topo_sort p pm = Ok sorted ->
    forall collect_all1 collect_all2 r1 r2,
    run_respects_leaf run1 -> run_respects_leaf run2 ->
    check_predicate_inner run1 p collect_all1 is_def Outputs [] = Ok r1 ->
    check_predicate_inner run2 p collect_all2 is_def Checks (ir_cache r1) = Ok r2 ->
    no_program_failed (ir_res r1) -> no_program_failed (ir_res r2) ->
    Permutation (map fst (ir_events r1 ++ ir_events r2)) (seq 0 (length (p_nodes p))) /\
    NoDup (map fst (ir_events r1 ++ ir_events r2)) /\
    (forall v, In v (map fst (ir_events r1)) <-> v < length (p_nodes p) /\ ~ In v (find_deferred p is_def)) /\
    (forall v, In v (map fst (ir_events r2)) <-> v < length (p_nodes p) /\ In v (find_deferred p is_def)).
Proof. exact two_modes_each_node_once. Qed.

(* 4. Both calls succeed exactly when, in the reference under run12, every node runs without failing and every leaf ends
   with 1 or a data output.  Then the gas / data outputs of each call are the saturating sum / the data memories over
   the nodes of that call, in level order.  (No premise on failures here: a failed first call makes the left side false.) *)
Theorem TM_verdict :
  forall run1 run2 p is_def pm sorted,
    create_parent_map p = Ok pm -> parallel_topo_sort p pm = Ok sorted ->
    forall collect_all1 collect_all2 r1 r2,
    run_respects_leaf run1 -> run_respects_leaf run2 ->
    check_predicate_inner run1 p collect_all1 is_def Outputs [] = Ok r1 ->
    check_predicate_inner run2 p collect_all2 is_def Checks (ir_cache r1) = Ok r2 ->
    (((exists g1 d1, ir_res r1 = Ok (g1, d1)) /\ (exists g2 d2, ir_res r2 = Ok (g2, d2))) <->
     (forall v, v < length (p_nodes p) ->
        good_val (value p (run12 (find_deferred p is_def) run1 run2) (fun _ => false) (S (length (p_nodes p))) v))) /\
    (forall g1 d1 g2 d2, ir_res r1 = Ok (g1, d1) -> ir_res r2 = Ok (g2, d2) ->
       g1 = fold_left (fun a v => gas_add a (vals p (run12 (find_deferred p is_def) run1 run2) v))
                      (nodes_first (find_deferred p is_def) sorted) 0%Z /\
       d1 = flat_map (fun v => data_of (vals p (run12 (find_deferred p is_def) run1 run2) v))
                     (nodes_first (find_deferred p is_def) sorted) /\
       g2 = fold_left (fun a v => gas_add a (vals p (run12 (find_deferred p is_def) run1 run2) v))
                      (nodes_second (find_deferred p is_def) sorted) 0%Z /\
       d2 = flat_map (fun v => data_of (vals p (run12 (find_deferred p is_def) run1 run2) v))
                     (nodes_second (find_deferred p is_def) sorted)).
Proof. exact two_modes_verdict. Qed.

(* ------------------------------------------------------------------------------------------ *)
(* Examples (toy programs, graphs `diamond` 0 -> {1,2} -> 3 and `chain210` 2 -> 1 -> 0 of InnerThms.v) *)

(* the programs of the second pass: like toy_run, but a non-leaf pushes index + 100, and gas is 2 *)
Definition toy_run2 (ix : nat) (leaf : bool) (ins : list sm) : outcome unit prog_res :=
  if leaf then Ok (PRun (OutLeaf (Satisfied true)) 2%Z)
  else Ok (PRun (OutParent (flat_map fst ins ++ [(Z.of_nat ix + 100)%Z]) []) 2%Z).

Example toy_runs_respect_leaf : run_respects_leaf (toy_run no_fail) /\ run_respects_leaf toy_run2.
Proof. split; intros ix ins g o; unfold toy_run, toy_run2, no_fail; discriminate. Qed.

(* chain 2 -> 1 -> 0, only node 2 reads the post-state: everything is deferred; the first call runs nothing and
   caches nothing, the second runs 2, 1, 0 *)
Example chain_all_deferred :
  find_deferred chain210 (Nat.eqb 2) = [2; 1; 0] /\
  check_predicate_inner (toy_run no_fail) chain210 false (Nat.eqb 2) Outputs []
  = Ok {| ir_res := Ok (0%Z, []); ir_cache := []; ir_events := [] |} /\
  check_predicate_inner toy_run2 chain210 false (Nat.eqb 2) Checks []
  = Ok {| ir_res := Ok (6%Z, []); ir_cache := [];
          ir_events := [ (2, []); (1, [([102%Z], [])]); (0, [([102; 101]%Z, [])]) ] |}.
Proof. repeat split; vm_compute; reflexivity. Qed.

(* diamond, only node 2 reads the post-state: 2 and 3 are deferred.  The first call runs 0 and 1 and caches both
   (0 has the deferred child 2, 1 has the deferred child 3); the second call runs 2 on the cached output of 0, then 3 on
   [cached output of 1; local output of 2], in ascending parent order. *)
Example diamond_two_modes :
  find_deferred diamond (Nat.eqb 2) = [2; 3] /\
  check_predicate_inner (toy_run no_fail) diamond false (Nat.eqb 2) Outputs []
  = Ok {| ir_res := Ok (2%Z, []); ir_cache := [ (0, ([0%Z], [])); (1, ([0; 1]%Z, [])) ];
          ir_events := [ (0, []); (1, [([0%Z], [])]) ] |} /\
  check_predicate_inner toy_run2 diamond false (Nat.eqb 2) Checks [ (0, ([0%Z], [])); (1, ([0; 1]%Z, [])) ]
  = Ok {| ir_res := Ok (4%Z, []); ir_cache := [ (0, ([0%Z], [])); (1, ([0; 1]%Z, [])) ];
          ir_events := [ (2, [([0%Z], [])]); (3, [([0; 1]%Z, []); ([0; 102]%Z, [])]) ] |}.
Proof. repeat split; vm_compute; reflexivity. Qed.

(* the reference values of the diamond under run12, and under "run1, skipping the deferred nodes" *)
Example diamond_reference_values :
  map (value diamond (run12 [2; 3] (toy_run no_fail) toy_run2) (fun _ => false) 5) [0; 1; 2; 3]
  = [ Ok (NVParent ([0%Z], []) 1%Z); Ok (NVParent ([0; 1]%Z, []) 1%Z);
      Ok (NVParent ([0; 102]%Z, []) 2%Z); Ok (NVLeaf (Satisfied true) 2%Z) ] /\
  map (value diamond (toy_run no_fail) (fun x => memb x [2; 3]) 5) [0; 1; 2; 3]
  = [ Ok (NVParent ([0%Z], []) 1%Z); Ok (NVParent ([0; 1]%Z, []) 1%Z); Ok NVSkipped; Ok NVSkipped ].
Proof. split; vm_compute; reflexivity. Qed.

(* the hypotheses of the theorems hold for the diamond calls above *)
Example diamond_hypotheses :
  exists pm sorted r1 r2,
    create_parent_map diamond = Ok pm /\ parallel_topo_sort diamond pm = Ok sorted /\
    check_predicate_inner (toy_run no_fail) diamond false (Nat.eqb 2) Outputs [] = Ok r1 /\
    check_predicate_inner toy_run2 diamond false (Nat.eqb 2) Checks (ir_cache r1) = Ok r2 /\
    no_program_failed (ir_res r1) /\ no_program_failed (ir_res r2) /\
    nodes_first (find_deferred diamond (Nat.eqb 2)) sorted = [0; 1] /\
    nodes_second (find_deferred diamond (Nat.eqb 2)) sorted = [2; 3].
Proof.
  do 4 eexists. split; [vm_compute; reflexivity|]. split; [vm_compute; reflexivity|].
  split; [vm_compute; reflexivity|]. split; [vm_compute; reflexivity|].
  split; [exact I|]. split; [exact I|]. split; vm_compute; reflexivity.
Qed.

(* a failing first call: node 1 fails, so "both succeed" is false, and so is the right-hand side of TM_verdict *)
Example diamond_first_call_fails :
  check_predicate_inner (toy_run (Nat.eqb 1)) diamond false (Nat.eqb 2) Outputs []
  = Ok {| ir_res := Err (PProgramErrors [1]); ir_cache := [ (0, ([0%Z], [])) ];
          ir_events := [ (0, []); (1, [([0%Z], [])]) ] |} /\
  value diamond (run12 [2; 3] (toy_run (Nat.eqb 1)) toy_run2) (fun _ => false) 5 1 = Ok NVFail.
Proof. split; vm_compute; reflexivity. Qed.
