(* C04, two-pass part: the two-pass check does not depend on the order of the solutions of the set.
   The reordered set is `map (fun j => nth j sols empty_solution) perm` for a permutation `perm` of the positions
   (= `rename empty_solution perm sols`, `is_perm perm (length sols)`; Spec/SetPermSpec.v).
   Everything about the post-state is stated under `NoDup (set_pairs ..)` of the set whose post-state is read:
   for sets proposing two values for one (contract, key) the claim is false (last writer wins; known finding). *)
From Coq Require Import ZArith List Permutation.
From EB Require Import Check.Set Spec.TwoPassSpec Spec.SetPermSpec Proofs.SetPerm.
Import ListNotations.
Open Scope list_scope.
Open Scope Z_scope.

(* the VM sees its environment only through the solution being checked, the gas table, the crypto oracles, the two
   state views (pointwise) and the solution list as a set *)
Theorem C04_exec_env_ext fuel E E' oa limit v spent tr :
  this_solution E = this_solution E' ->
  (forall o, e_cost E o = e_cost E' o) ->
  (forall b, e_sha256 E b = e_sha256 E' b) ->
  (forall k s m, e_ed25519 E k s m = e_ed25519 E' k s m) ->
  (forall h s r, e_secp E h s r = e_secp E' h s r) ->
  (forall c k n, e_pre E c k n = e_pre E' c k n) ->
  (forall c k n, e_post E c k n = e_post E' c k n) ->
  Permutation (e_solutions E) (e_solutions E') ->
  exec fuel E oa limit v spent tr = exec fuel E' oa limit v spent tr.
Proof. exact (exec_env_ext_explicit fuel E E' oa limit v spent tr). Qed.

(* running a program node for the solution at position i of the reordered set = running it for that solution
   where it sits in the original set *)
Theorem C04_run_program_perm fuel sols perm i pre post prog leaf parents :
  Permutation perm (seq 0 (length sols)) -> (i < length sols)%nat ->
  run_program fuel {| sc_solutions := map (fun j => nth j sols empty_solution) perm; sc_index := i;
                      sc_pre := pre; sc_post := post |} prog leaf parents =
  run_program fuel {| sc_solutions := sols; sc_index := nth i perm 0%nat; sc_pre := pre; sc_post := post |}
              prog leaf parents.
Proof. exact (run_program_perm fuel sols perm i pre post prog leaf parents). Qed.

(* the check of one solution does not depend on where it sits, nor on the order of the others *)
Theorem C04_check_predicate_perm fuel lk ca mode sols perm i pre post cache :
  Permutation perm (seq 0 (length sols)) -> (i < length sols)%nat ->
  check_predicate fuel lk ca mode
    {| sc_solutions := map (fun j => nth j sols empty_solution) perm; sc_index := i; sc_pre := pre; sc_post := post |} cache =
  check_predicate fuel lk ca mode
    {| sc_solutions := sols; sc_index := nth i perm 0%nat; sc_pre := pre; sc_post := post |} cache.
Proof. exact (check_predicate_perm fuel lk ca mode sols perm i pre post cache). Qed.

(* ... also between contexts whose views agree only pointwise *)
Theorem C04_check_predicate_ctx_ext fuel lk ca mode c c' cache :
  nth (sc_index c) (sc_solutions c) empty_solution = nth (sc_index c') (sc_solutions c') empty_solution ->
  (forall a k n, sc_pre c a k n = sc_pre c' a k n) ->
  (forall a k n, sc_post c a k n = sc_post c' a k n) ->
  Permutation (sc_solutions c) (sc_solutions c') ->
  check_predicate fuel lk ca mode c cache = check_predicate fuel lk ca mode c' cache.
Proof.
  exact (fun H1 H2 H3 H4 => check_predicate_ctx_ext fuel lk ca mode c c' cache
                              {| ce_this := H1; ce_pre := H2; ce_post := H3; ce_sols := H4 |}).
Qed.

(* the per-solution results of the reordered set are the reordered per-solution results (or neither run finishes) *)
Theorem C04_check_solutions_perm fuel lk ca mode sols pre post caches perm :
  Permutation perm (seq 0 (length sols)) ->
  match check_solutions_go fuel lk ca mode sols pre post (seq 0 (length sols)) caches,
        check_solutions_go fuel lk ca mode (map (fun j => nth j sols empty_solution) perm) pre post
                           (seq 0 (length sols)) (map (fun j => nth j caches []) perm) with
  | Ok rs, Ok rs' => rs' = map (fun j => nth j rs dflt_ir) perm /\ length rs = length sols
  | Ok _, _ => False
  | _, Ok _ => False
  | _, _ => True
  end.
Proof.
  exact (fun Hp => check_solutions_go_perm fuel lk ca mode sols pre post pre post caches perm Hp
                     (fun _ _ _ => eq_refl) (fun _ _ _ => eq_refl)).
Qed.

(* check_set_predicates: both runs give a result or neither does; the results are both Ok with the same gas, data
   outputs and caches corresponding under the renaming, or both `Failed` with corresponding (solution, error) pairs *)
Theorem C04_check_set_predicates_perm fuel lk ca mode sols pre post pre' post' caches perm :
  Permutation perm (seq 0 (length sols)) ->
  (forall c k n, pre c k n = pre' c k n) -> (forall c k n, post c k n = post' c k n) ->
  orel (fun r r' =>
          sr_caches r' = map (fun j => nth j (sr_caches r) []) perm /\
          match sr_res r, sr_res r' with
          | Ok (g, data), Ok (g', data') =>
              g' = g /\ map fst data = seq 0 (length sols) /\ map fst data' = seq 0 (length sols) /\
              map snd data' = map (fun j => nth j (map snd data) []) perm
          | Err (SFailed errs), Err (SFailed errs') =>
              errs <> [] /\ errs' <> [] /\
              forall i e, In (i, e) errs' <-> ((i < length sols)%nat /\ In (nth i perm 0%nat, e) errs)
          | _, _ => False
          end)
    (check_set_predicates fuel lk ca mode sols pre post caches)
    (check_set_predicates fuel lk ca mode (map (fun j => nth j sols empty_solution) perm) pre' post'
                          (map (fun j => nth j caches []) perm)).
Proof. exact (check_set_predicates_perm fuel lk ca mode sols pre post pre' post' caches perm). Qed.

(* the total gas of a set is the order-independent saturating sum of the non-negative gas of its solutions *)
Theorem C04_solution_gas_nonneg fuel lk ca mode c cache r g d :
  check_predicate fuel lk ca mode c cache = Ok r -> ir_res r = Ok (g, d) -> 0 <= g.
Proof. exact (check_predicate_gas_nn fuel lk ca mode c cache r g d). Qed.

(* each solution's mutations are decoded independently of the others: Ok with the renamed result, or both errors *)
Theorem C04_decode_mutations_set_perm perm sols ds :
  Permutation perm (seq 0 (length sols)) -> length ds = length sols ->
  erel (fun s s' => s' = map (fun j => nth j s empty_solution) perm /\ length s = length sols)
    (decode_mutations_set (combine (seq 0 (length sols)) ds) sols)
    (decode_mutations_set (combine (seq 0 (length sols)) (map (fun j => nth j ds []) perm))
                          (map (fun j => nth j sols empty_solution) perm)).
Proof. exact (decode_mutations_set_perm perm sols ds). Qed.

(* one pass: same gas, renamed solutions with their computed mutations, renamed caches; or both errors *)
Theorem C04_check_and_compute_perm fuel lk ca mode sols pre post pre' post' caches perm :
  Permutation perm (seq 0 (length sols)) ->
  (forall c k n, pre c k n = pre' c k n) -> (forall c k n, post c k n = post' c k n) ->
  orel (fun r r' =>
          match cr_res r, cr_res r' with
          | Ok (g, s), Ok (g', s') =>
              g' = g /\ s' = map (fun j => nth j s empty_solution) perm /\ length s = length sols /\
              cr_caches r' = map (fun j => nth j (cr_caches r) []) perm
          | Err _, Err _ => True
          | _, _ => False
          end)
    (check_and_compute fuel lk ca mode sols pre post caches)
    (check_and_compute fuel lk ca mode (map (fun j => nth j sols empty_solution) perm) pre' post'
                       (map (fun j => nth j caches []) perm)).
Proof. exact (check_and_compute_perm fuel lk ca mode sols pre post pre' post' caches perm). Qed.

(* the two-pass check: if the set computed by the first pass proposes at most one value per contract and key, then
   on the reordered set the check finishes iff it finishes on the original one, and then both accept with the same
   total gas and the same computed mutations per solution, or both reject *)
Theorem C04_two_pass_perm fuel lk ca sols st perm :
  Permutation perm (seq 0 (length sols)) ->
  (forall r1 g1 sols1,
     check_and_compute fuel lk ca Outputs sols (state_view st) (read_or_fallback [] (state_view st))
                       (map (fun _ => []) sols) = Ok r1 ->
     cr_res r1 = Ok (g1, sols1) -> NoDup (set_pairs sols1)) ->
  orel (fun r r' =>
          match tp_res r, tp_res r' with
          | Ok (g, s2), Ok (g', s2') => g' = g /\ s2' = map (fun j => nth j s2 empty_solution) perm
          | Err _, Err _ => True
          | _, _ => False
          end)
    (two_pass fuel lk ca sols st)
    (two_pass fuel lk ca (map (fun j => nth j sols empty_solution) perm) st).
Proof. exact (two_pass_perm fuel lk ca sols st perm). Qed.

(* read forwards: an accepted set is accepted in every order, with the same gas and mutations *)
Theorem C04_two_pass_perm_accepted fuel lk ca sols st perm r g s2 :
  Permutation perm (seq 0 (length sols)) ->
  (forall r1 g1 sols1,
     check_and_compute fuel lk ca Outputs sols (state_view st) (read_or_fallback [] (state_view st))
                       (map (fun _ => []) sols) = Ok r1 ->
     cr_res r1 = Ok (g1, sols1) -> NoDup (set_pairs sols1)) ->
  two_pass fuel lk ca sols st = Ok r -> tp_res r = Ok (g, s2) ->
  exists r', two_pass fuel lk ca (map (fun j => nth j sols empty_solution) perm) st = Ok r' /\
             tp_res r' = Ok (g, map (fun j => nth j s2 empty_solution) perm).
Proof. exact (two_pass_perm_ok fuel lk ca sols st perm r g s2). Qed.

(* ... and a rejected set is rejected in every order (which error is reported may differ) *)
Theorem C04_two_pass_perm_rejected fuel lk ca sols st perm r e :
  Permutation perm (seq 0 (length sols)) ->
  (forall r1 g1 sols1,
     check_and_compute fuel lk ca Outputs sols (state_view st) (read_or_fallback [] (state_view st))
                       (map (fun _ => []) sols) = Ok r1 ->
     cr_res r1 = Ok (g1, sols1) -> NoDup (set_pairs sols1)) ->
  two_pass fuel lk ca sols st = Ok r -> tp_res r = Err e ->
  exists r' e', two_pass fuel lk ca (map (fun j => nth j sols empty_solution) perm) st = Ok r' /\
                tp_res r' = Err e'.
Proof. exact (two_pass_perm_err fuel lk ca sols st perm r e). Qed.

(* ============ example ============ *)
(* two solutions of two contracts, each with a one-node predicate; contract A's program costs 3, B's costs 1;
   each solution declares one mutation (distinct slots) *)
Definition exA : list Z := repeat 1 32.
Definition exB : list Z := repeat 2 32.
Definition ex_one_node (prog : list Z) : predicate :=
  {| p_nodes := [ {| n_edge_start := 65535; n_program := prog |} ]; p_edges := [] |}.
Definition ex_lk : lookup :=
  {| lk_predicate := fun c _ => if hd 0 c =? 1 then ex_one_node [10] else ex_one_node [20];
     lk_program := fun a => match a with
                            | [10] => to_bytes [OPush 2; OPop; OPush 1]
                            | _ => to_bytes [OPush 1]
                            end |}.
Definition ex_solA : solution :=
  {| sol_contract := exA; sol_predicate := repeat 0 32; sol_data := []; sol_muts := [ {| m_key := [1]; m_value := [10] |} ] |}.
Definition ex_solB : solution :=
  {| sol_contract := exB; sol_predicate := repeat 0 32; sol_data := []; sol_muts := [ {| m_key := [2]; m_value := [20] |} ] |}.
Definition ex_sols : list solution := [ex_solA; ex_solB].
Definition ex_perm : list nat := [1%nat; 0%nat].
Definition ex_res (sols : list solution) : option (outcome set_err (Z * list solution)) :=
  match two_pass 100 ex_lk true sols [] with Ok r => Some (tp_res r) | _ => None end.

Example C04_ex_perm : Permutation ex_perm (seq 0 (length ex_sols)).
Proof. apply perm_swap. Qed.

Example C04_ex_reordered : map (fun j => nth j ex_sols empty_solution) ex_perm = [ex_solB; ex_solA].
Proof. reflexivity. Qed.

Example C04_ex_nodup : NoDup (set_pairs ex_sols).
Proof.
  vm_compute. constructor.
  - intros [H|[]]. discriminate H.
  - constructor; [intros []|constructor].
Qed.

(* both orders: accepted, gas 4, the computed sets correspond under the renaming *)
Example C04_ex_two_pass :
  ex_res ex_sols = Some (Ok (4, [ex_solA; ex_solB])) /\
  ex_res (map (fun j => nth j ex_sols empty_solution) ex_perm) = Some (Ok (4, [ex_solB; ex_solA])) /\
  [ex_solB; ex_solA] = map (fun j => nth j [ex_solA; ex_solB] empty_solution) ex_perm.
Proof. repeat split; vm_compute; reflexivity. Qed.

(* the per-solution check at position 0 of the reordered set = the check of solution 1 of the original set *)
Example C04_ex_check_predicate :
  check_predicate 100 ex_lk true Outputs
    {| sc_solutions := [ex_solB; ex_solA]; sc_index := 0; sc_pre := state_view []; sc_post := state_view [] |} [] =
  check_predicate 100 ex_lk true Outputs
    {| sc_solutions := ex_sols; sc_index := 1; sc_pre := state_view []; sc_post := state_view [] |} [] /\
  option_map (fun r => ir_res r)
    (match check_predicate 100 ex_lk true Outputs
             {| sc_solutions := ex_sols; sc_index := 1; sc_pre := state_view []; sc_post := state_view [] |} [] with
     | Ok r => Some r | _ => None end) = Some (Ok (1, [])).
Proof. split; vm_compute; reflexivity. Qed.
