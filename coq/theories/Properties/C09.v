(* C09 - Control flow, repeat loops and evaluation results follow the specification.
   This file contains statements only; every proof is `exact <lemma from Proofs/>`.
   Conventions: the stack top is the list head; JumpIf sees `cond :: dist :: rest`, Repeat sees
   `count_up :: num_repeats :: rest`; 18446744073709551615 = usize::MAX, 4096 = the stack size limit. *)
From Coq Require Import ZArith List Lia Bool String.
From EB Require Import Vm.Exec Proofs.Control Proofs.ControlExec Proofs.ControlLoop.
Open Scope list_scope.
Open Scope Z_scope.

(* ================= JumpIf / HaltIf / PanicIf / Halt ================= *)

(* JumpIf: condition 0 continues; condition 1 jumps by the non-zero distance, forward or backward, and is an
   error when the distance is 0 or the target leaves [0, usize::MAX]; any other condition is an error; never a panic. *)
Theorem C09_jump_if_spec : forall p c d s,
  0 <= p <= 18446744073709551615 -> i64 d ->
  (c = 0 -> op_jump_if p (c :: d :: s) = Ok (s, CNext)) /\
  (c = 1 -> d = 0 -> op_jump_if p (c :: d :: s) = Err EControl) /\
  (c = 1 -> d > 0 -> p + d <= 18446744073709551615 -> op_jump_if p (c :: d :: s) = Ok (s, CPc (p + d))) /\
  (c = 1 -> d > 0 -> p + d > 18446744073709551615 -> op_jump_if p (c :: d :: s) = Err EPcOverflow) /\
  (c = 1 -> d < 0 -> 0 <= p + d -> op_jump_if p (c :: d :: s) = Ok (s, CPc (p + d))) /\
  (c = 1 -> d < 0 -> p + d < 0 -> op_jump_if p (c :: d :: s) = Err EPcOverflow) /\
  (c <> 0 -> c <> 1 -> op_jump_if p (c :: d :: s) = Err EControl) /\
  no_panic (op_jump_if p (c :: d :: s)).
Proof. exact jump_if_spec. Qed.

(* fewer than two words on the stack: a stack error *)
Theorem C09_jump_if_short : forall p s, (length s < 2)%nat -> op_jump_if p s = Err EStack.
Proof. exact jump_if_short. Qed.

(* JumpIf never panics and never runs out of model fuel, on any stack *)
Theorem C09_jump_if_total : forall p s, no_panic (op_jump_if p s) /\ op_jump_if p s <> OutOfFuel.
Proof. intros p s. exact (conj (jump_if_no_panic p s) (jump_if_not_fuel p s)). Qed.

(* the distance i64::MIN is handled like any other backward distance (no overflow of the absolute value) *)
Theorem C09_jump_if_i64_min : forall p s, 0 <= p <= 18446744073709551615 ->
  op_jump_if p (1 :: -9223372036854775808 :: s) =
    if 0 <=? p + -9223372036854775808 then Ok (s, CPc (p + -9223372036854775808)) else Err EPcOverflow.
Proof. exact jump_if_i64_min. Qed.

(* a successful JumpIf had condition 0, or condition 1 and a non-zero distance with target pc + dist inside usize *)
Theorem C09_jump_if_ok_inv : forall p st s' c',
  0 <= p <= 18446744073709551615 ->
  op_jump_if p st = Ok (s', c') ->
  exists c d, st = c :: d :: s' /\
    ((c = 0 /\ c' = CNext) \/
     (c = 1 /\ d <> 0 /\ 0 <= p + d <= 18446744073709551615 /\ c' = CPc (p + d))).
Proof. exact jump_if_ok_inv. Qed.

(* HaltIf: 0 continues, 1 halts, anything else is an error; empty stack is a stack error; never a panic *)
Theorem C09_halt_if_spec : forall c s,
  (c = 0 -> op_halt_if (c :: s) = Ok (s, CNext)) /\
  (c = 1 -> op_halt_if (c :: s) = Ok (s, CHalt)) /\
  (c <> 0 -> c <> 1 -> op_halt_if (c :: s) = Err EControl) /\
  op_halt_if [] = Err EStack /\
  (forall st, no_panic (op_halt_if st)).
Proof. exact halt_if_spec. Qed.

(* PanicIf: 0 continues, 1 is an error (not a Rust panic), anything else is an error *)
Theorem C09_panic_if_spec : forall c s,
  (c = 0 -> op_panic_if (c :: s) = Ok (s, CNext)) /\
  (c = 1 -> op_panic_if (c :: s) = Err EControl) /\
  (c <> 0 -> c <> 1 -> op_panic_if (c :: s) = Err EControl) /\
  op_panic_if [] = Err EStack /\
  (forall st, no_panic (op_panic_if st)).
Proof. exact panic_if_spec. Qed.

(* Halt requests a halt and changes nothing *)
Theorem C09_halt : forall E v, step_basic E OHalt v = Ok (v, CHalt).
Proof. exact step_halt. Qed.

(* RepeatEnd and RepeatCounter outside of any loop are errors *)
Theorem C09_repeat_end_empty : forall E v, rstack v = [] -> step_basic E ORepeatEnd v = Err ERepeat.
Proof. exact step_repeat_end_empty. Qed.
Theorem C09_repeat_counter_empty : forall E v, rstack v = [] -> step_basic E ORepeatCounter v = Err ERepeat.
Proof. exact step_repeat_counter_empty. Qed.
(* RepeatCounter pushes the counter of the innermost loop *)
Theorem C09_repeat_counter : forall E v sl r, rstack v = sl :: r ->
  step_basic E ORepeatCounter v = with_stack v (push (s_counter sl) (stack v)).
Proof. exact step_repeat_counter. Qed.

(* which operation can request what: only JumpIf (cond 1) and RepeatEnd jump, and they jump to pc + dist resp. the
   start of the loop body; only Halt and HaltIf (cond 1) halt; only ComputeEnd ends a compute *)
Theorem C09_step_ctl : forall E o v v' c, step_basic E o v = Ok (v', c) ->
  match c with
  | CNext => True
  | CPc p => (o = OJumpIf /\ exists d s, stack v = 1 :: d :: s /\ d <> 0 /\ p = pc v + d /\ v' = set_stack v s)
             \/ (o = ORepeatEnd /\ exists sl r sl', rstack v = sl :: r /\ p = s_index sl /\
                                   v' = set_stack_rep v (stack v) (sl' :: r))
  | CHalt => (o = OHalt /\ v' = v) \/ (o = OHaltIf /\ exists s, stack v = 1 :: s /\ v' = set_stack v s)
  | CComputeEnd => o = OComputeEnd /\ v' = v
  | CComputeResult _ _ _ => False
  end.
Proof. exact step_basic_ctl. Qed.

(* no step changes the pc by itself (exec does), and only Repeat/RepeatEnd change the repeat stack *)
Theorem C09_step_frame : forall E o v v' c, step_basic E o v = Ok (v', c) ->
  pc v' = pc v /\ parent_memory v' = parent_memory v /\ halt v' = halt v /\
  (is_repeat_op o = false -> rstack v' = rstack v).
Proof. exact step_basic_frame. Qed.

(* ================= the repeat stack as a state machine ================= *)

(* Repeat pops count_up (top) and num_repeats and pushes a slot that points at the next operation *)
Theorem C09_repeat_push : forall p upw n s r,
  0 <= p -> p + 1 <= 18446744073709551615 -> zlen r < 4096 -> (upw = 0 \/ upw = 1) ->
  op_repeat p (upw :: n :: s) r =
    Ok (s, (if upw =? 1 then mk_slot 0 (Some n) (p + 1) else mk_slot n None (p + 1)) :: r).
Proof. exact op_repeat_ok. Qed.

(* the error cases of Repeat; never a panic *)
Theorem C09_repeat_errors : forall p s r,
  ((length s < 2)%nat -> op_repeat p s r = Err EStack) /\
  (forall upw n s0, s = upw :: n :: s0 -> upw <> 0 -> upw <> 1 -> op_repeat p s r = Err ERepeat) /\
  (forall upw n s0, s = upw :: n :: s0 -> (upw = 0 \/ upw = 1) -> 18446744073709551615 < p + 1 ->
     op_repeat p s r = Err EStack) /\
  (forall upw n s0, s = upw :: n :: s0 -> (upw = 0 \/ upw = 1) -> p + 1 <= 18446744073709551615 -> 4096 <= zlen r ->
     op_repeat p s r = Err ERepeat) /\
  no_panic (op_repeat p s r).
Proof. exact op_repeat_errors. Qed.

(* counting up with limit n: after j RepeatEnds the counter is j; RepeatEnd number j+1 jumps back to the body while
   j < max(n,1) - 1; the RepeatEnd with counter max(n,1) - 1 pops the slot and leaves exactly the outer slots.
   The body therefore runs max(n,1) times and sees 0, 1, ..., max(n,1) - 1. *)
Theorem C09_repeat_machine_up : forall n ix r, i64 n ->
  let sl := fun c => mk_slot c (Some n) ix in
  (forall j, 0 <= j < Z.max n 1 -> iter_end (Z.to_nat j) (sl 0 :: r) = Ok (sl j :: r)) /\
  (forall j, 0 <= j < Z.max n 1 - 1 -> op_repeat_end (sl j :: r) = Ok (sl (j + 1) :: r, Some ix)) /\
  op_repeat_end (sl (Z.max n 1 - 1) :: r) = Ok (r, None) /\
  iter_end (Z.to_nat (Z.max n 1)) (sl 0 :: r) = Ok r.
Proof. exact repeat_machine_up. Qed.

(* counting down from n: after j RepeatEnds the counter is n - j; the body runs max(n,1) times and sees
   n, n-1, ..., 1 when n >= 1, and exactly once, seeing n itself, when n <= 0 *)
Theorem C09_repeat_machine_down : forall n ix r,
  let sl := fun c => mk_slot c None ix in
  (forall j, 0 <= j < Z.max n 1 -> iter_end (Z.to_nat j) (sl n :: r) = Ok (sl (n - j) :: r)) /\
  (forall j, 0 <= j < Z.max n 1 - 1 -> op_repeat_end (sl (n - j) :: r) = Ok (sl (n - j - 1) :: r, Some ix)) /\
  op_repeat_end (sl (n - (Z.max n 1 - 1)) :: r) = Ok (r, None) /\
  (1 <= n -> n - (Z.max n 1 - 1) = 1) /\ (n <= 0 -> n - (Z.max n 1 - 1) = n) /\
  iter_end (Z.to_nat (Z.max n 1)) (sl n :: r) = Ok r.
Proof. exact repeat_machine_down. Qed.

(* RepeatEnd only ever touches the top slot: it either updates its counter by one and jumps to its index, or pops it;
   the slots of the enclosing loops are untouched, so an outer loop resumes where it was *)
Theorem C09_repeat_outer_untouched : forall sl r res,
  op_repeat_end (sl :: r) = Ok res ->
  (exists sl', res = (sl' :: r, Some (s_index sl)) /\ s_up sl' = s_up sl /\ s_index sl' = s_index sl /\
               s_counter sl' = match s_up sl with Some _ => s_counter sl + 1 | None => s_counter sl - 1 end)
  \/ res = (r, None).
Proof. exact repeat_outer_untouched. Qed.

(* RepeatEnd never panics when the limit of the top slot is a word, and never runs out of fuel *)
Theorem C09_repeat_end_no_panic : forall r,
  (forall sl r', r = sl :: r' -> match s_up sl with Some lim => lim <= 9223372036854775807 | None => True end) ->
  no_panic (op_repeat_end r).
Proof. exact repeat_end_no_panic. Qed.
Theorem C09_repeat_end_not_fuel : forall r, op_repeat_end r <> OutOfFuel.
Proof. exact repeat_end_not_fuel. Qed.

(* ================= whole programs: a loop with a straight-line body ================= *)

(* a straight-line segment (no Repeat, RepeatEnd, JumpIf, Halt, HaltIf, Compute, ComputeEnd) is executed operation by
   operation, pc + 1 each time; gas grows by the sum of the costs; an error stops the execution at that operation *)
Theorem C09_exec_straight : forall E oa limit, (forall o, 0 <= e_cost E o) ->
  forall seg, forallb straight_line seg = true ->
  forall v spent tr f,
  seg_at oa (pc v) seg -> pc v + zlen seg <= 18446744073709551615 ->
  gas_ok limit (spent + cost_sum E seg) -> 0 <= spent ->
  exec (length seg + f) E oa limit v spent tr =
  bind (run_seq E seg v) (fun v1 => exec f E oa limit v1 (spent + cost_sum E seg) (rev seg ++ tr)).
Proof. exact exec_straight. Qed.

(* Executing `Repeat body RepeatEnd` with a straight-line body, enough gas and fuel: pop count_up and n, run the body
   max(n,1) times, each time from the first body operation with the slot for that iteration on top of the unchanged
   outer slots (`loop_slots`: counters 0,1,.. upward or n,n-1,.. downward), then continue after the RepeatEnd with
   the slot popped. An error (or panic) in some iteration is the result of the execution. *)
Theorem C09_repeat_program : forall E pre body post limit v upw n s spent tr f,
  let ops := pre ++ ORepeat :: body ++ ORepeatEnd :: post in
  let b := zlen pre + 1 in
  let after := zlen pre + zlen body + 2 in
  forallb straight_line body = true ->
  zlen ops <= 18446744073709551615 ->
  (forall o, 0 <= e_cost E o) -> 0 <= spent ->
  pc v = zlen pre -> stack v = upw :: n :: s -> (upw = 0 \/ upw = 1) -> i64 n -> zlen (rstack v) < 4096 ->
  let up := upw =? 1 in
  let iters := Z.max n 1 in
  let total := spent + e_cost E ORepeat + iters * (cost_sum E body + e_cost E ORepeatEnd) in
  gas_ok limit total ->
  exec (1 + Z.to_nat iters * (length body + 1) + f) E (op_at ops) limit v spent tr =
  bind (run_iters E body b (rstack v) (loop_slots up n b) (set_stack v s)) (fun vend =>
    exec f E (op_at ops) limit (loop_exit vend (rstack v) after) total
         (loop_tr body (Z.to_nat iters) (ORepeat :: tr))).
Proof. exact repeat_program. Qed.

(* the same for any op-access function and any chain of slot states (the engine behind the theorem above) *)
Theorem C09_repeat_program_gen : forall E oa limit body b r,
  (forall o, 0 <= e_cost E o) -> forallb straight_line body = true ->
  seg_at oa b body -> oa (b + zlen body) = Some ORepeatEnd -> b + zlen body + 1 <= 18446744073709551615 ->
  forall sl0 rest v s spent tr f,
  pc v + 1 = b -> oa (pc v) = Some ORepeat ->
  op_repeat (pc v) (stack v) (rstack v) = Ok (s, sl0 :: r) -> rstack v = r ->
  chain b r (sl0 :: rest) -> 0 <= spent ->
  let iters := S (length rest) in
  let total := spent + e_cost E ORepeat + Z.of_nat iters * (cost_sum E body + e_cost E ORepeatEnd) in
  gas_ok limit total ->
  exec (1 + iters * (length body + 1) + f) E oa limit v spent tr =
  bind (run_iters E body b r (sl0 :: rest) (set_stack v s)) (fun vend =>
    exec f E oa limit (loop_exit vend r (b + zlen body + 1)) total (loop_tr body iters (ORepeat :: tr))).
Proof. exact loop_from_repeat. Qed.

(* the counters of the iterations in closed form, and their number *)
Theorem C09_loop_counters_up : forall n i, (i < Z.to_nat (Z.max n 1))%nat ->
  nth i (loop_counters true n) 0 = Z.of_nat i.
Proof. exact loop_counters_up. Qed.
Theorem C09_loop_counters_down : forall n i, (i < Z.to_nat (Z.max n 1))%nat ->
  nth i (loop_counters false n) 0 = n - Z.of_nat i.
Proof. exact loop_counters_down. Qed.
Theorem C09_loop_counters_length : forall up n, length (loop_counters up n) = Z.to_nat (Z.max n 1).
Proof. exact loop_counters_length. Qed.
Theorem C09_loop_slots_chain : forall up n b r, i64 n -> chain b r (loop_slots up n b).
Proof. exact chain_loop_slots. Qed.

(* the executed operations are Repeat, then max(n,1) times the body followed by RepeatEnd (most recent first) *)
Theorem C09_loop_trace : forall body k tr,
  loop_tr body k tr = concat (repeat (ORepeatEnd :: rev body) k) ++ tr.
Proof. exact loop_tr_concat. Qed.

(* a straight-line body that succeeds ends at the RepeatEnd and leaves the repeat stack as it was *)
Theorem C09_run_seq_frame : forall E seg, forallb straight_line seg = true -> forall v v1,
  run_seq E seg v = Ok v1 ->
  pc v1 = pc v + zlen seg /\ rstack v1 = rstack v /\ parent_memory v1 = parent_memory v /\ halt v1 = halt v.
Proof. exact run_seq_ok_inv. Qed.

(* ================= when execution ends ================= *)

(* the pc left the program: the state is returned unchanged *)
Theorem C09_exec_ends_end_of_program : forall f E oa limit v spent tr,
  oa (pc v) = None -> exec (S f) E oa limit v spent tr = Ok (v, spent, tr).
Proof. exact exec_end_of_program. Qed.

(* for a program given as a list, that is exactly pc < 0 or pc >= length *)
Theorem C09_exec_ends_outside : forall ops p, p < 0 \/ zlen ops <= p -> op_at ops p = None.
Proof. exact op_at_outside. Qed.

(* Halt: stop with the pc at the Halt *)
Theorem C09_exec_ends_halt : forall f E oa limit v spent tr,
  oa (pc v) = Some OHalt -> gas_ok limit (spent + e_cost E OHalt) ->
  exec (S f) E oa limit v spent tr = Ok (v, spent + e_cost E OHalt, OHalt :: tr).
Proof. exact exec_halt. Qed.

(* HaltIf with condition 1: stop with the pc at the HaltIf, condition popped *)
Theorem C09_exec_ends_halt_if_true : forall f E oa limit v spent tr s,
  oa (pc v) = Some OHaltIf -> gas_ok limit (spent + e_cost E OHaltIf) -> stack v = 1 :: s ->
  exec (S f) E oa limit v spent tr = Ok (set_stack v s, spent + e_cost E OHaltIf, OHaltIf :: tr).
Proof. exact exec_halt_if_true. Qed.

(* HaltIf with condition 0: continue at the next operation *)
Theorem C09_exec_ends_halt_if_false : forall f E oa limit v spent tr s,
  oa (pc v) = Some OHaltIf -> gas_ok limit (spent + e_cost E OHaltIf) -> stack v = 0 :: s ->
  pc v + 1 <= 18446744073709551615 ->
  exec (S f) E oa limit v spent tr =
  exec f E oa limit (set_pc (set_stack v s) (pc v + 1)) (spent + e_cost E OHaltIf) (OHaltIf :: tr).
Proof. exact exec_halt_if_false. Qed.

(* ComputeEnd: stop with the pc after it *)
Theorem C09_exec_ends_compute_end : forall f E oa limit v spent tr,
  oa (pc v) = Some OComputeEnd -> gas_ok limit (spent + e_cost E OComputeEnd) -> pc v + 1 <= 18446744073709551615 ->
  exec (S f) E oa limit v spent tr =
  Ok (set_pc v (pc v + 1), spent + e_cost E OComputeEnd, OComputeEnd :: tr).
Proof. exact exec_compute_end. Qed.

(* a step that asks for the next operation / for a jump / fails *)
Theorem C09_exec_ends_step_next : forall f E oa limit v spent tr o v',
  oa (pc v) = Some o -> o <> OCompute -> gas_ok limit (spent + e_cost E o) ->
  step_basic E o v = Ok (v', CNext) -> pc v' + 1 <= 18446744073709551615 ->
  exec (S f) E oa limit v spent tr = exec f E oa limit (set_pc v' (pc v' + 1)) (spent + e_cost E o) (o :: tr).
Proof. exact exec_step_next. Qed.
Theorem C09_exec_ends_step_jump : forall f E oa limit v spent tr o v' p,
  oa (pc v) = Some o -> o <> OCompute -> gas_ok limit (spent + e_cost E o) ->
  step_basic E o v = Ok (v', CPc p) ->
  exec (S f) E oa limit v spent tr = exec f E oa limit (set_pc v' p) (spent + e_cost E o) (o :: tr).
Proof. exact exec_step_jump. Qed.
Theorem C09_exec_ends_step_err : forall f E oa limit v spent tr o e,
  oa (pc v) = Some o -> o <> OCompute -> gas_ok limit (spent + e_cost E o) ->
  step_basic E o v = Err e ->
  exec (S f) E oa limit v spent tr = Err (pc v, e, v).
Proof. exact exec_step_err. Qed.
Theorem C09_exec_ends_out_of_gas : forall f E oa limit v spent tr o,
  oa (pc v) = Some o -> ~ gas_ok limit (spent + e_cost E o) ->
  exec (S f) E oa limit v spent tr = Err (pc v, EOutOfGas, v).
Proof. exact exec_out_of_gas. Qed.

(* a Compute whose children succeeded: stop if the halt flag is set, else continue at the joined pc *)
Theorem C09_exec_ends_compute_result : forall f E oa limit v spent tr v' p g h ctr,
  oa (pc v) = Some OCompute -> gas_ok limit (spent + e_cost E OCompute) ->
  compute_with (fun cv => exec f E oa (limit - (spent + e_cost E OCompute)) cv 0 []) f
               (limit - (spent + e_cost E OCompute)) v = Ok (v', CComputeResult p g h, ctr) ->
  gas_ok limit (spent + e_cost E OCompute + g) ->
  exec (S f) E oa limit v spent tr =
  let v'' := set_halt (set_pc v' p) (halt v' || h) in
  if halt v' || h then Ok (v'', spent + e_cost E OCompute + g, ctr ++ OCompute :: tr)
  else exec f E oa limit v'' (spent + e_cost E OCompute + g) (ctr ++ OCompute :: tr).
Proof. exact exec_compute_result. Qed.

(* exec returns successfully exactly in these cases *)
Theorem C09_exec_ends_iff : forall f E oa limit v spent tr res,
  exec (S f) E oa limit v spent tr = Ok res <->
  (oa (pc v) = None /\ res = (v, spent, tr)) \/
  (exists o, oa (pc v) = Some o /\ gas_ok limit (spent + e_cost E o) /\
     let next := spent + e_cost E o in
     (   (o <> OCompute /\ exists v', step_basic E o v = Ok (v', CHalt) /\ res = (v', next, o :: tr))
      \/ (o = OComputeEnd /\ pc v + 1 <= 18446744073709551615 /\ res = (set_pc v (pc v + 1), next, o :: tr))
      \/ (o <> OCompute /\ exists v', step_basic E o v = Ok (v', CNext) /\ pc v + 1 <= 18446744073709551615 /\
            exec f E oa limit (set_pc v' (pc v + 1)) next (o :: tr) = Ok res)
      \/ (o <> OCompute /\ exists v' p, step_basic E o v = Ok (v', CPc p) /\
            exec f E oa limit (set_pc v' p) next (o :: tr) = Ok res)
      \/ (o = OCompute /\ exists v' p g h ctr,
            compute_with (fun cv => exec f E oa (limit - next) cv 0 []) f (limit - next) v
              = Ok (v', CComputeResult p g h, ctr) /\
            gas_ok limit (next + g) /\
            let v'' := set_halt (set_pc v' p) (halt v' || h) in
            if halt v' || h then res = (v'', next + g, ctr ++ o :: tr)
            else exec f E oa limit v'' (next + g) (ctr ++ o :: tr) = Ok res))).
Proof. exact exec_ends. Qed.

(* ================= evaluation ================= *)

(* true / false exactly when execution succeeds with 1 / 0 on top; invalid when it succeeds with an empty stack or
   another top word; an error exactly when execution returned that error *)
Theorem C09_eval_spec : forall fuel E ops limit v,
  (eval_ops fuel E ops limit v = EvTrue <->
     exists v' g tr, exec_ops fuel E ops limit v = Ok (v', g, tr) /\ exists s, stack v' = 1 :: s) /\
  (eval_ops fuel E ops limit v = EvFalse <->
     exists v' g tr, exec_ops fuel E ops limit v = Ok (v', g, tr) /\ exists s, stack v' = 0 :: s) /\
  (eval_ops fuel E ops limit v = EvInvalid <->
     exists v' g tr, exec_ops fuel E ops limit v = Ok (v', g, tr) /\
       (stack v' = [] \/ exists w s, stack v' = w :: s /\ w <> 0 /\ w <> 1)) /\
  (forall p e, eval_ops fuel E ops limit v = EvErr p e <-> exists v', exec_ops fuel E ops limit v = Err (p, e, v')) /\
  (eval_ops fuel E ops limit v = EvPanic <-> exists site, exec_ops fuel E ops limit v = Panic site) /\
  (eval_ops fuel E ops limit v = EvFuel <-> exec_ops fuel E ops limit v = OutOfFuel).
Proof. exact eval_spec. Qed.

(* ================= examples ================= *)
(* stacks are shown top first: [2; 1; 0] is 0,1,2 from bottom to top *)

Example C09_ex_jump_back : op_jump_if 5 [1; -3; 7] = Ok ([7], CPc 2).
Proof. vm_compute. reflexivity. Qed.
Example C09_ex_jump_fwd : op_jump_if 5 [1; 3; 7] = Ok ([7], CPc 8).
Proof. vm_compute. reflexivity. Qed.
Example C09_ex_jump_min : op_jump_if 5 [1; -9223372036854775808; 7] = Err EPcOverflow.
Proof. vm_compute. reflexivity. Qed.
Example C09_ex_jump_cond2 : op_jump_if 5 [2; 3; 7] = Err EControl.
Proof. vm_compute. reflexivity. Qed.
Example C09_ex_jump_self : op_jump_if 5 [1; 0; 7] = Err EControl.
Proof. vm_compute. reflexivity. Qed.

(* Repeat 3 upward: the counter values 0,1,2 *)
Example C09_ex_repeat_up :
  final_stack (exec_ops 100 demo_env [OPush 3; OPush 1; ORepeat; ORepeatCounter; ORepeatEnd] 1000 vm0)
  = Some [2; 1; 0].
Proof. vm_compute. reflexivity. Qed.

(* Repeat 3 downward: the counter values 3,2,1 *)
Example C09_ex_repeat_down :
  final_stack (exec_ops 100 demo_env [OPush 3; OPush 0; ORepeat; ORepeatCounter; ORepeatEnd] 1000 vm0)
  = Some [1; 2; 3].
Proof. vm_compute. reflexivity. Qed.

(* n <= 0: one iteration; upward it sees 0, downward it sees n itself *)
Example C09_ex_repeat_zero_up :
  final_stack (exec_ops 100 demo_env [OPush 0; OPush 1; ORepeat; ORepeatCounter; ORepeatEnd] 1000 vm0) = Some [0].
Proof. vm_compute. reflexivity. Qed.
Example C09_ex_repeat_neg_down :
  final_stack (exec_ops 100 demo_env [OPush (-5); OPush 0; ORepeat; ORepeatCounter; ORepeatEnd] 1000 vm0) = Some [-5].
Proof. vm_compute. reflexivity. Qed.

(* nested: outer 2 upward, inner 2 downward; inner counters 2,1 then the outer counter, twice *)
Example C09_ex_repeat_nested :
  final_stack (exec_ops 100 demo_env
    [OPush 2; OPush 1; ORepeat; OPush 2; OPush 0; ORepeat; ORepeatCounter; ORepeatEnd; ORepeatCounter; ORepeatEnd]
    1000 vm0) = Some [1; 1; 2; 0; 1; 2].
Proof. vm_compute. reflexivity. Qed.

(* a backward JumpIf loop counting 3 down to 0; it ends because the pc leaves the program; evaluation gives false *)
Example C09_ex_jump_loop :
  let prog := [OPush 3; OPush 1; OSub; ODup; OPush 0; OEq; ONot; OPush (-8); OSwap; OJumpIf] in
  final_stack (exec_ops 100 demo_env prog 1000 vm0) = Some [0] /\
  final_pc (exec_ops 100 demo_env prog 1000 vm0) = Some 10 /\
  eval_ops 100 demo_env prog 1000 vm0 = EvFalse.
Proof. vm_compute. repeat split; reflexivity. Qed.

(* HaltIf 1 stops with the pc at the HaltIf; the Push after it is not executed *)
Example C09_ex_halt_if :
  final_pc (exec_ops 100 demo_env [OPush 1; OHaltIf; OPush 7] 1000 vm0) = Some 1 /\
  eval_ops 100 demo_env [OPush 1; OHaltIf; OPush 7] 1000 vm0 = EvInvalid /\
  eval_ops 100 demo_env [OPush 1; OPush 1; OHaltIf; OPush 0] 1000 vm0 = EvTrue /\
  eval_ops 100 demo_env [OPush 5] 1000 vm0 = EvInvalid /\
  eval_ops 100 demo_env [OPush 1; OPanicIf] 1000 vm0 = EvErr 1 EControl.
Proof. vm_compute. repeat split; reflexivity. Qed.

(* the hypotheses of the loop theorem hold for a concrete program, and its right-hand side computes *)
Example C09_ex_repeat_program :
  let pre := [OPush 3; OPush 1] in
  let body := [ORepeatCounter; ODup; OAdd] in
  let v := {| pc := 2; stack := [1; 3]; memory := []; parent_memory := []; halt := false; rstack := [] |} in
  forallb straight_line body = true /\
  gas_ok 1000 (2 + e_cost demo_env ORepeat + Z.max 3 1 * (cost_sum demo_env body + e_cost demo_env ORepeatEnd)) /\
  match run_iters demo_env body 3 [] (loop_slots true 3 3) (set_stack v []) with
  | Ok vend => stack vend = [4; 2; 0] /\ pc vend = 6
  | _ => False
  end /\
  final_stack (exec 100 demo_env (op_at (pre ++ ORepeat :: body ++ ORepeatEnd :: [])) 1000 v 2 [])
    = Some [4; 2; 0].
Proof. vm_compute. repeat split; try reflexivity; discriminate. Qed.
