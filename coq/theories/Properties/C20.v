(* C20 - The lock serialises closures: no lost updates under contention.  Statements only.
   Model: Lock/Lock.v (interleaving semantics of `StdLock::apply`; closures are pure functions
   `T -> T * U`, which is how non-reentrant use is modelled: a closure cannot call `apply`).
   All theorems hold for ANY number of threads, any programs, any initial value and any schedule
   (list of thread ids) accepted by `run_schedule`; "reachable state" = result of such a schedule. *)
From Coq Require Import ZArith List Permutation.
From EB Require Import Lock.Lock Lock.MultiLock Proofs.LockProofs Proofs.MultiLockProofs.
Import ListNotations.
Open Scope list_scope.

(* The relational and the executable semantics are the same thing. *)
Theorem C20_step_fn_iff : forall (T U : Type) (s : state T U) t s',
  step_fn s t = Some s' <-> step s t s'.
Proof. exact step_fn_iff. Qed.

(* In every reachable state at most one thread is inside a closure, it is the thread recorded as
   holder, and the value it read is still the protected value (nobody wrote in between). *)
Theorem C20_mutual_exclusion : forall (T U : Type) (v0 : T) (P : list (list (closure T U))) sched s,
  run_schedule (init v0 P) sched = Some s ->
  forall t th snap, nth_error (threads s) t = Some th -> ph th = Holding snap ->
    holder s = Some t /\ snap = data s /\
    forall t' th' snap', nth_error (threads s) t' = Some th' -> ph th' = Holding snap' -> t' = t.
Proof. exact mutual_exclusion. Qed.

(* ... and conversely the recorded holder really is inside a closure. *)
Theorem C20_holder_is_holding : forall (T U : Type) (v0 : T) (P : list (list (closure T U))) sched s h,
  run_schedule (init v0 P) sched = Some s -> holder s = Some h ->
  exists th, nth_error (threads s) h = Some th /\ ph th = Holding (data s).
Proof. exact holder_is_holding. Qed.

(* The log is a serial execution: the protected value is the result of running the logged closures
   one after the other from the initial value, every call saw the value written by the previous
   call (the first: the initial value) and wrote/returned what its closure computes from it. *)
Theorem C20_serialisable : forall (T U : Type) (v0 : T) (P : list (list (closure T U))) sched s,
  run_schedule (init v0 P) sched = Some s ->
  data s = fold_left (fun x e => fst (e_fn e x)) (log s) v0 /\
  serial_chain v0 (log s).
Proof. exact serialisable. Qed.

(* `serial_chain` written out: what a chain says about each entry (every call returns its closure's value). *)
Theorem C20_serial_chain_results : forall (T U : Type) (v : T) (l : list (entry T U)),
  serial_chain v l -> Forall (fun e => e_fn e (e_seen e) = (e_written e, e_result e)) l.
Proof. exact serial_chain_results. Qed.

(* At any time the program of thread t = the closures t has completed, in log order, followed by
   the closures it still has to apply (program order is respected, nothing is skipped or repeated). *)
Theorem C20_program_order : forall (T U : Type) (v0 : T) (P : list (list (closure T U))) sched s t th,
  run_schedule (init v0 P) sched = Some s -> nth_error (threads s) t = Some th ->
  nth t P [] = map e_fn (filter (fun e => Nat.eqb (e_tid e) t) (log s)) ++ prog th.
Proof. exact program_order. Qed.

(* When all programs are finished the executed closures are exactly (as a multiset) all closures of
   all programs, and per thread they appear in program order. *)
Theorem C20_complete_runs_serial : forall (T U : Type) (v0 : T) (P : list (list (closure T U))) sched s,
  run_schedule (init v0 P) sched = Some s -> Forall (fun th => prog th = []) (threads s) ->
  Permutation (map e_fn (log s)) (concat P) /\
  (forall t, map e_fn (filter (fun e => Nat.eqb (e_tid e) t) (log s)) = nth t P []) /\
  length (log s) = length (concat P).
Proof. exact complete_runs_serial. Qed.

(* Counters (every closure is fetch-and-increment): at any time the counter has advanced by the
   number of completed calls and the returned values are init, init+1, ... without repetition. *)
Theorem C20_counter_progress : forall (v0 : Z) (P : list (list (closure Z Z))) sched s,
  (forall p f, In p P -> In f p -> forall x, f x = (x + 1, x)%Z) ->
  run_schedule (init v0 P) sched = Some s ->
  data s = (v0 + Z.of_nat (length (log s)))%Z /\
  NoDup (map e_result (log s)) /\
  map e_result (log s) = map (fun i => (v0 + Z.of_nat i)%Z) (seq 0 (length (log s))).
Proof. exact counter_progress. Qed.

(* No lost update: after all programs finished the counter equals initial + total number of
   increments, and all returned values are pairwise distinct. *)
Theorem C20_no_lost_update_counter : forall (v0 : Z) (P : list (list (closure Z Z))) sched s,
  (forall p f, In p P -> In f p -> forall x, f x = (x + 1, x)%Z) ->
  run_schedule (init v0 P) sched = Some s -> Forall (fun th => prog th = []) (threads s) ->
  data s = (v0 + Z.of_nat (length (concat P)))%Z /\ NoDup (map e_result (log s)).
Proof. exact no_lost_update_counter. Qed.

(* No deadlock: whenever some thread still has a closure to apply or is inside one, some thread can step. *)
Theorem C20_deadlock_free : forall (T U : Type) (v0 : T) (P : list (list (closure T U))) sched s,
  run_schedule (init v0 P) sched = Some s ->
  (exists t th, nth_error (threads s) t = Some th /\ (prog th <> [] \/ exists snap, ph th = Holding snap)) ->
  exists t, step_fn s t <> None.
Proof. exact deadlock_free. Qed.

(* A thread that cannot step has finished its program, or is idle and waits for ANOTHER thread's lock. *)
Theorem C20_blocked_only_by_holder : forall (T U : Type) (v0 : T) (P : list (list (closure T U))) sched s t th,
  run_schedule (init v0 P) sched = Some s -> nth_error (threads s) t = Some th -> step_fn s t = None ->
  prog th = [] \/ (ph th = Idle /\ exists h, holder s = Some h /\ h <> t).
Proof. exact blocked_only_by_holder. Qed.

(* Every partial execution can be continued until all programs are finished. *)
Theorem C20_can_always_complete : forall (T U : Type) (v0 : T) (P : list (list (closure T U))) sched s,
  run_schedule (init v0 P) sched = Some s ->
  exists sched' s', run_schedule (init v0 P) (sched ++ sched') = Some s' /\
                    Forall (fun th => prog th = []) (threads s').
Proof. exact can_always_complete. Qed.

(* History checker used by the Rust harness on records (tid, seen, written) ordered by the global
   sequence number: (1) it decides "each record saw what the previous one wrote (first: init)";
   (2) every log of the model passes; (3) every passing history IS a log of the model, produced by a
   complete sequential run (so the checker accepts exactly the serial histories). *)
Theorem C20_history_checker_sound_complete :
  forall (T U : Type) (T_eqb : T -> T -> bool), (forall a b, T_eqb a b = true <-> a = b) ->
  (forall v (l : list (nat * T * T)),
     check_history T_eqb v l = true <-> hist_chain v l) /\
  (forall (v0 : T) (P : list (list (closure T U))) sched s,
     run_schedule (init v0 P) sched = Some s ->
     check_history T_eqb v0 (map (fun e => (e_tid e, e_seen e, e_written e)) (log s)) = true) /\
  (forall (u : U) n (v0 : T) (l : list (nat * T * T)),
     Forall (fun r => fst (fst r) < n) l -> check_history T_eqb v0 l = true ->
     exists s, run_schedule (init v0 (progs_of_hist T U u n l)) (sched_of_hist T l) = Some s /\
               map (fun e => (e_tid e, e_seen e, e_written e)) (log s) = l /\
               Forall (fun th => prog th = []) (threads s)).
Proof. exact check_history_sound_complete_for_model. Qed.

(* Refutation of the variant without mutual exclusion: two threads, one increment each, the
   schedule acquire0 acquire1 finish0 finish1 ends with counter 1 < 2 and both calls return 0. *)
Theorem C20_broken_variant_loses_update :
  exists sched s, run_broken (init 0%Z two_incr) sched = Some s /\
                  Forall (fun th => prog th = []) (threads s) /\
                  length (concat two_incr) = 2 /\ data s = 1%Z /\ map e_result (log s) = [0%Z; 0%Z].
Proof. exact broken_loses_update. Qed.

(* The real lock rejects that schedule: thread 1 is not enabled while thread 0 holds. *)
Theorem C20_broken_schedule_rejected_by_lock :
  run_schedule (init 0%Z two_incr) [0; 1; 0; 1] = None.
Proof. exact broken_schedule_rejected. Qed.

(* ---------- Examples ---------- *)
Definition three_by_two : list (list (closure Z Z)) := [[incr; incr]; [incr; incr]; [incr; incr]].

(* 3 threads x 2 increments, threads take turns call by call: final value 6, results 0..5 *)
Example ex_round_robin :
  option_map (fun s => (data s, map e_tid (log s), map e_result (log s)))
             (run_schedule (init 0%Z three_by_two) [0;0; 1;1; 2;2; 0;0; 1;1; 2;2])
  = Some (6%Z, [0; 1; 2; 0; 1; 2], [0; 1; 2; 3; 4; 5]%Z).
Proof. vm_compute. reflexivity. Qed.

(* an unfair schedule gives the same total *)
Example ex_unfair :
  option_map (fun s => (data s, map e_tid (log s)))
             (run_schedule (init 10%Z three_by_two) [2;2; 2;2; 0;0; 1;1; 0;0; 1;1])
  = Some (16%Z, [2; 2; 0; 1; 0; 1]).
Proof. vm_compute. reflexivity. Qed.

(* thread 1 tries to acquire while thread 0 holds: the step is not enabled (thread 1 blocks) ... *)
Example ex_blocked : run_schedule (init 0%Z three_by_two) [0; 1] = None.
Proof. reflexivity. Qed.
(* ... while thread 0 itself can go on. *)
Example ex_holder_enabled :
  option_map (fun s => (data s, holder s)) (run_schedule (init 0%Z three_by_two) [0; 0]) = Some (1%Z, None).
Proof. vm_compute. reflexivity. Qed.

(* the hypotheses of the counter theorems are satisfiable *)
Example ex_three_by_two_all_incr : forall p f, In p three_by_two -> In f p -> forall x, f x = (x + 1, x)%Z.
Proof.
  intros p f Hp Hf x. cbn in Hp.
  repeat (destruct Hp as [Hp|Hp]; [subst p; cbn in Hf; repeat (destruct Hf as [Hf|Hf]; [subst f; reflexivity|]); contradiction|]).
  contradiction.
Qed.

(* non-commuting closures of different threads: the result depends on the order but is always a serial one *)
Definition dbl : closure Z Z := fun x => (2 * x, x)%Z.
Example ex_order_matters :
  (option_map (@data Z Z) (run_schedule (init 1%Z [[incr]; [dbl]]) [0;0; 1;1]),
   option_map (@data Z Z) (run_schedule (init 1%Z [[incr]; [dbl]]) [1;1; 0;0]))
  = (Some 4%Z, Some 3%Z).
Proof. vm_compute. reflexivity. Qed.

(* the history checker on harness-style records: a serial history passes, a lost update does not *)
Example ex_check_history_ok :
  check_history Z.eqb 0%Z [(0%nat, 0, 1); (1%nat, 1, 2); (0%nat, 2, 3)]%Z = true.
Proof. reflexivity. Qed.
Example ex_check_history_lost_update :
  check_history Z.eqb 0%Z [(0%nat, 0, 1); (1%nat, 0, 1)]%Z = false.
Proof. reflexivity. Qed.
Example ex_check_history_of_broken_run :
  option_map (fun s => check_history Z.eqb 0%Z (hist_of_log (log s)))
             (run_broken (init 0%Z two_incr) [0; 1; 0; 1]) = Some false.
Proof. vm_compute. reflexivity. Qed.

(* ---------- EXTRA: several locks (model Lock/MultiLock.v) ---------- *)
(* A program item is (lock id, closure).  Seen through lock k (its cell, the calls that name it), every
   reachable state of the many-locks model is a reachable state of the one-lock model started from
   lock k's initial value and the threads' calls on lock k: locks are independent, and every theorem
   above holds for each lock separately.  (`d` is only the default for an out-of-range lock id.) *)
Theorem C20_multi_projects : forall (T U : Type) (d : T) k vs (P : list (list (mclosure T U))) sched s,
  mrun (minit vs P) sched = Some s ->
  exists sched', run_schedule (init (nth k vs d) (map (proj_prog k) P)) sched' = Some (proj d k s).
Proof. exact multi_projects. Qed.

(* Per lock: the calls on lock k form a serial execution from its initial value. *)
Theorem C20_multi_serialisable : forall (T U : Type) (d : T) k vs (P : list (list (mclosure T U))) sched s,
  mrun (minit vs P) sched = Some s ->
  c_data (nth k (cells s) (mkCell d None))
    = fold_left (fun x e => fst (e_fn e x)) (lock_log k (mlog s)) (nth k vs d) /\
  serial_chain (nth k vs d) (lock_log k (mlog s)).
Proof. exact multi_serialisable. Qed.

(* Per lock: a thread inside a closure on lock k is the recorded holder of k, its snapshot is still
   the content of k, and no other thread is inside a closure on k. *)
Theorem C20_multi_mutual_exclusion :
  forall (T U : Type) (d : T) vs (P : list (list (mclosure T U))) sched s t th snap k f rest,
  mrun (minit vs P) sched = Some s ->
  nth_error (mthreads s) t = Some th -> mph th = Holding snap -> mprog th = (k, f) :: rest ->
  c_holder (nth k (cells s) (mkCell d None)) = Some t /\
  snap = c_data (nth k (cells s) (mkCell d None)) /\
  forall t' th' snap' f' rest', nth_error (mthreads s) t' = Some th' -> mph th' = Holding snap' ->
     mprog th' = (k, f') :: rest' -> t' = t.
Proof. exact multi_mutual_exclusion. Qed.

(* Per lock, after all programs finished: the calls on lock k are exactly the programs' calls on k,
   per thread in program order. *)
Theorem C20_multi_complete : forall (T U : Type) (d : T) k vs (P : list (list (mclosure T U))) sched s,
  mrun (minit vs P) sched = Some s -> Forall (fun th => mprog th = []) (mthreads s) ->
  Permutation (map e_fn (lock_log k (mlog s))) (concat (map (proj_prog k) P)) /\
  forall t, map e_fn (filter (fun e => Nat.eqb (e_tid e) t) (lock_log k (mlog s))) = proj_prog k (nth t P []).
Proof. exact multi_complete. Qed.

(* Several counters: each ends at its initial value + the number of increments addressed to it. *)
Theorem C20_multi_no_lost_update_counter :
  forall (d : Z) k vs (P : list (list (mclosure Z Z))) sched s,
  (forall p c, In p P -> In c p -> forall x, snd c x = (x + 1, x)%Z) ->
  mrun (minit vs P) sched = Some s -> Forall (fun th => mprog th = []) (mthreads s) ->
  c_data (nth k (cells s) (mkCell d None))
    = (nth k vs d + Z.of_nat (length (concat (map (proj_prog k) P))))%Z /\
  NoDup (map e_result (lock_log k (mlog s))).
Proof. exact multi_no_lost_update_counter. Qed.

(* No deadlock with several locks (calls never nest): if every named lock exists and some thread
   has work left, some thread can step. *)
Theorem C20_multi_deadlock_free : forall (T U : Type) (d : T) vs (P : list (list (mclosure T U))) sched s,
  (forall p c, In p P -> In c p -> fst c < length vs) ->
  mrun (minit vs P) sched = Some s ->
  (exists t th, nth_error (mthreads s) t = Some th /\
                (mprog th <> [] \/ exists snap, mph th = Holding snap)) ->
  exists t, mstep_fn s t <> None.
Proof. exact multi_deadlock_free. Qed.

(* two locks, two threads visiting them in opposite order; thread 0 stays inside its closure on lock 0
   while thread 1 makes a whole call on lock 1 (closures of different duration overlap on
   different locks), then thread 1 blocks on lock 0 until thread 0 releases it *)
Definition two_locks : list (list (mclosure Z Z)) := [[(0, incr); (1, incr)]; [(1, incr); (0, incr)]].
Example ex_two_locks_overlap :
  option_map (fun s => (map c_data (cells s), map (fun e => (me_lock e, e_tid (me_entry e), e_result (me_entry e))) (mlog s)))
             (mrun (minit [10; 20]%Z two_locks) [0; 1; 1; 0; 1; 1; 0; 0])
  = Some ([12; 22]%Z, [(1, 1, 20%Z); (0, 0, 10%Z); (0, 1, 11%Z); (1, 0, 21%Z)]).
Proof. vm_compute. reflexivity. Qed.
Example ex_two_locks_blocked : mrun (minit [10; 20]%Z two_locks) [0; 1; 1; 1] = None.
Proof. reflexivity. Qed.
