(* Level-by-level evaluation of one predicate graph (core of C01): statements.
   Model: Check/Inner.v (check_predicate_inner).  Reference: Spec/GraphRef.v (value).  Vocabulary: Spec/InnerSpec.v.
   `single_pass run p collect_all` = check_predicate_inner with nothing deferred, mode Outputs and an empty cache.
   `level_sort_ok p pm levels` bundles the ASSUMED facts K1-K3 about create_parent_map / parallel_topo_sort.
   `vals p run v` = the reference value of node v.  "Level order" is the order of `concat levels`.
   All statements about a finished check have the premise `single_pass .. = Ok r`: a Panic / OutOfFuel of a program
   run propagates unchanged; `single_pass_total` says the check returns whenever every program run returns. *)
From Coq Require Import List Arith Lia Bool Permutation ZArith.
From EB Require Import Spec.InnerSpec Proofs.InnerEval.
Import ListNotations.
Open Scope list_scope.
Local Open Scope nat_scope.

(* 1. A graph with malformed edge lists is rejected with the invalid-graph error: cache untouched, no program run. *)
Theorem malformed_rejected_before_any_run :
  forall run p collect_all is_def mode cache ix,
    create_parent_map p = Err (InvalidNodeEdges ix) ->
    check_predicate_inner run p collect_all is_def mode cache
    = Ok {| ir_res := Err (PInvalidNodeEdges ix); ir_cache := cache; ir_events := [] |}.
Proof. exact malformed_parent_map. Qed.

(* 1'. The same when the level sort rejects the graph (a cycle, or malformed edges met during the sort). *)
Theorem cyclic_rejected_before_any_run :
  forall run p collect_all is_def mode cache pm ix,
    create_parent_map p = Ok pm -> parallel_topo_sort p pm = Err (InvalidNodeEdges ix) ->
    check_predicate_inner run p collect_all is_def mode cache
    = Ok {| ir_res := Err (PInvalidNodeEdges ix); ir_cache := cache; ir_events := [] |}.
Proof. exact malformed_topo_sort. Qed.

(* If every program run returns a result, the check returns a result (no Panic / OutOfFuel of its own). *)
Theorem single_pass_total :
  forall run p collect_all pm levels,
    (forall ix leaf ins, exists res, run ix leaf ins = Ok res) ->
    create_parent_map p = Ok pm -> parallel_topo_sort p pm = Ok levels ->
    exists r, single_pass run p collect_all = Ok r.
Proof. exact single_pass_total. Qed.

(* 2-. Whatever the programs return: the run events are the nodes of a prefix of the levels, in level order (so no
   node is run twice); all levels are run unless the check stopped at the first failure. *)
Theorem events_follow_levels :
  forall run p collect_all pm levels r,
    create_parent_map p = Ok pm -> parallel_topo_sort p pm = Ok levels ->
    single_pass run p collect_all = Ok r ->
    exists done rest, levels = done ++ rest /\ map fst (ir_events r) = concat done /\
                      (no_program_failed (ir_res r) \/ collect_all = true -> rest = []).
Proof. exact events_follow_levels_l. Qed.

(* 2a. When no program failed, every node was run exactly once, in level order, after all of its parents. *)
Theorem each_node_once_after_parents :
  forall run p collect_all pm levels r,
    create_parent_map p = Ok pm -> parallel_topo_sort p pm = Ok levels ->
    single_pass run p collect_all = Ok r ->
    level_sort_ok p pm levels ->
    no_program_failed (ir_res r) ->
    map fst (ir_events r) = concat levels /\
    NoDup (map fst (ir_events r)) /\
    Permutation (map fst (ir_events r)) (seq 0 (length (p_nodes p))) /\
    forall pre v ins post, ir_events r = pre ++ (v, ins) :: post ->
                           forall u, In u (parents_ref p v) -> In u (map fst pre).
Proof. exact each_node_once_after_parents_l. Qed.

(* 2b. When no program failed, the inputs of every run are exactly the (stack, memory) outputs of the node's parents,
   in ascending parent order, once per edge; every parent was run as a non-leaf and produced such an output. *)
Theorem inputs_are_parent_outputs :
  forall run p collect_all pm levels r,
    create_parent_map p = Ok pm -> parallel_topo_sort p pm = Ok levels -> level_sort_ok p pm levels ->
    run_respects_leaf run ->
    single_pass run p collect_all = Ok r ->
    no_program_failed (ir_res r) ->
    forall v ins, In (v, ins) (ir_events r) ->
      ins = flat_map (fun u => opt_list (out_of_events run p (ir_events r) u)) (parents_ref p v) /\
      forall u, In u (parents_ref p v) ->
                is_leaf p u = false /\ exists o, out_of_events run p (ir_events r) u = Some o.
Proof. exact inputs_are_parent_outputs_l. Qed.

(* 2c-i. The check succeeds exactly when, in the reference, every node runs without failing and every leaf
   ends with 1 or with a data output. *)
Theorem inner_equals_reference_ok :
  forall run p collect_all pm levels r,
    create_parent_map p = Ok pm -> parallel_topo_sort p pm = Ok levels -> level_sort_ok p pm levels ->
    run_respects_leaf run ->
    single_pass run p collect_all = Ok r ->
    ((exists gas data, ir_res r = Ok (gas, data)) <->
     (forall v, v < length (p_nodes p) -> good_val (vals p run v))).
Proof. exact inner_ok_iff_l. Qed.

(* 2c-ii. On success the gas is the saturating sum of the reference gas of all nodes in level order, and the
   data outputs are the memories of the data-output leaves in level order. *)
Theorem inner_equals_reference_ok_values :
  forall run p collect_all pm levels r,
    create_parent_map p = Ok pm -> parallel_topo_sort p pm = Ok levels -> level_sort_ok p pm levels ->
    run_respects_leaf run ->
    single_pass run p collect_all = Ok r ->
    forall gas data, ir_res r = Ok (gas, data) ->
      gas = fold_left (fun a v => gas_add a (vals p run v)) (concat levels) 0%Z /\
      data = flat_map (fun v => data_of (vals p run v)) (concat levels).
Proof. exact inner_ok_values_l. Qed.

(* 2c-iii. "Constraints unsatisfied" means: in the reference every node ran without failing, and the reported
   nodes are exactly the leaves that ended with 0 (anything but 1 / data), in level order; there is at least one. *)
Theorem inner_equals_reference_unsatisfied :
  forall run p collect_all pm levels r,
    create_parent_map p = Ok pm -> parallel_topo_sort p pm = Ok levels -> level_sort_ok p pm levels ->
    run_respects_leaf run ->
    single_pass run p collect_all = Ok r ->
    forall us, ir_res r = Err (PConstraintsUnsatisfied us) ->
      (forall v, v < length (p_nodes p) -> ran_ok (vals p run v)) /\
      us <> [] /\
      us = flat_map (fun v => unsat_of v (vals p run v)) (concat levels).
Proof. exact inner_unsat_l. Qed.

(* 2c-iv. "Program errors" means: the FIRST reported node f is the first node in level order whose program fails in
   the reference (on complete inputs; all nodes before it ran without failing).  Without collect_all it is the only
   one reported.  (With collect_all the further entries come from runs on possibly incomplete inputs, see the
   example `diamond_collect_all_runs_on_partial_inputs` below; nothing is claimed about them.) *)
Theorem inner_equals_reference_failed :
  forall run p collect_all pm levels r,
    create_parent_map p = Ok pm -> parallel_topo_sort p pm = Ok levels -> level_sort_ok p pm levels ->
    run_respects_leaf run ->
    single_pass run p collect_all = Ok r ->
    forall failed, ir_res r = Err (PProgramErrors failed) ->
      exists f tl pre post,
        failed = f :: tl /\ concat levels = pre ++ f :: post /\
        (forall v, In v pre -> ran_ok (vals p run v)) /\
        vals p run f = Ok NVFail /\
        (collect_all = false -> tl = []).
Proof. exact inner_failed_l. Qed.

(* The single pass without deferral never writes to the shared cache. *)
Theorem single_pass_leaves_cache_empty :
  forall run p collect_all pm levels r,
    create_parent_map p = Ok pm -> parallel_topo_sort p pm = Ok levels -> level_sort_ok p pm levels ->
    run_respects_leaf run ->
    single_pass run p collect_all = Ok r -> ir_cache r = [].
Proof. exact single_pass_cache_l. Qed.

(* ------------------------------------------------------------------------------------------ *)
(* Examples *)

(* toy programs: a failing node fails; a leaf is satisfied; any other node pushes its own index on top of the
   concatenation of its input stacks.  Gas 1 each. *)
Definition toy_run (fail : nat -> bool) (ix : nat) (leaf : bool) (ins : list sm) : outcome unit prog_res :=
  if fail ix then Ok PFail
  else if leaf then Ok (PRun (OutLeaf (Satisfied true)) 1%Z)
  else Ok (PRun (OutParent (flat_map fst ins ++ [Z.of_nat ix]) []) 1%Z).
Definition no_fail (ix : nat) : bool := false.

Definition nd (start : Z) : node := {| n_edge_start := start; n_program := [] |}.
Definition leaf_nd : node := nd 65535.

(* 0 -> {1,2} -> 3 *)
Definition diamond : predicate := {| p_nodes := [nd 0; nd 2; nd 3; leaf_nd]; p_edges := [1; 2; 3; 3]%Z |}.
(* 2 -> 1 -> 0 *)
Definition chain210 : predicate := {| p_nodes := [leaf_nd; nd 0; nd 1]; p_edges := [0; 1]%Z |}.
(* 0 -> 1 -> 0 *)
Definition cycle01 : predicate := {| p_nodes := [nd 0; nd 1]; p_edges := [1; 0]%Z |}.
(* the edge list of node 0 starts beyond the end of the edges *)
Definition bad_edges : predicate := {| p_nodes := [nd 5]; p_edges := [] |}.

Example diamond_levels :
  exists pm, create_parent_map diamond = Ok pm /\ parallel_topo_sort diamond pm = Ok [[0]; [1; 2]; [3]].
Proof. eexists. split; vm_compute; reflexivity. Qed.

Example diamond_run :
  single_pass (toy_run no_fail) diamond false
  = Ok {| ir_res := Ok (4%Z, []); ir_cache := [];
          ir_events := [ (0, []); (1, [([0%Z], [])]); (2, [([0%Z], [])]);
                         (3, [([0; 1]%Z, []); ([0; 2]%Z, [])]) ] |}.
Proof. vm_compute. reflexivity. Qed.

Example chain210_run :
  single_pass (toy_run no_fail) chain210 false
  = Ok {| ir_res := Ok (3%Z, []); ir_cache := [];
          ir_events := [ (2, []); (1, [([2%Z], [])]); (0, [([2; 1]%Z, [])]) ] |}.
Proof. vm_compute. reflexivity. Qed.

(* node 1 fails, collect_all = false: its level [1;2] is still run completely, node 3 is not run *)
Example diamond_fail_first :
  single_pass (toy_run (Nat.eqb 1)) diamond false
  = Ok {| ir_res := Err (PProgramErrors [1]); ir_cache := [];
          ir_events := [ (0, []); (1, [([0%Z], [])]); (2, [([0%Z], [])]) ] |}.
Proof. vm_compute. reflexivity. Qed.

(* node 1 fails, collect_all = true: node 3 is run on the output of node 2 alone *)
Example diamond_fail_collect_all :
  single_pass (toy_run (Nat.eqb 1)) diamond true
  = Ok {| ir_res := Err (PProgramErrors [1]); ir_cache := [];
          ir_events := [ (0, []); (1, [([0%Z], [])]); (2, [([0%Z], [])]); (3, [([0; 2]%Z, [])]) ] |}.
Proof. vm_compute. reflexivity. Qed.

(* a leaf that insists on two inputs: with collect_all it is reported as failed although the reference never runs it *)
Definition strict_run (ix : nat) (leaf : bool) (ins : list sm) : outcome unit prog_res :=
  if leaf && negb (Nat.eqb (length ins) 2) then Ok PFail else toy_run (Nat.eqb 1) ix leaf ins.
Example diamond_collect_all_runs_on_partial_inputs :
  match single_pass strict_run diamond true with Ok r => ir_res r = Err (PProgramErrors [1; 3]) | _ => False end /\
  vals diamond strict_run 1 = Ok NVFail /\ vals diamond strict_run 3 = Ok NVSkipped.
Proof. vm_compute. auto. Qed.

(* a three-node chain with a failing middle node, both settings of collect_all *)
Definition chain012 : predicate := {| p_nodes := [nd 0; nd 1; leaf_nd]; p_edges := [1; 2]%Z |}.
Example chain_fail_middle :
  single_pass (toy_run (Nat.eqb 1)) chain012 false
  = Ok {| ir_res := Err (PProgramErrors [1]); ir_cache := []; ir_events := [ (0, []); (1, [([0%Z], [])]) ] |} /\
  single_pass (toy_run (Nat.eqb 1)) chain012 true
  = Ok {| ir_res := Err (PProgramErrors [1]); ir_cache := [];
          ir_events := [ (0, []); (1, [([0%Z], [])]); (2, []) ] |}.
Proof. split; vm_compute; reflexivity. Qed.

(* rejected graphs: no event, cache handed back unchanged *)
Example cycle_rejected :
  check_predicate_inner (toy_run no_fail) cycle01 false (fun _ => false) Outputs [(7, ([1%Z], []))]
  = Ok {| ir_res := Err (PInvalidNodeEdges 0); ir_cache := [(7, ([1%Z], []))]; ir_events := [] |}.
Proof. vm_compute. reflexivity. Qed.
Example bad_edges_rejected :
  create_parent_map bad_edges = Err (InvalidNodeEdges 0) /\
  check_predicate_inner (toy_run no_fail) bad_edges true (fun _ => false) Checks []
  = Ok {| ir_res := Err (PInvalidNodeEdges 0); ir_cache := []; ir_events := [] |}.
Proof. split; vm_compute; reflexivity. Qed.

(* the hypotheses of the theorems are satisfiable: the diamond with its computed parent map and levels *)
Example diamond_level_sort_ok :
  level_sort_ok diamond [(0, []); (1, [0]); (2, [0]); (3, [1; 2])] [[0]; [1; 2]; [3]] /\
  create_parent_map diamond = Ok [(0, []); (1, [0]); (2, [0]); (3, [1; 2])] /\
  run_respects_leaf (toy_run no_fail).
Proof.
  split; [|split; [vm_compute; reflexivity|]].
  - constructor.
    + simpl. repeat constructor; simpl; intuition discriminate.
    + intros v. simpl. lia.
    + intros u v [Hu Hin] Hv. simpl in Hu.
      destruct u as [|[|[|[|u]]]]; try lia; vm_compute in Hin.
      * exists 0, 1. simpl. intuition.
      * exists 1, 2. simpl. intuition.
      * exists 1, 2. simpl. intuition.
      * contradiction.
    + intros v Hv. simpl in Hv. destruct v as [|[|[|[|v]]]]; try lia; vm_compute; reflexivity.
  - intros ix ins g o. unfold toy_run, no_fail. discriminate.
Qed.
