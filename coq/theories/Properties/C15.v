(* C15 - Effect analysis reports exactly the effects a program contains.  Statements only. *)
From EB Require Import Asm.Effects Proofs.EffectsProofs.
Open Scope list_scope.
Open Scope Z_scope.

(* The flag values in the Rust source are the documented ones. *)
Theorem C15_flags_documented :
  (fx_key_range, fx_key_range_extern, fx_this_address, fx_this_contract_address, fx_post_key_range, fx_post_key_range_extern)
  = (1, 2, 4, 8, 16, 32).
Proof. exact flags_documented. Qed.

(* The op-level analysis returns exactly the union of the effects of the operations. *)
Theorem C15_analyze_exact : forall ops, analyze ops = effects_spec ops.
Proof. exact analyze_exact. Qed.

(* For well-formed bytecode and each of the 64 effect subsets the byte-level query answers true exactly
   when the parsed program contains an operation with one of those effects (immediates never count,
   nothing after a Push is skipped). *)
Theorem C15_bytes_contains_any_exact : forall ops fl,
  Forall well_formed_op ops -> 0 <= fl < 64 ->
  bytes_contains_any (to_bytes ops) fl = existsb (has_effect fl) ops.
Proof. exact bytes_contains_any_exact. Qed.

(* The two analyses agree. *)
Theorem C15_byte_and_op_level_agree : forall ops fl,
  Forall well_formed_op ops -> 0 <= fl < 64 ->
  bytes_contains_any (to_bytes ops) fl = negb (Z.land fl (analyze ops) =? 0).
Proof.
  intros ops fl H Hfl. rewrite (bytes_contains_any_exact ops fl H Hfl), analyze_exact.
  exact (has_effect_existsb_spec ops fl Hfl).
Qed.

(* The report is a union: it is compositional under concatenation, independent of the order of the
   operations, never leaves the six documented flags, and is empty exactly for effect-free programs. *)
Theorem C15_analyze_app : forall a b, analyze (a ++ b) = Z.lor (analyze a) (analyze b).
Proof. exact analyze_app. Qed.
Theorem C15_analyze_order_independent : forall a b, Permutation.Permutation a b -> analyze a = analyze b.
Proof. exact analyze_perm. Qed.
Theorem C15_analyze_range : forall ops, 0 <= analyze ops < 64.
Proof. exact analyze_range. Qed.
Theorem C15_analyze_zero_iff : forall ops, analyze ops = 0 <-> Forall (fun o => effect_of o = 0) ops.
Proof. exact analyze_zero_iff. Qed.

(* The byte-level query composes as well: nothing leaks across the boundary of two serialised programs. *)
Theorem C15_bytes_contains_any_concat : forall a b fl,
  Forall well_formed_op a -> Forall well_formed_op b -> 0 <= fl < 64 ->
  bytes_contains_any (to_bytes a ++ to_bytes b) fl =
  (bytes_contains_any (to_bytes a) fl || bytes_contains_any (to_bytes b) fl)%bool.
Proof. exact bytes_contains_any_concat. Qed.

(* Non-vacuity: an immediate made of post-read opcode bytes does not count, a real op after it does. *)
Example C15_example :
  bytes_contains_any (to_bytes [OPush (-9042521604759584126); OPop]) 48 = false /\
  bytes_contains_any (to_bytes [OPush (-9042521604759584126); OPostKeyRange]) 48 = true.
Proof. vm_compute. split; reflexivity. Qed.
