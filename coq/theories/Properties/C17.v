(* C17 - Content addresses: order independence, injective pre-hash encodings, helpers agree.  Statements only.
   H is an arbitrary function standing for SHA-256 (bytes -> 32 bytes); nothing is assumed about it except,
   where stated, that its output has 32 bytes.
   Vocabulary (Hash/Addr.v): *_preimage = the bytes fed to SHA-256; (Proofs/PostcardProofs.v): wf_solution =
   what a Rust `Solution` always satisfies (32-byte addresses, i64 words, lengths < 2^64), dec_* = decoders
   for the postcard encodings. *)
From Coq Require Import ZArith List Permutation Sorted.
From EB Require Import Hash.Addr Spec.PredicateSpec Proofs.AddrProofs Proofs.PostcardProofs Proofs.AddrPredicate.
Import ListNotations.
Open Scope list_scope.
Open Scope Z_scope.

(* ---- sorting (`sort()` on [u8; 32]) ---- *)

(* Sorting permutes. *)
Theorem C17_sort_addrs_perm : forall l, Permutation l (sort_addrs l).
Proof. exact sort_addrs_perm. Qed.

(* The result is sorted for the lexicographic byte order. *)
Theorem C17_sort_addrs_sorted : forall l, StronglySorted (fun a b => bytes_leb a b = true) (sort_addrs l).
Proof. exact sort_addrs_sorted. Qed.

(* The byte order is a total preorder, antisymmetric on lists of equal length. *)
Theorem C17_bytes_leb_order :
  (forall a, bytes_leb a a = true) /\
  (forall a b, bytes_leb a b = true \/ bytes_leb b a = true) /\
  (forall a b c, bytes_leb a b = true -> bytes_leb b c = true -> bytes_leb a c = true) /\
  (forall a b, bytes_leb a b = true -> bytes_leb b a = true -> length a = length b -> a = b).
Proof. exact (conj bytes_leb_refl (conj bytes_leb_total (conj bytes_leb_trans bytes_leb_antisym))). Qed.

(* The sorted list only depends on the multiset of addresses. *)
Theorem C17_sort_addrs_canonical : forall l l',
  Permutation l l' -> Forall (fun a => length a = 32%nat) l -> sort_addrs l = sort_addrs l'.
Proof. exact sort_addrs_canonical. Qed.

(* ---- order independence ---- *)

(* Reordering the predicates of a contract changes neither the hashed bytes nor the address. *)
Theorem C17_contract_addr_perm : forall (H : list Z -> list Z) ps ps' salt,
  Permutation ps ps' -> (forall bs, length (H bs) = 32%nat) ->
  contract_preimage H ps salt = contract_preimage H ps' salt /\
  contract_addr H ps salt = contract_addr H ps' salt.
Proof. exact contract_addr_perm. Qed.

(* Reordering the solutions of a set changes neither the hashed bytes nor the address. *)
Theorem C17_set_addr_perm : forall (H : list Z -> list Z) sols sols',
  Permutation sols sols' -> (forall bs, length (H bs) = 32%nat) ->
  set_preimage H sols = set_preimage H sols' /\ set_addr H sols = set_addr H sols'.
Proof. exact set_addr_perm. Qed.

(* Same, without any assumption on H (the order is total on all byte lists). *)
Theorem C17_contract_preimage_perm_any_H : forall (H : list Z -> list Z) ps ps' salt,
  Permutation ps ps' -> contract_preimage H ps salt = contract_preimage H ps' salt.
Proof. exact contract_preimage_perm. Qed.
Theorem C17_set_preimage_perm_any_H : forall (H : list Z -> list Z) sols sols',
  Permutation sols sols' -> set_preimage H sols = set_preimage H sols'.
Proof. exact set_preimage_perm. Qed.

(* ---- injectivity of the hashed bytes (multiset) ---- *)

(* from_predicate_addrs: the hashed bytes determine the multiset of 32-byte addresses and the salt. *)
Theorem C17_contract_preimage_of_addrs_injective : forall l l' salt salt',
  Forall (fun a => length a = 32%nat) l -> Forall (fun a => length a = 32%nat) l' ->
  length salt = 32%nat -> length salt' = 32%nat ->
  contract_preimage_of_addrs l salt = contract_preimage_of_addrs l' salt' ->
  Permutation l l' /\ salt = salt'.
Proof. exact contract_preimage_of_addrs_injective. Qed.

(* from_solution_addrs: the hashed bytes determine the multiset of 32-byte addresses. *)
Theorem C17_set_preimage_of_addrs_injective : forall l l',
  Forall (fun a => length a = 32%nat) l -> Forall (fun a => length a = 32%nat) l' ->
  set_preimage_of_addrs l = set_preimage_of_addrs l' -> Permutation l l'.
Proof. exact set_preimage_of_addrs_injective. Qed.

(* Two contracts with the same hashed bytes have the same multiset of predicate addresses and the same salt. *)
Theorem C17_contract_preimage_injective_multiset : forall (H : list Z -> list Z) ps ps' salt salt',
  (forall bs, length (H bs) = 32%nat) -> length salt = 32%nat -> length salt' = 32%nat ->
  contract_preimage H ps salt = contract_preimage H ps' salt' ->
  Permutation (map (predicate_addr H) ps) (map (predicate_addr H) ps') /\ salt = salt'.
Proof. exact contract_preimage_injective_multiset. Qed.

(* Two solution sets with the same hashed bytes have the same multiset of solution addresses. *)
Theorem C17_set_preimage_injective_multiset : forall (H : list Z -> list Z) sols sols',
  (forall bs, length (H bs) = 32%nat) ->
  set_preimage H sols = set_preimage H sols' ->
  Permutation (map (solution_addr H) sols) (map (solution_addr H) sols').
Proof. exact set_preimage_injective_multiset. Qed.

(* If moreover H has no collisions, contracts made of valid predicates (well formed, encodable) with the same
   hashed bytes have the same predicates up to order and the same salt. *)
Theorem C17_contract_preimage_injective_preds : forall (H : list Z -> list Z),
  (forall a b, H a = H b -> a = b) ->
  forall ps ps' salt salt',
  (forall bs, length (H bs) = 32%nat) -> length salt = 32%nat -> length salt' = 32%nat ->
  Forall (fun p => wf_pred p /\ exists bs, encode_predicate p = Ok bs) ps ->
  Forall (fun p => wf_pred p /\ exists bs, encode_predicate p = Ok bs) ps' ->
  contract_preimage H ps salt = contract_preimage H ps' salt' ->
  Permutation ps ps' /\ salt = salt'.
Proof. exact contract_preimage_injective_preds_closed. Qed.

(* ---- postcard (what is hashed for a solution) ---- *)

(* A varint decodes back to the number and leaves the rest of the input untouched (self-delimiting). *)
Theorem C17_varint_roundtrip : forall n rest,
  0 <= n < 2 ^ 64 -> varint_dec 10 (varint n ++ rest) = Some (n, rest).
Proof. exact varint_roundtrip. Qed.

(* A varint has at most 10 bytes. *)
Theorem C17_varint_length : forall n, (length (varint n) <= 10)%nat.
Proof. exact varint_length. Qed.

(* Zig-zag maps i64 into u64 and is inverted by unzigzag. *)
Theorem C17_zigzag_roundtrip : forall z, i64 z -> unzigzag (zigzag z) = z /\ 0 <= zigzag z < 2 ^ 64.
Proof. exact zigzag_roundtrip. Qed.

(* A serialised solution decodes back to the solution and leaves the rest of the input untouched. *)
Theorem C17_dec_solution_roundtrip : forall s rest,
  wf_solution s -> dec_solution (pc_solution s ++ rest) = Some (s, rest).
Proof. exact dec_solution_roundtrip. Qed.

(* Different solutions are hashed from different bytes. *)
Theorem C17_solution_preimage_injective : forall s s',
  wf_solution s -> wf_solution s' -> pc_solution s = pc_solution s' -> s = s'.
Proof. exact solution_preimage_injective. Qed.

(* ---- predicates and programs ---- *)

(* What is hashed for a predicate is exactly its binary encoding (none if it cannot be encoded). *)
Theorem C17_predicate_preimage_is_encoding : forall p bs,
  predicate_preimage p = Some bs <-> encode_predicate p = Ok bs.
Proof. exact predicate_preimage_is_encoding. Qed.

(* The address of an encodable predicate is the hash of its encoding. *)
Theorem C17_predicate_addr_is_hash_of_encoding : forall (H : list Z -> list Z) p bs,
  encode_predicate p = Ok bs -> predicate_addr H p = H bs.
Proof. exact predicate_addr_is_hash_of_encoding. Qed.

(* Different predicates are hashed from different bytes (given injectivity of the codec as a premise). *)
Theorem C17_predicate_preimage_injective :
  (forall p q bs, wf_pred p -> wf_pred q -> encode_predicate p = Ok bs -> encode_predicate q = Ok bs -> p = q) ->
  forall p q bs, wf_pred p -> wf_pred q ->
    predicate_preimage p = Some bs -> predicate_preimage q = Some bs -> p = q.
Proof. exact predicate_preimage_injective. Qed.

(* Same with the premise discharged by the codec proof. *)
Theorem C17_predicate_preimage_injective_closed : forall p q bs,
  wf_pred p -> wf_pred q -> predicate_preimage p = Some bs -> predicate_preimage q = Some bs -> p = q.
Proof. exact predicate_preimage_injective_closed. Qed.

(* The reported encoded size is the length of the hashed bytes. *)
Theorem C17_predicate_preimage_size : forall p bs,
  wf_pred p -> predicate_preimage p = Some bs ->
  predicate_encoded_size p = zlen bs /\ zlen bs = 34 * zlen (p_nodes p) + 2 * zlen (p_edges p) + 4.
Proof. exact predicate_preimage_size. Qed.

(* A program's address is the hash of its bytes as they are. *)
Theorem C17_program_preimage : forall (H : list Z -> list Z) b, program_addr H b = H b.
Proof. exact program_preimage. Qed.

(* ---- the shorthands agree with the from-addresses helpers ---- *)

Theorem C17_helpers_agree : forall (H : list Z -> list Z) ps salt sols,
  contract_addr H ps salt = H (contract_preimage_of_addrs (map (predicate_addr H) ps) salt) /\
  set_addr H sols = H (set_preimage_of_addrs (map (solution_addr H) sols)).
Proof. exact helpers_agree. Qed.

(* A predicate that cannot be encoded gets the all-zero address. *)
Theorem C17_invalid_predicate_addr_zero : forall (H : list Z -> list Z) p e,
  encode_predicate p = Err e -> predicate_addr H p = repeat 0 32.
Proof. exact invalid_predicate_addr_zero. Qed.

(* Consequently all unencodable predicates (more than 1000 nodes or edges) share one address: for them the
   address does NOT depend on the predicate (nothing is hashed). *)
Theorem C17_invalid_predicates_collide : forall (H : list Z -> list Z) p q e e',
  encode_predicate p = Err e -> encode_predicate q = Err e' -> predicate_addr H p = predicate_addr H q.
Proof. exact invalid_predicates_collide. Qed.

(* ---- examples ---- *)

Example C17_ex_varint_300 : varint 300 = [172; 2].
Proof. vm_compute. reflexivity. Qed.
Example C17_ex_varint_max : varint (2 ^ 64 - 1) = [255; 255; 255; 255; 255; 255; 255; 255; 255; 1].
Proof. vm_compute. reflexivity. Qed.
Example C17_ex_i64_minus_one : pc_i64 (-1) = [1].
Proof. vm_compute. reflexivity. Qed.
Example C17_ex_i64_min : pc_i64 i64_min = [255; 255; 255; 255; 255; 255; 255; 255; 255; 1] /\ length (pc_i64 i64_min) = 10%nat.
Proof. vm_compute. split; reflexivity. Qed.
Example C17_ex_i64_max : pc_i64 i64_max = [254; 255; 255; 255; 255; 255; 255; 255; 255; 1].
Proof. vm_compute. reflexivity. Qed.

Definition C17_ex_solution : solution :=
  {| sol_contract := repeat 1 32; sol_predicate := repeat 2 32; sol_data := [[1; -1]; []];
     sol_muts := [ {| m_key := [0]; m_value := [300; -300] |} ] |}.
Example C17_ex_solution_wf : wf_solution C17_ex_solution.
Proof.
  unfold wf_solution, wf_address, wf_mutation, wf_words, C17_ex_solution, i64, byte; cbn -[Z.pow].
  repeat match goal with
         | |- _ /\ _ => split
         | |- Forall _ _ => constructor
         | |- _ = _ => reflexivity
         | |- _ < _ => reflexivity
         | |- _ <= _ => discriminate
         end.
Qed.
Example C17_ex_pc_solution :
  pc_solution C17_ex_solution =
    [32] ++ repeat 1 32 ++ [32] ++ repeat 2 32 ++ [2; 2; 2; 1; 0] ++ [1; 1; 0; 2; 216; 4; 215; 4].
Proof. vm_compute. reflexivity. Qed.
Example C17_ex_dec_solution : dec_solution (pc_solution C17_ex_solution ++ [7]) = Some (C17_ex_solution, [7]).
Proof. vm_compute. reflexivity. Qed.

Example C17_ex_sort :
  sort_addrs [repeat 2 32; 1 :: repeat 255 31; repeat 1 32] = [repeat 1 32; 1 :: repeat 255 31; repeat 2 32].
Proof. vm_compute. reflexivity. Qed.

(* with a toy "hash" (first 32 bytes, zero padded) the address of a contract ignores the order of its predicates
   and an oversized predicate gets the zero address *)
Definition C17_ex_H (bs : list Z) : list Z := firstn 32 (bs ++ repeat 0 32).
Definition C17_ex_p1 : predicate := {| p_nodes := [ {| n_edge_start := 65535; n_program := repeat 7 32 |} ]; p_edges := [] |}.
Definition C17_ex_p2 : predicate := {| p_nodes := []; p_edges := [] |}.
Example C17_ex_contract :
  contract_addr C17_ex_H [C17_ex_p1; C17_ex_p2] (repeat 9 32) = contract_addr C17_ex_H [C17_ex_p2; C17_ex_p1] (repeat 9 32)
  /\ contract_preimage C17_ex_H [C17_ex_p1; C17_ex_p2] (repeat 9 32)
     = [0; 0; 0; 0] ++ repeat 0 28 ++ [0; 1; 255; 255] ++ repeat 7 28 ++ repeat 9 32.
Proof. vm_compute. split; reflexivity. Qed.

(* two different oversized predicates: same (zero) address whatever H is *)
Example C17_ex_invalid_collide : forall H : list Z -> list Z,
  let p := {| p_nodes := []; p_edges := repeat 0 1001 |} in
  let q := {| p_nodes := []; p_edges := repeat 1 1002 |} in
  encode_predicate p = Err TooManyEdges /\ encode_predicate q = Err TooManyEdges /\
  predicate_addr H p = repeat 0 32 /\ predicate_addr H q = repeat 0 32.
Proof. intros H. vm_compute. repeat split; reflexivity. Qed.
