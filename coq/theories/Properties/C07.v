(* C07 - Gas is accounted exactly and the total limit is never exceeded.
   This file contains statements only; every proof is `exact <lemma from Proofs/Gas.v>`.
   `exec fuel E oa limit v spent tr` is the model of `Vm::exec` (Vm/Exec.v): it returns the final machine,
   the gas spent and the list of executed operations (most recent first, operations executed by Compute
   children spliced in); `sum_costs E l` is the sum of `e_cost E o` over `l`. *)
From Coq Require Import ZArith List Lia Bool.
From EB Require Import Vm.Exec Proofs.NoFuel Proofs.Gas.
Open Scope list_scope.
Open Scope Z_scope.

(* A successful execution only adds operations to the trace, and the gas it reports is what had been spent
   before plus exactly the sum of the costs of the added operations, children of Compute included.
   (No assumption on the cost function is needed.) *)
Theorem C07_gas_is_sum_of_costs : forall E oa fuel limit v spent tr v' g tr',
  exec fuel E oa limit v spent tr = Ok (v', g, tr') ->
  exists new, tr' = new ++ tr /\ g = spent + sum_costs E new.
Proof. exact exec_gas_is_sum. Qed.

(* The same for a whole program started with nothing spent: the gas is the sum over all executed operations. *)
Theorem C07_gas_is_sum_of_costs_program : forall E fuel ops limit v v' g tr,
  exec_ops fuel E ops limit v = Ok (v', g, tr) -> g = sum_costs E tr.
Proof. exact exec_ops_gas. Qed.

(* With a flat price c per operation the reported gas is c times the number of executed operations. *)
Theorem C07_gas_counts_ops_at_flat_price : forall E c fuel ops limit v v' g tr,
  (forall o, e_cost E o = c) -> exec_ops fuel E ops limit v = Ok (v', g, tr) -> g = c * zlen tr.
Proof. exact exec_ops_gas_flat. Qed.
(* The sum is monotone in the price list: the same executed operations never cost less under higher prices. *)
Theorem C07_sum_costs_monotone : forall E E' l,
  (forall o, e_cost E o <= e_cost E' o) -> sum_costs E l <= sum_costs E' l.
Proof. exact sum_costs_mono. Qed.

(* Inside a Compute: the gas the parent is charged for its children is the sum of the costs of the operations
   the children executed, whatever runs the children, provided each child reports its own sum. *)
Theorem C07_compute_gas_is_sum_of_children : forall E run f climit v v' c ctr,
  (forall cv cv' cg t, run cv = Ok (cv', cg, t) -> cg = sum_costs E t) ->
  compute_with run f climit v = Ok (v', c, ctr) ->
  exists p g h, c = CComputeResult p g h /\ g = sum_costs E ctr /\
                ((forall o, 0 <= e_cost E o) -> 0 <= climit -> 0 <= g <= climit).
Proof. exact compute_with_gas. Qed.

(* With non-negative costs the reported gas lies between what was already spent and the limit. *)
Theorem C07_gas_le_limit : forall E oa fuel limit v spent tr v' g tr',
  0 <= spent <= limit -> (forall o, 0 <= e_cost E o) ->
  exec fuel E oa limit v spent tr = Ok (v', g, tr') -> spent <= g <= limit.
Proof. exact exec_gas_le_limit. Qed.

(* If charging the next operation would exceed the limit (or u64), execution stops with OutOfGas at that
   operation, and the reported machine state is the one before the operation: it had no effect. *)
Theorem C07_out_of_gas_before_effect : forall f E oa limit v spent tr o,
  oa (pc v) = Some o ->
  (18446744073709551615 < spent + e_cost E o \/ limit < spent + e_cost E o) ->
  exec (S f) E oa limit v spent tr = Err (pc v, EOutOfGas, v).
Proof. exact out_of_gas_before_effect. Qed.

(* Conversely, within the limit the operation is charged and executed: one iteration of the loop is
   `exec_k` (the continuation, Proofs/Gas.v) applied to the result of the operation `exec_op` ... *)
Theorem C07_in_gas_op_executed : forall f E oa limit v spent tr o,
  oa (pc v) = Some o ->
  spent + e_cost E o <= 18446744073709551615 -> spent + e_cost E o <= limit ->
  exec (S f) E oa limit v spent tr =
  exec_k f E oa limit v o (spent + e_cost E o) tr (exec_op f E oa limit (spent + e_cost E o) v o).
Proof. exact in_gas_op_executed. Qed.

(* ... for instance an ordinary operation that succeeds and asks for the next instruction: the loop goes on
   from its result with the cost added and the operation recorded. *)
Theorem C07_in_gas_basic_next : forall f E oa limit v spent tr o v',
  oa (pc v) = Some o -> o <> OCompute ->
  spent + e_cost E o <= 18446744073709551615 -> spent + e_cost E o <= limit ->
  step_basic E o v = Ok (v', CNext) -> pc v' + 1 <= 18446744073709551615 ->
  exec (S f) E oa limit v spent tr =
  exec f E oa limit (set_pc v' (pc v' + 1)) (spent + e_cost E o) (o :: tr).
Proof. exact in_gas_basic_next. Qed.

(* Gas arithmetic never overflows: with a u64 limit every reported total is a u64; a partial sum that would
   leave u64 is reported as OutOfGas (previous theorems; for the children's sum see `sum_gas`). *)
Theorem C07_gas_no_overflow : forall E oa fuel limit v spent tr v' g tr',
  0 <= spent <= limit -> limit <= 18446744073709551615 -> (forall o, 0 <= e_cost E o) ->
  exec fuel E oa limit v spent tr = Ok (v', g, tr') -> 0 <= g <= 18446744073709551615.
Proof. exact exec_gas_u64. Qed.

(* Termination with positive costs, PARTIAL: programs containing Compute are excluded here (see the next
   theorem for them). Fuel larger than the gas left is always enough: the loop never runs out of it. *)
Theorem C07_terminates_with_positive_cost_partial : forall E oa,
  (forall o, 1 <= e_cost E o) -> (forall p, oa p <> Some OCompute) ->
  forall fuel limit v spent tr,
    0 <= spent <= limit -> limit - spent < Z.of_nat fuel ->
    exec fuel E oa limit v spent tr <> OutOfFuel.
Proof. exact exec_terminates_no_compute. Qed.

(* Termination with positive costs, programs with Compute included: with fuel larger than the gas left, the
   only way the model runs out of fuel is a Compute reached with a breadth (top of its stack) larger than
   the fuel left at that point (the model spawns at most `fuel` children). *)
Theorem C07_out_of_fuel_only_by_compute_breadth : forall E oa,
  (forall o, 1 <= e_cost E o) ->
  forall fuel limit v spent tr,
    0 <= spent <= limit -> limit - spent < Z.of_nat fuel ->
    exec fuel E oa limit v spent tr = OutOfFuel ->
    exists (f' : nat) (v1 : vm) (b : Z) (s0 : list Z),
      (f' < fuel)%nat /\ oa (pc v1) = Some OCompute /\ stack v1 = b :: s0 /\ Z.of_nat f' < b.
Proof. exact exec_out_of_fuel_cause. Qed.

(* The pieces of an operation other than Compute never run out of the model's fuel (the only fuelled piece,
   the set decoder of EqSet, gets as much fuel as it has words to read). *)
Theorem C07_step_basic_never_out_of_fuel : forall E o v, step_basic E o v <> OutOfFuel.
Proof. exact step_basic_nofuel. Qed.

(* ---------- non-vacuity ---------- *)
(* `unit_cost_env` (every op costs 1) and `compute_prog` = [Push 3; Compute; Push 1; Pop; ComputeEnd] are defined in Proofs/Gas.v *)
(* Parent: Push, Compute (2 ops); 3 children: Push, Pop, ComputeEnd each (9 ops); the parent resumes past the
   ComputeEnd at the end of the program: 11 operations, gas 11, trace of length 11. *)
Example C07_example_compute :
  match exec_ops 100 unit_cost_env compute_prog 100 vm0 with
  | Ok (v', g, tr) => g = 11 /\ zlen tr = 11 /\ sum_costs unit_cost_env tr = 11 /\ pc v' = 5
  | _ => False
  end.
Proof. vm_compute. repeat split; reflexivity. Qed.

(* limit exactly 11 is enough ... *)
Example C07_example_limit_exact :
  match exec_ops 100 unit_cost_env compute_prog 11 vm0 with Ok (_, g, _) => g = 11 | _ => False end.
Proof. vm_compute. reflexivity. Qed.

(* ... and limit 10 is 1 too small: the children do not fit in what the Compute has left, and the error is
   OutOfGas at the Compute (index 1), with the state before it (breadth 3 still on the stack). *)
Example C07_example_limit_too_small :
  exec_ops 100 unit_cost_env compute_prog 10 vm0 =
  Err (1, EOutOfGas, {| pc := 1; stack := [3]; memory := []; parent_memory := []; halt := false; rstack := [] |}).
Proof. vm_compute. reflexivity. Qed.

(* limit 1: the Compute itself cannot be charged *)
Example C07_example_limit_one :
  exec_ops 100 unit_cost_env compute_prog 1 vm0 =
  Err (1, EOutOfGas, {| pc := 1; stack := [3]; memory := []; parent_memory := []; halt := false; rstack := [] |}).
Proof. vm_compute. reflexivity. Qed.

(* positive costs, no Compute, an endless loop (Push -2; Push 1; JumpIf: jump back by 2): it ends with OutOfGas,
   not with OutOfFuel, as soon as the fuel exceeds the limit. *)
Example C07_example_loop_terminates :
  exec_ops 52 unit_cost_env [OPush (-2); OPush 1; OJumpIf] 51 vm0 =
  Err (0, EOutOfGas, {| pc := 0; stack := []; memory := []; parent_memory := []; halt := false; rstack := [] |}).
Proof. vm_compute. reflexivity. Qed.

(* a Compute whose breadth exceeds the fuel is what OutOfFuel means in the last theorem *)
Example C07_example_breadth_exceeds_fuel :
  exec_ops 12 unit_cost_env [OPush 50; OCompute; OComputeEnd] 11 vm0 = OutOfFuel.
Proof. vm_compute. reflexivity. Qed.
