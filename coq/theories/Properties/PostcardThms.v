(* C18 (binary half) - every public data type survives a round trip through the binary (postcard) serde format.
   Statements only.
   Vocabulary.  Types/PostcardAll.v: pc_X = the bytes `postcard::to_allocvec(&x)` writes for a value of type X
   (u16 and lengths as LEB128 varints, ContentAddress / salt as varint 32 + 32 bytes, Signature as varint 65 +
   64 bytes + id byte, Program as varint length + bytecode, struct fields in order, Vec as varint length + items);
   dec_X = what `postcard::take_from_bytes::<X>` does: Some (value, unread rest) or None; from_bytes d = decode and
   drop the rest (`postcard::from_bytes`).  Types/Postcard.v, Proofs/PostcardProofs.v: the same for Solution and
   Mutation.  A ContentAddress is its 32 bytes, a Signature is (64 bytes, id), a PredicateAddress is
   (contract, predicate), a SolutionSet is the list of its solutions, a Program is its bytecode.
   Well-formedness = what the Rust types guarantee (+ a Vec has fewer than 2^64 elements):
   u16 z = 0 <= z < 65536; wf_address a = 32 bytes; wf_sig = 64 bytes and an id byte; wf_node / wf_pred
   (Spec/PredicateSpec.v) = u16 edge_start / edges, 32-byte program addresses; wf_solution = 32-byte addresses,
   i64 words, lengths < 2^64; pwf_X (Proofs/PostcardAllProofs.v) = the components are well formed and every
   Vec has fewer than 2^64 elements; swf_contract / swf_signed_contract (Proofs/HexSerdeProofs.v) = the same
   without length bounds.
   Readers: varint_dec 10 / varint_dec 3 = try_take_varint_u64 (= usize) / _u16 including the last-byte limit;
   dec_seq d = varint count then the items, with the unread input as fuel (dec_seq_naive: the count as fuel). *)
From Coq Require Import ZArith List.
From EB Require Import Types.PostcardAll Spec.PredicateSpec Proofs.HexSerdeProofs Proofs.PostcardAllProofs.
Import ListNotations.
Open Scope list_scope.
Open Scope Z_scope.

(* ---- u16 (edge_start, edges) ---- *)

(* A u16 is written as the LEB128 varint of its value (the same bytes as the u64 varint), 1 to 3 bytes. *)
Theorem PCA_u16_is_varint : forall z, 0 <= z < 65536 -> pc_u16 z = varint z.
Proof. exact pc_u16_varint. Qed.
Theorem PCA_u16_length : forall z, (1 <= length (pc_u16 z) <= 3)%nat.
Proof. exact pc_u16_length. Qed.

(* Reading back a written u16, whatever follows it. *)
Theorem PCA_u16_roundtrip : forall z rest, 0 <= z < 65536 -> dec_u16 (pc_u16 z ++ rest) = Some (z, rest).
Proof. exact dec_u16_roundtrip. Qed.

(* ---- shape of the fixed-size types ---- *)

(* A ContentAddress (and a salt) is the byte 32 followed by its 32 bytes. *)
Theorem PCA_content_address_shape : forall a, length a = 32%nat -> pc_content_address a = 32 :: a.
Proof. exact pc_content_address_shape. Qed.

(* A Signature is the byte 65, the 64 signature bytes, then the recovery id byte. *)
Theorem PCA_signature_shape : forall sg,
  length (fst sg) = 64%nat -> pc_signature sg = 65 :: fst sg ++ [snd sg].
Proof. exact pc_signature_shape. Qed.

(* A Solution starts with its PredicateAddress: the struct is written field after field, without tags. *)
Theorem PCA_solution_fields : forall s,
  pc_solution s = pc_predicate_address (sol_contract s, sol_predicate s)
                  ++ pc_seq pc_words (sol_data s) ++ pc_seq pc_mutation (sol_muts s).
Proof. exact pc_solution_fields. Qed.

(* ---- round trips: decoding what was encoded gives the value back and leaves the following bytes unread ---- *)

Theorem PCA_content_address_roundtrip : forall a rest,
  wf_address a -> dec_content_address (pc_content_address a ++ rest) = Some (a, rest).
Proof. exact dec_content_address_roundtrip. Qed.

Theorem PCA_predicate_address_roundtrip : forall pa rest,
  pwf_predicate_address pa -> dec_predicate_address (pc_predicate_address pa ++ rest) = Some (pa, rest).
Proof. exact dec_predicate_address_roundtrip. Qed.

Theorem PCA_mutation_roundtrip : forall m rest,
  wf_mutation m -> dec_mutation (pc_mutation m ++ rest) = Some (m, rest).
Proof. exact dec_mutation_roundtrip. Qed.

Theorem PCA_solution_roundtrip : forall s rest,
  wf_solution s -> dec_solution (pc_solution s ++ rest) = Some (s, rest).
Proof. exact dec_solution_roundtrip. Qed.

Theorem PCA_solution_set_roundtrip : forall ss rest,
  pwf_solution_set ss -> dec_solution_set (pc_solution_set ss ++ rest) = Some (ss, rest).
Proof. exact dec_solution_set_roundtrip. Qed.

Theorem PCA_node_roundtrip : forall n rest, wf_node n -> dec_node (pc_node n ++ rest) = Some (n, rest).
Proof. exact dec_node_roundtrip. Qed.

Theorem PCA_predicate_roundtrip : forall p rest,
  pwf_predicate p -> dec_predicate (pc_predicate p ++ rest) = Some (p, rest).
Proof. exact dec_predicate_roundtrip. Qed.

Theorem PCA_program_roundtrip : forall bs rest,
  pwf_program bs -> dec_program (pc_program bs ++ rest) = Some (bs, rest).
Proof. exact dec_program_roundtrip. Qed.

Theorem PCA_contract_roundtrip : forall c rest,
  pwf_contract c -> dec_contract (pc_contract c ++ rest) = Some (c, rest).
Proof. exact dec_contract_roundtrip. Qed.

Theorem PCA_signature_roundtrip : forall sg rest,
  wf_sig sg -> dec_signature (pc_signature sg ++ rest) = Some (sg, rest).
Proof. exact dec_signature_roundtrip. Qed.

Theorem PCA_signed_contract_roundtrip : forall sc rest,
  pwf_signed_contract sc -> dec_signed_contract (pc_signed_contract sc ++ rest) = Some (sc, rest).
Proof. exact dec_signed_contract_roundtrip. Qed.

(* `postcard::from_bytes(&postcard::to_allocvec(&x)) == Ok(x)` for every type. *)
Theorem PCA_from_bytes_roundtrip :
  (forall a, wf_address a -> from_bytes dec_content_address (pc_content_address a) = Some a) /\
  (forall pa, pwf_predicate_address pa -> from_bytes dec_predicate_address (pc_predicate_address pa) = Some pa) /\
  (forall m, wf_mutation m -> from_bytes dec_mutation (pc_mutation m) = Some m) /\
  (forall s, wf_solution s -> from_bytes dec_solution (pc_solution s) = Some s) /\
  (forall ss, pwf_solution_set ss -> from_bytes dec_solution_set (pc_solution_set ss) = Some ss) /\
  (forall n, wf_node n -> from_bytes dec_node (pc_node n) = Some n) /\
  (forall p, pwf_predicate p -> from_bytes dec_predicate (pc_predicate p) = Some p) /\
  (forall bs, pwf_program bs -> from_bytes dec_program (pc_program bs) = Some bs) /\
  (forall c, pwf_contract c -> from_bytes dec_contract (pc_contract c) = Some c) /\
  (forall sg, wf_sig sg -> from_bytes dec_signature (pc_signature sg) = Some sg) /\
  (forall sc, pwf_signed_contract sc -> from_bytes dec_signed_contract (pc_signed_contract sc) = Some sc).
Proof. exact from_bytes_roundtrip_all. Qed.

(* ---- hence: the encodings are prefix free (self-delimiting) and injective ---- *)

Theorem PCA_u16_prefix_free : forall x y r r',
  0 <= x < 65536 -> 0 <= y < 65536 -> pc_u16 x ++ r = pc_u16 y ++ r' -> x = y /\ r = r'.
Proof. exact pc_u16_prefix_free. Qed.

Theorem PCA_content_address_prefix_free : forall x y r r',
  wf_address x -> wf_address y -> pc_content_address x ++ r = pc_content_address y ++ r' -> x = y /\ r = r'.
Proof. exact pc_content_address_prefix_free. Qed.
Theorem PCA_content_address_injective : forall x y,
  wf_address x -> wf_address y -> pc_content_address x = pc_content_address y -> x = y.
Proof. exact pc_content_address_injective. Qed.

Theorem PCA_predicate_address_prefix_free : forall x y r r',
  pwf_predicate_address x -> pwf_predicate_address y ->
  pc_predicate_address x ++ r = pc_predicate_address y ++ r' -> x = y /\ r = r'.
Proof. exact pc_predicate_address_prefix_free. Qed.
Theorem PCA_predicate_address_injective : forall x y,
  pwf_predicate_address x -> pwf_predicate_address y -> pc_predicate_address x = pc_predicate_address y -> x = y.
Proof. exact pc_predicate_address_injective. Qed.

Theorem PCA_solution_set_prefix_free : forall x y r r',
  pwf_solution_set x -> pwf_solution_set y -> pc_solution_set x ++ r = pc_solution_set y ++ r' -> x = y /\ r = r'.
Proof. exact pc_solution_set_prefix_free. Qed.
Theorem PCA_solution_set_injective : forall x y,
  pwf_solution_set x -> pwf_solution_set y -> pc_solution_set x = pc_solution_set y -> x = y.
Proof. exact pc_solution_set_injective. Qed.

Theorem PCA_node_prefix_free : forall x y r r',
  wf_node x -> wf_node y -> pc_node x ++ r = pc_node y ++ r' -> x = y /\ r = r'.
Proof. exact pc_node_prefix_free. Qed.

Theorem PCA_predicate_prefix_free : forall x y r r',
  pwf_predicate x -> pwf_predicate y -> pc_predicate x ++ r = pc_predicate y ++ r' -> x = y /\ r = r'.
Proof. exact pc_predicate_prefix_free. Qed.
Theorem PCA_predicate_injective : forall x y,
  pwf_predicate x -> pwf_predicate y -> pc_predicate x = pc_predicate y -> x = y.
Proof. exact pc_predicate_injective. Qed.

Theorem PCA_program_prefix_free : forall x y r r',
  pwf_program x -> pwf_program y -> pc_program x ++ r = pc_program y ++ r' -> x = y /\ r = r'.
Proof. exact pc_program_prefix_free. Qed.
Theorem PCA_program_injective : forall x y,
  pwf_program x -> pwf_program y -> pc_program x = pc_program y -> x = y.
Proof. exact pc_program_injective. Qed.

Theorem PCA_contract_prefix_free : forall x y r r',
  pwf_contract x -> pwf_contract y -> pc_contract x ++ r = pc_contract y ++ r' -> x = y /\ r = r'.
Proof. exact pc_contract_prefix_free. Qed.
Theorem PCA_contract_injective : forall x y,
  pwf_contract x -> pwf_contract y -> pc_contract x = pc_contract y -> x = y.
Proof. exact pc_contract_injective. Qed.

Theorem PCA_signature_prefix_free : forall x y r r',
  wf_sig x -> wf_sig y -> pc_signature x ++ r = pc_signature y ++ r' -> x = y /\ r = r'.
Proof. exact pc_signature_prefix_free. Qed.
Theorem PCA_signature_injective : forall x y,
  wf_sig x -> wf_sig y -> pc_signature x = pc_signature y -> x = y.
Proof. exact pc_signature_injective. Qed.

Theorem PCA_signed_contract_prefix_free : forall x y r r',
  pwf_signed_contract x -> pwf_signed_contract y ->
  pc_signed_contract x ++ r = pc_signed_contract y ++ r' -> x = y /\ r = r'.
Proof. exact pc_signed_contract_prefix_free. Qed.
Theorem PCA_signed_contract_injective : forall x y,
  pwf_signed_contract x -> pwf_signed_contract y -> pc_signed_contract x = pc_signed_contract y -> x = y.
Proof. exact pc_signed_contract_injective. Qed.

(* ---- the other direction: whatever decodes from a byte string is a well-formed value ---- *)

(* (The decoders accept padded varints such as [128; 0] for 0, as postcard does, so re-encoding a decoded value
   need not give the input back; what holds is that the value is in range.) *)
Theorem PCA_u16_decoded_in_range : forall bs z r,
  Forall byte bs -> dec_u16 bs = Some (z, r) -> 0 <= z < 65536 /\ Forall byte r.
Proof. exact dec_u16_sound. Qed.

Theorem PCA_content_address_decoded_wf : forall bs a r,
  Forall byte bs -> dec_content_address bs = Some (a, r) -> wf_address a /\ Forall byte r.
Proof. exact dec_content_address_sound. Qed.

Theorem PCA_predicate_decoded_wf : forall bs p r,
  Forall byte bs -> dec_predicate bs = Some (p, r) -> wf_pred p /\ Forall byte r.
Proof. exact dec_predicate_sound. Qed.

Theorem PCA_contract_decoded_wf : forall bs c r,
  Forall byte bs -> dec_contract bs = Some (c, r) -> swf_contract c /\ Forall byte r.
Proof. exact dec_contract_sound. Qed.

Theorem PCA_signed_contract_decoded_wf : forall bs sc r,
  Forall byte bs -> dec_signed_contract bs = Some (sc, r) -> swf_signed_contract sc /\ Forall byte r.
Proof. exact dec_signed_contract_sound. Qed.

(* ---- fidelity of the readers on damaged input (postcard 1.0.10 src/de/deserializer.rs, src/varint.rs) ---- *)

(* What the u64 / usize varint reader (`varint_dec 10` = try_take_varint_u64) accepts from a byte string is a u64,
   and it has read between 1 and 10 bytes. *)
Theorem PCA_varint_u64_canonical_range : forall bs n r,
  Forall byte bs -> varint_dec 10 bs = Some (n, r) ->
  0 <= n < 2 ^ 64 /\ exists pre, bs = pre ++ r /\ (1 <= length pre <= 10)%nat.
Proof. exact varint_u64_canonical_range. Qed.

(* The 10th byte may be at most max_of_last_byte::<u64>() = 1 and may not have the continuation bit: 2^64 and above
   (255 x9, 2), 11 bytes, or a truncated number are DeserializeBadVarint / UnexpectedEnd; 2^64-1 is read.
   Padding IS accepted by postcard (the loop returns Ok(out) at the first byte without continuation bit, the
   last-byte check applies to the 10th byte only), also up to the full length: [128 x9, 0] is 0. *)
Example PCA_varint_u64_rejects_overflow :
  varint_dec 10 (repeat 255 9 ++ [2]) = None /\
  varint_dec 10 (repeat 255 9 ++ [1]) = Some (2 ^ 64 - 1, []) /\
  varint_dec 10 (repeat 255 9 ++ [1; 7]) = Some (18446744073709551615, [7]) /\
  varint_dec 10 (repeat 255 11) = None /\
  varint_dec 10 (repeat 255 9 ++ [129; 0]) = None /\
  varint_dec 10 (repeat 255 9 ++ [127]) = None /\
  varint_dec 10 (repeat 255 9) = None /\
  varint_dec 10 [128; 0] = Some (0, []) /\
  varint_dec 10 (repeat 128 9 ++ [0]) = Some (0, []) /\
  varint_dec 10 (repeat 128 9 ++ [1]) = Some (2 ^ 63, []) /\
  dec_i64 (repeat 255 9 ++ [1]) = Some (- 2 ^ 63, []) /\ dec_i64 (repeat 255 9 ++ [2]) = None.
Proof. vm_compute. repeat split. Qed.

(* The u16 reader is try_take_varint_u16 (third byte at most 3): on bytes, the value check of dec_u16 is implied. *)
Theorem PCA_u16_is_varint_dec : forall bs, Forall byte bs -> dec_u16 bs = varint_dec 3 bs.
Proof. exact dec_u16_is_varint_dec. Qed.

(* A sequence whose claimed length exceeds the number of unread bytes is rejected ... *)
Theorem PCA_dec_seq_rejects_large_count : forall (A : Type) (d : list Z -> option (A * list Z)) bs n r,
  varint_dec 10 bs = Some (n, r) -> zlen r < n -> dec_seq d bs = None.
Proof. exact @dec_seq_short. Qed.

(* ... and at once: 2^60 claimed items (the varint 128 x8, 16) on a few bytes of input. *)
Example PCA_dec_seq_total_cheap :
  dec_seq dec_i64 (repeat 128 8 ++ [16; 2; 4; 6]) = None /\
  varint_dec 10 (repeat 128 8 ++ [16; 2; 4; 6]) = Some (2 ^ 60, [2; 4; 6]) /\
  from_bytes dec_solution_set (repeat 128 8 ++ [16] ++ pc_solution ex_solution) = None /\
  from_bytes dec_program (repeat 255 9 ++ [1; 1; 2; 3]) = None /\
  from_bytes dec_contract ([255; 255; 255; 255; 15] ++ pc_contract (sc_contract ex_signed_contract)) = None /\
  dec_seq dec_i64 [3; 2; 4; 6; 9] = Some ([1; 2; 3], [9]) /\ dec_seq dec_i64 [4; 2; 4; 6] = None.
Proof. vm_compute. repeat split. Qed.

(* A decoded sequence has fewer items than the input has bytes (every item takes at least one byte). *)
Theorem PCA_dec_seq_length : forall (A : Type) (d : list Z -> option (A * list Z)),
  (forall bs x r, d bs = Some (x, r) -> exists pre, bs = pre ++ r /\ (0 < length pre)%nat) ->
  forall bs xs r, dec_seq d bs = Some (xs, r) -> (length xs + length r < length bs)%nat.
Proof. exact @dec_seq_length. Qed.

(* Using the unread input as fuel changes nothing: every sequence reader of these types equals the plain reading
   "varint count n, then n items" (dec_seq_naive, which recurses on n and cannot be run on a damaged count). *)
Theorem PCA_dec_seq_is_plain_reading :
  (forall bs, dec_words bs = dec_seq_naive dec_i64 bs) /\
  (forall bs, dec_bytes bs = dec_seq_naive dec_u8 bs) /\
  (forall bs, dec_seq dec_words bs = dec_seq_naive dec_words bs) /\
  (forall bs, dec_seq dec_mutation bs = dec_seq_naive dec_mutation bs) /\
  (forall bs, dec_solution_set bs = dec_seq_naive dec_solution bs) /\
  (forall bs, dec_seq dec_node bs = dec_seq_naive dec_node bs) /\
  (forall bs, dec_seq dec_u16 bs = dec_seq_naive dec_u16 bs) /\
  (forall bs, dec_seq dec_predicate bs = dec_seq_naive dec_predicate bs).
Proof. exact dec_seq_eq_naive_all. Qed.

(* ---- decoders never read past the input: the unread rest is a proper suffix of the input ---- *)

Theorem PCA_mutation_reads_prefix : forall bs x rest,
  dec_mutation bs = Some (x, rest) -> exists pre, bs = pre ++ rest /\ (0 < length pre)%nat.
Proof. exact dec_mutation_consumes. Qed.

Theorem PCA_solution_reads_prefix : forall bs x rest,
  dec_solution bs = Some (x, rest) -> exists pre, bs = pre ++ rest /\ (0 < length pre)%nat.
Proof. exact dec_solution_consumes. Qed.

Theorem PCA_solution_set_reads_prefix : forall bs x rest,
  dec_solution_set bs = Some (x, rest) -> exists pre, bs = pre ++ rest /\ (0 < length pre)%nat.
Proof. exact dec_solution_set_consumes. Qed.

Theorem PCA_content_address_reads_prefix : forall bs x rest,
  dec_content_address bs = Some (x, rest) -> exists pre, bs = pre ++ rest /\ (0 < length pre)%nat.
Proof. exact dec_content_address_consumes. Qed.

Theorem PCA_predicate_address_reads_prefix : forall bs x rest,
  dec_predicate_address bs = Some (x, rest) -> exists pre, bs = pre ++ rest /\ (0 < length pre)%nat.
Proof. exact dec_predicate_address_consumes. Qed.

Theorem PCA_predicate_reads_prefix : forall bs x rest,
  dec_predicate bs = Some (x, rest) -> exists pre, bs = pre ++ rest /\ (0 < length pre)%nat.
Proof. exact dec_predicate_consumes. Qed.

Theorem PCA_program_reads_prefix : forall bs x rest,
  dec_program bs = Some (x, rest) -> exists pre, bs = pre ++ rest /\ (0 < length pre)%nat.
Proof. exact dec_program_consumes. Qed.

Theorem PCA_contract_reads_prefix : forall bs x rest,
  dec_contract bs = Some (x, rest) -> exists pre, bs = pre ++ rest /\ (0 < length pre)%nat.
Proof. exact dec_contract_consumes. Qed.

Theorem PCA_signature_reads_prefix : forall bs x rest,
  dec_signature bs = Some (x, rest) -> exists pre, bs = pre ++ rest /\ (0 < length pre)%nat.
Proof. exact dec_signature_consumes. Qed.

Theorem PCA_signed_contract_reads_prefix : forall bs x rest,
  dec_signed_contract bs = Some (x, rest) -> exists pre, bs = pre ++ rest /\ (0 < length pre)%nat.
Proof. exact dec_signed_contract_consumes. Qed.

(* ---- examples; the expected bytes are the output of `postcard::to_allocvec` of the real crate ---- *)

Example PCA_ex_u16_bytes :
  pc_u16 65535 = [255; 255; 3] /\ pc_u16 0 = [0] /\ pc_u16 127 = [127] /\ pc_u16 128 = [128; 1] /\
  pc_u16 1000 = [232; 7] /\ pc_u16 16383 = [255; 127] /\ pc_u16 16384 = [128; 128; 1].
Proof. vm_compute. repeat split. Qed.

(* what postcard's u16 reader does on padded / too long / overflowing input, and on a 31-byte address *)
Example PCA_ex_u16_decode :
  dec_u16 [128; 0] = Some (0, []) /\ dec_u16 [255; 255; 3; 9] = Some (65535, [9]) /\
  dec_u16 [255; 255; 4] = None /\ dec_u16 [255; 255; 131; 0] = None /\
  dec_content_address (31 :: repeat 0 31) = None.
Proof. vm_compute. repeat split. Qed.

Example PCA_ex_program200_bytes :
  pc_program (map Z.of_nat (seq 0 200)) = [200; 1] ++ map Z.of_nat (seq 0 200).
Proof. vm_compute. reflexivity. Qed.

(* the hypotheses of the round trips hold of the example values *)
Example PCA_ex_wf :
  pwf_signed_contract ex_signed_contract /\ pwf_solution_set [ex_solution; ex_solution] /\
  pwf_program [1; 2; 255; 128].
Proof. exact ex_all_pwf. Qed.

Example PCA_ex_signed_contract_decode :
  dec_signed_contract (pc_signed_contract ex_signed_contract ++ [7; 7]) = Some (ex_signed_contract, [7; 7]) /\
  from_bytes dec_signed_contract (pc_signed_contract ex_signed_contract) = Some ex_signed_contract /\
  from_bytes dec_solution_set (pc_solution_set [ex_solution; ex_solution]) = Some [ex_solution; ex_solution].
Proof. vm_compute. repeat split. Qed.

Example PCA_ex_content_address_bytes :
  pc_content_address ex_contract_addr =
     [32; 171; 171; 171; 171; 171; 171; 171; 171; 171; 171; 171; 171; 171; 171; 171; 171; 171; 171; 171;
     171; 171; 171; 171; 171; 171; 171; 171; 171; 171; 171; 171; 171].
Proof. vm_compute. reflexivity. Qed.

Example PCA_ex_predicate_address_bytes :
  pc_predicate_address (ex_contract_addr, ex_predicate_addr) =
     [32; 171; 171; 171; 171; 171; 171; 171; 171; 171; 171; 171; 171; 171; 171; 171; 171; 171; 171; 171;
     171; 171; 171; 171; 171; 171; 171; 171; 171; 171; 171; 171; 171; 32; 0; 1; 2; 3; 4; 5; 6; 7; 8; 9; 10;
     11; 12; 13; 14; 15; 16; 17; 18; 19; 20; 21; 22; 23; 24; 25; 26; 27; 28; 29; 30; 31].
Proof. vm_compute. reflexivity. Qed.

Example PCA_ex_solution_bytes :
  pc_solution ex_solution =
     [32; 171; 171; 171; 171; 171; 171; 171; 171; 171; 171; 171; 171; 171; 171; 171; 171; 171; 171; 171;
     171; 171; 171; 171; 171; 171; 171; 171; 171; 171; 171; 171; 171; 32; 0; 1; 2; 3; 4; 5; 6; 7; 8; 9; 10;
     11; 12; 13; 14; 15; 16; 17; 18; 19; 20; 21; 22; 23; 24; 25; 26; 27; 28; 29; 30; 31; 2; 2; 2; 3; 0; 1;
     1; 0; 2; 84; 255; 255; 255; 255; 255; 255; 255; 255; 255; 1].
Proof. vm_compute. reflexivity. Qed.

Example PCA_ex_solution_set_bytes :
  pc_solution_set [ex_solution; ex_solution] =
     [2; 32; 171; 171; 171; 171; 171; 171; 171; 171; 171; 171; 171; 171; 171; 171; 171; 171; 171; 171; 171;
     171; 171; 171; 171; 171; 171; 171; 171; 171; 171; 171; 171; 171; 32; 0; 1; 2; 3; 4; 5; 6; 7; 8; 9; 10;
     11; 12; 13; 14; 15; 16; 17; 18; 19; 20; 21; 22; 23; 24; 25; 26; 27; 28; 29; 30; 31; 2; 2; 2; 3; 0; 1;
     1; 0; 2; 84; 255; 255; 255; 255; 255; 255; 255; 255; 255; 1; 32; 171; 171; 171; 171; 171; 171; 171;
     171; 171; 171; 171; 171; 171; 171; 171; 171; 171; 171; 171; 171; 171; 171; 171; 171; 171; 171; 171;
     171; 171; 171; 171; 171; 32; 0; 1; 2; 3; 4; 5; 6; 7; 8; 9; 10; 11; 12; 13; 14; 15; 16; 17; 18; 19; 20;
     21; 22; 23; 24; 25; 26; 27; 28; 29; 30; 31; 2; 2; 2; 3; 0; 1; 1; 0; 2; 84; 255; 255; 255; 255; 255;
     255; 255; 255; 255; 1].
Proof. vm_compute. reflexivity. Qed.

Example PCA_ex_node_bytes :
  pc_node {| n_edge_start := 65535; n_program := ex_contract_addr |} =
     [255; 255; 3; 32; 171; 171; 171; 171; 171; 171; 171; 171; 171; 171; 171; 171; 171; 171; 171; 171; 171;
     171; 171; 171; 171; 171; 171; 171; 171; 171; 171; 171; 171; 171; 171; 171].
Proof. vm_compute. reflexivity. Qed.

Example PCA_ex_predicate_bytes :
  pc_predicate ex_predicate =
     [2; 0; 32; 0; 1; 2; 3; 4; 5; 6; 7; 8; 9; 10; 11; 12; 13; 14; 15; 16; 17; 18; 19; 20; 21; 22; 23; 24;
     25; 26; 27; 28; 29; 30; 31; 255; 255; 3; 32; 171; 171; 171; 171; 171; 171; 171; 171; 171; 171; 171;
     171; 171; 171; 171; 171; 171; 171; 171; 171; 171; 171; 171; 171; 171; 171; 171; 171; 171; 171; 171;
     171; 1; 1].
Proof. vm_compute. reflexivity. Qed.

Example PCA_ex_predicate2_bytes :
  pc_predicate {| p_nodes := []; p_edges := [300; 65535; 0] |} =
     [0; 3; 172; 2; 255; 255; 3; 0].
Proof. vm_compute. reflexivity. Qed.

Example PCA_ex_program_bytes :
  pc_program [1; 2; 255; 128] =
     [4; 1; 2; 255; 128].
Proof. vm_compute. reflexivity. Qed.

Example PCA_ex_contract_bytes :
  pc_contract (sc_contract ex_signed_contract) =
     [1; 2; 0; 32; 0; 1; 2; 3; 4; 5; 6; 7; 8; 9; 10; 11; 12; 13; 14; 15; 16; 17; 18; 19; 20; 21; 22; 23; 24;
     25; 26; 27; 28; 29; 30; 31; 255; 255; 3; 32; 171; 171; 171; 171; 171; 171; 171; 171; 171; 171; 171;
     171; 171; 171; 171; 171; 171; 171; 171; 171; 171; 171; 171; 171; 171; 171; 171; 171; 171; 171; 171;
     171; 1; 1; 32; 0; 0; 0; 0; 0; 0; 0; 0; 0; 0; 0; 0; 0; 0; 0; 0; 0; 0; 0; 0; 0; 0; 0; 0; 0; 0; 0; 0; 0;
     0; 0; 0].
Proof. vm_compute. reflexivity. Qed.

Example PCA_ex_signature_bytes :
  pc_signature ex_signature =
     [65; 0; 1; 2; 3; 4; 5; 6; 7; 8; 9; 10; 11; 12; 13; 14; 15; 16; 17; 18; 19; 20; 21; 22; 23; 24; 25; 26;
     27; 28; 29; 30; 31; 32; 33; 34; 35; 36; 37; 38; 39; 40; 41; 42; 43; 44; 45; 46; 47; 48; 49; 50; 51; 52;
     53; 54; 55; 56; 57; 58; 59; 60; 61; 62; 63; 3].
Proof. vm_compute. reflexivity. Qed.

Example PCA_ex_signed_contract_bytes :
  pc_signed_contract ex_signed_contract =
     [1; 2; 0; 32; 0; 1; 2; 3; 4; 5; 6; 7; 8; 9; 10; 11; 12; 13; 14; 15; 16; 17; 18; 19; 20; 21; 22; 23; 24;
     25; 26; 27; 28; 29; 30; 31; 255; 255; 3; 32; 171; 171; 171; 171; 171; 171; 171; 171; 171; 171; 171;
     171; 171; 171; 171; 171; 171; 171; 171; 171; 171; 171; 171; 171; 171; 171; 171; 171; 171; 171; 171;
     171; 1; 1; 32; 0; 0; 0; 0; 0; 0; 0; 0; 0; 0; 0; 0; 0; 0; 0; 0; 0; 0; 0; 0; 0; 0; 0; 0; 0; 0; 0; 0; 0;
     0; 0; 0; 65; 0; 1; 2; 3; 4; 5; 6; 7; 8; 9; 10; 11; 12; 13; 14; 15; 16; 17; 18; 19; 20; 21; 22; 23; 24;
     25; 26; 27; 28; 29; 30; 31; 32; 33; 34; 35; 36; 37; 38; 39; 40; 41; 42; 43; 44; 45; 46; 47; 48; 49; 50;
     51; 52; 53; 54; 55; 56; 57; 58; 59; 60; 61; 62; 63; 3].
Proof. vm_compute. reflexivity. Qed.

(* The strict reader of a Solution (addresses must be 32 bytes, as hash::deserialize::<32> demands) reads every well-formed
   solution back, and whatever it reads the plain reader reads too. *)
Theorem PCA_solution_strict_roundtrip : forall s rest,
  wf_solution s -> dec_solution_strict (pc_solution s ++ rest) = Some (s, rest).
Proof. exact dec_solution_strict_roundtrip. Qed.
Theorem PCA_solution_strict_sound : forall bs s r,
  dec_solution_strict bs = Some (s, r) ->
  dec_solution bs = Some (s, r) /\ length (sol_contract s) = 32%nat /\ length (sol_predicate s) = 32%nat.
Proof. exact dec_solution_strict_sound. Qed.
