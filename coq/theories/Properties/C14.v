(* C14 - Mapped bytecode is equivalent to the parsed operation list.
   This file contains statements only; every proof is `exact <lemma from Proofs/>`.
   `mapped` models BytecodeMapped { bytecode, op_indices } (Vm/Mapped.v); `from_bytes` is the list parser
   (Asm/Op.v); `op_at ops` is OpAccess for &[Op]; `mapped_access m` is OpAccess for &BytecodeMapped.
   `offsets start ops` (Spec/MappedSpec.v) are the running sums of the encoded lengths;
   `status x` forgets the success value and keeps Ok / Err e / Panic / OutOfFuel.
   Several statements hold for arbitrary Z lists (no `Forall byte` hypothesis is needed); they are stated
   in that stronger form. *)
From Coq Require Import ZArith List Lia Bool String.
From EB Require Import Asm.Op Vm.Exec Vm.Mapped Spec.MappedSpec Proofs.MappedProofs Proofs.ControlLoop.
Open Scope list_scope.
Open Scope Z_scope.

(* ============ mapping succeeds exactly when parsing succeeds, with the same error ============ *)

(* Mapping and parsing have the same status on every input: both succeed, or both fail with the same
   error value (InvalidOpcode with the same byte, or NotEnoughBytes). *)
Theorem C14_mapped_ok_iff_parse_ok : forall bs,
  omap (fun _ => tt) (try_from_bytes bs) = omap (fun _ => tt) (from_bytes bs).
Proof. exact mapped_status_eq. Qed.

(* The same, unfolded: success on the same inputs ... *)
Theorem C14_mapped_ok_iff : forall bs,
  (exists m, try_from_bytes bs = Ok m) <-> (exists ops, from_bytes bs = Ok ops).
Proof. exact mapped_ok_iff. Qed.
(* ... and the same error on the same inputs. *)
Theorem C14_mapped_err_iff : forall bs e, try_from_bytes bs = Err e <-> from_bytes bs = Err e.
Proof. exact mapped_err_iff. Qed.

(* Mapping never panics and never runs out of the model's fuel. *)
Theorem C14_try_from_bytes_total : forall bs,
  try_from_bytes bs <> OutOfFuel /\ forall s, try_from_bytes bs <> Panic s.
Proof. exact try_from_bytes_total. Qed.

(* ============ the mapped form yields the same operations ============ *)

(* A successfully mapped byte string keeps the bytes, and iterating it yields exactly the parsed
   operations in order. *)
Theorem C14_mapped_ops_eq : forall bs m ops,
  try_from_bytes bs = Ok m -> from_bytes bs = Ok ops ->
  mp_bytes m = bs /\ mapped_ops m = Ok ops.
Proof. exact mapped_bytes_and_ops. Qed.

(* Random access by index agrees with the list, including `None` outside the program. *)
Theorem C14_random_access : forall bs m ops,
  try_from_bytes bs = Ok m -> from_bytes bs = Ok ops ->
  forall i, mapped_op m i = Ok (op_at ops i).
Proof. exact mapped_random_access. Qed.

(* The stored indices are the byte offsets of the operations: running sums of the encoded lengths. *)
Theorem C14_op_indices : forall bs m ops,
  try_from_bytes bs = Ok m -> from_bytes bs = Ok ops ->
  mp_indices m = offsets 0 ops.
Proof. exact mapped_op_indices. Qed.

(* The accessor used by execution is the list accessor. *)
Theorem C14_mapped_access_eq : forall bs m ops,
  try_from_bytes bs = Ok m -> from_bytes bs = Ok ops ->
  forall p, mapped_access m p = op_at ops p.
Proof. exact mapped_access_eq. Qed.

(* ============ building from operations ============ *)

(* Collecting operations (FromIterator / push_op) stores the serialised bytes and the running
   offsets, and is the same value as mapping the serialised bytes. *)
Theorem C14_from_iter_bytes : forall ops,
  Forall well_formed_op ops ->
  mp_bytes (mapped_of_ops ops) = to_bytes ops /\
  mp_indices (mapped_of_ops ops) = offsets 0 ops /\
  try_from_bytes (to_bytes ops) = Ok (mapped_of_ops ops).
Proof. exact from_iter_bytes. Qed.

(* Mapping composes: the concatenation of two serialised programs maps to the mapped form of the
   concatenated program, which reads back as that program. *)
Theorem C14_mapped_concat : forall a b,
  Forall well_formed_op a -> Forall well_formed_op b ->
  try_from_bytes (to_bytes a ++ to_bytes b) = Ok (mapped_of_ops (a ++ b)) /\
  mapped_ops (mapped_of_ops (a ++ b)) = Ok (a ++ b).
Proof. exact mapped_concat. Qed.

(* Reading the collected value back gives the operations it was built from. *)
Theorem C14_from_iter_ops : forall ops,
  Forall well_formed_op ops ->
  mapped_ops (mapped_of_ops ops) = Ok ops /\
  (forall i, mapped_op (mapped_of_ops ops) i = Ok (op_at ops i)) /\
  (forall p, mapped_access (mapped_of_ops ops) p = op_at ops p).
Proof. exact from_iter_ops. Qed.

(* On a genuine byte string, mapping the bytes and collecting the parsed operations give the same value,
   whose bytes are the serialisation of the operations. *)
Theorem C14_mapped_of_parsed : forall bs m ops,
  Forall byte bs -> try_from_bytes bs = Ok m -> from_bytes bs = Ok ops ->
  mapped_of_ops ops = m /\ to_bytes ops = mp_bytes m.
Proof. exact mapped_of_parsed. Qed.

(* ============ the panic sites are unreachable ============ *)

(* For a value built by try_from_bytes neither `ops()` nor `op(i)` reaches the slice index or
   either `expect` of expect_ops_from_indices (they are the only `Panic` outcomes of the model). *)
Theorem C14_expect_unreachable : forall bs m,
  try_from_bytes bs = Ok m ->
  (exists ops, from_bytes bs = Ok ops /\ mapped_ops m = Ok ops) /\
  (forall i, exists r, mapped_op m i = Ok r).
Proof. exact try_from_bytes_no_expect. Qed.

(* ============ execution ============ *)

(* Execution depends on the accessor only through the operations it returns. *)
Theorem C14_exec_ext : forall fuel E oa1 oa2 limit v spent tr,
  (forall p, oa1 p = oa2 p) ->
  exec fuel E oa1 limit v spent tr = exec fuel E oa2 limit v spent tr.
Proof. exact exec_ext. Qed.

(* Executing the mapped form and executing the operation list from the same machine state give the same
   outcome: final state, gas, executed operations, error (with its op index and state), panic. *)
Theorem C14_exec_mapped_eq_exec_ops : forall fuel E bs m ops limit v spent tr,
  try_from_bytes bs = Ok m -> from_bytes bs = Ok ops ->
  exec fuel E (mapped_access m) limit v spent tr = exec fuel E (op_at ops) limit v spent tr.
Proof. exact exec_mapped_eq_exec_ops. Qed.

(* The same for a mapped form collected from operations. *)
Theorem C14_exec_from_iter_eq_exec_ops : forall fuel E ops limit v spent tr,
  Forall well_formed_op ops ->
  exec fuel E (mapped_access (mapped_of_ops ops)) limit v spent tr = exec fuel E (op_at ops) limit v spent tr.
Proof. exact exec_from_iter_eq_exec_ops. Qed.

(* ============ examples ============ *)
Definition ex_prog : list op := [OPush 6; OPop; OPush 7; OPush (-1); OMul; OHalt].
Definition ex_bytes : list Z :=
  [1; 0;0;0;0;0;0;0;6;  2;  1; 0;0;0;0;0;0;0;7;  1; 255;255;255;255;255;255;255;255;  34;  96].

(* two Pushes at the front: the indices are 0, 9, 10, 19, ... *)
Example C14_ex_map :
  try_from_bytes ex_bytes = Ok {| mp_bytes := ex_bytes; mp_indices := [0; 9; 10; 19; 28; 29] |} /\
  from_bytes ex_bytes = Ok ex_prog /\ Forall byte ex_bytes /\ offsets 0 ex_prog = [0; 9; 10; 19; 28; 29].
Proof.
  split; [vm_compute; reflexivity|]. split; [vm_compute; reflexivity|].
  split; [|vm_compute; reflexivity].
  apply Forall_forall. intros x Hx. apply byteb_spec.
  revert x Hx. apply forallb_forall. vm_compute. reflexivity.
Qed.
Example C14_ex_from_iter : mapped_of_ops ex_prog = {| mp_bytes := ex_bytes; mp_indices := [0; 9; 10; 19; 28; 29] |}.
Proof. vm_compute. reflexivity. Qed.
Example C14_ex_ops :
  mapped_ops (mapped_of_ops ex_prog) = Ok ex_prog /\
  mapped_op (mapped_of_ops ex_prog) 2 = Ok (Some (OPush 7)) /\
  mapped_op (mapped_of_ops ex_prog) 5 = Ok (Some OHalt) /\
  mapped_op (mapped_of_ops ex_prog) 6 = Ok None /\
  mapped_op (mapped_of_ops ex_prog) (-1) = Ok None.
Proof. vm_compute. repeat split. Qed.
(* an invalid opcode in the middle; a truncated Push *)
Example C14_ex_invalid :
  try_from_bytes [2; 1; 0;0;0;0;0;0;0;5; 15; 2] = Err (InvalidOpcode 15) /\
  from_bytes [2; 1; 0;0;0;0;0;0;0;5; 15; 2] = Err (InvalidOpcode 15).
Proof. vm_compute. split; reflexivity. Qed.
Example C14_ex_truncated :
  try_from_bytes [2; 1; 0;0;0;0;0;0;0] = Err NotEnoughBytes /\
  from_bytes [2; 1; 0;0;0;0;0;0;0] = Err NotEnoughBytes.
Proof. vm_compute. split; reflexivity. Qed.
(* the panic sites are real: a hand-made inconsistent value reaches each of them *)
Example C14_ex_panic_sites :
  mapped_op {| mp_bytes := [2]; mp_indices := [5] |} 0 = Panic "expect_ops_from_indices: bytecode[ix..]" /\
  mapped_op {| mp_bytes := [2]; mp_indices := [1] |} 0 = Panic "expect_ops_from_indices: expect (no bytes)" /\
  mapped_op {| mp_bytes := [1; 0]; mp_indices := [0] |} 0 = Panic "expect_ops_from_indices: expect (parse error)" /\
  mapped_op {| mp_bytes := [0]; mp_indices := [0] |} 0 = Panic "expect_ops_from_indices: expect (parse error)".
Proof. vm_compute. repeat split. Qed.
(* running both forms: 7 * -1 = -7 on the stack, same gas, same trace *)
Example C14_ex_exec :
  exec 100 demo_env (mapped_access (mapped_of_ops ex_prog)) 1000 vm0 0 [] = exec 100 demo_env (op_at ex_prog) 1000 vm0 0 [] /\
  match exec 100 demo_env (mapped_access (mapped_of_ops ex_prog)) 1000 vm0 0 [] with
  | Ok (v, _, tr) => stack v = [-7] /\ length tr = 6%nat
  | _ => False
  end.
Proof. vm_compute. repeat split. Qed.

(* the combined statement *)
Theorem C14_mapped_ops_eq_all : forall bs m ops,
  try_from_bytes bs = Ok m -> from_bytes bs = Ok ops ->
  mp_bytes m = bs /\ mp_indices m = offsets 0 ops /\ mapped_ops m = Ok ops /\
  (forall i, mapped_op m i = Ok (op_at ops i)).
Proof. exact mapped_ops_eq. Qed.
