(* C19 - Contract signatures bind the signer to the contract's content.
   Statements only; every proof is `exact <lemma from Proofs/SignProofs.v>`.

   secp256k1 is an abstract recoverable signature scheme (`pk`, `sign_raw`, `recover_raw`).  Its correctness
   is an explicit HYPOTHESIS (`scheme_correct`) of the theorems that need it, never an axiom.  Unforgeability is
   NOT assumed, so "after tampering, recovery no longer returns the signer's key" is proved only up to
   "the signed bytes change unless the hash collides" (C19_tamper_changes_signed_bytes).
   `H` is an arbitrary hash with 32-byte output (SHA-256 in the Rust code). *)
From Coq Require Import ZArith List Lia Bool Permutation.
From EB Require Import Sign.Sig Hash.Sha256 Proofs.SignProofs.
Import ListNotations.
Open Scope list_scope.
Open Scope Z_scope.

(* Signing a contract and recovering from the signed contract returns the signer's public key, and verify succeeds. *)
Theorem C19_sign_recover_contract :
  forall (H : list Z -> list Z) (secret : Type) (pk : secret -> list Z)
         (sign_raw : secret -> list Z -> list Z * Z) (recover_raw : list Z -> list Z -> Z -> secp_res),
  (forall bs, length (H bs) = 32%nat) ->
  (forall sk h, length h = 32%nat ->
     let (sg, id) := sign_raw sk h in 0 <= id <= 3 /\ recover_raw h sg id = SecpKey (pk sk)) ->
  forall sk preds salt,
    recover_contract H recover_raw preds salt (sign_contract H secret sign_raw sk preds salt) = Some (pk sk) /\
    verify_contract H recover_raw preds salt (sign_contract H secret sign_raw sk preds salt) = true.
Proof. exact sign_recover_contract. Qed.

(* ... independently of predicate order: a signature made over `preds` recovers the signer over any permutation of
   `preds` (permutation invariance of the content address is the premise `contract_addr_perm`, proved elsewhere). *)
Theorem C19_sign_recover_any_order :
  forall (H : list Z -> list Z) (secret : Type) (pk : secret -> list Z)
         (sign_raw : secret -> list Z -> list Z * Z) (recover_raw : list Z -> list Z -> Z -> secp_res),
  (forall bs, length (H bs) = 32%nat) ->
  (forall sk h, length h = 32%nat ->
     let (sg, id) := sign_raw sk h in 0 <= id <= 3 /\ recover_raw h sg id = SecpKey (pk sk)) ->
  (forall ps ps' salt, Permutation ps ps' -> contract_addr H ps salt = contract_addr H ps' salt) ->
  forall sk preds preds' salt, Permutation preds preds' ->
    recover_contract H recover_raw preds' salt (sign_contract H secret sign_raw sk preds salt) = Some (pk sk) /\
    verify_contract H recover_raw preds' salt (sign_contract H secret sign_raw sk preds salt) = true.
Proof. exact sign_recover_any_order. Qed.

(* The bytes that are signed are H(contract_preimage). *)
Theorem C19_signed_digest_is_hash_of_preimage :
  forall (H : list Z -> list Z) (secret : Type) (sign_raw : secret -> list Z -> list Z * Z) sk preds salt,
    sign_contract H secret sign_raw sk preds salt = sign_raw sk (H (contract_preimage H preds salt)).
Proof. exact signed_digest_is_hash_of_preimage. Qed.

(* Tampering: a changed salt or a changed multiset of predicate addresses changes the hashed pre-image, and
   changes the signed digest unless H collides.  (Premise `contract_preimage_injective_multiset` is the
   injectivity of the pre-image; it is discharged in C19_contract_preimage_injective_multiset below.)
   NOT CLAIMED: the step from "a different digest was signed" to "recovery over the tampered contract yields a
   different key" is the ECDSA unforgeability assumption, which this development does not make. *)
Theorem C19_tamper_changes_signed_bytes :
  forall (H : list Z -> list Z),
  (forall ps salt ps' salt', length salt = 32%nat -> length salt' = 32%nat ->
     contract_preimage H ps salt = contract_preimage H ps' salt' ->
     salt = salt' /\ Permutation (map (predicate_addr H) ps) (map (predicate_addr H) ps')) ->
  forall preds salt preds' salt', length salt = 32%nat -> length salt' = 32%nat ->
    salt <> salt' \/ ~ Permutation (map (predicate_addr H) preds) (map (predicate_addr H) preds') ->
    contract_preimage H preds salt <> contract_preimage H preds' salt' /\
    (contract_addr H preds salt <> contract_addr H preds' salt' \/ (exists a b, a <> b /\ H a = H b)).
Proof. exact tamper_changes_signed_bytes. Qed.

(* Contrapositive chain: equal signed digests mean equal pre-images or a collision of H ... *)
Theorem C19_equal_digest_preimage_or_collision :
  forall (H : list Z -> list Z) preds salt preds' salt',
    contract_addr H preds salt = contract_addr H preds' salt' ->
    contract_preimage H preds salt = contract_preimage H preds' salt' \/ (exists a b, a <> b /\ H a = H b).
Proof. exact equal_digest_preimage_or_collision. Qed.

(* ... and equal pre-images mean the same salt and the same multiset of predicate addresses (for every H with
   32-byte output; no premise). *)
Theorem C19_contract_preimage_injective_multiset :
  forall (H : list Z -> list Z), (forall bs, length (H bs) = 32%nat) ->
  forall ps salt ps' salt', length salt = 32%nat -> length salt' = 32%nat ->
    contract_preimage H ps salt = contract_preimage H ps' salt' ->
    salt = salt' /\ Permutation (map (predicate_addr H) ps) (map (predicate_addr H) ps').
Proof. exact contract_preimage_injective_multiset_holds. Qed.

(* The tamper statement with its premise discharged. *)
Theorem C19_tamper_changes_signed_bytes_closed :
  forall (H : list Z -> list Z), (forall bs, length (H bs) = 32%nat) ->
  forall preds salt preds' salt', length salt = 32%nat -> length salt' = 32%nat ->
    salt <> salt' \/ ~ Permutation (map (predicate_addr H) preds) (map (predicate_addr H) preds') ->
    contract_preimage H preds salt <> contract_preimage H preds' salt' /\
    (contract_addr H preds salt <> contract_addr H preds' salt' \/ (exists a b, a <> b /\ H a = H b)).
Proof. exact tamper_changes_signed_bytes_closed. Qed.

(* A recovery id outside 0..3 is an error for every secp256k1 oracle (it is not consulted). *)
Theorem C19_bad_recovery_id_is_error :
  forall (recover_raw : list Z -> list Z -> Z -> secp_res) d sg id,
    id < 0 \/ 3 < id -> recover_hash recover_raw d sg id = None.
Proof. exact bad_recovery_id_is_error. Qed.

(* A signature that does not parse, or from which no key can be recovered, is an error (`None`); `recover_hash`
   has no other outcome than a key or an error ... *)
Theorem C19_malformed_signature_is_error :
  forall (recover_raw : list Z -> list Z -> Z -> secp_res) d sg id,
    recover_raw d sg id = SecpParseErr \/ recover_raw d sg id = SecpNoKey -> recover_hash recover_raw d sg id = None.
Proof. exact malformed_signature_is_error. Qed.
Theorem C19_recover_hash_some :
  forall (recover_raw : list Z -> list Z -> Z -> secp_res) d sg id k,
    recover_hash recover_raw d sg id = Some k <-> 0 <= id <= 3 /\ recover_raw d sg id = SecpKey k.
Proof. exact recover_hash_some. Qed.
(* ... and the VM's RecoverSecp256k1 op never panics, on any stack and for any oracle. *)
Theorem C19_vm_recover_never_panics :
  forall E s site, op_recover_secp256k1 E s <> Panic site.
Proof. exact op_recover_secp256k1_never_panics. Qed.

(* encode::public_key is injective on 33-byte keys and yields 5 words, the fifth holding the last byte. *)
Theorem C19_public_key_words_injective :
  forall a b, length a = 33%nat -> length b = 33%nat -> Forall byte a -> Forall byte b ->
    public_key_words a = public_key_words b -> a = b.
Proof. exact public_key_words_injective. Qed.
Theorem C19_public_key_words_shape :
  forall k, length k = 33%nat -> Forall byte k ->
    length (public_key_words k) = 5%nat /\ Forall i64 (public_key_words k) /\ 0 <= nth 4 (public_key_words k) 0 < 256.
Proof. exact public_key_words_shape. Qed.

(* encode::signature is injective on (64 bytes, recovery id) and yields 9 words, the ninth being the id. *)
Theorem C19_signature_words_injective :
  forall a i b j, length a = 64%nat -> length b = 64%nat -> Forall byte a -> Forall byte b ->
    signature_words a i = signature_words b j -> a = b /\ i = j.
Proof. exact signature_words_injective. Qed.
Theorem C19_signature_words_shape :
  forall sg id, length sg = 64%nat -> i64 id ->
    length (signature_words sg id) = 9%nat /\ Forall i64 (signature_words sg id) /\ nth 8 (signature_words sg id) 0 = id.
Proof. exact signature_words_shape. Qed.

(* The 8k-byte / k-word conversion used by both encodings is a bijection. *)
Theorem C19_bytes_of_words_of_bytes :
  forall k b, length b = (8 * k)%nat -> Forall byte b -> bytes_of_words (words_of_bytes k b) = b.
Proof. exact bytes_of_words_of_bytes. Qed.

(* The VM op pops exactly encode::signature (on top of the 4 digest words), hands the oracle the original digest
   and signature bytes, and pushes exactly encode::public_key of the recovered key. *)
Theorem C19_vm_consumes_sign_encoding :
  forall E (recover_raw : list Z -> list Z -> Z -> secp_res) h sg id s,
  e_secp E = recover_raw ->
  length h = 32%nat -> Forall byte h -> length sg = 64%nat -> Forall byte sg -> 0 <= id <= 3 ->
  zlen s + 13 <= 4096 ->
  op_recover_secp256k1 E (rev (signature_words sg id) ++ rev (words4 h) ++ s) =
  match recover_raw h sg id with
  | SecpKey k => Ok (rev (public_key_words k) ++ s)
  | SecpNoKey => Ok (0 :: 0 :: 0 :: 0 :: 0 :: s)
  | SecpParseErr => Err ECrypto
  end.
Proof. exact vm_consumes_sign_encoding. Qed.

(* ================= the hypotheses are satisfiable: a toy scheme over real SHA-256 ================= *)
(* SHA-256 truncated/padded to 32 bytes (equal to SHA-256 whenever that returns 32 bytes), so that the length
   premise is provable without a proof about the compression function. *)
Definition C19_H (bs : list Z) : list Z := firstn 32 (sha256 bs ++ repeat 0 32).
Definition C19_pk (sk : Z) : list Z := 2 :: repeat (sk mod 4) 32.
Definition C19_sign (sk : Z) (h : list Z) : list Z * Z := (h ++ h, sk mod 4).
Definition C19_recover (h sg : list Z) (id : Z) : secp_res :=
  if negb (length sg =? 64)%nat then SecpParseErr
  else if nth 0 sg 0 =? nth 0 h 0 then SecpKey (2 :: repeat id 32) else SecpNoKey.

Example C19_H_len : forall bs, length (C19_H bs) = 32%nat.
Proof. intros bs. unfold C19_H. rewrite firstn_length, app_length, repeat_length. lia. Qed.

Example C19_toy_scheme_correct : forall sk h, length h = 32%nat ->
  let (sg, id) := C19_sign sk h in 0 <= id <= 3 /\ C19_recover h sg id = SecpKey (C19_pk sk).
Proof.
  intros sk h L. unfold C19_sign, C19_recover, C19_pk.
  pose proof (Z.mod_pos_bound sk 4 eq_refl) as B. split; [lia|].
  replace (length (h ++ h)) with 64%nat by (rewrite app_length; lia).
  rewrite Nat.eqb_refl. cbn [negb]. rewrite app_nth1 by lia. rewrite Z.eqb_refl. reflexivity.
Qed.

Definition C19_p1 : predicate := {| p_nodes := [{| n_edge_start := 0; n_program := repeat 1 32 |}]; p_edges := [] |}.
Definition C19_p2 : predicate :=
  {| p_nodes := [{| n_edge_start := 0; n_program := repeat 7 32 |}; {| n_edge_start := 1; n_program := repeat 9 32 |}];
     p_edges := [1] |}.
Definition C19_salt : list Z := repeat 5 32.
Definition C19_salt' : list Z := repeat 5 31 ++ [6].
Definition C19_sig : list Z * Z := sign_contract C19_H Z C19_sign 7 [C19_p1; C19_p2] C19_salt.
Definition C19_env : env :=
  {| e_solutions := []; e_index := 0; e_pre := fun _ _ _ => None; e_post := fun _ _ _ => None;
     e_cost := fun _ => 1; e_sha256 := sha256; e_ed25519 := fun _ _ _ => None; e_secp := C19_recover |}.

(* both predicates encode, so their addresses are real SHA-256 digests *)
Example C19_ex_addrs_are_hashes :
  predicate_preimage C19_p1 <> None /\ predicate_preimage C19_p2 <> None /\
  contract_addr C19_H [C19_p1; C19_p2] C19_salt = sha256 (contract_preimage C19_H [C19_p1; C19_p2] C19_salt).
Proof. vm_compute. repeat split; discriminate. Qed.

(* sign over [p1; p2], recover and verify over [p1; p2] and over [p2; p1]: the signer's key (recovery id 7 mod 4 = 3) *)
Example C19_ex_sign_recover :
  snd C19_sig = 3 /\
  recover_contract C19_H C19_recover [C19_p1; C19_p2] C19_salt C19_sig = Some (C19_pk 7) /\
  recover_contract C19_H C19_recover [C19_p2; C19_p1] C19_salt C19_sig = Some (C19_pk 7) /\
  verify_contract C19_H C19_recover [C19_p2; C19_p1] C19_salt C19_sig = true.
Proof. vm_compute. repeat split. Qed.

(* tampering with the salt or dropping a predicate changes the signed digest; a bad id / malformed signature is None *)
Example C19_ex_tamper :
  contract_addr C19_H [C19_p1; C19_p2] C19_salt <> contract_addr C19_H [C19_p1; C19_p2] C19_salt' /\
  contract_addr C19_H [C19_p1; C19_p2] C19_salt <> contract_addr C19_H [C19_p1] C19_salt /\
  recover_contract C19_H C19_recover [C19_p1; C19_p2] C19_salt (fst C19_sig, 4) = None /\
  recover_contract C19_H C19_recover [C19_p1; C19_p2] C19_salt (firstn 63 (fst C19_sig), 3) = None.
Proof. vm_compute. repeat split; discriminate. Qed.

(* the VM op on the encoded signature and digest pushes the encoded public key of the signer *)
Example C19_ex_vm :
  op_recover_secp256k1 C19_env
    (rev (signature_words (fst C19_sig) (snd C19_sig)) ++ rev (words4 (contract_addr C19_H [C19_p1; C19_p2] C19_salt)) ++ [42])
  = Ok (rev (public_key_words (C19_pk 7)) ++ [42]) /\
  public_key_words (C19_pk 7) = [144962924476302083; 217020518514230019; 217020518514230019; 217020518514230019; 3].
Proof. vm_compute. split; reflexivity. Qed.
