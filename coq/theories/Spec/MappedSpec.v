(* Declarative notions for C14: the byte offset of every operation of a list in its serialisation. *)
From EB Require Export Asm.Op.
Open Scope list_scope.
Open Scope Z_scope.

(* running sums of the encoded lengths: the k-th entry is start + sum of |to_bytes1 o| over the first k ops *)
Fixpoint offsets (start : Z) (ops : list op) : list Z :=
  match ops with
  | [] => []
  | o :: rest => start :: offsets (start + zlen (to_bytes1 o)) rest
  end.

(* the observable status of a fallible computation: success, or which error *)
Definition status {E A} (x : outcome E A) : outcome E unit := omap (fun _ => tt) x.
