(* Declarative definitions used by the statements of C03 (deferral and post-state reads of the two-pass check).
   Nothing here refers to find_deferred, post_get, rof_loop, state_range or build_post_state; `keys_from` walks the
   model's `next_key`, which C03_next_key_* characterise as the numeric successor. *)
From Coq Require Import ZArith List Lia Bool Relations.
From EB Require Export Check.Set.
Import ListNotations.
Open Scope list_scope.

(* ---------------- the predicate graph ---------------- *)
Open Scope nat_scope.
Definition edge (p : predicate) (u v : nat) : Prop :=
  u < length (p_nodes p) /\ exists cs, children p u = Some cs /\ In v cs.
Definition reach (p : predicate) : nat -> nat -> Prop := clos_refl_trans nat (edge p).
Definition closed_graph (p : predicate) : Prop := forall u v, edge p u v -> v < length (p_nodes p).

(* the filters of the two passes *)
Definition is_nil {A} (l : list A) : bool := match l with [] => true | _ => false end.
Definition keep_first (d : list nat) (x : nat) : bool := negb (memb x d).
Definition keep_second (d : list nat) (x : nat) : bool := memb x d.

Open Scope Z_scope.
(* ---------------- keys ---------------- *)
(* a key as a big-endian number in base 2^64, the digit of word w being w - i64_min *)
Definition num (k : list Z) : Z := fold_left (fun a w => a * 2^64 + (w - i64_min)) k 0.

(* ---------------- the proposed mutations ---------------- *)
(* --- SPEC: value of the last entry for (c, k) --- *)
Fixpoint last_entry (ps : post_state) (c k : list Z) : option (list Z) :=
  match ps with
  | [] => None
  | (c', k', v) :: r =>
      match last_entry r c k with
      | Some v' => Some v'
      | None => if list_eq_dec Z.eq_dec c' c then if list_eq_dec Z.eq_dec k' k then Some v else None else None
      end
  end.

Definition no_entry (ps : post_state) (c k : list Z) : Prop := forall v, ~ In (c, k, v) ps.

(* --- SPEC: overlay value and key ranges --- *)
Definition overlay (ps : post_state) (pre : view) (c k : list Z) : option (list Z) :=
  match last_entry ps c k with
  | Some v => Some v                          (* proposed value; [] = deletion = the empty value *)
  | None => match pre c k 1 with
            | Some vs => Some (last vs [])    (* the pre-state value *)
            | None => None                    (* the pre-state read failed *)
            end
  end.

(* k, succ k, succ (succ k), ... : at most m keys, stopping at the maximal key *)
Fixpoint keys_from (k : list Z) (m : nat) {struct m} : list (list Z) :=
  match m with
  | O => []
  | S m' => k :: match next_key k with Some k' => keys_from k' m' | None => [] end
  end.

(* all-or-nothing collection *)
Fixpoint collect {A} (l : list (option A)) : option (list A) :=
  match l with
  | [] => Some []
  | None :: _ => None
  | Some v :: r => option_map (cons v) (collect r)
  end.

(* number of keys the harness state answers for a request of n values *)
Definition req (n : Z) : nat := Z.to_nat (Z.min (Z.max n 0) range_cap).

(* ---------------- the in-memory state ---------------- *)
(* value of key k of contract c; absent = the empty value *)
Definition st_val (st : state) (c k : list Z) : list Z :=
  match st_get c st with
  | Some m => match kv_get k m with Some v => v | None => [] end
  | None => []
  end.

(* the value a post-state read returns for key k of contract c *)
Definition overlay_val (ps : post_state) (st : state) (c k : list Z) : list Z :=
  match last_entry ps c k with Some v => v | None => st_val st c k end.

(* SPEC: the mutations proposed for contract c, in solution order then mutation order *)
Definition muts_of (c : list Z) (sols : list solution) : list mutation :=
  flat_map (fun s => if list_eq_dec Z.eq_dec (sol_contract s) c then sol_muts s else []) sols.
(* SPEC: value of the last mutation with key k *)
Fixpoint last_mut (k : list Z) (ms : list mutation) : option (list Z) :=
  match ms with
  | [] => None
  | m :: r => match last_mut k r with
              | Some v => Some v
              | None => if list_eq_dec Z.eq_dec (m_key m) k then Some (m_value m) else None
              end
  end.

(* the (contract, key) pairs mutated by the set *)
Definition set_pairs (sols : list solution) : list (list Z * list Z) :=
  flat_map (fun s => map (fun m => (sol_contract s, m_key m)) (sol_muts s)) sols.

(* envs that agree on the solution set, the index and the PRE view (whatever their post views) *)
Definition agree_pre (E1 E2 : env) : Prop :=
  e_solutions E1 = e_solutions E2 /\ e_index E1 = e_index E2 /\
  forall c k n, e_pre E1 c k n = e_pre E2 c k n.
(* ... and the POST view (whatever their pre views) *)
Definition agree_post (E1 E2 : env) : Prop :=
  e_solutions E1 = e_solutions E2 /\ e_index E1 = e_index E2 /\
  forall c k n, e_post E1 c k n = e_post E2 c k n.
