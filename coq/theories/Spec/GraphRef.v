(* Reference semantics of checking a solution set against its predicate graphs (C01, C03), written
   from the property text: every node is evaluated once, after all of its parents, from the concatenation of
   its parents' results in ascending parent order; the verdict depends on the edges only.
   It shares with the model only the data types, `node_edges`, the VM (`run_program`) and the state views. *)
From EB Require Export Check.Set.
Open Scope list_scope.

Section Ref.
  Variable p : predicate.
  Variable run : nat -> bool -> list sm -> outcome unit prog_res.

  Definition n_nodes : nat := length (p_nodes p).
  Definition edges_valid : bool := forallb (fun ix => match children p ix with Some _ => true | None => false end) (seq 0 n_nodes).
  Definition kids (u : nat) : list nat := match children p u with Some l => l | None => [] end.
  (* parents of v in ascending order, once per edge *)
  Definition parents_ref (v : nat) : list nat :=
    flat_map (fun u => repeat u (count_occ Nat.eq_dec (kids u) v)) (seq 0 n_nodes).
  Definition leaf_ref (v : nat) : bool := match kids v with [] => true | _ => false end.

  (* depth of v: 1 + max depth of parents; None when it exceeds the fuel (only possible on a cycle) *)
  Fixpoint depth (fuel : nat) (v : nat) : option nat :=
    match fuel with
    | O => None
    | S f => fold_left (fun acc u => match acc, depth f u with
                                     | Some a, Some d => Some (Nat.max a (S d))
                                     | _, _ => None
                                     end) (parents_ref v) (Some O)
    end.
  Definition acyclic_ref : bool := forallb (fun v => match depth (S n_nodes) v with Some _ => true | None => false end) (seq 0 n_nodes).
  Definition graph_ok : bool := edges_valid && acyclic_ref.

  (* value of a node: None = not evaluable (a parent failed), Some r = the result of running it on its parents' outputs *)
  Inductive nval := NVParent (o : sm) (g : Z) | NVLeaf (o : leaf_out) (g : Z) | NVFail | NVSkipped.

  Fixpoint value (skip : nat -> bool) (fuel : nat) (v : nat) : outcome unit nval :=
    match fuel with
    | O => OutOfFuel
    | S f =>
      if skip v then Ok NVSkipped else
      let fix gather (us : list nat) : outcome unit (option (list sm)) :=
          match us with
          | [] => Ok (Some [])
          | u :: r =>
              let* x := value skip f u in
              let* rest := gather r in
              Ok (match x, rest with NVParent o _, Some l => Some (o :: l) | _, _ => None end)
          end in
      let* ins := gather (parents_ref v) in
      match ins with
      | None => Ok NVSkipped                 (* some parent has no output: the node cannot be evaluated *)
      | Some ins =>
          let* r := run v (leaf_ref v) ins in
          Ok (match r with
              | PRun (OutParent s m) g => NVParent (s, m) g
              | PRun (OutLeaf o) g => NVLeaf o g
              | PFail => NVFail
              end)
      end
    end.
End Ref.

(* ancestors-or-self contain a post-state read *)
Fixpoint deferred_ref (p : predicate) (reader : nat -> bool) (fuel : nat) (v : nat) : bool :=
  match fuel with
  | O => reader v
  | S f => reader v || existsb (deferred_ref p reader f) (parents_ref p v)
  end.

(* the inputs the reference feeds to node v: the outputs of its parents in ascending order *)
Definition ref_inputs (p : predicate) (vals : list (nat * nval)) (v : nat) : list sm :=
  flat_map (fun u => match find (fun e => Nat.eqb (fst e) u) vals with
                     | Some (_, NVParent o _) => [o]
                     | _ => []
                     end) (parents_ref p v).

Record pass_summary := {
  ps_ok : bool;                      (* every evaluated node ran successfully and every evaluated leaf is satisfied or a data output *)
  ps_gas : Z;
  ps_data : list (list Z);           (* memories of data-output leaves, in node order *)
  ps_failed : list nat; ps_unsat : list nat;
  ps_runs : list (nat * list sm);    (* the nodes of this pass that were evaluated, with their inputs *)
}.

(* one solution, one pass over the selected nodes; `base` supplies values of the nodes of the other pass *)
Definition eval_pass (p : predicate) (run : nat -> bool -> list sm -> outcome unit prog_res) (skip : nat -> bool)
  : outcome unit (list (nat * nval)) :=
  let n := length (p_nodes p) in
  (fix go (vs : list nat) : outcome unit (list (nat * nval)) :=
     match vs with
     | [] => Ok []
     | v :: r => let* x := value p run skip (S n) v in
                 let* rest := go r in
                 Ok ((v, x) :: rest)
     end) (seq 0 n).

Definition summarize (p : predicate) (all_vals vals : list (nat * nval)) : pass_summary :=
  {| ps_runs := flat_map (fun e => match snd e with NVSkipped => [] | _ => [(fst e, ref_inputs p all_vals (fst e))] end) vals;
     ps_ok := forallb (fun e => match snd e with
                                | NVParent _ _ => true
                                | NVLeaf (Satisfied false) _ => false
                                | NVLeaf _ _ => true
                                | _ => false
                                end) vals;
     ps_gas := fold_left (fun a e => match snd e with NVParent _ g | NVLeaf _ g => sat_add_u64 a g | _ => a end) vals 0;
     ps_data := flat_map (fun e => match snd e with NVLeaf (DataOutput m) _ => [m] | _ => [] end) vals;
     ps_failed := flat_map (fun e => match snd e with NVFail => [fst e] | _ => [] end) vals;
     ps_unsat := flat_map (fun e => match snd e with NVLeaf (Satisfied false) _ => [fst e] | _ => [] end) vals |}.

(* ---- the whole set, two passes ---- *)
Inductive ref_verdict :=
| RefOk (gas : Z) (sols : list solution) (runs : list (nat * nat * list sm))   (* (solution, node, inputs) *)
| RefInvalidGraph (sol : nat)
| RefFailed                      (* some program failed or some leaf is unsatisfied, or mutations are invalid *)
| RefPanic | RefFuel.

Definition sol_predicate_of (lk : lookup) (s : solution) : predicate := lk_predicate lk (sol_contract s) (sol_predicate s).

Section RefSet.
  Variable fuel : nat.
  Variable lk : lookup.
  Variable pre_state : state.

  Definition pre_v : view := state_view pre_state.

  (* post view of the specification: the value proposed by the set for (contract, key), else the pre-state *)
  Definition overlay_view (sols : list solution) : view := read_or_fallback (build_post_state sols) pre_v.

  Definition run_for (sols : list solution) (post : view) (i : nat) (p : predicate) : nat -> bool -> list sm -> outcome unit prog_res :=
    fun ix leaf ins => run_program fuel {| sc_solutions := sols; sc_index := i; sc_pre := pre_v; sc_post := post |}
                                   (node_program lk p ix) leaf ins.

  Definition is_deferred_ref (p : predicate) (v : nat) : bool :=
    deferred_ref p (node_is_deferred lk p) (length (p_nodes p)) v.

  (* pass over all solutions; returns per-solution summaries *)
  Fixpoint pass_all (sols : list solution) (post : view) (second : bool) (ixs : list nat) : outcome unit (list (nat * pass_summary)) :=
    match ixs with
    | [] => Ok []
    | i :: r =>
        let p := sol_predicate_of lk (nth i sols empty_solution) in
        (* first pass: only nodes that do not depend on a post-state read; second pass: the others, fed by all *)
        let* vals := eval_pass p (run_for sols post i p) (fun v => negb second && is_deferred_ref p v) in
        let* rest := pass_all sols post second r in
        Ok ((i, summarize p vals (filter (fun e => Bool.eqb (is_deferred_ref p (fst e)) second) vals)) :: rest)
    end.

  Definition apply_all (sums : list (nat * pass_summary)) (sols : list solution) : outcome set_err (list solution) :=
    decode_mutations_set (map (fun s => (fst s, ps_data (snd s))) sums) sols.

  Definition reference (sols : list solution) : ref_verdict :=
    let ixs := seq 0 (length sols) in
    match find (fun i => negb (graph_ok (sol_predicate_of lk (nth i sols empty_solution)))) ixs with
    | Some i => RefInvalidGraph i
    | None =>
      match pass_all sols pre_v false ixs with
      | Panic _ => RefPanic | OutOfFuel => RefFuel | Err _ => RefPanic
      | Ok s1 =>
        if negb (forallb (fun s => ps_ok (snd s)) s1) then RefFailed
        else match apply_all s1 sols with
             | Ok sols1 =>
               match pass_all sols1 (overlay_view sols1) true ixs with
               | Panic _ => RefPanic | OutOfFuel => RefFuel | Err _ => RefPanic
               | Ok s2 =>
                 if negb (forallb (fun s => ps_ok (snd s)) s2) then RefFailed
                 else match apply_all s2 sols1 with
                      | Ok sols2 =>
                          RefOk (sat_add_u64 (fold_left (fun a s => sat_add_u64 a (ps_gas (snd s))) s1 0)
                                             (fold_left (fun a s => sat_add_u64 a (ps_gas (snd s))) s2 0)) sols2
                                (flat_map (fun s => map (fun r => (fst s, fst r, snd r)) (ps_runs (snd s))) (s1 ++ s2))
                      | Err _ => RefFailed
                      | Panic _ => RefPanic | OutOfFuel => RefFuel
                      end
               end
             | Err _ => RefFailed
             | Panic _ => RefPanic | OutOfFuel => RefFuel
             end
      end
    end.
End RefSet.
