(* C06 - declarative definitions: what "well-typed" means for the data handed to the check entry points.
   Nothing is assumed of predicates (graphs may be cyclic, dangling, malformed) nor of program bytes beyond
   being bytes.  No proofs here. *)
From Coq Require Import ZArith List.
From EB Require Import Check.Set Vm.Machine.
Import ListNotations.
Open Scope list_scope.
Open Scope Z_scope.

(* well-typed solutions, views, contexts, parent outputs *)
Definition sol_ok (s : solution) : Prop :=
  Forall (Forall i64) (sol_data s) /\ zlen (sol_data s) <= i64_max /\ Forall (fun d => zlen d <= i64_max) (sol_data s)
  /\ length (sol_contract s) = 32%nat /\ Forall byte (sol_contract s)
  /\ length (sol_predicate s) = 32%nat /\ Forall byte (sol_predicate s).
Definition view_ok (v : view) : Prop := forall c k n vs, v c k n = Some vs -> Forall (Forall i64) vs.
Definition ctx_ok (c : sol_ctx) : Prop :=
  Forall sol_ok (sc_solutions c) /\ (sc_index c < length (sc_solutions c))%nat /\ view_ok (sc_pre c) /\ view_ok (sc_post c).
Definition sm_ok (io : sm) : Prop := Forall i64 (fst io) /\ Forall i64 (snd io).

(* states: every stored / proposed value consists of i64 words *)
Definition kv_ok (m : kv) : Prop := Forall (fun e => Forall i64 (snd e)) m.
Definition state_ok (s : state) : Prop := Forall (fun ce => kv_ok (snd ce)) s.
Definition ps_ok (ps : post_state) : Prop := Forall (fun e => Forall i64 (snd e)) ps.

(* mutations, solutions with their mutations, program lookup *)
Definition mut_ok (m : mutation) : Prop := Forall i64 (m_key m) /\ Forall i64 (m_value m).
Definition sol_ok2 (s : solution) : Prop := sol_ok s /\ Forall mut_ok (sol_muts s).
Definition lk_ok (lk : lookup) : Prop := forall a, Forall byte (lk_program lk a) /\ zlen (lk_program lk a) <= usize_max.
