(* Declarative specification of the "data" operations (Stack / Pred / Alu / Memory / ParentMemory),
   written from crates/asm-spec/asm.yml (descriptions, stack_in / stack_out, panics).

   Conventions: the stack is a list with the TOP AT THE HEAD, so an asm.yml entry `stack_in: [x, y, z]`
   (last listed word = top) is the pattern `z :: y :: x :: rest`.  Memory index 0 is the head of the list.
   `op_spec o s m pm = Some (s', m')` : the operation succeeds with new stack s' and new memory m';
   `None` : the operation fails (and then produces no result at all).
   Frame conditions are part of every clause: the untouched part `rest` of the stack and the untouched
   words of memory are literally the same sublists in the result.

   This file deliberately does not use the VM model (Vm/Machine.v, Vm/Step.v): only the `op` type, Z
   arithmetic and the list functions firstn / skipn / nth_error / rev / repeat / app. *)
From Coq Require Import ZArith List Bool.
From EB Require Import Asm.Op.
Import ListNotations.
Open Scope list_scope.
Open Scope Z_scope.

Definition len {A} (l : list A) : Z := Z.of_nat (length l).
Notation nat_of := Z.to_nat (only parsing).

Definition stack_limit : Z := 4096.     (* Stack::SIZE_LIMIT *)
Definition memory_limit : Z := 10240.   (* Memory::SIZE_LIMIT *)

Definition b2z (b : bool) : Z := if b then 1 else 0.

(* the mathematical range of a Word (i64) *)
Definition in_i64 (z : Z) : bool := (-9223372036854775808 <=? z) && (z <=? 9223372036854775807).
(* a value 0 <= u < 2^64 read as a two's complement signed word *)
Definition signed64 (u : Z) : Z := if u <? 9223372036854775808 then u else u - 18446744073709551616.
Definition pow64 : Z := 18446744073709551616.

(* a result stack must respect the size limit *)
Definition ret (s m : list Z) : option (list Z * list Z) :=
  if len s <=? stack_limit then Some (s, m) else None.

Definition same_words (a b : list Z) : bool := if list_eq_dec Z.eq_dec a b then true else false.

(* ---- EqSet: a block (given top word first) is a sequence of elements, each `elem_len` followed (going
   down the stack) by `elem_len` words.  `fuel` only makes the recursion structural. ---- *)
Fixpoint elems_of_block (fuel : nat) (blk : list Z) : option (list (list Z)) :=
  match blk with
  | [] => Some []
  | l :: rest =>
    match fuel with
    | O => None
    | S f =>
      if (0 <=? l) && (l <=? len rest) then
        match elems_of_block f (skipn (nat_of l) rest) with
        | Some es => Some (firstn (nat_of l) rest :: es)
        | None => None
        end
      else None
    end
  end.
Definition block_elems (blk : list Z) : option (list (list Z)) := elems_of_block (length blk) blk.

Definition subset_of (a b : list (list Z)) : bool := forallb (fun x => existsb (same_words x) b) a.
Definition same_set (a b : list (list Z)) : bool := subset_of a b && subset_of b a.

(* binary operations: stack_in [lhs, rhs] = rhs :: lhs :: rest *)
Definition binop (f : Z -> Z -> option Z) (s m : list Z) : option (list Z * list Z) :=
  match s with
  | rhs :: lhs :: rest => match f lhs rhs with Some r => Some (r :: rest, m) | None => None end
  | _ => None
  end.
Definition total (f : Z -> Z -> Z) (lhs rhs : Z) : option Z := Some (f lhs rhs).
Definition test (f : Z -> Z -> bool) (lhs rhs : Z) : option Z := Some (b2z (f lhs rhs)).
Definition checked (f : Z -> Z -> Z) (lhs rhs : Z) : option Z :=
  if in_i64 (f lhs rhs) then Some (f lhs rhs) else None.
Definition shift (f : Z -> Z -> Z) (x bits : Z) : option Z :=
  if (0 <=? bits) && (bits <? 64) then Some (f x bits) else None.

(* reading memory `src` (own or parent); the own memory `m` is returned unchanged *)
Definition spec_load (src : list Z) (s m : list Z) : option (list Z * list Z) :=
  match s with
  | addr :: rest =>
      if (0 <=? addr) && (addr <? len src) then
        match nth_error src (nat_of addr) with Some w => Some (w :: rest, m) | None => None end
      else None
  | _ => None
  end.
Definition spec_load_range (src : list Z) (s m : list Z) : option (list Z * list Z) :=
  match s with
  | size :: addr :: rest =>
      if (0 <=? addr) && (0 <=? size) && (addr + size <=? len src)
      then ret (rev (firstn (nat_of size) (skipn (nat_of addr) src)) ++ rest) m   (* first word deepest *)
      else None
  | _ => None
  end.

Definition is_data_op (o : op) : bool :=
  match o with
  | OPush _ | OPop | ODup | ODupFrom | OSwap | OSwapIndex | OSelect | OSelectRange | OReserve | OLoadS | OStoreS | ODrop
  | OEq | OEqRange | OGt | OLt | OGte | OLte | OAnd | OOr | ONot | OEqSet | OBitAnd | OBitOr
  | OAdd | OSub | OMul | ODiv | OMod | OShl | OShr | OShrI
  | OAlloc | OFree | OLoad | OStore | OLoadRange | OStoreRange
  | OLoadP | OLoadRangeP => true
  | _ => false
  end.

Definition op_spec (o : op) (s m : list Z) (pm : list (list Z)) : option (list Z * list Z) :=
  match o with
  (* ---------------- Stack ---------------- *)
  | OPush w => ret (w :: s) m
  | OPop => match s with _ :: rest => Some (rest, m) | _ => None end
  | ODup => match s with a :: rest => ret (a :: a :: rest) m | _ => None end
  | ODupFrom =>                                  (* index 0 = top of the remaining stack *)
      match s with
      | i :: rest =>
          if (0 <=? i) && (i <? len rest) then
            match nth_error rest (nat_of i) with Some w => Some (w :: rest, m) | None => None end
          else None
      | _ => None
      end
  | OSwap => match s with b :: a :: rest => Some (a :: b :: rest, m) | _ => None end
  | OSwapIndex =>                                (* exchange the top `t` with the word at depth i *)
      match s with
      | i :: t :: below =>
          if i =? 0 then Some (t :: below, m)
          else if (0 <? i) && (i <=? len below) then
            match nth_error below (nat_of (i - 1)) with
            | Some x => Some (x :: firstn (nat_of (i - 1)) below ++ t :: skipn (nat_of i) below, m)
            | None => None
            end
          else None
      | _ => None
      end
  | OSelect =>                                   (* stack_in [a, b, cond]: keep the top element b if cond *)
      match s with
      | c :: b :: a :: rest =>
          if c =? 1 then Some (b :: rest, m) else if c =? 0 then Some (a :: rest, m) else None
      | _ => None
      end
  | OSelectRange =>                              (* stack_in [arr_a.., arr_b.., len, cond] *)
      match s with
      | c :: n :: rest =>
          if ((c =? 0) || (c =? 1)) && (0 <=? n) && (2 * n <=? len rest) then
            Some (if c =? 1 then firstn (nat_of n) rest ++ skipn (nat_of (2 * n)) rest   (* arr_b, then what was below arr_a *)
                  else skipn (nat_of n) rest,                                       (* arr_a and below *)
                  m)
          else None
      | _ => None
      end
  | OReserve =>                                  (* n zero words, then the index (from the bottom) of their start *)
      match s with
      | n :: rest =>
          if (0 <=? n) && (len rest + n + 1 <=? stack_limit)
          then Some (len rest :: repeat 0 (nat_of n) ++ rest, m)
          else None
      | _ => None
      end
  | OLoadS =>                                    (* index 0 = BOTTOM of the remaining stack *)
      match s with
      | i :: rest =>
          if (0 <=? i) && (i <? len rest) then
            match nth_error (rev rest) (nat_of i) with Some w => Some (w :: rest, m) | None => None end
          else None
      | _ => None
      end
  | OStoreS =>                                   (* stack_in [value, index]; index from the BOTTOM *)
      match s with
      | i :: w :: rest =>
          if (0 <=? i) && (i <? len rest) then
            let d := len rest - 1 - i in          (* depth from the top *)
            Some (firstn (nat_of d) rest ++ w :: skipn (nat_of (d + 1)) rest, m)
          else None
      | _ => None
      end
  | ODrop =>
      match s with
      | n :: rest => if (0 <=? n) && (n <=? len rest) then Some (skipn (nat_of n) rest, m) else None
      | _ => None
      end
  (* ---------------- Pred ---------------- *)
  | OEq => binop (test Z.eqb) s m
  | OGt => binop (test Z.gtb) s m
  | OLt => binop (test Z.ltb) s m
  | OGte => binop (test Z.geb) s m
  | OLte => binop (test Z.leb) s m
  | OAnd => binop (test (fun l r => negb (l =? 0) && negb (r =? 0))) s m
  | OOr => binop (test (fun l r => negb (l =? 0) || negb (r =? 0))) s m
  | ONot => match s with a :: rest => Some (b2z (a =? 0) :: rest, m) | _ => None end
  | OBitAnd => binop (total Z.land) s m
  | OBitOr => binop (total Z.lor) s m
  | OEqRange =>                                  (* stack_in [arr_a.., arr_b.., len] *)
      match s with
      | n :: rest =>
          if (0 <=? n) && (2 * n <=? len rest) then
            Some (b2z (same_words (firstn (nat_of n) rest) (firstn (nat_of n) (skipn (nat_of n) rest)))
                    :: skipn (nat_of (2 * n)) rest, m)
          else None
      | _ => None
      end
  | OEqSet =>                                    (* stack_in [lhs.., lhs_len, rhs.., rhs_len] *)
      match s with
      | rn :: s1 =>
          if (0 <=? rn) && (rn <=? len s1) then
            match skipn (nat_of rn) s1 with
            | ln :: s2 =>
                if (0 <=? ln) && (ln <=? len s2) then
                  match block_elems (firstn (nat_of ln) s2), block_elems (firstn (nat_of rn) s1) with
                  | Some l, Some r => Some (b2z (same_set l r) :: skipn (nat_of ln) s2, m)
                  | _, _ => None
                  end
                else None
            | _ => None
            end
          else None
      | _ => None
      end
  (* ---------------- Alu ---------------- *)
  | OAdd => binop (checked Z.add) s m
  | OSub => binop (checked Z.sub) s m
  | OMul => binop (checked Z.mul) s m
  | ODiv => binop (fun l r => if r =? 0 then None else checked Z.quot l r) s m   (* only MIN / -1 leaves the range *)
  | OMod => binop (fun l r => if r =? 0 then None
                              else if (l =? -9223372036854775808) && (r =? -1) then None
                              else Some (Z.rem l r)) s m
  | OShl => binop (shift (fun x n => signed64 ((x * 2 ^ n) mod pow64))) s m
  | OShr => binop (shift (fun x n => signed64 ((x mod pow64) / 2 ^ n))) s m
  | OShrI => binop (shift (fun x n => x / 2 ^ n)) s m
  (* ---------------- Memory ---------------- *)
  | OAlloc =>
      match s with
      | size :: rest =>
          if (0 <=? size) && (len m + size <=? memory_limit)
          then Some (len m :: rest, m ++ repeat 0 (nat_of size))
          else None
      | _ => None
      end
  | OFree =>
      match s with
      | n :: rest => if (0 <=? n) && (n <=? len m) then Some (rest, firstn (nat_of n) m) else None
      | _ => None
      end
  | OLoad => spec_load m s m
  | OStore =>                                    (* stack_in [value, index] *)
      match s with
      | addr :: w :: rest =>
          if (0 <=? addr) && (addr <? len m)
          then Some (rest, firstn (nat_of addr) m ++ w :: skipn (nat_of (addr + 1)) m)
          else None
      | _ => None
      end
  | OLoadRange => spec_load_range m s m
  | OStoreRange =>                               (* stack_in [values.., len, index] *)
      match s with
      | addr :: n :: rest =>
          if (0 <=? n) && (n <=? len rest) && (0 <=? addr) && (addr + n <=? len m)
          then Some (skipn (nat_of n) rest,
                     firstn (nat_of addr) m ++ rev (firstn (nat_of n) rest) ++ skipn (nat_of (addr + n)) m)
          else None
      | _ => None
      end
  (* ---------------- ParentMemory ---------------- *)
  | OLoadP => match pm with p :: _ => spec_load p s m | [] => None end
  | OLoadRangeP => match pm with p :: _ => spec_load_range p s m | [] => None end
  | _ => None
  end.
