(* Declarative reference for the Compute operation (property C10): a SEQUENTIAL loop over the child
   indices 0, 1, ..., n-1.  Nothing here mentions `child_vm`, `join_children`, `store_children`, ...:
   the reference starts child i from an explicit record, runs it, and appends its memory. *)
From EB Require Import Vm.Exec.
Open Scope list_scope.
Open Scope Z_scope.

(* the state child `i` starts from; `s0` is the parent's stack without the breadth word *)
Definition child_start (v : vm) (s0 : list Z) (i : Z) : vm :=
  {| pc := pc v + 1; stack := i :: s0; memory := []; parent_memory := memory v :: parent_memory v;
     halt := false; rstack := rstack v |}.

(* accumulator of the loop *)
Record cacc : Type := {
  a_mem : list Z;       (* memories of the children so far, in index order *)
  a_pc : Z;             (* furthest position reached so far *)
  a_halt : bool;
  a_gas : Z;            (* gas spent by the children so far *)
  a_tr : list op;       (* operations executed by the children, most recent first *)
}.

Definition cacc0 (v : vm) : cacc :=
  {| a_mem := []; a_pc := pc v; a_halt := halt v; a_gas := 0; a_tr := [] |}.

(* fold one finished child into the accumulator *)
Definition cacc_add (climit : Z) (a : cacc) (r : vm * Z * list op) : option cacc :=
  let '(cv, g, tr) := r in
  let t := a_gas a + g in
  if (u64_max <? t) || (climit <? t) then None
  else Some {| a_mem := a_mem a ++ memory cv; a_pc := Z.max (a_pc a) (pc cv);
               a_halt := a_halt a || halt cv; a_gas := t; a_tr := tr ++ a_tr a |}.

(* one iteration: run child i to completion, then fold it in; any failure fails the loop *)
Definition seq_step (run : vm -> X) (climit : Z) (v : vm) (s0 : list Z) (acc : option cacc) (i : Z)
  : option cacc :=
  match acc with
  | None => None
  | Some a => match run (child_start v s0 i) with
              | Ok r => cacc_add climit a r
              | _ => None
              end
  end.

Definition compute_seq_acc (run : vm -> X) (climit : Z) (v : vm) (n : Z) (s0 : list Z) : option cacc :=
  fold_left (seq_step run climit v s0) (zrange_z n) (Some (cacc0 v)).

(* the parent after the loop: the new pc, the children's gas and the halt flag travel in the control value *)
Definition compute_seq (run : vm -> X) (climit : Z) (v : vm) (n : Z) (s0 : list Z)
  : option (vm * ctl * list op) :=
  match compute_seq_acc run climit v n s0 with
  | None => None
  | Some a =>
      let m := memory v ++ a_mem a in
      if 10240 <? zlen m then None
      else Some ({| pc := pc v; stack := s0; memory := m; parent_memory := parent_memory v;
                    halt := halt v; rstack := rstack v |},
                 CComputeResult (a_pc a) (a_gas a) (a_halt a), a_tr a)
  end.

(* the whole operation: pop the breadth, refuse breadth < 1 and nesting, then loop *)
Definition compute_ref (run : vm -> X) (climit : Z) (v : vm) : option (vm * ctl * list op) :=
  match stack v with
  | [] => None
  | n :: s0 =>
      if n <? 1 then None
      else if 1 <=? zlen (parent_memory v) then None
      else compute_seq run climit v n s0
  end.

(* a child result that is a value or a typed error (neither a panic nor exhaustion of the model's fuel) *)
Definition settled {E A : Type} (r : outcome E A) : Prop := (exists a, r = Ok a) \/ (exists e, r = Err e).
