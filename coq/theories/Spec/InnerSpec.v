(* Vocabulary for the statements about the level-by-level evaluation of one predicate graph
   (check_predicate_inner, core of C01): edges, the assumed facts about the level sort, the reference
   value of a node, and the output of a node as read off the list of run events. *)
From Coq Require Import List Arith Lia Bool.
From EB Require Export Check.Inner Spec.GraphRef.
Import ListNotations.
Open Scope list_scope.
Local Open Scope nat_scope.

(* u -> v is an edge of the dependency graph *)
Definition edge (p : predicate) (u v : nat) : Prop :=
  u < length (p_nodes p) /\ In v (kids p u).

(* Facts about create_parent_map / parallel_topo_sort that are ASSUMED here (proved elsewhere):
   K1 the levels list every node exactly once; K2 every edge goes from an earlier to a strictly later level;
   K3 the parent map lists the parents of a node in ascending order, once per edge. *)
Record level_sort_ok (p : predicate) (pm : list (nat * list nat)) (levels : list (list nat)) : Prop := {
  lso_nodup : NoDup (concat levels);
  lso_nodes : forall v, In v (concat levels) <-> v < length (p_nodes p);
  lso_edges : forall u v, edge p u v -> v < length (p_nodes p) ->
      exists i j, i < j /\ In u (nth i levels []) /\ In v (nth j levels []);
  lso_parents : forall v, v < length (p_nodes p) -> parents_of pm v = parents_ref p v
}.

(* a node that has children never reports a leaf result *)
Definition run_respects_leaf (run : nat -> bool -> list sm -> outcome unit prog_res) : Prop :=
  forall ix ins g o, run ix false ins = Ok (PRun (OutLeaf o) g) -> False.

(* the whole graph in one pass: nothing deferred, empty cache *)
Definition single_pass (run : nat -> bool -> list sm -> outcome unit prog_res) (p : predicate) (collect_all : bool)
  : outcome unit inner_result :=
  check_predicate_inner run p collect_all (fun _ => false) Outputs [].

(* reference value of node v (GraphRef.value with enough fuel, nothing skipped) *)
Definition vals (p : predicate) (run : nat -> bool -> list sm -> outcome unit prog_res) (v : nat) : outcome unit nval :=
  value p run (fun _ => false) (S (length (p_nodes p))) v.

(* the node ran and did not fail *)
Definition ran_ok (x : outcome unit nval) : Prop :=
  match x with Ok (NVParent _ _) | Ok (NVLeaf _ _) => True | _ => False end.
(* ... and, if it is a leaf, it ended with 1 or with 2 *)
Definition good_val (x : outcome unit nval) : Prop :=
  match x with
  | Ok (NVParent _ _) | Ok (NVLeaf (Satisfied true) _) | Ok (NVLeaf (DataOutput _) _) => True
  | _ => False
  end.

Definition gas_add (a : Z) (x : outcome unit nval) : Z :=
  match x with Ok (NVParent _ g) | Ok (NVLeaf _ g) => sat_add_u64 a g | _ => a end.
Definition data_of (x : outcome unit nval) : list (list Z) :=
  match x with Ok (NVLeaf (DataOutput m) _) => [m] | _ => [] end.
Definition unsat_of (v : nat) (x : outcome unit nval) : list nat :=
  match x with Ok (NVLeaf (Satisfied false) _) => [v] | _ => [] end.

Definition no_program_failed (res : outcome perr2 (Z * list (list Z))) : Prop :=
  match res with Ok _ | Err (PConstraintsUnsatisfied _) => True | _ => False end.

Definition opt_list {A} (o : option A) : list A := match o with Some x => [x] | None => [] end.

(* the (stack, memory) that node u handed to its children, read off the event list: the result of
   running u on the inputs recorded in its (first) event *)
Definition out_of_events (run : nat -> bool -> list sm -> outcome unit prog_res) (p : predicate)
           (evs : list (nat * list sm)) (u : nat) : option sm :=
  match find (fun e => Nat.eqb (fst e) u) evs with
  | Some (_, ins) => match run u (is_leaf p u) ins with
                     | Ok (PRun (OutParent s m) _) => Some (s, m)
                     | _ => None
                     end
  | None => None
  end.
