(* Declarative vocabulary of the order-independence statements of C04 (two-pass part). *)
From Coq Require Import ZArith List Permutation.
From EB Require Export Check.Set.
Import ListNotations.
Open Scope list_scope.

(* element i of the renamed list is element `nth i perm` of the original one *)
Definition rename {A} (d : A) (perm : list nat) (l : list A) : list A := map (fun j => nth j l d) perm.

(* perm lists every index below n exactly once *)
Definition is_perm (perm : list nat) (n : nat) : Prop := Permutation perm (seq 0 n).

(* views are functions: they are compared pointwise (no functional extensionality is assumed) *)
Definition view_eq (v v' : view) : Prop := forall c k n, v c k n = v' c k n.

(* two outcomes are both values, related by R, or are both non-values (error, panic or fuel exhaustion: when
   several solutions misbehave, which one is reported depends on the order) *)
Definition orel {E E' A B} (R : A -> B -> Prop) (x : outcome E A) (y : outcome E' B) : Prop :=
  match x, y with
  | Ok a, Ok b => R a b
  | Ok _, _ => False
  | _, Ok _ => False
  | _, _ => True
  end.

(* both values related by R, or both errors *)
Definition erel {E E' A B} (R : A -> B -> Prop) (x : outcome E A) (y : outcome E' B) : Prop :=
  match x, y with
  | Ok a, Ok b => R a b
  | Err _, Err _ => True
  | _, _ => False
  end.

(* results of check_set_predicates on a set of n solutions (r) and on the renamed set (r') *)
Definition sr_rel (perm : list nat) (n : nat) (r r' : set_result) : Prop :=
  sr_caches r' = rename [] perm (sr_caches r) /\
  match sr_res r, sr_res r' with
  | Ok (g, data), Ok (g', data') =>
      g' = g /\ map fst data = seq 0 n /\ map fst data' = seq 0 n /\
      map snd data' = rename [] perm (map snd data)
  | Err (SFailed errs), Err (SFailed errs') =>
      errs <> [] /\ errs' <> [] /\
      forall i e, In (i, e) errs' <-> ((i < n)%nat /\ In (nth i perm 0%nat, e) errs)
  | _, _ => False
  end.

(* results of check_and_compute *)
Definition cr_rel (perm : list nat) (n : nat) (r r' : compute_result) : Prop :=
  match cr_res r, cr_res r' with
  | Ok (g, s), Ok (g', s') =>
      g' = g /\ s' = rename empty_solution perm s /\ length s = n /\
      cr_caches r' = rename [] perm (cr_caches r)
  | Err _, Err _ => True
  | _, _ => False
  end.

(* results of two_pass *)
Definition tp_rel (perm : list nat) (r r' : two_pass_result) : Prop :=
  match tp_res r, tp_res r' with
  | Ok (g, s), Ok (g', s') => g' = g /\ s' = rename empty_solution perm s
  | Err _, Err _ => True
  | _, _ => False
  end.
