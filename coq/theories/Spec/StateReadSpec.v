(* Declarative description of the memory layout produced by the key-range state reads (C11). *)
From EB Require Import Vm.Step.
Open Scope list_scope.
Open Scope Z_scope.

(* the [address, length] pair of every value: a_0 = a, a_{i+1} = a_i + |v_i|, l_i = |v_i| *)
Fixpoint addr_len_pairs (a : Z) (vs : list (list Z)) : list (Z * Z) :=
  match vs with
  | [] => []
  | v :: r => (a, zlen v) :: addr_len_pairs (a + zlen v) r
  end.

Definition pair_words (a : Z) (vs : list (list Z)) : list Z :=
  flat_map (fun '(a, l) => [a; l]) (addr_len_pairs a vs).

Definition total_len (vs : list (list Z)) : Z := zlen (concat vs).

(* memory after the values `vs` were laid out at `maddr` *)
Definition key_range_region (maddr : Z) (vs : list (list Z)) (m : list Z) : list Z :=
  firstn (Z.to_nat maddr) m
  ++ pair_words (maddr + 2 * zlen vs) vs
  ++ concat vs
  ++ skipn (Z.to_nat (maddr + 2 * zlen vs + total_len vs)) m.

Definition key_range_fits (maddr : Z) (vs : list (list Z)) (m : list Z) : bool :=
  match vs with [] => true | _ => maddr + 2 * zlen vs + total_len vs <=? zlen m end.

Definition is_key_range_op (o : op) : Prop :=
  o = OKeyRange \/ o = OKeyRangeExtern \/ o = OPostKeyRange \/ o = OPostKeyRangeExtern.

(* A concrete environment used by the non-vacuity examples of C11 and C12.  The "hash" is a transparent
   stand-in (first 32 bytes of the input, zero padded) so that the examples show the exact bytes handed
   to the oracles. *)
Definition zlist_eqb (a b : list Z) : bool := if list_eq_dec Z.eq_dec a b then true else false.

Definition example_solution : solution :=
  {| sol_contract := repeat 1 32; sol_predicate := repeat 2 32;
     sol_data := [[10; 11; 12]; []; [13]]; sol_muts := [] |}.

Definition example_env : env :=
  {| e_solutions := [empty_solution; example_solution];
     e_index := 1;
     e_pre := fun c k n => if zlist_eqb c (repeat 1 32) && zlist_eqb k [5; 6] && (n =? 3)
                           then Some [[7; 8]; []; [9]] else None;
     e_post := fun c k n => if zlist_eqb c (bytes_of_words [1; 2; 3; 4]) && zlist_eqb k [5] && (n =? 1)
                            then Some [[42]] else None;
     e_cost := fun _ => 1;
     e_sha256 := fun bs => firstn 32 (bs ++ repeat 0 32);
     e_ed25519 := fun k s msg => if zlist_eqb k (bytes_of_words [1; 1; 1; 1]) then Some (zlist_eqb msg [0; 0; 0]) else None;
     e_secp := fun h s rid => if rid =? 0 then SecpNoKey else if rid =? 1 then SecpKey (repeat 0 31 ++ [5; 3]) else SecpParseErr |}.
