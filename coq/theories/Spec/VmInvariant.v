(* C05 - declarative definitions: the resource/typing invariant of a machine state and what is assumed
   of the environment of an execution.  No proofs here. *)
From Coq Require Import ZArith List.
From EB Require Import Vm.Machine.
Open Scope list_scope.
Open Scope Z_scope.

(* ---------- the invariant ---------- *)
Definition slot_ok (s : slot) : Prop :=
  i64 (s_counter s) /\ (match s_up s with Some l => i64 l | None => True end) /\ 0 <= s_index s <= usize_max.

Record Inv (v : vm) : Prop := {
  inv_stack : zlen (stack v) <= 4096;
  inv_memory : zlen (memory v) <= 10240;
  inv_repeat : zlen (rstack v) <= 4096;
  inv_depth : zlen (parent_memory v) <= 1;
  inv_stack_w : Forall i64 (stack v);
  inv_memory_w : Forall i64 (memory v);
  inv_parent : Forall (fun m => zlen m <= 10240 /\ Forall i64 m) (parent_memory v);
  inv_slots : Forall slot_ok (rstack v);
  inv_pc : 0 <= pc v <= usize_max }.

(* What is assumed of the environment: caller-supplied data and oracles are well-typed.
   `eo_data` also says that the number of data slots and the length of every slot fit a word: in Rust they
   are lengths of `Vec<Word>`/`Vec<Vec<Word>>` (at most isize::MAX bytes), in the model they are lengths of
   unbounded lists and `PredicateDataLen` / `PredicateDataSlots` push them on the stack. *)
Record env_ok (E : env) : Prop := {
  eo_data : Forall (fun s => Forall (Forall i64) (sol_data s)
                              /\ zlen (sol_data s) <= i64_max
                              /\ Forall (fun d => zlen d <= i64_max) (sol_data s)
                              /\ length (sol_contract s) = 32%nat /\ Forall byte (sol_contract s)
                              /\ length (sol_predicate s) = 32%nat /\ Forall byte (sol_predicate s)) (e_solutions E);
  eo_index : (e_index E < length (e_solutions E))%nat;
  eo_pre : forall c k n vs, e_pre E c k n = Some vs -> Forall (Forall i64) vs;
  eo_post : forall c k n vs, e_post E c k n = Some vs -> Forall (Forall i64) vs;
  eo_cost : forall o, 0 <= e_cost E o <= u64_max;
  eo_sha : forall bs, length (e_sha256 E bs) = 32%nat /\ Forall byte (e_sha256 E bs);
  eo_secp : forall h s i k, e_secp E h s i = SecpKey k -> length k = 33%nat /\ Forall byte k }.

Definition stack_ok (s : list Z) : Prop := zlen s <= 4096 /\ Forall i64 s.
Definition mem_ok (m : list Z) : Prop := zlen m <= 10240 /\ Forall i64 m.

