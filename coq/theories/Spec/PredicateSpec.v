(* Declarative vocabulary for the predicate binary codec and node_edges (C18, C06, C17). *)
From Coq Require Import ZArith List Lia Bool.
From EB Require Export Types.PredicateCodec.
Open Scope list_scope.
Open Scope Z_scope.

(* What every Rust `Node` / `Predicate` value satisfies: edge_start and edges are u16,
   a program address is 32 bytes. *)
Definition wf_node (n : node) : Prop :=
  0 <= n_edge_start n < 65536 /\ length (n_program n) = 32%nat /\ Forall byte (n_program n).
Definition wf_pred (p : predicate) : Prop :=
  Forall wf_node (p_nodes p) /\ Forall (fun e => 0 <= e < 65536) (p_edges p).

(* l[a..b] *)
Definition pslice {A} (a b : Z) (l : list A) : list A :=
  firstn (Z.to_nat (b - a)) (skipn (Z.to_nat a) l).

(* The documented end of node ix's edge range: the next node's edge_start if there is a next node
   and it is not a leaf, otherwise the number of edges. *)
Definition doc_edge_end (p : predicate) (ix : nat) : Z :=
  match nth_error (p_nodes p) (S ix) with
  | Some next => if n_edge_start next =? 65535 then zlen (p_edges p) else n_edge_start next
  | None => zlen (p_edges p)
  end.

(* The two big-endian counts a decoder reads from a byte string. *)
Definition hdr_nodes (bs : list Z) : Z := u16_of_bytes (firstn 2 bs).
Definition hdr_edges (bs : list Z) : Z :=
  u16_of_bytes (firstn 2 (skipn (Z.to_nat (2 + 34 * hdr_nodes bs)) bs)).

(* The byte string ends before one of the four documented fields does. *)
Definition too_short (bs : list Z) : Prop :=
  zlen bs < 2
  \/ zlen bs < 2 + 34 * hdr_nodes bs
  \/ zlen bs < 2 + 34 * hdr_nodes bs + 2
  \/ zlen bs < 2 + 34 * hdr_nodes bs + 2 + 2 * hdr_edges bs.
