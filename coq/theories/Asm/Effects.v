(* Model of crates/asm/src/effects.rs: `analyze` (op level) and `bytes_contains_any` (byte level).
   Effect sets are bit sets in Z; the flag values come from the Rust source (Generated/Consts.v). *)
From EB Require Export Asm.Op Generated.Consts.
Open Scope Z_scope.

Definition fx_all : Z :=
  Z.lor fx_key_range (Z.lor fx_key_range_extern (Z.lor fx_this_address
    (Z.lor fx_this_contract_address (Z.lor fx_post_key_range fx_post_key_range_extern)))).

(* the match arms of `analyze` *)
Definition analyze_arm (o : op) : Z :=
  match o with
  | OKeyRangeExtern => fx_key_range_extern
  | OKeyRange => fx_key_range
  | OPostKeyRange => fx_post_key_range
  | OPostKeyRangeExtern => fx_post_key_range_extern
  | OThisAddress => fx_this_address
  | OThisContractAddress => fx_this_contract_address
  | _ => 0
  end.

Fixpoint analyze_go (acc : Z) (ops : list op) : Z :=
  match ops with
  | [] => acc
  | o :: r =>
      let acc' := Z.lor acc (analyze_arm o) in
      if acc' =? fx_all then acc' else analyze_go acc' r
  end.
Definition analyze (ops : list op) : Z := analyze_go 0 ops.

(* bitflags `contains` *)
Definition fx_contains (fl f : Z) : bool := Z.land fl f =? f.

Definition krng_byte := opcode_of OKeyRange.
Definition krng_extern_byte := opcode_of OKeyRangeExtern.
Definition post_krng_byte := opcode_of OPostKeyRange.
Definition post_krng_extern_byte := opcode_of OPostKeyRangeExtern.
Definition this_address_byte := opcode_of OThisAddress.
Definition this_contract_address_byte := opcode_of OThisContractAddress.
Definition push_byte := opcode_of (OPush 0).

(* the guard arms that `return true` *)
Definition byte_hits (b fl : Z) : bool :=
  ((b =? krng_byte) && fx_contains fl fx_key_range)
  || ((b =? krng_extern_byte) && fx_contains fl fx_key_range_extern)
  || ((b =? post_krng_byte) && fx_contains fl fx_post_key_range)
  || ((b =? post_krng_extern_byte) && fx_contains fl fx_post_key_range_extern)
  || ((b =? this_address_byte) && fx_contains fl fx_this_address)
  || ((b =? this_contract_address_byte) && fx_contains fl fx_this_contract_address).

Fixpoint contains_any_go (fuel : nat) (bs : list Z) (fl : Z) : bool :=
  match bs with
  | [] => false
  | b :: rest =>
    match fuel with
    | O => false
    | S f =>
      if byte_hits b fl then true
      else if b =? push_byte then contains_any_go f (skipn 8 rest) fl   (* take(8): fewer if truncated *)
      else contains_any_go f rest fl
    end
  end.
Definition bytes_contains_any (bs : list Z) (fl : Z) : bool := contains_any_go (length bs) bs fl.

(* --- specification side --- *)
(* the effect an operation has, as the assembly documents it *)
Definition effect_of (o : op) : Z :=
  match o with
  | OKeyRange => 1 | OKeyRangeExtern => 2 | OThisAddress => 4 | OThisContractAddress => 8
  | OPostKeyRange => 16 | OPostKeyRangeExtern => 32
  | _ => 0
  end.
Definition effects_spec (ops : list op) : Z := fold_right (fun o a => Z.lor (effect_of o) a) 0 ops.
Definition has_effect (fl : Z) (o : op) : bool := negb (Z.land fl (effect_of o) =? 0).
