(* The 62 operations of the Essential VM assembly, their opcodes, names and byte encoding.
   Hand-written model; `Properties/C13.v` proves it equal to the table regenerated from
   crates/asm-spec/asm.yml on every run (Generated/OpTable.v). *)
From Coq Require Import String.
From EB Require Export Base.Bytes Base.Outcome.
Open Scope string_scope.
Open Scope Z_scope.

Inductive op : Type :=
| OPush (w : Z)
| OPop
| ODup
| ODupFrom
| OSwap
| OSwapIndex
| OSelect
| OSelectRange
| ORepeat
| ORepeatEnd
| OReserve
| OLoadS
| OStoreS
| ODrop
| OEq
| OEqRange
| OGt
| OLt
| OGte
| OLte
| OAnd
| OOr
| ONot
| OEqSet
| OBitAnd
| OBitOr
| OAdd
| OSub
| OMul
| ODiv
| OMod
| OShl
| OShr
| OShrI
| OThisAddress
| OThisContractAddress
| ORepeatCounter
| OPredicateData
| OPredicateDataLen
| OPredicateDataSlots
| OPredicateExists
| OSha256
| OVerifyEd25519
| ORecoverSecp256k1
| OHalt
| OHaltIf
| OJumpIf
| OPanicIf
| OAlloc
| OFree
| OLoad
| OStore
| OLoadRange
| OStoreRange
| OLoadP
| OLoadRangeP
| OKeyRange
| OKeyRangeExtern
| OPostKeyRange
| OPostKeyRangeExtern
| OCompute
| OComputeEnd.

Definition opcode_of (o : op) : Z :=
  match o with
  | OPush _ => 1
  | OPop => 2
  | ODup => 3
  | ODupFrom => 4
  | OSwap => 5
  | OSwapIndex => 6
  | OSelect => 7
  | OSelectRange => 8
  | ORepeat => 9
  | ORepeatEnd => 10
  | OReserve => 11
  | OLoadS => 12
  | OStoreS => 13
  | ODrop => 14
  | OEq => 16
  | OEqRange => 17
  | OGt => 18
  | OLt => 19
  | OGte => 20
  | OLte => 21
  | OAnd => 22
  | OOr => 23
  | ONot => 24
  | OEqSet => 25
  | OBitAnd => 26
  | OBitOr => 27
  | OAdd => 32
  | OSub => 33
  | OMul => 34
  | ODiv => 35
  | OMod => 36
  | OShl => 37
  | OShr => 38
  | OShrI => 39
  | OThisAddress => 48
  | OThisContractAddress => 49
  | ORepeatCounter => 56
  | OPredicateData => 58
  | OPredicateDataLen => 59
  | OPredicateDataSlots => 60
  | OPredicateExists => 61
  | OSha256 => 80
  | OVerifyEd25519 => 81
  | ORecoverSecp256k1 => 82
  | OHalt => 96
  | OHaltIf => 97
  | OJumpIf => 98
  | OPanicIf => 99
  | OAlloc => 112
  | OFree => 113
  | OLoad => 114
  | OStore => 115
  | OLoadRange => 116
  | OStoreRange => 117
  | OLoadP => 122
  | OLoadRangeP => 123
  | OKeyRange => 128
  | OKeyRangeExtern => 129
  | OPostKeyRange => 130
  | OPostKeyRangeExtern => 131
  | OCompute => 144
  | OComputeEnd => 145
  end.

Definition op_path (o : op) : string :=
  match o with
  | OPush _ => "Stack.Push"
  | OPop => "Stack.Pop"
  | ODup => "Stack.Dup"
  | ODupFrom => "Stack.DupFrom"
  | OSwap => "Stack.Swap"
  | OSwapIndex => "Stack.SwapIndex"
  | OSelect => "Stack.Select"
  | OSelectRange => "Stack.SelectRange"
  | ORepeat => "Stack.Repeat"
  | ORepeatEnd => "Stack.RepeatEnd"
  | OReserve => "Stack.Reserve"
  | OLoadS => "Stack.Load"
  | OStoreS => "Stack.Store"
  | ODrop => "Stack.Drop"
  | OEq => "Pred.Eq"
  | OEqRange => "Pred.EqRange"
  | OGt => "Pred.Gt"
  | OLt => "Pred.Lt"
  | OGte => "Pred.Gte"
  | OLte => "Pred.Lte"
  | OAnd => "Pred.And"
  | OOr => "Pred.Or"
  | ONot => "Pred.Not"
  | OEqSet => "Pred.EqSet"
  | OBitAnd => "Pred.BitAnd"
  | OBitOr => "Pred.BitOr"
  | OAdd => "Alu.Add"
  | OSub => "Alu.Sub"
  | OMul => "Alu.Mul"
  | ODiv => "Alu.Div"
  | OMod => "Alu.Mod"
  | OShl => "Alu.Shl"
  | OShr => "Alu.Shr"
  | OShrI => "Alu.ShrI"
  | OThisAddress => "Access.ThisAddress"
  | OThisContractAddress => "Access.ThisContractAddress"
  | ORepeatCounter => "Access.RepeatCounter"
  | OPredicateData => "Access.PredicateData"
  | OPredicateDataLen => "Access.PredicateDataLen"
  | OPredicateDataSlots => "Access.PredicateDataSlots"
  | OPredicateExists => "Access.PredicateExists"
  | OSha256 => "Crypto.Sha256"
  | OVerifyEd25519 => "Crypto.VerifyEd25519"
  | ORecoverSecp256k1 => "Crypto.RecoverSecp256k1"
  | OHalt => "TotalControlFlow.Halt"
  | OHaltIf => "TotalControlFlow.HaltIf"
  | OJumpIf => "TotalControlFlow.JumpIf"
  | OPanicIf => "TotalControlFlow.PanicIf"
  | OAlloc => "Memory.Alloc"
  | OFree => "Memory.Free"
  | OLoad => "Memory.Load"
  | OStore => "Memory.Store"
  | OLoadRange => "Memory.LoadRange"
  | OStoreRange => "Memory.StoreRange"
  | OLoadP => "ParentMemory.Load"
  | OLoadRangeP => "ParentMemory.LoadRange"
  | OKeyRange => "StateRead.KeyRange"
  | OKeyRangeExtern => "StateRead.KeyRangeExtern"
  | OPostKeyRange => "StateRead.PostKeyRange"
  | OPostKeyRangeExtern => "StateRead.PostKeyRangeExtern"
  | OCompute => "Compute.Compute"
  | OComputeEnd => "Compute.ComputeEnd"
  end.

Definition op_short (o : op) : string :=
  match o with
  | OPush _ => "PUSH"
  | OPop => "POP"
  | ODup => "DUP"
  | ODupFrom => "DUPF"
  | OSwap => "SWAP"
  | OSwapIndex => "SWAPI"
  | OSelect => "SEL"
  | OSelectRange => "SLTR"
  | ORepeat => "REP"
  | ORepeatEnd => "REPE"
  | OReserve => "RES"
  | OLoadS => "LODS"
  | OStoreS => "STOS"
  | ODrop => "DROP"
  | OEq => "EQ"
  | OEqRange => "EQRA"
  | OGt => "GT"
  | OLt => "LT"
  | OGte => "GTE"
  | OLte => "LTE"
  | OAnd => "AND"
  | OOr => "OR"
  | ONot => "NOT"
  | OEqSet => "EQST"
  | OBitAnd => "BAND"
  | OBitOr => "BOR"
  | OAdd => "ADD"
  | OSub => "SUB"
  | OMul => "MUL"
  | ODiv => "DIV"
  | OMod => "MOD"
  | OShl => "SHL"
  | OShr => "SHR"
  | OShrI => "SHRI"
  | OThisAddress => "THIS"
  | OThisContractAddress => "THISC"
  | ORepeatCounter => "REPC"
  | OPredicateData => "DATA"
  | OPredicateDataLen => "DLEN"
  | OPredicateDataSlots => "DSLT"
  | OPredicateExists => "PEX"
  | OSha256 => "SHA2"
  | OVerifyEd25519 => "VRFYED"
  | ORecoverSecp256k1 => "RSECP"
  | OHalt => "HLT"
  | OHaltIf => "HLTIF"
  | OJumpIf => "JMPIF"
  | OPanicIf => "PNCIF"
  | OAlloc => "ALOC"
  | OFree => "FREE"
  | OLoad => "LOD"
  | OStore => "STO"
  | OLoadRange => "LODR"
  | OStoreRange => "STOR"
  | OLoadP => "LODP"
  | OLoadRangeP => "LODPR"
  | OKeyRange => "KRNG"
  | OKeyRangeExtern => "KREX"
  | OPostKeyRange => "PKRNG"
  | OPostKeyRangeExtern => "PKREX"
  | OCompute => "COM"
  | OComputeEnd => "COME"
  end.

Definition all_ops : list op :=
  [OPush 0; OPop; ODup; ODupFrom; OSwap; OSwapIndex; OSelect; OSelectRange; ORepeat; ORepeatEnd; OReserve; OLoadS; OStoreS; ODrop; OEq; OEqRange; OGt; OLt; OGte; OLte; OAnd; OOr; ONot; OEqSet; OBitAnd; OBitOr; OAdd; OSub; OMul; ODiv; OMod; OShl; OShr; OShrI; OThisAddress; OThisContractAddress; ORepeatCounter; OPredicateData; OPredicateDataLen; OPredicateDataSlots; OPredicateExists; OSha256; OVerifyEd25519; ORecoverSecp256k1; OHalt; OHaltIf; OJumpIf; OPanicIf; OAlloc; OFree; OLoad; OStore; OLoadRange; OStoreRange; OLoadP; OLoadRangeP; OKeyRange; OKeyRangeExtern; OPostKeyRange; OPostKeyRangeExtern; OCompute; OComputeEnd].

(* Opcode::try_from(u8) followed by the op's default immediate: a table lookup.  The generated Rust
   `match` is compared with this lookup on all 256 bytes by the correspondence check. *)
Definition opcode_decode (b : Z) : option op := find (fun o => opcode_of o =? b) all_ops.

Definition arg_bytes (o : op) : Z := match o with OPush _ => 8 | _ => 0 end.

(* the row of the specification table an operation corresponds to *)
Definition op_row (o : op) : Z * string * string * Z :=
  (opcode_of o, op_path o, op_short o, arg_bytes o).
Definition model_table : list (Z * string * string * Z) := map op_row all_ops.

(* --- encoding (asm::to_bytes) --- *)
Definition to_bytes1 (o : op) : list Z :=
  match o with
  | OPush w => opcode_of o :: bytes_of_word w
  | _ => [opcode_of o]
  end.
Definition to_bytes (ops : list op) : list Z := flat_map to_bytes1 ops.

(* --- decoding (asm::from_bytes(..).collect::<Result<Vec<_>,_>>()) --- *)
Inductive perr : Type := InvalidOpcode (b : Z) | NotEnoughBytes.

Fixpoint parse (fuel : nat) (bs : list Z) : outcome perr (list op) :=
  match bs with
  | [] => Ok []
  | b :: rest =>
    match fuel with
    | O => OutOfFuel
    | S f =>
      match opcode_decode b with
      | None => Err (InvalidOpcode b)
      | Some (OPush _) =>
          if (length rest <? 8)%nat then Err NotEnoughBytes
          else let* ops := parse f (skipn 8 rest) in
               Ok (OPush (word_of_bytes (firstn 8 rest)) :: ops)
      | Some o => let* ops := parse f rest in Ok (o :: ops)
      end
    end
  end.

Definition from_bytes (bs : list Z) : outcome perr (list op) := parse (length bs) bs.

Definition well_formed_op (o : op) : Prop := match o with OPush w => i64 w | _ => True end.
Definition well_formed_opb (o : op) : bool := match o with OPush w => i64b w | _ => true end.

Definition op_eqb (a b : op) : bool :=
  match a, b with
  | OPush x, OPush y => x =? y
  | _, _ => (opcode_of a =? opcode_of b)
  end.
