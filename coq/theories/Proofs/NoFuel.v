(* step_basic never runs out of the model's fuel and never answers with a Compute result. *)
From Coq Require Import ZArith List Lia Bool.
From EB Require Import Vm.Step.
Open Scope list_scope.
Open Scope Z_scope.

Definition nofuel {E A} (x : outcome E A) : Prop := x <> OutOfFuel.

Lemma nf_ok {E A} (a : A) : nofuel (@Ok E A a). Proof. discriminate. Qed.
Lemma nf_err {E A} (e : E) : nofuel (@Err E A e). Proof. discriminate. Qed.
Lemma nf_panic {E A} s : nofuel (@Panic E A s). Proof. discriminate. Qed.
Lemma nf_bind {E A B} (x : outcome E A) (f : A -> outcome E B) :
  nofuel x -> (forall a, nofuel (f a)) -> nofuel (bind x f).
Proof. unfold nofuel. destruct x; cbn [bind]; intros Hx Hf; try discriminate; auto. Qed.
Lemma nf_of_option {E A} (e : E) (x : option A) : nofuel (of_option e x).
Proof. destruct x; discriminate. Qed.
Lemma nf_map_err {E F A} (f : E -> F) (x : outcome E A) : nofuel x -> nofuel (map_err f x).
Proof. unfold nofuel. destruct x; cbn [map_err]; intros Hx; try discriminate; auto. Qed.

Create HintDb nofuel.

Ltac nf_step :=
  match goal with
  | |- nofuel (Ok _) => apply nf_ok
  | |- nofuel (Err _) => apply nf_err
  | |- nofuel (Panic _) => apply nf_panic
  | |- nofuel (of_option _ _) => apply nf_of_option
  | |- nofuel (map_err _ _) => apply nf_map_err
  | |- nofuel (bind _ _) => apply nf_bind; [| let a := fresh "a" in intros a; cbv beta]
  | |- nofuel (match ?x with _ => _ end) => destruct x
  | |- nofuel _ => solve [eauto with nofuel]
  end.
Ltac nf := repeat nf_step.

Lemma push_nf w s : nofuel (push w s). Proof. unfold push. nf. Qed.
Lemma pop_nf s : nofuel (pop s). Proof. unfold pop. nf. Qed.
#[export] Hint Resolve push_nf pop_nf : nofuel.
Lemma extend_nf ws : forall s, nofuel (extend ws s).
Proof. induction ws as [|w r IH]; intros s; cbn [extend]; nf. Qed.
Lemma pop2_nf s : nofuel (pop2 s). Proof. unfold pop2. nf. Qed.
Lemma popn_nf n s : nofuel (popn n s). Proof. unfold popn. nf. Qed.
Lemma split_len_words_nf s : nofuel (split_len_words s). Proof. unfold split_len_words. nf. Qed.
#[export] Hint Resolve extend_nf pop2_nf popn_nf split_len_words_nf : nofuel.

Lemma mem_alloc_nf n m : nofuel (mem_alloc n m). Proof. unfold mem_alloc. nf. Qed.
Lemma mem_load_nf a m : nofuel (mem_load a m). Proof. unfold mem_load. nf. Qed.
Lemma mem_store_nf a w m : nofuel (mem_store a w m). Proof. unfold mem_store. nf. Qed.
Lemma mem_store_range_nf a ws m : nofuel (mem_store_range a ws m). Proof. unfold mem_store_range. nf. Qed.
Lemma mem_load_range_nf a n m : nofuel (mem_load_range a n m). Proof. unfold mem_load_range. nf. Qed.
Lemma mem_free_nf n m : nofuel (mem_free n m). Proof. unfold mem_free. nf. Qed.
#[export] Hint Resolve mem_alloc_nf mem_load_nf mem_store_nf mem_store_range_nf mem_load_range_nf mem_free_nf : nofuel.

(* Stack *)
Lemma op_dup_nf s : nofuel (op_dup s). Proof. unfold op_dup. nf. Qed.
Lemma op_dup_from_nf s : nofuel (op_dup_from s). Proof. unfold op_dup_from. nf. Qed.
Lemma op_swap_nf s : nofuel (op_swap s). Proof. unfold op_swap. nf. Qed.
Lemma op_swap_index_nf s : nofuel (op_swap_index s). Proof. unfold op_swap_index. nf. Qed.
Lemma op_select_nf s : nofuel (op_select s). Proof. unfold op_select. nf. Qed.
Lemma op_select_range_nf s : nofuel (op_select_range s). Proof. unfold op_select_range. nf. Qed.
Lemma op_reserve_nf s : nofuel (op_reserve s). Proof. unfold op_reserve. nf. Qed.
Lemma op_load_s_nf s : nofuel (op_load_s s). Proof. unfold op_load_s. nf. Qed.
Lemma op_store_s_nf s : nofuel (op_store_s s). Proof. unfold op_store_s. nf. Qed.
Lemma op_drop_nf s : nofuel (op_drop s). Proof. unfold op_drop. nf. Qed.
Lemma op_repeat_nf p s r : nofuel (op_repeat p s r). Proof. unfold op_repeat. nf. Qed.
Lemma op_repeat_end_nf r : nofuel (op_repeat_end r). Proof. unfold op_repeat_end. nf. Qed.
#[export] Hint Resolve op_dup_nf op_dup_from_nf op_swap_nf op_swap_index_nf op_select_nf op_select_range_nf
  op_reserve_nf op_load_s_nf op_store_s_nf op_drop_nf op_repeat_nf op_repeat_end_nf : nofuel.

(* Pred *)
Lemma pop2_push1_nf f s : (forall a b, nofuel (f a b)) -> nofuel (pop2_push1 f s).
Proof. intros Hf. unfold pop2_push1. nf. Qed.
Lemma pop1_push1_nf f s : (forall a, nofuel (f a)) -> nofuel (pop1_push1 f s).
Proof. intros Hf. unfold pop1_push1. nf. Qed.
Lemma op_eq_range_nf s : nofuel (op_eq_range s). Proof. unfold op_eq_range. nf. Qed.

(* the set decoder consumes at least one word per round, and its fuel is the number of words *)
Lemma decode_set_go_nf fuel : forall rws acc, (length rws <= fuel)%nat -> nofuel (decode_set_go fuel rws acc).
Proof.
  induction fuel as [|f IH]; intros rws acc Hlen.
  - destruct rws as [|l rest]; cbn [decode_set_go]; [apply nf_ok|]. cbn [length] in Hlen. lia.
  - destruct rws as [|l rest]; cbn [decode_set_go]; [apply nf_ok|].
    destruct (usize_of l) as [n|]; [|apply nf_err].
    destruct (zlen rest <? n); [apply nf_err|].
    apply IH. rewrite skipn_length. cbn [length] in Hlen. lia.
Qed.
Lemma decode_set_nf ws : nofuel (decode_set ws).
Proof. unfold decode_set. apply decode_set_go_nf. rewrite rev_length. lia. Qed.
#[export] Hint Resolve op_eq_range_nf decode_set_nf : nofuel.
Lemma op_eq_set_nf s : nofuel (op_eq_set s). Proof. unfold op_eq_set. nf. Qed.
#[export] Hint Resolve op_eq_set_nf : nofuel.

Ltac nf_fun :=
  first [ apply pop2_push1_nf; intros | apply pop1_push1_nf; intros ];
  unfold okb, alu; nf.

Lemma step_pred_nf o s : nofuel (step_pred o s).
Proof. destruct o; cbn [step_pred]; try apply nf_err; try solve [nf_fun]; nf. Qed.
Lemma step_alu_nf o s : nofuel (step_alu o s).
Proof. destruct o; cbn [step_alu]; try apply nf_err; solve [nf_fun]. Qed.

(* Memory *)
Lemma step_memory_nf o s m : nofuel (step_memory o s m).
Proof. destruct o; cbn [step_memory]; try apply nf_err; nf. Qed.
Lemma step_parent_memory_nf o s pm : nofuel (step_parent_memory o s pm).
Proof. unfold step_parent_memory. destruct pm; [apply nf_err|]. destruct o; try apply nf_err; nf. Qed.

(* Control flow *)
Lemma op_jump_if_nf p s : nofuel (op_jump_if p s). Proof. unfold op_jump_if. nf. Qed.
Lemma op_halt_if_nf s : nofuel (op_halt_if s). Proof. unfold op_halt_if. nf. Qed.
Lemma op_panic_if_nf s : nofuel (op_panic_if s). Proof. unfold op_panic_if. nf. Qed.

(* Access *)
Lemma acc_pop_nf s : nofuel (acc_pop s). Proof. unfold acc_pop. nf. Qed.
#[export] Hint Resolve acc_pop_nf : nofuel.
Lemma op_predicate_data_nf d s : nofuel (op_predicate_data d s). Proof. unfold op_predicate_data. nf. Qed.
Lemma op_predicate_data_len_nf d s : nofuel (op_predicate_data_len d s).
Proof. unfold op_predicate_data_len. nf. Qed.
Lemma op_predicate_exists_nf E s : nofuel (op_predicate_exists E s). Proof. unfold op_predicate_exists. nf. Qed.
#[export] Hint Resolve op_predicate_data_nf op_predicate_data_len_nf op_predicate_exists_nf : nofuel.
Lemma step_access_nf E o s r : nofuel (step_access E o s r).
Proof. unfold step_access. destruct o; try apply nf_err; nf. Qed.

(* Crypto *)
Lemma pop_bytes_nf s : nofuel (pop_bytes s). Proof. unfold pop_bytes. nf. Qed.
#[export] Hint Resolve pop_bytes_nf : nofuel.
Lemma op_sha256_nf E s : nofuel (op_sha256 E s). Proof. unfold op_sha256. nf. Qed.
Lemma op_verify_ed25519_nf E s : nofuel (op_verify_ed25519 E s). Proof. unfold op_verify_ed25519. nf. Qed.
Lemma op_recover_secp256k1_nf E s : nofuel (op_recover_secp256k1 E s). Proof. unfold op_recover_secp256k1. nf. Qed.
#[export] Hint Resolve op_sha256_nf op_verify_ed25519_nf op_recover_secp256k1_nf : nofuel.
Lemma step_crypto_nf E o s : nofuel (step_crypto E o s).
Proof. destruct o; cbn [step_crypto]; try apply nf_err; nf. Qed.

(* StateRead *)
Lemma write_values_nf vs : forall maddr vaddr m, nofuel (write_values maddr vaddr vs m).
Proof. induction vs as [|x r IH]; intros maddr vaddr m; cbn [write_values]; nf. Qed.
#[export] Hint Resolve write_values_nf : nofuel.
Lemma write_values_to_memory_nf a vs m : nofuel (write_values_to_memory a vs m).
Proof. unfold write_values_to_memory. nf. Qed.
Lemma key_range_args_nf s : nofuel (key_range_args s). Proof. unfold key_range_args. nf. Qed.
#[export] Hint Resolve write_values_to_memory_nf key_range_args_nf : nofuel.
Lemma op_key_range_nf vw c s m : nofuel (op_key_range vw c s m). Proof. unfold op_key_range. nf. Qed.
Lemma op_key_range_ext_nf vw s m : nofuel (op_key_range_ext vw s m). Proof. unfold op_key_range_ext. nf. Qed.
#[export] Hint Resolve op_key_range_nf op_key_range_ext_nf : nofuel.
Lemma step_state_read_nf E o s m : nofuel (step_state_read E o s m).
Proof. unfold step_state_read. destruct o; try apply nf_err; nf. Qed.

#[export] Hint Resolve step_pred_nf step_alu_nf step_memory_nf step_parent_memory_nf op_jump_if_nf op_halt_if_nf
  op_panic_if_nf step_access_nf step_crypto_nf step_state_read_nf : nofuel.

Lemma with_stack_nf v r : nofuel r -> nofuel (with_stack v r).
Proof. intros Hr. unfold with_stack. nf. Qed.
Lemma with_stack_mem_nf v r : nofuel r -> nofuel (with_stack_mem v r).
Proof. intros Hr. unfold with_stack_mem. nf. Qed.
Lemma with_stack_ctl_nf v r : nofuel r -> nofuel (with_stack_ctl v r).
Proof. intros Hr. unfold with_stack_ctl. nf. Qed.

Theorem step_basic_nofuel E o v : step_basic E o v <> OutOfFuel.
Proof.
  change (nofuel (step_basic E o v)).
  destruct o; unfold step_basic;
    first [ apply with_stack_nf | apply with_stack_mem_nf | apply with_stack_ctl_nf | idtac ]; nf.
Qed.

(* ---- the control request of a basic step is never a Compute result ---- *)
Definition basic_ctl (c : ctl) : Prop := match c with CComputeResult _ _ _ => False | _ => True end.

Lemma with_stack_ctl_basic v r v' c : with_stack v r = Ok (v', c) -> basic_ctl c.
Proof. unfold with_stack. destruct r; cbn [bind]; intros H; inversion H; exact I. Qed.
Lemma with_stack_mem_ctl_basic v r v' c : with_stack_mem v r = Ok (v', c) -> basic_ctl c.
Proof. unfold with_stack_mem. destruct r as [[s m]| | |]; cbn [bind]; intros H; inversion H; exact I. Qed.
Lemma with_stack_ctl_ctl_basic v r v' c :
  (forall s c0, r = Ok (s, c0) -> basic_ctl c0) -> with_stack_ctl v r = Ok (v', c) -> basic_ctl c.
Proof.
  unfold with_stack_ctl. intros Hr. destruct r as [[s c0]| | |]; cbn [bind]; intros H; inversion H; subst.
  eapply Hr; reflexivity.
Qed.

Lemma op_halt_if_ctl s s' c : op_halt_if s = Ok (s', c) -> basic_ctl c.
Proof.
  unfold op_halt_if. destruct (pop s) as [[w s0]| | |]; cbn [bind]; try discriminate.
  destruct (bool_of_word w) as [[|]|]; intros H; inversion H; exact I.
Qed.
Lemma op_panic_if_ctl s s' c : op_panic_if s = Ok (s', c) -> basic_ctl c.
Proof.
  unfold op_panic_if. destruct (pop s) as [[w s0]| | |]; cbn [bind]; try discriminate.
  destruct (bool_of_word w) as [[|]|]; intros H; inversion H; exact I.
Qed.
Lemma op_jump_if_ctl p s s' c : op_jump_if p s = Ok (s', c) -> basic_ctl c.
Proof.
  unfold op_jump_if. destruct (pop2 s) as [[[d w] s0]| | |]; cbn [bind]; try discriminate.
  destruct (bool_of_word w) as [[|]|]; try discriminate.
  - destruct (Z.abs d =? 0); try discriminate.
    destruct (d <? 0).
    + destruct (p - Z.abs d <? 0); intros H; inversion H; exact I.
    + destruct (usize_max <? p + Z.abs d); intros H; inversion H; exact I.
  - intros H; inversion H; exact I.
Qed.

Theorem step_basic_ctl E o v v' c : step_basic E o v = Ok (v', c) -> basic_ctl c.
Proof.
  destruct o; unfold step_basic;
    try solve [ apply with_stack_ctl_basic | apply with_stack_mem_ctl_basic
              | intros H; inversion H; exact I ].
  - (* Repeat *)
    destruct (op_repeat (pc v) (stack v) (rstack v)) as [[s r]| | |]; cbn [bind]; intros H; inversion H; exact I.
  - (* RepeatEnd *)
    destruct (op_repeat_end (rstack v)) as [[r j]| | |]; cbn [bind]; intros H; inversion H; subst.
    destruct j; exact I.
  - apply with_stack_ctl_ctl_basic. intros s c0. apply op_halt_if_ctl.
  - apply with_stack_ctl_ctl_basic. intros s c0. apply op_jump_if_ctl.
  - apply with_stack_ctl_ctl_basic. intros s c0. apply op_panic_if_ctl.
Qed.
