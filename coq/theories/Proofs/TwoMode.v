(* The two run modes of check_predicate_inner called in sequence over a shared cache (parts of C01 and C03).
   Mode Outputs runs the non-deferred nodes with run1 and leaves in the shared cache the outputs of the non-deferred
   nodes that have a deferred child; mode Checks runs the deferred nodes with run2, reading the non-deferred parents
   from the shared cache.  Both are compared with the reference value (Spec/GraphRef.v) under
   run12 = "run1 on non-deferred nodes, run2 on deferred nodes".
   The invariant of Proofs/InnerEval.v (invA) is re-stated here with the deferred set, the initial shared cache and
   the reference value as parameters (invG). *)
From Coq Require Import List Arith Lia Bool Permutation ZArith Sorted.
From EB Require Import Spec.InnerSpec Spec.TwoPassSpec Proofs.InnerEval Proofs.Deferred Proofs.C01Glue.
Import ListNotations.
Open Scope list_scope.
Local Open Scope nat_scope.

Arguments sat_add_u64 : simpl never.

(* ------------------------------------------------------------------------------------------ *)
(* vocabulary of the statements *)

(* the program runner seen by the reference: non-deferred nodes are run by the first call, deferred ones by the second *)
Definition run12 (D : list nat) (run1 run2 : nat -> bool -> list sm -> outcome unit prog_res)
  : nat -> bool -> list sm -> outcome unit prog_res :=
  fun v leaf ins => if memb v D then run2 v leaf ins else run1 v leaf ins.

(* the nodes of the two calls, in level order *)
Definition nodes_first (D : list nat) (sorted : list (list nat)) : list nat :=
  filter (fun v => negb (memb v D)) (concat sorted).
Definition nodes_second (D : list nat) (sorted : list (list nat)) : list nat :=
  filter (fun v => memb v D) (concat sorted).

(* the output a node handed on, read off the events of the call that ran it *)
Definition out12 (D : list nat) (run1 run2 : nat -> bool -> list sm -> outcome unit prog_res) (p : predicate)
           (ev1 ev2 : list (nat * list sm)) (u : nat) : option sm :=
  if memb u D then out_of_events run2 p ev2 u else out_of_events run1 p ev1 u.

(* ------------------------------------------------------------------------------------------ *)
(* small helpers *)

Lemma memb_app x a b : memb x (a ++ b) = memb x a || memb x b.
Proof. unfold memb. apply existsb_app. Qed.

Lemma memb_single x v : memb x [v] = Nat.eqb x v.
Proof. unfold memb. simpl. apply orb_false_r. Qed.

Lemma memb_true_of_In x l : In x l -> memb x l = true.
Proof. apply memb_In. Qed.

Lemma should_cache_not_leaf p D v : should_cache p D v = true -> leaf_ref p v = false.
Proof.
  unfold should_cache, leaf_ref, kids. intros H. apply andb_true_iff in H as [_ H].
  destruct (children p v) as [[|c cs]|]; simpl in H; try discriminate. reflexivity.
Qed.

Lemma value_S_skip run p skip f v :
  value p run skip (S f) v = if skip v then Ok NVSkipped else vstep run p (value p run skip f) v.
Proof. reflexivity. Qed.

Lemma vstep_run12_first D run1 run2 p g v : memb v D = false -> vstep (run12 D run1 run2) p g v = vstep run1 p g v.
Proof. intros H. unfold vstep, run12. rewrite H. reflexivity. Qed.

Lemma vstep_run12_second D run1 run2 p g v : memb v D = true -> vstep (run12 D run1 run2) p g v = vstep run2 p g v.
Proof. intros H. unfold vstep, run12. rewrite H. reflexivity. Qed.

(* ------------------------------------------------------------------------------------------ *)
(* one call, any deferred set D, any initial shared cache c0 that agrees with the reference value `val` *)

Section Gen.
  Variable run : nat -> bool -> list sm -> outcome unit prog_res.
  Variable p : predicate.
  Variable D : list nat.
  Variable c0 : list (nat * sm).
  Variable val : nat -> outcome unit nval.
  Notation n := (length (p_nodes p)).
  Notation sc := (should_cache p D).

  Definition outG (u : nat) : option sm := match val u with Ok (NVParent o _) => Some o | _ => None end.
  Definition insG (v : nat) : list sm := flat_map (fun u => opt_list (outG u)) (parents_ref p v).
  Definition evG (v : nat) : nat * list sm := (v, insG v).
  Definition rrG (v : nat) : prog_res := match run v (is_leaf p v) (insG v) with Ok r => r | _ => PFail end.

  Definition okG (v : nat) : Prop :=
    v < n /\ exists r, run v (is_leaf p v) (insG v) = Ok r /\ val v = Ok (nval_of r) /\ r <> PFail /\
                       (leaf_ref p v = false -> exists s m g, r = PRun (OutParent s m) g).

  Record invG (nodes evn : list nat) (st : inner_state) : Prop := {
    g_cache : forall u, aget u (is_cache st) = if memb u nodes && sc u then outG u else aget u c0;
    g_failed : is_failed st = [];
    g_vals : forall v, In v nodes -> okG v;
    g_local : forall u, aget u (is_local st) = if memb u nodes && negb (sc u) then outG u else None;
    g_unsat : is_unsat st = flat_map (fun v => unsat_of v (val v)) nodes;
    g_data : is_data st = flat_map (fun v => data_of (val v)) nodes;
    g_gas : is_gas st = fold_left (fun a v => gas_add a (val v)) nodes 0%Z;
    g_events : is_events st = rev (map evG evn)
  }.

  Variable levels : list (list nat).
  Variable pm : list (nat * list nat).
  Hypothesis Hfix : forall v, In v (concat levels) -> val v = vstep run p val v.
  Hypothesis Hlt : forall v, In v (concat levels) -> v < n.
  (* every parent was run in an earlier level of this call, or its output is in the initial shared cache *)
  Hypothesis Hpb : forall done level rest u v, levels = done ++ level :: rest -> In v level ->
      In u (parents_ref p v) -> In u (concat done) \/ exists o, aget u c0 = Some o.
  Hypothesis Hcons : forall u o, aget u c0 = Some o -> outG u = Some o.
  Hypothesis Hvalid : forall ix, ix < n -> children p ix <> None.
  Hypothesis Hpar : forall v, v < n -> parents_of pm v = parents_ref p v.
  Hypothesis Hleaf : run_respects_leaf run.

  Definition known (nodes : list nat) (u : nat) : Prop := In u nodes \/ exists o, aget u c0 = Some o.

  Lemma known_parent nodes evn st u v : invG nodes evn st -> known nodes u -> In u (parents_ref p v) ->
    exists o g, val u = Ok (NVParent o g).
  Proof.
    intros HA [Hu|(o & Ho)] Hp.
    - destruct (g_vals _ _ _ HA u Hu) as (_ & r & _ & Hval & _ & Hl).
      destruct (Hl (parent_not_leaf _ _ _ Hp)) as (s & m & g & E). subst r. simpl in Hval. eauto.
    - apply Hcons in Ho. unfold outG in Ho. destruct (val u) as [[o' g| | |]| | |]; try discriminate. eauto.
  Qed.

  Lemma gather_parentsG us : (forall u, In u us -> exists o g, val u = Ok (NVParent o g)) ->
    gather_with val us = Ok (Some (flat_map (fun u => opt_list (outG u)) us)).
  Proof.
    induction us as [|u us IH]; intros H; [reflexivity|].
    destruct (H u (or_introl eq_refl)) as (o & g & E).
    change (gather_with val (u :: us)) with
      (let* x := val u in let* rest := gather_with val us in
       Ok (match x, rest with NVParent o _, Some l => Some (o :: l) | _, _ => None end)).
    rewrite IH by (intros; apply H; now right). rewrite E. cbn [bind flat_map].
    assert (Eo : outG u = Some o) by (unfold outG; now rewrite E). rewrite Eo. reflexivity.
  Qed.

  Lemma node_valG nodes evn st v r : invG nodes evn st -> In v (concat levels) ->
    (forall u, In u (parents_ref p v) -> known nodes u) ->
    run v (is_leaf p v) (insG v) = Ok r -> val v = Ok (nval_of r).
  Proof.
    intros HA Hv Hp Hr. rewrite (Hfix v Hv). unfold vstep.
    rewrite gather_parentsG by (intros u Hu; eapply known_parent; eauto).
    cbn [bind]. fold (insG v). rewrite <- (is_leaf_ref p v (Hvalid v (Hlt v Hv))). rewrite Hr. reflexivity.
  Qed.

  Lemma inputs_G nodes evn st v : invG nodes evn st -> v < n ->
    (forall u, In u (parents_ref p v) -> known nodes u) -> inputs_of pm st v = insG v.
  Proof.
    intros HA Hv Hp. unfold inputs_of, insG. rewrite (Hpar v Hv). apply flat_map_ext_in'. intros u Hu.
    rewrite (g_cache _ _ _ HA), (g_local _ _ _ HA).
    destruct (memb u nodes) eqn:M.
    - destruct (sc u); cbn [andb negb].
      + destruct (outG u); reflexivity.
      + destruct (aget u c0) as [o|] eqn:E0; [rewrite (Hcons u o E0); reflexivity|].
        destruct (outG u); reflexivity.
    - cbn [andb]. destruct (Hp u Hu) as [Hin|(o & Ho)].
      + apply memb_true_of_In in Hin. congruence.
      + rewrite Ho, (Hcons u o Ho). reflexivity.
  Qed.

  Lemma run_level_G st level rs : (forall v, In v level -> inputs_of pm st v = insG v) ->
    run_level run p pm st level = Ok rs ->
    rs = map (fun v => (v, rrG v, insG v)) level /\ forall v, In v level -> run v (is_leaf p v) (insG v) = Ok (rrG v).
  Proof.
    revert rs; induction level as [|v level IH]; intros rs Hin H; simpl in H.
    - injection H as <-. split; [reflexivity|]. intros v [].
    - apply bind_ok in H as (r & Hr & H). apply bind_ok in H as (rs' & Hrs & H). injection H as <-.
      rewrite (Hin v (or_introl eq_refl)) in Hr |- *.
      destruct (IH rs' (fun w Hw => Hin w (or_intror Hw)) Hrs) as (E & Hall).
      assert (Er : rrG v = r) by (unfold rrG; now rewrite Hr).
      split. { simpl. rewrite Er, E. reflexivity. }
      intros w [Hw|Hw]; [subst w; now rewrite Er|auto].
  Qed.

  Lemma run_levels_failed_d ca rest : forall st st' stop,
    run_levels run p ca pm D st rest = Ok (st', stop) -> exists extra, is_failed st' = is_failed st ++ extra.
  Proof.
    induction rest as [|level rest IH]; intros st st' stop H; simpl in H.
    - injection H as <- <-. exists []; now rewrite app_nil_r.
    - apply bind_ok in H as (rs & Hrs & H).
      pose proof (absorb_failed p ca D rs (add_events st rs)) as (ex & E).
      destruct (absorb p ca D (add_events st rs) rs) as [st1 stop1] eqn:EA. simpl in E.
      destruct stop1.
      + injection H as <- <-. eauto.
      + destruct (IH _ _ _ H) as (ex2 & E2). exists (ex ++ ex2). rewrite E2, E. now rewrite app_assoc.
  Qed.

  (* ---------------------------------------------------------------------------------------- *)
  (* absorbing the results of one level *)

  Lemma invG_extend nodes evn st st1 v r :
    invG nodes evn st -> v < n -> run v (is_leaf p v) (insG v) = Ok r -> val v = Ok (nval_of r) -> r <> PFail ->
    (leaf_ref p v = false -> exists s m g, r = PRun (OutParent s m) g) ->
    (forall u, aget u (is_cache st1) = if Nat.eqb u v && sc v then outG v else aget u (is_cache st)) ->
    is_failed st1 = is_failed st -> is_events st1 = is_events st ->
    (forall u, aget u (is_local st1) = if Nat.eqb u v && negb (sc v) then outG v else aget u (is_local st)) ->
    is_unsat st1 = is_unsat st ++ unsat_of v (val v) -> is_data st1 = is_data st ++ data_of (val v) ->
    is_gas st1 = gas_add (is_gas st) (val v) ->
    invG (nodes ++ [v]) evn st1.
  Proof.
    intros HA Hv Hr Hval Hnf Hl Hc Hf He Hloc Hun Hda Hga. constructor.
    - intros u. rewrite Hc, (g_cache _ _ _ HA), memb_app, memb_single.
      destruct (Nat.eqb_spec u v) as [Euv|Euv].
      + subst u. rewrite orb_true_r. destruct (sc v); cbn [andb]; [reflexivity|]. now rewrite andb_false_r.
      + rewrite orb_false_r. reflexivity.
    - rewrite Hf. apply HA.
    - intros w Hw. apply in_app_or in Hw as [Hw|[Hw|[]]]; [now apply (g_vals _ _ _ HA)|].
      subst w. split; [exact Hv|]. exists r. auto.
    - intros u. rewrite Hloc, (g_local _ _ _ HA), memb_app, memb_single.
      destruct (Nat.eqb_spec u v) as [Euv|Euv].
      + subst u. rewrite orb_true_r. destruct (sc v); cbn [andb negb]; [|reflexivity]. now rewrite andb_false_r.
      + rewrite orb_false_r. reflexivity.
    - rewrite flat_map_app. simpl. rewrite app_nil_r, Hun, (g_unsat _ _ _ HA). reflexivity.
    - rewrite flat_map_app. simpl. rewrite app_nil_r, Hda, (g_data _ _ _ HA). reflexivity.
    - rewrite fold_left_app. simpl. rewrite Hga, (g_gas _ _ _ HA). reflexivity.
    - rewrite He. apply HA.
  Qed.

  Lemma absorb_G ca : forall level nodes evn st st' stop,
    invG nodes evn st ->
    (forall v, In v level -> v < n /\ run v (is_leaf p v) (insG v) = Ok (rrG v) /\ val v = Ok (nval_of (rrG v))) ->
    absorb p ca D st (map (fun v => (v, rrG v, insG v)) level) = (st', stop) ->
    (stop = false /\ invG (nodes ++ level) evn st' /\ (forall v, In v level -> rrG v <> PFail))
    \/ (exists a f b tl, level = a ++ f :: b /\ (forall v, In v a -> rrG v <> PFail) /\ rrG f = PFail /\
                         is_failed st' = f :: tl /\ (ca = false -> tl = [] /\ stop = true) /\ (ca = true -> stop = false)).
  Proof.
    induction level as [|v level IH]; intros nodes evn st st' stop HA Hall Habs.
    - simpl in Habs. injection Habs as <- <-. left. rewrite app_nil_r. split; [reflexivity|]. split; [exact HA|]. intros v [].
    - destruct (Hall v (or_introl eq_refl)) as (Hv & Hr & Hval).
      assert (Hall' : forall w, In w level -> w < n /\ run w (is_leaf p w) (insG w) = Ok (rrG w) /\ val w = Ok (nval_of (rrG w)))
        by (intros w Hw; apply Hall; now right).
      cbn [map absorb] in Habs.
      assert (Hlf : forall o g, rrG v = PRun (OutLeaf o) g -> leaf_ref p v = false -> False).
      { intros o g Er Hl. rewrite <- (is_leaf_ref p v (Hvalid v Hv)) in Hl. rewrite Hl, Er in Hr. exact (Hleaf _ _ _ _ Hr). }
      destruct (rrG v) as [[s m|o] g|] eqn:Er.
      + assert (Eo : outG v = Some (s, m)) by (unfold outG; rewrite Hval; reflexivity).
        match type of Habs with absorb _ _ _ ?s1 _ = _ => assert (HA1 : invG (nodes ++ [v]) evn s1) end.
        { destruct (sc v) eqn:Esc.
          - apply (invG_extend nodes evn st _ v _ HA Hv Hr Hval); try reflexivity.
            + discriminate.
            + intros _. eauto.
            + intros u. cbn [is_cache]. rewrite aget_ainsert, Esc, andb_true_r, Eo. reflexivity.
            + intros u. cbn [is_local]. rewrite Esc. cbn [negb]. now rewrite andb_false_r.
            + rewrite Hval. cbn. now rewrite app_nil_r.
            + rewrite Hval. cbn. now rewrite app_nil_r.
            + rewrite Hval. reflexivity.
          - apply (invG_extend nodes evn st _ v _ HA Hv Hr Hval); try reflexivity.
            + discriminate.
            + intros _. eauto.
            + intros u. cbn [is_cache]. rewrite Esc. now rewrite andb_false_r.
            + intros u. cbn [is_local]. rewrite aget_ainsert, Esc. cbn [negb]. rewrite andb_true_r, Eo. reflexivity.
            + rewrite Hval. cbn. now rewrite app_nil_r.
            + rewrite Hval. cbn. now rewrite app_nil_r.
            + rewrite Hval. reflexivity. }
        destruct (IH _ _ _ _ _ HA1 Hall' Habs) as [(Hs & HA2 & Hnf)|(a & f & b & tl & E & Ha & Hf & Hfl & Hc)].
        * left. rewrite <- app_assoc in HA2. split; [exact Hs|]. split; [exact HA2|].
          intros w [Hw|Hw]; [subst w; rewrite Er; discriminate|auto].
        * right. exists (v :: a), f, b, tl. split; [simpl; now rewrite E|]. split; [|auto].
          intros w [Hw|Hw]; [subst w; rewrite Er; discriminate|auto].
      + assert (Esc : sc v = false).
        { destruct (sc v) eqn:Esc; [|reflexivity]. exfalso. eapply Hlf; [reflexivity|]. eapply should_cache_not_leaf; eauto. }
        assert (Eo : outG v = None) by (unfold outG; rewrite Hval; reflexivity).
        match type of Habs with absorb _ _ _ ?s1 _ = _ => assert (HA1 : invG (nodes ++ [v]) evn s1) end.
        { apply (invG_extend nodes evn st _ v _ HA Hv Hr Hval); try reflexivity.
          - discriminate.
          - intros Hl. exfalso. eapply Hlf; eauto.
          - intros u. cbn [is_cache]. rewrite Esc. now rewrite andb_false_r.
          - intros u. cbn [is_local]. rewrite Esc. cbn [negb]. rewrite andb_true_r.
            destruct (Nat.eqb_spec u v) as [Euv|Euv]; [|reflexivity]. subst u.
            rewrite (g_local _ _ _ HA), Eo. destruct (memb v nodes && negb (sc v)); reflexivity.
          - rewrite Hval. cbn. destruct o as [[|]|m]; cbn; now rewrite ?app_nil_r.
          - rewrite Hval. cbn. destruct o as [[|]|m]; cbn; now rewrite ?app_nil_r.
          - rewrite Hval. reflexivity. }
        destruct (IH _ _ _ _ _ HA1 Hall' Habs) as [(Hs & HA2 & Hnf)|(a & f & b & tl & E & Ha & Hf & Hfl & Hc)].
        * left. rewrite <- app_assoc in HA2. split; [exact Hs|]. split; [exact HA2|].
          intros w [Hw|Hw]; [subst w; rewrite Er; discriminate|auto].
        * right. exists (v :: a), f, b, tl. split; [simpl; now rewrite E|]. split; [|auto].
          intros w [Hw|Hw]; [subst w; rewrite Er; discriminate|auto].
      + right. exists [], v, level. destruct ca.
        * match type of Habs with absorb _ _ _ ?s1 ?rs = _ =>
            destruct (absorb_failed p true D rs s1) as (ex & E); pose proof (absorb_nostop p D rs s1) as Hns end.
          rewrite Habs in E, Hns. cbn in E, Hns. rewrite (g_failed _ _ _ HA) in E.
          exists ex. split; [reflexivity|]. split; [intros w []|]. split; [exact Er|]. split; [exact E|].
          split; [discriminate|auto].
        * injection Habs as <- <-. exists []. split; [reflexivity|]. split; [intros w []|]. split; [exact Er|].
          cbn. rewrite (g_failed _ _ _ HA). split; [reflexivity|]. split; [auto|discriminate].
  Qed.

  Lemma okG_of_run v r : v < n -> run v (is_leaf p v) (insG v) = Ok r -> val v = Ok (nval_of r) -> r <> PFail -> okG v.
  Proof.
    intros Hv Hr Hval Hnf. split; [exact Hv|]. exists r. repeat split; auto.
    intros Hl. rewrite <- (is_leaf_ref p v (Hvalid v Hv)) in Hl. rewrite Hl in Hr.
    destruct r as [[s m|o] g|]; [eauto| |congruence]. exfalso. exact (Hleaf _ _ _ _ Hr).
  Qed.

  (* ---------------------------------------------------------------------------------------- *)
  (* the whole call *)

  Definition invFG (ca : bool) (st : inner_state) : Prop :=
    exists pre f post tl, concat levels = pre ++ f :: post /\ (forall v, In v pre -> okG v) /\ f < n /\
                          val f = Ok NVFail /\ is_failed st = f :: tl /\ (ca = false -> tl = []).

  Lemma run_levels_G ca : forall rest done st st' stop,
    levels = done ++ rest -> invG (concat done) (concat done) st ->
    run_levels run p ca pm D st rest = Ok (st', stop) ->
    (stop = false /\ invG (concat levels) (concat levels) st') \/ invFG ca st'.
  Proof.
    induction rest as [|level rest IH]; intros done st st' stop E HA H; simpl in H.
    - injection H as <- <-. left. rewrite app_nil_r in E. subst done. auto.
    - apply bind_ok in H as (rs & Hrs & H).
      assert (Hin : forall v, In v level -> In v (concat levels) /\ forall u, In u (parents_ref p v) -> known (concat done) u).
      { intros v Hv. split.
        - rewrite E, concat_app. apply in_or_app; right. simpl. apply in_or_app; now left.
        - intros u Hu. eapply Hpb; eauto. }
      destruct (run_level_G st level rs) as (Ers & Hruns); [ | exact Hrs | ].
      { intros v Hv. destruct (Hin v Hv) as [Hv1 Hv2]. eapply inputs_G; eauto. }
      subst rs.
      assert (Hall : forall v, In v level -> v < n /\ run v (is_leaf p v) (insG v) = Ok (rrG v) /\ val v = Ok (nval_of (rrG v))).
      { intros v Hv. destruct (Hin v Hv) as [Hv1 Hv2]. split; [auto|]. split; [auto|]. eapply node_valG; eauto. }
      match type of H with context [add_events st ?rs] =>
        assert (HA' : invG (concat done) (concat done ++ level) (add_events st rs)) end.
      { destruct HA as [h1 h2 h3 h4 h5 h6 h7 h8]. constructor; cbn [add_events is_cache is_failed is_local is_unsat is_data is_gas is_events]; auto.
        rewrite h8, map_app, rev_app_distr, map_map. reflexivity. }
      match type of H with context [absorb p ca D ?s ?rs] => destruct (absorb p ca D s rs) as [st1 stop1] eqn:EA end.
      destruct (absorb_G ca level _ _ _ _ _ HA' Hall EA)
        as [(Hs & HA2 & Hnf) | (a & f & b & tl & El & Ha & Hf & Hfl & Hc1 & Hc2)].
      + subst stop1. apply (IH (done ++ [level])) in H; auto.
        * rewrite <- app_assoc. exact E.
        * rewrite concat_app. simpl. rewrite app_nil_r. exact HA2.
      + assert (Hfin : In f level) by (rewrite El; apply in_or_app; right; now left).
        assert (HF : forall tl', (ca = false -> tl' = []) -> forall s', is_failed s' = f :: tl' -> invFG ca s').
        { intros tl' Htl s' Hs'. exists (concat done ++ a), f, (b ++ concat rest), tl'.
          split. { rewrite E, concat_app. simpl. rewrite El. rewrite <- !app_assoc. reflexivity. }
          split. { intros v Hv. apply in_app_or in Hv as [Hv|Hv]; [now apply (g_vals _ _ _ HA)|].
                   assert (Hvl : In v level) by (rewrite El; apply in_or_app; now left).
                   destruct (Hall v Hvl) as (h1 & h2 & h3). eapply okG_of_run; eauto. }
          destruct (Hall f Hfin) as (h1 & h2 & h3). rewrite Hf in h3.
          split; [exact h1|]. split; [exact h3|]. split; [exact Hs'|exact Htl]. }
        right. destruct stop1.
        * injection H as <- <-. apply (HF tl); [|exact Hfl]. intros Hca. now destruct (Hc1 Hca).
        * destruct (run_levels_failed_d _ _ _ _ _ H) as (ex & Eex).
          apply (HF (tl ++ ex)); [|rewrite Eex, Hfl; reflexivity].
          intros Hca. destruct (Hc1 Hca) as [_ Hst]. discriminate.
  Qed.

  Definition stG : inner_state :=
    {| is_cache := c0; is_local := []; is_failed := []; is_unsat := []; is_data := []; is_gas := 0%Z; is_events := [] |}.

  Lemma invG_init : invG [] [] stG.
  Proof. constructor; try reflexivity. intros v []. Qed.

  Lemma run_levels_allG ca st stop :
    run_levels run p ca pm D stG levels = Ok (st, stop) ->
    (stop = false /\ invG (concat levels) (concat levels) st) \/ invFG ca st.
  Proof. intros H. eapply (run_levels_G ca levels []); eauto. exact invG_init. Qed.

  Lemma out_of_events_G nodes st u : invG nodes nodes st -> In u nodes ->
    out_of_events run p (map evG nodes) u = outG u.
  Proof.
    intros HA Hu. unfold out_of_events, evG. rewrite (find_map_key insG nodes u Hu).
    destruct (g_vals _ _ _ HA u Hu) as (_ & r & Hr & Hval & _). rewrite Hr. unfold outG. rewrite Hval.
    destruct r as [[s m|o] g|]; reflexivity.
  Qed.

  Lemma okG_ran v : okG v -> ran_ok (val v).
  Proof.
    intros (_ & r & _ & Hval & Hnf & _). rewrite Hval. destruct r as [[s m|o] g|]; simpl; auto.
  Qed.
End Gen.

(* ------------------------------------------------------------------------------------------ *)
(* check_predicate_inner as a run over the levels of its mode *)

Lemma cpi_unfold run p ca is_def mode cache pm sorted :
  create_parent_map p = Ok pm -> parallel_topo_sort p pm = Ok sorted ->
  check_predicate_inner run p ca is_def mode cache =
  let* x := run_levels run p ca pm (find_deferred p is_def) (stG cache) (pass_levels p is_def mode sorted) in
  Ok {| ir_res := res_of (fst x); ir_cache := is_cache (fst x); ir_events := rev (is_events (fst x)) |}.
Proof.
  intros H1 H2. unfold check_predicate_inner. rewrite H1, H2. cbv zeta. fold (stG cache).
  destruct mode; cbn [pass_levels];
    match goal with |- context [run_levels ?a ?b ?c ?d ?e ?f ?g] => destruct (run_levels a b c d e f g) as [[st stop]| | |] end;
    reflexivity.
Qed.

(* parents of a kept node that are themselves kept lie in strictly earlier levels of the filtered level list *)
Lemma pb_filter p (f : nat -> bool) L : parents_before p L ->
  forall done level rest u v, filter nonempty (map (filter f) L) = done ++ level :: rest ->
    In v level -> In u (parents_ref p v) -> f u = true -> In u (concat done).
Proof.
  intros Hpb done level rest u v E Hv Hu Hf.
  destruct (filter_split _ _ _ _ _ E) as (a' & b' & E' & Ha & Hb).
  apply map_eq_app in E' as (A & B' & EL & EA & EB).
  destruct B' as [|l0 B]; [discriminate|]. cbn [map] in EB. injection EB as El0 EB.
  assert (Hv0 : In v l0). { rewrite <- El0 in Hv. apply filter_In in Hv. tauto. }
  pose proof (Hpb A l0 B u v EL Hv0 Hu) as HuA.
  rewrite <- Ha, concat_filter_nonempty, <- EA, concat_map_filter. apply filter_In. auto.
Qed.

Lemma order_from_levels (L : list (list nat)) (P : nat -> nat -> Prop) :
  NoDup (concat L) ->
  (forall done level rest u v, L = done ++ level :: rest -> In v level -> P u v -> In u (concat done)) ->
  forall pre v post, concat L = pre ++ v :: post -> forall u, P u v -> In u pre.
Proof.
  intros Hnd Hpb pre v post Esplit u Hu.
  assert (Hv : In v (concat L)) by (rewrite Esplit; apply in_or_app; right; now left).
  apply in_concat in Hv as (level & Hl & Hvl).
  apply in_split in Hl as (done & rest & Es). apply in_split in Hvl as (a & b & El).
  assert (Hud : In u (concat done)).
  { eapply Hpb; [exact Es| |exact Hu]. rewrite El. apply in_or_app; right; now left. }
  assert (E2 : concat L = (concat done ++ a) ++ v :: (b ++ concat rest)).
  { rewrite Es, concat_app. simpl. rewrite El, <- !app_assoc. reflexivity. }
  assert (E3 : pre = concat done ++ a).
  { eapply nodup_split_unique; [|rewrite <- Esplit; exact E2]. rewrite <- Esplit. exact Hnd. }
  rewrite E3. apply in_or_app. now left.
Qed.

(* ------------------------------------------------------------------------------------------ *)
(* what can be read off a final state *)

Lemma okG_out run p val u : okG run p val u -> leaf_ref p u = false -> exists o, outG val u = Some o.
Proof.
  intros (_ & r & _ & Hval & _ & Hl) Hlf. destruct (Hl Hlf) as (s & m & g & E). subst r.
  unfold outG. rewrite Hval. simpl. eauto.
Qed.

Lemma map_fst_evG p val l : map fst (map (evG p val) l) = l.
Proof. rewrite map_map. unfold evG. simpl. apply map_id. Qed.

Lemma length_flat_map_some {A B} (f : A -> option B) l :
  (forall a, In a l -> exists b, f a = Some b) -> length (flat_map (fun a => opt_list (f a)) l) = length l.
Proof.
  induction l as [|a l IH]; intros H; [reflexivity|]. simpl.
  destruct (H a (or_introl eq_refl)) as (b & E). rewrite E. simpl. f_equal. apply IH. intros; apply H; now right.
Qed.

Section ResG.
  Variable run : nat -> bool -> list sm -> outcome unit prog_res.
  Variable p : predicate.
  Variable D : list nat.
  Variable c0 : list (nat * sm).
  Variable val : nat -> outcome unit nval.
  Variable nodes : list nat.
  Variable st : inner_state.
  Hypothesis HA : invG run p D c0 val nodes nodes st.

  Lemma res_of_G_nf : no_program_failed (res_of st).
  Proof. unfold res_of. rewrite (g_failed _ _ _ _ _ _ _ _ HA). destruct (is_unsat st); exact I. Qed.

  Lemma res_of_G_ok g d : res_of st = Ok (g, d) ->
    (forall v, In v nodes -> good_val (val v)) /\ g = fold_left (fun a v => gas_add a (val v)) nodes 0%Z /\ d = flat_map (fun v => data_of (val v)) nodes.
  Proof.
    unfold res_of. rewrite (g_failed _ _ _ _ _ _ _ _ HA). destruct (is_unsat st) eqn:Eu; [|discriminate].
    intros E. injection E as <- <-. rewrite (g_unsat _ _ _ _ _ _ _ _ HA) in Eu.
    split; [|split; [apply (g_gas _ _ _ _ _ _ _ _ HA)|apply (g_data _ _ _ _ _ _ _ _ HA)]].
    intros v Hv. apply (ran_unsat_good v).
    - eapply okG_ran. exact (g_vals _ _ _ _ _ _ _ _ HA v Hv).
    - exact (flat_map_nil_inv _ _ Eu v Hv).
  Qed.

  Lemma res_of_G_good : (forall v, In v nodes -> good_val (val v)) -> exists g d, res_of st = Ok (g, d).
  Proof.
    intros Hg. unfold res_of. rewrite (g_failed _ _ _ _ _ _ _ _ HA), (g_unsat _ _ _ _ _ _ _ _ HA).
    rewrite flat_map_all_nil; [eauto|]. intros v Hv. apply good_unsat_nil. auto.
  Qed.

  Lemma res_of_G_unsat us : res_of st = Err (PConstraintsUnsatisfied us) ->
    us <> [] /\ us = flat_map (fun v => unsat_of v (val v)) nodes.
  Proof.
    unfold res_of. rewrite (g_failed _ _ _ _ _ _ _ _ HA). destruct (is_unsat st) eqn:Eu; [discriminate|].
    intros E. injection E as <-. split; [discriminate|]. rewrite <- Eu. apply (g_unsat _ _ _ _ _ _ _ _ HA).
  Qed.
End ResG.

Lemma res_of_F run p val levels ca st : invFG run p val levels ca st ->
  (exists fl, res_of st = Err (PProgramErrors fl)) /\ exists f, In f (concat levels) /\ f < length (p_nodes p) /\ val f = Ok NVFail.
Proof.
  intros (pre & f & post & tl & E & _ & Hf & Hvf & Hfl & _). split.
  - unfold res_of. rewrite Hfl. eauto.
  - exists f. split; [rewrite E; apply in_or_app; right; now left|auto].
Qed.

(* ------------------------------------------------------------------------------------------ *)
(* the shared cache keeps its keys strictly ascending (it is a BTreeMap) *)

Definition ksorted {A} (m : list (nat * A)) : Prop := StronglySorted lt (map fst m).

Lemma ainsert_keys {A} k (v : A) m x : In x (map fst (ainsert k v m)) -> x = k \/ In x (map fst m).
Proof.
  induction m as [|[a w] r IH]; simpl.
  - intros [H|[]]; auto.
  - destruct (Nat.eqb k a); simpl.
    + intros [H|H]; auto.
    + destruct (Nat.ltb k a); simpl.
      * intros [H|[H|H]]; auto.
      * intros [H|H]; auto. destruct (IH H); auto.
Qed.

Lemma ainsert_sorted {A} k (v : A) m : ksorted m -> ksorted (ainsert k v m).
Proof.
  unfold ksorted. induction m as [|[a w] r IH]; simpl; intros H.
  - constructor; constructor.
  - apply StronglySorted_inv in H as [Hr Ha].
    destruct (Nat.eqb_spec k a) as [E|E]; simpl.
    + subst. constructor; assumption.
    + destruct (Nat.ltb_spec k a) as [L|L]; simpl.
      * constructor. { constructor; assumption. }
        constructor; [exact L|]. eapply Forall_impl; [|exact Ha]. intros; lia.
      * constructor; [apply IH; exact Hr|]. apply Forall_forall. intros x Hx.
        apply ainsert_keys in Hx as [Hx|Hx]; [lia|]. rewrite Forall_forall in Ha. auto.
Qed.

Lemma absorb_sorted p ca d rs : forall st, ksorted (is_cache st) -> ksorted (is_cache (fst (absorb p ca d st rs))).
Proof.
  induction rs as [|[[v r] ins] rs IH]; intros st H; simpl; [exact H|].
  destruct r as [[s m|o] g|].
  - destruct (should_cache p d v); apply IH; cbn [is_cache]; [apply ainsert_sorted|]; exact H.
  - apply IH. exact H.
  - destruct ca; [apply IH|]; exact H.
Qed.

Lemma run_levels_sorted run p ca pm d : forall levels st st' stop,
  run_levels run p ca pm d st levels = Ok (st', stop) -> ksorted (is_cache st) -> ksorted (is_cache st').
Proof.
  induction levels as [|level rest IH]; intros st st' stop H Hs; simpl in H.
  - injection H as <- <-. exact Hs.
  - apply bind_ok in H as (rs & Hrs & H).
    pose proof (absorb_sorted p ca d rs (add_events st rs) Hs) as Hs1.
    destruct (absorb p ca d (add_events st rs) rs) as [st1 stop1]. cbn [fst] in Hs1.
    destruct stop1; [injection H as <- <-; exact Hs1|eapply IH; eauto].
Qed.

Lemma sorted_lt_ext (l1 l2 : list nat) :
  StronglySorted lt l1 -> StronglySorted lt l2 -> (forall x, In x l1 <-> In x l2) -> l1 = l2.
Proof.
  revert l2; induction l1 as [|a l1 IH]; intros l2 H1 H2 Hin.
  - destruct l2 as [|b l2]; [reflexivity|]. exfalso. apply (Hin b). now left.
  - destruct l2 as [|b l2]; [exfalso; apply (Hin a); now left|].
    apply StronglySorted_inv in H1 as [H1 Ha]. apply StronglySorted_inv in H2 as [H2 Hb].
    rewrite Forall_forall in Ha, Hb.
    assert (a = b).
    { destruct (proj1 (Hin a) (or_introl eq_refl)) as [E|E]; [auto|].
      destruct (proj2 (Hin b) (or_introl eq_refl)) as [E'|E']; [auto|].
      specialize (Ha _ E'). specialize (Hb _ E). lia. }
    subst b. f_equal. apply IH; auto. intros x. split; intros Hx.
    + destruct (proj1 (Hin x) (or_intror Hx)) as [E|E]; [|exact E]. subst x. specialize (Ha _ Hx). lia.
    + destruct (proj2 (Hin x) (or_intror Hx)) as [E|E]; [|exact E]. subst x. specialize (Hb _ Hx). lia.
Qed.

Lemma sorted_seq a k : StronglySorted lt (seq a k).
Proof.
  revert a; induction k as [|k IH]; intros a; simpl; constructor; [apply IH|].
  apply Forall_forall. intros x Hx. apply in_seq in Hx. lia.
Qed.

Lemma sorted_filter (f : nat -> bool) l : StronglySorted lt l -> StronglySorted lt (filter f l).
Proof.
  induction l as [|a l IH]; intros H; simpl; [constructor|].
  apply StronglySorted_inv in H as [H Ha]. destruct (f a); [|auto].
  constructor; [auto|]. rewrite Forall_forall in *. intros x Hx. apply filter_In in Hx. apply Ha. tauto.
Qed.

Lemma aget_keys {A} u (m : list (nat * A)) : In u (map fst m) <-> aget u m <> None.
Proof.
  induction m as [|[a w] r IH]; simpl; [tauto|].
  destruct (Nat.eqb_spec u a) as [E|E].
  - subst. split; [discriminate|auto].
  - rewrite <- IH. split; [intros [H|H]; [congruence|exact H]|auto].
Qed.

(* ------------------------------------------------------------------------------------------ *)
(* the two calls *)

Section Two.
  Variables run1 run2 : nat -> bool -> list sm -> outcome unit prog_res.
  Variable p : predicate.
  Variable is_def : nat -> bool.
  Variable pm : list (nat * list nat).
  Variable sorted : list (list nat).
  Hypothesis Hcpm : create_parent_map p = Ok pm.
  Hypothesis Htopo : parallel_topo_sort p pm = Ok sorted.
  Notation n := (length (p_nodes p)).
  Notation D := (find_deferred p is_def).
  Notation R := (run12 D run1 run2).
  Notation val := (vals p R).
  Notation L1 := (remove_deferred sorted D).
  Notation L2 := (remove_not_deferred sorted D).
  Notation N1 := (nodes_first D sorted).
  Notation N2 := (nodes_second D sorted).
  Notation sc := (should_cache p D).

  Let Hok : level_sort_ok p pm sorted := kahn_level_sort_ok p pm sorted Hcpm Htopo.

  Lemma val_fix v : v < n -> val v = vstep R p val v.
  Proof.
    apply (val_eq R p (filter nonempty sorted)).
    - rewrite concat_filter_nonempty. exact (lso_nodup _ _ _ Hok).
    - intros w. rewrite concat_filter_nonempty. exact (lso_nodes _ _ _ Hok w).
    - apply parents_before_filter. exact (lso_parents_before _ _ _ Hok).
    - apply filter_nonempty_all.
  Qed.

  Lemma concat_L1 : concat L1 = N1.
  Proof. apply remove_deferred_concat. Qed.
  Lemma concat_L2 : concat L2 = N2.
  Proof. apply remove_not_deferred_concat. Qed.

  Lemma in_N1 v : In v N1 <-> v < n /\ ~ In v D.
  Proof. unfold nodes_first. rewrite filter_In, negb_true_iff, memb_false, (lso_nodes _ _ _ Hok v). tauto. Qed.
  Lemma in_N2 v : In v N2 <-> v < n /\ In v D.
  Proof. unfold nodes_second. rewrite filter_In, memb_In, (lso_nodes _ _ _ Hok v). tauto. Qed.

  Lemma nodup_N1 : NoDup N1.
  Proof. apply NoDup_filter. exact (lso_nodup _ _ _ Hok). Qed.
  Lemma nodup_N2 : NoDup N2.
  Proof. apply NoDup_filter. exact (lso_nodup _ _ _ Hok). Qed.

  (* the non-deferred nodes are closed under parents *)
  Lemma nd_parent u v : v < n -> ~ In v D -> In u (parents_ref p v) -> ~ In u D.
  Proof.
    intros Hv Hnd Hu Hud. apply Hnd. apply (find_deferred_step p is_def v Hv). right.
    exists u. split; [|exact Hud]. apply parents_ref_edge. exact Hu.
  Qed.

  Lemma pb1 done level rest u v : L1 = done ++ level :: rest -> In v level -> In u (parents_ref p v) -> In u (concat done).
  Proof.
    intros E Hv Hu. eapply (pb_filter p (fun x => negb (memb x D)) sorted (lso_parents_before _ _ _ Hok)); eauto.
    assert (Hv1 : In v N1).
    { rewrite <- concat_L1, E, concat_app. apply in_or_app; right. simpl. apply in_or_app; now left. }
    apply in_N1 in Hv1 as [Hvn Hvd]. apply negb_true_iff, memb_false. eapply nd_parent; eauto.
  Qed.

  Lemma pb2 done level rest u v : L2 = done ++ level :: rest -> In v level -> In u (parents_ref p v) -> In u D -> In u (concat done).
  Proof.
    intros E Hv Hu Hud. eapply (pb_filter p (fun x => memb x D) sorted (lso_parents_before _ _ _ Hok)); eauto.
    apply memb_In. exact Hud.
  Qed.

  Lemma value_first_eq : forall f v, v < n -> ~ In v D ->
    value p run1 (fun x => memb x D) f v = value p R (fun _ => false) f v.
  Proof.
    induction f as [|f IH]; intros v Hv Hd; [reflexivity|].
    rewrite !value_S_skip. assert (Hm : memb v D = false) by (apply memb_false; exact Hd). rewrite Hm.
    rewrite (vstep_run12_first D run1 run2 p _ v Hm). apply vstep_ext. intros u Hu.
    apply IH; [eapply parent_lt; eauto|eapply nd_parent; eauto].
  Qed.

  Definition final_of (st : inner_state) : inner_result :=
    {| ir_res := res_of st; ir_cache := is_cache st; ir_events := rev (is_events st) |}.

  (* ---------------------------------------------------------------------------------------- *)
  (* first call *)

  Section First.
    Variable ca1 : bool.
    Variable r1 : inner_result.
    Hypothesis Hleaf1 : run_respects_leaf run1.
    Hypothesis Hres1 : check_predicate_inner run1 p ca1 is_def Outputs [] = Ok r1.

    Lemma first_cases : exists st, r1 = final_of st /\ (invG run1 p D [] val N1 N1 st \/ invFG run1 p val L1 ca1 st).
    Proof.
      rewrite (cpi_unfold run1 p ca1 is_def Outputs [] pm sorted Hcpm Htopo) in Hres1. cbn [pass_levels] in Hres1.
      destruct (run_levels run1 p ca1 pm D (stG []) L1) as [[st stop]| | |] eqn:ERL; try discriminate.
      cbn [bind fst] in Hres1. injection Hres1 as Er. exists st. split; [now rewrite <- Er|].
      pose proof (run_levels_allG run1 p D [] val L1 pm) as H. rewrite concat_L1 in H.
      destruct (H) with (ca := ca1) (st := st) (stop := stop) as [(_ & HA)|HF]; auto.
      - intros v Hv. apply in_N1 in Hv as [Hv Hd]. rewrite (val_fix v Hv).
        apply vstep_run12_first. apply memb_false. exact Hd.
      - intros v Hv. apply in_N1 in Hv. tauto.
      - intros done level rest u v E Hv Hu. left. eapply pb1; eauto.
      - intros u o Ho. discriminate.
      - exact (create_parent_map_valid p pm Hcpm).
      - exact (lso_parents _ _ _ Hok).
    Qed.

    Hypothesis Hnf1 : no_program_failed (ir_res r1).

    Lemma first_G : exists st, r1 = {| ir_res := res_of st; ir_cache := is_cache st; ir_events := map (evG p val) N1 |} /\
                               invG run1 p D [] val N1 N1 st.
    Proof.
      destruct first_cases as (st & Er & [HA|HF]).
      - exists st. split; [|exact HA]. rewrite Er. unfold final_of. rewrite (g_events _ _ _ _ _ _ _ _ HA), rev_involutive. reflexivity.
      - exfalso. destruct HF as (pre & f & post & tl & _ & _ & _ & _ & Hfl & _).
        rewrite Er in Hnf1. cbn [final_of ir_res] in Hnf1. unfold res_of in Hnf1. rewrite Hfl in Hnf1. exact Hnf1.
    Qed.
  End First.
  Lemma sc_in_N1 u : sc u = true -> In u N1.
  Proof.
    intros H. apply should_cache_spec in H as (Hd & c & (cs & Hc & _) & _).
    apply in_N1. split; [eapply children_some_lt; eauto|exact Hd].
  Qed.

  Lemma sc_N2_false u : In u D -> sc u = false.
  Proof.
    intros H. destruct (sc u) eqn:E; [|reflexivity]. apply should_cache_spec in E as (Hd & _). contradiction.
  Qed.

  (* everything the final state of a failure-free first call tells *)
  Section AfterFirst.
    Variable st1 : inner_state.
    Hypothesis HA1 : invG run1 p D [] val N1 N1 st1.

    Lemma cache1 u : aget u (is_cache st1) = if sc u then outG val u else None.
    Proof.
      rewrite (g_cache _ _ _ _ _ _ _ _ HA1). destruct (sc u) eqn:E.
      - rewrite (memb_true_of_In _ _ (sc_in_N1 u E)). reflexivity.
      - rewrite andb_false_r. reflexivity.
    Qed.

    Lemma N1_parent_out u v : In u N1 -> In u (parents_ref p v) -> exists o, outG val u = Some o.
    Proof.
      intros Hu Hp. eapply okG_out; [exact (g_vals _ _ _ _ _ _ _ _ HA1 u Hu)|]. eapply parent_not_leaf; eauto.
    Qed.

    (* a non-deferred parent of a deferred node is in the shared cache *)
    Lemma ext_parent_cached u v : In v D -> In u (parents_ref p v) -> ~ In u D ->
      In u N1 /\ exists o, outG val u = Some o /\ aget u (is_cache st1) = Some o.
    Proof.
      intros Hv Hu Hud.
      assert (Hsc : sc u = true).
      { apply should_cache_edge. split; [exact Hud|]. exists v. split; [|exact Hv]. apply parents_ref_edge. exact Hu. }
      pose proof (sc_in_N1 u Hsc) as Hu1. split; [exact Hu1|].
      destruct (N1_parent_out u v Hu1 Hu) as (o & Ho). exists o. split; [exact Ho|].
      rewrite cache1, Hsc. exact Ho.
    Qed.

    Section Second.
      Variable ca2 : bool.
      Variable r2 : inner_result.
      Hypothesis Hleaf2 : run_respects_leaf run2.
      Hypothesis Hres2 : check_predicate_inner run2 p ca2 is_def Checks (is_cache st1) = Ok r2.

      Lemma second_cases : exists st, r2 = final_of st /\
        (invG run2 p D (is_cache st1) val N2 N2 st \/ invFG run2 p val L2 ca2 st).
      Proof.
        rewrite (cpi_unfold run2 p ca2 is_def Checks _ pm sorted Hcpm Htopo) in Hres2. cbn [pass_levels] in Hres2.
        destruct (run_levels run2 p ca2 pm D (stG (is_cache st1)) L2) as [[st stop]| | |] eqn:ERL; try discriminate.
        cbn [bind fst] in Hres2. injection Hres2 as Er. exists st. split; [now rewrite <- Er|].
        pose proof (run_levels_allG run2 p D (is_cache st1) val L2 pm) as H. rewrite concat_L2 in H.
        destruct (H) with (ca := ca2) (st := st) (stop := stop) as [(_ & HA)|HF]; auto.
        - intros v Hv. apply in_N2 in Hv as [Hv Hd]. rewrite (val_fix v Hv).
          apply vstep_run12_second. apply memb_In. exact Hd.
        - intros v Hv. apply in_N2 in Hv. tauto.
        - intros done level rest u v E Hv Hu.
          assert (Hv2 : In v N2).
          { rewrite <- concat_L2, E, concat_app. apply in_or_app; right. simpl. apply in_or_app; now left. }
          apply in_N2 in Hv2 as [Hvn Hvd].
          destruct (in_dec Nat.eq_dec u D) as [Hud|Hud].
          + left. eapply pb2; eauto.
          + right. destruct (ext_parent_cached u v Hvd Hu Hud) as (_ & o & _ & Ho). eauto.
        - intros u o Ho. rewrite cache1 in Ho. destruct (sc u); [exact Ho|discriminate].
        - exact (create_parent_map_valid p pm Hcpm).
        - exact (lso_parents _ _ _ Hok).
      Qed.

      Lemma second_G : no_program_failed (ir_res r2) ->
        exists st, r2 = {| ir_res := res_of st; ir_cache := is_cache st; ir_events := map (evG p val) N2 |} /\
                   invG run2 p D (is_cache st1) val N2 N2 st.
      Proof.
        intros Hnf2. destruct second_cases as (st & Er & [HA|HF]).
        - exists st. split; [|exact HA]. rewrite Er. unfold final_of. rewrite (g_events _ _ _ _ _ _ _ _ HA), rev_involutive. reflexivity.
        - exfalso. destruct (res_of_F _ _ _ _ _ _ HF) as ((fl & Efl) & _).
          rewrite Er in Hnf2. cbn [final_of ir_res] in Hnf2. rewrite Efl in Hnf2. exact Hnf2.
      Qed.
    End Second.
  End AfterFirst.

  Lemma sc_iff u : sc u = true <-> u < n /\ ~ In u D /\ exists c, In c (kids p u) /\ In c D.
  Proof.
    rewrite should_cache_spec. unfold kids. split.
    - intros (Hd & c & (cs & Hc & Hin) & Hcd). split; [eapply children_some_lt; eauto|]. split; [exact Hd|].
      exists c. rewrite Hc. auto.
    - intros (_ & Hd & c & Hin & Hcd). split; [exact Hd|]. exists c. split; [|exact Hcd].
      destruct (children p u) as [cs|]; [eauto|contradiction].
  Qed.

  (* ---------------------------------------------------------------------------------------- *)
  (* 1. the first call *)

  Section Thm1.
    Variable ca1 : bool.
    Variable r1 : inner_result.
    Hypothesis Hleaf1 : run_respects_leaf run1.
    Hypothesis Hres1 : check_predicate_inner run1 p ca1 is_def Outputs [] = Ok r1.
    Hypothesis Hnf1 : no_program_failed (ir_res r1).

    Lemma outputs_pass_l :
      map fst (ir_events r1) = N1 /\ NoDup (map fst (ir_events r1)) /\
      (forall v, In v (map fst (ir_events r1)) <-> v < n /\ ~ In v D) /\
      (forall pre v ins post, ir_events r1 = pre ++ (v, ins) :: post ->
         forall u, In u (parents_ref p v) -> ~ In u D /\ In u (map fst pre)) /\
      (forall v ins, In (v, ins) (ir_events r1) ->
         ins = flat_map (fun u => opt_list (out_of_events run1 p (ir_events r1) u)) (parents_ref p v) /\
         (forall u, In u (parents_ref p v) -> exists o, out_of_events run1 p (ir_events r1) u = Some o) /\
         exists res, run1 v (is_leaf p v) ins = Ok res /\ res <> PFail /\
                     value p run1 (fun x => memb x D) (S n) v = Ok (nval_of res) /\ val v = Ok (nval_of res)).
    Proof.
      destruct (first_G ca1 r1 Hleaf1 Hres1 Hnf1) as (st & Er & HA).
      assert (Eev : ir_events r1 = map (evG p val) N1) by (rewrite Er; reflexivity).
      assert (Ek : map fst (ir_events r1) = N1) by (rewrite Eev; apply map_fst_evG).
      split; [exact Ek|]. split; [rewrite Ek; exact nodup_N1|]. split; [intros v; rewrite Ek; apply in_N1|]. split.
      - intros pre v ins post E u Hu.
        assert (Esplit : N1 = map fst pre ++ v :: map fst post) by (rewrite <- Ek, E, map_app; reflexivity).
        assert (Hv : In v N1) by (rewrite Esplit; apply in_or_app; right; now left).
        apply in_N1 in Hv as [Hvn Hvd]. split; [eapply nd_parent; eauto|].
        eapply (order_from_levels L1 (fun u v => In u (parents_ref p v))).
        + rewrite concat_L1. exact nodup_N1.
        + intros done level rest u0 v0 E0 Hv0 Hu0. eapply pb1; eauto.
        + rewrite concat_L1. exact Esplit.
        + exact Hu.
      - intros v ins Hin. rewrite Eev in Hin. apply in_map_iff in Hin as (w & Ew & Hw). unfold evG in Ew. injection Ew as -> <-.
        pose proof Hw as Hw'. apply in_N1 in Hw' as [Hvn Hvd].
        assert (Hpn : forall u, In u (parents_ref p v) -> In u N1).
        { intros u Hu. apply in_N1. split; [eapply parent_lt; eauto|eapply nd_parent; eauto]. }
        split; [|split].
        + rewrite Eev. unfold insG. apply flat_map_ext_in'. intros u Hu.
          rewrite (out_of_events_G run1 p D [] val N1 st u HA (Hpn u Hu)). reflexivity.
        + intros u Hu. rewrite Eev, (out_of_events_G run1 p D [] val N1 st u HA (Hpn u Hu)).
          eapply (N1_parent_out st HA); eauto.
        + destruct (g_vals _ _ _ _ _ _ _ _ HA v Hw) as (_ & res & Hr & Hval & Hnf & _).
          exists res. split; [exact Hr|]. split; [exact Hnf|]. split; [|exact Hval].
          rewrite <- Hval. unfold vals. apply value_first_eq; auto.
    Qed.

    Lemma cache_contents_l :
      (forall u, aget u (ir_cache r1) = if sc u then out_of_events run1 p (ir_events r1) u else None) /\
      (forall u, sc u = true -> In u (map fst (ir_events r1)) /\ exists o, out_of_events run1 p (ir_events r1) u = Some o) /\
      (forall u, sc u = true <-> u < n /\ ~ In u D /\ exists c, In c (kids p u) /\ In c D).
    Proof.
      destruct (first_G ca1 r1 Hleaf1 Hres1 Hnf1) as (st & Er & HA).
      assert (Eev : ir_events r1 = map (evG p val) N1) by (rewrite Er; reflexivity).
      assert (Ec : ir_cache r1 = is_cache st) by (rewrite Er; reflexivity).
      assert (Hout : forall u, sc u = true -> In u N1 /\ out_of_events run1 p (ir_events r1) u = outG val u).
      { intros u Hu. pose proof (sc_in_N1 u Hu) as Hu1. split; [exact Hu1|].
        rewrite Eev. apply (out_of_events_G run1 p D [] val N1 st u HA Hu1). }
      split; [|split].
      - intros u. rewrite Ec, (cache1 st HA u). destruct (sc u) eqn:E; [|reflexivity].
        symmetry. apply Hout. exact E.
      - intros u Hu. destruct (Hout u Hu) as [Hu1 Eo]. split; [rewrite Eev, map_fst_evG; exact Hu1|].
        rewrite Eo. eapply okG_out; [exact (g_vals _ _ _ _ _ _ _ _ HA u Hu1)|]. eapply should_cache_not_leaf; eauto.
      - exact sc_iff.
    Qed.
    Lemma cache_keys_l : map fst (ir_cache r1) = filter sc (seq 0 n).
    Proof.
      assert (Hs : ksorted (ir_cache r1)).
      { pose proof Hres1 as H. rewrite (cpi_unfold run1 p ca1 is_def Outputs [] pm sorted Hcpm Htopo) in H.
        destruct (run_levels run1 p ca1 pm D (stG []) (pass_levels p is_def Outputs sorted)) as [[st stop]| | |] eqn:ERL; try discriminate.
        cbn [bind fst] in H. injection H as <-. cbn [ir_cache]. eapply run_levels_sorted; [exact ERL|]. constructor. }
      destruct cache_contents_l as (Hc & Hout & _).
      apply sorted_lt_ext; [exact Hs|apply sorted_filter, sorted_seq|].
      intros u. rewrite aget_keys, Hc, filter_In, in_seq. split.
      - destruct (sc u) eqn:E; [|congruence]. intros _. apply sc_iff in E. split; [lia|reflexivity].
      - intros [_ E]. rewrite E. destruct (Hout u E) as (_ & o & Ho). rewrite Ho. discriminate.
    Qed.
  End Thm1.

  (* ---------------------------------------------------------------------------------------- *)
  (* 2.-4. the second call, from the cache left by the first *)

  Section Thm2.
    Variables ca1 ca2 : bool.
    Variables r1 r2 : inner_result.
    Hypothesis Hleaf1 : run_respects_leaf run1.
    Hypothesis Hleaf2 : run_respects_leaf run2.
    Hypothesis Hres1 : check_predicate_inner run1 p ca1 is_def Outputs [] = Ok r1.
    Hypothesis Hres2 : check_predicate_inner run2 p ca2 is_def Checks (ir_cache r1) = Ok r2.
    Notation o12 := (out12 D run1 run2 p (ir_events r1) (ir_events r2)).

    Lemma both_G : no_program_failed (ir_res r1) -> no_program_failed (ir_res r2) ->
      exists st1 st2,
        r1 = {| ir_res := res_of st1; ir_cache := is_cache st1; ir_events := map (evG p val) N1 |} /\
        invG run1 p D [] val N1 N1 st1 /\
        r2 = {| ir_res := res_of st2; ir_cache := is_cache st2; ir_events := map (evG p val) N2 |} /\
        invG run2 p D (is_cache st1) val N2 N2 st2.
    Proof.
      intros Hnf1 Hnf2. destruct (first_G ca1 r1 Hleaf1 Hres1 Hnf1) as (st1 & Er1 & HA1).
      pose proof Hres2 as H2. replace (ir_cache r1) with (is_cache st1) in H2 by (rewrite Er1; reflexivity).
      destruct (second_G st1 HA1 ca2 r2 Hleaf2 H2 Hnf2) as (st2 & Er2 & HA2).
      exists st1, st2. auto.
    Qed.

    Lemma checks_pass_l : no_program_failed (ir_res r1) -> no_program_failed (ir_res r2) ->
      map fst (ir_events r2) = N2 /\ NoDup (map fst (ir_events r2)) /\
      (forall v, In v (map fst (ir_events r2)) <-> v < n /\ In v D) /\
      (forall pre v ins post, ir_events r2 = pre ++ (v, ins) :: post ->
         forall u, In u (parents_ref p v) -> In u D -> In u (map fst pre)) /\
      (forall v ins, In (v, ins) (ir_events r2) ->
         ins = flat_map (fun u => opt_list (o12 u)) (parents_ref p v) /\
         length ins = length (parents_ref p v) /\
         (forall u, In u (parents_ref p v) -> exists o, o12 u = Some o /\
              (~ In u D -> In u (map fst (ir_events r1)) /\ aget u (ir_cache r1) = Some o)) /\
         exists res, run2 v (is_leaf p v) ins = Ok res /\ res <> PFail /\ val v = Ok (nval_of res)) /\
      (forall u, aget u (ir_cache r2) = aget u (ir_cache r1)).
    Proof.
      intros Hnf1 Hnf2. destruct (both_G Hnf1 Hnf2) as (st1 & st2 & Er1 & HA1 & Er2 & HA2).
      assert (Eev1 : ir_events r1 = map (evG p val) N1) by (rewrite Er1; reflexivity).
      assert (Eev : ir_events r2 = map (evG p val) N2) by (rewrite Er2; reflexivity).
      assert (Ek : map fst (ir_events r2) = N2) by (rewrite Eev; apply map_fst_evG).
      assert (Ec1 : ir_cache r1 = is_cache st1) by (rewrite Er1; reflexivity).
      split; [exact Ek|]. split; [rewrite Ek; exact nodup_N2|]. split; [intros v; rewrite Ek; apply in_N2|].
      split; [|split].
      - intros pre v ins post E u Hu Hud.
        assert (Esplit : N2 = map fst pre ++ v :: map fst post) by (rewrite <- Ek, E, map_app; reflexivity).
        eapply (order_from_levels L2 (fun u v => In u (parents_ref p v) /\ In u D)).
        + rewrite concat_L2. exact nodup_N2.
        + intros done level rest u0 v0 E0 Hv0 [Hu0 Hd0]. eapply pb2; eauto.
        + rewrite concat_L2. exact Esplit.
        + split; [exact Hu|exact Hud].
      - intros v ins Hin. rewrite Eev in Hin. apply in_map_iff in Hin as (w & Ew & Hw). unfold evG in Ew. injection Ew as -> <-.
        pose proof Hw as Hw'. apply in_N2 in Hw' as [Hvn Hvd].
        assert (Hpar : forall u, In u (parents_ref p v) ->
                  o12 u = outG val u /\ exists o, outG val u = Some o /\
                  (~ In u D -> In u (map fst (ir_events r1)) /\ aget u (ir_cache r1) = Some o)).
        { intros u Hu. unfold out12. destruct (in_dec Nat.eq_dec u D) as [Hud|Hud].
          - assert (Hu2 : In u N2) by (apply in_N2; split; [eapply parent_lt; eauto|exact Hud]).
            rewrite (memb_true_of_In _ _ Hud), Eev.
            rewrite (out_of_events_G run2 p D _ val N2 st2 u HA2 Hu2). split; [reflexivity|].
            destruct (okG_out run2 p val u (g_vals _ _ _ _ _ _ _ _ HA2 u Hu2) (parent_not_leaf _ _ _ Hu)) as (o & Ho).
            exists o. split; [exact Ho|]. intros Hc. contradiction.
          - destruct (ext_parent_cached st1 HA1 u v Hvd Hu Hud) as (Hu1 & o & Ho & Hc).
            assert (Hm : memb u D = false) by (apply memb_false; exact Hud). rewrite Hm, Eev1.
            rewrite (out_of_events_G run1 p D [] val N1 st1 u HA1 Hu1). split; [reflexivity|].
            exists o. split; [exact Ho|]. intros _. rewrite map_fst_evG, Ec1. auto. }
        split; [|split; [|split]].
        + unfold insG. apply flat_map_ext_in'. intros u Hu. destruct (Hpar u Hu) as [E _]. now rewrite E.
        + unfold insG. apply length_flat_map_some. intros u Hu. destruct (Hpar u Hu) as (_ & o & Ho & _). eauto.
        + intros u Hu. destruct (Hpar u Hu) as (E & o & Ho & Hc). exists o. rewrite E. auto.
        + destruct (g_vals _ _ _ _ _ _ _ _ HA2 v Hw) as (_ & res & Hr & Hval & Hnf & _).
          exists res. auto.
      - intros u. rewrite Er2, Ec1. cbn [ir_cache]. rewrite (g_cache _ _ _ _ _ _ _ _ HA2).
        destruct (memb u N2) eqn:M; [|reflexivity]. apply memb_In, in_N2 in M as [_ Hd].
        rewrite (sc_N2_false u Hd). reflexivity.
    Qed.

    Lemma two_modes_each_node_once_l : no_program_failed (ir_res r1) -> no_program_failed (ir_res r2) ->
      Permutation (map fst (ir_events r1 ++ ir_events r2)) (seq 0 n) /\
      NoDup (map fst (ir_events r1 ++ ir_events r2)) /\
      (forall v, In v (map fst (ir_events r1)) <-> v < n /\ ~ In v D) /\
      (forall v, In v (map fst (ir_events r2)) <-> v < n /\ In v D).
    Proof.
      intros Hnf1 Hnf2. destruct (both_G Hnf1 Hnf2) as (st1 & st2 & Er1 & HA1 & Er2 & HA2).
      assert (Ek1 : map fst (ir_events r1) = N1) by (rewrite Er1; apply map_fst_evG).
      assert (Ek2 : map fst (ir_events r2) = N2) by (rewrite Er2; apply map_fst_evG).
      assert (HP : Permutation (map fst (ir_events r1 ++ ir_events r2)) (seq 0 n)).
      { rewrite map_app, Ek1, Ek2, <- concat_L1, <- concat_L2.
        eapply Permutation_trans; [apply passes_partition|].
        apply NoDup_Permutation; [exact (lso_nodup _ _ _ Hok)|apply seq_NoDup|].
        intros x. rewrite (lso_nodes _ _ _ Hok x), in_seq. lia. }
      split; [exact HP|]. split.
      - eapply Permutation_NoDup; [apply Permutation_sym; exact HP|apply seq_NoDup].
      - split; intros v; [rewrite Ek1; apply in_N1|rewrite Ek2; apply in_N2].
    Qed.

    Lemma two_modes_verdict_l :
      (((exists g1 d1, ir_res r1 = Ok (g1, d1)) /\ (exists g2 d2, ir_res r2 = Ok (g2, d2))) <->
       (forall v, v < n -> good_val (val v))) /\
      (forall g1 d1 g2 d2, ir_res r1 = Ok (g1, d1) -> ir_res r2 = Ok (g2, d2) ->
         g1 = fold_left (fun a v => gas_add a (val v)) N1 0%Z /\ d1 = flat_map (fun v => data_of (val v)) N1 /\
         g2 = fold_left (fun a v => gas_add a (val v)) N2 0%Z /\ d2 = flat_map (fun v => data_of (val v)) N2).
    Proof.
      assert (Hboth : forall g1 d1 g2 d2, ir_res r1 = Ok (g1, d1) -> ir_res r2 = Ok (g2, d2) ->
                ((forall v, In v N1 -> good_val (val v)) /\ g1 = fold_left (fun a v => gas_add a (val v)) N1 0%Z /\
                 d1 = flat_map (fun v => data_of (val v)) N1) /\
                ((forall v, In v N2 -> good_val (val v)) /\ g2 = fold_left (fun a v => gas_add a (val v)) N2 0%Z /\
                 d2 = flat_map (fun v => data_of (val v)) N2)).
      { intros g1 d1 g2 d2 E1 E2.
        assert (Hnf1 : no_program_failed (ir_res r1)) by (rewrite E1; exact I).
        assert (Hnf2 : no_program_failed (ir_res r2)) by (rewrite E2; exact I).
        destruct (both_G Hnf1 Hnf2) as (st1 & st2 & Er1 & HA1 & Er2 & HA2).
        rewrite Er1 in E1. rewrite Er2 in E2. cbn [ir_res] in E1, E2.
        split; [exact (res_of_G_ok _ _ _ _ _ _ _ HA1 g1 d1 E1)|exact (res_of_G_ok _ _ _ _ _ _ _ HA2 g2 d2 E2)]. }
      split.
      - split.
        + intros ((g1 & d1 & E1) & (g2 & d2 & E2)) v Hv.
          destruct (Hboth g1 d1 g2 d2 E1 E2) as ((H1 & _) & (H2 & _)).
          destruct (in_dec Nat.eq_dec v D) as [Hd|Hd]; [apply H2; apply in_N2; auto|apply H1; apply in_N1; auto].
        + intros Hgood.
          destruct (first_cases ca1 r1 Hleaf1 Hres1) as (st1 & Er1 & [HA1|HF1]).
          2:{ exfalso. destruct (res_of_F _ _ _ _ _ _ HF1) as (_ & f & _ & Hf & Hvf).
              specialize (Hgood f Hf). rewrite Hvf in Hgood. exact Hgood. }
          assert (Hok1 : exists g d, res_of st1 = Ok (g, d)).
          { apply (res_of_G_good _ _ _ _ _ _ _ HA1). intros v Hv. apply Hgood. apply in_N1 in Hv. tauto. }
          split; [rewrite Er1; exact Hok1|].
          pose proof Hres2 as H2. replace (ir_cache r1) with (is_cache st1) in H2 by (rewrite Er1; reflexivity).
          destruct (second_cases st1 HA1 ca2 r2 Hleaf2 H2) as (st2 & Er2 & [HA2|HF2]).
          2:{ exfalso. destruct (res_of_F _ _ _ _ _ _ HF2) as (_ & f & _ & Hf & Hvf).
              specialize (Hgood f Hf). rewrite Hvf in Hgood. exact Hgood. }
          rewrite Er2. apply (res_of_G_good _ _ _ _ _ _ _ HA2). intros v Hv. apply Hgood. apply in_N2 in Hv. tauto.
      - intros g1 d1 g2 d2 E1 E2. destruct (Hboth g1 d1 g2 d2 E1 E2) as ((_ & A & B) & (_ & C & E)). auto.
    Qed.
  End Thm2.
End Two.

(* ------------------------------------------------------------------------------------------ *)
(* final forms *)

(* 1. *)
Lemma outputs_pass_is_reference_on_non_deferred run1 p ca is_def pm sorted r1 :
  create_parent_map p = Ok pm -> parallel_topo_sort p pm = Ok sorted -> run_respects_leaf run1 ->
  check_predicate_inner run1 p ca is_def Outputs [] = Ok r1 -> no_program_failed (ir_res r1) ->
  let D := find_deferred p is_def in
  let n := length (p_nodes p) in
  map fst (ir_events r1) = nodes_first D sorted /\ NoDup (map fst (ir_events r1)) /\
  (forall v, In v (map fst (ir_events r1)) <-> v < n /\ ~ In v D) /\
  (forall pre v ins post, ir_events r1 = pre ++ (v, ins) :: post ->
     forall u, In u (parents_ref p v) -> ~ In u D /\ In u (map fst pre)) /\
  (forall v ins, In (v, ins) (ir_events r1) ->
     ins = flat_map (fun u => opt_list (out_of_events run1 p (ir_events r1) u)) (parents_ref p v) /\
     (forall u, In u (parents_ref p v) -> exists o, out_of_events run1 p (ir_events r1) u = Some o) /\
     exists res, run1 v (is_leaf p v) ins = Ok res /\ res <> PFail /\
                 value p run1 (fun x => memb x D) (S n) v = Ok (nval_of res) /\
                 forall run2, value p (run12 D run1 run2) (fun _ => false) (S n) v = Ok (nval_of res)).
Proof.
  intros Hcpm Htopo Hleaf Hres Hnf D n.
  pose proof (fun run2 => outputs_pass_l run1 run2 p is_def pm sorted Hcpm Htopo ca r1 Hleaf Hres Hnf) as HL.
  destruct (HL run1) as (A & B & C & E & F).
  split; [exact A|]. split; [exact B|]. split; [exact C|]. split; [exact E|].
  intros v ins Hin. destruct (F v ins Hin) as (F1 & F2 & res & G1 & G2 & G3 & _).
  split; [exact F1|]. split; [exact F2|]. exists res. split; [exact G1|]. split; [exact G2|]. split; [exact G3|].
  intros run2. destruct (HL run2) as (_ & _ & _ & _ & F'). destruct (F' v ins Hin) as (_ & _ & res' & G1' & _ & _ & G4').
  rewrite G1 in G1'. injection G1' as <-. exact G4'.
Qed.

Lemma outputs_pass_cache_contents run1 p ca is_def pm sorted r1 :
  create_parent_map p = Ok pm -> parallel_topo_sort p pm = Ok sorted -> run_respects_leaf run1 ->
  check_predicate_inner run1 p ca is_def Outputs [] = Ok r1 -> no_program_failed (ir_res r1) ->
  let D := find_deferred p is_def in
  let n := length (p_nodes p) in
  map fst (ir_cache r1) = filter (should_cache p D) (seq 0 n) /\
  (forall u, aget u (ir_cache r1) = if should_cache p D u then out_of_events run1 p (ir_events r1) u else None) /\
  (forall u, should_cache p D u = true ->
     In u (map fst (ir_events r1)) /\ exists o, out_of_events run1 p (ir_events r1) u = Some o) /\
  (forall u, should_cache p D u = true <-> u < n /\ ~ In u D /\ exists c, In c (kids p u) /\ In c D).
Proof.
  intros Hcpm Htopo Hleaf Hres Hnf D n. split.
  - exact (cache_keys_l run1 run1 p is_def pm sorted Hcpm Htopo ca r1 Hleaf Hres Hnf).
  - exact (cache_contents_l run1 run1 p is_def pm sorted Hcpm Htopo ca r1 Hleaf Hres Hnf).
Qed.

(* 2. *)
Definition checks_pass_is_reference_on_deferred := checks_pass_l.
(* 3. *)
Definition two_modes_each_node_once := two_modes_each_node_once_l.
(* 4. *)
Definition two_modes_verdict := two_modes_verdict_l.
