(* Proofs about the lock interleaving model (property C20). *)
From Coq Require Import ZArith List Lia Bool Arith Permutation.
From EB Require Import Lock.Lock.
Import ListNotations.

(* ---------- list helpers ---------- *)
Lemma upd_length {A} (l : list A) n x : length (upd l n x) = length l.
Proof.
  revert n; induction l as [|a l IH]; intros [|n]; cbn [upd length]; auto.
Qed.

Lemma nth_error_upd_eq {A} (l : list A) n x : n < length l -> nth_error (upd l n x) n = Some x.
Proof.
  revert n; induction l as [|a l IH]; intros [|n] Hn; cbn [upd length nth_error] in *; try lia; auto.
  apply IH; lia.
Qed.

Lemma nth_error_upd_neq {A} (l : list A) n m x : n <> m -> nth_error (upd l n x) m = nth_error l m.
Proof.
  revert n m; induction l as [|a l IH]; intros [|n] [|m] Hn; cbn [upd nth_error]; auto; try lia.
Qed.

Lemma filter_partition_perm {A} (f : A -> bool) (l : list A) :
  Permutation l (filter (fun x => negb (f x)) l ++ filter f l).
Proof.
  induction l as [|a l IH]; cbn [filter]; [constructor|].
  destruct (f a); cbn [negb app].
  - apply Permutation_cons_app; exact IH.
  - constructor; exact IH.
Qed.

Lemma map_nth_seq {A} (l : list A) d : map (fun i => nth i l d) (seq 0 (length l)) = l.
Proof.
  induction l as [|a l IH]; cbn [length seq map nth]; [reflexivity|].
  f_equal. rewrite <- seq_shift, map_map. exact IH.
Qed.

Section LockProofs.
Variables T U : Type.
Notation closure := (closure T U).
Notation state := (state T U).
Notation entry := (entry T U).
Notation thread := (thread T U).

(* ---------- the two semantics agree ---------- *)
Lemma holder_is_true (h : option nat) t : holder_is h t = true <-> h = Some t.
Proof.
  destruct h as [t'|]; cbn [holder_is]; split; intro H; try discriminate.
  - apply Nat.eqb_eq in H; congruence.
  - injection H as H; subst; apply Nat.eqb_refl.
Qed.

Lemma step_fn_sound (s : state) t s' : step_fn s t = Some s' -> step s t s'.
Proof.
  unfold step_fn. intro H.
  destruct (nth_error (threads s) t) as [th|] eqn:Hth; [|discriminate].
  destruct (ph th) as [|snap] eqn:Hph; destruct (prog th) as [|f rest] eqn:Hpr; try discriminate.
  - destruct (holder s) eqn:Hh; [discriminate|]. injection H as H; subst s'.
    eapply step_acquire; eauto.
  - destruct (holder_is (holder s) t) eqn:Hh; [|discriminate]. injection H as H; subst s'.
    apply holder_is_true in Hh. eapply step_finish; eauto.
Qed.

Lemma step_fn_complete (s : state) t s' : step s t s' -> step_fn s t = Some s'.
Proof.
  intro H; destruct H as [th f rest Hth Hph Hpr Hh | th snap f rest Hth Hph Hpr Hh];
    unfold step_fn; rewrite Hth, Hph, Hpr.
  - rewrite Hh. reflexivity.
  - apply holder_is_true in Hh. rewrite Hh. reflexivity.
Qed.

Lemma step_fn_iff (s : state) t s' : step_fn s t = Some s' <-> step s t s'.
Proof. split; [apply step_fn_sound | apply step_fn_complete]. Qed.

Lemma run_schedule_app (s : state) a b :
  run_schedule s (a ++ b) = match run_schedule s a with Some s' => run_schedule s' b | None => None end.
Proof.
  revert s; induction a as [|t a IH]; intro s; cbn [app run_schedule]; [reflexivity|].
  destruct (step_fn s t); auto.
Qed.

(* ---------- chains ---------- *)
Lemma serial_chain_snoc v (l : list entry) e :
  serial_chain v (l ++ [e]) <->
  serial_chain v l /\ e_seen e = last_written v l /\
  e_fn e (e_seen e) = (e_written e, e_result e).
Proof.
  revert v; induction l as [|a l IH]; intro v; cbn [app serial_chain].
  - unfold last_written; cbn [fold_left]. split.
    + intros (H1 & H2 & _). subst v. auto.
    + intros (_ & H1 & H2). rewrite <- H1. auto.
  - rewrite IH. unfold last_written; cbn [fold_left]. tauto.
Qed.

Lemma last_written_snoc v (l : list entry) e : last_written v (l ++ [e]) = e_written e.
Proof. unfold last_written. rewrite fold_left_app. reflexivity. Qed.

Lemma replay_chain v (l : list entry) : serial_chain v l -> replay v l = last_written v l.
Proof.
  revert v; induction l as [|a l IH]; intros v H; [reflexivity|].
  cbn [serial_chain] in H. destruct H as (_ & H2 & H3).
  unfold replay, last_written; cbn [fold_left]. rewrite H2; cbn [fst]. apply IH, H3.
Qed.

Lemma calls_of_snoc t (l : list entry) e :
  calls_of t (l ++ [e]) = calls_of t l ++ (if Nat.eqb (e_tid e) t then [e] else []).
Proof. unfold calls_of. rewrite filter_app. cbn [filter]. destruct (Nat.eqb (e_tid e) t); reflexivity. Qed.

(* ---------- the invariant ---------- *)
Record inv (v0 : T) (P : list (list closure)) (s : state) : Prop := {
  inv_len : length (threads s) = length P;
  inv_free : holder s = None ->
             forall t th, nth_error (threads s) t = Some th -> ph th = Idle;
  inv_held : forall h, holder s = Some h ->
             exists th, nth_error (threads s) h = Some th /\ ph th = Holding (data s) /\
                        prog th <> [] /\
                        forall t th', t <> h -> nth_error (threads s) t = Some th' -> ph th' = Idle;
  inv_chain : serial_chain v0 (log s);
  inv_data : last_written v0 (log s) = data s;
  inv_prog : forall t th, nth_error (threads s) t = Some th ->
             nth t P [] = map e_fn (calls_of t (log s)) ++ prog th;
  inv_tid : Forall (fun e => e_tid e < length P) (log s)
}.

Lemma inv_init (v0 : T) (P : list (list closure)) : inv v0 P (init v0 P).
Proof.
  split; cbn [init threads holder data log].
  - apply map_length.
  - intros _ t th H. apply nth_error_In, in_map_iff in H. destruct H as (p & H & _). subst th. reflexivity.
  - intros h H; discriminate.
  - exact I.
  - reflexivity.
  - intros t th H. cbn [calls_of filter map app].
    rewrite nth_error_map in H. destruct (nth_error P t) as [p|] eqn:Hp; [|discriminate].
    injection H as H; subst th. cbn [prog]. apply nth_error_nth. exact Hp.
  - constructor.
Qed.

Lemma inv_step (v0 : T) (P : list (list closure)) (s : state) t s' : inv v0 P s -> step s t s' -> inv v0 P s'.
Proof.
  intros I H.
  assert (Hlt : forall th, nth_error (threads s) t = Some th -> t < length (threads s)).
  { intros th Hth. apply nth_error_Some. congruence. }
  destruct H as [th f rest Hth Hph Hpr Hh | th snap f rest Hth Hph Hpr Hh].
  - (* acquire *)
    specialize (Hlt th Hth).
    split; cbn [acquired threads holder data log].
    + rewrite upd_length. apply (inv_len _ _ _ I).
    + intro Hd; discriminate.
    + intros h Hd. injection Hd as Hd; subst h.
      eexists. split; [apply nth_error_upd_eq, Hlt|].
      cbn [ph prog]. split; [reflexivity|]. split; [rewrite Hpr; discriminate|].
      intros t' th' Hne Hth'. rewrite nth_error_upd_neq in Hth' by auto.
      eapply (inv_free _ _ _ I); eauto.
    + apply (inv_chain _ _ _ I).
    + apply (inv_data _ _ _ I).
    + intros t' th' Hth'. destruct (Nat.eq_dec t t') as [E|E].
      * subst t'. rewrite nth_error_upd_eq in Hth' by exact Hlt. injection Hth' as Hth'; subst th'.
        cbn [prog]. apply (inv_prog _ _ _ I); exact Hth.
      * rewrite nth_error_upd_neq in Hth' by exact E. apply (inv_prog _ _ _ I); exact Hth'.
    + apply (inv_tid _ _ _ I).
  - (* finish *)
    specialize (Hlt th Hth).
    destruct (inv_held _ _ _ I t Hh) as (th0 & Hth0 & Hph0 & Hne0 & Hothers).
    assert (th0 = th) by congruence. subst th0.
    assert (Hsnap : snap = data s) by congruence.
    split; cbn [finished threads holder data log].
    + rewrite upd_length. apply (inv_len _ _ _ I).
    + intros _ t' th' Hth'. destruct (Nat.eq_dec t t') as [E|E].
      * subst t'. rewrite nth_error_upd_eq in Hth' by exact Hlt. injection Hth' as Hth'; subst th'. reflexivity.
      * rewrite nth_error_upd_neq in Hth' by exact E. eapply Hothers; eauto.
    + intros h Hd; discriminate.
    + apply serial_chain_snoc. cbn [e_seen e_written e_result e_fn].
      split; [apply (inv_chain _ _ _ I)|]. split.
      * rewrite (inv_data _ _ _ I). exact Hsnap.
      * destruct (f snap); reflexivity.
    + rewrite last_written_snoc. reflexivity.
    + intros t' th' Hth'. rewrite calls_of_snoc; cbn [e_tid].
      destruct (Nat.eq_dec t t') as [E|E].
      * subst t'. rewrite nth_error_upd_eq in Hth' by exact Hlt. injection Hth' as Hth'; subst th'.
        rewrite Nat.eqb_refl. cbn [prog]. rewrite map_app, <- app_assoc. cbn [map app e_fn].
        rewrite (inv_prog _ _ _ I t th Hth), Hpr. reflexivity.
      * rewrite nth_error_upd_neq in Hth' by exact E.
        destruct (Nat.eqb_spec t t') as [E'|_]; [contradiction|].
        rewrite app_nil_r. apply (inv_prog _ _ _ I); exact Hth'.
    + apply Forall_app; split; [apply (inv_tid _ _ _ I)|].
      constructor; [|constructor]. cbn [e_tid]. rewrite <- (inv_len _ _ _ I). exact Hlt.
Qed.

Lemma inv_run (v0 : T) (P : list (list closure)) sched : forall s s', inv v0 P s -> run_schedule s sched = Some s' -> inv v0 P s'.
Proof.
  induction sched as [|t r IH]; intros s s' I H; cbn [run_schedule] in H.
  - injection H as H; subst; exact I.
  - destruct (step_fn s t) as [s1|] eqn:Hs; [|discriminate].
    apply (IH s1 s'); [|exact H]. eapply inv_step; [exact I|]. apply step_fn_sound, Hs.
Qed.

Lemma inv_reachable (v0 : T) (P : list (list closure)) sched s : run_schedule (init v0 P) sched = Some s -> inv v0 P s.
Proof. apply inv_run, inv_init. Qed.

(* ---------- mutual exclusion ---------- *)
Definition mutex_ok (s : state) : Prop :=
  forall t th snap, nth_error (threads s) t = Some th -> ph th = Holding snap ->
    holder s = Some t /\ snap = data s /\
    forall t' th' snap', nth_error (threads s) t' = Some th' -> ph th' = Holding snap' -> t' = t.

Lemma inv_mutex (v0 : T) (P : list (list closure)) s : inv v0 P s -> mutex_ok s.
Proof.
  intros I t th snap Hth Hph.
  destruct (holder s) as [h|] eqn:Hh.
  - destruct (inv_held _ _ _ I h Hh) as (th0 & Hth0 & Hph0 & _ & Hothers).
    assert (Hone : forall t' th' snap', nth_error (threads s) t' = Some th' -> ph th' = Holding snap' -> t' = h).
    { intros t' th' snap' H1 H2. destruct (Nat.eq_dec t' h) as [E|E]; [exact E|].
      rewrite (Hothers t' th' E H1) in H2. discriminate. }
    assert (t = h) by (eapply Hone; eauto). subst h.
    split; [reflexivity|]. split; [congruence|]. exact Hone.
  - rewrite (inv_free _ _ _ I Hh t th Hth) in Hph. discriminate.
Qed.

Lemma mutual_exclusion (v0 : T) (P : list (list closure)) sched s :
  run_schedule (init v0 P) sched = Some s -> mutex_ok s.
Proof. intro H. eapply inv_mutex, inv_reachable, H. Qed.

(* the holder field never names an idle thread *)
Lemma holder_is_holding (v0 : T) (P : list (list closure)) sched s h :
  run_schedule (init v0 P) sched = Some s -> holder s = Some h ->
  exists th, nth_error (threads s) h = Some th /\ ph th = Holding (data s).
Proof.
  intros H Hh. destruct (inv_held _ _ _ (inv_reachable _ _ _ _ H) h Hh) as (th & H1 & H2 & _).
  eauto.
Qed.

(* ---------- serialisability ---------- *)
Lemma serialisable (v0 : T) (P : list (list closure)) sched s :
  run_schedule (init v0 P) sched = Some s ->
  data s = replay v0 (log s) /\ serial_chain v0 (log s).
Proof.
  intro H. pose proof (inv_reachable _ _ _ _ H) as I.
  split; [|apply (inv_chain _ _ _ I)].
  rewrite replay_chain by apply (inv_chain _ _ _ I). symmetry; apply (inv_data _ _ _ I).
Qed.

(* each call returned its closure's value on the value it saw *)
Lemma serial_chain_results v (l : list entry) :
  serial_chain v l -> Forall (fun e => e_fn e (e_seen e) = (e_written e, e_result e)) l.
Proof.
  revert v; induction l as [|a l IH]; intros v H; constructor; cbn [serial_chain] in H.
  - destruct H as (H1 & H2 & _). rewrite H1. exact H2.
  - eapply IH, H.
Qed.

(* ---------- program order / completeness ---------- *)
Lemma log_split_by_tid n (l : list entry) :
  Forall (fun e => e_tid e < n) l ->
  Permutation l (concat (map (fun t => calls_of t l) (seq 0 n))).
Proof.
  revert l; induction n as [|n IH]; intros l H.
  - destruct l as [|a l]; [constructor|]. inversion H; lia.
  - rewrite seq_S, map_app, concat_app. cbn [map concat plus]. rewrite app_nil_r.
    eapply Permutation_trans; [apply (filter_partition_perm (fun e => Nat.eqb (e_tid e) n))|].
    apply Permutation_app; [|apply Permutation_refl].
    set (l' := filter (fun x => negb (Nat.eqb (e_tid x) n)) l).
    assert (Hl' : Forall (fun e => e_tid e < n) l').
    { apply Forall_forall. intros e He. apply filter_In in He. destruct He as (He & Hn).
      rewrite Forall_forall in H. specialize (H e He).
      destruct (Nat.eqb_spec (e_tid e) n); [discriminate|lia]. }
    eapply Permutation_trans; [apply (IH l' Hl')|].
    replace (map (fun t => calls_of t l') (seq 0 n)) with (map (fun t => calls_of t l) (seq 0 n));
      [apply Permutation_refl|].
    apply map_ext_in. intros t Ht. apply in_seq in Ht.
    unfold l', calls_of. clear -Ht. induction l as [|a l IHl]; cbn [filter]; [reflexivity|].
    destruct (Nat.eqb_spec (e_tid a) n) as [E|E]; cbn [negb filter].
    + destruct (Nat.eqb_spec (e_tid a) t); [lia|]. exact IHl.
    + destruct (Nat.eqb (e_tid a) t); [f_equal|]; exact IHl.
Qed.

Lemma all_done_nth (s : state) t th : all_done s -> nth_error (threads s) t = Some th -> prog th = [].
Proof.
  intros H Hth. unfold all_done in H. rewrite Forall_forall in H. apply H. eapply nth_error_In, Hth.
Qed.

(* in every reachable state: program of t = calls already made by t (in log order) ++ calls still to make *)
Lemma program_order (v0 : T) (P : list (list closure)) sched s t th :
  run_schedule (init v0 P) sched = Some s -> nth_error (threads s) t = Some th ->
  nth t P [] = map e_fn (calls_of t (log s)) ++ prog th.
Proof. intros H. apply (inv_prog _ _ _ (inv_reachable _ _ _ _ H)). Qed.

Lemma complete_runs_serial (v0 : T) (P : list (list closure)) sched s :
  run_schedule (init v0 P) sched = Some s -> all_done s ->
  Permutation (map e_fn (log s)) (concat P) /\
  (forall t, map e_fn (calls_of t (log s)) = nth t P []) /\
  length (log s) = length (concat P).
Proof.
  intros H Hd. pose proof (inv_reachable _ _ _ _ H) as I.
  assert (Hper : forall t, map e_fn (calls_of t (log s)) = nth t P []).
  { intro t. destruct (nth_error (threads s) t) as [th|] eqn:Hth.
    - rewrite (inv_prog _ _ _ I t th Hth), (all_done_nth s t th Hd Hth), app_nil_r. reflexivity.
    - apply nth_error_None in Hth. rewrite (inv_len _ _ _ I) in Hth.
      rewrite (nth_overflow P [] Hth).
      assert (E : calls_of t (log s) = []); [|rewrite E; reflexivity].
      pose proof (inv_tid _ _ _ I) as Ht. unfold calls_of.
      induction (log s) as [|a l IHl]; cbn [filter]; [reflexivity|].
      inversion Ht as [|? ? Ha Hl]; subst.
      destruct (Nat.eqb_spec (e_tid a) t); [lia|]. apply IHl, Hl. }
  assert (Hp : Permutation (map e_fn (log s)) (concat P)).
  { eapply Permutation_trans.
    - apply Permutation_map. apply (log_split_by_tid (length P)), (inv_tid _ _ _ I).
    - rewrite concat_map, map_map.
      rewrite (map_ext _ (fun t => nth t P []) Hper), map_nth_seq. apply Permutation_refl. }
  split; [exact Hp|]. split; [exact Hper|].
  rewrite <- (map_length e_fn). apply Permutation_length, Hp.
Qed.

(* ---------- deadlock freedom ---------- *)
Lemma inv_deadlock_free (v0 : T) (P : list (list closure)) (s : state) : inv v0 P s -> has_work s -> exists t, step_fn s t <> None.
Proof.
  intros I (t & th & Hth & Hw).
  destruct (holder s) as [h|] eqn:Hh.
  - destruct (inv_held _ _ _ I h Hh) as (th0 & Hth0 & Hph0 & Hne0 & _).
    exists h. unfold step_fn. rewrite Hth0, Hph0.
    destruct (prog th0) as [|f rest]; [congruence|].
    rewrite Hh. cbn [holder_is]. rewrite Nat.eqb_refl. discriminate.
  - pose proof (inv_free _ _ _ I Hh t th Hth) as Hidle.
    destruct Hw as [Hw | (snap & Hw)]; [|congruence].
    exists t. unfold step_fn. rewrite Hth, Hidle, Hh.
    destruct (prog th) as [|f rest]; [congruence|]. discriminate.
Qed.

Lemma deadlock_free (v0 : T) (P : list (list closure)) sched s :
  run_schedule (init v0 P) sched = Some s -> has_work s -> exists t, step_fn s t <> None.
Proof. intro H. eapply inv_deadlock_free, inv_reachable, H. Qed.

(* a thread that is not enabled is an idle thread waiting for the lock held by ANOTHER thread, or has finished *)
Lemma blocked_only_by_holder (v0 : T) (P : list (list closure)) sched s t th :
  run_schedule (init v0 P) sched = Some s -> nth_error (threads s) t = Some th ->
  step_fn s t = None ->
  prog th = [] \/ (ph th = Idle /\ exists h, holder s = Some h /\ h <> t).
Proof.
  intros H Hth Hn. pose proof (inv_reachable _ _ _ _ H) as I.
  unfold step_fn in Hn. rewrite Hth in Hn.
  destruct (prog th) as [|f rest] eqn:Hpr; [left; reflexivity|right].
  destruct (ph th) as [|snap] eqn:Hph.
  - split; [reflexivity|]. destruct (holder s) as [h|] eqn:Hh; [|discriminate].
    exists h. split; [reflexivity|]. intro E; subst h.
    destruct (inv_held _ _ _ I t Hh) as (th0 & Hth0 & Hph0 & _). congruence.
  - destruct (inv_mutex _ _ _ I t th snap Hth Hph) as (Hh & _).
    rewrite Hh in Hn. cbn [holder_is] in Hn. rewrite Nat.eqb_refl in Hn. discriminate.
Qed.

(* liveness of the scheduler-free kind: from every reachable state some continuation of the schedule
   completes all programs (so no reachable state is stuck, and no thread is ever excluded for good) *)
Definition weight (th : thread) : nat :=
  match ph th with Idle => 2 * length (prog th) | Holding _ => 2 * length (prog th) - 1 end.
Fixpoint wsum (l : list thread) : nat :=
  match l with [] => 0 | a :: r => weight a + wsum r end.
Definition work (s : state) : nat := wsum (threads s).

Lemma list_sum_upd (l : list thread) t th th' :
  nth_error l t = Some th -> weight th' < weight th -> wsum (upd l t th') < wsum l.
Proof.
  revert t; induction l as [|a l IH]; intros [|t] H Hw; cbn [nth_error] in H; try discriminate.
  - injection H as H; subst a. cbn [upd wsum]. lia.
  - cbn [upd wsum]. specialize (IH t H Hw). lia.
Qed.

Lemma step_decreases_work (s : state) t s' : step s t s' -> work s' < work s.
Proof.
  intro H; destruct H as [th f rest Hth Hph Hpr Hh | th snap f rest Hth Hph Hpr Hh];
    unfold work; cbn [acquired finished threads]; apply (list_sum_upd _ _ th _ Hth);
    unfold weight; cbn [ph prog]; rewrite Hph, Hpr; cbn [length]; lia.
Qed.

Lemma all_done_or_has_work (s : state) : all_done s \/ has_work s.
Proof.
  unfold all_done, has_work. induction (threads s) as [|a l IH]; [left; constructor|].
  destruct (prog a) as [|f r] eqn:Hp.
  - destruct IH as [IH|(t & th & H1 & H2)].
    + left; constructor; assumption.
    + right. exists (S t), th. split; assumption.
  - right. exists 0, a. split; [reflexivity|]. left. congruence.
Qed.

Lemma inv_can_complete (v0 : T) (P : list (list closure)) n : forall s : state,
  work s < n -> inv v0 P s -> exists sched s', run_schedule s sched = Some s' /\ all_done s'.
Proof.
  induction n as [|n IH]; intros s Hn I; [lia|].
  destruct (all_done_or_has_work s) as [Hd|Hw].
  - exists [], s. split; [reflexivity|exact Hd].
  - destruct (inv_deadlock_free _ _ _ I Hw) as (t & Ht).
    destruct (step_fn s t) as [s1|] eqn:Hs; [|congruence].
    pose proof (step_fn_sound _ _ _ Hs) as Hst.
    destruct (IH s1) as (sched & s' & Hr & Hd).
    + pose proof (step_decreases_work _ _ _ Hst). lia.
    + eapply inv_step; eauto.
    + exists (t :: sched), s'. cbn [run_schedule]. rewrite Hs. auto.
Qed.

Lemma can_always_complete (v0 : T) (P : list (list closure)) sched s :
  run_schedule (init v0 P) sched = Some s ->
  exists sched' s', run_schedule (init v0 P) (sched ++ sched') = Some s' /\ all_done s'.
Proof.
  intro H. destruct (inv_can_complete v0 P (S (work s)) s (Nat.lt_succ_diag_r _) (inv_reachable _ _ _ _ H))
    as (sched' & s' & Hr & Hd).
  exists sched', s'. rewrite run_schedule_app, H. auto.
Qed.

(* ---------- history checker ---------- *)
Section Checker.
Variable T_eqb : T -> T -> bool.
Hypothesis T_eqb_spec : forall a b, T_eqb a b = true <-> a = b.

Lemma check_history_iff v (l : list (hrec T)) : check_history T_eqb v l = true <-> hist_chain v l.
Proof.
  revert v; induction l as [|r l IH]; intro v; cbn [check_history hist_chain]; [tauto|].
  rewrite andb_true_iff, T_eqb_spec, IH. tauto.
Qed.

Lemma hist_chain_of_serial v (l : list entry) : serial_chain v l -> hist_chain v (hist_of_log l).
Proof.
  revert v; induction l as [|e l IH]; intros v H; cbn [hist_of_log map hist_chain]; [exact I|].
  cbn [serial_chain] in H. destruct H as (H1 & _ & H3).
  split; [exact H1|]. apply IH. exact H3.
Qed.

Lemma model_log_passes (v0 : T) (P : list (list closure)) sched s :
  run_schedule (init v0 P) sched = Some s -> check_history T_eqb v0 (hist_of_log (log s)) = true.
Proof.
  intro H. apply check_history_iff, hist_chain_of_serial. apply (serialisable _ _ _ _ H).
Qed.

(* A chain of records is a serial execution: it is exactly the history of the model running the
   constant-writer closures sequentially (thread by thread in record order). *)
Definition writer (u : U) (r : hrec T) : closure := fun _ => (h_written r, u).

Definition progs_of_hist (u : U) (n : nat) (l : list (hrec T)) : list (list closure) :=
  map (fun t => map (writer u) (filter (fun r => Nat.eqb (h_tid r) t) l)) (seq 0 n).

Definition sched_of_hist (l : list (hrec T)) : list nat :=
  concat (map (fun r => [h_tid r; h_tid r]) l).

Definition ready_for (u : U) (l : list (hrec T)) (s : state) : Prop :=
  holder s = None /\
  forall t, t < length (threads s) ->
    nth_error (threads s) t = Some (mkThread (map (writer u) (filter (fun r => Nat.eqb (h_tid r) t) l)) Idle).

Lemma run_hist u (l : list (hrec T)) : forall (s : state),
  ready_for u l s -> Forall (fun r => h_tid r < length (threads s)) l -> hist_chain (data s) l ->
  exists s', run_schedule s (sched_of_hist l) = Some s' /\
             hist_of_log (log s') = hist_of_log (log s) ++ l /\ all_done s'.
Proof.
  induction l as [|r l IH]; intros s (Hh & Hthr) Hb Hc.
  - exists s. cbn [sched_of_hist map concat run_schedule]. split; [reflexivity|].
    split; [rewrite app_nil_r; reflexivity|].
    unfold all_done. apply Forall_forall. intros th Hin. apply In_nth_error in Hin.
    destruct Hin as (t & Ht). assert (Hlt : t < length (threads s)) by (apply nth_error_Some; congruence).
    rewrite (Hthr t Hlt) in Ht. injection Ht as Ht; subst th. reflexivity.
  - inversion Hb as [|? ? Hr Hb']; subst. cbn [hist_chain] in Hc. destruct Hc as (Hseen & Hc).
    set (t := h_tid r) in *.
    pose proof (Hthr t Hr) as Ht. cbn [filter] in Ht. fold t in Ht. rewrite Nat.eqb_refl in Ht.
    cbn [map] in Ht.
    set (rest := map (writer u) (filter (fun r0 => Nat.eqb (h_tid r0) t) l)) in *.
    set (th := mkThread (writer u r :: rest) Idle) in *.
    set (s1 := acquired s t th).
    set (s2 := finished s1 t (data s) (writer u r) rest).
    assert (H1 : step_fn s t = Some s1).
    { unfold step_fn. rewrite Ht. cbn [ph prog th]. rewrite Hh. reflexivity. }
    assert (H2 : step_fn s1 t = Some s2).
    { unfold step_fn, s1. cbn [acquired threads holder]. rewrite nth_error_upd_eq by exact Hr.
      cbn [ph prog th holder_is]. rewrite Nat.eqb_refl. reflexivity. }
    destruct (IH s2) as (s' & Hrun & Hlog & Hdone).
    + split; [reflexivity|]. intros t' Ht'. unfold s2, s1 in *.
      cbn [finished acquired threads] in *. rewrite !upd_length in Ht'.
      destruct (Nat.eq_dec t t') as [E|E].
      * subst t'. rewrite nth_error_upd_eq by (rewrite upd_length; exact Hr). reflexivity.
      * rewrite !nth_error_upd_neq by exact E. rewrite (Hthr t' Ht'). cbn [filter].
        fold t. destruct (Nat.eqb_spec t t'); [contradiction|]. reflexivity.
    + unfold s2, s1. cbn [finished acquired threads]. rewrite !upd_length. exact Hb'.
    + unfold s2. cbn [finished data writer fst]. exact Hc.
    + exists s'. split.
      * cbn [sched_of_hist map concat app run_schedule]. fold t. rewrite H1, H2. exact Hrun.
      * split; [|exact Hdone]. rewrite Hlog. unfold s2, s1. cbn [finished acquired log].
        unfold hist_of_log. rewrite map_app, <- app_assoc. cbn [map app e_tid e_seen e_written writer fst].
        f_equal. f_equal. rewrite <- Hseen. unfold t. destruct r as [[a b] c]; reflexivity.
Qed.

Lemma passing_history_is_model_run (u : U) n v0 (l : list (hrec T)) :
  Forall (fun r => h_tid r < n) l -> check_history T_eqb v0 l = true ->
  exists s, run_schedule (init v0 (progs_of_hist u n l)) (sched_of_hist l) = Some s /\
            hist_of_log (log s) = l /\ all_done s.
Proof.
  intros Hb Hc. apply check_history_iff in Hc.
  assert (Hlen : length (threads (init v0 (progs_of_hist u n l))) = n).
  { cbn [init threads]. unfold progs_of_hist. rewrite !map_length, seq_length. reflexivity. }
  destruct (run_hist u l (init v0 (progs_of_hist u n l))) as (s & H1 & H2 & H3).
  - split; [reflexivity|]. rewrite Hlen. intros t Ht. cbn [init threads]. unfold progs_of_hist.
    rewrite map_map, nth_error_map.
    assert (E : nth_error (seq 0 n) t = Some t).
    { rewrite (nth_error_nth' (seq 0 n) 0) by (rewrite seq_length; exact Ht).
      rewrite seq_nth by exact Ht. reflexivity. }
    rewrite E. reflexivity.
  - rewrite Hlen. exact Hb.
  - exact Hc.
  - exists s. split; [exact H1|]. split; [exact H2|exact H3].
Qed.

End Checker.
End LockProofs.

Lemma check_history_sound_complete_for_model :
  forall (T U : Type) (T_eqb : T -> T -> bool), (forall a b, T_eqb a b = true <-> a = b) ->
  (forall v (l : list (nat * T * T)),
     check_history T_eqb v l = true <-> hist_chain v l) /\
  (forall (v0 : T) (P : list (list (closure T U))) sched s,
     run_schedule (init v0 P) sched = Some s ->
     check_history T_eqb v0 (map (fun e => (e_tid e, e_seen e, e_written e)) (log s)) = true) /\
  (forall (u : U) n (v0 : T) (l : list (nat * T * T)),
     Forall (fun r => fst (fst r) < n) l -> check_history T_eqb v0 l = true ->
     exists s, run_schedule (init v0 (progs_of_hist T U u n l)) (sched_of_hist T l) = Some s /\
               map (fun e => (e_tid e, e_seen e, e_written e)) (log s) = l /\
               Forall (fun th => prog th = []) (threads s)).
Proof.
  intros T U T_eqb H. split; [|split].
  - exact (check_history_iff T T_eqb H).
  - exact (model_log_passes T U T_eqb H).
  - exact (passing_history_is_model_run T U T_eqb H).
Qed.

(* ---------- counters ---------- *)
Local Open Scope Z_scope.

Definition is_incr (f : closure Z Z) : Prop := forall x, f x = (x + 1, x).

Lemma incr_chain v (l : list (entry Z Z)) :
  serial_chain v l -> Forall (fun e => is_incr (e_fn e)) l ->
  last_written v l = v + Z.of_nat (length l) /\
  (forall r, In r (map e_result l) -> v <= r) /\
  NoDup (map e_result l) /\
  map e_result l = map (fun i => v + Z.of_nat i) (seq 0 (length l)).
Proof.
  revert v; induction l as [|e l IH]; intros v Hc Hi.
  - unfold last_written; cbn [fold_left length map seq In]. repeat split; try constructor; try lia; try tauto.
  - cbn [serial_chain] in Hc. destruct Hc as (Hs & Hf & Hc).
    inversion Hi as [|? ? He Hi']; subst. rewrite (He (e_seen e)) in Hf.
    injection Hf as Hw Hr.
    destruct (IH (e_written e) Hc Hi') as (IH1 & IH2 & IH3 & IH4).
    unfold last_written in *; cbn [fold_left length map In seq]. repeat split.
    + rewrite IH1. lia.
    + intros r [Hr'|Hr']; [lia|]. specialize (IH2 r Hr'). lia.
    + constructor; [|exact IH3]. intro Hin. specialize (IH2 _ Hin). lia.
    + f_equal; [lia|]. rewrite IH4, <- seq_shift, map_map. apply map_ext. intro i. lia.
Qed.

Definition all_incr (P : list (list (closure Z Z))) : Prop :=
  forall p f, In p P -> In f p -> is_incr f.

Lemma log_fns_in_programs {T U} v0 (P : list (list (closure T U))) sched s e :
  run_schedule (init v0 P) sched = Some s -> In e (log s) -> In (e_fn e) (nth (e_tid e) P []) /\ (e_tid e < length P)%nat.
Proof.
  intros H He. pose proof (inv_reachable _ _ _ _ _ _ H) as I.
  pose proof (inv_tid _ _ _ _ _ I) as Ht. rewrite Forall_forall in Ht. specialize (Ht e He).
  split; [|exact Ht].
  rewrite <- (inv_len _ _ _ _ _ I) in Ht.
  destruct (nth_error (threads s) (e_tid e)) as [th|] eqn:Hth; [|apply nth_error_None in Hth; lia].
  rewrite (inv_prog _ _ _ _ _ I _ _ Hth). apply in_or_app; left. apply in_map.
  unfold calls_of. apply filter_In. split; [exact He|apply Nat.eqb_refl].
Qed.

Lemma counter_progress v0 P sched s :
  all_incr P -> run_schedule (init v0 P) sched = Some s ->
  data s = v0 + Z.of_nat (length (log s)) /\
  NoDup (map e_result (log s)) /\
  map e_result (log s) = map (fun i => v0 + Z.of_nat i) (seq 0 (length (log s))).
Proof.
  intros Hi H. pose proof (inv_reachable _ _ _ _ _ _ H) as I.
  assert (Hl : Forall (fun e => is_incr (e_fn e)) (log s)).
  { apply Forall_forall. intros e He. destruct (log_fns_in_programs _ _ _ _ _ H He) as (Hin & Hlt).
    eapply Hi; [|exact Hin]. apply nth_In. exact Hlt. }
  destruct (incr_chain v0 (log s) (inv_chain _ _ _ _ _ I) Hl) as (H1 & _ & H3 & H4).
  rewrite <- (inv_data _ _ _ _ _ I). auto.
Qed.

Lemma no_lost_update_counter v0 P sched s :
  all_incr P -> run_schedule (init v0 P) sched = Some s -> all_done s ->
  data s = v0 + Z.of_nat (length (concat P)) /\ NoDup (map e_result (log s)).
Proof.
  intros Hi H Hd. destruct (counter_progress _ _ _ _ Hi H) as (H1 & H2 & _).
  destruct (complete_runs_serial _ _ _ _ _ _ H Hd) as (_ & _ & H3).
  rewrite <- H3. auto.
Qed.

(* ---------- the broken variant loses updates ---------- *)
Definition two_incr : list (list (closure Z Z)) := [[incr]; [incr]].

Lemma broken_loses_update :
  exists sched s, run_broken (init 0 two_incr) sched = Some s /\ all_done s /\
                  length (concat two_incr) = 2%nat /\ data s = 1 /\
                  map e_result (log s) = [0; 0].
Proof.
  exists [0; 1; 0; 1]%nat. eexists. split; [vm_compute; reflexivity|].
  cbn. repeat split. repeat constructor.
Qed.

(* the same schedule is rejected by the real lock: thread 1 blocks *)
Lemma broken_schedule_rejected : run_schedule (init 0 two_incr) [0; 1; 0; 1]%nat = None.
Proof. reflexivity. Qed.
