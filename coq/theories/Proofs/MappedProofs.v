(* Lemmas for C14: BytecodeMapped agrees with the parsed operation list. *)
From Coq Require Import ZArith List Lia Bool.
From EB Require Import Base.ListX Asm.Op Proofs.AsmCodec Vm.Exec Vm.Mapped Spec.MappedSpec Proofs.ControlExec.
Open Scope list_scope.
Open Scope Z_scope.

(* ---------- lengths ---------- *)
Lemma zlen_app {A} (a b : list A) : zlen (a ++ b) = zlen a + zlen b.
Proof. unfold zlen. rewrite app_length. lia. Qed.

Lemma zlen_to_bytes1_push w : zlen (to_bytes1 (OPush w)) = 9.
Proof. unfold zlen. rewrite arg_bytes_spec. reflexivity. Qed.

Lemma offsets_length start ops : length (offsets start ops) = length ops.
Proof. revert start; induction ops as [|o ops IH]; intros start; cbn [offsets length]; [reflexivity|]. rewrite IH. reflexivity. Qed.

(* ---------- try_from_bytes versus parse ---------- *)
Lemma map_go_parse fuel : forall ix bs acc,
  map_go fuel ix bs acc =
  match parse fuel bs with
  | Ok ops => Ok (rev acc ++ offsets ix ops)
  | Err e => Err e
  | Panic s => Panic s
  | OutOfFuel => OutOfFuel
  end.
Proof.
  induction fuel as [|f IH]; intros ix bs acc.
  - destruct bs; cbn [map_go parse offsets]; [rewrite app_nil_r|]; reflexivity.
  - destruct bs as [|b rest]; cbn [map_go parse offsets]; [rewrite app_nil_r; reflexivity|].
    destruct (opcode_decode b) as [o|]; [|reflexivity].
    destruct o.
    1:{ destruct (length rest <? 8)%nat; [reflexivity|].
        rewrite IH. destruct (parse f (skipn 8 rest)) as [tl| | |]; cbn [bind]; try reflexivity.
        cbn [offsets rev]. rewrite zlen_to_bytes1_push, <- app_assoc. reflexivity. }
    all: rewrite IH; destruct (parse f rest) as [tl| | |]; cbn [bind]; try reflexivity;
         cbn [offsets rev]; rewrite <- app_assoc; reflexivity.
Qed.

Lemma try_from_bytes_parse bs :
  try_from_bytes bs =
  match from_bytes bs with
  | Ok ops => Ok {| mp_bytes := bs; mp_indices := offsets 0 ops |}
  | Err e => Err e
  | Panic s => Panic s
  | OutOfFuel => OutOfFuel
  end.
Proof.
  unfold try_from_bytes, from_bytes. rewrite map_go_parse.
  destruct (parse (length bs) bs); reflexivity.
Qed.

Lemma mapped_status_eq bs : status (try_from_bytes bs) = status (from_bytes bs).
Proof. rewrite try_from_bytes_parse. destruct (from_bytes bs); reflexivity. Qed.

Lemma mapped_ok_iff bs : (exists m, try_from_bytes bs = Ok m) <-> (exists ops, from_bytes bs = Ok ops).
Proof.
  rewrite try_from_bytes_parse. destruct (from_bytes bs) as [ops| | |]; split; intros [x Hx]; try discriminate; eauto.
Qed.

Lemma mapped_err_iff bs e : try_from_bytes bs = Err e <-> from_bytes bs = Err e.
Proof.
  rewrite try_from_bytes_parse. destruct (from_bytes bs) as [ops| | |]; split; intros Hx; try discriminate; injection Hx as ->; reflexivity.
Qed.

Lemma try_from_bytes_total bs : try_from_bytes bs <> OutOfFuel /\ no_panic (try_from_bytes bs).
Proof.
  destruct (from_bytes_total bs) as [F P]. rewrite try_from_bytes_parse.
  destruct (from_bytes bs) as [ops| |s|]; split; try discriminate; try congruence.
Qed.

(* ---------- reading operations back through the indices ---------- *)
Lemma expect_op_at_app pre bs :
  expect_op_at (pre ++ bs) (zlen pre) =
  match parse_one bs with
  | None => Panic "expect_ops_from_indices: expect (no bytes)"
  | Some (Ok o) => Ok o
  | Some _ => Panic "expect_ops_from_indices: expect (parse error)"
  end.
Proof.
  unfold expect_op_at. rewrite zlen_app.
  assert (0 <= zlen pre) as P by (unfold zlen; lia).
  assert (0 <= zlen bs) as Q by (unfold zlen; lia).
  destruct (Z.ltb_spec (zlen pre) 0) as [C|_]; [lia|].
  destruct (Z.ltb_spec (zlen pre + zlen bs) (zlen pre)) as [C|_]; [lia|].
  cbn [orb]. unfold zlen at 1. rewrite Nat2Z.id.
  rewrite (skipn_app_exact pre bs (length pre) eq_refl). reflexivity.
Qed.

Lemma parse_step_inv f b rest ops :
  parse (S f) (b :: rest) = Ok ops ->
  exists o tl n, parse_one (b :: rest) = Some (Ok o) /\ ops = o :: tl /\
                 parse f (skipn n rest) = Ok tl /\ (n <= length rest)%nat /\
                 zlen (to_bytes1 o) = 1 + Z.of_nat n.
Proof.
  cbn [parse parse_one]. destruct (opcode_decode b) as [o|]; [|discriminate].
  destruct o.
  1:{ destruct (Nat.ltb_spec (length rest) 8) as [C|L]; [discriminate|].
      intros H. apply bind_ok in H as [tl [Htl Hok]]. injection Hok as <-.
      exists (OPush (word_of_bytes (firstn 8 rest))), tl, 8%nat.
      split; [reflexivity|]. split; [reflexivity|]. split; [exact Htl|]. split; [exact L|].
      apply zlen_to_bytes1_push. }
  all: intros H; apply bind_ok in H as [tl [Htl Hok]]; injection Hok as <-;
       eexists _, tl, 0%nat; (split; [reflexivity|]); (split; [reflexivity|]); (split; [exact Htl|]);
       (split; [lia|reflexivity]).
Qed.

Lemma expect_ops_parse fuel : forall pre bs ops,
  parse fuel bs = Ok ops -> expect_ops (pre ++ bs) (offsets (zlen pre) ops) = Ok ops.
Proof.
  induction fuel as [|f IH]; intros pre bs ops H.
  - destruct bs; cbn [parse] in H; [|discriminate]. injection H as <-. reflexivity.
  - destruct bs as [|b rest]; [cbn [parse] in H; injection H as <-; reflexivity|].
    destruct (parse_step_inv f b rest ops H) as (o & tl & n & P1 & E & Ptl & Ln & Lz). subst ops.
    cbn [offsets expect_ops]. rewrite expect_op_at_app, P1. cbn [bind].
    assert (pre ++ b :: rest = (pre ++ b :: firstn n rest) ++ skipn n rest) as EB.
    { rewrite <- app_assoc. cbn [app]. rewrite firstn_skipn. reflexivity. }
    assert (zlen pre + zlen (to_bytes1 o) = zlen (pre ++ b :: firstn n rest)) as EZ.
    { rewrite Lz, zlen_app. unfold zlen. cbn [length]. rewrite firstn_length_le by exact Ln. lia. }
    rewrite EB, EZ, (IH _ _ _ Ptl). reflexivity.
Qed.

Lemma expect_ops_nth bytes : forall idxs ops,
  expect_ops bytes idxs = Ok ops ->
  length ops = length idxs /\
  forall n ix, nth_error idxs n = Some ix ->
    exists o, expect_op_at bytes ix = Ok o /\ nth_error ops n = Some o.
Proof.
  induction idxs as [|i idxs IH]; intros ops H; cbn [expect_ops] in H.
  - injection H as <-. split; [reflexivity|]. intros n ix Hn. destruct n; discriminate.
  - apply bind_ok in H as [o [Ho H]]. apply bind_ok in H as [os [Hos H]]. injection H as <-.
    destruct (IH _ Hos) as [L N]. split; [cbn [length]; lia|].
    intros n ix Hn. destruct n as [|n]; cbn [nth_error] in Hn |- *.
    + injection Hn as <-. exists o. split; [assumption|reflexivity].
    + apply N. exact Hn.
Qed.

(* random access is determined by the collected iterator *)
Lemma mapped_op_of_mapped_ops m ops :
  mapped_ops m = Ok ops -> forall i, mapped_op m i = Ok (op_at ops i).
Proof.
  unfold mapped_ops. intros H i. destruct (expect_ops_nth _ _ _ H) as [L N].
  unfold mapped_op, op_at. unfold zlen. rewrite L.
  destruct ((i <? 0) || (Z.of_nat (length (mp_indices m)) <=? i)) eqn:C; [reflexivity|].
  apply orb_false_iff in C as [C1 C2]. apply Z.ltb_ge in C1. apply Z.leb_gt in C2.
  destruct (nth_error (mp_indices m) (Z.to_nat i)) as [ix|] eqn:Hn.
  - destruct (N _ _ Hn) as [o [Ho Hnth]]. rewrite Ho, Hnth. reflexivity.
  - apply nth_error_None in Hn. lia.
Qed.

Lemma mapped_access_of_mapped_ops m ops :
  mapped_ops m = Ok ops -> forall p, mapped_access m p = op_at ops p.
Proof. intros H p. unfold mapped_access. rewrite (mapped_op_of_mapped_ops m ops H p). reflexivity. Qed.

(* ---------- mapped_ops_eq ---------- *)
Lemma mapped_ops_eq bs m ops :
  try_from_bytes bs = Ok m -> from_bytes bs = Ok ops ->
  mp_bytes m = bs /\
  mp_indices m = offsets 0 ops /\
  mapped_ops m = Ok ops /\
  (forall i, mapped_op m i = Ok (op_at ops i)).
Proof.
  intros Hm Hops. rewrite try_from_bytes_parse, Hops in Hm. injection Hm as <-.
  assert (mapped_ops {| mp_bytes := bs; mp_indices := offsets 0 ops |} = Ok ops) as HO.
  { unfold mapped_ops. cbn [mp_bytes mp_indices]. exact (expect_ops_parse _ [] bs ops Hops). }
  repeat split; try assumption. apply mapped_op_of_mapped_ops. exact HO.
Qed.

Lemma mapped_access_eq bs m ops :
  try_from_bytes bs = Ok m -> from_bytes bs = Ok ops -> forall p, mapped_access m p = op_at ops p.
Proof.
  intros Hm Hops. apply mapped_access_of_mapped_ops.
  exact (proj1 (proj2 (proj2 (mapped_ops_eq bs m ops Hm Hops)))).
Qed.

(* a value built by try_from_bytes never reaches the panic sites *)
Lemma try_from_bytes_no_expect bs m :
  try_from_bytes bs = Ok m ->
  (exists ops, from_bytes bs = Ok ops /\ mapped_ops m = Ok ops) /\
  (forall i, exists r, mapped_op m i = Ok r).
Proof.
  intros Hm. destruct (proj1 (mapped_ok_iff bs) (ex_intro _ m Hm)) as [ops Hops].
  destruct (mapped_ops_eq bs m ops Hm Hops) as (_ & _ & HO & HA).
  split; [exists ops; split; assumption|]. intros i. exists (op_at ops i). apply HA.
Qed.

(* ---------- FromIterator / push_op ---------- *)
Lemma fold_push_op ops : forall m,
  fold_left push_op ops m =
  {| mp_bytes := mp_bytes m ++ to_bytes ops; mp_indices := mp_indices m ++ offsets (zlen (mp_bytes m)) ops |}.
Proof.
  induction ops as [|o ops IH]; intros m; cbn [fold_left to_bytes flat_map offsets].
  - rewrite !app_nil_r. destruct m; reflexivity.
  - rewrite IH. cbn [push_op mp_bytes mp_indices]. fold (to_bytes ops).
    rewrite <- !app_assoc, zlen_app. reflexivity.
Qed.

Lemma mapped_of_ops_eq ops :
  mapped_of_ops ops = {| mp_bytes := to_bytes ops; mp_indices := offsets 0 ops |}.
Proof. unfold mapped_of_ops. rewrite fold_push_op. reflexivity. Qed.

Lemma from_iter_bytes ops :
  Forall well_formed_op ops ->
  mp_bytes (mapped_of_ops ops) = to_bytes ops /\
  mp_indices (mapped_of_ops ops) = offsets 0 ops /\
  try_from_bytes (to_bytes ops) = Ok (mapped_of_ops ops).
Proof.
  intros W. rewrite mapped_of_ops_eq. cbn [mp_bytes mp_indices].
  repeat split. rewrite try_from_bytes_parse, (decode_encode ops W). reflexivity.
Qed.

Lemma from_iter_ops ops :
  Forall well_formed_op ops ->
  mapped_ops (mapped_of_ops ops) = Ok ops /\
  (forall i, mapped_op (mapped_of_ops ops) i = Ok (op_at ops i)) /\
  (forall p, mapped_access (mapped_of_ops ops) p = op_at ops p).
Proof.
  intros W. destruct (from_iter_bytes ops W) as (_ & _ & HT).
  destruct (mapped_ops_eq _ _ ops HT (decode_encode ops W)) as (_ & _ & HO & HA).
  repeat split; try assumption. apply mapped_access_of_mapped_ops. exact HO.
Qed.

(* ---------- execution only depends on the accessor pointwise ---------- *)
Lemma compute_with_ext (run1 run2 : vm -> X) f cl v :
  (forall cv, run1 cv = run2 cv) -> compute_with run1 f cl v = compute_with run2 f cl v.
Proof.
  intros H. unfold compute_with.
  destruct (pop (stack v)) as [[b s0]| | |]; try reflexivity.
  cbv zeta.
  rewrite (map_ext
    (fun i => match child_vm v s0 i with Ok cv => run1 cv | Panic s => Panic s | _ => Err (pc v, ECompute, v) end)
    (fun i => match child_vm v s0 i with Ok cv => run2 cv | Panic s => Panic s | _ => Err (pc v, ECompute, v) end)).
  - reflexivity.
  - intros i. destruct (child_vm v s0 i); try reflexivity. apply H.
Qed.

Lemma exec_ext fuel : forall E oa1 oa2 limit v spent tr,
  (forall p, oa1 p = oa2 p) ->
  exec fuel E oa1 limit v spent tr = exec fuel E oa2 limit v spent tr.
Proof.
  induction fuel as [|f IH]; intros E oa1 oa2 limit v spent tr H; [reflexivity|].
  rewrite !exec_unfold, (H (pc v)).
  destruct (oa2 (pc v)) as [o|]; [|reflexivity]. cbv zeta.
  destruct ((u64_max <? spent + e_cost E o) || (limit <? spent + e_cost E o)); [reflexivity|].
  match goal with
  | |- exec_result _ _ _ _ _ _ _ _ ?a = exec_result _ _ _ _ _ _ _ _ ?b => assert (a = b) as R
  end.
  { destruct o; try reflexivity. apply compute_with_ext. intros cv. apply IH. exact H. }
  rewrite R. clear R.
  match goal with |- exec_result _ _ _ _ _ _ _ _ ?a = _ => destruct a as [[[v' c] ctr]| | |] end; try reflexivity.
  unfold exec_result, exec_continue. destruct c as [|p| | |p g h]; try reflexivity.
  - destruct (usize_max <? pc v' + 1); [reflexivity|]. apply IH. exact H.
  - apply IH. exact H.
  - cbv zeta. destruct ((u64_max <? spent + e_cost E o + g) || (limit <? spent + e_cost E o + g)); [reflexivity|].
    destruct (halt (set_halt (set_pc v' p) (halt v' || h))); [reflexivity|]. apply IH. exact H.
Qed.

Lemma exec_mapped_eq_exec_ops fuel E bs m ops limit v spent tr :
  try_from_bytes bs = Ok m -> from_bytes bs = Ok ops ->
  exec fuel E (mapped_access m) limit v spent tr = exec fuel E (op_at ops) limit v spent tr.
Proof. intros Hm Hops. apply exec_ext. apply (mapped_access_eq bs m ops Hm Hops). Qed.

Lemma exec_from_iter_eq_exec_ops fuel E ops limit v spent tr :
  Forall well_formed_op ops ->
  exec fuel E (mapped_access (mapped_of_ops ops)) limit v spent tr = exec fuel E (op_at ops) limit v spent tr.
Proof. intros W. apply exec_ext. apply (from_iter_ops ops W). Qed.

(* on genuine byte strings the two constructors agree: mapping the bytes = collecting the parsed ops *)
Lemma mapped_of_parsed bs m ops :
  Forall byte bs -> try_from_bytes bs = Ok m -> from_bytes bs = Ok ops ->
  mapped_of_ops ops = m /\ to_bytes ops = mp_bytes m.
Proof.
  intros Hb Hm Hops. pose proof (encode_decode bs ops Hb Hops) as E.
  rewrite try_from_bytes_parse, Hops in Hm. injection Hm as <-.
  rewrite mapped_of_ops_eq, E. split; reflexivity.
Qed.

(* projections of mapped_ops_eq *)
Lemma mapped_bytes_and_ops bs m ops :
  try_from_bytes bs = Ok m -> from_bytes bs = Ok ops -> mp_bytes m = bs /\ mapped_ops m = Ok ops.
Proof. intros Hm Ho. destruct (mapped_ops_eq bs m ops Hm Ho) as (A & _ & C & _). split; assumption. Qed.
Lemma mapped_random_access bs m ops :
  try_from_bytes bs = Ok m -> from_bytes bs = Ok ops -> forall i, mapped_op m i = Ok (op_at ops i).
Proof. intros Hm Ho. exact (proj2 (proj2 (proj2 (mapped_ops_eq bs m ops Hm Ho)))). Qed.
Lemma mapped_op_indices bs m ops :
  try_from_bytes bs = Ok m -> from_bytes bs = Ok ops -> mp_indices m = offsets 0 ops.
Proof. intros Hm Ho. exact (proj1 (proj2 (mapped_ops_eq bs m ops Hm Ho))). Qed.

(* --- mapping the concatenation of two serialised programs is the mapped form of the concatenation --- *)
Lemma mapped_concat a b :
  Forall well_formed_op a -> Forall well_formed_op b ->
  try_from_bytes (to_bytes a ++ to_bytes b) = Ok (mapped_of_ops (a ++ b)) /\
  mapped_ops (mapped_of_ops (a ++ b)) = Ok (a ++ b).
Proof.
  intros Ha Hb. assert (H : Forall well_formed_op (a ++ b)) by (apply Forall_app; split; assumption).
  rewrite <- to_bytes_app. split.
  - exact (proj2 (proj2 (from_iter_bytes (a ++ b) H))).
  - exact (proj1 (from_iter_ops (a ++ b) H)).
Qed.
