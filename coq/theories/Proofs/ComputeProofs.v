(* Lemmas for C10: Compute forks and joins child programs like a sequential loop over indices. *)
From Coq Require Import ZArith List Lia Bool.
From EB Require Import Vm.Exec Spec.ComputeSpec.
Open Scope list_scope.
Open Scope Z_scope.

Lemma stack_limit_eq : stack_size_limit = 4096. Proof. reflexivity. Qed.
Lemma mem_limit_eq : memory_size_limit = 10240. Proof. reflexivity. Qed.
Lemma depth_eq : max_compute_depth = 1. Proof. reflexivity. Qed.
Lemma i64_max_eq : i64_max = 9223372036854775807. Proof. reflexivity. Qed.

(* ---------- small list facts ---------- *)
Lemma zlen_app {A} (l r : list A) : zlen (l ++ r) = zlen l + zlen r.
Proof. unfold zlen. rewrite app_length. lia. Qed.
Lemma zlen_nonneg {A} (l : list A) : 0 <= zlen l.
Proof. unfold zlen. lia. Qed.
Lemma zlen_cons {A} (x : A) (l : list A) : zlen (x :: l) = zlen l + 1.
Proof. unfold zlen. cbn [length]. lia. Qed.
Lemma to_nat_zlen {A} (l : list A) : Z.to_nat (zlen l) = length l.
Proof. unfold zlen. apply Nat2Z.id. Qed.

Lemma zrange_from_length n : forall s, length (zrange_from s n) = n.
Proof. induction n as [|n IH]; intros s; cbn [zrange_from length]; [reflexivity|]. rewrite IH. reflexivity. Qed.

Lemma zrange_from_in n : forall s i, In i (zrange_from s n) <-> s <= i < s + Z.of_nat n.
Proof.
  induction n as [|n IH]; intros s i; cbn [zrange_from In].
  - lia.
  - rewrite IH. lia.
Qed.

Lemma zrange_z_in n i : In i (zrange_z n) <-> 0 <= i < n.
Proof. unfold zrange_z. rewrite zrange_from_in. lia. Qed.

Lemma zrange_z_length n : length (zrange_z n) = Z.to_nat n.
Proof. apply zrange_from_length. Qed.

(* ---------- children ---------- *)
Definition cmem (c : vm * Z * list op) : list Z := memory (fst (fst c)).
Definition joined (cs : list (vm * Z * list op)) : list Z := concat (map cmem cs).

Lemma joined_cons c cs : joined (c :: cs) = cmem c ++ joined cs.
Proof. reflexivity. Qed.

(* what compute_with maps over the indices *)
Definition child_fn (run : vm -> X) (v : vm) (s0 : list Z) (i : Z) : X :=
  match child_vm v s0 i with
  | Ok cv => run cv
  | Panic s => Panic s
  | _ => Err (pc v, ECompute, v)
  end.

Lemma child_vm_inv v s0 i cv : child_vm v s0 i = Ok cv -> cv = child_start v s0 i.
Proof.
  unfold child_vm, push. destruct (stack_size_limit <=? zlen s0); cbn [bind]; [discriminate|].
  destruct (usize_max <? pc v + 1); [discriminate|]. intros H. inversion H. reflexivity.
Qed.

Lemma child_vm_ok v s0 i :
  zlen s0 < 4096 -> pc v < usize_max -> child_vm v s0 i = Ok (child_start v s0 i).
Proof.
  intros Hs Hp. unfold child_vm, push. rewrite stack_limit_eq.
  destruct (Z.leb_spec 4096 (zlen s0)) as [Hc|_]; [lia|]. cbn [bind].
  destruct (Z.ltb_spec usize_max (pc v + 1)) as [Hc|_]; [lia|]. reflexivity.
Qed.

Lemma child_fn_ok run v s0 i :
  zlen s0 < 4096 -> pc v < usize_max -> child_fn run v s0 i = run (child_start v s0 i).
Proof. intros Hs Hp. unfold child_fn. rewrite (child_vm_ok v s0 i Hs Hp). reflexivity. Qed.

(* ---------- join_children / children_status ---------- *)
Lemma join_map_ok cs : forall acc, join_children (map Ok cs) acc = Ok (rev acc ++ cs).
Proof.
  induction cs as [|c cs IH]; intros acc; cbn [map join_children].
  - rewrite app_nil_r. reflexivity.
  - rewrite IH. cbn [rev]. rewrite <- app_assoc. reflexivity.
Qed.

Lemma status_map_ok cs : children_status (map Ok cs) = Ok tt.
Proof. induction cs as [|c cs IH]; cbn [map children_status]; [reflexivity|exact IH]. Qed.

Lemma join_ok_inv rs : forall acc cs,
  join_children rs acc = Ok cs -> exists cs', rs = map Ok cs' /\ cs = rev acc ++ cs'.
Proof.
  induction rs as [|r rs IH]; intros acc cs H.
  - exists []. cbn [join_children] in H. inversion H. rewrite app_nil_r. split; reflexivity.
  - destruct r as [c|e|s|]; cbn [join_children] in H; try discriminate.
    apply IH in H. destruct H as (cs' & H1 & H2). exists (c :: cs'). subst rs cs.
    cbn [rev map]. rewrite <- app_assoc. split; reflexivity.
Qed.

Lemma all_ok_or_not (rs : list X) : (exists cs, rs = map Ok cs) \/ (forall cs, rs <> map Ok cs).
Proof.
  induction rs as [|r rs IH].
  - left. exists []. reflexivity.
  - destruct r as [c|e|s|].
    + destruct IH as [[cs H]|H].
      * left. exists (c :: cs). subst rs. reflexivity.
      * right. intros cs Hc. destruct cs as [|c' cs]; [discriminate|]. cbn [map] in Hc.
        inversion Hc. subst. exact (H cs eq_refl).
    + right. intros cs Hc. destruct cs; discriminate.
    + right. intros cs Hc. destruct cs; discriminate.
    + right. intros cs Hc. destruct cs; discriminate.
Qed.

Lemma status_settled rs : Forall settled rs -> children_status rs = Ok tt.
Proof.
  induction 1 as [|r rs Hr _ IH]; [reflexivity|].
  destruct Hr as [[a Ha]|[e He]]; subst r; cbn [children_status]; exact IH.
Qed.

Lemma join_settled rs : Forall settled rs -> forall acc,
  (exists cs, join_children rs acc = Ok cs) \/ join_children rs acc = Err tt.
Proof.
  induction 1 as [|r rs Hr _ IH]; intros acc.
  - left. eexists. reflexivity.
  - destruct Hr as [[a Ha]|[e He]]; subst r; cbn [join_children].
    + apply IH.
    + right. reflexivity.
Qed.

(* ---------- the sequential fold, seen on the list of results ---------- *)
Definition res_step (climit : Z) (acc : option cacc) (r : X) : option cacc :=
  match acc with
  | None => None
  | Some a => match r with Ok c => cacc_add climit a c | _ => None end
  end.

Lemma seq_fold_map run climit v s0 idxs : forall a,
  fold_left (seq_step run climit v s0) idxs a
  = fold_left (res_step climit) (map (fun i => run (child_start v s0 i)) idxs) a.
Proof.
  induction idxs as [|i idxs IH]; intros a; cbn [fold_left map]; [reflexivity|].
  rewrite IH. f_equal.
Qed.

Lemma res_fold_none climit rs : fold_left (res_step climit) rs None = None.
Proof. induction rs as [|r rs IH]; cbn [fold_left res_step]; [reflexivity|exact IH]. Qed.

(* the accumulator as the model computes it (separate folds over the joined children) *)
Definition acc_after (a : cacc) (t : Z) (cs : list (vm * Z * list op)) : cacc :=
  {| a_mem := a_mem a ++ joined cs;
     a_pc := fold_left (fun x c => Z.max x (pc (fst (fst c)))) cs (a_pc a);
     a_halt := fold_left (fun x c => x || halt (fst (fst c))) cs (a_halt a);
     a_gas := t;
     a_tr := fold_left (fun x c => snd c ++ x) cs (a_tr a) |}.

Lemma res_fold_ok climit cs : forall a,
  fold_left (res_step climit) (map Ok cs) (Some a)
  = match sum_gas climit (a_gas a) cs with
    | Some t => Some (acc_after a t cs)
    | None => None
    end.
Proof.
  induction cs as [|c cs IH]; intros a.
  - cbn [map fold_left sum_gas]. destruct a as [am ap ah ag at']. unfold acc_after, joined.
    cbn [map concat fold_left a_mem a_pc a_halt a_gas a_tr]. rewrite app_nil_r. reflexivity.
  - destruct c as [[cv g] tr]. cbn [map fold_left res_step cacc_add sum_gas].
    destruct ((u64_max <? a_gas a + g) || (climit <? a_gas a + g)).
    + apply res_fold_none.
    + rewrite IH. cbn [a_gas]. destruct (sum_gas climit (a_gas a + g) cs) as [t|]; [|reflexivity].
      f_equal. unfold acc_after. rewrite joined_cons. unfold cmem.
      cbn [fold_left a_mem a_pc a_halt a_gas a_tr fst snd]. rewrite app_assoc. reflexivity.
Qed.

Lemma res_fold_not_all_ok climit rs :
  (forall cs, rs <> map Ok cs) -> forall a, fold_left (res_step climit) rs a = None.
Proof.
  induction rs as [|r rs IH]; intros Hn a.
  - exfalso. exact (Hn [] eq_refl).
  - cbn [fold_left]. destruct r as [c|e|s|].
    + apply IH. intros cs Hc. apply (Hn (c :: cs)). subst rs. reflexivity.
    + destruct a; cbn [res_step]; apply res_fold_none.
    + destruct a; cbn [res_step]; apply res_fold_none.
    + destruct a; cbn [res_step]; apply res_fold_none.
Qed.

(* ---------- memory: alloc once, then store the children back to back = append ---------- *)
Lemma to_alloc_eq cs : forall a0,
  fold_left (fun a c => a + zlen (memory (fst (fst c)))) cs a0 = a0 + zlen (joined cs).
Proof.
  induction cs as [|c cs IH]; intros a0; cbn [fold_left].
  - unfold joined, zlen. cbn [map concat length]. lia.
  - rewrite IH, joined_cons, zlen_app. unfold cmem. lia.
Qed.

Lemma splice_fill (pre ws : list Z) k :
  splice (length pre) ws (pre ++ repeat 0 (length ws + k)) = (pre ++ ws) ++ repeat 0 k.
Proof.
  unfold splice. rewrite (firstn_app_exact pre _ (length pre) eq_refl).
  rewrite skipn_app. rewrite skipn_all2 by lia. cbn [app].
  replace (length pre + length ws - length pre)%nat with (length ws) by lia.
  rewrite repeat_app. rewrite skipn_app_exact by apply repeat_length.
  rewrite <- app_assoc. reflexivity.
Qed.

Lemma store_children_fill cs : forall pre,
  store_children (zlen pre) cs (pre ++ repeat 0 (length (joined cs))) = Ok (pre ++ joined cs).
Proof.
  induction cs as [|c cs IH]; intros pre.
  - unfold joined. cbn [map concat length repeat store_children]. reflexivity.
  - destruct c as [[cv g] tr]. cbn [store_children]. rewrite joined_cons. unfold cmem. cbn [fst].
    rewrite app_length. unfold mem_store_range.
    destruct (Z.ltb_spec (zlen pre) 0) as [Hc|_]; [pose proof (zlen_nonneg pre); lia|].
    destruct (Z.ltb_spec (zlen (pre ++ repeat 0 (length (memory cv) + length (joined cs))))
                         (zlen pre + zlen (memory cv))) as [Hc|_].
    { rewrite zlen_app in Hc. unfold zlen in Hc. rewrite repeat_length in Hc. lia. }
    rewrite to_nat_zlen, splice_fill. rewrite <- zlen_app, IH, app_assoc. reflexivity.
Qed.

(* ---------- compute_with = guards + compute_tail ---------- *)
Definition compute_tail (climit : Z) (v : vm) (s0 : list Z) (rs : list X) : R (vm * ctl * list op) :=
  match children_status rs with
  | Panic s => Panic s
  | OutOfFuel => OutOfFuel
  | _ =>
    match join_children rs [] with
    | Ok cs =>
      match sum_gas climit 0 cs with
      | None => Err EOutOfGas
      | Some total =>
        let to_alloc := fold_left (fun a c => a + zlen (memory (fst (fst c)))) cs 0 in
        if i64_max <? to_alloc then Panic "compute_effects: memory_to_alloc overflow"
        else
          let* m1 := mem_alloc to_alloc (memory v) in
          let* m2 := store_children (zlen (memory v)) cs m1 in
          let p := fold_left (fun a c => Z.max a (pc (fst (fst c)))) cs (pc v) in
          let h := fold_left (fun a c => a || halt (fst (fst c))) cs (halt v) in
          let tr := fold_left (fun a c => snd c ++ a) cs [] in
          Ok (set_stack_mem v s0 m2, CComputeResult p total h, tr)
      end
    | Err _ => Err ECompute
    | Panic s => Panic s
    | OutOfFuel => OutOfFuel
    end
  end.

Lemma compute_with_guarded run fuel climit v b s0 :
  stack v = b :: s0 -> 1 <= b -> zlen (parent_memory v) < 1 -> b <= Z.of_nat fuel ->
  compute_with run fuel climit v = compute_tail climit v s0 (map (child_fn run v s0) (zrange_z b)).
Proof.
  intros Hs Hb Hd Hf. unfold compute_with. rewrite Hs. cbn [pop].
  destruct (Z.ltb_spec b 1) as [Hc|_]; [lia|]. rewrite depth_eq.
  destruct (Z.leb_spec 1 (zlen (parent_memory v))) as [Hc|_]; [lia|].
  destruct (Z.ltb_spec (Z.of_nat fuel) b) as [Hc|_]; [lia|]. reflexivity.
Qed.

Lemma compute_with_ok_inv run fuel climit v x :
  compute_with run fuel climit v = Ok x ->
  exists b s0, stack v = b :: s0 /\ 1 <= b /\ zlen (parent_memory v) < 1 /\ b <= Z.of_nat fuel /\
               compute_tail climit v s0 (map (child_fn run v s0) (zrange_z b)) = Ok x.
Proof.
  intros H. destruct (stack v) as [|b s0] eqn:Hs.
  - unfold compute_with in H. rewrite Hs in H. cbn [pop] in H. discriminate.
  - exists b, s0. unfold compute_with in H. rewrite Hs in H. cbn [pop] in H.
    destruct (Z.ltb_spec b 1) as [Hc|Hb]; [discriminate|]. rewrite depth_eq in H.
    destruct (Z.leb_spec 1 (zlen (parent_memory v))) as [Hc|Hd]; [discriminate|].
    destruct (Z.ltb_spec (Z.of_nat fuel) b) as [Hc|Hf]; [discriminate|].
    repeat split; try lia. exact H.
Qed.

Definition tail_ok (climit : Z) (v : vm) (s0 : list Z) (cs : list (vm * Z * list op)) (total : Z)
  : vm * ctl * list op :=
  (set_stack_mem v s0 (memory v ++ joined cs),
   CComputeResult (fold_left (fun a c => Z.max a (pc (fst (fst c)))) cs (pc v)) total
                  (fold_left (fun a c => a || halt (fst (fst c))) cs (halt v)),
   fold_left (fun a c => snd c ++ a) cs []).

Lemma compute_tail_all_ok climit v s0 cs :
  compute_tail climit v s0 (map Ok cs) =
  match sum_gas climit 0 cs with
  | None => Err EOutOfGas
  | Some total =>
      if i64_max <? zlen (joined cs) then Panic "compute_effects: memory_to_alloc overflow"
      else if 10240 <? zlen (memory v) + zlen (joined cs) then Err EMemory
      else Ok (tail_ok climit v s0 cs total)
  end.
Proof.
  unfold compute_tail. rewrite status_map_ok, join_map_ok. cbn [rev app].
  destruct (sum_gas climit 0 cs) as [total|]; [|reflexivity]. cbv zeta.
  rewrite to_alloc_eq, Z.add_0_l.
  destruct (i64_max <? zlen (joined cs)); [reflexivity|].
  unfold mem_alloc. destruct (Z.ltb_spec (zlen (joined cs)) 0) as [Hc|_].
  { pose proof (zlen_nonneg (joined cs)). lia. }
  rewrite mem_limit_eq. destruct (10240 <? zlen (memory v) + zlen (joined cs)); [reflexivity|].
  cbn [bind]. rewrite to_nat_zlen, store_children_fill. cbn [bind]. reflexivity.
Qed.

Lemma compute_tail_not_ok climit v s0 rs x :
  (forall cs, rs <> map Ok cs) -> compute_tail climit v s0 rs <> Ok x.
Proof.
  intros Hn H. unfold compute_tail in H.
  destruct (join_children rs []) as [cs|e|s|] eqn:Hj.
  - apply join_ok_inv in Hj. destruct Hj as (cs' & Hr & _). exact (Hn cs' Hr).
  - destruct (children_status rs); discriminate.
  - destruct (children_status rs); discriminate.
  - destruct (children_status rs); discriminate.
Qed.

Lemma compute_tail_settled_not_ok climit v s0 rs :
  Forall settled rs -> (forall cs, rs <> map Ok cs) -> compute_tail climit v s0 rs = Err ECompute.
Proof.
  intros Hs Hn. unfold compute_tail. rewrite (status_settled rs Hs).
  destruct (join_settled rs Hs []) as [[cs Hj]|Hj].
  - apply join_ok_inv in Hj. destruct Hj as (cs' & Hr & _). exfalso. exact (Hn cs' Hr).
  - rewrite Hj. reflexivity.
Qed.

(* ---------- C10.1: Compute is the sequential loop ---------- *)
Definition results (run : vm -> X) (v : vm) (s0 : list Z) (b : Z) : list X :=
  map (fun i => run (child_start v s0 i)) (zrange_z b).

Lemma compute_seq_acc_results run climit v b s0 :
  compute_seq_acc run climit v b s0
  = fold_left (res_step climit) (results run v s0 b) (Some (cacc0 v)).
Proof. unfold results. apply seq_fold_map. Qed.

Lemma results_eq run v b s0 :
  stack v = b :: s0 -> zlen (stack v) <= 4096 -> pc v < usize_max ->
  map (child_fn run v s0) (zrange_z b) = results run v s0 b.
Proof.
  intros Hs Hst Hpc. unfold results. apply map_ext. intros i. apply child_fn_ok; [|exact Hpc].
  rewrite Hs, zlen_cons in Hst. lia.
Qed.

Lemma compute_seq_all_ok run climit v b s0 cs :
  results run v s0 b = map Ok cs ->
  compute_seq run climit v b s0 =
  match sum_gas climit 0 cs with
  | None => None
  | Some total => if 10240 <? zlen (memory v) + zlen (joined cs) then None
                  else Some (tail_ok climit v s0 cs total)
  end.
Proof.
  intros Hr. unfold compute_seq. rewrite compute_seq_acc_results, Hr, res_fold_ok.
  cbn [cacc0 a_gas]. destruct (sum_gas climit 0 cs) as [total|]; [|reflexivity].
  unfold acc_after. cbn [a_mem a_pc a_halt a_gas a_tr cacc0 app]. rewrite zlen_app.
  destruct (10240 <? zlen (memory v) + zlen (joined cs)); reflexivity.
Qed.

Lemma compute_seq_not_all_ok run climit v b s0 :
  (forall cs, results run v s0 b <> map Ok cs) ->
  compute_seq run climit v b s0 = None.
Proof.
  intros Hn. unfold compute_seq. rewrite compute_seq_acc_results, (res_fold_not_all_ok climit _ Hn).
  reflexivity.
Qed.

Theorem compute_is_sequential_loop_seq run fuel climit v b s0 :
  stack v = b :: s0 -> 1 <= b -> zlen (parent_memory v) < 1 ->
  zlen (stack v) <= 4096 -> pc v < usize_max -> b <= Z.of_nat fuel ->
  forall x, compute_with run fuel climit v = Ok x <-> compute_seq run climit v b s0 = Some x.
Proof.
  intros Hs Hb Hd Hst Hpc Hf x.
  rewrite (compute_with_guarded run fuel climit v b s0 Hs Hb Hd Hf), (results_eq run v b s0 Hs Hst Hpc).
  destruct (all_ok_or_not (results run v s0 b)) as [[cs Hr]|Hn].
  - rewrite (compute_seq_all_ok run climit v b s0 cs Hr), Hr, compute_tail_all_ok.
    destruct (sum_gas climit 0 cs) as [total|]; [|split; discriminate].
    destruct (Z.ltb_spec i64_max (zlen (joined cs))) as [Hbig|_].
    + destruct (Z.ltb_spec 10240 (zlen (memory v) + zlen (joined cs))) as [_|Hc]; [split; discriminate|].
      exfalso. rewrite i64_max_eq in Hbig. pose proof (zlen_nonneg (memory v)). lia.
    + destruct (10240 <? zlen (memory v) + zlen (joined cs)); [split; discriminate|].
      split; intros H; inversion H; reflexivity.
  - rewrite (compute_seq_not_all_ok run climit v b s0 Hn). split; intros H; [|discriminate].
    exfalso. exact (compute_tail_not_ok climit v s0 _ x Hn H).
Qed.

Lemma joined_bound cs :
  Forall (fun c => zlen (cmem c) <= 10240) cs -> zlen (joined cs) <= zlen cs * 10240.
Proof.
  induction 1 as [|c cs Hc _ IH].
  - unfold joined, zlen. cbn [map concat length]. lia.
  - rewrite joined_cons, zlen_app, zlen_cons. lia.
Qed.

Lemma joined_le_i64 run (fuel : nat) v b s0 cs :
  results run v s0 b = map Ok cs ->
  (forall cv r, run cv = Ok r -> zlen (memory (fst (fst r))) <= 10240) ->
  b <= Z.of_nat fuel -> Z.of_nat fuel * 10240 <= i64_max ->
  zlen (joined cs) <= i64_max.
Proof.
  intros Hr Hmem Hf Hfuel.
  assert (Hall : Forall (fun c => zlen (cmem c) <= 10240) cs).
  { apply Forall_forall. intros c Hin.
    assert (Hin' : In (Ok c) (results run v s0 b)).
    { rewrite Hr. apply in_map. exact Hin. }
    unfold results in Hin'. apply in_map_iff in Hin'. destruct Hin' as (i & Hi & _).
    exact (Hmem _ _ Hi). }
  apply joined_bound in Hall.
  assert (Hlen : zlen cs <= Z.of_nat fuel).
  { apply (f_equal (@length _)) in Hr. unfold results in Hr. rewrite !map_length, zrange_z_length in Hr.
    unfold zlen. rewrite <- Hr. lia. }
  pose proof (zlen_nonneg cs). nia.
Qed.

Lemma results_settled run v b s0 :
  (forall i, 0 <= i < b -> settled (run (child_start v s0 i))) ->
  Forall settled (results run v s0 b).
Proof.
  intros H. apply Forall_forall. intros r Hin. unfold results in Hin. apply in_map_iff in Hin.
  destruct Hin as (i & Hi & Hin). subst r. apply H. apply zrange_z_in. exact Hin.
Qed.

(* with children that return a value or an error, Compute returns a value or an error *)
Lemma compute_with_ok_or_err run fuel climit v b s0 :
  stack v = b :: s0 -> 1 <= b -> zlen (parent_memory v) < 1 ->
  zlen (stack v) <= 4096 -> pc v < usize_max -> b <= Z.of_nat fuel ->
  (forall cv r, run cv = Ok r -> zlen (memory (fst (fst r))) <= 10240) ->
  Z.of_nat fuel * 10240 <= i64_max ->
  (forall i, 0 <= i < b -> settled (run (child_start v s0 i))) ->
  settled (compute_with run fuel climit v).
Proof.
  intros Hs Hb Hd Hst Hpc Hf Hmem Hfuel Hset.
  rewrite (compute_with_guarded run fuel climit v b s0 Hs Hb Hd Hf), (results_eq run v b s0 Hs Hst Hpc).
  destruct (all_ok_or_not (results run v s0 b)) as [[cs Hr]|Hn].
  - pose proof (joined_le_i64 run fuel v b s0 cs Hr Hmem Hf Hfuel) as Hj.
    rewrite Hr, compute_tail_all_ok.
    destruct (sum_gas climit 0 cs) as [total|]; [|right; eexists; reflexivity].
    destruct (Z.ltb_spec i64_max (zlen (joined cs))) as [Hc|_]; [lia|].
    destruct (10240 <? zlen (memory v) + zlen (joined cs)); [right|left]; eexists; reflexivity.
  - rewrite (compute_tail_settled_not_ok climit v s0 _ (results_settled run v b s0 Hset) Hn).
    right. eexists. reflexivity.
Qed.

Theorem compute_seq_failure run fuel climit v b s0 :
  stack v = b :: s0 -> 1 <= b -> zlen (parent_memory v) < 1 ->
  zlen (stack v) <= 4096 -> pc v < usize_max -> b <= Z.of_nat fuel ->
  (forall cv r, run cv = Ok r -> zlen (memory (fst (fst r))) <= 10240) ->
  Z.of_nat fuel * 10240 <= i64_max ->
  (forall i, 0 <= i < b -> settled (run (child_start v s0 i))) ->
  compute_seq run climit v b s0 = None -> exists e, compute_with run fuel climit v = Err e.
Proof.
  intros Hs Hb Hd Hst Hpc Hf Hmem Hfuel Hset Hnone.
  destruct (compute_with_ok_or_err run fuel climit v b s0 Hs Hb Hd Hst Hpc Hf Hmem Hfuel Hset)
    as [[x Hx]|He]; [|exact He].
  apply (compute_is_sequential_loop_seq run fuel climit v b s0 Hs Hb Hd Hst Hpc Hf) in Hx.
  rewrite Hx in Hnone. discriminate.
Qed.

(* ---------- C10.2: failures ---------- *)
Lemma compute_fail_empty_stack run fuel climit v :
  stack v = [] -> compute_with run fuel climit v = Err ECompute.
Proof. intros Hs. unfold compute_with. rewrite Hs. reflexivity. Qed.

Lemma compute_fail_breadth run fuel climit v b s0 :
  stack v = b :: s0 -> b < 1 -> compute_with run fuel climit v = Err ECompute.
Proof.
  intros Hs Hb. unfold compute_with. rewrite Hs. cbn [pop].
  destruct (Z.ltb_spec b 1) as [_|Hc]; [reflexivity|lia].
Qed.

Lemma compute_fail_nested run fuel climit v :
  1 <= zlen (parent_memory v) -> compute_with run fuel climit v = Err ECompute.
Proof.
  intros Hd. unfold compute_with. destruct (stack v) as [|b s0]; [reflexivity|]. cbn [pop].
  destruct (b <? 1); [reflexivity|]. rewrite depth_eq.
  destruct (Z.leb_spec 1 (zlen (parent_memory v))) as [_|Hc]; [reflexivity|lia].
Qed.

Lemma compute_fail_child_err run fuel climit v b s0 :
  stack v = b :: s0 -> 1 <= b -> zlen (parent_memory v) < 1 ->
  zlen (stack v) <= 4096 -> pc v < usize_max -> b <= Z.of_nat fuel ->
  (forall i, 0 <= i < b -> settled (run (child_start v s0 i))) ->
  (exists i e, 0 <= i < b /\ run (child_start v s0 i) = Err e) ->
  compute_with run fuel climit v = Err ECompute.
Proof.
  intros Hs Hb Hd Hst Hpc Hf Hset (i & e & Hi & He).
  rewrite (compute_with_guarded run fuel climit v b s0 Hs Hb Hd Hf), (results_eq run v b s0 Hs Hst Hpc).
  apply compute_tail_settled_not_ok; [exact (results_settled run v b s0 Hset)|].
  intros cs Hc.
  assert (Hin : In (Err e) (results run v s0 b)).
  { unfold results. apply in_map_iff. exists i. split; [exact He|]. apply zrange_z_in. exact Hi. }
  rewrite Hc in Hin. apply in_map_iff in Hin. destruct Hin as (c & Hc' & _). discriminate.
Qed.

Lemma compute_fail_memory run fuel climit v b s0 a :
  stack v = b :: s0 -> 1 <= b -> zlen (parent_memory v) < 1 ->
  zlen (stack v) <= 4096 -> pc v < usize_max -> b <= Z.of_nat fuel ->
  (forall cv r, run cv = Ok r -> zlen (memory (fst (fst r))) <= 10240) ->
  Z.of_nat fuel * 10240 <= i64_max ->
  compute_seq_acc run climit v b s0 = Some a ->
  10240 < zlen (memory v) + zlen (a_mem a) ->
  compute_with run fuel climit v = Err EMemory.
Proof.
  intros Hs Hb Hd Hst Hpc Hf Hmem Hfuel Hacc Hbig.
  rewrite (compute_with_guarded run fuel climit v b s0 Hs Hb Hd Hf), (results_eq run v b s0 Hs Hst Hpc).
  rewrite compute_seq_acc_results in Hacc.
  destruct (all_ok_or_not (results run v s0 b)) as [[cs Hr]|Hn].
  - pose proof (joined_le_i64 run fuel v b s0 cs Hr Hmem Hf Hfuel) as Hj.
    rewrite Hr, res_fold_ok in Hacc. cbn [cacc0 a_gas] in Hacc.
    rewrite Hr, compute_tail_all_ok.
    destruct (sum_gas climit 0 cs) as [total|]; [|discriminate].
    inversion Hacc as [Ha]. subst a. unfold acc_after in Hbig. cbn [a_mem cacc0 app] in Hbig.
    destruct (Z.ltb_spec i64_max (zlen (joined cs))) as [Hc|_]; [lia|].
    destruct (Z.ltb_spec 10240 (zlen (memory v) + zlen (joined cs))) as [_|Hc]; [reflexivity|lia].
  - rewrite (res_fold_not_all_ok climit _ Hn) in Hacc. discriminate.
Qed.

(* ---------- C10.3: what a child starts from; the parent's old memory survives ---------- *)
Lemma child_start_state v s0 i cv :
  child_vm v s0 i = Ok cv ->
  stack cv = i :: s0 /\ memory cv = [] /\ parent_memory cv = memory v :: parent_memory v /\
  rstack cv = rstack v /\ pc cv = pc v + 1 /\ halt cv = false.
Proof. intros H. apply child_vm_inv in H. subst cv. repeat split. Qed.

Lemma compute_parent_frame run fuel climit v v' c tr :
  compute_with run fuel climit v = Ok (v', c, tr) ->
  exists b s0 m', stack v = b :: s0 /\ v' = set_stack_mem v s0 (memory v ++ m').
Proof.
  intros H. apply compute_with_ok_inv in H. destruct H as (b & s0 & Hs & _ & _ & _ & H).
  exists b, s0.
  destruct (all_ok_or_not (map (child_fn run v s0) (zrange_z b))) as [[cs Hr]|Hn].
  - rewrite Hr, compute_tail_all_ok in H. exists (joined cs). split; [exact Hs|].
    destruct (sum_gas climit 0 cs) as [total|]; [|discriminate].
    destruct (i64_max <? zlen (joined cs)); [discriminate|].
    destruct (10240 <? zlen (memory v) + zlen (joined cs)); [discriminate|].
    unfold tail_ok in H. inversion H. reflexivity.
  - exfalso. exact (compute_tail_not_ok climit v s0 _ _ Hn H).
Qed.

Lemma compute_parent_unchanged run fuel climit v v' c tr :
  compute_with run fuel climit v = Ok (v', c, tr) ->
  firstn (length (memory v)) (memory v') = memory v /\
  stack v' = tl (stack v) /\ pc v' = pc v /\ parent_memory v' = parent_memory v /\
  rstack v' = rstack v /\ halt v' = halt v.
Proof.
  intros H. apply compute_parent_frame in H. destruct H as (b & s0 & m' & Hs & Hv). subst v'.
  unfold set_stack_mem. cbn [memory stack pc parent_memory rstack halt]. rewrite Hs. cbn [tl].
  repeat split. apply firstn_app_exact. reflexivity.
Qed.

(* ---------- C10.4: how exec resumes after a Compute ---------- *)
Lemma exec_compute_resume f E oa limit v spent tr v1 p g h ctr :
  oa (pc v) = Some OCompute ->
  (u64_max <? spent + e_cost E OCompute) || (limit <? spent + e_cost E OCompute) = false ->
  compute_with (fun cv => exec f E oa (limit - (spent + e_cost E OCompute)) cv 0 []) f
               (limit - (spent + e_cost E OCompute)) v = Ok (v1, CComputeResult p g h, ctr) ->
  exec (S f) E oa limit v spent tr =
    if (u64_max <? spent + e_cost E OCompute + g) || (limit <? spent + e_cost E OCompute + g)
    then Err (pc v, EOutOfGas, v)
    else if halt v1 || h
         then Ok ({| pc := p; stack := stack v1; memory := memory v1; parent_memory := parent_memory v1;
                     halt := halt v1 || h; rstack := rstack v1 |},
                  spent + e_cost E OCompute + g, ctr ++ OCompute :: tr)
         else exec f E oa limit
                   {| pc := p; stack := stack v1; memory := memory v1; parent_memory := parent_memory v1;
                      halt := halt v1 || h; rstack := rstack v1 |}
                   (spent + e_cost E OCompute + g) (ctr ++ OCompute :: tr).
Proof.
  intros Ho Hg Hc. cbn [exec]. rewrite Ho. cbv zeta. rewrite Hg, Hc. reflexivity.
Qed.

Lemma exec_compute_error f E oa limit v spent tr e :
  oa (pc v) = Some OCompute ->
  (u64_max <? spent + e_cost E OCompute) || (limit <? spent + e_cost E OCompute) = false ->
  compute_with (fun cv => exec f E oa (limit - (spent + e_cost E OCompute)) cv 0 []) f
               (limit - (spent + e_cost E OCompute)) v = Err e ->
  exec (S f) E oa limit v spent tr = Err (pc v, e, v).
Proof.
  intros Ho Hg Hc. cbn [exec]. rewrite Ho. cbv zeta. rewrite Hg, Hc. reflexivity.
Qed.

(* ---------- the whole operation against compute_ref ---------- *)
Theorem compute_is_sequential_loop run fuel climit v :
  zlen (stack v) <= 4096 -> pc v < usize_max -> hd 0 (stack v) <= Z.of_nat fuel ->
  forall x, compute_with run fuel climit v = Ok x <-> compute_ref run climit v = Some x.
Proof.
  intros Hst Hpc Hf x. unfold compute_ref. destruct (stack v) as [|b s0] eqn:Hs.
  - rewrite (compute_fail_empty_stack run fuel climit v Hs). split; discriminate.
  - cbn [hd] in Hf. destruct (Z.ltb_spec b 1) as [Hb|Hb].
    { rewrite (compute_fail_breadth run fuel climit v b s0 Hs Hb). split; discriminate. }
    destruct (Z.leb_spec 1 (zlen (parent_memory v))) as [Hd|Hd].
    { rewrite (compute_fail_nested run fuel climit v Hd). split; discriminate. }
    apply (compute_is_sequential_loop_seq run fuel climit v b s0 Hs Hb Hd); [rewrite Hs|..]; assumption.
Qed.

Theorem compute_ref_failure run fuel climit v :
  zlen (stack v) <= 4096 -> pc v < usize_max -> hd 0 (stack v) <= Z.of_nat fuel ->
  (forall cv r, run cv = Ok r -> zlen (memory (fst (fst r))) <= 10240) ->
  Z.of_nat fuel * 10240 <= i64_max ->
  (forall b s0 i, stack v = b :: s0 -> 0 <= i < b -> settled (run (child_start v s0 i))) ->
  compute_ref run climit v = None -> exists e, compute_with run fuel climit v = Err e.
Proof.
  intros Hst Hpc Hf Hmem Hfuel Hset. unfold compute_ref. destruct (stack v) as [|b s0] eqn:Hs.
  - intros _. exists ECompute. exact (compute_fail_empty_stack run fuel climit v Hs).
  - cbn [hd] in Hf. destruct (Z.ltb_spec b 1) as [Hb|Hb].
    { intros _. exists ECompute. exact (compute_fail_breadth run fuel climit v b s0 Hs Hb). }
    destruct (Z.leb_spec 1 (zlen (parent_memory v))) as [Hd|Hd].
    { intros _. exists ECompute. exact (compute_fail_nested run fuel climit v Hd). }
    apply (compute_seq_failure run fuel climit v b s0 Hs Hb Hd); try assumption.
    + rewrite Hs. exact Hst.
    + intros i Hi. exact (Hset b s0 i eq_refl Hi).
Qed.

(* ---------- the reference really is a loop: one more index = one more iteration ---------- *)
Lemma zrange_from_snoc k : forall s, zrange_from s (S k) = zrange_from s k ++ [s + Z.of_nat k].
Proof.
  induction k as [|k IH]; intros s.
  - cbn [zrange_from app Z.of_nat]. rewrite Z.add_0_r. reflexivity.
  - change (zrange_from s (S (S k))) with (s :: zrange_from (s + 1) (S k)). rewrite IH.
    cbn [zrange_from app]. do 3 f_equal. lia.
Qed.

Lemma compute_seq_acc_zero run climit v s0 : compute_seq_acc run climit v 0 s0 = Some (cacc0 v).
Proof. reflexivity. Qed.

Lemma compute_seq_acc_succ run climit v n s0 :
  0 <= n ->
  compute_seq_acc run climit v (n + 1) s0 = seq_step run climit v s0 (compute_seq_acc run climit v n s0) n.
Proof.
  intros Hn. unfold compute_seq_acc, zrange_z.
  replace (Z.to_nat (n + 1)) with (S (Z.to_nat n)) by lia.
  rewrite zrange_from_snoc, fold_left_app. cbn [fold_left]. rewrite Z.add_0_l, Z2Nat.id by exact Hn.
  reflexivity.
Qed.

(* ---------- variants for a top-level VM (parent_memory v = []) ---------- *)
Lemma pm_nil v : parent_memory v = [] -> zlen (parent_memory v) < 1.
Proof. intros H. rewrite H. unfold zlen. cbn [length]. lia. Qed.

Theorem compute_is_sequential_loop_top run fuel climit v n s0 :
  stack v = n :: s0 -> 1 <= n -> parent_memory v = [] ->
  zlen (stack v) <= 4096 -> pc v < usize_max -> n <= Z.of_nat fuel ->
  forall x, compute_with run fuel climit v = Ok x <-> compute_seq run climit v n s0 = Some x.
Proof. intros Hs Hb Hd. exact (compute_is_sequential_loop_seq run fuel climit v n s0 Hs Hb (pm_nil v Hd)). Qed.

Theorem compute_seq_failure_top run fuel climit v n s0 :
  stack v = n :: s0 -> 1 <= n -> parent_memory v = [] ->
  zlen (stack v) <= 4096 -> pc v < usize_max -> n <= Z.of_nat fuel ->
  (forall cv r, run cv = Ok r -> zlen (memory (fst (fst r))) <= 10240) ->
  Z.of_nat fuel * 10240 <= i64_max ->
  (forall i, 0 <= i < n -> settled (run (child_start v s0 i))) ->
  compute_seq run climit v n s0 = None -> exists e, compute_with run fuel climit v = Err e.
Proof. intros Hs Hb Hd. exact (compute_seq_failure run fuel climit v n s0 Hs Hb (pm_nil v Hd)). Qed.

Lemma compute_fail_child_err_top run fuel climit v n s0 :
  stack v = n :: s0 -> 1 <= n -> parent_memory v = [] ->
  zlen (stack v) <= 4096 -> pc v < usize_max -> n <= Z.of_nat fuel ->
  (forall i, 0 <= i < n -> settled (run (child_start v s0 i))) ->
  (exists i e, 0 <= i < n /\ run (child_start v s0 i) = Err e) ->
  compute_with run fuel climit v = Err ECompute.
Proof. intros Hs Hb Hd. exact (compute_fail_child_err run fuel climit v n s0 Hs Hb (pm_nil v Hd)). Qed.

Lemma compute_fail_memory_top run fuel climit v n s0 a :
  stack v = n :: s0 -> 1 <= n -> parent_memory v = [] ->
  zlen (stack v) <= 4096 -> pc v < usize_max -> n <= Z.of_nat fuel ->
  (forall cv r, run cv = Ok r -> zlen (memory (fst (fst r))) <= 10240) ->
  Z.of_nat fuel * 10240 <= i64_max ->
  compute_seq_acc run climit v n s0 = Some a ->
  10240 < zlen (memory v) + zlen (a_mem a) ->
  compute_with run fuel climit v = Err EMemory.
Proof. intros Hs Hb Hd. exact (compute_fail_memory run fuel climit v n s0 a Hs Hb (pm_nil v Hd)). Qed.

(* the child stack is exactly i :: s0 and the start state exists whenever the parent state is sane *)
Lemma child_start_exists v s0 i :
  zlen s0 < 4096 -> pc v < usize_max -> child_vm v s0 i = Ok (child_start v s0 i).
Proof. exact (child_vm_ok v s0 i). Qed.
