(* C05 - the invariant and panic freedom lifted to `exec` (the run loop with gas and Compute). *)
From Coq Require Import ZArith List Lia Bool.
From EB Require Import Vm.Machine Vm.Step Vm.Exec Proofs.AsmCodec Proofs.VmInv Proofs.VmInvStep.
Open Scope list_scope.
Open Scope Z_scope.

Notation cres := (vm * Z * list op)%type.
Definition cvm (c : cres) : vm := fst (fst c).

(* ---------- small facts about the helpers of compute ---------- *)
Lemma zrange_from_In n : forall a i, In i (zrange_from a n) -> a <= i < a + Z.of_nat n.
Proof.
  induction n as [|n IH]; intros a i H; cbn [zrange_from] in H; [contradiction|].
  destruct H as [<-|H]; [lia|]. apply IH in H. lia.
Qed.
Lemma zrange_from_length n : forall a, length (zrange_from a n) = n.
Proof. induction n as [|n IH]; intros a; cbn [zrange_from length]; [reflexivity|]. rewrite IH. reflexivity. Qed.

Lemma join_children_ok rs : forall acc cs,
  join_children rs acc = Ok cs -> exists cs', cs = rev acc ++ cs' /\ rs = map Ok cs'.
Proof.
  induction rs as [|r rs IH]; intros acc cs H; cbn [join_children] in H.
  - injection H as <-. exists []. rewrite app_nil_r. split; reflexivity.
  - destruct r as [c|e|s|]; try discriminate H.
    apply IH in H as (cs' & -> & ->). exists (c :: cs'). cbn [rev map]. rewrite <- app_assoc. split; reflexivity.
Qed.

Lemma join_children_np rs : forall acc, (forall r, In r rs -> no_panic r) -> no_panic (join_children rs acc).
Proof.
  induction rs as [|r rs IH]; intros acc H; cbn [join_children]; [apply np_ok|].
  destruct r as [c|e|s|].
  - apply IH. intros r' Hr'. apply H. right; exact Hr'.
  - apply np_err.
  - exfalso. apply (H (Panic s) (or_introl eq_refl) s). reflexivity.
  - apply np_fuel.
Qed.
Lemma children_status_np rs : (forall r, In r rs -> no_panic r) -> no_panic (children_status rs).
Proof.
  induction rs as [|r rs IH]; intros H; cbn [children_status]; [apply np_ok|].
  assert (IH' : no_panic (children_status rs)) by (apply IH; intros r' Hr'; apply H; right; exact Hr').
  destruct r as [c|e|s|]; try exact IH'.
  - exfalso. apply (H (Panic s) (or_introl eq_refl) s). reflexivity.
  - apply np_fuel.
Qed.

Fixpoint msum (cs : list cres) : Z :=
  match cs with [] => 0 | c :: r => zlen (memory (cvm c)) + msum r end.

Lemma fold_msum cs : forall a, fold_left (fun a c => a + zlen (memory (fst (fst c)))) cs a = a + msum cs.
Proof.
  induction cs as [|c cs IH]; intros a; cbn [fold_left msum]; [lia|]. rewrite IH. unfold cvm. lia.
Qed.

Lemma msum_bound cs : Forall (fun c => zlen (memory (cvm c)) <= 10240) cs -> 0 <= msum cs <= zlen cs * 10240.
Proof.
  induction 1 as [|c cs Hc _ IH]; cbn [msum]; [unfold zlen; cbn [length]; lia|].
  rewrite zlen_cons. pose proof (zlen_nonneg (memory (cvm c))). lia.
Qed.

Lemma fold_pc_bound cs : forall a,
  Forall (fun c => 0 <= pc (cvm c) <= usize_max) cs -> 0 <= a <= usize_max ->
  0 <= fold_left (fun a c => Z.max a (pc (fst (fst c)))) cs a <= usize_max.
Proof.
  induction cs as [|c cs IH]; intros a H Ha; cbn [fold_left]; [exact Ha|].
  inversion H as [|? ? Hc Hcs]; subst. apply IH; [exact Hcs|]. unfold cvm in Hc. lia.
Qed.

Lemma store_children_ok cs : forall ptr m,
  0 <= ptr -> ptr + msum cs <= zlen m -> Forall i64 m ->
  Forall (fun c => Forall i64 (memory (cvm c))) cs ->
  exists m', store_children ptr cs m = Ok m' /\ zlen m' = zlen m /\ Forall i64 m'.
Proof.
  induction cs as [|c cs IH]; intros ptr m Hp Hb Fm Fc; cbn [store_children].
  - exists m. split; [reflexivity|split; [reflexivity|exact Fm]].
  - destruct c as [[cv g] t]. cbn [msum cvm fst] in Hb. inversion Fc as [|? ? Fcv Fcs]; subst. cbn [cvm fst] in Fcv.
    pose proof (zlen_nonneg (memory cv)) as N. pose proof (msum_bound cs) as _.
    assert (N2 : 0 <= msum cs).
    { clear. induction cs as [|c cs IH]; cbn [msum]; [lia|]. pose proof (zlen_nonneg (memory (cvm c))). lia. }
    rewrite mem_store_range_succeeds by lia.
    destruct (IH (ptr + zlen (memory cv)) (splice (Z.to_nat ptr) (memory cv) m)) as (m' & E & L & F).
    + lia.
    + unfold zlen in *. rewrite splice_length by lia. lia.
    + apply splice_Forall; assumption.
    + exact Fcs.
    + exists m'. split; [exact E|split; [|exact F]].
      rewrite L. unfold zlen in *. rewrite splice_length by lia. reflexivity.
Qed.

(* ---------- children of a Compute ---------- *)
Definition child_run (run : vm -> X) (v : vm) (s0 : list Z) (i : Z) : X :=
  match child_vm v s0 i with
  | Ok cv => run cv
  | Panic s => Panic s
  | _ => Err (pc v, ECompute, v)
  end.

Lemma child_vm_ok v s0 i cv :
  Inv v -> stack_ok s0 -> i64 i -> zlen (parent_memory v) < 1 -> child_vm v s0 i = Ok cv -> Inv cv.
Proof.
  intros Hv Hs Hi Hd H. unfold child_vm in H. apply bind_ok in H as (cs & Hp & H).
  destruct (Z.ltb_spec usize_max (pc v + 1)) as [B|B]; [discriminate|]. injection H as <-.
  pose proof (push_stack_ok _ _ _ Hs Hi Hp) as [L F]. pose proof (inv_pc v Hv) as P.
  constructor; cbn [stack memory rstack parent_memory pc].
  - exact L.
  - rewrite zlen_nil. lia.
  - apply (inv_repeat v Hv).
  - rewrite zlen_cons. lia.
  - exact F.
  - constructor.
  - constructor; [exact (Inv_mem_ok v Hv)|apply (inv_parent v Hv)].
  - apply (inv_slots v Hv).
  - lia.
Qed.
Lemma child_vm_np v s0 i : pc v < usize_max -> no_panic (child_vm v s0 i).
Proof.
  intros Hp. unfold child_vm. apply bind_no_panic; [apply push_np|]. intros cs _.
  destruct (Z.ltb_spec usize_max (pc v + 1)); [lia|apply np_ok].
Qed.

Definition run_inv (run : vm -> X) : Prop := forall cv r, Inv cv -> run cv = Ok r -> Inv (cvm r).

Lemma children_inv run v s0 breadth :
  Inv v -> stack_ok s0 -> i64 breadth -> zlen (parent_memory v) < 1 -> run_inv run ->
  forall r c, In r (map (child_run run v s0) (zrange_z breadth)) -> r = Ok c -> Inv (cvm c).
Proof.
  intros Hv Hs Hb Hd Hrun r c Hin ->. apply in_map_iff in Hin as (i & Ei & Hi).
  unfold zrange_z in Hi. apply zrange_from_In in Hi.
  assert (I64 : i64 i). { rewrite i64_iff in *. lia. }
  unfold child_run in Ei. destruct (child_vm v s0 i) as [cv|e|s|] eqn:Ec; try discriminate Ei.
  eapply Hrun; [|exact Ei]. eapply child_vm_ok; eauto.
Qed.

Lemma children_np run v s0 breadth :
  Inv v -> stack_ok s0 -> i64 breadth -> zlen (parent_memory v) < 1 -> pc v < usize_max ->
  (forall cv, Inv cv -> no_panic (run cv)) ->
  forall r, In r (map (child_run run v s0) (zrange_z breadth)) -> no_panic r.
Proof.
  intros Hv Hs Hb Hd Hp Hrun r Hin. apply in_map_iff in Hin as (i & <- & Hi).
  unfold zrange_z in Hi. apply zrange_from_In in Hi.
  assert (I64 : i64 i). { rewrite i64_iff in *. lia. }
  unfold child_run. destruct (child_vm v s0 i) as [cv|e|s|] eqn:Ec.
  - apply Hrun. eapply child_vm_ok; eauto.
  - apply np_err.
  - exfalso. apply (child_vm_np v s0 i Hp s). exact Ec.
  - apply np_err.
Qed.

(* control values that carry a program counter are in range *)
Definition ctl_ok2 (c : ctl) : Prop :=
  match c with CPc p => 0 <= p <= usize_max | CComputeResult p _ _ => 0 <= p <= usize_max | _ => True end.

Lemma compute_with_unfold run fuel climit v :
  compute_with run fuel climit v =
  match pop (stack v) with
  | Ok (breadth, s0) =>
    if breadth <? 1 then Err ECompute
    else if max_compute_depth <=? zlen (parent_memory v) then Err ECompute
    else if Z.of_nat fuel <? breadth then OutOfFuel
    else
      let rs := map (child_run run v s0) (zrange_z breadth) in
      match children_status rs with
      | Panic s => Panic s
      | OutOfFuel => OutOfFuel
      | _ =>
        match join_children rs [] with
        | Ok cs =>
          match sum_gas climit 0 cs with
          | None => Err EOutOfGas
          | Some total =>
            let to_alloc := fold_left (fun a c => a + zlen (memory (fst (fst c)))) cs 0 in
            if i64_max <? to_alloc then Panic "compute_effects: memory_to_alloc overflow"
            else
              let* m1 := mem_alloc to_alloc (memory v) in
              let* m2 := store_children (zlen (memory v)) cs m1 in
              let p := fold_left (fun a c => Z.max a (pc (fst (fst c)))) cs (pc v) in
              let h := fold_left (fun a c => a || halt (fst (fst c))) cs (halt v) in
              let tr := fold_left (fun a c => snd c ++ a) cs [] in
              Ok (set_stack_mem v s0 m2, CComputeResult p total h, tr)
          end
        | Err _ => Err ECompute
        | Panic s => Panic s
        | OutOfFuel => OutOfFuel
        end
      end
  | _ => Err ECompute
  end.
Proof. reflexivity. Qed.

(* what we know once the children have been joined *)
Lemma joined_facts run v s0 breadth cs :
  Inv v -> stack_ok s0 -> i64 breadth -> zlen (parent_memory v) < 1 -> run_inv run ->
  join_children (map (child_run run v s0) (zrange_z breadth)) [] = Ok cs ->
  Forall (fun c => Inv (cvm c)) cs /\ length cs = Z.to_nat breadth.
Proof.
  intros Hv Hs Hb Hd Hrun Hj.
  pose proof (children_inv run v s0 breadth Hv Hs Hb Hd Hrun) as Hc.
  apply join_children_ok in Hj as (cs' & E & Hm). cbn [rev app] in E. subst cs'. split.
  - apply Forall_forall. intros c Hin. apply (Hc (Ok c) c); [|reflexivity].
    rewrite Hm. apply in_map. exact Hin.
  - apply (f_equal (@length _)) in Hm. rewrite !map_length in Hm. unfold zrange_z in Hm.
    rewrite zrange_from_length in Hm. symmetry; exact Hm.
Qed.

Lemma compute_with_ok run fuel climit v v' c tr :
  Inv v -> run_inv run ->
  compute_with run fuel climit v = Ok (v', c, tr) -> Inv v' /\ ctl_ok2 c /\ pc v' = pc v.
Proof.
  intros Hv Hrun H. rewrite compute_with_unfold in H.
  destruct (pop (stack v)) as [[breadth s0]|e|s|] eqn:Ep; try discriminate H.
  apply pop_ok in Ep. pose proof (Inv_stack_ok v Hv) as Hs. rewrite Ep in Hs.
  apply stack_ok_cons_inv in Hs as (Hb & Hs0 & _).
  destruct (Z.ltb_spec breadth 1) as [B1|B1]; [discriminate H|].
  rewrite mcd_eq in H. destruct (Z.leb_spec 1 (zlen (parent_memory v))) as [D|D]; [discriminate H|].
  destruct (Z.ltb_spec (Z.of_nat fuel) breadth) as [Fb|Fb]; [discriminate H|].
  cbv zeta in H.
  set (rs := map (child_run run v s0) (zrange_z breadth)) in H.
  assert (H' : match join_children rs [] with
               | Ok cs =>
                 match sum_gas climit 0 cs with
                 | None => Err EOutOfGas
                 | Some total =>
                   if i64_max <? fold_left (fun a c => a + zlen (memory (fst (fst c)))) cs 0
                   then Panic "compute_effects: memory_to_alloc overflow"
                   else
                     let* m1 := mem_alloc (fold_left (fun a c => a + zlen (memory (fst (fst c)))) cs 0) (memory v) in
                     let* m2 := store_children (zlen (memory v)) cs m1 in
                     Ok (set_stack_mem v s0 m2,
                         CComputeResult (fold_left (fun a c => Z.max a (pc (fst (fst c)))) cs (pc v)) total
                                        (fold_left (fun a c => a || halt (fst (fst c))) cs (halt v)),
                         fold_left (fun a c => snd c ++ a) cs [])
                 end
               | Err _ => Err ECompute
               | Panic s => Panic s
               | OutOfFuel => OutOfFuel
               end = Ok (v', c, tr)).
  { destruct (children_status rs); try discriminate H; exact H. }
  clear H. destruct (join_children rs []) as [cs|e|s|] eqn:Ej; try discriminate H'.
  destruct (joined_facts run v s0 breadth cs Hv Hs0 Hb D Hrun Ej) as [Fc Lc].
  destruct (sum_gas climit 0 cs) as [total|]; [|discriminate H'].
  rewrite fold_msum in H'. destruct (i64_max <? 0 + msum cs); [discriminate H'|].
  apply bind_ok in H' as (m1 & Ha & H'). apply bind_ok in H' as (m2 & Hst & H').
  injection H' as <- <- <-.
  destruct (mem_alloc_ok _ _ _ (Inv_mem_ok v Hv) Ha) as ([L1 F1] & N & Z1 & _).
  destruct (store_children_ok cs (zlen (memory v)) m1) as (m2' & E2 & L2 & F2).
  - apply zlen_nonneg.
  - lia.
  - exact F1.
  - eapply Forall_impl; [|exact Fc]. intros c0 Hc0. apply (inv_memory_w _ Hc0).
  - rewrite E2 in Hst. injection Hst as <-.
    split; [apply Inv_set_stack_mem; [exact Hv|exact Hs0|split; [lia|exact F2]]|].
    split; [|reflexivity]. cbn [ctl_ok2]. apply fold_pc_bound; [|apply (inv_pc v Hv)].
    eapply Forall_impl; [|exact Fc]. intros c0 Hc0. apply (inv_pc _ Hc0).
Qed.

Lemma compute_with_np run fuel climit v :
  Inv v -> pc v < usize_max -> Z.of_nat fuel * 10240 <= i64_max -> run_inv run ->
  (forall cv, Inv cv -> no_panic (run cv)) ->
  no_panic (compute_with run fuel climit v).
Proof.
  intros Hv Hp Hf Hrun Hnp. rewrite compute_with_unfold.
  destruct (pop (stack v)) as [[breadth s0]|e|s|] eqn:Ep; try apply np_err.
  apply pop_ok in Ep. pose proof (Inv_stack_ok v Hv) as Hs. rewrite Ep in Hs.
  apply stack_ok_cons_inv in Hs as (Hb & Hs0 & _).
  destruct (Z.ltb_spec breadth 1) as [B1|B1]; [apply np_err|].
  rewrite mcd_eq. destruct (Z.leb_spec 1 (zlen (parent_memory v))) as [D|D]; [apply np_err|].
  destruct (Z.ltb_spec (Z.of_nat fuel) breadth) as [Fb|Fb]; [apply np_fuel|].
  cbv zeta.
  set (rs := map (child_run run v s0) (zrange_z breadth)).
  pose proof (children_np run v s0 breadth Hv Hs0 Hb D Hp Hnp) as Hcn. fold rs in Hcn.
  pose proof (children_status_np rs Hcn) as Hst.
  pose proof (join_children_np rs [] Hcn) as Hjn.
  destruct (children_status rs) as [u|u|s|]; [| |exfalso; exact (Hst s eq_refl)|apply np_fuel].
  all: destruct (join_children rs []) as [cs|e|s|] eqn:Ej;
       [|apply np_err|exfalso; exact (Hjn s eq_refl)|apply np_fuel].
  all: destruct (joined_facts run v s0 breadth cs Hv Hs0 Hb D Hrun Ej) as [Fc Lc];
       destruct (sum_gas climit 0 cs) as [total|]; [|apply np_err].
  all: rewrite fold_msum;
       assert (Fm : Forall (fun c => zlen (memory (cvm c)) <= 10240) cs)
         by (eapply Forall_impl; [|exact Fc]; intros c0 Hc0; apply (inv_memory _ Hc0));
       pose proof (msum_bound cs Fm) as MB;
       assert (Lz : zlen cs = breadth) by (unfold zlen; rewrite Lc; lia);
       destruct (Z.ltb_spec i64_max (0 + msum cs)) as [Ov|Ov]; [exfalso; lia|].
  all: apply bind_no_panic; [apply mem_alloc_np|]; intros m1 Ha;
       destruct (mem_alloc_ok _ _ _ (Inv_mem_ok v Hv) Ha) as ([L1 F1] & N & Z1 & _);
       destruct (store_children_ok cs (zlen (memory v)) m1) as (m2' & E2 & L2 & F2);
       [apply zlen_nonneg|lia|exact F1
       |eapply Forall_impl; [|exact Fc]; intros c0 Hc0; apply (inv_memory_w _ Hc0)|];
       rewrite E2; cbn [bind]; apply np_ok.
Qed.

(* ---------- the run loop ---------- *)
Definition exec_step (f : nat) (E : env) (oa : Z -> option op) (limit next : Z) (v : vm) (o : op)
  : R (vm * ctl * list op) :=
  match o with
  | OCompute => compute_with (fun cv => exec f E oa (limit - next) cv 0 []) f (limit - next) v
  | _ => let* (v', c) := step_basic E o v in Ok (v', c, [])
  end.

Lemma exec_S f E oa limit v spent tr :
  exec (S f) E oa limit v spent tr =
  match oa (pc v) with
  | None => Ok (v, spent, tr)
  | Some o =>
    let next := spent + e_cost E o in
    if (u64_max <? next) || (limit <? next) then Err (pc v, EOutOfGas, v)
    else
      match exec_step f E oa limit next v o with
      | Err e => Err (pc v, e, v)
      | Panic s => Panic s
      | OutOfFuel => OutOfFuel
      | Ok (v', c, ctr) =>
        let tr' := ctr ++ o :: tr in
        match c with
        | CNext =>
            if usize_max <? pc v' + 1 then Panic "exec: self.pc += 1"
            else exec f E oa limit (set_pc v' (pc v' + 1)) next tr'
        | CPc p => exec f E oa limit (set_pc v' p) next tr'
        | CHalt => Ok (v', next, tr')
        | CComputeEnd =>
            if usize_max <? pc v' + 1 then Panic "exec: self.pc += 1"
            else Ok (set_pc v' (pc v' + 1), next, tr')
        | CComputeResult p g h =>
            let total := next + g in
            if (u64_max <? total) || (limit <? total) then Err (pc v, EOutOfGas, v)
            else let v'' := set_halt (set_pc v' p) (halt v' || h) in
                 if halt v'' then Ok (v'', total, tr') else exec f E oa limit v'' total tr'
        end
      end
  end.
Proof. reflexivity. Qed.

Lemma exec_step_basic f E oa limit next v o :
  o <> OCompute -> exec_step f E oa limit next v o = (let* (v', c) := step_basic E o v in Ok (v', c, [])).
Proof. intros H. destruct o; try reflexivity. congruence. Qed.

Definition X_ok (x : X) : Prop :=
  match x with Ok (v', _, _) => Inv v' | Err (_, _, v1) => Inv v1 | _ => True end.

Definition oa_ok (oa : Z -> option op) : Prop :=
  forall p o, oa p = Some o -> well_formed_op o /\ 0 <= p < usize_max.

Lemma op_is_compute (o : op) : {o = OCompute} + {o <> OCompute}.
Proof. destruct o; first [left; reflexivity|right; discriminate]. Qed.

Lemma ctl_ok_ok2 c : ctl_ok c -> (forall p g h, c <> CComputeResult p g h) -> ctl_ok2 c.
Proof. destruct c; cbn; intros H N; auto. exfalso. eapply N; reflexivity. Qed.

Lemma step_basic_not_cr E o v v' c : step_basic E o v = Ok (v', c) -> forall p g h, c <> CComputeResult p g h.
Proof.
  intros H p g h ->.
  destruct o; cbn [step_basic] in H;
  try (unfold with_stack in H; apply bind_ok in H as (? & _ & H); discriminate H);
  try (unfold with_stack_mem in H; apply bind_ok in H as ([? ?] & _ & H); discriminate H);
  try discriminate H.
  - apply bind_ok in H as ([? [?|]] & _ & H); discriminate H.
  - unfold with_stack_ctl in H. apply bind_ok in H as ([? c'] & Hb & H). injection H as _ ->.
    unfold op_halt_if in Hb. apply bind_ok in Hb as ([? ?] & _ & Hb).
    destruct (bool_of_word _) as [[|]|]; discriminate Hb.
  - unfold with_stack_ctl in H. apply bind_ok in H as ([? c'] & Hb & H). injection H as _ ->.
    unfold op_jump_if in Hb. apply bind_ok in Hb as ([[? ?] ?] & _ & Hb).
    destruct (bool_of_word _) as [[|]|]; try discriminate Hb.
    destruct (_ =? 0); [discriminate Hb|]. destruct (_ <? 0); destruct (_ <? _); discriminate Hb.
  - unfold with_stack_ctl in H. apply bind_ok in H as ([? c'] & Hb & H). injection H as _ ->.
    unfold op_panic_if in Hb. apply bind_ok in Hb as ([? ?] & _ & Hb).
    destruct (bool_of_word _) as [[|]|]; discriminate Hb.
Qed.

Lemma exec_step_ok f E oa limit next v o v' c ctr :
  env_ok E -> well_formed_op o -> Inv v ->
  (forall l cv, Inv cv -> X_ok (exec f E oa l cv 0 [])) ->
  exec_step f E oa limit next v o = Ok (v', c, ctr) -> Inv v' /\ ctl_ok2 c /\ pc v' = pc v.
Proof.
  intros HE Ho Hv IH H. destruct (op_is_compute o) as [->|No].
  - cbn [exec_step] in H. eapply compute_with_ok; [exact Hv| |exact H].
    intros cv r Hcv Hr. specialize (IH (limit - next) cv Hcv). rewrite Hr in IH.
    destruct r as [[rv rg] rt]. exact IH.
  - rewrite exec_step_basic in H by exact No.
    apply bind_ok in H as ([v1 c1] & Hb & H). injection H as <- <- <-.
    destruct (step_basic_inv_full E o v v1 c1 HE Ho Hv Hb) as (A & B & C).
    split; [exact A|split; [|exact C]]. apply ctl_ok_ok2; [exact B|]. eapply step_basic_not_cr; exact Hb.
Qed.

Theorem exec_inv_gen E oa : env_ok E -> oa_ok oa ->
  forall fuel limit v spent tr, Inv v -> X_ok (exec fuel E oa limit v spent tr).
Proof.
  intros HE Hoa. induction fuel as [|f IH]; intros limit v spent tr Hv; [exact I|].
  rewrite exec_S. destruct (oa (pc v)) as [o|] eqn:Eo; [|exact Hv].
  destruct (Hoa _ _ Eo) as [Wo Hp]. cbv zeta.
  destruct (_ || _); [exact Hv|].
  destruct (exec_step f E oa limit (spent + e_cost E o) v o) as [[[v' c] ctr]|e|s|] eqn:Es;
    [|exact Hv|exact I|exact I].
  destruct (exec_step_ok f E oa limit _ v o v' c ctr HE Wo Hv (fun l cv Hcv => IH l cv 0 [] Hcv) Es)
    as (Hv' & Hc & Hpc).
  destruct c as [|p| | |p g h]; cbn [ctl_ok2] in Hc.
  - destruct (Z.ltb_spec usize_max (pc v' + 1)); [exact I|]. apply IH. apply Inv_set_pc; [exact Hv'|lia].
  - apply IH. apply Inv_set_pc; assumption.
  - exact Hv'.
  - destruct (Z.ltb_spec usize_max (pc v' + 1)); [exact I|]. apply Inv_set_pc; [exact Hv'|lia].
  - destruct (_ || _); [exact Hv|].
    assert (Hv'' : Inv (set_halt (set_pc v' p) (halt v' || h))) by (apply Inv_set_halt, Inv_set_pc; assumption).
    destruct (halt (set_halt (set_pc v' p) (halt v' || h))); [exact Hv''|apply IH; exact Hv''].
Qed.

Lemma exec_step_np f E oa limit next v o :
  env_ok E -> oa_ok oa -> well_formed_op o -> Inv v -> pc v < usize_max ->
  Z.of_nat f * 10240 <= i64_max ->
  (forall l cv, Inv cv -> no_panic (exec f E oa l cv 0 [])) ->
  no_panic (exec_step f E oa limit next v o).
Proof.
  intros HE Hoa Ho Hv Hp Hf IH. destruct (op_is_compute o) as [->|No].
  - cbn [exec_step]. apply compute_with_np; [exact Hv|exact Hp|exact Hf| |].
    + intros cv r Hcv Hr. pose proof (exec_inv_gen E oa HE Hoa f (limit - next) cv 0 [] Hcv) as K.
      rewrite Hr in K. destruct r as [[rv rg] rt]. exact K.
    + intros cv Hcv. apply IH; exact Hcv.
  - rewrite exec_step_basic by exact No.
    apply bind_no_panic; [apply step_basic_no_panic; assumption|]. intros [? ?] _. apply np_ok.
Qed.

Theorem exec_no_panic_gen E oa : env_ok E -> oa_ok oa ->
  forall fuel, Z.of_nat fuel * 10240 <= i64_max ->
  forall limit v spent tr, Inv v -> no_panic (exec fuel E oa limit v spent tr).
Proof.
  intros HE Hoa. induction fuel as [|f IH]; intros Hf limit v spent tr Hv; [apply np_fuel|].
  assert (Hf' : Z.of_nat f * 10240 <= i64_max) by lia. specialize (IH Hf').
  rewrite exec_S. destruct (oa (pc v)) as [o|] eqn:Eo; [|apply np_ok].
  destruct (Hoa _ _ Eo) as [Wo Hp]. cbv zeta.
  destruct (_ || _); [apply np_err|].
  pose proof (exec_step_np f E oa limit (spent + e_cost E o) v o HE Hoa Wo Hv (proj2 Hp) Hf'
                (fun l cv Hcv => IH l cv 0 [] Hcv)) as Hnp.
  destruct (exec_step f E oa limit (spent + e_cost E o) v o) as [[[v' c] ctr]|e|s|] eqn:Es;
    [|apply np_err|exfalso; exact (Hnp s eq_refl)|apply np_fuel].
  destruct (exec_step_ok f E oa limit _ v o v' c ctr HE Wo Hv
              (fun l cv Hcv => exec_inv_gen E oa HE Hoa f l cv 0 [] Hcv) Es) as (Hv' & Hc & Hpc).
  destruct c as [|p| | |p g h]; cbn [ctl_ok2] in Hc.
  - destruct (Z.ltb_spec usize_max (pc v' + 1)); [lia|]. apply IH. apply Inv_set_pc; [exact Hv'|lia].
  - apply IH. apply Inv_set_pc; assumption.
  - apply np_ok.
  - destruct (Z.ltb_spec usize_max (pc v' + 1)); [lia|]. apply np_ok.
  - destruct (_ || _); [apply np_err|].
    assert (Hv'' : Inv (set_halt (set_pc v' p) (halt v' || h))) by (apply Inv_set_halt, Inv_set_pc; assumption).
    destruct (halt (set_halt (set_pc v' p) (halt v' || h))); [apply np_ok|apply IH; exact Hv''].
Qed.

(* ---------- the statements in the form used by Properties/C05.v ---------- *)
Theorem exec_inv E oa fuel limit v spent tr :
  env_ok E -> (forall p o, oa p = Some o -> well_formed_op o /\ 0 <= p < usize_max) -> Inv v ->
  (forall v' g tr', exec fuel E oa limit v spent tr = Ok (v', g, tr') -> Inv v') /\
  (forall p e v1, exec fuel E oa limit v spent tr = Err (p, e, v1) -> Inv v1).
Proof.
  intros HE Hoa Hv. pose proof (exec_inv_gen E oa HE Hoa fuel limit v spent tr Hv) as K.
  split; intros; match goal with H : exec _ _ _ _ _ _ _ = _ |- _ => rewrite H in K end; exact K.
Qed.

Theorem exec_no_panic E oa fuel limit v spent tr :
  env_ok E -> (forall p o, oa p = Some o -> well_formed_op o /\ 0 <= p < usize_max) -> Inv v ->
  Z.of_nat fuel * 10240 <= i64_max ->
  forall s, exec fuel E oa limit v spent tr <> Panic s.
Proof. intros HE Hoa Hv Hf. exact (exec_no_panic_gen E oa HE Hoa fuel Hf limit v spent tr Hv). Qed.

(* ---------- EXTRA: programs given as a list of operations ---------- *)
Lemma op_at_ok ops : Forall well_formed_op ops -> zlen ops <= usize_max -> oa_ok (op_at ops).
Proof.
  intros Hw Hl p o H. unfold op_at in H.
  destruct (Z.ltb_spec p 0); [discriminate|]. destruct (Z.leb_spec (zlen ops) p); [discriminate|].
  cbn [orb] in H. split; [eapply Forall_nth_error; eauto|lia].
Qed.

Lemma Inv_vm0 : Inv vm0.
Proof.
  constructor; cbn [vm0 stack memory rstack parent_memory pc]; try constructor; try (rewrite zlen_nil; lia);
  rewrite ?usize_max_eq; lia.
Qed.

Theorem exec_ops_inv E ops fuel limit v :
  env_ok E -> Forall well_formed_op ops -> zlen ops <= usize_max -> Inv v ->
  (forall v' g tr', exec_ops fuel E ops limit v = Ok (v', g, tr') -> Inv v') /\
  (forall p e v1, exec_ops fuel E ops limit v = Err (p, e, v1) -> Inv v1).
Proof. intros HE Hw Hl Hv. apply exec_inv; [exact HE|apply op_at_ok; assumption|exact Hv]. Qed.

Theorem exec_ops_no_panic E ops fuel limit v :
  env_ok E -> Forall well_formed_op ops -> zlen ops <= usize_max -> Inv v ->
  Z.of_nat fuel * 10240 <= i64_max ->
  forall s, exec_ops fuel E ops limit v <> Panic s.
Proof. intros HE Hw Hl Hv Hf. apply exec_no_panic; [exact HE|apply op_at_ok; assumption|exact Hv|exact Hf]. Qed.

Lemma Inv_bounds v : Inv v ->
  zlen (stack v) <= 4096 /\ zlen (memory v) <= 10240 /\ zlen (rstack v) <= 4096 /\ zlen (parent_memory v) <= 1.
Proof.
  intros H. split; [apply (inv_stack v H)|split; [apply (inv_memory v H)|split; [apply (inv_repeat v H)|apply (inv_depth v H)]]].
Qed.

Theorem ops_total E ops fuel limit :
  env_ok E -> Forall well_formed_op ops -> zlen ops <= usize_max -> Z.of_nat fuel * 10240 <= i64_max ->
  (forall s, exec_ops fuel E ops limit vm0 <> Panic s) /\
  (forall v' g tr', exec_ops fuel E ops limit vm0 = Ok (v', g, tr') ->
     zlen (stack v') <= 4096 /\ zlen (memory v') <= 10240 /\ zlen (rstack v') <= 4096 /\ zlen (parent_memory v') <= 1).
Proof.
  intros HE Hw Hl Hf. split.
  - apply exec_ops_no_panic; auto using Inv_vm0.
  - intros v' g tr' H. apply Inv_bounds.
    exact (proj1 (exec_ops_inv E ops fuel limit vm0 HE Hw Hl Inv_vm0) v' g tr' H).
Qed.

Theorem bytecode_total E bs fuel limit :
  env_ok E -> Forall byte bs -> zlen bs <= usize_max -> Z.of_nat fuel * 10240 <= i64_max ->
  (forall s, from_bytes bs <> Panic s) /\
  (forall ops, from_bytes bs = Ok ops ->
     (forall s, exec_ops fuel E ops limit vm0 <> Panic s) /\
     (forall v' g tr', exec_ops fuel E ops limit vm0 = Ok (v', g, tr') ->
        zlen (stack v') <= 4096 /\ zlen (memory v') <= 10240 /\ zlen (rstack v') <= 4096 /\ zlen (parent_memory v') <= 1)).
Proof.
  intros HE Hb Hl Hf. split; [exact (proj2 (from_bytes_total bs))|].
  intros ops Hp. destruct (parse_sound _ _ _ Hb Hp) as [Eb Hw].
  apply ops_total; [exact HE|exact Hw| |exact Hf].
  pose proof (to_bytes_length_ge ops) as L. rewrite Eb in L. unfold zlen in *. lia.
Qed.
