(* C09, part 2: how `exec` moves the program counter and when it stops; evaluation results. *)
From Coq Require Import ZArith List Lia Bool.
From EB Require Import Vm.Exec Proofs.Control.
Open Scope list_scope.
Open Scope Z_scope.

(* the gas pre-check of the execution loop passes *)
Definition gas_ok (limit g : Z) : Prop := g <= u64_max /\ g <= limit.

Lemma gas_check_false limit g : gas_ok limit g -> (u64_max <? g) || (limit <? g) = false.
Proof.
  intros [H1 H2]. destruct (Z.ltb_spec u64_max g); [lia|]. destruct (Z.ltb_spec limit g); [lia|]. reflexivity.
Qed.
Lemma gas_check_true limit g : ~ gas_ok limit g -> (u64_max <? g) || (limit <? g) = true.
Proof.
  intros H. destruct (Z.ltb_spec u64_max g); [reflexivity|]. destruct (Z.ltb_spec limit g); [reflexivity|].
  exfalso. apply H. split; lia.
Qed.

(* what exec does with the result of a step *)
Definition exec_continue (f : nat) (E : env) (oa : Z -> option op) (limit : Z)
    (v : vm) (o : op) (next : Z) (tr : list op) (v' : vm) (c : ctl) (ctr : list op) : X :=
  let tr' := ctr ++ o :: tr in
  match c with
  | CNext =>
      if usize_max <? pc v' + 1 then Panic "exec: self.pc += 1"
      else exec f E oa limit (set_pc v' (pc v' + 1)) next tr'
  | CPc p => exec f E oa limit (set_pc v' p) next tr'
  | CHalt => Ok (v', next, tr')
  | CComputeEnd =>
      if usize_max <? pc v' + 1 then Panic "exec: self.pc += 1"
      else Ok (set_pc v' (pc v' + 1), next, tr')
  | CComputeResult p g h =>
      let total := next + g in
      if (u64_max <? total) || (limit <? total) then Err (pc v, EOutOfGas, v)
      else let v'' := set_halt (set_pc v' p) (halt v' || h) in
           if halt v'' then Ok (v'', total, tr') else exec f E oa limit v'' total tr'
  end.

Definition exec_result (f : nat) (E : env) (oa : Z -> option op) (limit : Z)
    (v : vm) (o : op) (next : Z) (tr : list op) (r : R (vm * ctl * list op)) : X :=
  match r with
  | Err e => Err (pc v, e, v)
  | Panic s => Panic s
  | OutOfFuel => OutOfFuel
  | Ok (v', c, ctr) => exec_continue f E oa limit v o next tr v' c ctr
  end.

Lemma exec_unfold f E oa limit v spent tr :
  exec (S f) E oa limit v spent tr =
  match oa (pc v) with
  | None => Ok (v, spent, tr)
  | Some o =>
      let next := spent + e_cost E o in
      if (u64_max <? next) || (limit <? next) then Err (pc v, EOutOfGas, v)
      else exec_result f E oa limit v o next tr
             match o with
             | OCompute => compute_with (fun cv => exec f E oa (limit - next) cv 0 []) f (limit - next) v
             | _ => let* (v', c) := step_basic E o v in Ok (v', c, [])
             end
  end.
Proof.
  cbn [exec]. destruct (oa (pc v)) as [o|]; [|reflexivity]. cbv zeta.
  destruct ((u64_max <? spent + e_cost E o) || (limit <? spent + e_cost E o)); [reflexivity|].
  unfold exec_result, exec_continue. reflexivity.
Qed.

Lemma exec_zero E oa limit v spent tr : exec O E oa limit v spent tr = OutOfFuel.
Proof. reflexivity. Qed.

(* (i) the program counter left the program: the state is returned unchanged *)
Lemma exec_end_of_program f E oa limit v spent tr :
  oa (pc v) = None -> exec (S f) E oa limit v spent tr = Ok (v, spent, tr).
Proof. intros H. rewrite exec_unfold, H. reflexivity. Qed.

Lemma exec_out_of_gas f E oa limit v spent tr o :
  oa (pc v) = Some o -> ~ gas_ok limit (spent + e_cost E o) ->
  exec (S f) E oa limit v spent tr = Err (pc v, EOutOfGas, v).
Proof. intros H G. rewrite exec_unfold, H. cbv zeta. rewrite (gas_check_true _ _ G). reflexivity. Qed.

(* any operation other than Compute: the result of `step_basic` decides *)
Lemma exec_step_basic f E oa limit v spent tr o :
  oa (pc v) = Some o -> o <> OCompute -> gas_ok limit (spent + e_cost E o) ->
  exec (S f) E oa limit v spent tr =
  match step_basic E o v with
  | Ok (v', c) => exec_continue f E oa limit v o (spent + e_cost E o) tr v' c []
  | Err e => Err (pc v, e, v)
  | Panic s => Panic s
  | OutOfFuel => OutOfFuel
  end.
Proof.
  intros H Ho G. rewrite exec_unfold, H. cbv zeta. rewrite (gas_check_false _ _ G).
  destruct o; try (exfalso; apply Ho; reflexivity);
    (destruct (step_basic E _ v) as [[v' c]| | |]; reflexivity).
Qed.

Lemma exec_step_err f E oa limit v spent tr o e :
  oa (pc v) = Some o -> o <> OCompute -> gas_ok limit (spent + e_cost E o) ->
  step_basic E o v = Err e ->
  exec (S f) E oa limit v spent tr = Err (pc v, e, v).
Proof. intros H Ho G S. rewrite (exec_step_basic f E oa limit v spent tr o H Ho G), S. reflexivity. Qed.

Lemma exec_step_next f E oa limit v spent tr o v' :
  oa (pc v) = Some o -> o <> OCompute -> gas_ok limit (spent + e_cost E o) ->
  step_basic E o v = Ok (v', CNext) -> pc v' + 1 <= usize_max ->
  exec (S f) E oa limit v spent tr = exec f E oa limit (set_pc v' (pc v' + 1)) (spent + e_cost E o) (o :: tr).
Proof.
  intros H Ho G S P. rewrite (exec_step_basic f E oa limit v spent tr o H Ho G), S.
  unfold exec_continue. destruct (Z.ltb_spec usize_max (pc v' + 1)); [lia|]. reflexivity.
Qed.

Lemma exec_step_next_overflow f E oa limit v spent tr o v' :
  oa (pc v) = Some o -> o <> OCompute -> gas_ok limit (spent + e_cost E o) ->
  step_basic E o v = Ok (v', CNext) -> usize_max < pc v' + 1 ->
  exec (S f) E oa limit v spent tr = Panic "exec: self.pc += 1".
Proof.
  intros H Ho G S P. rewrite (exec_step_basic f E oa limit v spent tr o H Ho G), S.
  unfold exec_continue. destruct (Z.ltb_spec usize_max (pc v' + 1)); [reflexivity|lia].
Qed.

Lemma exec_step_jump f E oa limit v spent tr o v' p :
  oa (pc v) = Some o -> o <> OCompute -> gas_ok limit (spent + e_cost E o) ->
  step_basic E o v = Ok (v', CPc p) ->
  exec (S f) E oa limit v spent tr = exec f E oa limit (set_pc v' p) (spent + e_cost E o) (o :: tr).
Proof.
  intros H Ho G S. rewrite (exec_step_basic f E oa limit v spent tr o H Ho G), S. reflexivity.
Qed.

Lemma exec_step_halt f E oa limit v spent tr o v' :
  oa (pc v) = Some o -> o <> OCompute -> gas_ok limit (spent + e_cost E o) ->
  step_basic E o v = Ok (v', CHalt) ->
  exec (S f) E oa limit v spent tr = Ok (v', spent + e_cost E o, o :: tr).
Proof.
  intros H Ho G S. rewrite (exec_step_basic f E oa limit v spent tr o H Ho G), S. reflexivity.
Qed.

(* (ii) Halt, and HaltIf with condition 1: stop with the pc AT the halting operation *)
Lemma exec_halt f E oa limit v spent tr :
  oa (pc v) = Some OHalt -> gas_ok limit (spent + e_cost E OHalt) ->
  exec (S f) E oa limit v spent tr = Ok (v, spent + e_cost E OHalt, OHalt :: tr).
Proof. intros H G. apply exec_step_halt; try assumption; [discriminate|reflexivity]. Qed.

Lemma exec_halt_if_true f E oa limit v spent tr s :
  oa (pc v) = Some OHaltIf -> gas_ok limit (spent + e_cost E OHaltIf) -> stack v = 1 :: s ->
  exec (S f) E oa limit v spent tr = Ok (set_stack v s, spent + e_cost E OHaltIf, OHaltIf :: tr).
Proof.
  intros H G S. apply exec_step_halt; try assumption; [discriminate|].
  rewrite step_halt_if, S. reflexivity.
Qed.

Lemma exec_halt_if_false f E oa limit v spent tr s :
  oa (pc v) = Some OHaltIf -> gas_ok limit (spent + e_cost E OHaltIf) -> stack v = 0 :: s ->
  pc v + 1 <= usize_max ->
  exec (S f) E oa limit v spent tr =
  exec f E oa limit (set_pc (set_stack v s) (pc v + 1)) (spent + e_cost E OHaltIf) (OHaltIf :: tr).
Proof.
  intros H G S P.
  rewrite (exec_step_next f E oa limit v spent tr OHaltIf (set_stack v s)); try assumption;
    [reflexivity|discriminate|rewrite step_halt_if, S; reflexivity].
Qed.

(* (iii) ComputeEnd: stop with the pc after it *)
Lemma exec_compute_end f E oa limit v spent tr :
  oa (pc v) = Some OComputeEnd -> gas_ok limit (spent + e_cost E OComputeEnd) -> pc v + 1 <= usize_max ->
  exec (S f) E oa limit v spent tr =
  Ok (set_pc v (pc v + 1), spent + e_cost E OComputeEnd, OComputeEnd :: tr).
Proof.
  intros H G P. rewrite (exec_step_basic f E oa limit v spent tr OComputeEnd H) by (assumption || discriminate).
  cbn [step_basic]. unfold exec_continue. destruct (Z.ltb_spec usize_max (pc v + 1)); [lia|]. reflexivity.
Qed.

(* (iv) Compute *)
Lemma exec_compute f E oa limit v spent tr :
  oa (pc v) = Some OCompute -> gas_ok limit (spent + e_cost E OCompute) ->
  exec (S f) E oa limit v spent tr =
  exec_result f E oa limit v OCompute (spent + e_cost E OCompute) tr
    (compute_with (fun cv => exec f E oa (limit - (spent + e_cost E OCompute)) cv 0 []) f
                  (limit - (spent + e_cost E OCompute)) v).
Proof. intros H G. rewrite exec_unfold, H. cbv zeta. rewrite (gas_check_false _ _ G). reflexivity. Qed.

Lemma exec_compute_result f E oa limit v spent tr v' p g h ctr :
  oa (pc v) = Some OCompute -> gas_ok limit (spent + e_cost E OCompute) ->
  compute_with (fun cv => exec f E oa (limit - (spent + e_cost E OCompute)) cv 0 []) f
               (limit - (spent + e_cost E OCompute)) v = Ok (v', CComputeResult p g h, ctr) ->
  gas_ok limit (spent + e_cost E OCompute + g) ->
  exec (S f) E oa limit v spent tr =
  let v'' := set_halt (set_pc v' p) (halt v' || h) in
  if halt v' || h then Ok (v'', spent + e_cost E OCompute + g, ctr ++ OCompute :: tr)
  else exec f E oa limit v'' (spent + e_cost E OCompute + g) (ctr ++ OCompute :: tr).
Proof.
  intros H G C G2. rewrite (exec_compute f E oa limit v spent tr H G), C.
  unfold exec_result, exec_continue. cbv zeta. rewrite (gas_check_false _ _ G2). reflexivity.
Qed.

(* ---------- which operations produce which control-flow request ---------- *)
Lemma with_stack_inv v r v' c : with_stack v r = Ok (v', c) -> exists s, r = Ok s /\ v' = set_stack v s /\ c = CNext.
Proof. unfold with_stack. destruct r; cbn [bind]; try discriminate. intros H; inversion H. eauto. Qed.
Lemma with_stack_mem_inv v r v' c :
  with_stack_mem v r = Ok (v', c) -> exists s m, r = Ok (s, m) /\ v' = set_stack_mem v s m /\ c = CNext.
Proof.
  unfold with_stack_mem. destruct r as [[s m]| | |]; cbn [bind]; try discriminate. intros H; inversion H. eauto.
Qed.
Lemma with_stack_ctl_inv v r v' c :
  with_stack_ctl v r = Ok (v', c) -> exists s, r = Ok (s, c) /\ v' = set_stack v s.
Proof.
  unfold with_stack_ctl. destruct r as [[s c0]| | |]; cbn [bind]; try discriminate. intros H; inversion H. eauto.
Qed.

(* every step leaves pc, and unless it is Repeat/RepeatEnd the repeat stack, unchanged *)
Definition is_repeat_op (o : op) : bool := match o with ORepeat | ORepeatEnd => true | _ => false end.

Ltac step_inv H :=
  first
    [ apply with_stack_inv in H; destruct H as (?s & _ & ? & ?)
    | apply with_stack_mem_inv in H; destruct H as (?s & ?m & _ & ? & ?)
    | apply with_stack_ctl_inv in H; destruct H as (?s & _ & ?) ].

Lemma step_basic_frame E o v v' c : step_basic E o v = Ok (v', c) ->
  pc v' = pc v /\ parent_memory v' = parent_memory v /\ halt v' = halt v /\
  (is_repeat_op o = false -> rstack v' = rstack v).
Proof.
  intros H. destruct o; cbn [step_basic] in H;
    try (step_inv H; subst; cbn; auto; fail);
    try (inversion H; subst; auto; fail).
  - destruct (op_repeat (pc v) (stack v) (rstack v)) as [[s' r']| | |]; cbn [bind] in H; try discriminate.
    inversion H; subst. cbn. repeat split; auto. discriminate.
  - destruct (op_repeat_end (rstack v)) as [[r' j]| | |]; cbn [bind] in H; try discriminate.
    inversion H; subst. cbn. repeat split; auto. discriminate.
Qed.

(* the request is `next` except for the control operations *)
Lemma step_basic_ctl E o v v' c : step_basic E o v = Ok (v', c) ->
  match c with
  | CNext => True
  | CPc p => (o = OJumpIf /\ exists d s, stack v = 1 :: d :: s /\ d <> 0 /\ p = pc v + d /\ v' = set_stack v s)
             \/ (o = ORepeatEnd /\ exists sl r sl', rstack v = sl :: r /\ p = s_index sl /\
                                   v' = set_stack_rep v (stack v) (sl' :: r))
  | CHalt => (o = OHalt /\ v' = v) \/ (o = OHaltIf /\ exists s, stack v = 1 :: s /\ v' = set_stack v s)
  | CComputeEnd => o = OComputeEnd /\ v' = v
  | CComputeResult _ _ _ => False
  end.
Proof.
  intros H. destruct o; cbn [step_basic] in H;
    try (apply with_stack_inv in H; destruct H as (s & _ & _ & ->); exact I);
    try (apply with_stack_mem_inv in H; destruct H as (s & m & _ & _ & ->); exact I).
  - (* Repeat *)
    destruct (op_repeat (pc v) (stack v) (rstack v)) as [[s' r']| | |]; cbn [bind] in H; try discriminate.
    inversion H; subst. exact I.
  - (* RepeatEnd *)
    destruct (rstack v) as [|sl r] eqn:Rv; [discriminate|].
    destruct (op_repeat_end (sl :: r)) as [[r' j]| | |] eqn:RE; cbn [bind] in H; try discriminate.
    inversion H; subst. destruct j as [p|]; [|exact I].
    right. split; [reflexivity|].
    destruct (repeat_outer_untouched sl r _ RE) as [(sl' & Hres & _)|Hres]; inversion Hres; subst.
    exists sl, r, sl'. auto.
  - (* Halt *) inversion H; subst. left. auto.
  - (* HaltIf *)
    apply with_stack_ctl_inv in H. destruct H as (s & Hs & ->).
    apply halt_if_ok_inv in Hs. destruct Hs as (c0 & Hst & [[-> ->]|[-> ->]]); [exact I|].
    right. split; [reflexivity|]. exists s. auto.
  - (* JumpIf *)
    apply with_stack_ctl_inv in H. destruct H as (s & Hs & ->).
    unfold op_jump_if in Hs. destruct (stack v) as [|c0 [|d s0]]; try discriminate.
    rewrite pop2_cons2 in Hs. cbn [bind] in Hs.
    destruct (bool_of_word c0) as [[|]|] eqn:B; try discriminate.
    + apply bool_of_word_some in B. cbn [word_of_bool] in B. subst c0. cbv zeta in Hs.
      destruct (Z.eqb_spec (Z.abs d) 0) as [|Hd]; [discriminate|].
      destruct (Z.ltb_spec d 0).
      * destruct (pc v - Z.abs d <? 0); [discriminate|]. inversion Hs; subst.
        left. split; [reflexivity|]. exists d, s. repeat split; auto; lia.
      * destruct (usize_max <? pc v + Z.abs d); [discriminate|]. inversion Hs; subst.
        left. split; [reflexivity|]. exists d, s. repeat split; auto; lia.
    + inversion Hs; subst. exact I.
  - (* PanicIf *)
    apply with_stack_ctl_inv in H. destruct H as (s & Hs & ->).
    apply panic_if_ok_inv in Hs. destruct Hs as [_ ->]. exact I.
  - discriminate.
  - inversion H; subst. auto.
Qed.

Lemma compute_dec (o : op) : {o = OCompute} + {o <> OCompute}.
Proof. destruct o; try (right; discriminate). left; reflexivity. Qed.

(* ---------- when does exec stop successfully ---------- *)
(* exec (S f) returns Ok exactly in the cases (i)-(iv) or after a further step *)
Theorem exec_ends : forall f E oa limit v spent tr res,
  exec (S f) E oa limit v spent tr = Ok res <->
  (oa (pc v) = None /\ res = (v, spent, tr)) \/
  (exists o, oa (pc v) = Some o /\ gas_ok limit (spent + e_cost E o) /\
     let next := spent + e_cost E o in
     (   (* Halt or HaltIf with 1: pc stays at the halting op *)
         (o <> OCompute /\ exists v', step_basic E o v = Ok (v', CHalt) /\ res = (v', next, o :: tr))
      \/ (* ComputeEnd *)
         (o = OComputeEnd /\ pc v + 1 <= usize_max /\ res = (set_pc v (pc v + 1), next, o :: tr))
      \/ (* a step that continues at the next operation *)
         (o <> OCompute /\ exists v', step_basic E o v = Ok (v', CNext) /\ pc v + 1 <= usize_max /\
            exec f E oa limit (set_pc v' (pc v + 1)) next (o :: tr) = Ok res)
      \/ (* a step that jumps *)
         (o <> OCompute /\ exists v' p, step_basic E o v = Ok (v', CPc p) /\
            exec f E oa limit (set_pc v' p) next (o :: tr) = Ok res)
      \/ (* Compute *)
         (o = OCompute /\ exists v' p g h ctr,
            compute_with (fun cv => exec f E oa (limit - next) cv 0 []) f (limit - next) v
              = Ok (v', CComputeResult p g h, ctr) /\
            gas_ok limit (next + g) /\
            let v'' := set_halt (set_pc v' p) (halt v' || h) in
            if halt v' || h then res = (v'', next + g, ctr ++ o :: tr)
            else exec f E oa limit v'' (next + g) (ctr ++ o :: tr) = Ok res))).
Proof.
  intros f E oa limit v spent tr res. split.
  - intros H. rewrite exec_unfold in H. destruct (oa (pc v)) as [o|] eqn:Ho.
    2:{ left. inversion H. auto. }
    right. exists o. split; [reflexivity|]. cbv zeta in H.
    destruct ((u64_max <? spent + e_cost E o) || (limit <? spent + e_cost E o)) eqn:G; [discriminate|].
    assert (Gk : gas_ok limit (spent + e_cost E o)).
    { apply orb_false_iff in G. destruct G as [G1 G2]. apply Z.ltb_ge in G1, G2. split; assumption. }
    split; [exact Gk|]. cbv zeta.
    destruct (compute_dec o) as [->|Hoc].
    + (* Compute *)
      right; right; right; right. split; [reflexivity|].
      destruct (compute_with _ f _ v) as [[[v' c] ctr]| | |] eqn:C; cbn [exec_result] in H; try discriminate.
      (* compute_with only returns CComputeResult *)
      assert (Hc : exists p g h, c = CComputeResult p g h).
      { clear H. unfold compute_with in C.
        destruct (pop (stack v)) as [[br s0]| | |]; try discriminate.
        destruct (br <? 1); [discriminate|].
        destruct (max_compute_depth <=? zlen (parent_memory v)); [discriminate|].
        destruct (Z.of_nat f <? br); [discriminate|].
        match type of C with context [children_status ?rs] => destruct (children_status rs); try discriminate end;
        match type of C with context [join_children ?rs ?a] => destruct (join_children rs a) as [cs| | |]; try discriminate end;
        (destruct (sum_gas _ 0 cs) as [total|]; [|discriminate]);
        match type of C with (if ?b then _ else _) = _ => destruct b; [discriminate|] end;
        (destruct (mem_alloc _ (memory v)) as [m1| | |]; cbn [bind] in C; try discriminate);
        (destruct (store_children _ cs m1) as [m2| | |]; cbn [bind] in C; try discriminate);
        inversion C; eauto. }
      destruct Hc as (p & g & h & ->). exists v', p, g, h, ctr. split; [reflexivity|].
      unfold exec_continue in H. cbv zeta in H.
      destruct ((u64_max <? spent + e_cost E OCompute + g) || (limit <? spent + e_cost E OCompute + g)) eqn:G2;
        [discriminate|].
      split.
      { apply orb_false_iff in G2. destruct G2 as [G1 G2]. apply Z.ltb_ge in G1, G2. split; assumption. }
      cbn [halt set_halt] in H. destruct (halt v' || h); [inversion H; reflexivity|exact H].
    + assert (R : exec_result f E oa limit v o (spent + e_cost E o) tr
                    (match o with
                     | OCompute => compute_with (fun cv => exec f E oa (limit - (spent + e_cost E o)) cv 0 []) f
                                     (limit - (spent + e_cost E o)) v
                     | _ => let* (v', c) := step_basic E o v in Ok (v', c, [])
                     end) = Ok res) by exact H.
      assert (R2 : exists v' c, step_basic E o v = Ok (v', c) /\
                     exec_continue f E oa limit v o (spent + e_cost E o) tr v' c [] = Ok res).
      { clear H. destruct o; try (exfalso; apply Hoc; reflexivity);
          (destruct (step_basic E _ v) as [[v' c]| | |]; cbn [bind exec_result] in R; try discriminate;
           exists v', c; split; [reflexivity|exact R]). }
      destruct R2 as (v' & c & Sb & Hc).
      pose proof (step_basic_frame E o v v' c Sb) as (Hpc & _).
      pose proof (step_basic_ctl E o v v' c Sb) as Hctl.
      unfold exec_continue in Hc. cbn [app] in Hc. destruct c as [|p| | |p g h].
      * right; right; left. split; [exact Hoc|]. exists v'. split; [exact Sb|].
        destruct (Z.ltb_spec usize_max (pc v' + 1)); [discriminate|]. rewrite Hpc in *. split; [lia|exact Hc].
      * right; right; right; left. split; [exact Hoc|]. exists v', p. auto.
      * left. split; [exact Hoc|]. exists v'. split; [exact Sb|]. inversion Hc; reflexivity.
      * destruct Hctl as [-> ->]. right; left. split; [reflexivity|].
        destruct (Z.ltb_spec usize_max (pc v + 1)); [discriminate|]. split; [lia|]. inversion Hc; reflexivity.
      * contradiction.
  - intros [[Ho ->]|(o & Ho & G & H)].
    + apply exec_end_of_program; assumption.
    + cbv zeta in H. destruct H as [(Hoc & v' & Sb & ->)|[(-> & P & ->)|[(Hoc & v' & Sb & P & Hx)|[(Hoc & v' & p & Sb & Hx)|
                              (-> & v' & p & g & h & ctr & C & G2 & Hx)]]]].
      * apply exec_step_halt; assumption.
      * apply exec_compute_end; assumption.
      * pose proof (step_basic_frame E o v v' _ Sb) as (Hpc & _).
        rewrite (exec_step_next f E oa limit v spent tr o v') by (try assumption; lia).
        rewrite Hpc. exact Hx.
      * rewrite (exec_step_jump f E oa limit v spent tr o v' p) by assumption. exact Hx.
      * rewrite (exec_compute_result f E oa limit v spent tr v' p g h ctr Ho G C G2). cbv zeta in Hx |- *.
        destruct (halt v' || h); [rewrite Hx; reflexivity|exact Hx].
Qed.

(* ---------- evaluation results ---------- *)
Theorem eval_spec : forall fuel E ops limit v,
  (eval_ops fuel E ops limit v = EvTrue <->
     exists v' g tr, exec_ops fuel E ops limit v = Ok (v', g, tr) /\ exists s, stack v' = 1 :: s) /\
  (eval_ops fuel E ops limit v = EvFalse <->
     exists v' g tr, exec_ops fuel E ops limit v = Ok (v', g, tr) /\ exists s, stack v' = 0 :: s) /\
  (eval_ops fuel E ops limit v = EvInvalid <->
     exists v' g tr, exec_ops fuel E ops limit v = Ok (v', g, tr) /\
       (stack v' = [] \/ exists w s, stack v' = w :: s /\ w <> 0 /\ w <> 1)) /\
  (forall p e, eval_ops fuel E ops limit v = EvErr p e <-> exists v', exec_ops fuel E ops limit v = Err (p, e, v')) /\
  (eval_ops fuel E ops limit v = EvPanic <-> exists site, exec_ops fuel E ops limit v = Panic site) /\
  (eval_ops fuel E ops limit v = EvFuel <-> exec_ops fuel E ops limit v = OutOfFuel).
Proof.
  intros fuel E ops limit v. unfold eval_ops.
  destruct (exec_ops fuel E ops limit v) as [[[v' g] tr]|[[p0 e0] v0]|site|].
  - destruct (stack v') as [|w s] eqn:S.
    + repeat split; try discriminate; try (intros (? & ? & ? & ? & ? & ?); congruence);
        try (intros (? & ?); discriminate).
      intros _. exists v', g, tr. split; [reflexivity|]. left. exact S.
    + destruct (bool_of_word w) as [[|]|] eqn:B.
      * apply bool_of_word_some in B. cbn [word_of_bool] in B. subst w.
        repeat split; try discriminate; try (intros (? & ?); discriminate).
        -- intros _. exists v', g, tr. split; [reflexivity|]. exists s. exact S.
        -- intros (v1 & g1 & tr1 & Hx & s1 & Hs). inversion Hx; subst. rewrite S in Hs. discriminate.
        -- intros (v1 & g1 & tr1 & Hx & [Hs|(w1 & s1 & Hs & H0 & H1)]); inversion Hx; subst; rewrite S in Hs;
             [discriminate|]. inversion Hs; subst. contradiction.
      * apply bool_of_word_some in B. cbn [word_of_bool] in B. subst w.
        repeat split; try discriminate; try (intros (? & ?); discriminate).
        -- intros (v1 & g1 & tr1 & Hx & s1 & Hs). inversion Hx; subst. rewrite S in Hs. discriminate.
        -- intros _. exists v', g, tr. split; [reflexivity|]. exists s. exact S.
        -- intros (v1 & g1 & tr1 & Hx & [Hs|(w1 & s1 & Hs & H0 & H1)]); inversion Hx; subst; rewrite S in Hs;
             [discriminate|]. inversion Hs; subst. contradiction.
      * apply bool_of_word_none in B. destruct B as [B0 B1].
        repeat split; try discriminate; try (intros (? & ?); discriminate).
        -- intros (v1 & g1 & tr1 & Hx & s1 & Hs). inversion Hx; subst. rewrite S in Hs. inversion Hs; subst. contradiction.
        -- intros (v1 & g1 & tr1 & Hx & s1 & Hs). inversion Hx; subst. rewrite S in Hs. inversion Hs; subst. contradiction.
        -- intros _. exists v', g, tr. split; [reflexivity|]. right. exists w, s. auto.
  - repeat split; try discriminate; try (intros (? & ? & ? & ? & ?); discriminate);
      try (intros (? & ?); discriminate).
    + intros H. inversion H; subst. exists v0. reflexivity.
    + intros (v1 & H). inversion H; subst. reflexivity.
  - repeat split; try discriminate; try (intros (? & ? & ? & ? & ?); discriminate);
      try (intros (? & ?); discriminate).
    + intros _. exists site. reflexivity.
  - repeat split; try discriminate; try (intros (? & ? & ? & ? & ?); discriminate);
      try (intros (? & ?); discriminate).
Qed.
