(* The executable acyclicity test of the reference (Spec/GraphRef.v, via `depth`) agrees with the
   declarative `acyclic`; boolean forms of `valid`/`closed`; concrete examples of the level sort. *)
From Coq Require Import Arith List Lia Bool Permutation Sorted ZArith.
From EB Require Import Check.Graph Spec.GraphRef Proofs.KahnBase Proofs.Kahn.
Import ListNotations.
Local Open Scope nat_scope.
Local Open Scope list_scope.

Definition dstep (g : nat -> option nat) (acc : option nat) (u : nat) : option nat :=
  match acc, g u with Some a, Some d => Some (Nat.max a (S d)) | _, _ => None end.

Lemma dfold_none g l : fold_left (dstep g) l None = None.
Proof. induction l as [|u l IH]; [reflexivity|exact IH]. Qed.

Lemma dfold_some_inv g l : forall a r, fold_left (dstep g) l (Some a) = Some r ->
  a <= r /\ forall u, In u l -> exists d, g u = Some d /\ S d <= r.
Proof.
  induction l as [|x l IH]; intros a r; cbn [fold_left].
  - intros H. injection H as H. subst. split; [lia|intros u []].
  - unfold dstep at 2. destruct (g x) as [dx|] eqn:E; [|rewrite dfold_none; discriminate].
    intros H. destruct (IH _ _ H) as [H1 H2]. split; [lia|].
    intros u [Hu|Hu]; [subst u; exists dx; split; [exact E|lia]|apply H2; exact Hu].
Qed.

Lemma dfold_some_intro g l : (forall u, In u l -> exists d, g u = Some d) ->
  forall a, exists r, fold_left (dstep g) l (Some a) = Some r.
Proof.
  induction l as [|x l IH]; intros Hg a; cbn [fold_left]; [eauto|].
  destruct (Hg x (or_introl eq_refl)) as [dx E]. unfold dstep at 2. rewrite E.
  apply IH. intros u Hu. apply Hg. right. exact Hu.
Qed.

Lemma dfold_ext g g' l : (forall u d, In u l -> g u = Some d -> g' u = Some d) ->
  forall acc r, fold_left (dstep g) l acc = Some r -> fold_left (dstep g') l acc = Some r.
Proof.
  induction l as [|x l IH]; intros Hg acc r; cbn [fold_left]; [trivial|].
  destruct acc as [a|]; [|unfold dstep at 2; rewrite dfold_none; discriminate].
  unfold dstep at 2 4. destruct (g x) as [dx|] eqn:E; [|rewrite dfold_none; discriminate].
  rewrite (Hg x dx (or_introl eq_refl) E). apply IH. intros u d Hu. apply Hg. right. exact Hu.
Qed.

Section Ref.
  Variable p : predicate.
  Notation n := (length (p_nodes p)).

  Lemma depth_S f v : depth p (S f) v = fold_left (dstep (depth p f)) (parents_ref p v) (Some 0).
  Proof. reflexivity. Qed.

  Lemma depth_mono f : forall v d, depth p f v = Some d -> depth p (S f) v = Some d.
  Proof.
    induction f as [|f IH]; intros v d; [discriminate|].
    rewrite (depth_S (S f)), (depth_S f). apply dfold_ext. intros u du _. apply IH.
  Qed.

  Lemma acyclic_ref_true : acyclic_ref p = true <-> forall v, v < n -> exists d, depth p (S n) v = Some d.
  Proof.
    unfold acyclic_ref, n_nodes. rewrite forallb_forall. split.
    - intros H v Hv. specialize (H v). rewrite in_seq in H.
      destruct (depth p (S n) v) as [d|]; [eauto|]. discriminate H. lia.
    - intros H v Hv. apply in_seq in Hv. destruct (H v) as [d Hd]; [lia|]. rewrite Hd. reflexivity.
  Qed.

  Lemma acyclic_ref_sound : closed p -> acyclic_ref p = true -> acyclic p.
  Proof.
    intros Hcl H. rewrite acyclic_ref_true in H.
    exists (fun v => match depth p (S n) v with Some d => d | None => 0 end).
    intros u v He. assert (Hv : v < n) by (eapply Hcl; eauto). assert (Hu : u < n) by apply He.
    destruct (H v Hv) as [dv Hdv]. rewrite Hdv. rewrite depth_S in Hdv.
    destruct (dfold_some_inv _ _ _ _ Hdv) as [_ Hall].
    destruct (Hall u (proj2 (parents_ref_in p u v) He)) as [du [Hdu Hle]].
    rewrite (depth_mono _ _ _ Hdu). lia.
  Qed.

  Lemma depth_levels levels : levels_ok p (seq 0 n) levels ->
    forall k v, In v (concat levels) -> level_of levels v < k -> exists d, depth p k v = Some d.
  Proof.
    intros Hok. induction k as [|k IH]; intros v Hv Hlt; [lia|].
    rewrite depth_S. apply dfold_some_intro. intros u Hu. apply parents_ref_in in Hu.
    assert (Hsrc : forall a b, cnt p a b > 0 -> In a (seq 0 n)).
    { intros a b Hc. apply edge_cnt in Hc. apply in_seq. destruct Hc as [Hc _]. lia. }
    assert (Hr := levels_ok_rank p _ _ Hok Hsrc u v (proj1 (edge_cnt p u v) Hu)).
    apply IH; [|lia]. apply (levels_ok_in p _ _ Hok). apply in_seq. destruct Hu as [Hu _]. lia.
  Qed.

  Lemma acyclic_ref_complete : valid p -> acyclic p -> acyclic_ref p = true.
  Proof.
    intros Hv Hac. destruct (create_parent_map_ok p Hv) as [pm Hpm].
    destruct (proj2 (kahn_ok_iff_acyclic p pm Hpm) Hac) as [levels Hl].
    assert (Hok := sort_levels_ok p pm levels Hpm Hl).
    destruct (kahn_levels p pm levels Hpm Hl) as [Hperm [_ [Hin _]]].
    apply acyclic_ref_true. intros v Hvn. apply (depth_levels levels Hok); [apply Hin; exact Hvn|].
    assert (H1 := level_of_lt levels v (proj2 (Hin v) Hvn)).
    assert (H2 := levels_ok_length p _ _ Hok).
    apply Permutation_length in Hperm. rewrite seq_length in Hperm. lia.
  Qed.

  Lemma acyclic_ref_iff : valid p -> closed p -> (acyclic_ref p = true <-> acyclic p).
  Proof.
    intros Hv Hcl. split; [apply acyclic_ref_sound; exact Hcl|apply acyclic_ref_complete; exact Hv].
  Qed.

  (* boolean forms of the hypotheses *)
  Lemma edges_valid_iff : edges_valid p = true <-> valid p.
  Proof.
    unfold edges_valid, valid, n_nodes. rewrite forallb_forall. split.
    - intros H ix Hix. specialize (H ix). rewrite in_seq in H.
      destruct (children p ix); [discriminate|]. discriminate H. lia.
    - intros H ix Hix. apply in_seq in Hix. specialize (H ix).
      destruct (children p ix); [reflexivity|]. exfalso. apply H; [lia|reflexivity].
  Qed.

  Definition closed_b : bool :=
    forallb (fun u => forallb (fun v => v <? n) (kids p u)) (seq 0 n).

  Lemma closed_b_iff : closed_b = true <-> closed p.
  Proof.
    unfold closed_b, closed. rewrite forallb_forall. split.
    - intros H u v [Hu [cs [Hc Hin]]]. specialize (H u). rewrite in_seq in H.
      rewrite forallb_forall in H. apply Nat.ltb_lt. apply H; [lia|].
      rewrite (kids_some p u cs Hc). exact Hin.
    - intros H u Hu. apply in_seq in Hu. apply forallb_forall. intros v Hv. apply Nat.ltb_lt.
      apply (H u v). split; [lia|]. unfold kids in Hv.
      destruct (children p u) as [cs|]; [eauto|destruct Hv].
  Qed.
End Ref.

Definition sort_of (p : predicate) : outcome gerr (list (list nat)) :=
  let* pm := create_parent_map p in parallel_topo_sort p pm.

Lemma kahn_ok_iff_acyclic_closed p pm : valid p -> closed p -> create_parent_map p = Ok pm ->
  ((exists levels, parallel_topo_sort p pm = Ok levels) <-> acyclic p).
Proof. intros _ _. apply kahn_ok_iff_acyclic. Qed.

Lemma graph_ok_iff_sort_ok p : closed p -> (graph_ok p = true <-> exists levels, sort_of p = Ok levels).
Proof.
  intros Hcl. unfold graph_ok, sort_of. rewrite andb_true_iff. split.
  - intros [Hv Hac]. apply edges_valid_iff in Hv. destruct (create_parent_map_ok p Hv) as [pm Hpm].
    rewrite Hpm. cbn [bind]. apply (kahn_ok_iff_acyclic p pm Hpm). apply acyclic_ref_sound; assumption.
  - intros [levels H]. apply bind_ok in H. destruct H as [pm [Hpm Hs]].
    assert (Hv := create_parent_map_valid p pm Hpm). split; [apply edges_valid_iff; exact Hv|].
    apply acyclic_ref_complete; [exact Hv|]. apply (kahn_ok_iff_acyclic p pm Hpm). eauto.
Qed.

(* ---- examples ---- *)
Definition ex_addr : list Z := repeat 0%Z 32.
Definition ex_nd (s : Z) : node := Build_node s ex_addr.

(* diamond 0 -> {1,2} -> 3 *)
Definition ex_diamond : predicate :=
  Build_predicate [ex_nd 0; ex_nd 2; ex_nd 3; ex_nd 65535] [1; 2; 3; 3]%Z.
(* chain numbered against the index order: 2 -> 1 -> 0 *)
Definition ex_chain : predicate :=
  Build_predicate [ex_nd 65535; ex_nd 0; ex_nd 1] [0; 1]%Z.
(* double edge 0 => 1 *)
Definition ex_multi : predicate := Build_predicate [ex_nd 0; ex_nd 65535] [1; 1]%Z.
(* 0 -> 1 -> 0 *)
Definition ex_cycle2 : predicate := Build_predicate [ex_nd 0; ex_nd 1] [1; 0]%Z.
(* 0 -> 0 *)
Definition ex_self : predicate := Build_predicate [ex_nd 0] [0]%Z.
(* a root in front of a 2-cycle: 0 -> 1 <-> 2 ; the first level is produced, then the cycle is found *)
Definition ex_late_cycle : predicate := Build_predicate [ex_nd 0; ex_nd 1; ex_nd 2] [1; 2; 1]%Z.
(* edge ranges leaving the edge list: nodes 1 and 2 are invalid, node 1 (the first) is reported *)
Definition ex_bad_range : predicate := Build_predicate [ex_nd 0; ex_nd 1; ex_nd 5; ex_nd 65535] [1; 2]%Z.
(* dangling target 7 *)
Definition ex_dangling : predicate := Build_predicate [ex_nd 0; ex_nd 65535] [1; 7]%Z.

Lemma ex_diamond_sort :
  edges_valid ex_diamond = true /\ closed_b ex_diamond = true /\
  map (children ex_diamond) [0; 1; 2; 3] = [Some [1; 2]; Some [3]; Some [3]; Some []] /\
  (exists pm, create_parent_map ex_diamond = Ok pm /\ map (parents_of pm) [0; 1; 2; 3] = [[]; [0]; [0]; [1; 2]]) /\
  sort_of ex_diamond = Ok [[0]; [1; 2]; [3]] /\ acyclic_ref ex_diamond = true.
Proof. vm_compute. repeat split. eexists. split; reflexivity. Qed.

Lemma ex_chain_sort :
  edges_valid ex_chain = true /\ closed_b ex_chain = true /\
  map (children ex_chain) [0; 1; 2] = [Some []; Some [0]; Some [1]] /\
  sort_of ex_chain = Ok [[2]; [1]; [0]] /\ acyclic_ref ex_chain = true.
Proof. vm_compute. repeat split. Qed.

Lemma ex_multi_sort :
  edges_valid ex_multi = true /\ closed_b ex_multi = true /\
  (exists pm, create_parent_map ex_multi = Ok pm /\ parents_of pm 1 = [0; 0]) /\
  sort_of ex_multi = Ok [[0]; [1]].
Proof. vm_compute. repeat split. eexists. split; reflexivity. Qed.

Lemma ex_cycle2_rejected :
  edges_valid ex_cycle2 = true /\ closed_b ex_cycle2 = true /\
  sort_of ex_cycle2 = Err (InvalidNodeEdges 0) /\ acyclic_ref ex_cycle2 = false.
Proof. vm_compute. repeat split. Qed.

Lemma ex_self_rejected :
  edges_valid ex_self = true /\ closed_b ex_self = true /\
  sort_of ex_self = Err (InvalidNodeEdges 0) /\ acyclic_ref ex_self = false.
Proof. vm_compute. repeat split. Qed.

Lemma ex_late_cycle_rejected :
  edges_valid ex_late_cycle = true /\ closed_b ex_late_cycle = true /\
  sort_of ex_late_cycle = Err (InvalidNodeEdges 0) /\ acyclic_ref ex_late_cycle = false.
Proof. vm_compute. repeat split. Qed.

Lemma ex_bad_range_rejected :
  edges_valid ex_bad_range = false /\
  map (children ex_bad_range) [0; 1; 2; 3] = [Some [1]; None; None; Some []] /\
  sort_of ex_bad_range = Err (InvalidNodeEdges 1).
Proof. vm_compute. repeat split. Qed.

Lemma ex_dangling_sorted :
  edges_valid ex_dangling = true /\ closed_b ex_dangling = false /\
  sort_of ex_dangling = Ok [[0]; [1]].
Proof. vm_compute. repeat split. Qed.
