(* The level sort (Kahn's algorithm) of the predicate-graph checker: invariant of the in-degree map,
   shape of the produced levels, and success exactly on acyclic graphs (part of C01). *)
From Coq Require Import Arith List Lia Bool Permutation Sorted.
From EB Require Import Check.Graph Spec.GraphRef Proofs.KahnBase.
Import ListNotations.
Local Open Scope nat_scope.
Local Open Scope list_scope.

Lemma NoDup_app_disj {A} (l l' : list A) :
  NoDup l -> NoDup l' -> (forall x, In x l -> ~ In x l') -> NoDup (l ++ l').
Proof.
  induction l as [|a l IH]; intros H1 H2 Hd; cbn [app]; [exact H2|].
  inversion H1 as [|a' l0 Hnotin Hnd]; subst. constructor.
  - rewrite in_app_iff. intros [H|H]; [contradiction|]. apply (Hd a); [left; reflexivity|exact H].
  - apply IH; [exact Hnd|exact H2|]. intros x Hx. apply Hd. right. exact Hx.
Qed.

Lemma asc_StronglySorted l : asc l -> StronglySorted lt l.
Proof.
  induction l as [|x r IH]; cbn [asc]; intros H; constructor.
  - apply IH, H.
  - apply Forall_forall. apply H.
Qed.

Definition fnp := find_nodes_with_no_parents.

Lemma fnp_cons k d r : fnp ((k, d) :: r) = if d =? 0 then k :: fnp r else fnp r.
Proof. unfold fnp, find_nodes_with_no_parents. cbn [filter snd]. destruct (d =? 0); reflexivity. Qed.

Lemma fnp_incl m : incl (fnp m) (akeys m).
Proof.
  induction m as [|[k d] r IH]; [apply incl_refl|]. rewrite fnp_cons, akeys_cons.
  destruct (d =? 0).
  - intros x [Hx|Hx]; [left; exact Hx|right; apply IH; exact Hx].
  - apply incl_tl. exact IH.
Qed.

Lemma fnp_asc m : asc (akeys m) -> asc (fnp m).
Proof.
  induction m as [|[k d] r IH]; [trivial|]. rewrite fnp_cons, akeys_cons. cbn [asc]. intros [H1 H2].
  destruct (d =? 0); [|apply IH; exact H2]. cbn [asc]. split; [|apply IH; exact H2].
  intros y Hy. apply H1. apply fnp_incl. exact Hy.
Qed.

Lemma fnp_aget m x : NoDup (akeys m) -> In x (fnp m) -> aget x m = Some 0.
Proof.
  induction m as [|[k d] r IH]; [intros _ []|]. rewrite fnp_cons, akeys_cons. intros Hnd.
  inversion Hnd as [|k' r' Hnotin Hnd']; subst. cbn [aget].
  assert (Htail : In x (fnp r) -> (if x =? k then Some d else aget x r) = Some 0).
  { intros Hx. destruct (Nat.eqb_spec x k) as [E|NE]; [|apply IH; assumption].
    subst x. exfalso. apply Hnotin. apply fnp_incl. exact Hx. }
  destruct (Nat.eqb_spec d 0) as [E|NE]; [|exact Htail].
  intros [Hx|Hx]; [|apply Htail; exact Hx]. subst. rewrite Nat.eqb_refl. reflexivity.
Qed.

Lemma aget_fnp m x : aget x m = Some 0 -> In x (fnp m).
Proof.
  induction m as [|[k d] r IH]; cbn [aget]; [discriminate|]. rewrite fnp_cons.
  destruct (Nat.eqb_spec x k) as [E|NE].
  - intros H. injection H as H. subst. cbn. left. reflexivity.
  - intros H. destruct (d =? 0); [right|]; apply IH; exact H.
Qed.

Section Kahn.
  Variable p : predicate.
  Notation n := (length (p_nodes p)).
  Notation cnt := (cnt p).

  (* in-degree of v counting only edges from the nodes of K (with multiplicity) *)
  Definition indeg (K : list nat) (v : nat) : nat := list_sum (map (fun u => cnt u v) K).

  Lemma indeg_cons k K v : indeg (k :: K) v = cnt k v + indeg K v.
  Proof. reflexivity. Qed.

  Lemma indeg_rem1 u K v : In u K -> indeg K v = cnt u v + indeg (rem1 u K) v.
  Proof.
    induction K as [|k r IH]; [intros []|]. cbn [rem1 In]. intros Hin.
    destruct (Nat.eqb_spec u k) as [E|NE]; [subst; apply indeg_cons|].
    destruct Hin as [Hin|Hin]; [congruence|]. rewrite !indeg_cons, (IH Hin). lia.
  Qed.

  Lemma indeg_zero K v u : indeg K v = 0 -> In u K -> cnt u v = 0.
  Proof.
    induction K as [|k r IH]; [intros _ []|]. rewrite indeg_cons. intros H [Hu|Hu]; [subst; lia|].
    apply IH; [lia|exact Hu].
  Qed.

  Lemma indeg_zero_intro K v : (forall u, In u K -> cnt u v = 0) -> indeg K v = 0.
  Proof.
    induction K as [|k r IH]; [reflexivity|]. intros H. rewrite indeg_cons, IH.
    - rewrite (H k); [reflexivity|left; reflexivity].
    - intros u Hu. apply H. right. exact Hu.
  Qed.

  Lemma length_parents_ref_gen v l :
    length (flat_map (fun u => repeat u (cnt u v)) l) = indeg l v.
  Proof.
    induction l as [|k r IH]; [reflexivity|]. cbn [flat_map]. rewrite app_length, repeat_length, IH.
    symmetry. apply indeg_cons.
  Qed.

  Lemma length_parents_ref v : length (parents_ref p v) = indeg (seq 0 n) v.
  Proof. apply length_parents_ref_gen. Qed.

  (* ---- the invariant of the in-degree map ---- *)
  Definition Inv (m : list (nat * nat)) : Prop :=
    asc (akeys m) /\ (forall k, In k (akeys m) -> k < n) /\
    forall v d, aget v m = Some d -> d = indeg (akeys m) v.

  Lemma akeys_in_degrees k pm : akeys (in_degrees k pm) = seq 0 k.
  Proof.
    unfold in_degrees, akeys. rewrite map_map. cbn [fst]. apply map_id.
  Qed.

  Lemma aget_map_some (f : nat -> nat) v d l : aget v (map (fun ix => (ix, f ix)) l) = Some d -> d = f v.
  Proof.
    induction l as [|k r IH]; cbn [map aget]; [discriminate|].
    destruct (Nat.eqb_spec v k) as [E|NE]; [|exact IH]. intros H. injection H as H. subst. reflexivity.
  Qed.

  Lemma Inv_in_degrees pm : create_parent_map p = Ok pm -> Inv (in_degrees n pm).
  Proof.
    intros Hpm. unfold Inv. rewrite akeys_in_degrees. split; [apply asc_seq|]. split.
    - intros k Hk. apply in_seq in Hk. lia.
    - intros v d H. apply aget_map_some in H. subst d.
      rewrite (parents_of_spec p pm Hpm v). apply length_parents_ref.
  Qed.

  (* removing ANY present node (after decrementing its children) keeps the invariant *)
  Lemma Inv_step m u : Inv m -> In u (akeys m) -> Inv (aremove u (reduce_in_degrees m (kids p u))).
  Proof.
    intros [Hasc [Hlt Hdeg]] Hu. unfold Inv. rewrite akeys_aremove, akeys_reduce.
    split; [apply asc_rem1; exact Hasc|]. split.
    - intros k Hk. apply Hlt. apply (rem1_incl u). exact Hk.
    - intros v d H. rewrite aget_aremove in H by (rewrite akeys_reduce; apply asc_NoDup; exact Hasc).
      destruct (v =? u); [discriminate|]. rewrite aget_reduce in H.
      destruct (aget v m) as [d0|] eqn:E; [|discriminate]. cbn [option_map] in H. injection H as H.
      specialize (Hdeg _ _ E). rewrite (indeg_rem1 u _ v Hu) in Hdeg. fold (cnt u v) in H. lia.
  Qed.

  Section Valid.
    Hypothesis Hvalid : valid p.

    Lemma process_level_spec L : forall m, Inv m -> NoDup L -> incl L (akeys m) ->
      exists m', process_level p L m = Ok m' /\ Inv m' /\
                 (forall k, In k (akeys m') <-> In k (akeys m) /\ ~ In k L) /\
                 length m' + length L = length m.
    Proof.
      induction L as [|u L IH]; intros m HI Hnd Hincl; cbn [process_level].
      - exists m. split; [reflexivity|]. split; [exact HI|]. split; [|cbn; lia]. cbn [In]. tauto.
      - assert (Hu : In u (akeys m)) by (apply Hincl; left; reflexivity).
        assert (Hun : u < n) by (apply HI; exact Hu).
        destruct (children p u) as [cs|] eqn:Ec; [|exfalso; exact (Hvalid u Hun Ec)].
        rewrite <- (kids_some p u cs Ec).
        inversion Hnd as [|u' L' Hnotin Hnd']; subst.
        assert (HI1 := Inv_step m u HI Hu).
        set (m1 := aremove u (reduce_in_degrees m (kids p u))) in *.
        assert (Hk1 : forall k, In k (akeys m1) <-> In k (akeys m) /\ k <> u).
        { intros k. unfold m1. rewrite akeys_aremove, akeys_reduce. apply in_rem1. apply asc_NoDup, HI. }
        destruct (IH m1 HI1 Hnd') as [m' [H1 [H2 [H3 H4]]]].
        { intros x Hx. apply Hk1. split; [apply Hincl; right; exact Hx|]. intros E. subst x. contradiction. }
        exists m'. split; [exact H1|]. split; [exact H2|]. split.
        + intros k. rewrite H3, Hk1. cbn [In]. split.
          * intros [[Ha Hb] Hc]. split; [exact Ha|]. intros [E|E]; [congruence|contradiction].
          * intros [Ha Hb]. split; [split; [exact Ha|]|]; intros E; apply Hb; [left; congruence|right; exact E].
        + cbn [length]. assert (Hl : S (length m1) = length m).
          { unfold m1. rewrite (length_aremove u) by (rewrite akeys_reduce; exact Hu). apply length_reduce. }
          lia.
    Qed.

    Lemma process_fnp m : Inv m ->
      exists m', process_level p (fnp m) m = Ok m' /\ Inv m' /\
                 (forall k, In k (akeys m') <-> In k (akeys m) /\ ~ In k (fnp m)) /\
                 length m' + length (fnp m) = length m.
    Proof.
      intros HI. apply process_level_spec; [exact HI| |apply fnp_incl].
      apply asc_NoDup, fnp_asc, HI.
    Qed.
  End Valid.

  (* ---- declarative description of a level decomposition of the node set K ---- *)
  Inductive levels_ok : list nat -> list (list nat) -> Prop :=
  | lo_nil : levels_ok [] []
  | lo_cons K K' L rest :
      L <> [] -> asc L -> incl L K ->
      (forall u v, In u K -> In v L -> cnt u v = 0) ->
      (forall k, In k K' <-> In k K /\ ~ In k L) ->
      levels_ok K' rest -> levels_ok K (L :: rest).

  Lemma levels_ok_in K levels : levels_ok K levels -> forall v, In v (concat levels) <-> In v K.
  Proof.
    induction 1 as [|K K' L rest Hne Hasc Hincl Hno HK' Hrest IH]; intros v; [reflexivity|].
    cbn [concat]. rewrite in_app_iff, IH, HK'.
    destruct (in_dec Nat.eq_dec v L) as [Hin|Hnin]; [|tauto].
    split; [intros _; apply Hincl; exact Hin|intros _; left; exact Hin].
  Qed.

  Lemma levels_ok_nodup K levels : levels_ok K levels -> NoDup (concat levels).
  Proof.
    induction 1 as [|K K' L rest Hne Hasc Hincl Hno HK' Hrest IH]; [constructor|].
    cbn [concat]. apply NoDup_app_disj; [apply asc_NoDup; exact Hasc|exact IH|].
    intros x Hx Hx'. apply (levels_ok_in _ _ Hrest) in Hx'. apply HK' in Hx'. tauto.
  Qed.

  Lemma levels_ok_each K levels : levels_ok K levels -> forall L, In L levels -> L <> [] /\ asc L.
  Proof.
    induction 1 as [|K K' L rest Hne Hasc Hincl Hno HK' Hrest IH]; intros L0; [intros []|].
    intros [E|Hin]; [subst; split; assumption|apply IH; exact Hin].
  Qed.

  Lemma nth_in_concat {A} (ls : list (list A)) i L x : nth_error ls i = Some L -> In x L -> In x (concat ls).
  Proof.
    intros H Hx. apply in_concat. exists L. split; [eapply nth_error_In; eauto|exact Hx].
  Qed.

  Lemma levels_ok_edges K levels : levels_ok K levels ->
    forall u v i j Li Lj, cnt u v > 0 ->
      nth_error levels i = Some Li -> In u Li -> nth_error levels j = Some Lj -> In v Lj -> i < j.
  Proof.
    induction 1 as [|K K' L rest Hne Hasc Hincl Hno HK' Hrest IH]; intros u v i j Li Lj Hc Hi Hu Hj Hv.
    - destruct i; discriminate.
    - assert (HuK : In u K).
      { assert (Hall : levels_ok K (L :: rest)) by (econstructor; eauto).
        apply (proj1 (levels_ok_in K (L :: rest) Hall u)). exact (nth_in_concat _ _ _ _ Hi Hu). }
      destruct j as [|j].
      + cbn [nth_error] in Hj. injection Hj as Hj. subst Lj. specialize (Hno u v HuK Hv). lia.
      + destruct i as [|i]; [lia|]. cbn [nth_error] in Hi, Hj.
        specialize (IH u v i j Li Lj Hc Hi Hu Hj Hv). lia.
  Qed.

  Lemma levels_ok_length K levels : levels_ok K levels -> length levels <= length (concat levels).
  Proof.
    induction 1 as [|K K' L rest Hne Hasc Hincl Hno HK' Hrest IH]; [cbn; lia|].
    cbn [concat length]. rewrite app_length. destruct L; [congruence|cbn [length]; lia].
  Qed.

  (* ---- topo_go ---- *)
  Lemma topo_go_nil f acc : topo_go f p [] acc = Ok (rev acc).
  Proof. destruct f; reflexivity. Qed.

  Lemma topo_go_O m acc : m <> [] -> topo_go 0 p m acc = OutOfFuel.
  Proof. destruct m; [congruence|reflexivity]. Qed.

  Lemma topo_go_S f m acc : m <> [] ->
    topo_go (S f) p m acc =
    match fnp m with
    | [] => Err (InvalidNodeEdges 0)
    | _ => let* m' := process_level p (fnp m) m in topo_go f p m' (fnp m :: acc)
    end.
  Proof. destruct m; [congruence|reflexivity]. Qed.

  Section Valid2.
    Hypothesis Hvalid : valid p.

    Lemma topo_go_levels f : forall m acc levels, Inv m -> topo_go f p m acc = Ok levels ->
      exists new, levels = rev acc ++ new /\ levels_ok (akeys m) new.
    Proof.
      induction f as [|f IH]; intros m acc levels HI H.
      - destruct m as [|e r]; [|discriminate]. cbn in H. injection H as H. subst levels.
        exists []. split; [rewrite app_nil_r; reflexivity|constructor].
      - destruct m as [|e r].
        + cbn in H. injection H as H. subst levels.
          exists []. split; [rewrite app_nil_r; reflexivity|constructor].
        + set (m := e :: r) in *. rewrite topo_go_S in H by (unfold m; congruence).
          destruct (process_fnp Hvalid m HI) as [m' [Hp [HI' [Hk Hl]]]].
          destruct (fnp m) as [|x L] eqn:EL; [discriminate|]. rewrite Hp in H. cbn [bind] in H.
          destruct (IH _ _ _ HI' H) as [new [Hnew Hok]].
          exists ((x :: L) :: new). split.
          * rewrite Hnew. cbn [rev]. rewrite <- app_assoc. reflexivity.
          * apply lo_cons with (K' := akeys m'); [congruence| | | |exact Hk|exact Hok].
            -- rewrite <- EL. apply fnp_asc, HI.
            -- rewrite <- EL. apply fnp_incl.
            -- intros u v Hu Hv. rewrite <- EL in Hv.
               apply fnp_aget in Hv; [|apply asc_NoDup, HI].
               destruct HI as [_ [_ Hd]]. apply Hd in Hv. symmetry in Hv.
               eapply indeg_zero; eauto.
    Qed.

    (* progress: with a rank function some remaining node has in-degree 0 *)
    Lemma exists_min (rank : nat -> nat) (l : list nat) : l <> [] ->
      exists x, In x l /\ forall y, In y l -> rank x <= rank y.
    Proof.
      induction l as [|a l IH]; [congruence|]. intros _. destruct l as [|b l].
      - exists a. split; [left; reflexivity|]. intros y [E|[]]. subst. lia.
      - destruct IH as [x [Hx Hmin]]; [congruence|].
        destruct (le_lt_dec (rank a) (rank x)) as [Hle|Hlt].
        + exists a. split; [left; reflexivity|]. intros y [E|Hy]; [subst; lia|].
          specialize (Hmin y Hy). lia.
        + exists x. split; [right; exact Hx|]. intros y [E|Hy]; [subst; lia|]. apply Hmin. exact Hy.
    Qed.

    Lemma fnp_progress m : acyclic p -> Inv m -> m <> [] -> fnp m <> [].
    Proof.
      intros [rank Hrank] HI Hne.
      destruct (exists_min rank (akeys m)) as [x [Hx Hmin]].
      { destruct m; [congruence|discriminate]. }
      destruct (in_aget _ _ Hx) as [d Hd].
      assert (d = 0).
      { destruct HI as [_ [_ Hdeg]]. rewrite (Hdeg _ _ Hd). apply indeg_zero_intro. intros u Hu.
        destruct (cnt u x) eqn:Ec; [reflexivity|]. exfalso.
        assert (He : edge p u x) by (apply edge_cnt; fold (cnt u x); lia).
        specialize (Hrank _ _ He). specialize (Hmin _ Hu). lia. }
      subst d. apply aget_fnp in Hd. intros E. rewrite E in Hd. destruct Hd.
    Qed.

    (* the fuel suffices, no panic, and the only error is the cycle error *)
    Lemma topo_go_total f : forall m acc, Inv m -> length m <= f ->
      (exists levels, topo_go f p m acc = Ok levels) \/ topo_go f p m acc = Err (InvalidNodeEdges 0).
    Proof.
      induction f as [|f IH]; intros m acc HI Hlen.
      - destruct m; [|cbn in Hlen; lia]. left. cbn. eauto.
      - destruct m as [|e r]; [left; cbn; eauto|].
        set (m := e :: r) in *. rewrite topo_go_S by (unfold m; congruence).
        destruct (process_fnp Hvalid m HI) as [m' [Hp [HI' [Hk Hl]]]].
        destruct (fnp m) as [|x L] eqn:EL; [right; reflexivity|]. rewrite Hp. cbn [bind].
        apply IH; [exact HI'|]. cbn [length] in Hl. lia.
    Qed.

    Lemma topo_go_acyclic f : acyclic p -> forall m acc, Inv m -> length m <= f ->
      exists levels, topo_go f p m acc = Ok levels.
    Proof.
      intros Hac. induction f as [|f IH]; intros m acc HI Hlen.
      - destruct m; [|cbn in Hlen; lia]. cbn. eauto.
      - destruct m as [|e r]; [cbn; eauto|].
        set (m := e :: r) in *. rewrite topo_go_S by (unfold m; congruence).
        destruct (process_fnp Hvalid m HI) as [m' [Hp [HI' [Hk Hl]]]].
        assert (Hpr : fnp m <> []) by (apply fnp_progress; [exact Hac|exact HI|unfold m; congruence]).
        destruct (fnp m) as [|x L] eqn:EL; [congruence|]. rewrite Hp. cbn [bind].
        apply IH; [exact HI'|]. cbn [length] in Hl. lia.
    Qed.
  End Valid2.

  (* ---- rank function from the levels ---- *)
  Fixpoint level_of (levels : list (list nat)) (u : nat) : nat :=
    match levels with
    | [] => 0
    | L :: r => if memb u L then 0 else S (level_of r u)
    end.

  Lemma memb_in x l : memb x l = true <-> In x l.
  Proof.
    unfold memb. rewrite existsb_exists. split.
    - intros [y [Hy E]]. apply Nat.eqb_eq in E. subst. exact Hy.
    - intros H. exists x. split; [exact H|apply Nat.eqb_refl].
  Qed.

  Lemma level_of_in levels u : In u (concat levels) ->
    exists L, nth_error levels (level_of levels u) = Some L /\ In u L.
  Proof.
    induction levels as [|L r IH]; [intros []|]. cbn [concat level_of]. rewrite in_app_iff.
    destruct (memb u L) eqn:E.
    - intros _. exists L. split; [reflexivity|apply memb_in; exact E].
    - intros [H|H]; [apply memb_in in H; congruence|]. cbn [nth_error]. apply IH. exact H.
  Qed.

  Lemma level_of_notin levels u : ~ In u (concat levels) -> level_of levels u = length levels.
  Proof.
    induction levels as [|L r IH]; [reflexivity|]. cbn [concat level_of length]. rewrite in_app_iff.
    intros H. destruct (memb u L) eqn:E; [apply memb_in in E; tauto|]. rewrite IH; tauto.
  Qed.

  Lemma level_of_lt levels u : In u (concat levels) -> level_of levels u < length levels.
  Proof.
    intros H. destruct (level_of_in levels u H) as [L [HL _]].
    apply nth_error_Some. congruence.
  Qed.

  Lemma levels_ok_rank K levels : levels_ok K levels -> (forall u v, cnt u v > 0 -> In u K) ->
    forall u v, cnt u v > 0 -> level_of levels u < level_of levels v.
  Proof.
    intros Hok Hsrc u v Hc.
    assert (Hu : In u (concat levels)) by (apply (levels_ok_in _ _ Hok); eapply Hsrc; eauto).
    destruct (level_of_in levels u Hu) as [Li [Hi HuL]].
    destruct (in_dec Nat.eq_dec v (concat levels)) as [Hv|Hv].
    - destruct (level_of_in levels v Hv) as [Lj [Hj HvL]].
      eapply levels_ok_edges; eauto.
    - rewrite (level_of_notin levels v Hv). apply level_of_lt. exact Hu.
  Qed.

  (* ---- main statements ---- *)
  Lemma sort_levels_ok pm levels : create_parent_map p = Ok pm -> parallel_topo_sort p pm = Ok levels ->
    levels_ok (seq 0 n) levels.
  Proof.
    intros Hpm H. unfold parallel_topo_sort in H.
    destruct (topo_go_levels (create_parent_map_valid p pm Hpm) _ _ _ _ (Inv_in_degrees pm Hpm) H)
      as [new [Hnew Hok]].
    cbn [rev app] in Hnew. subst new. rewrite akeys_in_degrees in Hok. exact Hok.
  Qed.

  Lemma kahn_levels pm levels : create_parent_map p = Ok pm -> parallel_topo_sort p pm = Ok levels ->
    Permutation (concat levels) (seq 0 n) /\
    NoDup (concat levels) /\ (forall v, In v (concat levels) <-> v < n) /\
    (forall L, In L levels -> L <> []) /\
    (forall L, In L levels -> StronglySorted lt L) /\
    (forall u v i j Li Lj, edge p u v ->
       nth_error levels i = Some Li -> In u Li -> nth_error levels j = Some Lj -> In v Lj -> i < j).
  Proof.
    intros Hpm H. assert (Hok := sort_levels_ok pm levels Hpm H).
    assert (Hnd := levels_ok_nodup _ _ Hok).
    assert (Hin : forall v, In v (concat levels) <-> v < n).
    { intros v. rewrite (levels_ok_in _ _ Hok v), in_seq. lia. }
    split; [|split; [exact Hnd|split; [exact Hin|split; [|split]]]].
    - apply NoDup_Permutation; [exact Hnd|apply seq_NoDup|]. intros v. rewrite Hin, in_seq. lia.
    - intros L HL. apply (levels_ok_each _ _ Hok L HL).
    - intros L HL. apply asc_StronglySorted. apply (levels_ok_each _ _ Hok L HL).
    - intros u v i j Li Lj He. apply (levels_ok_edges _ _ Hok). apply edge_cnt. exact He.
  Qed.

  (* every node is placed strictly after all of its parents *)
  Lemma kahn_parents_before pm levels : create_parent_map p = Ok pm -> parallel_topo_sort p pm = Ok levels ->
    forall v j Lj, nth_error levels j = Some Lj -> In v Lj ->
    forall u, In u (parents_of pm v) -> exists i Li, i < j /\ nth_error levels i = Some Li /\ In u Li.
  Proof.
    intros Hpm H v j Lj Hj Hv u Hu. rewrite (parents_of_spec p pm Hpm) in Hu. apply parents_ref_in in Hu.
    destruct (kahn_levels pm levels Hpm H) as [_ [_ [Hin [_ [_ Hedges]]]]].
    assert (Hul : In u (concat levels)) by (apply Hin; apply Hu).
    destruct (level_of_in levels u Hul) as [Li [Hi HuL]].
    exists (level_of levels u), Li. split; [|split; assumption].
    eapply Hedges; eauto.
  Qed.

  Lemma kahn_ok_acyclic pm levels : create_parent_map p = Ok pm -> parallel_topo_sort p pm = Ok levels ->
    acyclic p.
  Proof.
    intros Hpm H. assert (Hok := sort_levels_ok pm levels Hpm H).
    exists (level_of levels). intros u v He. apply (levels_ok_rank _ _ Hok).
    - intros a b Hc. apply edge_cnt in Hc. apply in_seq. destruct Hc as [Hc _]. lia.
    - apply edge_cnt. exact He.
  Qed.

  Lemma kahn_ok_iff_acyclic pm : create_parent_map p = Ok pm ->
    ((exists levels, parallel_topo_sort p pm = Ok levels) <-> acyclic p).
  Proof.
    intros Hpm. split.
    - intros [levels H]. eapply kahn_ok_acyclic; eauto.
    - intros Hac. unfold parallel_topo_sort.
      apply (topo_go_acyclic (create_parent_map_valid p pm Hpm) (S n) Hac).
      + apply Inv_in_degrees. exact Hpm.
      + unfold in_degrees. rewrite map_length, seq_length. lia.
  Qed.

  (* total: a level list or the cycle error, never OutOfFuel / Panic / another error *)
  Lemma kahn_total pm : create_parent_map p = Ok pm ->
    (exists levels, parallel_topo_sort p pm = Ok levels) \/ parallel_topo_sort p pm = Err (InvalidNodeEdges 0).
  Proof.
    intros Hpm. unfold parallel_topo_sort.
    apply (topo_go_total (create_parent_map_valid p pm Hpm) (S n)).
    - apply Inv_in_degrees. exact Hpm.
    - unfold in_degrees. rewrite map_length, seq_length. lia.
  Qed.

  Lemma kahn_cyclic_err pm : create_parent_map p = Ok pm -> ~ acyclic p ->
    parallel_topo_sort p pm = Err (InvalidNodeEdges 0).
  Proof.
    intros Hpm Hc. destruct (kahn_total pm Hpm) as [Hok|He]; [|exact He].
    exfalso. apply Hc. apply (kahn_ok_iff_acyclic pm Hpm). exact Hok.
  Qed.

  Lemma kahn_err_cyclic pm e : create_parent_map p = Ok pm -> parallel_topo_sort p pm = Err e ->
    e = InvalidNodeEdges 0 /\ ~ acyclic p.
  Proof.
    intros Hpm He. split.
    - destruct (kahn_total pm Hpm) as [[l Hok]|He']; congruence.
    - intros Hac. apply (kahn_ok_iff_acyclic pm Hpm) in Hac. destruct Hac as [l Hl]. congruence.
  Qed.

  Lemma kahn_no_fuel_no_panic pm : create_parent_map p = Ok pm ->
    parallel_topo_sort p pm <> OutOfFuel /\ forall s, parallel_topo_sort p pm <> Panic s.
  Proof.
    intros Hpm. destruct (kahn_total pm Hpm) as [[l Hok]|He]; rewrite ?Hok, ?He; split; try intros s; discriminate.
  Qed.
End Kahn.
