(* C02: the three parallel sections of the checker, as modelled sequentially in Check/Set.v, Check/Inner.v
   and Vm/Exec.v, are indexed maps of a per-index function; hence (Proofs/ParProofs.v) every completion
   order of their tasks gives the list the sequential model computes. *)
From Coq Require Import ZArith List Arith Lia Bool Permutation Sorted.
From EB Require Import Check.Par Proofs.ParProofs Check.Set.
Import ListNotations.
Open Scope list_scope.
Open Scope nat_scope.

(* the join of a section whose tasks return outcomes: all values by index, or the first non-value by index
   (a Panic / OutOfFuel of a task propagates; see the remark on panics at the end of this file) *)
Fixpoint seq_outcomes {E A} (l : list (outcome E A)) : outcome E (list A) :=
  match l with
  | [] => Ok []
  | x :: r => let* a := x in let* rs := seq_outcomes r in Ok (a :: rs)
  end.

Lemma seq_outcomes_ok {E A} : forall (l : list (outcome E A)) rs, seq_outcomes l = Ok rs -> l = map Ok rs.
Proof.
  induction l as [|x r IH]; intros rs H; cbn [seq_outcomes] in H.
  - inversion H. reflexivity.
  - destruct x as [a| | |]; cbn [bind] in H; try discriminate.
    destruct (seq_outcomes r) as [rs'| | |] eqn:Hr; cbn [bind] in H; try discriminate.
    inversion H; subst. cbn [map]. rewrite (IH rs' eq_refl). reflexivity.
Qed.

Lemma seq_outcomes_is_ok {E A} (l : list (outcome E A)) : is_ok (seq_outcomes l) = forallb is_ok l.
Proof.
  induction l as [|x r IH]; cbn [seq_outcomes forallb]; [reflexivity|].
  destruct x; cbn [bind is_ok andb]; try reflexivity.
  rewrite <- IH. destruct (seq_outcomes r); reflexivity.
Qed.

(* ================= (a) one task per solution ================= *)
Section Solutions.
  Variables (fuel : nat) (lk : lookup) (collect_all : bool) (mode : run_mode).
  Variables (sols : list solution) (pre post : view) (caches : list (list (nat * sm))).

  (* the closure of `.enumerate().map(|(solution_index, (solution, cache))| ..)`: it reads the (immutable,
     Arc-shared) solution set, the two state views, the lookups and ITS OWN cache, taken out of the map before *)
  Definition sol_task (i : nat) : outcome unit inner_result :=
    check_predicate fuel lk collect_all mode
      {| sc_solutions := sols; sc_index := i; sc_pre := pre; sc_post := post |} (nth i caches []).

  Lemma check_solutions_go_map ixs :
    check_solutions_go fuel lk collect_all mode sols pre post ixs caches = seq_outcomes (map sol_task ixs).
  Proof.
    induction ixs as [|i r IH]; cbn [check_solutions_go map seq_outcomes]; [reflexivity|].
    rewrite IH. reflexivity.
  Qed.

  Theorem check_solutions_schedule_independent sched :
    complete (length sols) sched ->
    option_map seq_outcomes (collect (run_par sol_task (length sols) sched)) =
    Some (check_solutions_go fuel lk collect_all mode sols pre post (seq 0 (length sols)) caches).
  Proof.
    intros Hc. rewrite (par_map_schedule_independent sol_task _ _ Hc). cbn [option_map].
    rewrite check_solutions_go_map. reflexivity.
  Qed.

  (* when no task panics or runs out of the model's fuel: the slots are exactly the sequential results *)
  Corollary check_solutions_schedule_independent_ok sched rs :
    complete (length sols) sched ->
    check_solutions_go fuel lk collect_all mode sols pre post (seq 0 (length sols)) caches = Ok rs ->
    collect (run_par sol_task (length sols) sched) = Some (map Ok rs).
  Proof.
    intros Hc H. rewrite (par_map_schedule_independent sol_task _ _ Hc).
    rewrite check_solutions_go_map in H. apply seq_outcomes_ok in H. rewrite H. reflexivity.
  Qed.

  (* what check_set_predicates does with the results, once they are there *)
  Definition set_post (rs : list inner_result) : outcome unit set_result :=
    let ixs := seq 0 (length sols) in
    let indexed := combine ixs rs in
    let failed := flat_map (fun ir => match ir_res (snd ir) with Err e => [(fst ir, e)] | _ => [] end) indexed in
    let events := flat_map (fun ir => map (fun ev => (fst ir, fst ev, snd ev)) (ir_events (snd ir))) indexed in
    match failed with
    | _ :: _ => Ok {| sr_res := Err (SFailed failed); sr_caches := map (fun _ => []) caches; sr_events := events |}
    | [] =>
        let gas := fold_left (fun a ir => match ir_res (snd ir) with Ok (g, _) => sat_add_u64 a g | _ => a end) indexed 0%Z in
        let data := map (fun ir => (fst ir, match ir_res (snd ir) with Ok (_, d) => d | _ => [] end)) indexed in
        Ok {| sr_res := Ok (gas, data); sr_caches := map (fun ir => ir_cache (snd ir)) indexed; sr_events := events |}
    end.

  Lemma check_set_predicates_unfold :
    check_set_predicates fuel lk collect_all mode sols pre post caches =
    (let* rs := check_solutions_go fuel lk collect_all mode sols pre post (seq 0 (length sols)) caches in set_post rs).
  Proof. reflexivity. Qed.

  (* check_set_predicates with its parallel section executed under the schedule `sched` *)
  Definition check_set_predicates_par (sched : list nat) : outcome unit set_result :=
    match collect (run_par sol_task (length sols) sched) with
    | Some outs => let* rs := seq_outcomes outs in set_post rs
    | None => Panic "parallel section not finished"
    end.

  Theorem check_set_predicates_schedule_independent sched :
    complete (length sols) sched ->
    check_set_predicates_par sched = check_set_predicates fuel lk collect_all mode sols pre post caches.
  Proof.
    intros Hc. unfold check_set_predicates_par.
    rewrite (par_map_schedule_independent sol_task _ _ Hc), check_set_predicates_unfold, check_solutions_go_map.
    reflexivity.
  Qed.

  (* the list of (solution index, error) of PredicateErrors is `failures` of the classified results:
     ascending solution index, each with that solution's own error *)
  Definition classify (r : inner_result) : inner_result + perr2 :=
    match ir_res r with Err e => inr e | _ => inl r end.

  Lemma set_failed_is_failures : forall (rs : list inner_result) s,
    flat_map (fun ir : nat * inner_result => match ir_res (snd ir) with Err e => [(fst ir, e)] | _ => [] end)
             (combine (seq s (length rs)) rs) = failures_from s (map classify rs).
  Proof.
    induction rs as [|x r IH]; intros s; cbn [length seq combine flat_map map failures_from]; [reflexivity|].
    rewrite IH. unfold classify at 2. cbn [snd fst]. destruct (ir_res x); reflexivity.
  Qed.
End Solutions.

(* ================= (b) one task per node of a level ================= *)
Section Level.
  Variable run : nat -> bool -> list sm -> outcome unit prog_res.
  Variable p : predicate.
  Variable pm : list (nat * list nat).
  Variable st : inner_state.          (* the caches as they are at the START of the level *)

  (* the closure of `parallel_nodes.into_par_iter().map(|ix| ..)`: it reads parent_map, cache, local_cache *)
  Definition node_task (ix : nat) : outcome unit (nat * prog_res * list sm) :=
    let ins := inputs_of pm st ix in
    let* r := run ix (is_leaf p ix) ins in Ok (ix, r, ins).

  Lemma run_level_map level : run_level run p pm st level = seq_outcomes (map node_task level).
  Proof.
    induction level as [|ix r IH]; cbn [run_level map seq_outcomes]; [reflexivity|].
    rewrite IH. unfold node_task at 2.
    destruct (run ix (is_leaf p ix) (inputs_of pm st ix)); reflexivity.
  Qed.

  (* task j of the section is the node at position j of the level *)
  Theorem run_level_schedule_independent level sched :
    complete (length level) sched ->
    option_map seq_outcomes (collect (run_par (fun j => node_task (nth j level 0)) (length level) sched)) =
    Some (run_level run p pm st level).
  Proof.
    intros Hc. rewrite (par_map_over_keys node_task 0 level sched Hc). cbn [option_map].
    rewrite run_level_map. reflexivity.
  Qed.

  (* the same with the BTreeMap made explicit: the results are inserted under their node index in
     completion order `done`, then the `for (node, res) in outputs` loop walks the map in key order *)
  Theorem run_level_keyed_schedule_independent level done :
    StronglySorted lt level -> Permutation done level ->
    seq_outcomes (map snd (collect_keyed node_task done)) = run_level run p pm st level.
  Proof.
    intros Hs Hp. rewrite (keyed_collect_schedule_independent node_task level done Hs Hp).
    rewrite map_map. cbn [snd]. rewrite run_level_map. reflexivity.
  Qed.

  Definition run_level_par (level sched : list nat) : outcome unit (list (nat * prog_res * list sm)) :=
    match collect (run_par (fun j => node_task (nth j level 0)) (length level) sched) with
    | Some outs => seq_outcomes outs
    | None => Panic "parallel section not finished"
    end.

  Corollary run_level_par_eq level sched :
    complete (length level) sched -> run_level_par level sched = run_level run p pm st level.
  Proof.
    intros Hc. unfold run_level_par. rewrite (par_map_over_keys node_task 0 level sched Hc).
    rewrite run_level_map. reflexivity.
  Qed.
End Level.

(* Par.kinsert is the BTreeMap insertion of the graph model *)
Lemma kinsert_is_ainsert {V} (k : nat) (v : V) : forall m, kinsert k v m = ainsert k v m.
Proof.
  induction m as [|[k' v'] r IH]; cbn [kinsert ainsert]; [reflexivity|]. rewrite IH. reflexivity.
Qed.

(* ================= (c) one task per Compute child ================= *)
Section Compute.
  Open Scope Z_scope.
  Variable run : vm -> X.

  (* the closure of `(0..compute_breadth).into_par_iter().map(|compute_index| ..)` *)
  Definition compute_child (v : vm) (s0 : list Z) (i : Z) : X :=
    match child_vm v s0 i with
    | Ok cv => run cv
    | Panic s => Panic s
    | _ => Err (pc v, ECompute, v)
    end.

  (* everything compute_with does after the parallel section *)
  Definition compute_join (climit : Z) (v : vm) (s0 : list Z) (rs : list X) : R (vm * ctl * list op) :=
    match children_status rs with
    | Panic s => Panic s
    | OutOfFuel => OutOfFuel
    | _ =>
      match join_children rs [] with
      | Ok cs =>
        match sum_gas climit 0 cs with
        | None => Err EOutOfGas
        | Some total =>
          let to_alloc := fold_left (fun a c => a + zlen (memory (fst (fst c)))) cs 0 in
          if i64_max <? to_alloc then Panic "compute_effects: memory_to_alloc overflow"
          else
            let* m1 := mem_alloc to_alloc (memory v) in
            let* m2 := store_children (zlen (memory v)) cs m1 in
            let p := fold_left (fun a c => Z.max a (pc (fst (fst c)))) cs (pc v) in
            let h := fold_left (fun a c => a || halt (fst (fst c))) cs (halt v) in
            let tr := fold_left (fun a c => snd c ++ a) cs [] in
            Ok (set_stack_mem v s0 m2, CComputeResult p total h, tr)
        end
      | Err _ => Err ECompute
      | Panic s => Panic s
      | OutOfFuel => OutOfFuel
      end
    end.

  (* compute_with, with the source of the children's results left open *)
  Definition compute_with_gen (children : vm -> list Z -> Z -> list X) (fuel : nat) (climit : Z) (v : vm)
    : R (vm * ctl * list op) :=
    match pop (stack v) with
    | Ok (breadth, s0) =>
      if breadth <? 1 then Err ECompute
      else if max_compute_depth <=? zlen (parent_memory v) then Err ECompute
      else if Z.of_nat fuel <? breadth then OutOfFuel
      else compute_join climit v s0 (children v s0 breadth)
    | _ => Err ECompute
    end.

  Lemma compute_with_unfold fuel climit v :
    compute_with run fuel climit v =
    compute_with_gen (fun v s0 breadth => map (compute_child v s0) (zrange_z breadth)) fuel climit v.
  Proof. reflexivity. Qed.

  Lemma zrange_from_seq : forall n s, zrange_from s n = map (fun j => s + Z.of_nat j) (seq 0%nat n).
  Proof.
    induction n as [|n IH]; intros s; cbn [zrange_from seq map]; [reflexivity|].
    rewrite IH, <- seq_shift, map_map. f_equal; [lia|].
    apply map_ext. intros j. lia.
  Qed.

  Lemma zrange_z_seq b : zrange_z b = map Z.of_nat (seq 0%nat (Z.to_nat b)).
  Proof. unfold zrange_z. rewrite zrange_from_seq. apply map_ext. intros j. lia. Qed.

  Theorem compute_children_schedule_independent v s0 breadth sched :
    complete (Z.to_nat breadth) sched ->
    collect (run_par (fun j => compute_child v s0 (Z.of_nat j)) (Z.to_nat breadth) sched) =
    Some (map (compute_child v s0) (zrange_z breadth)).
  Proof.
    intros Hc. rewrite (par_map_schedule_independent _ _ _ Hc), zrange_z_seq, map_map. reflexivity.
  Qed.

  (* compute_with with its parallel section executed under the schedule `sch breadth` *)
  Definition compute_with_par (sch : Z -> list nat) (fuel : nat) (climit : Z) (v : vm) : R (vm * ctl * list op) :=
    compute_with_gen
      (fun v s0 breadth =>
         match collect (run_par (fun j => compute_child v s0 (Z.of_nat j)) (Z.to_nat breadth) (sch breadth)) with
         | Some rs => rs
         | None => [Panic "parallel section not finished"]
         end) fuel climit v.

  Theorem compute_with_schedule_independent sch fuel climit v :
    (forall b, complete (Z.to_nat b) (sch b)) ->
    compute_with_par sch fuel climit v = compute_with run fuel climit v.
  Proof.
    intros Hc. rewrite compute_with_unfold. unfold compute_with_par, compute_with_gen.
    destruct (pop (stack v)) as [[breadth s0]| | |]; try reflexivity.
    rewrite (compute_children_schedule_independent v s0 breadth (sch breadth) (Hc breadth)). reflexivity.
  Qed.

  (* The error payload of a failing child never reaches the parent: two result vectors that agree except
     for WHICH error the failing children carry are joined to the same parent result.  (rayon hands back
     the error of some failing child; compute.rs wraps it into ComputeError::Exec, class Compute.) *)
  Definition same_up_to_error (a b : X) : Prop :=
    match a, b with
    | Ok x, Ok y => x = y
    | Err _, Err _ => True
    | Panic s, Panic t => s = t
    | OutOfFuel, OutOfFuel => True
    | _, _ => False
    end.

  Lemma children_status_up_to_error rs rs' :
    Forall2 same_up_to_error rs rs' -> children_status rs = children_status rs'.
  Proof.
    induction 1 as [|a b r r' Hab _ IH]; cbn [children_status]; [reflexivity|].
    destruct a, b; cbn [same_up_to_error] in Hab; try contradiction; subst; try reflexivity; exact IH.
  Qed.

  Lemma join_children_up_to_error rs rs' :
    Forall2 same_up_to_error rs rs' -> forall acc, join_children rs acc = join_children rs' acc.
  Proof.
    induction 1 as [|a b r r' Hab _ IH]; intros acc; cbn [join_children]; [reflexivity|].
    destruct a, b; cbn [same_up_to_error] in Hab; try contradiction; subst; try reflexivity. apply IH.
  Qed.

  Theorem compute_join_error_payload_irrelevant climit v s0 rs rs' :
    Forall2 same_up_to_error rs rs' -> compute_join climit v s0 rs = compute_join climit v s0 rs'.
  Proof.
    intros H. unfold compute_join.
    rewrite (children_status_up_to_error rs rs' H), (join_children_up_to_error rs rs' H []). reflexivity.
  Qed.

  (* and the join is the observable of Par.try_collect: all child results by index, or "some child failed" *)
  Definition ok_values (rs : list X) : list (vm * Z * list op) :=
    flat_map (fun x => match x with Ok a => [a] | _ => [] end) rs.

  Lemma join_children_observe : forall rs acc, children_status rs = Ok tt ->
    join_children rs acc = if existsb is_err rs then Err tt else Ok (rev acc ++ ok_values rs).
  Proof.
    induction rs as [|x r IH]; intros acc Hs; cbn [join_children existsb ok_values flat_map].
    - rewrite app_nil_r. reflexivity.
    - destruct x as [a|e|s|]; cbn [children_status] in Hs; try discriminate; cbn [is_err orb].
      + rewrite (IH (a :: acc) Hs). fold (ok_values r). cbn [rev app]. rewrite <- app_assoc. reflexivity.
      + reflexivity.
  Qed.
End Compute.

(* ================= (d) the OnceLock of LazyCache ================= *)
(* PredicateExists is the only reader: `cache.get_pred_data_hashes(solutions).contains(&hash)`.  Every caller
   passes the same closure, `init_predicate_exists(solutions)`, a function of the immutable solution list.
   The model (Vm/Step.v `op_predicate_exists`) computes the membership test directly from `e_solutions`,
   i.e. with the cell holding `pred_hashes`; by `once_cell_benign` this is what every reader sees. *)
Definition pred_hashes (E : env) : list (list Z) :=
  map (fun sol => e_sha256 E (pred_data_preimage sol)) (e_solutions E).

Lemma predicate_exists_reads_cell E h :
  existsb (fun sol => bytes_eqb (e_sha256 E (pred_data_preimage sol)) h) (e_solutions E) =
  existsb (fun x => bytes_eqb x h) (pred_hashes E).
Proof.
  unfold pred_hashes. induction (e_solutions E) as [|s r IH]; cbn [existsb map]; [reflexivity|].
  rewrite IH. reflexivity.
Qed.

(* REMARK on panics.  A task that panics makes rayon re-raise ONE of the panics in the caller; when several
   tasks panic with different messages, which message is re-raised depends on the schedule (exactly like
   the error of (c)).  The sequential models report the first by index.  C02 is about the results
   Ok / Err; the absence of panics is the subject of other properties, and `seq_outcomes_is_ok` shows that
   WHETHER the section ends without panic / fuel exhaustion is schedule independent. *)
