(* C06 - the check entry points never panic on untrusted input.
   Part A: check_predicate_inner, parametric in the node runner, with an invariant on cached outputs.
   Part B: run_program (the VM on arbitrary bytes, with arbitrary well-typed parent outputs).
   Part C: state views.  Part D: the solution-set level up to two_pass. *)
From Coq Require Import ZArith List Lia Bool.
From EB Require Import Proofs.KahnBase Proofs.Kahn Proofs.MutationProofs.
From EB Require Import Check.Graph Check.Inner Check.Set Vm.Machine Vm.Step Vm.Exec Spec.VmInvariant Spec.CheckTyped.
From EB Require Import Proofs.AsmCodec Proofs.VmInv Proofs.VmInvStep Proofs.VmInvExec.
Import ListNotations.
Open Scope list_scope.
Open Scope Z_scope.

(* ====================================================================== *)
(* Part A: check_predicate_inner                                          *)
(* ====================================================================== *)

Lemma aget_Forall {A} (P : A -> Prop) k : forall (m : list (nat * A)) o,
  Forall (fun e => P (snd e)) m -> aget k m = Some o -> P o.
Proof.
  induction m as [|[k' v] m IH]; intros o F H; cbn [aget] in H; [discriminate|].
  inversion F as [|? ? Hv Hm]; subst. cbn [snd] in Hv.
  destruct (Nat.eqb k k'); [injection H as <-; exact Hv|eapply IH; eauto].
Qed.

Lemma ainsert_Forall {A} (P : A -> Prop) k v : forall (m : list (nat * A)),
  P v -> Forall (fun e => P (snd e)) m -> Forall (fun e => P (snd e)) (ainsert k v m).
Proof.
  intros m Hv. induction m as [|[k' v'] m IH]; intros F; cbn [ainsert].
  - constructor; [exact Hv|constructor].
  - inversion F as [|? ? Hv' Hm]; subst.
    destruct (Nat.eqb k k'); [constructor; [exact Hv|exact Hm]|].
    destruct (Nat.ltb k k'); [constructor; [exact Hv|exact F]|].
    constructor; [exact Hv'|apply IH; exact Hm].
Qed.

Section InnerTotal.
  Variable run : nat -> bool -> list sm -> outcome unit prog_res.
  Variable p : predicate.
  Variable collect_all : bool.
  Variable is_def : nat -> bool.
  (* what is known of every cached parent output, and of every data output *)
  Variable P : sm -> Prop.
  Variable Q : list Z -> Prop.

  Definition out_ok (r : prog_res) : Prop :=
    match r with
    | PRun (OutParent s m) _ => P (s, m)
    | PRun (OutLeaf (DataOutput m)) _ => Q m
    | _ => True
    end.

  Hypothesis run_np : forall ix leaf ins, Forall P ins -> no_panic (run ix leaf ins).
  Hypothesis run_out : forall ix leaf ins r, Forall P ins -> run ix leaf ins = Ok r -> out_ok r.

  Definition cache_ok (c : list (nat * sm)) : Prop := Forall (fun e => P (snd e)) c.
  Definition ist_ok (st : inner_state) : Prop :=
    cache_ok (is_cache st) /\ cache_ok (is_local st) /\ Forall Q (is_data st).

  Lemma inputs_of_ok pm st ix : ist_ok st -> Forall P (inputs_of pm st ix).
  Proof.
    intros (Hc & Hl & _). unfold inputs_of. generalize (parents_of pm ix) as ps.
    induction ps as [|par ps IH]; cbn [flat_map]; [constructor|].
    apply Forall_app. split; [|exact IH].
    destruct (aget par (is_cache st)) as [o|] eqn:E1.
    - constructor; [|constructor]. exact (aget_Forall P par _ o Hc E1).
    - destruct (aget par (is_local st)) as [o|] eqn:E2; [|constructor].
      constructor; [|constructor]. exact (aget_Forall P par _ o Hl E2).
  Qed.

  Definition results_ok (rs : list (nat * prog_res * list sm)) : Prop :=
    Forall (fun r => out_ok (snd (fst r))) rs.

  Lemma run_level_np pm st : ist_ok st -> forall level, no_panic (run_level run p pm st level).
  Proof.
    intros Hst level. induction level as [|ix rest IH]; cbn [run_level]; [apply np_ok|].
    apply bind_no_panic; [apply run_np, inputs_of_ok, Hst|]. intros r _.
    apply bind_no_panic; [exact IH|]. intros rs _. apply np_ok.
  Qed.

  Lemma run_level_ok pm st : ist_ok st -> forall level rs,
    run_level run p pm st level = Ok rs -> results_ok rs.
  Proof.
    intros Hst level. induction level as [|ix rest IH]; intros rs H; cbn [run_level] in H.
    - injection H as <-. constructor.
    - apply bind_ok in H as (r & Hr & H). apply bind_ok in H as (rs' & Hrs & H). injection H as <-.
      constructor; [|apply IH; exact Hrs]. cbn [fst snd].
      eapply run_out; [|exact Hr]. apply inputs_of_ok, Hst.
  Qed.

  Lemma absorb_ok deferred : forall rs st, ist_ok st -> results_ok rs ->
    ist_ok (fst (absorb p collect_all deferred st rs)).
  Proof.
    induction rs as [|[[node r] ins] rs IH]; intros st Hst Hrs; cbn [absorb]; [exact Hst|].
    inversion Hrs as [|? ? Hr Hrs']; subst. cbn [fst snd] in Hr.
    destruct Hst as (Hc & Hl & Hd).
    destruct r as [[s m|o] g|].
    - cbn [out_ok] in Hr. apply IH; [|exact Hrs'].
      destruct (should_cache p deferred node); unfold ist_ok; cbn [is_cache is_local is_data].
      + split; [apply (ainsert_Forall P); assumption|split; assumption].
      + split; [assumption|split; [apply (ainsert_Forall P); assumption|assumption]].
    - apply IH; [|exact Hrs']. unfold ist_ok; cbn [is_cache is_local is_data].
      split; [assumption|split; [assumption|]].
      destruct o as [b|m]; [exact Hd|]. cbn [out_ok] in Hr.
      apply Forall_app. split; [exact Hd|constructor; [exact Hr|constructor]].
    - destruct collect_all.
      + apply IH; [|exact Hrs']. unfold ist_ok; cbn [is_cache is_local is_data]. split; [assumption|split; assumption].
      + cbn [fst]. unfold ist_ok; cbn [is_cache is_local is_data]. split; [assumption|split; assumption].
  Qed.

  Lemma add_events_ok st rs : ist_ok st -> ist_ok (add_events st rs).
  Proof. intros H. exact H. Qed.

  Lemma run_levels_np pm deferred : forall levels st, ist_ok st ->
    no_panic (run_levels run p collect_all pm deferred st levels).
  Proof.
    induction levels as [|level rest IH]; intros st Hst; cbn [run_levels]; [apply np_ok|].
    apply bind_no_panic; [apply run_level_np; exact Hst|]. intros rs Hrs.
    pose proof (absorb_ok deferred rs (add_events st rs) (add_events_ok st rs Hst) (run_level_ok pm st Hst level rs Hrs)) as K.
    destruct (absorb p collect_all deferred (add_events st rs) rs) as [st' stop]. cbn [fst] in K.
    destruct stop; [apply np_ok|apply IH; exact K].
  Qed.

  Lemma run_levels_ok pm deferred : forall levels st st' b, ist_ok st ->
    run_levels run p collect_all pm deferred st levels = Ok (st', b) -> ist_ok st'.
  Proof.
    induction levels as [|level rest IH]; intros st st' b Hst H; cbn [run_levels] in H.
    - injection H as <- <-. exact Hst.
    - apply bind_ok in H as (rs & Hrs & H).
      pose proof (absorb_ok deferred rs (add_events st rs) (add_events_ok st rs Hst) (run_level_ok pm st Hst level rs Hrs)) as K.
      destruct (absorb p collect_all deferred (add_events st rs) rs) as [st1 stop]. cbn [fst] in K.
      destruct stop; [injection H as <- <-; exact K|eapply IH; eauto].
  Qed.

  Definition ires_ok (r : inner_result) : Prop :=
    cache_ok (ir_cache r) /\ (forall g d, ir_res r = Ok (g, d) -> Forall Q d).

  Lemma st0_ok cache : cache_ok cache ->
    ist_ok {| is_cache := cache; is_local := []; is_failed := []; is_unsat := []; is_data := []; is_gas := 0%Z; is_events := [] |}.
  Proof. intros H. split; [exact H|split; constructor]. Qed.

  Theorem inner_np_gen mode cache : cache_ok cache ->
    no_panic (check_predicate_inner run p collect_all is_def mode cache).
  Proof.
    intros Hc. unfold check_predicate_inner.
    destruct (create_parent_map_total p) as [NP1 _].
    destruct (create_parent_map p) as [pm|[ix]|s|] eqn:Epm; [|apply np_ok|exfalso; exact (NP1 s eq_refl)|apply np_fuel].
    destruct (kahn_no_fuel_no_panic p pm Epm) as [_ NP2].
    destruct (parallel_topo_sort p pm) as [sorted|[ix]|s|] eqn:Es; [|apply np_ok|exfalso; exact (NP2 s eq_refl)|apply np_fuel].
    apply bind_no_panic; [apply run_levels_np, st0_ok, Hc|]. intros [st b] _. apply np_ok.
  Qed.

  Theorem inner_ok_gen mode cache r : cache_ok cache ->
    check_predicate_inner run p collect_all is_def mode cache = Ok r -> ires_ok r.
  Proof.
    intros Hc H. unfold check_predicate_inner in H.
    assert (Triv : forall ix, ires_ok {| ir_res := Err (PInvalidNodeEdges ix); ir_cache := cache; ir_events := [] |}).
    { intros ix. split; [exact Hc|]. intros g d; cbn [ir_res]; discriminate. }
    destruct (create_parent_map p) as [pm|[ix]|s|]; [|injection H as <-; apply Triv|discriminate|discriminate].
    destruct (parallel_topo_sort p pm) as [sorted|[ix]|s|]; [|injection H as <-; apply Triv|discriminate|discriminate].
    apply bind_ok in H as ([st b] & Hrl & H). injection H as <-.
    apply run_levels_ok in Hrl; [|apply st0_ok, Hc]. destruct Hrl as (H1 & _ & H3).
    split; cbn [ir_cache ir_res]; [exact H1|].
    intros g d E. destruct (is_failed st); [|discriminate]. destruct (is_unsat st); [|discriminate].
    injection E as _ <-. exact H3.
  Qed.
End InnerTotal.

(* the simple form: a runner that never panics *)
Theorem inner_no_panic run p ca is_def mode cache :
  (forall ix leaf ins s, run ix leaf ins <> Panic s) ->
  forall s, check_predicate_inner run p ca is_def mode cache <> Panic s.
Proof.
  intros H. apply (inner_np_gen run p ca is_def (fun _ => True) (fun _ => True)).
  - intros ix leaf ins _ s. apply H.
  - intros ix leaf ins r _ _. destruct r as [[s m|[b|m]] g|]; exact I.
  - unfold cache_ok. apply Forall_forall. intros; exact I.
Qed.

(* ====================================================================== *)
(* Part B: run_program                                                    *)
(* ====================================================================== *)


Lemma env_for_ok c : ctx_ok c -> env_ok (env_for c).
Proof.
  intros (Hs & Hi & Hpre & Hpost).
  constructor; cbn [env_for e_solutions e_index e_pre e_post e_cost e_sha256 e_secp].
  - exact Hs.
  - exact Hi.
  - exact Hpre.
  - exact Hpost.
  - intros o. split; vm_compute; discriminate.
  - intros bs. unfold dummy_sha. split; [reflexivity|apply Forall_repeat; unfold byte; lia].
  - intros h s i k; discriminate.
Qed.

Lemma concat_Forall {A} (Pr : A -> Prop) (ls : list (list A)) : Forall (Forall Pr) ls -> Forall Pr (concat ls).
Proof. induction 1 as [|l ls Hl _ IH]; cbn [concat]; [constructor|apply Forall_app; split; assumption]. Qed.

Lemma parents_stack_ok parents : Forall sm_ok parents -> Forall i64 (concat (map fst parents)).
Proof.
  intros H. apply concat_Forall. induction H as [|io ps Hio _ IH]; cbn [map]; [constructor|].
  constructor; [apply Hio|exact IH].
Qed.
Lemma parents_mem_ok parents : Forall sm_ok parents -> Forall i64 (concat (map snd parents)).
Proof.
  intros H. apply concat_Forall. induction H as [|io ps Hio _ IH]; cbn [map]; [constructor|].
  constructor; [apply Hio|exact IH].
Qed.

Lemma Forall_rev_i64 {A} (P : A -> Prop) (l : list A) : Forall P l -> Forall P (rev l).
Proof. intros H. apply Forall_forall. intros x Hx. apply in_rev in Hx. revert x Hx. apply Forall_forall. exact H. Qed.

Lemma Inv_start st mem : Forall i64 st -> Forall i64 mem -> zlen st <= 4096 -> zlen mem <= 10240 ->
  Inv {| pc := 0; stack := rev st; memory := mem; parent_memory := []; halt := false; rstack := [] |}.
Proof.
  intros Fs Fm Ls Lm. constructor; cbn [stack memory rstack parent_memory pc].
  - rewrite zlen_rev. exact Ls.
  - exact Lm.
  - rewrite zlen_nil. lia.
  - rewrite zlen_nil. lia.
  - apply Forall_rev_i64. exact Fs.
  - exact Fm.
  - constructor.
  - constructor.
  - rewrite usize_max_eq. lia.
Qed.

Lemma leaf_out_cases (l m : list Z) :
  exists o, (match l with
             | [2] => OutLeaf (DataOutput m)
             | [1] => OutLeaf (Satisfied true)
             | _ => OutLeaf (Satisfied false)
             end) = OutLeaf o /\ (forall m', o = DataOutput m' -> m' = m).
Proof.
  destruct l as [|w l']; [eexists; split; [reflexivity|intros m'; discriminate]|].
  destruct w as [|[[q|q|]|[q|q|]|]|q]; destruct l' as [|w2 r];
    eexists; (split; [reflexivity|]); intros m' E; try discriminate E.
  injection E as <-. reflexivity.
Qed.

Section RunProgram.
  Variables (fuel : nat) (c : sol_ctx) (prog : list Z).
  Hypothesis Hc : ctx_ok c.
  Hypothesis Hb : Forall byte prog.
  Hypothesis Hl : zlen prog <= usize_max.
  Hypothesis Hf : Z.of_nat fuel * 10240 <= i64_max.

  Lemma prog_ops_ok ops : from_bytes prog = Ok ops -> Forall well_formed_op ops /\ zlen ops <= usize_max.
  Proof.
    intros Hp. unfold from_bytes in Hp. destruct (parse_sound _ _ _ Hb Hp) as [Eb Hw]. split; [exact Hw|].
    pose proof (to_bytes_length_ge ops) as L. rewrite Eb in L. unfold zlen in *. lia.
  Qed.

  Theorem run_program_np leaf parents : Forall sm_ok parents -> no_panic (run_program fuel c prog leaf parents).
  Proof.
    intros Hp. unfold run_program.
    destruct (from_bytes_total prog) as [_ NP].
    destruct (from_bytes prog) as [ops|e|s|] eqn:Eops; [|apply np_ok|exfalso; exact (NP s eq_refl)|apply np_fuel].
    destruct (prog_ops_ok ops Eops) as [Hw Lo].
    destruct (Z.ltb_spec 4096 (zlen (concat (map fst parents)))) as [B1|B1]; [apply np_ok|].
    destruct (Z.ltb_spec 10240 (zlen (concat (map snd parents)))) as [B2|B2]; [apply np_ok|]. cbn [orb].
    pose proof (exec_ops_no_panic (env_for c) ops fuel u64_max _ (env_for_ok c Hc) Hw Lo
                  (Inv_start _ _ (parents_stack_ok _ Hp) (parents_mem_ok _ Hp) B1 B2) Hf) as K.
    match goal with |- no_panic (match ?x with _ => _ end) => destruct x as [[[v g] tr]|e|s|] end.
    - apply np_ok.
    - apply np_ok.
    - exfalso. exact (K s eq_refl).
    - apply np_fuel.
  Qed.

  (* the final machine state of a successful run *)
  Lemma run_program_final leaf parents o g : Forall sm_ok parents ->
    run_program fuel c prog leaf parents = Ok (PRun o g) ->
    exists v, Inv v /\
      o = if leaf then match rev (stack v) with
                       | [2] => OutLeaf (DataOutput (memory v))
                       | [1] => OutLeaf (Satisfied true)
                       | _ => OutLeaf (Satisfied false)
                       end
          else OutParent (rev (stack v)) (memory v).
  Proof.
    intros Hp H. unfold run_program in H.
    destruct (from_bytes prog) as [ops|e|s|] eqn:Eops; try discriminate H.
    destruct (prog_ops_ok ops Eops) as [Hw Lo].
    destruct (Z.ltb_spec 4096 (zlen (concat (map fst parents)))) as [B1|B1]; [discriminate H|].
    destruct (Z.ltb_spec 10240 (zlen (concat (map snd parents)))) as [B2|B2]; [discriminate H|]. cbn [orb] in H.
    pose proof (proj1 (exec_ops_inv (env_for c) ops fuel u64_max _ (env_for_ok c Hc) Hw Lo
                  (Inv_start _ _ (parents_stack_ok _ Hp) (parents_mem_ok _ Hp) B1 B2))) as K.
    match type of H with (match ?x with _ => _ end) = _ => destruct x as [[[v g'] tr]|e|s|] end; try discriminate H.
    exists v. split; [eapply K; reflexivity|]. injection H as <- _. reflexivity.
  Qed.

  Theorem run_program_out leaf parents st mem g : Forall sm_ok parents ->
    run_program fuel c prog leaf parents = Ok (PRun (OutParent st mem) g) ->
    Forall i64 st /\ Forall i64 mem /\ zlen st <= 4096 /\ zlen mem <= 10240.
  Proof.
    intros Hp H. destruct (run_program_final leaf parents _ g Hp H) as (v & Hv & E).
    destruct leaf.
    - destruct (leaf_out_cases (rev (stack v)) (memory v)) as (o & Eo & _). rewrite Eo in E. discriminate E.
    - injection E as -> ->. split; [apply Forall_rev_i64, (inv_stack_w v Hv)|].
      split; [apply (inv_memory_w v Hv)|]. split; [rewrite zlen_rev; apply (inv_stack v Hv)|apply (inv_memory v Hv)].
  Qed.

  Theorem run_program_data leaf parents mem g : Forall sm_ok parents ->
    run_program fuel c prog leaf parents = Ok (PRun (OutLeaf (DataOutput mem)) g) ->
    Forall i64 mem /\ zlen mem <= 10240.
  Proof.
    intros Hp H. destruct (run_program_final leaf parents _ g Hp H) as (v & Hv & E).
    assert (K : mem = memory v).
    { destruct leaf; [|discriminate E].
      destruct (leaf_out_cases (rev (stack v)) (memory v)) as (o & Eo & Ho). rewrite Eo in E.
      injection E as E. symmetry in E. exact (Ho mem E). }
    subst mem. split; [apply (inv_memory_w v Hv)|apply (inv_memory v Hv)].
  Qed.

  Lemma run_program_out_ok leaf parents r : Forall sm_ok parents ->
    run_program fuel c prog leaf parents = Ok r -> out_ok sm_ok (Forall i64) r.
  Proof.
    intros Hp H. destruct r as [[st mem|[b|mem]] g|]; cbn [out_ok]; try exact I.
    - destruct (run_program_out leaf parents st mem g Hp H) as (A & B & _). split; assumption.
    - apply (run_program_data leaf parents mem g Hp H).
  Qed.
End RunProgram.

(* ====================================================================== *)
(* Part C: state views                                                    *)
(* ====================================================================== *)

Lemma kv_get_ok k : forall m v, kv_ok m -> kv_get k m = Some v -> Forall i64 v.
Proof.
  induction m as [|[k' v'] m IH]; intros v F H; cbn [kv_get] in H; [discriminate|].
  inversion F as [|? ? Hv Hm]; subst. cbn [snd] in Hv.
  destruct (zlist_eqb k k'); [injection H as <-; exact Hv|exact (IH v Hm H)].
Qed.
Lemma st_get_ok c : forall s m, state_ok s -> st_get c s = Some m -> kv_ok m.
Proof.
  induction s as [|[c' m'] s IH]; intros m F H; cbn [st_get] in H; [discriminate|].
  inversion F as [|? ? Hv Hm]; subst. cbn [snd] in Hv.
  destruct (zlist_eqb c c'); [injection H as <-; exact Hv|exact (IH m Hm H)].
Qed.
Lemma state_range_ok m : kv_ok m -> forall n k, Forall (Forall i64) (state_range n m k).
Proof.
  intros Hm. induction n as [|n IH]; intros k; cbn [state_range]; [constructor|].
  constructor.
  - destruct (kv_get k m) as [v|] eqn:E; [exact (kv_get_ok k m v Hm E)|constructor].
  - destruct (next_key k); [apply IH|constructor].
Qed.

Theorem state_view_i64 st : state_ok st -> view_ok (state_view st).
Proof.
  intros Hs c k n vs H. unfold state_view in H. injection H as <-. apply state_range_ok.
  destruct (st_get c st) as [m|] eqn:E; [exact (st_get_ok c st m Hs E)|constructor].
Qed.

Lemma last_Forall {A} (Pr : A -> Prop) d : forall l, Forall Pr l -> Pr d -> Pr (last l d).
Proof.
  induction l as [|x l IH]; intros F Hd; cbn [last]; [exact Hd|].
  inversion F as [|? ? Hx Hl]; subst. destruct l as [|y l']; [exact Hx|exact (IH Hl Hd)].
Qed.

Lemma post_get_ok ps c k v : ps_ok ps -> post_get ps c k = Some v -> Forall i64 v.
Proof.
  intros Hp H. unfold post_get in H.
  destruct (find _ (rev ps)) as [e|] eqn:E; [|discriminate]. injection H as <-.
  apply find_some in E as [Hin _]. apply in_rev in Hin.
  unfold ps_ok in Hp. rewrite Forall_forall in Hp. exact (Hp e Hin).
Qed.

Lemma rof_loop_ok ps pre c : ps_ok ps -> view_ok pre -> forall n k vs,
  rof_loop n ps pre c k = Some vs -> Forall (Forall i64) vs.
Proof.
  intros Hp Hpre. induction n as [|n IH]; intros k vs H; cbn [rof_loop] in H.
  - injection H as <-. constructor.
  - assert (V : forall v, match post_get ps c k with
                          | Some v => Some v
                          | None => match pre c k 1 with None => None | Some vs => Some (last vs []) end
                          end = Some v -> Forall i64 v).
    { intros v E. destruct (post_get ps c k) as [v0|] eqn:E0.
      - injection E as <-. exact (post_get_ok ps c k v0 Hp E0).
      - destruct (pre c k 1) as [vs0|] eqn:E1; [|discriminate]. injection E as <-.
        apply last_Forall; [exact (Hpre c k 1 vs0 E1)|constructor]. }
    destruct (match post_get ps c k with Some v => Some v | None => _ end) as [v|]; [|discriminate].
    specialize (V v eq_refl).
    destruct (next_key k) as [k'|].
    + destruct (rof_loop n ps pre c k') as [r|] eqn:Er; [|discriminate]. cbn [option_map] in H. injection H as <-.
      constructor; [exact V|exact (IH k' r Er)].
    + injection H as <-. constructor; [exact V|constructor].
Qed.

Theorem read_or_fallback_i64 ps pre : ps_ok ps -> view_ok pre -> view_ok (read_or_fallback ps pre).
Proof.
  intros Hp Hpre c k n vs H. unfold read_or_fallback in H.
  destruct (post_has_contract ps c); [exact (rof_loop_ok ps pre c Hp Hpre _ k vs H)|exact (Hpre c k n vs H)].
Qed.

(* ====================================================================== *)
(* Part D: the solution-set level                                         *)
(* ====================================================================== *)

(* ---- decoded mutations are sublists of the memory ---- *)
Lemma slice_Forall (Pr : Z -> Prop) site a b ws l : slice site a b ws = Ok l -> Forall Pr ws -> Forall Pr l.
Proof.
  unfold slice. destruct (_ || _); [discriminate|]. intros [= <-] F. apply Forall_firstn, Forall_skipn, F.
Qed.

Lemma decode_mutation_i64 ws m : decode_mutation ws = Ok m -> Forall i64 ws -> mut_ok m.
Proof.
  intros H F. unfold decode_mutation in H.
  destruct (zlen ws <? 2); [discriminate|].
  apply bind_ok in H as (k & _ & H). destruct (k <? 0); [discriminate|].
  destruct (zlen ws <=? sat_usize (1 + k)); [discriminate|].
  apply bind_ok in H as (key & Hkey & H). apply bind_ok in H as (vl & _ & H).
  destruct (vl <? 0); [discriminate|].
  destruct (zlen ws <? sat_usize (sat_usize (2 + k) + vl)); [discriminate|].
  apply bind_ok in H as (value & Hval & H). injection H as <-.
  split; cbn [m_key m_value]; [exact (slice_Forall i64 _ _ _ _ _ Hkey F)|exact (slice_Forall i64 _ _ _ _ _ Hval F)].
Qed.

Lemma decode_loop_i64 : forall fuel ws acc ms, Forall i64 ws -> Forall mut_ok acc ->
  decode_loop fuel ws acc = Ok ms -> Forall mut_ok ms.
Proof.
  induction fuel as [|f IH]; intros ws acc ms F Fa H.
  - destruct ws; cbn [decode_loop] in H; [|discriminate]. injection H as <-. apply Forall_rev_i64.
    exact Fa.
  - destruct ws as [|w ws']; cbn [decode_loop] in H; [injection H as <-; apply Forall_rev_i64; exact Fa|].
    apply bind_ok in H as (m & Hm & H).
    eapply IH; [|constructor; [exact (decode_mutation_i64 _ m Hm F)|exact Fa]|exact H].
    apply Forall_skipn. exact F.
Qed.

Theorem decode_mutations_i64 ws ms : decode_mutations ws = Ok ms -> Forall i64 ws -> Forall mut_ok ms.
Proof.
  intros H F. unfold decode_mutations in H. destruct ws as [|n rest]; [discriminate|].
  destruct (n <? 0); [discriminate|]. destruct (n =? 0); [injection H as <-; constructor|].
  inversion F; subst. eapply decode_loop_i64; [eassumption|constructor|exact H].
Qed.

(* ---- apply_muts / apply_outputs / decode_mutations_set ---- *)
Lemma apply_muts_ok : forall ms seen acc seen' acc', Forall mut_ok ms -> Forall mut_ok acc ->
  apply_muts seen ms acc = Some (seen', acc') -> Forall mut_ok acc'.
Proof.
  induction ms as [|m ms IH]; intros seen acc seen' acc' Fm Fa H; cbn [apply_muts] in H.
  - injection H as _ <-. exact Fa.
  - inversion Fm as [|? ? Hm Hms]; subst. destruct (key_in (m_key m) seen); [discriminate|].
    eapply IH; [exact Hms| |exact H]. apply Forall_app. split; [exact Fa|constructor; [exact Hm|constructor]].
Qed.

Lemma apply_outputs_np ix : forall mems seen acc, no_panic (apply_outputs ix seen mems acc).
Proof.
  induction mems as [|mem r IH]; intros seen acc; cbn [apply_outputs]; [apply np_ok|].
  destruct (decode_mutations_total mem) as [NP _].
  destruct (decode_mutations mem) as [ms|e|s|]; [|apply np_err|exfalso; exact (NP s eq_refl)|apply np_fuel].
  destruct (apply_muts seen ms acc) as [[seen' acc']|]; [apply IH|apply np_err].
Qed.

Lemma apply_outputs_ok ix : forall mems seen acc acc', Forall (Forall i64) mems -> Forall mut_ok acc ->
  apply_outputs ix seen mems acc = Ok acc' -> Forall mut_ok acc'.
Proof.
  induction mems as [|mem r IH]; intros seen acc acc' Fm Fa H; cbn [apply_outputs] in H.
  - injection H as <-. exact Fa.
  - inversion Fm as [|? ? Hmem Hr]; subst.
    destruct (decode_mutations mem) as [ms|e|s|] eqn:Ed; try discriminate H.
    destruct (apply_muts seen ms acc) as [[seen' acc'']|] eqn:Ea; [|discriminate H].
    eapply IH; [exact Hr| |exact H].
    eapply apply_muts_ok; [exact (decode_mutations_i64 mem ms Ed Hmem)|exact Fa|exact Ea].
Qed.

Lemma update_nth_Forall {A} (Pr : A -> Prop) f : (forall x, Pr x -> Pr (f x)) ->
  forall l n, Forall Pr l -> Forall Pr (update_nth n f l).
Proof.
  intros Hf. induction l as [|x l IH]; intros n F; destruct n; cbn [update_nth]; try constructor;
    inversion F as [|? ? Hx Hl]; subst; auto.
Qed.

Definition data_ok (data : list (nat * list (list Z))) : Prop := Forall (fun d => Forall (Forall i64) (snd d)) data.

Lemma decode_mutations_set_np : forall data sols, no_panic (decode_mutations_set data sols).
Proof.
  induction data as [|[ix mems] rest IH]; intros sols; cbn [decode_mutations_set]; [apply np_ok|].
  apply bind_no_panic; [apply apply_outputs_np|]. intros ms _. apply IH.
Qed.

Lemma empty_solution_ok2 : sol_ok2 empty_solution.
Proof.
  split; [|constructor]. unfold sol_ok, empty_solution; cbn [sol_data sol_contract sol_predicate].
  split; [constructor|]. split; [vm_compute; discriminate|]. split; [constructor|].
  split; [reflexivity|]. split; [apply Forall_repeat; unfold byte; lia|].
  split; [reflexivity|apply Forall_repeat; unfold byte; lia].
Qed.

Lemma decode_mutations_set_ok : forall data sols sols', data_ok data -> Forall sol_ok2 sols ->
  decode_mutations_set data sols = Ok sols' -> Forall sol_ok2 sols'.
Proof.
  induction data as [|[ix mems] rest IH]; intros sols sols' Fd Fs H; cbn [decode_mutations_set] in H.
  - injection H as <-. exact Fs.
  - inversion Fd as [|? ? Hm Hrest]; subst. cbn [snd] in Hm.
    apply bind_ok in H as (ms & Hms & H).
    assert (Hnth : sol_ok2 (nth ix sols empty_solution)) by (apply Forall_nth; [exact Fs|exact empty_solution_ok2]).
    pose proof (apply_outputs_ok ix mems _ _ ms Hm (proj2 Hnth) Hms) as Fms.
    eapply IH; [exact Hrest| |exact H].
    apply update_nth_Forall; [|exact Fs]. intros s [Hs _]. split; [exact Hs|exact Fms].
Qed.

(* ---- check_predicate ---- *)
Section Set_.
  Variables (fuel : nat) (lk : lookup) (collect_all : bool).
  Hypothesis Hlk : lk_ok lk.
  Hypothesis Hf : Z.of_nat fuel * 10240 <= i64_max.

  Lemma node_program_ok p ix : Forall byte (node_program lk p ix) /\ zlen (node_program lk p ix) <= usize_max.
  Proof.
    unfold node_program. destruct (nth_error (p_nodes p) ix); [apply Hlk|].
    split; [constructor|]. rewrite zlen_nil, usize_max_eq. lia.
  Qed.

  Notation caches_ok := (Forall (cache_ok sm_ok)).
  Notation res_ok := (ires_ok sm_ok (Forall i64)).

  Theorem check_predicate_np mode c cache : ctx_ok c -> cache_ok sm_ok cache ->
    no_panic (check_predicate fuel lk collect_all mode c cache).
  Proof.
    intros Hc Hcache. unfold check_predicate.
    set (p := lk_predicate lk _ _).
    refine (inner_np_gen _ p collect_all _ sm_ok (Forall i64) _ _ mode cache Hcache).
    - intros ix leaf ins Hins. destruct (node_program_ok p ix) as [Hb Hl].
      apply run_program_np; assumption.
    - intros ix leaf ins r Hins H. destruct (node_program_ok p ix) as [Hb Hl].
      eapply run_program_out_ok; [exact Hc|exact Hb|exact Hl|exact Hins|exact H].
  Qed.

  Theorem check_predicate_ok mode c cache r : ctx_ok c -> cache_ok sm_ok cache ->
    check_predicate fuel lk collect_all mode c cache = Ok r -> res_ok r.
  Proof.
    intros Hc Hcache. unfold check_predicate.
    set (p := lk_predicate lk _ _).
    refine (inner_ok_gen _ p collect_all _ sm_ok (Forall i64) _ mode cache r Hcache).
    intros ix leaf ins r' Hins H. destruct (node_program_ok p ix) as [Hb Hl].
      eapply run_program_out_ok; [exact Hc|exact Hb|exact Hl|exact Hins|exact H].
  Qed.

  (* ---- check_set_predicates ---- *)
  Section Sols.
    Variables (mode : run_mode) (sols : list solution) (pre post : view).
    Hypothesis Hsols : Forall sol_ok sols.
    Hypothesis Hpre : view_ok pre.
    Hypothesis Hpost : view_ok post.

    Lemma ctx_i_ok i : (i < length sols)%nat ->
      ctx_ok {| sc_solutions := sols; sc_index := i; sc_pre := pre; sc_post := post |}.
    Proof. intros Hi. split; [exact Hsols|split; [exact Hi|split; [exact Hpre|exact Hpost]]]. Qed.

    Lemma caches_nth_ok caches i : caches_ok caches -> cache_ok sm_ok (nth i caches []).
    Proof. intros H. apply Forall_nth; [exact H|constructor]. Qed.

    Lemma check_solutions_go_np caches : caches_ok caches -> forall ixs,
      Forall (fun i => (i < length sols)%nat) ixs ->
      no_panic (check_solutions_go fuel lk collect_all mode sols pre post ixs caches).
    Proof.
      intros Hca. induction ixs as [|i rest IH]; intros Fi; cbn [check_solutions_go]; [apply np_ok|].
      inversion Fi as [|? ? Hi Hrest]; subst.
      apply bind_no_panic; [apply check_predicate_np; [apply ctx_i_ok, Hi|apply caches_nth_ok, Hca]|].
      intros r _. apply bind_no_panic; [apply IH, Hrest|]. intros rs _. apply np_ok.
    Qed.

    Lemma check_solutions_go_ok caches : caches_ok caches -> forall ixs rs,
      Forall (fun i => (i < length sols)%nat) ixs ->
      check_solutions_go fuel lk collect_all mode sols pre post ixs caches = Ok rs -> Forall res_ok rs.
    Proof.
      intros Hca. induction ixs as [|i rest IH]; intros rs Fi H; cbn [check_solutions_go] in H.
      - injection H as <-. constructor.
      - inversion Fi as [|? ? Hi Hrest]; subst.
        apply bind_ok in H as (r & Hr & H). apply bind_ok in H as (rs' & Hrs & H). injection H as <-.
        constructor; [|exact (IH rs' Hrest Hrs)].
        eapply check_predicate_ok; [apply ctx_i_ok, Hi|apply caches_nth_ok, Hca|exact Hr].
    Qed.

    Lemma seq_lt n : forall a, Forall (fun i => (i < a + n)%nat) (seq a n).
    Proof.
      induction n as [|n IH]; intros a; cbn [seq]; [constructor|]. constructor; [lia|].
      eapply Forall_impl; [|apply (IH (S a))]. cbn beta. intros i Hi. lia.
    Qed.

    Lemma combine_Forall_snd {A B} (Pr : B -> Prop) : forall (xs : list A) (ys : list B),
      Forall Pr ys -> Forall (fun xy => Pr (snd xy)) (combine xs ys).
    Proof.
      induction xs as [|x xs IH]; intros ys F; cbn [combine]; [constructor|].
      destruct ys as [|y ys]; [constructor|]. inversion F; subst. constructor; [assumption|apply IH; assumption].
    Qed.

    Definition sres_ok (r : set_result) : Prop :=
      caches_ok (sr_caches r) /\ (forall g data, sr_res r = Ok (g, data) -> data_ok data).

    Theorem check_set_predicates_np caches : caches_ok caches ->
      no_panic (check_set_predicates fuel lk collect_all mode sols pre post caches).
    Proof.
      intros Hca. unfold check_set_predicates.
      apply bind_no_panic; [apply check_solutions_go_np; [exact Hca|apply (seq_lt (length sols) 0)]|].
      intros rs _. destruct (flat_map _ _); apply np_ok.
    Qed.

    Theorem check_set_predicates_ok caches r : caches_ok caches ->
      check_set_predicates fuel lk collect_all mode sols pre post caches = Ok r -> sres_ok r.
    Proof.
      intros Hca H. unfold check_set_predicates in H.
      apply bind_ok in H as (rs & Hrs & H).
      apply check_solutions_go_ok in Hrs; [|exact Hca|apply (seq_lt (length sols) 0)].
      pose proof (combine_Forall_snd res_ok (seq 0 (length sols)) rs Hrs) as Hix.
      destruct (flat_map _ _) as [|f fs] in H; injection H as <-; split; cbn [sr_caches sr_res].
      - induction Hix as [|ir l Hir _ IH]; cbn [map]; [constructor|]. constructor; [apply Hir|exact IH].
      - intros g data [= _ <-]. unfold data_ok.
        induction Hix as [|ir l Hir _ IH]; cbn [map]; [constructor|]. constructor; [|exact IH]. cbn [snd].
        destruct (ir_res (snd ir)) as [[g' d]| | |] eqn:E; try constructor. exact (proj2 Hir g' d E).
      - clear. induction caches as [|x l IH]; cbn [map]; constructor; [constructor|exact IH].
      - intros g data; discriminate.
    Qed.
  End Sols.

  (* ---- check_and_compute ---- *)
  Definition cres_ok (r : compute_result) : Prop :=
    caches_ok (cr_caches r) /\ (forall g sols', cr_res r = Ok (g, sols') -> Forall sol_ok2 sols').

  Lemma sols2_sols sols : Forall sol_ok2 sols -> Forall sol_ok sols.
  Proof. apply Forall_impl. intros s [H _]. exact H. Qed.

  Theorem check_and_compute_np mode sols pre post caches :
    Forall sol_ok2 sols -> view_ok pre -> view_ok post -> caches_ok caches ->
    no_panic (check_and_compute fuel lk collect_all mode sols pre post caches).
  Proof.
    intros Hs Hpre Hpost Hca. unfold check_and_compute.
    apply bind_no_panic; [apply check_set_predicates_np; auto using sols2_sols|].
    intros r Hr.
    assert (NPr : forall s, sr_res r <> Panic s).
    { unfold check_set_predicates in Hr. apply bind_ok in Hr as (rs & _ & Hr).
      destruct (flat_map _ _) in Hr; injection Hr as <-; cbn [sr_res]; intros s; discriminate. }
    destruct (sr_res r) as [[g data]|e|s|]; [|apply np_ok|exfalso; exact (NPr s eq_refl)|apply np_fuel].
    pose proof (decode_mutations_set_np data sols) as NP.
    destruct (decode_mutations_set data sols) as [sols'|e|s|]; [apply np_ok|apply np_ok|exfalso; exact (NP s eq_refl)|apply np_fuel].
  Qed.

  Theorem check_and_compute_ok mode sols pre post caches r :
    Forall sol_ok2 sols -> view_ok pre -> view_ok post -> caches_ok caches ->
    check_and_compute fuel lk collect_all mode sols pre post caches = Ok r -> cres_ok r.
  Proof.
    intros Hs Hpre Hpost Hca H. unfold check_and_compute in H.
    apply bind_ok in H as (r0 & Hr0 & H).
    apply check_set_predicates_ok in Hr0; auto using sols2_sols. destruct Hr0 as [C0 D0].
    destruct (sr_res r0) as [[g data]|e|s|]; try discriminate H.
    - specialize (D0 g data eq_refl).
      destruct (decode_mutations_set data sols) as [sols'|e|s|] eqn:Ed; try discriminate H; injection H as <-;
        split; cbn [cr_caches cr_res]; try exact C0.
      + intros g' sols'' [= _ <-]. exact (decode_mutations_set_ok data sols sols' D0 Hs Ed).
      + intros g' sols''; discriminate.
    - injection H as <-. split; cbn [cr_caches cr_res]; [exact C0|intros g' sols''; discriminate].
  Qed.

  (* ---- two_pass ---- *)
  Lemma build_post_state_ok sols : Forall sol_ok2 sols -> ps_ok (build_post_state sols).
  Proof.
    intros H. unfold ps_ok, build_post_state. induction H as [|s l Hs _ IH]; cbn [flat_map]; [constructor|].
    apply Forall_app. split; [|exact IH]. destruct Hs as [_ Hm].
    induction Hm as [|m ms Hm _ IHm]; cbn [map]; [constructor|]. constructor; [cbn [snd]; apply Hm|exact IHm].
  Qed.

  Theorem two_pass_np sols pre_state : Forall sol_ok2 sols -> state_ok pre_state ->
    no_panic (two_pass fuel lk collect_all sols pre_state).
  Proof.
    intros Hs Hst. unfold two_pass.
    pose proof (state_view_i64 pre_state Hst) as Hpre.
    assert (Hc0 : caches_ok (map (fun _ : solution => @nil (nat * sm)) sols)).
    { clear. induction sols as [|x l IH]; cbn [map]; constructor; [constructor|exact IH]. }
    assert (Hpost0 : view_ok (read_or_fallback [] (state_view pre_state))).
    { apply read_or_fallback_i64; [constructor|exact Hpre]. }
    apply bind_no_panic; [apply check_and_compute_np; assumption|]. intros r1 Hr1.
    assert (NP1 : forall s, cr_res r1 <> Panic s).
    { clear -Hr1. unfold check_and_compute in Hr1. apply bind_ok in Hr1 as (r0 & _ & H).
      destruct (sr_res r0) as [[g data]|e|s|]; try discriminate H.
      - destruct (decode_mutations_set data sols); try discriminate H; injection H as <-; intros s; discriminate.
      - injection H as <-. intros s; discriminate. }
    apply check_and_compute_ok in Hr1; try assumption. destruct Hr1 as [C1 S1].
    destruct (cr_res r1) as [[g1 sols1]|e|s|]; [|apply np_ok|exfalso; exact (NP1 s eq_refl)|apply np_fuel].
    specialize (S1 g1 sols1 eq_refl).
    assert (Hpost1 : view_ok (read_or_fallback (build_post_state sols1) (state_view pre_state))).
    { apply read_or_fallback_i64; [apply build_post_state_ok, S1|exact Hpre]. }
    apply bind_no_panic; [apply check_and_compute_np; assumption|]. intros r2 Hr2.
    assert (NP2 : forall s, cr_res r2 <> Panic s).
    { clear -Hr2. unfold check_and_compute in Hr2. apply bind_ok in Hr2 as (r0 & _ & H).
      destruct (sr_res r0) as [[g data]|e|s|]; try discriminate H.
      - destruct (decode_mutations_set data sols1); try discriminate H; injection H as <-; intros s; discriminate.
      - injection H as <-. intros s; discriminate. }
    destruct (cr_res r2) as [[g2 sols2]|e|s|]; [apply np_ok|apply np_ok|exfalso; exact (NP2 s eq_refl)|apply np_fuel].
  Qed.
End Set_.

(* ====================================================================== *)
(* The statements in the form used by Properties/C06.v                    *)
(* ====================================================================== *)
Theorem run_program_no_panic fuel c prog leaf parents :
  Forall sol_ok (sc_solutions c) -> (sc_index c < length (sc_solutions c))%nat ->
  view_ok (sc_pre c) -> view_ok (sc_post c) ->
  Forall sm_ok parents -> Forall byte prog -> zlen prog <= usize_max -> Z.of_nat fuel * 10240 <= i64_max ->
  (forall s, run_program fuel c prog leaf parents <> Panic s) /\
  (forall st mem g, run_program fuel c prog leaf parents = Ok (PRun (OutParent st mem) g) ->
     Forall i64 st /\ Forall i64 mem /\ zlen st <= 4096 /\ zlen mem <= 10240) /\
  (forall mem g, run_program fuel c prog leaf parents = Ok (PRun (OutLeaf (DataOutput mem)) g) ->
     Forall i64 mem /\ zlen mem <= 10240).
Proof.
  intros H1 H2 H3 H4 Hp Hb Hl Hf.
  assert (Hc : ctx_ok c) by (split; [exact H1|split; [exact H2|split; [exact H3|exact H4]]]).
  split; [exact (run_program_np fuel c prog Hc Hb Hl Hf leaf parents Hp)|]. split.
  - intros st mem g. exact (run_program_out fuel c prog Hc Hb Hl leaf parents st mem g Hp).
  - intros mem g. exact (run_program_data fuel c prog Hc Hb Hl leaf parents mem g Hp).
Qed.

Theorem check_predicate_no_panic fuel lk collect_all mode c cache :
  lk_ok lk -> Z.of_nat fuel * 10240 <= i64_max ->
  Forall sol_ok (sc_solutions c) -> (sc_index c < length (sc_solutions c))%nat ->
  view_ok (sc_pre c) -> view_ok (sc_post c) ->
  Forall (fun e => sm_ok (snd e)) cache ->
  (forall s, check_predicate fuel lk collect_all mode c cache <> Panic s) /\
  (forall r, check_predicate fuel lk collect_all mode c cache = Ok r ->
     Forall (fun e => sm_ok (snd e)) (ir_cache r) /\
     (forall g d, ir_res r = Ok (g, d) -> Forall (Forall i64) d)).
Proof.
  intros Hlk Hf H1 H2 H3 H4 Hca.
  assert (Hc : ctx_ok c) by (split; [exact H1|split; [exact H2|split; [exact H3|exact H4]]]).
  split; [exact (check_predicate_np fuel lk collect_all Hlk Hf mode c cache Hc Hca)|].
  intros r Hr. exact (check_predicate_ok fuel lk collect_all Hlk mode c cache r Hc Hca Hr).
Qed.

Theorem check_set_predicates_no_panic fuel lk collect_all mode sols pre post caches :
  lk_ok lk -> Z.of_nat fuel * 10240 <= i64_max ->
  Forall sol_ok sols -> view_ok pre -> view_ok post ->
  Forall (Forall (fun e => sm_ok (snd e))) caches ->
  (forall s, check_set_predicates fuel lk collect_all mode sols pre post caches <> Panic s) /\
  (forall r, check_set_predicates fuel lk collect_all mode sols pre post caches = Ok r ->
     Forall (Forall (fun e => sm_ok (snd e))) (sr_caches r) /\
     (forall g data, sr_res r = Ok (g, data) -> Forall (fun d => Forall (Forall i64) (snd d)) data) /\
     (forall s, sr_res r <> Panic s)).
Proof.
  intros Hlk Hf Hs Hpre Hpost Hca.
  split; [exact (check_set_predicates_np fuel lk collect_all Hlk Hf mode sols pre post Hs Hpre Hpost caches Hca)|].
  intros r Hr.
  destruct (check_set_predicates_ok fuel lk collect_all Hlk mode sols pre post Hs Hpre Hpost caches r Hca Hr) as [A B].
  split; [exact A|split; [exact B|]].
  unfold check_set_predicates in Hr. apply bind_ok in Hr as (rs & _ & Hr).
  destruct (flat_map _ _) in Hr; injection Hr as <-; cbn [sr_res]; intros s; discriminate.
Qed.

Theorem check_and_compute_no_panic fuel lk collect_all mode sols pre post caches :
  lk_ok lk -> Z.of_nat fuel * 10240 <= i64_max ->
  Forall sol_ok2 sols -> view_ok pre -> view_ok post ->
  Forall (Forall (fun e => sm_ok (snd e))) caches ->
  (forall s, check_and_compute fuel lk collect_all mode sols pre post caches <> Panic s) /\
  (forall r, check_and_compute fuel lk collect_all mode sols pre post caches = Ok r ->
     Forall (Forall (fun e => sm_ok (snd e))) (cr_caches r) /\
     (forall g sols', cr_res r = Ok (g, sols') -> Forall sol_ok2 sols')).
Proof.
  intros Hlk Hf Hs Hpre Hpost Hca.
  split; [exact (check_and_compute_np fuel lk collect_all Hlk Hf mode sols pre post caches Hs Hpre Hpost Hca)|].
  intros r Hr. exact (check_and_compute_ok fuel lk collect_all Hlk mode sols pre post caches r Hs Hpre Hpost Hca Hr).
Qed.

Theorem two_pass_no_panic fuel lk collect_all sols pre_state :
  lk_ok lk -> Z.of_nat fuel * 10240 <= i64_max -> Forall sol_ok2 sols -> state_ok pre_state ->
  forall s, two_pass fuel lk collect_all sols pre_state <> Panic s.
Proof. intros Hlk Hf Hs Hst. exact (two_pass_np fuel lk collect_all Hlk Hf sols pre_state Hs Hst). Qed.

(* the results carried inside a successful two_pass are never Panic either *)
Theorem two_pass_result_no_panic fuel lk collect_all sols pre_state r :
  two_pass fuel lk collect_all sols pre_state = Ok r -> forall s, tp_res r <> Panic s.
Proof.
  intros H. unfold two_pass in H. apply bind_ok in H as (r1 & _ & H).
  destruct (cr_res r1) as [[g1 sols1]|e|s0|]; try discriminate H.
  - apply bind_ok in H as (r2 & _ & H).
    destruct (cr_res r2) as [[g2 sols2]|e|s0|]; try discriminate H; injection H as <-; intros s; discriminate.
  - injection H as <-. intros s; discriminate.
Qed.

(* topological level sort: both stages are total *)
Theorem level_sort_total p :
  (forall s, create_parent_map p <> Panic s) /\ create_parent_map p <> OutOfFuel /\
  (forall pm, create_parent_map p = Ok pm ->
     parallel_topo_sort p pm <> OutOfFuel /\ forall s, parallel_topo_sort p pm <> Panic s).
Proof.
  destruct (create_parent_map_total p) as [A B]. split; [exact A|split; [exact B|]].
  intros pm H. exact (kahn_no_fuel_no_panic p pm H).
Qed.
