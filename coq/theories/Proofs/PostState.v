(* C03: next_key is the successor on keys, read_or_fallback is the overlay of the proposed mutations on the
   pre-state, the overlay does not depend on the order of the solutions, pre-state reads ignore the post view. *)
From Coq Require Import ZArith List Lia Bool Permutation.
From EB Require Import Check.Set Spec.TwoPassSpec.
Import ListNotations.
Open Scope list_scope.
Open Scope Z_scope.

(* ================================================================== *)
(* MUST 3: next_key *)
(* the same on the reversed key (least significant word first) *)
Definition numr (rk : list Z) : Z := fold_right (fun w a => a * 2^64 + (w - i64_min)) 0 rk.

Lemma num_numr k : num k = numr (rev k).
Proof. unfold num, numr. symmetry. apply (fold_left_rev_right (fun w a => a * 2^64 + (w - i64_min))). Qed.

Lemma numr_cons w r : numr (w :: r) = numr r * 18446744073709551616 + (w + 9223372036854775808).
Proof. unfold numr. cbn [fold_right]. change (2^64) with 18446744073709551616.
  unfold i64_min, two63. lia. Qed.

Lemma i64_unfold w : i64 w <-> -9223372036854775808 <= w <= 9223372036854775807.
Proof. unfold i64, i64_min, i64_max, two63. lia. Qed.
Lemma i64_max_val : i64_max = 9223372036854775807. Proof. reflexivity. Qed.
Lemma i64_min_val : i64_min = -9223372036854775808. Proof. reflexivity. Qed.

Lemma next_key_rev_spec : forall rk rk',
  next_key_rev rk = Some rk' ->
  numr rk' = numr rk + 1 /\ length rk' = length rk /\ (Forall i64 rk -> Forall i64 rk').
Proof.
  induction rk as [|w r IH]; intros rk' H; cbn [next_key_rev] in H.
  - discriminate.
  - destruct (Z.eqb_spec w i64_max) as [Hw|Hw].
    + destruct (next_key_rev r) as [r'|] eqn:Er; cbn [option_map] in H. 2: discriminate.
      injection H as H. subst rk'. destruct (IH r' eq_refl) as [Hn [Hl Hf]].
      rewrite !numr_cons, Hn. rewrite i64_max_val in Hw. rewrite i64_min_val. subst w.
      split. { lia. } split. { cbn [length]. congruence. }
      intros Hall. inversion Hall as [|? ? Hw Hr]; subst. constructor.
      * apply i64_unfold. lia.
      * apply Hf. exact Hr.
    + injection H as H. subst rk'. rewrite !numr_cons. split. { lia. } split. { reflexivity. }
      intros Hall. inversion Hall as [|? ? Hw' Hr]; subst. constructor.
      * unfold i64, i64_min, i64_max, two63 in *. lia.
      * exact Hr.
Qed.

Lemma next_key_rev_none : forall rk, next_key_rev rk = None <-> Forall (fun w => w = i64_max) rk.
Proof.
  induction rk as [|w r IH]; cbn [next_key_rev].
  - split; auto.
  - destruct (Z.eqb_spec w i64_max) as [Hw|Hw].
    + destruct (next_key_rev r) as [r'|] eqn:Er; cbn [option_map].
      * split. { discriminate. } intros Hall. inversion Hall as [|? ? _ Hr]; subst.
        apply IH in Hr. discriminate.
      * split. 2: reflexivity. intros _. constructor. { exact Hw. } apply IH. reflexivity.
    + split. { discriminate. } intros Hall. inversion Hall; subst. contradiction.
Qed.

Theorem next_key_is_successor k k' :
  next_key k = Some k' ->
  num k' = num k + 1 /\ length k' = length k /\ (Forall i64 k -> Forall i64 k').
Proof.
  unfold next_key. intros H. destruct (next_key_rev (rev k)) as [rk'|] eqn:E; cbn [option_map] in H.
  2: discriminate. injection H as H. subst k'.
  destruct (next_key_rev_spec _ _ E) as [Hn [Hl Hf]].
  rewrite !num_numr, rev_involutive. split. { exact Hn. } split.
  - rewrite rev_length, Hl, rev_length. reflexivity.
  - intros Hall. apply Forall_rev. apply Hf. apply Forall_rev. exact Hall.
Qed.

Lemma Forall_rev_iff {A} (P : A -> Prop) l : Forall P (rev l) <-> Forall P l.
Proof.
  split; intros H.
  - rewrite <- (rev_involutive l). apply Forall_rev. exact H.
  - apply Forall_rev. exact H.
Qed.

Lemma next_key_none_all_max k : next_key k = None <-> Forall (fun w => w = i64_max) k.
Proof.
  unfold next_key. rewrite <- Forall_rev_iff, <- next_key_rev_none.
  destruct (next_key_rev (rev k)); cbn [option_map]; split; congruence.
Qed.

Theorem next_key_none k : next_key k = None <-> k = [] \/ Forall (fun w => w = i64_max) k.
Proof.
  rewrite next_key_none_all_max. split. { auto. } intros [H|H]. { subst. constructor. } exact H.
Qed.

(* the number determines the key among keys of the same length: so next_key k is THE successor of k *)
Lemma numr_inj : forall a b, length a = length b -> Forall i64 a -> Forall i64 b -> numr a = numr b -> a = b.
Proof.
  induction a as [|x a IH]; intros b Hl Ha Hb Hn; destruct b as [|y b]; try discriminate.
  - reflexivity.
  - rewrite !numr_cons in Hn. inversion Ha as [|? ? Hx Ha']; subst. inversion Hb as [|? ? Hy Hb']; subst.
    unfold i64, i64_min, i64_max, two63 in Hx, Hy.
    assert (numr a = numr b /\ x = y) as [Hab Hxy] by lia.
    f_equal. { exact Hxy. } apply IH; auto.
Qed.

Theorem num_inj a b : length a = length b -> Forall i64 a -> Forall i64 b -> num a = num b -> a = b.
Proof.
  intros Hl Ha Hb Hn. rewrite !num_numr in Hn. apply numr_inj in Hn.
  - rewrite <- (rev_involutive a), Hn. apply rev_involutive.
  - rewrite !rev_length. exact Hl.
  - apply Forall_rev. exact Ha.
  - apply Forall_rev. exact Hb.
Qed.

Theorem next_key_unique k k' k'' :
  Forall i64 k -> next_key k = Some k' ->
  Forall i64 k'' -> length k'' = length k -> num k'' = num k + 1 -> k'' = k'.
Proof.
  intros Hk H Hk'' Hl Hn. destruct (next_key_is_successor k k' H) as [Hn' [Hl' Hf]].
  apply num_inj; auto; congruence.
Qed.

(* ================================================================== *)
(* MUST 4: the overlay *)
Lemma zlist_eqb_spec a b : zlist_eqb a b = true <-> a = b.
Proof. unfold zlist_eqb. destruct (list_eq_dec Z.eq_dec a b); split; congruence. Qed.
Lemma zlist_eqb_refl a : zlist_eqb a a = true.
Proof. apply zlist_eqb_spec. reflexivity. Qed.
Lemma zlist_eqb_false a b : zlist_eqb a b = false <-> a <> b.
Proof. unfold zlist_eqb. destruct (list_eq_dec Z.eq_dec a b); split; congruence. Qed.


Lemma last_entry_none ps c k : last_entry ps c k = None <-> no_entry ps c k.
Proof.
  unfold no_entry. induction ps as [|[[c' k'] v'] r IH]; cbn [last_entry In].
  - split. { intros _ v []. } reflexivity.
  - destruct (last_entry r c k) as [w|] eqn:E.
    + split. { discriminate. } intros H. exfalso.
      assert (Hn : Some w = None). { apply IH. intros v Hv. apply (H v). right. exact Hv. } discriminate.
    + destruct (list_eq_dec Z.eq_dec c' c) as [Hc|Hc]; [destruct (list_eq_dec Z.eq_dec k' k) as [Hk|Hk]|].
      * subst. split. { discriminate. } intros H. exfalso. apply (H v'). left. reflexivity.
      * split. 2: reflexivity. intros _ v [Hv|Hv]. { congruence. } revert Hv. apply IH. reflexivity.
      * split. 2: reflexivity. intros _ v [Hv|Hv]. { congruence. } revert Hv. apply IH. reflexivity.
Qed.

(* declarative reading: (c,k,v) occurs in ps and no entry for (c,k) occurs after it *)
Theorem last_entry_spec ps c k v :
  last_entry ps c k = Some v <-> exists ps1 ps2, ps = ps1 ++ (c, k, v) :: ps2 /\ no_entry ps2 c k.
Proof.
  induction ps as [|[[c' k'] v'] r IH]; cbn [last_entry].
  - split. { discriminate. } intros [ps1 [ps2 [H _]]]. destruct ps1; discriminate.
  - destruct (last_entry r c k) as [w|] eqn:E.
    + split.
      * intros H. apply IH in H. destruct H as [ps1 [ps2 [H1 H2]]].
        exists ((c', k', v') :: ps1), ps2. subst r. auto.
      * intros [ps1 [ps2 [H1 H2]]]. destruct ps1 as [|e ps1]; cbn [app] in H1.
        -- injection H1 as Hc Hk Hv Hr. subst r. apply last_entry_none in H2. congruence.
        -- injection H1 as He Hr. apply IH. eauto.
    + split.
      * intros H. destruct (list_eq_dec Z.eq_dec c' c) as [Hc|Hc]; [destruct (list_eq_dec Z.eq_dec k' k) as [Hk|Hk]|]; try discriminate.
        injection H as H. subst. exists [], r. split. { reflexivity. } apply last_entry_none. exact E.
      * intros [ps1 [ps2 [H1 H2]]]. destruct ps1 as [|e ps1]; cbn [app] in H1.
        -- injection H1 as Hc Hk Hv Hr. subst c' k' v'.
           destruct (list_eq_dec Z.eq_dec c c) as [_|Hc]; [destruct (list_eq_dec Z.eq_dec k k) as [_|Hk]|]; congruence.
        -- injection H1 as He Hr. assert (Hs : None = Some v) by (apply IH; eauto). discriminate.
Qed.

(* when (contract,key) pairs are not repeated, it is simply membership *)
Lemma NoDup_app_r' {A} (l1 l2 : list A) : NoDup (l1 ++ l2) -> NoDup l2.
Proof.
  induction l1 as [|a l1 IH]; intros H.
  - exact H.
  - cbn in H. inversion H; subst. apply IH. assumption.
Qed.

Theorem last_entry_nodup ps c k v :
  NoDup (map fst ps) -> (last_entry ps c k = Some v <-> In (c, k, v) ps).
Proof.
  intros Hn. rewrite last_entry_spec. split.
  - intros [ps1 [ps2 [H _]]]. subst. apply in_elt.
  - intros H. apply in_split in H. destruct H as [ps1 [ps2 H]]. exists ps1, ps2. split. { exact H. }
    subst ps. rewrite map_app in Hn. apply NoDup_app_r' in Hn. cbn [map fst] in Hn.
    inversion Hn as [|? ? Hnot _]; subst. intros w Hw. apply Hnot.
    apply (in_map fst) in Hw. exact Hw.
Qed.

(* --- the model's post_get is last_entry --- *)
Lemma find_app {A} (f : A -> bool) l1 l2 :
  find f (l1 ++ l2) = match find f l1 with Some x => Some x | None => find f l2 end.
Proof. induction l1 as [|a l1 IH]; cbn [app find]. { reflexivity. } destruct (f a); auto. Qed.

Theorem post_get_last_entry ps c k : post_get ps c k = last_entry ps c k.
Proof.
  unfold post_get. induction ps as [|[[c' k'] v'] r IH]; cbn [rev last_entry].
  - reflexivity.
  - rewrite find_app. rewrite <- IH.
    destruct (find _ (rev r)) as [e|]. { reflexivity. }
    cbn [find fst snd]. unfold zlist_eqb.
    destruct (list_eq_dec Z.eq_dec c' c); [destruct (list_eq_dec Z.eq_dec k' k)|]; reflexivity.
Qed.

Lemma post_has_contract_spec ps c :
  post_has_contract ps c = true <-> exists k v, In (c, k, v) ps.
Proof.
  unfold post_has_contract. rewrite existsb_exists. split.
  - intros [[[c' k] v] [Hin He]]. cbn [fst] in He. apply zlist_eqb_spec in He. subst. eauto.
  - intros [k [v H]]. exists (c, k, v). split. { exact H. } apply zlist_eqb_refl.
Qed.

Lemma post_has_contract_false ps c k :
  post_has_contract ps c = false -> last_entry ps c k = None.
Proof.
  intros H. apply last_entry_none. intros v Hv.
  assert (Ht : post_has_contract ps c = true) by (apply post_has_contract_spec; eauto). congruence.
Qed.


Lemma collect_some {A} (l : list (option A)) vs : collect l = Some vs <-> l = map Some vs.
Proof.
  revert vs. induction l as [|x l IH]; intros vs; cbn [collect].
  - split. { intros H. injection H as <-. reflexivity. } intros H. destruct vs; [reflexivity|discriminate].
  - destruct x as [v|].
    + destruct (collect l) as [r|] eqn:E; cbn [option_map].
      * split. { intros H. injection H as <-. cbn [map]. f_equal. apply IH. reflexivity. }
        intros H. destruct vs as [|v0 vs]; cbn [map] in H. { discriminate. }
        injection H as Hv Hl. subst v0. apply IH in Hl. congruence.
      * split. { discriminate. } intros H. destruct vs as [|v0 vs]; cbn [map] in H. { discriminate. }
        injection H as Hv Hl. apply IH in Hl. discriminate.
    + split. { discriminate. } intros H. destruct vs; discriminate.
Qed.

Lemma collect_none {A} (l : list (option A)) : collect l = None <-> In None l.
Proof.
  induction l as [|x l IH]; cbn [collect In].
  - split. { discriminate. } tauto.
  - destruct x as [v|].
    + destruct (collect l); cbn [option_map].
      * split. { discriminate. } intros [H|H]. { discriminate. } apply IH in H. discriminate.
      * split. { intros _. right. apply IH. reflexivity. } reflexivity.
    + split; auto.
Qed.

Lemma collect_map_some {A B} (g : A -> B) l : collect (map (fun x => Some (g x)) l) = Some (map g l).
Proof. induction l as [|a l IH]; cbn [map collect]. { reflexivity. } rewrite IH. reflexivity. Qed.

Lemma keys_from_length k m : (length (keys_from k m) <= m)%nat.
Proof.
  revert k. induction m as [|m IH]; intros k; cbn [keys_from length]. { lia. }
  destruct (next_key k) as [k'|]. { specialize (IH k'). lia. } cbn. lia.
Qed.

(* the i-th key of the range is the i-th successor of k *)
Lemma keys_from_nth : forall m k i k',
  nth_error (keys_from k m) i = Some k' ->
  num k' = num k + Z.of_nat i /\ length k' = length k /\ (Forall i64 k -> Forall i64 k').
Proof.
  induction m as [|m IH]; intros k i k' H; cbn [keys_from] in H.
  - destruct i; discriminate.
  - destruct i as [|i]; cbn [nth_error] in H.
    + injection H as <-. split. { lia. } auto.
    + destruct (next_key k) as [k1|] eqn:E.
      * destruct (next_key_is_successor k k1 E) as [Hn [Hl Hf]].
        destruct (IH k1 i k' H) as [Hn' [Hl' Hf']].
        split. { lia. } split. { congruence. } auto.
      * destruct i; discriminate.
Qed.

(* the range is cut short only at the maximal key *)
Lemma keys_from_full : forall m k,
  length (keys_from k m) = m \/ exists k', In k' (keys_from k m) /\ next_key k' = None.
Proof.
  induction m as [|m IH]; intros k; cbn [keys_from length].
  - left. reflexivity.
  - destruct (next_key k) as [k1|] eqn:E.
    + destruct (IH k1) as [Hl|[k' [Hin Hn]]].
      * left. congruence.
      * right. exists k'. split. { right. exact Hin. } exact Hn.
    + right. exists k. split. { left. reflexivity. } exact E.
Qed.

(* --- the loop --- *)
Lemma rof_loop_spec ps pre c : forall n k,
  rof_loop n ps pre c k = collect (map (overlay ps pre c) (keys_from k n)).
Proof.
  induction n as [|n IH]; intros k; cbn [rof_loop keys_from map collect].
  - reflexivity.
  - rewrite post_get_last_entry. unfold overlay at 1.
    destruct (last_entry ps c k) as [v|].
    + destruct (next_key k) as [k'|]. { rewrite IH. reflexivity. } reflexivity.
    + destruct (pre c k 1) as [vs|]. 2: reflexivity.
      destruct (next_key k) as [k'|]. { rewrite IH. reflexivity. } reflexivity.
Qed.

Lemma req_in_range n : 0 <= n <= 10241 -> req n = Z.to_nat n.
Proof. unfold req, range_cap. intros H. f_equal. lia. Qed.

Theorem read_or_fallback_overlay_gen ps pre c k n :
  post_has_contract ps c = true ->
  read_or_fallback ps pre c k n = collect (map (overlay ps pre c) (keys_from k (req n))).
Proof. intros H. unfold read_or_fallback. rewrite H. apply rof_loop_spec. Qed.

Theorem read_or_fallback_is_overlay ps pre c k n :
  post_has_contract ps c = true -> 0 <= n <= 10241 ->
  read_or_fallback ps pre c k n = collect (map (overlay ps pre c) (keys_from k (Z.to_nat n))).
Proof. intros H Hn. rewrite read_or_fallback_overlay_gen by exact H. rewrite req_in_range by exact Hn. reflexivity. Qed.

Theorem read_or_fallback_passthrough ps pre c k n :
  post_has_contract ps c = false -> read_or_fallback ps pre c k n = pre c k n.
Proof. intros H. unfold read_or_fallback. rewrite H. reflexivity. Qed.

(* pointwise reading of the overlay result *)
Theorem read_or_fallback_pointwise ps pre c k n vs :
  post_has_contract ps c = true -> 0 <= n <= 10241 ->
  read_or_fallback ps pre c k n = Some vs ->
  length vs = length (keys_from k (Z.to_nat n)) /\
  forall i k', nth_error (keys_from k (Z.to_nat n)) i = Some k' ->
               exists v, nth_error vs i = Some v /\ overlay ps pre c k' = Some v.
Proof.
  intros H Hn Hr. rewrite read_or_fallback_is_overlay in Hr by assumption.
  apply collect_some in Hr. split.
  - apply (f_equal (@length _)) in Hr. rewrite !map_length in Hr. congruence.
  - intros i k' Hk. apply (map_nth_error (overlay ps pre c)) in Hk. rewrite Hr in Hk.
    destruct (nth_error vs i) as [v|] eqn:Ev.
    + exists v. split. { reflexivity. } apply (map_nth_error Some) in Ev. congruence.
    + apply nth_error_None in Ev. assert (Hlt : (i < length (map Some vs))%nat).
      { apply nth_error_Some. congruence. } rewrite map_length in Hlt. lia.
Qed.

Theorem read_or_fallback_fails_iff ps pre c k n :
  post_has_contract ps c = true -> 0 <= n <= 10241 ->
  (read_or_fallback ps pre c k n = None <->
   exists k', In k' (keys_from k (Z.to_nat n)) /\ last_entry ps c k' = None /\ pre c k' 1 = None).
Proof.
  intros H Hn. rewrite read_or_fallback_is_overlay by assumption. rewrite collect_none, in_map_iff.
  split.
  - intros [k' [Ho Hin]]. exists k'. split. { exact Hin. } unfold overlay in Ho.
    destruct (last_entry ps c k'). { discriminate. } destruct (pre c k' 1). { discriminate. } auto.
  - intros [k' [Hin [Hl Hp]]]. exists k'. split. 2: exact Hin. unfold overlay. rewrite Hl, Hp. reflexivity.
Qed.

(* --- the in-memory state --- *)

Lemma state_range_spec m : forall n k,
  state_range n m k = map (fun k' => match kv_get k' m with Some v => v | None => [] end) (keys_from k n).
Proof.
  induction n as [|n IH]; intros k; cbn [state_range keys_from map]. { reflexivity. }
  f_equal. destruct (next_key k) as [k'|]. { apply IH. } reflexivity.
Qed.

Theorem state_view_spec st c k n :
  state_view st c k n = Some (map (st_val st c) (keys_from k (req n))).
Proof.
  unfold state_view, req. f_equal. rewrite state_range_spec. unfold st_val.
  destruct (st_get c st) as [m|]. { reflexivity. }
  apply map_ext. intros a. cbn [kv_get]. reflexivity.
Qed.

Theorem state_view_spec_min st c k n :
  0 <= n -> state_view st c k n = Some (map (st_val st c) (keys_from k (Z.to_nat (Z.min n 10241)))).
Proof. intros H. rewrite state_view_spec. unfold req, range_cap. do 4 f_equal. lia. Qed.

Lemma state_view_one st c k : state_view st c k 1 = Some [st_val st c k].
Proof.
  rewrite state_view_spec. unfold req, range_cap. change (Z.to_nat (Z.min (Z.max 1 0) 10241)) with 1%nat.
  cbn [keys_from]. destruct (next_key k); reflexivity.
Qed.


Lemma overlay_state ps st c k : overlay ps (state_view st) c k = Some (overlay_val ps st c k).
Proof.
  unfold overlay, overlay_val. destruct (last_entry ps c k). { reflexivity. }
  rewrite state_view_one. reflexivity.
Qed.

(* with the in-memory pre-state both branches of read_or_fallback are the same overlay *)
Theorem post_view_is_overlay ps st c k n :
  read_or_fallback ps (state_view st) c k n = Some (map (overlay_val ps st c) (keys_from k (req n))).
Proof.
  destruct (post_has_contract ps c) eqn:H.
  - rewrite read_or_fallback_overlay_gen by exact H.
    rewrite (map_ext _ _ (overlay_state ps st c)). apply collect_map_some.
  - rewrite read_or_fallback_passthrough by exact H. rewrite state_view_spec. f_equal.
    apply map_ext. intros a. unfold overlay_val. rewrite post_has_contract_false by exact H. reflexivity.
Qed.

Theorem post_view_is_overlay_min ps st c k n :
  0 <= n ->
  read_or_fallback ps (state_view st) c k n
  = Some (map (overlay_val ps st c) (keys_from k (Z.to_nat (Z.min n 10241)))).
Proof. intros H. rewrite post_view_is_overlay. unfold req, range_cap. do 4 f_equal. lia. Qed.

(* no proposals for the contract: post view = pre view *)
Theorem post_view_no_proposals ps st c k n :
  post_has_contract ps c = false ->
  read_or_fallback ps (state_view st) c k n = state_view st c k n.
Proof. apply read_or_fallback_passthrough. Qed.

(* ================================================================== *)
(* build_post_state *)

Lemma last_entry_app a b c k :
  last_entry (a ++ b) c k = match last_entry b c k with Some v => Some v | None => last_entry a c k end.
Proof.
  induction a as [|[[c' k'] v'] a IH]; cbn [app last_entry].
  - destruct (last_entry b c k); reflexivity.
  - rewrite IH. destruct (last_entry b c k); reflexivity.
Qed.

Lemma last_mut_app k a b :
  last_mut k (a ++ b) = match last_mut k b with Some v => Some v | None => last_mut k a end.
Proof.
  induction a as [|m a IH]; cbn [app last_mut].
  - destruct (last_mut k b); reflexivity.
  - rewrite IH. destruct (last_mut k b); reflexivity.
Qed.

Lemma last_entry_map_muts sc ms c k :
  last_entry (map (fun m => (sc, m_key m, m_value m)) ms) c k =
  if list_eq_dec Z.eq_dec sc c then last_mut k ms else None.
Proof.
  induction ms as [|m ms IH]; cbn [map last_entry last_mut].
  - destruct (list_eq_dec Z.eq_dec sc c); reflexivity.
  - rewrite IH. destruct (list_eq_dec Z.eq_dec sc c). 2: reflexivity.
    destruct (last_mut k ms); reflexivity.
Qed.

Lemma build_cons s r :
  build_post_state (s :: r) = map (fun m => (sol_contract s, m_key m, m_value m)) (sol_muts s) ++ build_post_state r.
Proof. reflexivity. Qed.

Theorem post_get_build sols c k :
  post_get (build_post_state sols) c k = last_mut k (muts_of c sols).
Proof.
  rewrite post_get_last_entry. induction sols as [|s r IH].
  - reflexivity.
  - rewrite build_cons, last_entry_app, IH, last_entry_map_muts.
    unfold muts_of. cbn [flat_map]. fold (muts_of c r). rewrite last_mut_app.
    destruct (last_mut k (muts_of c r)). { reflexivity. }
    destruct (list_eq_dec Z.eq_dec (sol_contract s) c); reflexivity.
Qed.

Lemma in_build c k v sols :
  In (c, k, v) (build_post_state sols) <->
  exists s m, In s sols /\ In m (sol_muts s) /\ sol_contract s = c /\ m_key m = k /\ m_value m = v.
Proof.
  unfold build_post_state. rewrite in_flat_map. split.
  - intros [s [Hs Hm]]. apply in_map_iff in Hm. destruct Hm as [m [He Hm]].
    injection He as H1 H2 H3. exists s, m. auto.
  - intros [s [m [Hs [Hm [H1 [H2 H3]]]]]]. exists s. split. { exact Hs. }
    apply in_map_iff. exists m. split. { congruence. } exact Hm.
Qed.


Lemma set_pairs_eq sols : map fst (build_post_state sols) = set_pairs sols.
Proof.
  unfold set_pairs, build_post_state. induction sols as [|s r IH]; cbn [flat_map map].
  - reflexivity.
  - rewrite map_app, IH, map_map. reflexivity.
Qed.

Theorem post_get_build_unique sols c k v :
  NoDup (set_pairs sols) ->
  (post_get (build_post_state sols) c k = Some v <->
   exists s m, In s sols /\ In m (sol_muts s) /\ sol_contract s = c /\ m_key m = k /\ m_value m = v).
Proof.
  intros Hn. rewrite <- set_pairs_eq in Hn. rewrite post_get_last_entry, last_entry_nodup by exact Hn. apply in_build.
Qed.

Lemma build_perm sols sols' :
  Permutation sols sols' -> Permutation (build_post_state sols) (build_post_state sols').
Proof. intros H. unfold build_post_state. apply Permutation_flat_map. exact H. Qed.

Lemma post_has_contract_perm ps ps' c :
  Permutation ps ps' -> post_has_contract ps c = post_has_contract ps' c.
Proof.
  intros H. apply eq_true_iff_eq. rewrite !post_has_contract_spec.
  split; intros [k [v Hin]]; exists k, v.
  - eapply Permutation_in; eauto.
  - eapply Permutation_in. { apply Permutation_sym. exact H. } exact Hin.
Qed.

Lemma last_entry_perm ps ps' c k :
  Permutation ps ps' -> NoDup (map fst ps) -> last_entry ps c k = last_entry ps' c k.
Proof.
  intros H Hn.
  assert (Hn' : NoDup (map fst ps')).
  { eapply Permutation_NoDup. { apply Permutation_map. exact H. } exact Hn. }
  destruct (last_entry ps c k) as [v|] eqn:E.
  - apply (last_entry_nodup _ _ _ _ Hn) in E. symmetry. apply (last_entry_nodup _ _ _ _ Hn').
    eapply Permutation_in; eauto.
  - destruct (last_entry ps' c k) as [v'|] eqn:E'. 2: reflexivity.
    apply (last_entry_nodup _ _ _ _ Hn') in E'.
    assert (Hs : last_entry ps c k = Some v').
    { apply (last_entry_nodup _ _ _ _ Hn). eapply Permutation_in. { apply Permutation_sym. exact H. } exact E'. }
    congruence.
Qed.

Theorem overlay_well_defined sols sols' c k :
  Permutation sols sols' -> NoDup (set_pairs sols) ->
  post_get (build_post_state sols) c k = post_get (build_post_state sols') c k /\
  post_has_contract (build_post_state sols) c = post_has_contract (build_post_state sols') c.
Proof.
  intros H Hn. rewrite <- set_pairs_eq in Hn. split.
  - rewrite !post_get_last_entry. apply last_entry_perm. { apply build_perm. exact H. } exact Hn.
  - apply post_has_contract_perm. apply build_perm. exact H.
Qed.

(* hence the whole post view does not depend on the order of the solutions *)
Theorem post_view_order_independent sols sols' pre c k n :
  Permutation sols sols' -> NoDup (set_pairs sols) ->
  read_or_fallback (build_post_state sols) pre c k n = read_or_fallback (build_post_state sols') pre c k n.
Proof.
  intros H Hn. rewrite <- set_pairs_eq in Hn. unfold read_or_fallback.
  rewrite (post_has_contract_perm _ _ c (build_perm _ _ H)).
  destruct (post_has_contract (build_post_state sols') c). 2: reflexivity.
  rewrite !rof_loop_spec. f_equal. apply map_ext. intros a. unfold overlay.
  rewrite (last_entry_perm _ _ c a (build_perm _ _ H) Hn). reflexivity.
Qed.

(* ================================================================== *)
(* MUST 5: which view each op consults *)
Lemma op_key_range_view v1 v2 c s m :
  (forall c' k n, v1 c' k n = v2 c' k n) -> op_key_range v1 c s m = op_key_range v2 c s m.
Proof.
  intros H. unfold op_key_range.
  destruct (key_range_args s) as [[[[maddr n] key] s3]| | |]; cbn [bind]; try reflexivity.
  rewrite H. reflexivity.
Qed.

Lemma op_key_range_ext_view v1 v2 s m :
  (forall c' k n, v1 c' k n = v2 c' k n) -> op_key_range_ext v1 s m = op_key_range_ext v2 s m.
Proof.
  intros H. unfold op_key_range_ext.
  destruct (key_range_args s) as [[[[maddr n] key] s3]| | |]; cbn [bind]; try reflexivity.
  destruct (popn 4 s3) as [[cw s4]| | |]; cbn [bind]; try reflexivity.
  rewrite H. reflexivity.
Qed.


Theorem pre_reads_ignore_post E1 E2 o s m :
  agree_pre E1 E2 -> o = OKeyRange \/ o = OKeyRangeExtern ->
  step_state_read E1 o s m = step_state_read E2 o s m.
Proof.
  intros [Hs [Hi Hv]] Ho. unfold step_state_read, this_solution. rewrite Hs, Hi.
  destruct Ho; subst o.
  - apply op_key_range_view. exact Hv.
  - apply op_key_range_ext_view. exact Hv.
Qed.

Theorem post_reads_ignore_pre E1 E2 o s m :
  agree_post E1 E2 -> o = OPostKeyRange \/ o = OPostKeyRangeExtern ->
  step_state_read E1 o s m = step_state_read E2 o s m.
Proof.
  intros [Hs [Hi Hv]] Ho. unfold step_state_read, this_solution. rewrite Hs, Hi.
  destruct Ho; subst o.
  - apply op_key_range_view. exact Hv.
  - apply op_key_range_ext_view. exact Hv.
Qed.

(* in the two-pass check both passes are given the same pre view, built from the pre-state only *)
Lemma env_for_pre sols i pre post :
  e_pre (env_for {| sc_solutions := sols; sc_index := i; sc_pre := pre; sc_post := post |}) = pre.
Proof. reflexivity. Qed.

Theorem pre_reads_ignore_mutations E1 E2 s m :
  (agree_pre E1 E2 ->
   step_state_read E1 OKeyRange s m = step_state_read E2 OKeyRange s m /\
   step_state_read E1 OKeyRangeExtern s m = step_state_read E2 OKeyRangeExtern s m) /\
  (agree_post E1 E2 ->
   step_state_read E1 OPostKeyRange s m = step_state_read E2 OPostKeyRange s m /\
   step_state_read E1 OPostKeyRangeExtern s m = step_state_read E2 OPostKeyRangeExtern s m).
Proof.
  split; intros H; split.
  - apply pre_reads_ignore_post; auto.
  - apply pre_reads_ignore_post; auto.
  - apply post_reads_ignore_pre; auto.
  - apply post_reads_ignore_pre; auto.
Qed.
