(* Algebraic laws of the declarative op specification (Spec/Ops.v): consequences a user of the assembly
   relies on (operand order only matters where documented; Swap is its own inverse; memory is untouched
   by stack, predicate and ALU operations). *)
From Coq Require Import ZArith List Bool.
From EB Require Import Asm.Op Spec.Ops.
Import ListNotations.
Open Scope list_scope.
Open Scope Z_scope.

Definition commutative_op (o : op) : bool :=
  match o with OAdd | OMul | OEq | OAnd | OOr | OBitAnd | OBitOr => true | _ => false end.

Lemma commutative_op_spec o a b s m pm :
  commutative_op o = true -> op_spec o (a :: b :: s) m pm = op_spec o (b :: a :: s) m pm.
Proof.
  destruct o; cbn [commutative_op]; try discriminate; intros _;
    cbn [op_spec binop]; unfold checked, test, total.
  - rewrite (Z.eqb_sym b a). reflexivity.
  - rewrite (andb_comm (negb (b =? 0)) (negb (a =? 0))). reflexivity.
  - rewrite (orb_comm (negb (b =? 0)) (negb (a =? 0))). reflexivity.
  - rewrite (Z.land_comm b a). reflexivity.
  - rewrite (Z.lor_comm b a). reflexivity.
  - rewrite (Z.add_comm b a). reflexivity.
  - rewrite (Z.mul_comm b a). reflexivity.
Qed.

(* the strict and non-strict comparisons mirror each other when the operands are exchanged *)
Lemma gt_lt_mirror a b s m pm : op_spec OGt (a :: b :: s) m pm = op_spec OLt (b :: a :: s) m pm.
Proof. cbn [op_spec binop]. unfold test. rewrite Z.gtb_ltb. reflexivity. Qed.
Lemma gte_lte_mirror a b s m pm : op_spec OGte (a :: b :: s) m pm = op_spec OLte (b :: a :: s) m pm.
Proof. cbn [op_spec binop]. unfold test. rewrite Z.geb_leb. reflexivity. Qed.

(* Swap is an involution *)
Lemma swap_involutive s m pm s' m' :
  op_spec OSwap s m pm = Some (s', m') -> op_spec OSwap s' m' pm = Some (s, m).
Proof.
  destruct s as [|b [|a rest]]; cbn [op_spec]; try discriminate.
  intros H. inversion H; subst. reflexivity.
Qed.

(* x - x = 0 and never fails; x = x is true *)
Lemma sub_self a s m pm : op_spec OSub (a :: a :: s) m pm = Some (0 :: s, m).
Proof. cbn [op_spec binop]. unfold checked. rewrite Z.sub_diag. reflexivity. Qed.
Lemma eq_self a s m pm : op_spec OEq (a :: a :: s) m pm = Some (1 :: s, m).
Proof. cbn [op_spec binop]. unfold test. rewrite Z.eqb_refl. reflexivity. Qed.

(* Not yields a boolean, and on booleans it is an involution *)
Lemma not_boolean a s m pm : exists r, op_spec ONot (a :: s) m pm = Some (r :: s, m) /\ (r = 0 \/ r = 1).
Proof. cbn [op_spec]. eexists; split; [reflexivity|]. destruct (a =? 0); cbn; auto. Qed.
Lemma not_not_boolean a s m pm : a = 0 \/ a = 1 ->
  op_spec ONot (a :: s) m pm = Some (b2z (a =? 0) :: s, m) /\
  op_spec ONot (b2z (a =? 0) :: s) m pm = Some (a :: s, m).
Proof. intros [->| ->]; split; reflexivity. Qed.

(* stack / predicate / ALU operations never touch memory *)
Definition pure_stack_op (o : op) : bool :=
  match o with
  | OPop | OSwap | OEq | OGt | OLt | OGte | OLte | OAnd | OOr | ONot | OBitAnd | OBitOr
  | OAdd | OSub | OMul => true
  | _ => false
  end.
Lemma binop_memory f s m r : binop f s m = Some r -> snd r = m.
Proof.
  unfold binop. destruct s as [|x [|y t]]; try discriminate.
  destruct (f y x); [|discriminate]. intros H; inversion H; reflexivity.
Qed.
Lemma pure_stack_op_memory o s m pm s' m' :
  pure_stack_op o = true -> op_spec o s m pm = Some (s', m') -> m' = m.
Proof.
  destruct o; cbn [pure_stack_op]; try discriminate; intros _; cbn [op_spec]; intros H;
    try (apply binop_memory in H; exact H).
  - destruct s; [discriminate|]. inversion H; reflexivity.
  - destruct s as [|b [|a t]]; try discriminate. inversion H; reflexivity.
  - destruct s; [discriminate|]. inversion H; reflexivity.
Qed.
