(* Lemmas for C11: the key-range state reads pass the exact request and lay the result out as documented.
   The first part (zlen / split_len / popn / extend / splice facts) is shared with AccessCrypto.v. *)
From Coq Require Import ZArith List Lia Bool.
From EB Require Import Vm.Step Spec.StateReadSpec.
Open Scope list_scope.
Open Scope Z_scope.

(* ---------- constants ---------- *)
Lemma stack_limit_eq : stack_size_limit = 4096. Proof. reflexivity. Qed.
Lemma i64_max_eq : i64_max = 9223372036854775807. Proof. reflexivity. Qed.
Lemma i64_min_eq : i64_min = -9223372036854775808. Proof. reflexivity. Qed.
Lemma usize_max_eq : usize_max = 18446744073709551615. Proof. reflexivity. Qed.

(* ---------- zlen ---------- *)
Lemma zlen_nil {A} : zlen (@nil A) = 0. Proof. reflexivity. Qed.
Lemma zlen_cons {A} (x : A) l : zlen (x :: l) = 1 + zlen l.
Proof. unfold zlen. cbn [length]. lia. Qed.
Lemma zlen_app {A} (l r : list A) : zlen (l ++ r) = zlen l + zlen r.
Proof. unfold zlen. rewrite app_length. lia. Qed.
Lemma zlen_rev {A} (l : list A) : zlen (rev l) = zlen l.
Proof. unfold zlen. rewrite rev_length. reflexivity. Qed.
Lemma zlen_nonneg {A} (l : list A) : 0 <= zlen l.
Proof. unfold zlen. lia. Qed.
Lemma zlen_to_nat {A} (l : list A) : Z.to_nat (zlen l) = length l.
Proof. unfold zlen. apply Nat2Z.id. Qed.
Lemma zlen_firstn {A} n (l : list A) : 0 <= n <= zlen l -> zlen (firstn (Z.to_nat n) l) = n.
Proof. unfold zlen. intros H. rewrite firstn_length_le by lia. lia. Qed.
Lemma zlen_skipn {A} n (l : list A) : 0 <= n <= zlen l -> zlen (skipn (Z.to_nat n) l) = zlen l - n.
Proof. unfold zlen. intros H. rewrite skipn_length. lia. Qed.

(* ---------- popping blocks ---------- *)
Lemma split_len_rev ws s : split_len (zlen ws) (rev ws ++ s) = Some (ws, s).
Proof.
  unfold split_len.
  destruct (Z.ltb_spec (zlen (rev ws ++ s)) (zlen ws)) as [H|H].
  - rewrite zlen_app, zlen_rev in H. pose proof (zlen_nonneg s). lia.
  - rewrite zlen_to_nat.
    rewrite (firstn_app_exact (rev ws) s (length ws) (rev_length ws)).
    rewrite (skipn_app_exact (rev ws) s (length ws) (rev_length ws)).
    rewrite rev_involutive. reflexivity.
Qed.

Lemma split_len_short len s : zlen s < len -> split_len len s = None.
Proof. intros H. unfold split_len. destruct (Z.ltb_spec (zlen s) len); [reflexivity|lia]. Qed.

Lemma split_len_words_rev ws s : split_len_words (zlen ws :: rev ws ++ s) = Ok (ws, s).
Proof.
  unfold split_len_words, usize_of.
  destruct (Z.ltb_spec (zlen ws) 0) as [H|H]; [pose proof (zlen_nonneg ws); lia|].
  rewrite split_len_rev. reflexivity.
Qed.

Lemma popn_rev n ws s : length ws = n -> popn n (rev ws ++ s) = Ok (ws, s).
Proof.
  intros L. unfold popn.
  destruct (Nat.ltb_spec (length (rev ws ++ s)) n) as [H|H].
  - rewrite app_length, rev_length in H. lia.
  - assert (L' : length (rev ws) = n) by (rewrite rev_length; exact L).
    rewrite (firstn_app_exact (rev ws) s n L'), (skipn_app_exact (rev ws) s n L').
    rewrite rev_involutive. reflexivity.
Qed.

Lemma popn_short n s : (length s < n)%nat -> popn n s = Err EStack.
Proof. intros H. unfold popn. destruct (Nat.ltb_spec (length s) n); [reflexivity|lia]. Qed.

(* ---------- pushing blocks ---------- *)
Lemma push_ok w s : zlen s < 4096 -> push w s = Ok (w :: s).
Proof. intros H. unfold push. rewrite stack_limit_eq. destruct (Z.leb_spec 4096 (zlen s)); [lia|reflexivity]. Qed.
Lemma push_full w s : 4096 <= zlen s -> push w s = Err EStack.
Proof. intros H. unfold push. rewrite stack_limit_eq. destruct (Z.leb_spec 4096 (zlen s)); [reflexivity|lia]. Qed.

Lemma extend_ok ws : forall s, zlen s + zlen ws <= 4096 -> extend ws s = Ok (rev ws ++ s).
Proof.
  induction ws as [|w r IH]; intros s H; [reflexivity|].
  cbn [extend]. rewrite zlen_cons in H. pose proof (zlen_nonneg r).
  rewrite push_ok by lia. cbn [bind].
  rewrite IH by (rewrite zlen_cons; lia).
  cbn [rev]. rewrite <- app_assoc. reflexivity.
Qed.

Lemma extend_full ws : forall s, zlen s <= 4096 -> 4096 < zlen s + zlen ws -> extend ws s = Err EStack.
Proof.
  induction ws as [|w r IH]; intros s B H.
  - rewrite zlen_nil in H. lia.
  - cbn [extend]. rewrite zlen_cons in H.
    destruct (Z.leb_spec 4096 (zlen s)) as [F|F].
    + rewrite push_full by assumption. reflexivity.
    + rewrite push_ok by assumption. cbn [bind]. apply IH; rewrite zlen_cons; lia.
Qed.

(* ---------- splice / mem_store_range ---------- *)
Lemma splice_length a ws m : (a + length ws <= length m)%nat -> length (splice a ws m) = length m.
Proof.
  intros H. unfold splice. rewrite !app_length, firstn_length, skipn_length. lia.
Qed.

Lemma splice_mid (A X B ws : list Z) : length X = length ws ->
  splice (length A) ws (A ++ X ++ B) = A ++ ws ++ B.
Proof.
  intros L. unfold splice.
  rewrite (firstn_app_exact A (X ++ B) (length A) eq_refl).
  rewrite (app_assoc A X B).
  rewrite (skipn_app_exact (A ++ X) B (length A + length ws)) by (rewrite app_length; lia).
  reflexivity.
Qed.

(* adjacent writes compose: writing ws1 at a and ws2 right behind it is writing ws1 ++ ws2 at a *)
Lemma splice_adjacent a ws1 ws2 m : (a + length ws1 + length ws2 <= length m)%nat ->
  splice (a + length ws1) ws2 (splice a ws1 m) = splice a (ws1 ++ ws2) m.
Proof.
  intros H.
  rewrite <- (firstn_skipn a m) at 1 2.
  assert (La : length (firstn a m) = a) by (rewrite firstn_length; lia).
  set (A := firstn a m) in *. set (T := skipn a m).
  assert (LT : (length ws1 + length ws2 <= length T)%nat) by (unfold T; rewrite skipn_length; lia).
  rewrite <- (firstn_skipn (length ws1) T).
  assert (L1 : length (firstn (length ws1) T) = length ws1) by (rewrite firstn_length; lia).
  set (X1 := firstn (length ws1) T) in *. set (T2 := skipn (length ws1) T).
  assert (LT2 : (length ws2 <= length T2)%nat) by (unfold T2; rewrite skipn_length; lia).
  rewrite <- (firstn_skipn (length ws2) T2).
  assert (L2 : length (firstn (length ws2) T2) = length ws2) by (rewrite firstn_length; lia).
  set (X2 := firstn (length ws2) T2) in *. set (B := skipn (length ws2) T2).
  rewrite <- La at 1 2.
  rewrite (splice_mid A X1 (X2 ++ B) ws1 L1).
  replace (length A + length ws1)%nat with (length (A ++ ws1)) by (rewrite app_length; reflexivity).
  replace (A ++ ws1 ++ X2 ++ B) with ((A ++ ws1) ++ X2 ++ B) by (rewrite <- app_assoc; reflexivity).
  rewrite (splice_mid (A ++ ws1) X2 B ws2 L2).
  replace (A ++ X1 ++ X2 ++ B) with (A ++ (X1 ++ X2) ++ B) by (rewrite <- app_assoc; reflexivity).
  rewrite <- La.
  rewrite (splice_mid A (X1 ++ X2) B (ws1 ++ ws2)) by (rewrite !app_length; lia).
  rewrite <- !app_assoc. reflexivity.
Qed.

Lemma mem_store_range_mid addr ws m (A X B : list Z) :
  m = A ++ X ++ B -> addr = zlen A -> length X = length ws ->
  mem_store_range addr ws m = Ok (A ++ ws ++ B).
Proof.
  intros -> -> L. unfold mem_store_range.
  destruct (Z.ltb_spec (zlen A) 0) as [H|_]; [pose proof (zlen_nonneg A); lia|].
  destruct (Z.ltb_spec (zlen (A ++ X ++ B)) (zlen A + zlen ws)) as [H|_].
  - rewrite !zlen_app in H. pose proof (zlen_nonneg B). unfold zlen in *. lia.
  - rewrite zlen_to_nat, splice_mid by assumption. reflexivity.
Qed.

(* a range store either fails with a memory error or preserves the length of the memory *)
Lemma mem_store_range_cases addr ws m : 0 <= addr ->
  (zlen m < addr + zlen ws /\ mem_store_range addr ws m = Err EMemory) \/
  (addr + zlen ws <= zlen m /\ exists m', mem_store_range addr ws m = Ok m' /\ zlen m' = zlen m).
Proof.
  intros H. unfold mem_store_range.
  destruct (Z.ltb_spec addr 0) as [?|_]; [lia|].
  destruct (Z.ltb_spec (zlen m) (addr + zlen ws)) as [F|F]; [left; auto|].
  right. split; [exact F|]. eexists. split; [reflexivity|].
  unfold zlen in *. rewrite splice_length by lia. reflexivity.
Qed.

Lemma mem_store_range_length addr ws m m' : mem_store_range addr ws m = Ok m' -> length m' = length m.
Proof.
  unfold mem_store_range. destruct (Z.ltb_spec addr 0) as [|P]; [discriminate|].
  destruct (Z.ltb_spec (zlen m) (addr + zlen ws)) as [|F]; [discriminate|].
  intros [= <-]. apply splice_length. unfold zlen in *. lia.
Qed.

(* ---------- the layout written by write_values ---------- *)
Lemma pair_words_cons a v r : pair_words a (v :: r) = a :: zlen v :: pair_words (a + zlen v) r.
Proof. reflexivity. Qed.

Lemma pair_words_length a vs : length (pair_words a vs) = (2 * length vs)%nat.
Proof.
  revert a; induction vs as [|v r IH]; intros a; [reflexivity|].
  rewrite pair_words_cons. cbn [length]. rewrite IH. lia.
Qed.

Lemma total_len_cons v r : total_len (v :: r) = zlen v + total_len r.
Proof. unfold total_len. cbn [concat]. apply zlen_app. Qed.

Lemma total_len_nonneg vs : 0 <= total_len vs.
Proof. apply zlen_nonneg. Qed.

(* Core induction: memory decomposed as  A | pair slots P | already written values G | value slots V | B *)
Lemma write_values_decomp vs : forall maddr vaddr m (A P G V B : list Z),
  m = A ++ P ++ G ++ V ++ B -> maddr = zlen A -> vaddr = zlen A + zlen P + zlen G ->
  length P = (2 * length vs)%nat -> length V = length (concat vs) -> zlen m <= i64_max ->
  write_values maddr vaddr vs m = Ok (A ++ pair_words vaddr vs ++ G ++ concat vs ++ B).
Proof.
  induction vs as [|v r IH]; intros maddr vaddr m A P G V B Em Ea Ev LP LV Bm.
  - destruct P; [|discriminate LP]. destruct V; [|discriminate LV]. subst m. reflexivity.
  - destruct P as [|p1 [|p2 P']]; cbn [length] in LP; try lia.
    cbn [concat] in LV. rewrite app_length in LV.
    rewrite <- (firstn_skipn (length v) V) in Em.
    assert (L1 : length (firstn (length v) V) = length v) by (rewrite firstn_length; lia).
    assert (L2 : length (skipn (length v) V) = length (concat r)) by (rewrite skipn_length; lia).
    set (V1 := firstn (length v) V) in *. set (V' := skipn (length v) V) in *.
    cbn [write_values].
    rewrite (mem_store_range_mid maddr [vaddr; zlen v] m A [p1; p2] (P' ++ G ++ (V1 ++ V') ++ B));
      [|subst m; reflexivity|exact Ea|reflexivity].
    cbn [bind].
    rewrite (mem_store_range_mid vaddr v _ (A ++ [vaddr; zlen v] ++ P' ++ G) V1 (V' ++ B));
      [|rewrite <- !app_assoc; reflexivity| |exact L1].
    2:{ rewrite Ev, !zlen_app, !zlen_cons, zlen_nil. lia. }
    cbn [bind].
    assert (Bz : zlen A + (2 + zlen P') + zlen G + zlen v + zlen V' + zlen B <= i64_max).
    { subst m. rewrite !zlen_app, !zlen_cons in Bm. unfold zlen in *. lia. }
    rewrite zlen_cons, zlen_cons in Ev.
    pose proof (zlen_nonneg A). pose proof (zlen_nonneg P'). pose proof (zlen_nonneg G).
    pose proof (zlen_nonneg V'). pose proof (zlen_nonneg B). pose proof (zlen_nonneg v).
    destruct (Z.ltb_spec i64_max (vaddr + zlen v)) as [?|_]; [lia|].
    destruct (Z.ltb_spec i64_max (maddr + 2)) as [?|_]; [lia|].
    cbn [orb].
    rewrite (IH (maddr + 2) (vaddr + zlen v) _ (A ++ [vaddr; zlen v]) P' (G ++ v) V' B).
    + rewrite pair_words_cons. cbn [concat]. rewrite <- !app_assoc. reflexivity.
    + rewrite <- !app_assoc. reflexivity.
    + rewrite zlen_app, !zlen_cons, zlen_nil. lia.
    + rewrite !zlen_app, !zlen_cons, zlen_nil. lia.
    + cbn [length] in LP. lia.
    + exact L2.
    + rewrite !zlen_app, !zlen_cons, zlen_nil. unfold zlen in *. lia.
Qed.

Lemma skipn_add {A} (y : nat) : forall (l : list A) x, skipn x (skipn y l) = skipn (y + x) l.
Proof.
  induction y as [|y IH]; intros l x; [reflexivity|].
  destruct l as [|h l]; [rewrite !skipn_nil; reflexivity|]. cbn [skipn Nat.add]. apply IH.
Qed.

Lemma list_split4 (a p t : nat) (m : list Z) :
  m = firstn a m ++ firstn p (skipn a m) ++ firstn t (skipn (a + p) m) ++ skipn (a + p + t) m.
Proof.
  rewrite <- (firstn_skipn a m) at 1. f_equal.
  rewrite <- (firstn_skipn p (skipn a m)) at 1. f_equal.
  rewrite skipn_add.
  rewrite <- (firstn_skipn t (skipn (a + p) m)) at 1. f_equal.
  apply skipn_add.
Qed.

Lemma write_values_fits maddr vs m :
  0 <= maddr -> zlen m <= i64_max -> maddr + 2 * zlen vs + total_len vs <= zlen m ->
  write_values maddr (maddr + 2 * zlen vs) vs m = Ok (key_range_region maddr vs m).
Proof.
  intros Ha Bm F. unfold key_range_region.
  pose proof (zlen_nonneg vs) as Nv. pose proof (total_len_nonneg vs) as Nt.
  set (a := Z.to_nat maddr). set (p := (2 * length vs)%nat). set (t := length (concat vs)).
  assert (Hp : Z.of_nat p = 2 * zlen vs) by (unfold p, zlen; lia).
  assert (Ht : Z.of_nat t = total_len vs) by reflexivity.
  assert (Hm : (a + p + t <= length m)%nat) by (unfold zlen in F; lia).
  replace (Z.to_nat (maddr + 2 * zlen vs + total_len vs)) with (a + p + t)%nat by lia.
  rewrite (write_values_decomp vs maddr (maddr + 2 * zlen vs) m
             (firstn a m) (firstn p (skipn a m)) [] (firstn t (skipn (a + p) m)) (skipn (a + p + t) m)).
  - reflexivity.
  - apply list_split4.
  - unfold zlen. rewrite firstn_length. lia.
  - unfold zlen. rewrite !firstn_length, skipn_length. cbn [length]. lia.
  - rewrite firstn_length, skipn_length. lia.
  - rewrite firstn_length, skipn_length. lia.
  - exact Bm.
Qed.

Lemma write_values_nofit vs : forall maddr vaddr m,
  vs <> [] -> 0 <= maddr -> maddr + 2 * zlen vs <= vaddr -> zlen m <= i64_max ->
  zlen m < vaddr + total_len vs -> write_values maddr vaddr vs m = Err EMemory.
Proof.
  induction vs as [|v r IH]; intros maddr vaddr m Hne Ha Hv Bm F; [congruence|].
  cbn [write_values]. rewrite zlen_cons in Hv. rewrite total_len_cons in F.
  pose proof (zlen_nonneg r) as Nr. pose proof (zlen_nonneg v) as Nv.
  destruct (mem_store_range_cases maddr [vaddr; zlen v] m Ha) as [[_ E1]|[F1 [m1 [E1 L1]]]];
    rewrite E1; [reflexivity|]. cbn [bind].
  assert (Hva : 0 <= vaddr) by lia.
  destruct (mem_store_range_cases vaddr v m1 Hva) as [[_ E2]|[F2 [m2 [E2 L2]]]];
    rewrite E2; [reflexivity|]. cbn [bind].
  rewrite !zlen_cons, zlen_nil in F1.
  destruct (Z.ltb_spec i64_max (vaddr + zlen v)) as [?|_]; [lia|].
  destruct (Z.ltb_spec i64_max (maddr + 2)) as [?|_]; [lia|].
  cbn [orb].
  destruct r as [|v2 r2].
  - unfold total_len in F. cbn [concat] in F. rewrite zlen_nil in F. lia.
  - apply IH; try lia. discriminate.
Qed.

Lemma i64b_small z : 0 <= z <= i64_max -> i64b z = true.
Proof. intros H. apply i64b_spec. unfold i64. rewrite i64_min_eq. lia. Qed.

Lemma key_range_region_nil maddr m : key_range_region maddr [] m = m.
Proof.
  unfold key_range_region, total_len. cbn [concat pair_words addr_len_pairs flat_map app].
  change (zlen (@nil (list Z))) with 0. change (zlen (@nil Z)) with 0.
  rewrite Z.mul_0_r, !Z.add_0_r. apply firstn_skipn.
Qed.

(* Item 2: one equation giving the result of write_values_to_memory in every case *)
Lemma key_range_layout_eq maddr vs m :
  0 <= maddr <= 9223372036854775807 -> zlen m <= 10240 ->
  write_values_to_memory maddr vs m =
  if key_range_fits maddr vs m then Ok (key_range_region maddr vs m) else Err EMemory.
Proof.
  intros [Ha Hb] Bm. unfold write_values_to_memory.
  assert (Bm' : zlen m <= i64_max) by (rewrite i64_max_eq; lia).
  destruct vs as [|v r].
  - cbn [key_range_fits]. change (zlen (@nil (list Z))) with 0. rewrite Z.mul_0_r, Z.add_0_r.
    rewrite i64b_small by (rewrite i64_max_eq; lia). cbn [negb write_values].
    rewrite key_range_region_nil. reflexivity.
  - unfold key_range_fits.
    destruct (Z.leb_spec (maddr + 2 * zlen (v :: r) + total_len (v :: r)) (zlen m)) as [F|F].
    + pose proof (total_len_nonneg (v :: r)). pose proof (zlen_nonneg (v :: r)).
      rewrite i64b_small by lia. cbn [negb].
      apply write_values_fits; assumption.
    + destruct (i64b (maddr + 2 * zlen (v :: r))); cbn [negb]; [|reflexivity].
      apply write_values_nofit; try lia. discriminate.
Qed.

Lemma key_range_fits_spec maddr vs m :
  key_range_fits maddr vs m = true <-> (vs = [] \/ maddr + 2 * zlen vs + total_len vs <= zlen m).
Proof.
  destruct vs as [|v r]; cbn [key_range_fits].
  - split; auto.
  - rewrite Z.leb_le. split; [auto|]. intros [H|H]; [discriminate|exact H].
Qed.

Lemma key_range_layout maddr vs m m' :
  0 <= maddr <= 9223372036854775807 -> zlen m <= 10240 ->
  (write_values_to_memory maddr vs m = Ok m' <->
   (vs = [] \/ maddr + 2 * zlen vs + total_len vs <= zlen m) /\ m' = key_range_region maddr vs m).
Proof.
  intros Ha Bm. rewrite (key_range_layout_eq maddr vs m Ha Bm), <- key_range_fits_spec.
  destruct (key_range_fits maddr vs m).
  - split; [intros [= <-]; auto | intros [_ ->]; reflexivity].
  - split; [discriminate | intros [H _]; discriminate].
Qed.

Lemma key_range_layout_nofit maddr vs m :
  0 <= maddr <= 9223372036854775807 -> zlen m <= 10240 ->
  vs <> [] -> zlen m < maddr + 2 * zlen vs + total_len vs ->
  write_values_to_memory maddr vs m = Err EMemory.
Proof.
  intros Ha Bm Hne F. rewrite (key_range_layout_eq maddr vs m Ha Bm).
  destruct (key_range_fits maddr vs m) eqn:E; [|reflexivity].
  apply key_range_fits_spec in E. destruct E as [E|E]; [congruence|lia].
Qed.

(* memory is never grown (nor shrunk) and words outside the region are unchanged *)
Lemma key_range_region_length maddr vs m :
  0 <= maddr -> (vs = [] \/ maddr + 2 * zlen vs + total_len vs <= zlen m) ->
  length (key_range_region maddr vs m) = length m.
Proof.
  intros Ha [->|F]; [rewrite key_range_region_nil; reflexivity|].
  pose proof (zlen_nonneg vs). pose proof (total_len_nonneg vs) as Nt.
  unfold key_range_region. rewrite !app_length, firstn_length, skipn_length, pair_words_length.
  unfold total_len, zlen in *. lia.
Qed.

Lemma key_range_region_before maddr vs m :
  0 <= maddr -> (vs = [] \/ maddr + 2 * zlen vs + total_len vs <= zlen m) ->
  firstn (Z.to_nat maddr) (key_range_region maddr vs m) = firstn (Z.to_nat maddr) m.
Proof.
  intros Ha [->|F]; [rewrite key_range_region_nil; reflexivity|].
  pose proof (zlen_nonneg vs). pose proof (total_len_nonneg vs) as Nt.
  unfold key_range_region. apply firstn_app_exact. rewrite firstn_length. unfold zlen in *. lia.
Qed.

Lemma key_range_region_after maddr vs m :
  0 <= maddr -> (vs = [] \/ maddr + 2 * zlen vs + total_len vs <= zlen m) ->
  skipn (Z.to_nat (maddr + 2 * zlen vs + total_len vs)) (key_range_region maddr vs m)
  = skipn (Z.to_nat (maddr + 2 * zlen vs + total_len vs)) m.
Proof.
  intros Ha [->|F]; [rewrite key_range_region_nil; reflexivity|].
  pose proof (zlen_nonneg vs). pose proof (total_len_nonneg vs) as Nt.
  unfold key_range_region. rewrite !app_assoc. apply skipn_app_exact.
  rewrite !app_length, firstn_length, pair_words_length. unfold total_len, zlen in *. lia.
Qed.

Lemma nth_error_firstn_lt {A} (l : list A) : forall n i, (i < n)%nat -> nth_error (firstn n l) i = nth_error l i.
Proof.
  induction l as [|x l IH]; intros n i H.
  - rewrite firstn_nil. reflexivity.
  - destruct n as [|n]; [lia|]. destruct i as [|i]; [reflexivity|]. cbn [firstn nth_error]. apply IH. lia.
Qed.

Lemma nth_error_skipn_add {A} (l : list A) : forall n i, nth_error (skipn n l) i = nth_error l (n + i).
Proof.
  induction l as [|x l IH]; intros n i.
  - rewrite skipn_nil. destruct i, n; reflexivity.
  - destruct n as [|n]; [reflexivity|]. cbn [skipn Nat.add nth_error]. apply IH.
Qed.

Lemma key_range_region_outside maddr vs m i :
  0 <= maddr -> (vs = [] \/ maddr + 2 * zlen vs + total_len vs <= zlen m) ->
  (Z.of_nat i < maddr \/ maddr + 2 * zlen vs + total_len vs <= Z.of_nat i) ->
  nth_error (key_range_region maddr vs m) i = nth_error m i.
Proof.
  intros Ha F [Hi|Hi].
  - rewrite <- (nth_error_firstn_lt (key_range_region maddr vs m) (Z.to_nat maddr) i) by lia.
    rewrite key_range_region_before by assumption. apply nth_error_firstn_lt. lia.
  - pose proof (zlen_nonneg vs). pose proof (total_len_nonneg vs) as Nt.
    set (e := Z.to_nat (maddr + 2 * zlen vs + total_len vs)).
    replace i with (e + (i - e))%nat by (unfold e; lia).
    rewrite <- !nth_error_skipn_add. unfold e. rewrite key_range_region_after by assumption. reflexivity.
Qed.

(* ---------- Item 1: the request ---------- *)
Lemma key_range_args_ok maddr n key s : 0 <= maddr -> 0 <= n ->
  key_range_args (maddr :: n :: zlen key :: rev key ++ s) = Ok (maddr, n, key, s).
Proof.
  intros Ha Hn. unfold key_range_args. cbn [pop bind].
  destruct (Z.ltb_spec maddr 0) as [?|_]; [lia|]. cbn [pop bind].
  destruct (Z.ltb_spec n 0) as [?|_]; [lia|].
  rewrite split_len_words_rev. reflexivity.
Qed.

Lemma op_key_range_request v c maddr n key s m : 0 <= maddr -> 0 <= n ->
  op_key_range v c (maddr :: n :: zlen key :: rev key ++ s) m =
  match v c key n with
  | None => Err EStateRead
  | Some vs => let* m' := write_values_to_memory maddr vs m in Ok (s, m')
  end.
Proof. intros Ha Hn. unfold op_key_range. rewrite key_range_args_ok by assumption. reflexivity. Qed.

Lemma popn4_cons w3 w2 w1 w0 s : popn 4 (w3 :: w2 :: w1 :: w0 :: s) = Ok ([w0; w1; w2; w3], s).
Proof. exact (popn_rev 4 [w0; w1; w2; w3] s eq_refl). Qed.

Lemma op_key_range_ext_request v maddr n key w0 w1 w2 w3 s m : 0 <= maddr -> 0 <= n ->
  op_key_range_ext v (maddr :: n :: zlen key :: rev key ++ [w3; w2; w1; w0] ++ s) m =
  match v (bytes_of_words [w0; w1; w2; w3]) key n with
  | None => Err EStateRead
  | Some vs => let* m' := write_values_to_memory maddr vs m in Ok (s, m')
  end.
Proof.
  intros Ha Hn. unfold op_key_range_ext. rewrite key_range_args_ok by assumption. cbn [bind].
  change ([w3; w2; w1; w0] ++ s) with (w3 :: w2 :: w1 :: w0 :: s). rewrite popn4_cons. reflexivity.
Qed.

Section Requests.
Variable E : env.
Variables (maddr n : Z) (key s m : list Z).
Hypothesis Ha : 0 <= maddr.
Hypothesis Hn : 0 <= n.

Lemma key_range_request :
  step_state_read E OKeyRange (maddr :: n :: zlen key :: rev key ++ s) m =
  match e_pre E (sol_contract (this_solution E)) key n with
  | None => Err EStateRead
  | Some vs => let* m' := write_values_to_memory maddr vs m in Ok (s, m')
  end.
Proof. exact (op_key_range_request _ _ maddr n key s m Ha Hn). Qed.

Lemma post_key_range_request :
  step_state_read E OPostKeyRange (maddr :: n :: zlen key :: rev key ++ s) m =
  match e_post E (sol_contract (this_solution E)) key n with
  | None => Err EStateRead
  | Some vs => let* m' := write_values_to_memory maddr vs m in Ok (s, m')
  end.
Proof. exact (op_key_range_request _ _ maddr n key s m Ha Hn). Qed.

Lemma key_range_extern_request w0 w1 w2 w3 :
  step_state_read E OKeyRangeExtern (maddr :: n :: zlen key :: rev key ++ [w3; w2; w1; w0] ++ s) m =
  match e_pre E (bytes_of_words [w0; w1; w2; w3]) key n with
  | None => Err EStateRead
  | Some vs => let* m' := write_values_to_memory maddr vs m in Ok (s, m')
  end.
Proof. exact (op_key_range_ext_request _ maddr n key w0 w1 w2 w3 s m Ha Hn). Qed.

Lemma post_key_range_extern_request w0 w1 w2 w3 :
  step_state_read E OPostKeyRangeExtern (maddr :: n :: zlen key :: rev key ++ [w3; w2; w1; w0] ++ s) m =
  match e_post E (bytes_of_words [w0; w1; w2; w3]) key n with
  | None => Err EStateRead
  | Some vs => let* m' := write_values_to_memory maddr vs m in Ok (s, m')
  end.
Proof. exact (op_key_range_ext_request _ maddr n key w0 w1 w2 w3 s m Ha Hn). Qed.
End Requests.

(* ---------- invalid operands: an error whatever the views are ---------- *)
Lemma state_read_args_error E o st m e : is_key_range_op o ->
  key_range_args st = Err e -> step_state_read E o st m = Err e.
Proof.
  intros [Ho|[Ho|[Ho|Ho]]] H; subst o; cbn [step_state_read]; unfold op_key_range, op_key_range_ext; rewrite H; reflexivity.
Qed.

Lemma kra_empty : key_range_args [] = Err EStack.
Proof. reflexivity. Qed.
Lemma kra_neg_addr maddr s : maddr < 0 -> key_range_args (maddr :: s) = Err EMemory.
Proof. intros H. unfold key_range_args. cbn [pop bind]. destruct (Z.ltb_spec maddr 0); [reflexivity|lia]. Qed.
Lemma kra_one maddr : 0 <= maddr -> key_range_args [maddr] = Err EStack.
Proof. intros H. unfold key_range_args. cbn [pop bind]. destruct (Z.ltb_spec maddr 0); [lia|reflexivity]. Qed.
Lemma kra_neg_count maddr n s : 0 <= maddr -> n < 0 -> key_range_args (maddr :: n :: s) = Err EStack.
Proof.
  intros Ha Hn. unfold key_range_args. cbn [pop bind]. destruct (Z.ltb_spec maddr 0); [lia|]. cbn [pop bind].
  destruct (Z.ltb_spec n 0); [reflexivity|lia].
Qed.
Lemma kra_two maddr n : 0 <= maddr -> 0 <= n -> key_range_args [maddr; n] = Err EStack.
Proof.
  intros Ha Hn. unfold key_range_args. cbn [pop bind]. destruct (Z.ltb_spec maddr 0); [lia|]. cbn [pop bind].
  destruct (Z.ltb_spec n 0); [lia|reflexivity].
Qed.
Lemma kra_bad_klen maddr n klen s : 0 <= maddr -> 0 <= n -> (klen < 0 \/ zlen s < klen) ->
  key_range_args (maddr :: n :: klen :: s) = Err EStack.
Proof.
  intros Ha Hn Hk. unfold key_range_args. cbn [pop bind]. destruct (Z.ltb_spec maddr 0); [lia|]. cbn [pop bind].
  destruct (Z.ltb_spec n 0); [lia|]. unfold split_len_words, usize_of.
  destruct (Z.ltb_spec klen 0); [reflexivity|].
  rewrite split_len_short by lia. reflexivity.
Qed.

(* totality of the operand decoding: a well-formed block, or a stack/memory error *)
Lemma key_range_args_cases st :
  (exists maddr n key s, st = maddr :: n :: zlen key :: rev key ++ s /\ 0 <= maddr /\ 0 <= n /\
                         key_range_args st = Ok (maddr, n, key, s))
  \/ key_range_args st = Err EStack \/ key_range_args st = Err EMemory.
Proof.
  destruct st as [|maddr st]; [right; left; reflexivity|].
  destruct (Z.ltb_spec maddr 0) as [Ha|Ha]; [right; right; apply kra_neg_addr; exact Ha|].
  destruct st as [|n st]; [right; left; apply kra_one; exact Ha|].
  destruct (Z.ltb_spec n 0) as [Hn|Hn]; [right; left; apply kra_neg_count; assumption|].
  destruct st as [|klen st]; [right; left; apply kra_two; assumption|].
  destruct (Z.ltb_spec klen 0) as [Hk|Hk]; [right; left; apply kra_bad_klen; auto|].
  destruct (Z.ltb_spec (zlen st) klen) as [Hl|Hl]; [right; left; apply kra_bad_klen; auto|].
  left. exists maddr, n, (rev (firstn (Z.to_nat klen) st)), (skipn (Z.to_nat klen) st).
  assert (Est : maddr :: n :: klen :: st =
                maddr :: n :: zlen (rev (firstn (Z.to_nat klen) st))
                  :: rev (rev (firstn (Z.to_nat klen) st)) ++ skipn (Z.to_nat klen) st).
  { rewrite zlen_rev, zlen_firstn by lia. rewrite rev_involutive, firstn_skipn. reflexivity. }
  split; [exact Est|]. split; [exact Ha|]. split; [exact Hn|].
  rewrite Est at 1. apply key_range_args_ok; assumption.
Qed.

Lemma key_range_extern_short_contract E o maddr n key s m :
  o = OKeyRangeExtern \/ o = OPostKeyRangeExtern -> 0 <= maddr -> 0 <= n -> (length s < 4)%nat ->
  step_state_read E o (maddr :: n :: zlen key :: rev key ++ s) m = Err EStack.
Proof.
  intros [Ho|Ho] Ha Hn Hs; subst o; cbn [step_state_read]; unfold op_key_range_ext;
    rewrite key_range_args_ok by assumption; cbn [bind]; rewrite popn_short by assumption; reflexivity.
Qed.

(* never a panic, never out of fuel: every outcome of a state read op is Ok or Err *)
Lemma write_values_to_memory_total maddr vs m : 0 <= maddr <= 9223372036854775807 -> zlen m <= 10240 ->
  (exists m', write_values_to_memory maddr vs m = Ok m' /\ length m' = length m) \/
  write_values_to_memory maddr vs m = Err EMemory.
Proof.
  intros Ha Bm. rewrite (key_range_layout_eq maddr vs m Ha Bm).
  destruct (key_range_fits maddr vs m) eqn:F; [left|right; reflexivity].
  eexists. split; [reflexivity|]. apply key_range_region_length; [lia|]. apply key_range_fits_spec. exact F.
Qed.

(* ---------- Item 3: a state error is returned unchanged ---------- *)
Lemma state_error_returned E o maddr n key s m :
  0 <= maddr -> 0 <= n ->
  (o = OKeyRange /\ e_pre E (sol_contract (this_solution E)) key n = None) \/
  (o = OPostKeyRange /\ e_post E (sol_contract (this_solution E)) key n = None) ->
  step_state_read E o (maddr :: n :: zlen key :: rev key ++ s) m = Err EStateRead.
Proof.
  intros Ha Hn [[Ho H]|[Ho H]]; subst o.
  - rewrite key_range_request by assumption. rewrite H. reflexivity.
  - rewrite post_key_range_request by assumption. rewrite H. reflexivity.
Qed.

Lemma state_error_returned_extern E o maddr n key w0 w1 w2 w3 s m :
  0 <= maddr -> 0 <= n ->
  (o = OKeyRangeExtern /\ e_pre E (bytes_of_words [w0; w1; w2; w3]) key n = None) \/
  (o = OPostKeyRangeExtern /\ e_post E (bytes_of_words [w0; w1; w2; w3]) key n = None) ->
  step_state_read E o (maddr :: n :: zlen key :: rev key ++ [w3; w2; w1; w0] ++ s) m = Err EStateRead.
Proof.
  intros Ha Hn [[Ho H]|[Ho H]]; subst o.
  - rewrite key_range_extern_request by assumption. rewrite H. reflexivity.
  - rewrite post_key_range_extern_request by assumption. rewrite H. reflexivity.
Qed.

(* ---------- request and layout combined: the complete effect of a successful read ---------- *)
Lemma key_range_success E maddr n key s m vs :
  0 <= maddr <= 9223372036854775807 -> 0 <= n -> zlen m <= 10240 ->
  e_pre E (sol_contract (this_solution E)) key n = Some vs ->
  step_state_read E OKeyRange (maddr :: n :: zlen key :: rev key ++ s) m =
  if key_range_fits maddr vs m then Ok (s, key_range_region maddr vs m) else Err EMemory.
Proof.
  intros Ha Hn Bm Hv. rewrite key_range_request by lia. rewrite Hv.
  rewrite (key_range_layout_eq maddr vs m Ha Bm). destruct (key_range_fits maddr vs m); reflexivity.
Qed.
