(* Several locks: each lock behaves like the one-lock model (projection), plus deadlock freedom. *)
From Coq Require Import ZArith List Lia Bool Arith Permutation.
From EB Require Import Lock.Lock Lock.MultiLock Proofs.LockProofs.
Import ListNotations.

Lemma map_upd {A B} (f : A -> B) (l : list A) n x : map f (upd l n x) = upd (map f l) n (f x).
Proof. revert n; induction l as [|a l IH]; intros [|n]; cbn [upd map]; auto. f_equal; apply IH. Qed.

Lemma upd_same {A} (l : list A) n x : nth_error l n = Some x -> upd l n x = l.
Proof.
  revert n; induction l as [|a l IH]; intros [|n] H; cbn [upd nth_error] in *; auto.
  - congruence.
  - f_equal; apply IH, H.
Qed.

Lemma nth_upd_eq {A} (l : list A) n x d : n < length l -> nth n (upd l n x) d = x.
Proof.
  revert n; induction l as [|a l IH]; intros [|n] H; cbn [upd nth length] in *; auto; try lia.
  apply IH; lia.
Qed.

Lemma nth_upd_neq {A} (l : list A) n m x d : n <> m -> nth m (upd l n x) d = nth m l d.
Proof.
  revert n m; induction l as [|a l IH]; intros [|n] [|m] H; cbn [upd nth]; auto; try lia.
Qed.

Section MultiProofs.
Variables T U : Type.
Notation mstate := (mstate T U).
Notation mclosure := (mclosure T U).
Notation mthread := (mthread T U).

(* the lock a step of thread t is about: the lock named by the head of its program *)
Definition step_lock (s : mstate) (t : nat) : option nat :=
  match nth_error (mthreads s) t with
  | Some th => match mprog th with c :: _ => Some (fst c) | [] => None end
  | None => None
  end.

Lemma lock_log_snoc k (l : list (mentry T U)) e :
  lock_log k (l ++ [e]) = lock_log k l ++ (if Nat.eqb (me_lock e) k then [me_entry e] else []).
Proof.
  unfold lock_log. rewrite filter_app, map_app. cbn [filter].
  destruct (Nat.eqb (me_lock e) k); reflexivity.
Qed.

(* ---------- simulation: one step ---------- *)
Lemma proj_thread_head (th : mthread) k f rest :
  mprog th = (k, f) :: rest -> proj_thread k th = mkThread (f :: proj_prog k rest) (mph th).
Proof.
  intro Hpr. unfold proj_thread. rewrite Hpr. unfold proj_prog, on_lock. cbn [filter fst].
  rewrite Nat.eqb_refl. cbn [map snd]. destruct (mph th); reflexivity.
Qed.

Lemma proj_thread_other (th : mthread) k k' f rest :
  mprog th = (k, f) :: rest -> k <> k' -> proj_thread k' th = mkThread (proj_prog k' rest) Idle.
Proof.
  intros Hpr Hne. unfold proj_thread. rewrite Hpr. unfold proj_prog, on_lock. cbn [filter fst].
  destruct (Nat.eqb_spec k k'); [contradiction|]. destruct (mph th); reflexivity.
Qed.

Lemma proj_thread_idle (th : mthread) k : mph th = Idle -> proj_thread k th = mkThread (proj_prog k (mprog th)) Idle.
Proof. intro H. unfold proj_thread. rewrite H. reflexivity. Qed.

Lemma mstep_proj (d : T) (s : mstate) t s' :
  mstep_fn s t = Some s' ->
  exists k, step_lock s t = Some k /\ k < length (cells s) /\
            step_fn (proj d k s) t = Some (proj d k s') /\
            (forall k', k' <> k -> proj d k' s' = proj d k' s) /\
            length (cells s') = length (cells s).
Proof.
  unfold mstep_fn, step_lock. intro H.
  destruct (nth_error (mthreads s) t) as [th|] eqn:Hth; [|discriminate].
  destruct (mprog th) as [|[k f] rest] eqn:Hpr; [discriminate|].
  destruct (nth_error (cells s) k) as [c|] eqn:Hc; [|discriminate].
  assert (Hk : k < length (cells s)) by (apply nth_error_Some; congruence).
  assert (Ht : t < length (mthreads s)) by (apply nth_error_Some; congruence).
  exists k. split; [reflexivity|]. split; [exact Hk|].
  assert (Hnth : forall d0, nth k (cells s) d0 = c) by (intro d0; apply nth_error_nth; exact Hc).
  pose proof (proj_thread_head th k f rest Hpr) as Hhead.
  destruct (mph th) as [|snap] eqn:Hph.
  - (* acquire *)
    destruct (c_holder c) eqn:Hh; [discriminate|]. injection H as H; subst s'.
    split; [|split].
    + unfold step_fn, proj. cbn [threads cells mthreads mlog holder data].
      rewrite nth_error_map, Hth. cbn [option_map]. rewrite Hhead. cbn [ph prog].
      rewrite Hnth, Hh.
      unfold acquired. cbn [data threads log prog]. f_equal. f_equal.
      * rewrite nth_upd_eq by exact Hk. reflexivity.
      * rewrite nth_upd_eq by exact Hk. reflexivity.
      * rewrite map_upd. f_equal.
        symmetry. apply (proj_thread_head (mkMThread ((k, f) :: rest) (Holding (c_data c))) k f rest).
        reflexivity.
    + intros k' Hne. unfold proj. cbn [cells mthreads mlog]. f_equal.
      * rewrite nth_upd_neq by auto. reflexivity.
      * rewrite nth_upd_neq by auto. reflexivity.
      * rewrite map_upd. apply upd_same. rewrite nth_error_map, Hth. cbn [option_map]. f_equal.
        rewrite (proj_thread_other th k k' f rest) by auto.
        symmetry. apply (proj_thread_other _ k k' f rest); [reflexivity|auto].
    + cbn [cells]. apply upd_length.
  - (* finish *)
    destruct (holder_is (c_holder c) t) eqn:Hh; [|discriminate]. injection H as H; subst s'.
    split; [|split].
    + unfold step_fn, proj. cbn [threads cells mthreads mlog holder data].
      rewrite nth_error_map, Hth. cbn [option_map]. rewrite Hhead. cbn [ph prog].
      rewrite Hnth, Hh.
      unfold finished. cbn [data threads log]. f_equal. f_equal.
      * rewrite nth_upd_eq by exact Hk. reflexivity.
      * rewrite nth_upd_eq by exact Hk. reflexivity.
      * rewrite map_upd. f_equal.
      * rewrite lock_log_snoc. cbn [me_lock me_entry]. rewrite Nat.eqb_refl. reflexivity.
    + intros k' Hne. unfold proj. cbn [cells mthreads mlog]. f_equal.
      * rewrite nth_upd_neq by auto. reflexivity.
      * rewrite nth_upd_neq by auto. reflexivity.
      * rewrite map_upd. apply upd_same. rewrite nth_error_map, Hth. cbn [option_map]. f_equal.
        rewrite (proj_thread_other th k k' f rest) by auto.
        rewrite proj_thread_idle by reflexivity. reflexivity.
      * rewrite lock_log_snoc. cbn [me_lock]. destruct (Nat.eqb_spec k k'); [congruence|].
        apply app_nil_r.
    + cbn [cells]. apply upd_length.
Qed.

(* ---------- simulation: whole runs ---------- *)
Lemma mrun_proj (d : T) k sched : forall (s s' : mstate),
  mrun s sched = Some s' ->
  exists sched', run_schedule (proj d k s) sched' = Some (proj d k s').
Proof.
  induction sched as [|t r IH]; intros s s' H; cbn [mrun] in H.
  - injection H as H; subst s'. exists []. reflexivity.
  - destruct (mstep_fn s t) as [s1|] eqn:Hs; [|discriminate].
    destruct (IH s1 s' H) as (sched' & Hr).
    destruct (mstep_proj d s t s1 Hs) as (k0 & _ & _ & Hstep & Hother & _).
    destruct (Nat.eq_dec k k0) as [E|E].
    + subst k0. exists (t :: sched'). cbn [run_schedule]. rewrite Hstep. exact Hr.
    + exists sched'. rewrite <- (Hother k E). exact Hr.
Qed.

Lemma proj_minit (d : T) k (vs : list T) (P : list (list mclosure)) :
  proj d k (minit vs P) = init (nth k vs d) (map (proj_prog k) P).
Proof.
  unfold proj, minit, init. cbn [cells mthreads mlog]. f_equal.
  - change (mkCell d None) with ((fun v => @mkCell T v None) d). rewrite map_nth. reflexivity.
  - change (mkCell d None) with ((fun v => @mkCell T v None) d). rewrite map_nth. reflexivity.
  - rewrite !map_map. apply map_ext. intro p. reflexivity.
Qed.

(* Every reachable state of the many-locks model, seen through lock k, is a reachable state of the
   one-lock model started with lock k's initial value and the threads' calls on lock k. *)
Lemma multi_projects (d : T) k vs (P : list (list mclosure)) sched s :
  mrun (minit vs P) sched = Some s ->
  exists sched', run_schedule (init (nth k vs d) (map (proj_prog k) P)) sched' = Some (proj d k s).
Proof. intro H. rewrite <- proj_minit. eapply mrun_proj, H. Qed.

(* ---------- per-lock consequences ---------- *)
Lemma multi_serialisable (d : T) k vs (P : list (list mclosure)) sched s :
  mrun (minit vs P) sched = Some s ->
  c_data (nth k (cells s) (mkCell d None)) = replay (nth k vs d) (lock_log k (mlog s)) /\
  serial_chain (nth k vs d) (lock_log k (mlog s)).
Proof.
  intro H. destruct (multi_projects d k vs P sched s H) as (sched' & Hr).
  exact (serialisable _ _ _ _ _ _ Hr).
Qed.

Lemma multi_mutual_exclusion (d : T) vs (P : list (list mclosure)) sched s t th snap k f rest :
  mrun (minit vs P) sched = Some s ->
  nth_error (mthreads s) t = Some th -> mph th = Holding snap -> mprog th = (k, f) :: rest ->
  c_holder (nth k (cells s) (mkCell d None)) = Some t /\
  snap = c_data (nth k (cells s) (mkCell d None)) /\
  forall t' th' snap' f' rest', nth_error (mthreads s) t' = Some th' -> mph th' = Holding snap' ->
     mprog th' = (k, f') :: rest' -> t' = t.
Proof.
  intros H Hth Hph Hpr. destruct (multi_projects d k vs P sched s H) as (sched' & Hr).
  pose proof (mutual_exclusion _ _ _ _ _ _ Hr) as M.
  assert (Hp : forall t0 th0 snap0 f0 rest0, nth_error (mthreads s) t0 = Some th0 ->
               mph th0 = Holding snap0 -> mprog th0 = (k, f0) :: rest0 ->
               nth_error (threads (proj d k s)) t0 = Some (proj_thread k th0) /\
               ph (proj_thread k th0) = Holding snap0).
  { intros t0 th0 snap0 f0 rest0 H1 H2 H3. unfold proj; cbn [threads].
    rewrite nth_error_map, H1. split; [reflexivity|].
    unfold proj_thread; cbn [ph]. rewrite H2, H3. unfold on_lock; cbn [fst]. rewrite Nat.eqb_refl. reflexivity. }
  destruct (Hp t th snap f rest Hth Hph Hpr) as (H1 & H2).
  destruct (M t _ snap H1 H2) as (M1 & M2 & M3).
  split; [exact M1|]. split; [exact M2|].
  intros t' th' snap' f' rest' H1' H2' H3'.
  destruct (Hp t' th' snap' f' rest' H1' H2' H3') as (H4 & H5).
  eapply M3; eauto.
Qed.

Lemma proj_all_done (d : T) k (s : mstate) : m_all_done s -> all_done (proj d k s).
Proof.
  unfold m_all_done, all_done, proj; cbn [threads]. intro H. apply Forall_map.
  eapply Forall_impl; [|exact H]. intros th Hth. unfold proj_thread; cbn [prog]. rewrite Hth. reflexivity.
Qed.

Lemma multi_complete (d : T) k vs (P : list (list mclosure)) sched s :
  mrun (minit vs P) sched = Some s -> m_all_done s ->
  Permutation (map e_fn (lock_log k (mlog s))) (concat (map (proj_prog k) P)) /\
  forall t, map e_fn (calls_of t (lock_log k (mlog s))) = proj_prog k (nth t P []).
Proof.
  intros H Hd. destruct (multi_projects d k vs P sched s H) as (sched' & Hr).
  destruct (complete_runs_serial _ _ _ _ _ _ Hr (proj_all_done d k s Hd)) as (H1 & H2 & _).
  split; [exact H1|]. intro t. etransitivity; [exact (H2 t)|].
  change (@nil (closure T U)) with (proj_prog k (@nil mclosure)). apply map_nth.
Qed.

(* ---------- deadlock freedom with several locks ---------- *)
Record minv (n : nat) (s : mstate) : Prop := {
  minv_cells : length (cells s) = n;
  minv_valid : forall t th, nth_error (mthreads s) t = Some th -> Forall (fun c => fst c < n) (mprog th);
  minv_hold : forall t th snap, nth_error (mthreads s) t = Some th -> mph th = Holding snap -> mprog th <> []
}.

Definition locks_valid (n : nat) (P : list (list mclosure)) : Prop :=
  forall p c, In p P -> In c p -> fst c < n.

Lemma minv_init vs (P : list (list mclosure)) : locks_valid (length vs) P -> minv (length vs) (minit vs P).
Proof.
  intro Hv. split; cbn [minit cells mthreads].
  - apply map_length.
  - intros t th H. apply nth_error_In, in_map_iff in H. destruct H as (p & H & Hp). subst th.
    cbn [mprog]. apply Forall_forall. intros c Hc. eapply Hv; eauto.
  - intros t th snap H Hph. apply nth_error_In, in_map_iff in H. destruct H as (p & H & _). subst th.
    discriminate.
Qed.

Lemma minv_step n (s : mstate) t s' : minv n s -> mstep_fn s t = Some s' -> minv n s'.
Proof.
  intros I H. unfold mstep_fn in H.
  destruct (nth_error (mthreads s) t) as [th|] eqn:Hth; [|discriminate].
  destruct (mprog th) as [|[k f] rest] eqn:Hpr; [discriminate|].
  destruct (nth_error (cells s) k) as [c|] eqn:Hc; [|discriminate].
  assert (Ht : t < length (mthreads s)) by (apply nth_error_Some; congruence).
  pose proof (minv_valid _ _ I t th Hth) as Hv. rewrite Hpr in Hv.
  destruct (mph th) as [|snap] eqn:Hph.
  - destruct (c_holder c); [discriminate|]. injection H as H; subst s'.
    split; cbn [cells mthreads].
    + rewrite upd_length. apply (minv_cells _ _ I).
    + intros t' th' H'. destruct (Nat.eq_dec t t') as [E|E].
      * subst t'. rewrite nth_error_upd_eq in H' by exact Ht. injection H' as H'; subst th'.
        cbn [mprog]. rewrite ?Hpr. exact Hv.
      * rewrite nth_error_upd_neq in H' by exact E. eapply (minv_valid _ _ I); eauto.
    + intros t' th' snap' H' Hph'. destruct (Nat.eq_dec t t') as [E|E].
      * subst t'. rewrite nth_error_upd_eq in H' by exact Ht. injection H' as H'; subst th'.
        cbn [mprog]. rewrite ?Hpr. discriminate.
      * rewrite nth_error_upd_neq in H' by exact E. eapply (minv_hold _ _ I); eauto.
  - destruct (holder_is (c_holder c) t); [|discriminate]. injection H as H; subst s'.
    split; cbn [cells mthreads].
    + rewrite upd_length. apply (minv_cells _ _ I).
    + intros t' th' H'. destruct (Nat.eq_dec t t') as [E|E].
      * subst t'. rewrite nth_error_upd_eq in H' by exact Ht. injection H' as H'; subst th'.
        cbn [mprog]. inversion Hv; assumption.
      * rewrite nth_error_upd_neq in H' by exact E. eapply (minv_valid _ _ I); eauto.
    + intros t' th' snap' H' Hph'. destruct (Nat.eq_dec t t') as [E|E].
      * subst t'. rewrite nth_error_upd_eq in H' by exact Ht. injection H' as H'; subst th'.
        discriminate.
      * rewrite nth_error_upd_neq in H' by exact E. eapply (minv_hold _ _ I); eauto.
Qed.

Lemma minv_run n sched : forall (s s' : mstate), minv n s -> mrun s sched = Some s' -> minv n s'.
Proof.
  induction sched as [|t r IH]; intros s s' I H; cbn [mrun] in H.
  - injection H as H; subst; exact I.
  - destruct (mstep_fn s t) as [s1|] eqn:Hs; [|discriminate].
    eapply IH; [|exact H]. eapply minv_step; eauto.
Qed.

Lemma multi_deadlock_free (d : T) vs (P : list (list mclosure)) sched s :
  locks_valid (length vs) P -> mrun (minit vs P) sched = Some s -> m_has_work s ->
  exists t, mstep_fn s t <> None.
Proof.
  intros Hv H (t & th & Hth & Hw).
  pose proof (minv_run _ _ _ _ (minv_init vs P Hv) H) as I.
  assert (Hne : mprog th <> []).
  { destruct Hw as [Hw|(snap & Hw)]; [exact Hw|]. eapply (minv_hold _ _ I); eauto. }
  destruct (mprog th) as [|[k f] rest] eqn:Hpr; [congruence|].
  pose proof (minv_valid _ _ I t th Hth) as Hval. rewrite Hpr in Hval. inversion Hval as [|? ? Hk _]; subst.
  cbn [fst] in Hk. rewrite <- (minv_cells _ _ I) in Hk.
  destruct (nth_error (cells s) k) as [c|] eqn:Hc; [|apply nth_error_None in Hc; lia].
  assert (Hnth : nth k (cells s) (mkCell d None) = c) by (apply nth_error_nth; exact Hc).
  destruct (multi_projects d k vs P sched s H) as (sched' & Hr).
  destruct (mph th) as [|snap] eqn:Hph.
  - destruct (c_holder c) as [h|] eqn:Hh.
    + (* the lock is held by h: h can finish *)
      destruct (holder_is_holding _ _ _ _ _ _ h Hr) as (thp & H1 & H2).
      { unfold proj; cbn [holder]. rewrite Hnth. exact Hh. }
      unfold proj in H1; cbn [threads] in H1. rewrite nth_error_map in H1.
      destruct (nth_error (mthreads s) h) as [thh|] eqn:Hthh; [|discriminate].
      cbn [option_map] in H1. injection H1 as H1; subst thp.
      unfold proj_thread in H2; cbn [ph] in H2.
      destruct (mph thh) as [|snaph] eqn:Hphh; [discriminate|].
      destruct (mprog thh) as [|[k' f'] rest'] eqn:Hprh; [discriminate|].
      unfold on_lock in H2; cbn [fst] in H2.
      destruct (Nat.eqb_spec k' k) as [E|E]; [|discriminate]. subst k'.
      exists h. unfold mstep_fn. rewrite Hthh, Hprh, Hc, Hphh, Hh. cbn [holder_is].
      rewrite Nat.eqb_refl. discriminate.
    + exists t. unfold mstep_fn. rewrite Hth, Hpr, Hc, Hph, Hh. discriminate.
  - destruct (multi_mutual_exclusion d vs P sched s t th snap k f rest H Hth Hph Hpr) as (M1 & _).
    rewrite Hnth in M1.
    exists t. unfold mstep_fn. rewrite Hth, Hpr, Hc, Hph, M1. cbn [holder_is].
    rewrite Nat.eqb_refl. discriminate.
Qed.

End MultiProofs.

(* ---------- counters on several locks ---------- *)
Local Open Scope Z_scope.

Lemma multi_no_lost_update_counter (d : Z) k vs (P : list (list (mclosure Z Z))) sched s :
  (forall p c, In p P -> In c p -> forall x, snd c x = (x + 1, x)) ->
  mrun (minit vs P) sched = Some s -> m_all_done s ->
  c_data (nth k (cells s) (mkCell d None)) =
    nth k vs d + Z.of_nat (length (concat (map (proj_prog k) P))) /\
  NoDup (map e_result (lock_log k (mlog s))).
Proof.
  intros Hi H Hd. destruct (multi_projects _ _ d k vs P sched s H) as (sched' & Hr).
  apply (no_lost_update_counter _ _ _ _) in Hr.
  - exact Hr.
  - intros p f Hp Hf x. apply in_map_iff in Hp. destruct Hp as (p0 & Hp & Hp0). subst p.
    unfold proj_prog in Hf. apply in_map_iff in Hf. destruct Hf as (c & Hf & Hc). subst f.
    apply filter_In in Hc. destruct Hc as (Hc & _). eapply Hi; eauto.
  - apply proj_all_done, Hd.
Qed.
