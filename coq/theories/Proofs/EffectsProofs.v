(* Lemmas for C15: effect analysis is exact. *)
From EB Require Import Base.ListX Asm.Effects Proofs.AsmCodec.
Open Scope list_scope.
Open Scope Z_scope.

Lemma flags_documented :
  (fx_key_range, fx_key_range_extern, fx_this_address, fx_this_contract_address, fx_post_key_range, fx_post_key_range_extern)
  = (1, 2, 4, 8, 16, 32).
Proof. reflexivity. Qed.

Lemma analyze_arm_effect o : analyze_arm o = effect_of o.
Proof. destruct o; reflexivity. Qed.

Lemma fx_all_63 : fx_all = 63. Proof. reflexivity. Qed.

Lemma lor_all_effect o : Z.lor 63 (effect_of o) = 63.
Proof. destruct o; reflexivity. Qed.

Lemma lor_all_spec ops : Z.lor 63 (effects_spec ops) = 63.
Proof.
  induction ops as [|o r IH]; [reflexivity|]. cbn [effects_spec fold_right]. fold (effects_spec r).
  rewrite Z.lor_assoc, lor_all_effect. exact IH.
Qed.

Lemma analyze_go_spec ops : forall acc, analyze_go acc ops = Z.lor acc (effects_spec ops).
Proof.
  induction ops as [|o r IH]; intros acc.
  - simpl. rewrite Z.lor_0_r. reflexivity.
  - cbn [analyze_go effects_spec fold_right]. fold (effects_spec r).
    rewrite analyze_arm_effect, fx_all_63.
    destruct (Z.eqb_spec (Z.lor acc (effect_of o)) 63) as [E|_].
    + rewrite Z.lor_assoc, E, lor_all_spec. reflexivity.
    + rewrite IH, Z.lor_assoc. reflexivity.
Qed.

Lemma analyze_exact ops : analyze ops = effects_spec ops.
Proof. unfold analyze. rewrite analyze_go_spec. apply Z.lor_0_l. Qed.

(* finite sweep: the six guards decide exactly "this op has one of the queried effects" *)
Definition subsets64 : list Z := map Z.of_nat (seq 0 64).

Lemma in_subsets64 fl : 0 <= fl < 64 -> In fl subsets64.
Proof.
  intros H. unfold subsets64. apply in_map_iff. exists (Z.to_nat fl). split; [lia|].
  apply in_seq. lia.
Qed.

Lemma byte_hits_sweep :
  forallb (fun fl => forallb (fun o => Bool.eqb (byte_hits (opcode_of o) fl) (has_effect fl o)) all_ops) subsets64 = true.
Proof. vm_compute. reflexivity. Qed.

Lemma byte_hits_op o fl : 0 <= fl < 64 -> byte_hits (opcode_of o) fl = has_effect fl o.
Proof.
  intros H. pose proof byte_hits_sweep as S. rewrite forallb_forall in S.
  specialize (S fl (in_subsets64 fl H)). rewrite forallb_forall in S.
  specialize (S (norm o) (all_ops_complete o)). apply Bool.eqb_prop in S.
  destruct o; exact S.
Qed.

Lemma contains_any_prefix ops : Forall well_formed_op ops -> forall fl fuel rest,
  0 <= fl < 64 -> (length ops <= fuel)%nat ->
  contains_any_go fuel (to_bytes ops ++ rest) fl =
    existsb (has_effect fl) ops || contains_any_go (fuel - length ops) rest fl.
Proof.
  induction ops as [|o ops IH]; intros H fl fuel rest Hfl L.
  - simpl. rewrite Nat.sub_0_r. reflexivity.
  - inversion H as [|? ? Ho Hops]; subst.
    destruct fuel as [|f]; [simpl in L; lia|]. simpl in L.
    cbn [to_bytes flat_map existsb length]. fold (to_bytes ops). rewrite <- app_assoc.
    replace (S f - S (length ops))%nat with (f - length ops)%nat by lia.
    destruct o.
    1:{ (* Push: skip exactly the 8 immediate bytes *)
      cbn [to_bytes1 app contains_any_go].
      change (opcode_of (OPush w)) with (opcode_of (OPush 0)).
      rewrite (byte_hits_op (OPush 0) fl Hfl).
      replace (has_effect fl (OPush 0)) with false
        by (unfold has_effect; cbn [effect_of]; rewrite Z.land_0_r; reflexivity).
      replace (has_effect fl (OPush w)) with false
        by (unfold has_effect; cbn [effect_of]; rewrite Z.land_0_r; reflexivity).
      cbn [orb].
      change (opcode_of (OPush 0) =? push_byte) with true. cbv iota.
      rewrite (skipn_app_exact _ (to_bytes ops ++ rest) 8 (bytes_of_word_length w)).
      apply IH; try assumption; lia. }
    all: cbn [to_bytes1 app contains_any_go];
         rewrite byte_hits_op by assumption;
         match goal with |- context [has_effect ?f ?o] => destruct (has_effect f o) end;
         [reflexivity|];
         match goal with |- context [opcode_of ?o =? push_byte] => change (opcode_of o =? push_byte) with false end;
         cbv iota; cbn [orb]; apply IH; try assumption; lia.
Qed.

Lemma bytes_contains_any_exact ops fl :
  Forall well_formed_op ops -> 0 <= fl < 64 ->
  bytes_contains_any (to_bytes ops) fl = existsb (has_effect fl) ops.
Proof.
  intros H Hfl. unfold bytes_contains_any.
  rewrite <- (app_nil_r (to_bytes ops)) at 2.
  rewrite contains_any_prefix by (try assumption; apply to_bytes_length_ge).
  destruct (length (to_bytes ops) - length ops)%nat; simpl; apply orb_false_r.
Qed.

(* the spec of the byte-level query in terms of the op-level one *)
Lemma has_effect_existsb_spec ops fl :
  0 <= fl < 64 -> existsb (has_effect fl) ops = negb (Z.land fl (effects_spec ops) =? 0).
Proof.
  intros Hfl. induction ops as [|o r IH].
  - simpl. rewrite Z.land_0_r. reflexivity.
  - cbn [existsb effects_spec fold_right]. fold (effects_spec r). rewrite IH.
    rewrite Z.land_lor_distr_r. unfold has_effect.
    destruct (Z.eqb_spec (Z.land fl (effect_of o)) 0) as [E|E];
    destruct (Z.eqb_spec (Z.land fl (effects_spec r)) 0) as [F|F]; cbn [negb orb].
    + rewrite E, F. reflexivity.
    + rewrite E, Z.lor_0_l. destruct (Z.eqb_spec (Z.land fl (effects_spec r)) 0); [contradiction|reflexivity].
    + rewrite F, Z.lor_0_r. destruct (Z.eqb_spec (Z.land fl (effect_of o)) 0); [contradiction|reflexivity].
    + destruct (Z.eqb_spec (Z.lor (Z.land fl (effect_of o)) (Z.land fl (effects_spec r))) 0) as [G|G]; [|reflexivity].
      apply Z.lor_eq_0_iff in G. tauto.
Qed.

(* --- compositionality of the analysis (union semantics) --- *)
From Coq Require Import Permutation.

Lemma effects_spec_app a b : effects_spec (a ++ b) = Z.lor (effects_spec a) (effects_spec b).
Proof.
  induction a as [|o r IH]; [cbn [app effects_spec fold_right]; rewrite Z.lor_0_l; reflexivity|].
  cbn [app effects_spec fold_right]. fold (effects_spec (r ++ b)). fold (effects_spec r).
  rewrite IH, Z.lor_assoc. reflexivity.
Qed.

Lemma analyze_app a b : analyze (a ++ b) = Z.lor (analyze a) (analyze b).
Proof. rewrite !analyze_exact. apply effects_spec_app. Qed.

Lemma effects_spec_perm a b : Permutation a b -> effects_spec a = effects_spec b.
Proof.
  intros P. induction P as [|x l l' P IH|x y l|l l' l'' P1 IH1 P2 IH2].
  - reflexivity.
  - cbn [effects_spec fold_right]. fold (effects_spec l). fold (effects_spec l'). rewrite IH. reflexivity.
  - cbn [effects_spec fold_right]. fold (effects_spec l).
    rewrite !Z.lor_assoc, (Z.lor_comm (effect_of y) (effect_of x)). reflexivity.
  - rewrite IH1. exact IH2.
Qed.

Lemma analyze_perm a b : Permutation a b -> analyze a = analyze b.
Proof. intros P. rewrite !analyze_exact. apply effects_spec_perm, P. Qed.

Lemma effect_of_range o : Z.land 63 (effect_of o) = effect_of o.
Proof. destruct o; reflexivity. Qed.

Lemma effects_spec_land63 ops : Z.land 63 (effects_spec ops) = effects_spec ops.
Proof.
  induction ops as [|o r IH]; [reflexivity|].
  cbn [effects_spec fold_right]. fold (effects_spec r).
  rewrite Z.land_lor_distr_r, effect_of_range, IH. reflexivity.
Qed.

Lemma effects_spec_nonneg ops : 0 <= effects_spec ops.
Proof.
  induction ops as [|o r IH]; [cbn; apply Z.le_refl|].
  cbn [effects_spec fold_right]. fold (effects_spec r).
  apply Z.lor_nonneg. split; [destruct o; cbn; try apply Z.le_refl; discriminate | exact IH].
Qed.

Lemma analyze_range ops : 0 <= analyze ops < 64.
Proof.
  rewrite analyze_exact. split; [apply effects_spec_nonneg|].
  rewrite <- effects_spec_land63.
  rewrite Z.land_comm. change 63 with (Z.ones 6). rewrite Z.land_ones by discriminate.
  apply Z.mod_pos_bound. reflexivity.
Qed.

(* a program is reported effect-free exactly when none of its operations has an effect *)
Lemma analyze_zero_iff ops : analyze ops = 0 <-> Forall (fun o => effect_of o = 0) ops.
Proof.
  rewrite analyze_exact. induction ops as [|o r IH].
  - split; [constructor | reflexivity].
  - cbn [effects_spec fold_right]. fold (effects_spec r). rewrite Z.lor_eq_0_iff. split.
    + intros [A B]. constructor; [exact A | apply IH, B].
    + intros F. inversion F as [|? ? A B]; subst. split; [exact A | apply IH, B].
Qed.

(* the byte-level query is compositional too: scanning two serialised programs back to back finds an
   effect exactly when one of the two scans does (nothing leaks across the boundary) *)
Lemma bytes_contains_any_concat a b fl :
  Forall well_formed_op a -> Forall well_formed_op b -> 0 <= fl < 64 ->
  bytes_contains_any (to_bytes a ++ to_bytes b) fl =
  bytes_contains_any (to_bytes a) fl || bytes_contains_any (to_bytes b) fl.
Proof.
  intros Ha Hb Hfl. rewrite <- to_bytes_app.
  rewrite (bytes_contains_any_exact (a ++ b) fl) by (try exact Hfl; apply Forall_app; split; assumption).
  rewrite (bytes_contains_any_exact a fl Ha Hfl), (bytes_contains_any_exact b fl Hb Hfl).
  apply existsb_app.
Qed.
