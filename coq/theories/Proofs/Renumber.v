(* Numbering independence of the predicate-graph check (part of C01).
   A node starts from the concatenation of its parents' results IN ASCENDING PARENT ORDER, so the order of
   co-parents is part of the semantics.  A renaming `pi` of the nodes therefore preserves behaviour when it
   maps, for every node, the ascending list of its parents to the ascending list of the parents of the
   renamed node (R1), i.e. when it is monotone on every parent set.  Under such a renaming the reference
   value of every node, the verdict, the total gas, the multiset of data outputs and the set of
   unsatisfied leaves are the same. *)
From Coq Require Import List Arith Lia Bool ZArith Permutation.
From EB Require Import Proofs.KahnBase Proofs.Kahn Spec.InnerSpec Proofs.InnerEval Spec.GraphRef Proofs.C01Glue.
Import ListNotations.
Open Scope nat_scope.

Definition runT : Type := nat -> bool -> list sm -> outcome unit prog_res.

(* ---- the hypotheses ---- *)
(* pi is a bijection of {0..n-1} with inverse pi'; R1: parents correspond with multiplicity and order;
   R2: leaves correspond. *)
Record graph_ren (p p' : predicate) (pi pi' : nat -> nat) : Prop := {
  gr_n : length (p_nodes p') = length (p_nodes p);
  gr_lt : forall v, v < length (p_nodes p) -> pi v < length (p_nodes p);
  gr_lt' : forall v, v < length (p_nodes p) -> pi' v < length (p_nodes p);
  gr_inv : forall v, v < length (p_nodes p) -> pi' (pi v) = v;
  gr_inv' : forall v, v < length (p_nodes p) -> pi (pi' v) = v;
  gr_parents : forall v, v < length (p_nodes p) -> parents_ref p' (pi v) = map pi (parents_ref p v);
  gr_leaf : forall v, v < length (p_nodes p) -> leaf_ref p' (pi v) = leaf_ref p v
}.
(* R3: the same program sits at the renamed position *)
Definition run_ren (p : predicate) (run run' : runT) (pi : nat -> nat) : Prop :=
  forall v leaf ins, v < length (p_nodes p) -> run' (pi v) leaf ins = run v leaf ins.

(* gas reported by the programs is never negative (it is a u64 in the implementation) *)
Definition run_gas_nonneg (run : runT) : Prop :=
  forall v leaf ins o g, run v leaf ins = Ok (PRun o g) -> (0 <= g)%Z.

(* R2 follows from a correspondence of the children lists *)
Lemma leaf_of_kids_perm p p' pi u :
  Permutation (kids p' (pi u)) (map pi (kids p u)) -> leaf_ref p' (pi u) = leaf_ref p u.
Proof.
  unfold leaf_ref. intros H. destruct (kids p u) as [|k ks]; cbn [map] in H.
  - apply Permutation_sym, Permutation_nil in H. rewrite H. reflexivity.
  - destruct (kids p' (pi u)) as [|k' ks']; [|reflexivity].
    apply Permutation_nil in H. discriminate.
Qed.

(* ---- the hypotheses are symmetric ---- *)
Lemma map_inv_in (f g : nat -> nat) l : (forall x, In x l -> g (f x) = x) -> map g (map f l) = l.
Proof.
  intros H. rewrite map_map. rewrite <- (map_id l) at 2. apply map_ext_in. exact H.
Qed.

Lemma graph_ren_sym p p' pi pi' : graph_ren p p' pi pi' -> graph_ren p' p pi' pi.
Proof.
  intros G. destruct G as [Hn Hlt Hlt' Hinv Hinv' Hpar Hleaf].
  constructor; [symmetry; exact Hn|rewrite Hn..].
  - exact Hlt'.
  - exact Hlt.
  - exact Hinv'.
  - exact Hinv.
  - intros w Hw.
    pose proof (Hpar (pi' w) (Hlt' w Hw)) as E. rewrite (Hinv' w Hw) in E. rewrite E.
    symmetry. apply map_inv_in. intros u Hu. apply Hinv. exact (parent_lt _ _ _ Hu).
  - intros w Hw. pose proof (Hleaf (pi' w) (Hlt' w Hw)) as E. rewrite (Hinv' w Hw) in E. symmetry. exact E.
Qed.

Lemma run_ren_sym p p' run run' pi pi' : graph_ren p p' pi pi' -> run_ren p run run' pi -> run_ren p' run' run pi'.
Proof.
  intros G R w leaf ins Hw. rewrite (gr_n _ _ _ _ G) in Hw.
  rewrite <- (R (pi' w) leaf ins (gr_lt' _ _ _ _ G w Hw)). rewrite (gr_inv' _ _ _ _ G w Hw). reflexivity.
Qed.

Lemma renumbering_sym p p' run run' pi pi' :
  graph_ren p p' pi pi' -> run_ren p run run' pi -> graph_ren p' p pi' pi /\ run_ren p' run' run pi'.
Proof. intros G R. exact (conj (graph_ren_sym _ _ _ _ G) (run_ren_sym _ _ _ _ _ _ G R)). Qed.

(* ---- 1. the value of every node ---- *)
Lemma gather_map g (pi : nat -> nat) us : gather_with g (map pi us) = gather_with (fun u => g (pi u)) us.
Proof.
  induction us as [|u us IH]; [reflexivity|].
  cbn [map]. cbn [gather_with]. fold (gather_with g). fold (gather_with (fun u => g (pi u))).
  rewrite IH. reflexivity.
Qed.

Section Ren.
  Variables (p p' : predicate) (run run' : runT) (pi pi' : nat -> nat).
  Notation n := (length (p_nodes p)).
  Hypothesis G : graph_ren p p' pi pi'.
  Hypothesis R : run_ren p run run' pi.

  Lemma value_renumber : forall fuel v, v < n ->
    value p' run' (fun _ => false) fuel (pi v) = value p run (fun _ => false) fuel v.
  Proof.
    induction fuel as [|f IH]; intros v Hv; [reflexivity|].
    rewrite (value_S run' p' f (pi v)), (value_S run p f v). unfold vstep.
    rewrite (gr_parents _ _ _ _ G v Hv), gather_map.
    rewrite (gather_ext (fun u => value p' run' (fun _ => false) f (pi u)) (value p run (fun _ => false) f)).
    2:{ intros u Hu. apply IH. exact (parent_lt _ _ _ Hu). }
    rewrite (gr_leaf _ _ _ _ G v Hv).
    destruct (gather_with (value p run (fun _ : nat => false) f) (parents_ref p v)) as [[ins|]| | |]; cbn [bind]; try reflexivity.
    rewrite (R v (leaf_ref p v) ins Hv). reflexivity.
  Qed.

  Lemma vals_renumber v : v < n -> vals p' run' (pi v) = vals p run v.
  Proof. intros Hv. unfold vals. rewrite (gr_n _ _ _ _ G). apply value_renumber. exact Hv. Qed.

  Lemma vals_renumber_inv w : w < n -> vals p' run' w = vals p run (pi' w).
  Proof.
    intros Hw. rewrite <- (vals_renumber (pi' w) (gr_lt' _ _ _ _ G w Hw)). rewrite (gr_inv' _ _ _ _ G w Hw). reflexivity.
  Qed.

  (* a property of all values holds on one side iff it holds on the other *)
  Lemma all_vals_renumber (P : outcome unit nval -> Prop) :
    (forall v, v < n -> P (vals p run v)) <-> (forall w, w < length (p_nodes p') -> P (vals p' run' w)).
  Proof.
    rewrite (gr_n _ _ _ _ G). split.
    - intros H w Hw. rewrite (vals_renumber_inv w Hw). apply H. exact (gr_lt' _ _ _ _ G w Hw).
    - intros H v Hv. rewrite <- (vals_renumber v Hv). apply H. exact (gr_lt _ _ _ _ G v Hv).
  Qed.

  (* ---- pi permutes 0..n-1 ---- *)
  Lemma pi_seq_perm : Permutation (map pi (seq 0 n)) (seq 0 n).
  Proof.
    apply NoDup_Permutation_bis.
    - apply (NoDup_map_inv pi'). rewrite map_inv_in; [apply seq_NoDup|].
      intros x Hx. apply in_seq in Hx. apply (gr_inv _ _ _ _ G). lia.
    - rewrite map_length. apply Nat.le_refl.
    - intros x Hx. apply in_map_iff in Hx as [y [E Hy]]. subst x. apply in_seq in Hy. apply in_seq.
      pose proof (gr_lt _ _ _ _ G y). lia.
  Qed.

  Lemma map_renumber_perm {B} (f f' : nat -> B) L L' :
    Permutation L (seq 0 n) -> Permutation L' (seq 0 n) -> (forall v, v < n -> f' (pi v) = f v) ->
    Permutation (map f L) (map f' L').
  Proof.
    intros HL HL' Hf.
    apply Permutation_trans with (map f (seq 0 n)); [apply Permutation_map; exact HL|].
    apply Permutation_trans with (map f' (seq 0 n)); [|apply Permutation_map, Permutation_sym; exact HL'].
    apply Permutation_trans with (map f' (map pi (seq 0 n))); [|apply Permutation_map, pi_seq_perm].
    rewrite map_map. apply Permutation_refl'. apply map_ext_in. intros v Hv. apply in_seq in Hv.
    symmetry. apply Hf. lia.
  Qed.

  Lemma flat_map_map {A B C} (g : A -> B) (f : B -> list C) l : flat_map f (map g l) = flat_map (fun x => f (g x)) l.
  Proof. induction l as [|x l IH]; [reflexivity|]. cbn [map flat_map]. rewrite IH. reflexivity. Qed.

  Lemma flat_map_ext_in' {A B} (f g : A -> list B) l : (forall x, In x l -> f x = g x) -> flat_map f l = flat_map g l.
  Proof.
    induction l as [|x l IH]; intros H; [reflexivity|]. cbn [flat_map].
    rewrite (H x) by (left; reflexivity). rewrite IH; [reflexivity|]. intros y Hy. apply H. right. exact Hy.
  Qed.

  Lemma flat_map_renumber_perm {B} (f f' : nat -> list B) L L' :
    Permutation L (seq 0 n) -> Permutation L' (seq 0 n) -> (forall v, v < n -> f' (pi v) = f v) ->
    Permutation (flat_map f L) (flat_map f' L').
  Proof.
    intros HL HL' Hf.
    apply Permutation_trans with (flat_map f (seq 0 n)); [apply Permutation_flat_map; exact HL|].
    apply Permutation_trans with (flat_map f' (seq 0 n)); [|apply Permutation_flat_map, Permutation_sym; exact HL'].
    apply Permutation_trans with (flat_map f' (map pi (seq 0 n))); [|apply Permutation_flat_map, pi_seq_perm].
    rewrite flat_map_map. apply Permutation_refl'. apply flat_map_ext_in'. intros v Hv. apply in_seq in Hv.
    symmetry. apply Hf. lia.
  Qed.
End Ren.

(* ---- acyclicity corresponds (dangling edge targets, which R1 does not constrain, get the top rank) ---- *)
Lemma edge_renumber p p' pi pi' : graph_ren p p' pi pi' ->
  forall u v, v < length (p_nodes p) -> KahnBase.edge p u v -> KahnBase.edge p' (pi u) (pi v).
Proof.
  intros G u v Hv He. apply (proj1 (KahnBase.parents_ref_in p' (pi u) (pi v))). rewrite (gr_parents _ _ _ _ G v Hv).
  apply in_map. apply (proj2 (KahnBase.parents_ref_in p u v)). exact He.
Qed.

Lemma edge_renumber_iff p p' pi pi' : graph_ren p p' pi pi' ->
  forall u v, u < length (p_nodes p) -> v < length (p_nodes p) ->
    (KahnBase.edge p u v <-> KahnBase.edge p' (pi u) (pi v)).
Proof.
  intros G u v Hu Hv. split; [apply (edge_renumber _ _ _ _ G); exact Hv|].
  intros He. pose proof (graph_ren_sym _ _ _ _ G) as G'.
  pose proof (gr_lt _ _ _ _ G v Hv) as Hpv. rewrite <- (gr_n _ _ _ _ G) in Hpv.
  pose proof (edge_renumber _ _ _ _ G' (pi u) (pi v) Hpv He) as H.
  rewrite (gr_inv _ _ _ _ G u Hu), (gr_inv _ _ _ _ G v Hv) in H. exact H.
Qed.

Lemma acyclic_renumber_half p p' pi pi' : graph_ren p p' pi pi' -> acyclic p' -> acyclic p.
Proof.
  intros G [rank' Hr].
  set (n := length (p_nodes p)).
  set (top := S (list_max (map rank' (seq 0 n)))).
  exists (fun u => if u <? n then rank' (pi u) else top).
  intros u v He. assert (Hu : u < n) by exact (proj1 He).
  destruct (Nat.ltb_spec u n) as [_|Hc]; [|lia].
  destruct (Nat.ltb_spec v n) as [Hv|Hv].
  - apply Hr. apply (edge_renumber _ _ _ _ G); assumption.
  - unfold top. apply Nat.lt_succ_r.
    assert (HF : Forall (fun k => k <= list_max (map rank' (seq 0 n))) (map rank' (seq 0 n))).
    { apply list_max_le. apply Nat.le_refl. }
    rewrite Forall_forall in HF. apply HF. apply in_map. apply in_seq.
    pose proof (gr_lt _ _ _ _ G u Hu). fold n in H. lia.
Qed.

Lemma acyclic_renumber p p' pi pi' : graph_ren p p' pi pi' -> (acyclic p <-> acyclic p').
Proof.
  intros G. split.
  - apply (acyclic_renumber_half p' p pi' pi). apply graph_ren_sym. exact G.
  - apply (acyclic_renumber_half p p' pi pi'). exact G.
Qed.

(* one graph passes the level sort iff the other does *)
Lemma sort_ok_renumber p p' pi pi' pm pm' : graph_ren p p' pi pi' ->
  create_parent_map p = Ok pm -> create_parent_map p' = Ok pm' ->
  ((exists levels, parallel_topo_sort p pm = Ok levels) <-> (exists levels', parallel_topo_sort p' pm' = Ok levels')).
Proof.
  intros G Hpm Hpm'.
  rewrite (kahn_ok_iff_acyclic p pm Hpm), (kahn_ok_iff_acyclic p' pm' Hpm'). apply acyclic_renumber with (1 := G).
Qed.

(* ---- saturating sums do not depend on the order ---- *)
Local Open Scope Z_scope.

Lemma sat_add_nonneg a x : 0 <= a -> 0 <= x -> 0 <= sat_add_u64 a x.
Proof. unfold sat_add_u64, u64_max, two64. lia. Qed.

Lemma sat_add_swap a x y : 0 <= x -> 0 <= y ->
  sat_add_u64 (sat_add_u64 a x) y = sat_add_u64 (sat_add_u64 a y) x.
Proof. unfold sat_add_u64. lia. Qed.

Lemma sat_sum_perm l l' : Forall (fun x => 0 <= x) l -> Permutation l l' ->
  forall a, 0 <= a -> fold_left sat_add_u64 l a = fold_left sat_add_u64 l' a.
Proof.
  intros HF HP. induction HP as [|x l l' HP IH|x y l|l l' l'' HP1 IH1 HP2 IH2]; intros a Ha.
  - reflexivity.
  - cbn [fold_left]. inversion HF as [|x0 l0 Hx Hl]; subst. apply IH; [exact Hl|].
    apply sat_add_nonneg; assumption.
  - cbn [fold_left]. inversion HF as [|x0 l0 Hy Hl]; subst. inversion Hl as [|x1 l1 Hx Hl']; subst.
    rewrite (sat_add_swap a y x Hy Hx). reflexivity.
  - rewrite (IH1 HF a Ha). apply IH2; [|exact Ha].
    rewrite Forall_forall in *. intros z Hz. apply HF. apply (Permutation_in z (Permutation_sym HP1)). exact Hz.
Qed.

(* closed form: the saturating sum of non-negative numbers is min (a + sum) u64_max *)
Definition zsum (l : list Z) : Z := fold_right Z.add 0 l.

Lemma zsum_nonneg l : Forall (fun x => 0 <= x) l -> 0 <= zsum l.
Proof. induction 1 as [|x l Hx Hl IH]; cbn [zsum fold_right]; [lia|]. fold (zsum l). lia. Qed.

Lemma sat_sum_closed l : Forall (fun x => 0 <= x) l -> forall a, a <= u64_max ->
  fold_left sat_add_u64 l a = Z.min (a + zsum l) u64_max.
Proof.
  induction 1 as [|x l Hx Hl IH]; intros a Ha.
  - cbn [fold_left zsum fold_right]. lia.
  - cbn [fold_left zsum fold_right]. fold (zsum l). pose proof (zsum_nonneg l Hl) as Hs.
    rewrite IH by (unfold sat_add_u64; lia). unfold sat_add_u64. lia.
Qed.

(* gas contribution of a node value; non-Ok values and failed/skipped nodes contribute nothing *)
Definition gas_z (x : outcome unit nval) : Z :=
  match x with Ok (NVParent _ g) | Ok (NVLeaf _ g) => g | _ => 0 end.

Lemma gas_add_z a x : a <= u64_max -> gas_add a x = sat_add_u64 a (gas_z x).
Proof.
  intros Ha. unfold gas_add, gas_z.
  destruct x as [[o g|o g| |]| | |]; try reflexivity; unfold sat_add_u64; lia.
Qed.

Lemma sat_add_le a x : sat_add_u64 a x <= u64_max.
Proof. unfold sat_add_u64. lia. Qed.

Lemma fold_gas_add (f : nat -> outcome unit nval) l : forall a, a <= u64_max ->
  fold_left (fun a v => gas_add a (f v)) l a = fold_left sat_add_u64 (map (fun v => gas_z (f v)) l) a.
Proof.
  induction l as [|v l IH]; intros a Ha; [reflexivity|].
  cbn [fold_left map]. rewrite (gas_add_z a (f v) Ha). apply IH. apply sat_add_le.
Qed.

Lemma value_gas_nonneg p run : run_gas_nonneg run -> forall skip fuel v, 0 <= gas_z (value p run skip fuel v).
Proof.
  intros Hg skip fuel v. destruct fuel as [|f]; [cbn; lia|].
  cbn [value]. destruct (skip v); [cbn; lia|].
  match goal with |- context [bind ?G _] => destruct G as [[ins|]| | |] end; cbn [bind gas_z]; try lia.
  destruct (run v (leaf_ref p v) ins) as [[o g|]| | |] eqn:E; cbn [bind gas_z]; try lia.
  pose proof (Hg _ _ _ _ _ E). destruct o; exact H.
Qed.

Local Close Scope Z_scope.

(* ---- 2.-5. verdict, gas, data, unsatisfied leaves ---- *)
Section Results.
  Variables (p p' : predicate) (run run' : runT) (pi pi' : nat -> nat).
  Variables (ca ca' : bool) (pm pm' : list (nat * list nat)) (levels levels' : list (list nat)) (r r' : inner_result).
  Hypothesis G : graph_ren p p' pi pi'.
  Hypothesis R : run_ren p run run' pi.
  Hypothesis Hpm : create_parent_map p = Ok pm.
  Hypothesis Hts : parallel_topo_sort p pm = Ok levels.
  Hypothesis Hpm' : create_parent_map p' = Ok pm'.
  Hypothesis Hts' : parallel_topo_sort p' pm' = Ok levels'.
  Hypothesis Hrun : single_pass run p ca = Ok r.
  Hypothesis Hrun' : single_pass run' p' ca' = Ok r'.
  Hypothesis Hl : run_respects_leaf run.
  Hypothesis Hl' : run_respects_leaf run'.

  Lemma verdict_renumber :
    (exists g d, ir_res r = Ok (g, d)) <-> (exists g' d', ir_res r' = Ok (g', d')).
  Proof.
    rewrite (c01_ok_iff run p ca pm levels r Hpm Hts Hrun Hl).
    rewrite (c01_ok_iff run' p' ca' pm' levels' r' Hpm' Hts' Hrun' Hl').
    exact (all_vals_renumber p p' run run' pi pi' G R good_val).
  Qed.

  Lemma levels_perm : Permutation (concat levels) (seq 0 (length (p_nodes p))).
  Proof. exact (proj1 (kahn_levels p pm levels Hpm Hts)). Qed.
  Lemma levels_perm' : Permutation (concat levels') (seq 0 (length (p_nodes p))).
  Proof. rewrite <- (gr_n _ _ _ _ G). exact (proj1 (kahn_levels p' pm' levels' Hpm' Hts')). Qed.

  Lemma gas_renumber g d g' d' : run_gas_nonneg run ->
    ir_res r = Ok (g, d) -> ir_res r' = Ok (g', d') -> g = g'.
  Proof.
    intros Hg E E'.
    destruct (c01_ok_values run p ca pm levels r Hpm Hts Hrun Hl g d E) as [Eg _].
    destruct (c01_ok_values run' p' ca' pm' levels' r' Hpm' Hts' Hrun' Hl' g' d' E') as [Eg' _].
    rewrite Eg, Eg'.
    rewrite !fold_gas_add by (unfold u64_max, two64; lia).
    apply sat_sum_perm; [| |lia].
    - apply Forall_forall. intros x Hx. apply in_map_iff in Hx as [v [Ex _]]. subst x.
      apply value_gas_nonneg. exact Hg.
    - apply (map_renumber_perm p p' pi pi' G); [exact levels_perm|exact levels_perm'|].
      intros v Hv. rewrite (vals_renumber p p' run run' pi pi' G R v Hv). reflexivity.
  Qed.

  Lemma data_renumber g d g' d' :
    ir_res r = Ok (g, d) -> ir_res r' = Ok (g', d') -> Permutation d d'.
  Proof.
    intros E E'.
    destruct (c01_ok_values run p ca pm levels r Hpm Hts Hrun Hl g d E) as [_ Ed].
    destruct (c01_ok_values run' p' ca' pm' levels' r' Hpm' Hts' Hrun' Hl' g' d' E') as [_ Ed'].
    rewrite Ed, Ed'.
    apply (flat_map_renumber_perm p p' pi pi' G); [exact levels_perm|exact levels_perm'|].
    intros v Hv. rewrite (vals_renumber p p' run run' pi pi' G R v Hv). reflexivity.
  Qed.

  Lemma map_flat_map {A B C} (h : B -> C) (f : A -> list B) l : map h (flat_map f l) = flat_map (fun x => map h (f x)) l.
  Proof. induction l as [|x l IH]; [reflexivity|]. cbn [flat_map]. rewrite map_app, IH. reflexivity. Qed.

  Lemma failure_indices_renumber us us' :
    ir_res r = Err (PConstraintsUnsatisfied us) -> ir_res r' = Err (PConstraintsUnsatisfied us') ->
    Permutation (map pi us) us'.
  Proof.
    intros E E'.
    destruct (c01_unsat run p ca pm levels r Hpm Hts Hrun Hl us E) as [_ [_ Eu]].
    destruct (c01_unsat run' p' ca' pm' levels' r' Hpm' Hts' Hrun' Hl' us' E') as [_ [_ Eu']].
    rewrite Eu, Eu', map_flat_map.
    apply (flat_map_renumber_perm p p' pi pi' G); [exact levels_perm|exact levels_perm'|].
    intros v Hv. rewrite (vals_renumber p p' run run' pi pi' G R v Hv).
    unfold unsat_of. destruct (vals p run v) as [[o g|[[|]|m] g| |]| | |]; reflexivity.
  Qed.

  (* the kind of verdict "some leaf unsatisfied" needs all nodes to have run on both sides; here only:
     if one side reports unsatisfied leaves, the other side does not succeed *)
  Lemma unsat_not_ok_renumber us : ir_res r = Err (PConstraintsUnsatisfied us) ->
    ~ exists g' d', ir_res r' = Ok (g', d').
  Proof.
    intros E H. apply verdict_renumber in H. destruct H as [g [d H]]. rewrite H in E. discriminate.
  Qed.
End Results.

(* ---- R1 from "edge multiplicities correspond" + "pi is monotone on every parent set" ---- *)
From Coq Require Import Sorted.

Lemma sorted_repeat_app a m l : StronglySorted le l -> Forall (le a) l -> StronglySorted le (repeat a m ++ l).
Proof.
  intros Hs Hf. induction m as [|m IH]; [exact Hs|].
  cbn [repeat app]. constructor; [exact IH|].
  apply Forall_app. split; [|exact Hf].
  apply Forall_forall. intros x Hx. apply repeat_spec in Hx. subst x. apply Nat.le_refl.
Qed.

Lemma flat_repeat_sorted (c : nat -> nat) k : forall a,
  StronglySorted le (flat_map (fun u => repeat u (c u)) (seq a k)) /\
  Forall (le a) (flat_map (fun u => repeat u (c u)) (seq a k)).
Proof.
  induction k as [|k IH]; intros a; [split; constructor|].
  cbn [seq flat_map]. destruct (IH (S a)) as [Hs Hf].
  assert (Hf' : Forall (le a) (flat_map (fun u => repeat u (c u)) (seq (S a) k))).
  { eapply Forall_impl; [|exact Hf]. intros x Hx. cbv beta in Hx. lia. }
  split; [apply sorted_repeat_app; assumption|].
  apply Forall_app. split; [|exact Hf'].
  apply Forall_forall. intros x Hx. apply repeat_spec in Hx. subst x. apply Nat.le_refl.
Qed.

Lemma parents_ref_sorted p v : StronglySorted le (parents_ref p v).
Proof. exact (proj1 (flat_repeat_sorted (fun u => count_occ Nat.eq_dec (kids p u) v) (length (p_nodes p)) 0)). Qed.

Lemma flat_repeat_count (c : nat -> nat) x k : forall a,
  count_occ Nat.eq_dec (flat_map (fun u => repeat u (c u)) (seq a k)) x = if (a <=? x) && (x <? a + k) then c x else 0.
Proof.
  induction k as [|k IH]; intros a.
  - cbn [seq flat_map count_occ]. destruct (Nat.leb_spec a x), (Nat.ltb_spec x (a + 0)); cbn [andb]; try reflexivity; lia.
  - cbn [seq flat_map]. rewrite count_occ_app, IH.
    destruct (Nat.eq_dec x a) as [E|NE].
    + subst x. rewrite count_occ_repeat_eq by reflexivity.
      destruct (Nat.leb_spec (S a) a); [lia|]. cbn [andb].
      destruct (Nat.leb_spec a a); [|lia]. destruct (Nat.ltb_spec a (a + S k)); [|lia]. cbn [andb]. lia.
    + rewrite count_occ_repeat_neq by exact NE.
      destruct (Nat.leb_spec (S a) x), (Nat.leb_spec a x), (Nat.ltb_spec x (S a + k)), (Nat.ltb_spec x (a + S k));
        cbn [andb]; lia.
Qed.

Lemma parents_ref_count p v x :
  count_occ Nat.eq_dec (parents_ref p v) x = if x <? length (p_nodes p) then count_occ Nat.eq_dec (kids p x) v else 0.
Proof.
  unfold parents_ref, n_nodes. rewrite (flat_repeat_count (fun u => count_occ Nat.eq_dec (kids p u) v) x).
  cbn [Nat.add Nat.leb andb]. reflexivity.
Qed.

Lemma sorted_map_monotone (f : nat -> nat) l : StronglySorted le l ->
  (forall x y, In x l -> In y l -> x < y -> f x < f y) -> StronglySorted le (map f l).
Proof.
  induction 1 as [|x l Hs IH Hf]; intros Hm; [constructor|].
  cbn [map]. constructor.
  - apply IH. intros a b Ha Hb. apply Hm; right; assumption.
  - apply Forall_forall. intros y Hy. apply in_map_iff in Hy as [z [E Hz]]. subst y.
    rewrite Forall_forall in Hf. pose proof (Hf z Hz) as Hle.
    destruct (Nat.eq_dec x z) as [E|NE]; [subst z; apply Nat.le_refl|].
    apply Nat.lt_le_incl. apply Hm; [left; reflexivity|right; exact Hz|lia].
Qed.

Lemma sorted_perm_eq l : forall l', StronglySorted le l -> StronglySorted le l' -> Permutation l l' -> l = l'.
Proof.
  induction l as [|x l IH]; intros l' Hs Hs' HP.
  - apply Permutation_nil in HP. symmetry. exact HP.
  - destruct l' as [|x' l']; [apply Permutation_sym, Permutation_nil in HP; discriminate|].
    inversion Hs as [|x0 l0 Hsl Hfl]; subst. inversion Hs' as [|x0 l0 Hsl' Hfl']; subst.
    rewrite Forall_forall in Hfl, Hfl'.
    assert (E : x = x').
    { assert (H1 : In x (x' :: l')) by (apply (Permutation_in x HP); left; reflexivity).
      assert (H2 : In x' (x :: l)) by (apply (Permutation_in x' (Permutation_sym HP)); left; reflexivity).
      destruct H1 as [H1|H1]; [auto|]. destruct H2 as [H2|H2]; [auto|].
      pose proof (Hfl' x H1). pose proof (Hfl x' H2). lia. }
    subst x'. f_equal. apply IH; [assumption|assumption|]. exact (Permutation_cons_inv HP).
Qed.

Lemma count_occ_map_inj_in (f : nat -> nat) l x :
  (forall y, In y l -> f y = f x -> y = x) -> count_occ Nat.eq_dec (map f l) (f x) = count_occ Nat.eq_dec l x.
Proof.
  induction l as [|y l IH]; intros H; [reflexivity|].
  cbn [map count_occ]. rewrite IH by (intros z Hz; apply H; right; exact Hz).
  destruct (Nat.eq_dec (f y) (f x)) as [E|NE], (Nat.eq_dec y x) as [E'|NE']; try reflexivity.
  - exfalso. apply NE'. apply H; [left; reflexivity|exact E].
  - exfalso. apply NE. rewrite E'. reflexivity.
Qed.

(* (E) edge multiplicities correspond, (M) pi is monotone on every parent set  ==>  R1 *)
Lemma parents_of_monotone p p' pi pi' :
  length (p_nodes p') = length (p_nodes p) ->
  (forall v, v < length (p_nodes p) -> pi v < length (p_nodes p)) ->
  (forall v, v < length (p_nodes p) -> pi' v < length (p_nodes p)) ->
  (forall v, v < length (p_nodes p) -> pi' (pi v) = v) ->
  (forall v, v < length (p_nodes p) -> pi (pi' v) = v) ->
  (forall u v, u < length (p_nodes p) -> v < length (p_nodes p) ->
     count_occ Nat.eq_dec (kids p' (pi u)) (pi v) = count_occ Nat.eq_dec (kids p u) v) ->
  (forall v u1 u2, v < length (p_nodes p) -> In u1 (parents_ref p v) -> In u2 (parents_ref p v) -> u1 < u2 -> pi u1 < pi u2) ->
  forall v, v < length (p_nodes p) -> parents_ref p' (pi v) = map pi (parents_ref p v).
Proof.
  intros Hn Hlt Hlt' Hinv Hinv' HE HM v Hv.
  apply sorted_perm_eq.
  - apply parents_ref_sorted.
  - apply sorted_map_monotone; [apply parents_ref_sorted|]. intros x y Hx Hy. apply (HM v); assumption.
  - apply (Permutation_count_occ Nat.eq_dec). intros y.
    rewrite parents_ref_count, Hn.
    destruct (Nat.ltb_spec y (length (p_nodes p))) as [Hy|Hy].
    + rewrite <- (Hinv' y Hy). set (x := pi' y). assert (Hx : x < length (p_nodes p)) by (apply Hlt'; exact Hy).
      rewrite (HE x v Hx Hv).
      rewrite count_occ_map_inj_in.
      * rewrite parents_ref_count. destruct (Nat.ltb_spec x (length (p_nodes p))); [reflexivity|lia].
      * intros z Hz E. apply parent_lt in Hz. rewrite <- (Hinv z Hz), <- (Hinv x Hx). rewrite E. reflexivity.
    + symmetry. apply count_occ_not_In. intros Hin. apply in_map_iff in Hin as [z [E Hz]]. subst y.
      apply parent_lt in Hz. pose proof (Hlt z Hz). lia.
Qed.

(* conversely R1 implies (M): the order part of R1 is exactly monotonicity on parent sets *)
Lemma monotone_of_parents p p' pi pi' : graph_ren p p' pi pi' ->
  forall v u1 u2, v < length (p_nodes p) -> In u1 (parents_ref p v) -> In u2 (parents_ref p v) -> u1 < u2 -> pi u1 < pi u2.
Proof.
  intros G v u1 u2 Hv H1 H2 Hlt.
  pose proof (parents_ref_sorted p' (pi v)) as Hs. rewrite (gr_parents _ _ _ _ G v Hv) in Hs.
  pose proof (parents_ref_sorted p v) as Hs0.
  assert (Hne : pi u1 <> pi u2).
  { intros E. apply parent_lt in H1. apply parent_lt in H2.
    rewrite <- (gr_inv _ _ _ _ G u1 H1), <- (gr_inv _ _ _ _ G u2 H2), E in Hlt. lia. }
  enough (pi u1 <= pi u2) by lia.
  clear Hne. revert Hs Hs0 H1 H2. generalize (parents_ref p v) as l.
  induction l as [|x l IH]; intros Hs Hs0 H1 H2; [destruct H1|].
  cbn [map] in Hs. inversion Hs as [|x0 l0 Hsl Hfl]; subst. inversion Hs0 as [|x0 l0 Hsl0 Hfl0]; subst.
  rewrite Forall_forall in Hfl, Hfl0.
  destruct H1 as [H1|H1], H2 as [H2|H2].
  - subst. lia.
  - subst x. apply Hfl. apply in_map. exact H2.
  - subst x. pose proof (Hfl0 u1 H1). lia.
  - apply IH; assumption.
Qed.
