(* Lemmas for C13: the bytecode codec is a bijection and agrees with the specification table. *)
From Coq Require Import String.
From EB Require Import Base.ListX Asm.Op Generated.OpTable.
Open Scope list_scope.
Open Scope Z_scope.

Definition norm (o : op) : op := match o with OPush _ => OPush 0 | _ => o end.

Lemma optable_agrees : model_table = spec_table.
Proof. vm_compute. reflexivity. Qed.

Lemma optable_pinned : spec_table = pinned_table.
Proof. vm_compute. reflexivity. Qed.

Lemma all_ops_complete o : In (norm o) all_ops.
Proof. destruct o; cbv [norm all_ops]; repeat (first [left; reflexivity | right]). Qed.

Lemma all_ops_norm o : In o all_ops -> norm o = o.
Proof.
  intros H.
  assert (F : forallb (fun o => op_eqb (norm o) o && match o with OPush w => w =? 0 | _ => true end) all_ops = true) by (vm_compute; reflexivity).
  rewrite forallb_forall in F. specialize (F o H). apply andb_true_iff in F as [_ F].
  destruct o; try reflexivity. apply Z.eqb_eq in F. subst. reflexivity.
Qed.

Fixpoint nodupb (l : list Z) : bool :=
  match l with [] => true | x :: r => negb (existsb (Z.eqb x) r) && nodupb r end.
Lemma nodupb_NoDup l : nodupb l = true -> NoDup l.
Proof.
  induction l as [|x r IH]; simpl; intros H; [constructor|].
  apply andb_true_iff in H as [H1 H2]. constructor; [|auto].
  intros Hin. apply negb_true_iff in H1.
  assert (existsb (Z.eqb x) r = true) by (apply existsb_exists; exists x; split; [assumption|apply Z.eqb_refl]).
  congruence.
Qed.

Lemma opcodes_nodup : NoDup (map opcode_of all_ops).
Proof. apply nodupb_NoDup. vm_compute. reflexivity. Qed.

Lemma opcode_decode_encode o : opcode_decode (opcode_of o) = Some (norm o).
Proof. destruct o; vm_compute; reflexivity. Qed.

Lemma opcode_decode_some b o : opcode_decode b = Some o -> opcode_of o = b /\ In o all_ops /\ norm o = o.
Proof.
  unfold opcode_decode. intros H. apply find_some in H as [Hin Hb].
  apply Z.eqb_eq in Hb. split; [assumption|]. split; [assumption|]. apply all_ops_norm; assumption.
Qed.

Lemma opcode_decode_none b : opcode_decode b = None <-> ~ In b (map opcode_of all_ops).
Proof.
  unfold opcode_decode. split.
  - intros H Hin. apply in_map_iff in Hin as [o [Ho Hin]].
    pose proof (find_none _ _ H o Hin) as F. simpl in F. apply Z.eqb_neq in F. congruence.
  - intros H. destruct (find _ _) eqn:E; [|reflexivity].
    apply find_some in E as [Hin Hb]. apply Z.eqb_eq in Hb. exfalso. apply H. apply in_map_iff. eauto.
Qed.

Definition opcode_col (r : Z * string * string * Z) : Z := fst (fst (fst r)).

Lemma opcode_col_model : map opcode_col model_table = map opcode_of all_ops.
Proof. unfold model_table. rewrite map_map. reflexivity. Qed.

Lemma opcode_valid_iff_in_spec b : opcode_decode b <> None <-> In b (map opcode_col spec_table).
Proof.
  rewrite <- optable_agrees, opcode_col_model.
  pose proof (opcode_decode_none b) as H. split.
  - intros Hn. destruct (in_dec Z.eq_dec b (map opcode_of all_ops)) as [Hi|Hi]; [assumption|].
    exfalso. apply Hn. apply H. assumption.
  - intros Hi Hn. apply H in Hn. contradiction.
Qed.

Lemma opcode_decode_range b o : opcode_decode b = Some o -> 0 <= b < 256.
Proof.
  intros H. apply opcode_decode_some in H as [Hb [Hin _]]. subst b.
  assert (F : forallb (fun o => (0 <=? opcode_of o) && (opcode_of o <? 256)) all_ops = true) by (vm_compute; reflexivity).
  rewrite forallb_forall in F. specialize (F o Hin). apply andb_true_iff in F as [F1 F2].
  apply Z.leb_le in F1. apply Z.ltb_lt in F2. lia.
Qed.

(* -- one step of parsing -- *)
Lemma to_bytes1_length o : (1 <= length (to_bytes1 o))%nat.
Proof. destruct o; simpl; lia. Qed.

Lemma parse_step_nonpush f o rest :
  (forall w, o <> OPush w) ->
  parse (S f) (opcode_of o :: rest) = (let* ops := parse f rest in Ok (o :: ops)).
Proof.
  intros Hn. cbn [parse]. rewrite opcode_decode_encode.
  destruct o; try reflexivity. exfalso. eapply Hn. reflexivity.
Qed.

Lemma parse_step_push f w rest :
  i64 w ->
  parse (S f) (to_bytes1 (OPush w) ++ rest) = (let* ops := parse f rest in Ok (OPush w :: ops)).
Proof.
  intros Hw. cbn [to_bytes1 app parse]. rewrite opcode_decode_encode. cbn [norm].
  pose proof (bytes_of_word_length w) as L.
  rewrite app_length, L.
  destruct (Nat.ltb_spec (8 + length rest) 8) as [Hlt|_]; [lia|].
  rewrite (firstn_app_exact _ rest 8 L), (skipn_app_exact _ rest 8 L).
  rewrite word_of_bytes_of_word by assumption. reflexivity.
Qed.

Lemma parse_step f o rest :
  well_formed_op o ->
  parse (S f) (to_bytes1 o ++ rest) = (let* ops := parse f rest in Ok (o :: ops)).
Proof.
  intros Hw. destruct o; try (apply parse_step_nonpush; intros w0; discriminate).
  apply parse_step_push. exact Hw.
Qed.

Lemma to_bytes_app a b : to_bytes (a ++ b) = to_bytes a ++ to_bytes b.
Proof. unfold to_bytes. apply flat_map_app. Qed.

Lemma to_bytes_length_ge ops : (length ops <= length (to_bytes ops))%nat.
Proof.
  induction ops as [|o ops IH]; simpl; [lia|]. rewrite app_length.
  pose proof (to_bytes1_length o). lia.
Qed.

Lemma parse_prefix ops : Forall well_formed_op ops -> forall fuel rest,
  (length ops <= fuel)%nat ->
  parse fuel (to_bytes ops ++ rest) =
    (let* tl := parse (fuel - length ops) rest in Ok (ops ++ tl)).
Proof.
  induction ops as [|o ops IH]; intros H fuel rest L.
  - simpl. rewrite Nat.sub_0_r. destruct (parse fuel rest); reflexivity.
  - inversion H as [|? ? Ho Hops]; subst.
    destruct fuel as [|f]; [simpl in L; lia|].
    cbn [to_bytes flat_map]. rewrite <- app_assoc. rewrite parse_step by assumption.
    fold (to_bytes ops). rewrite IH by (try assumption; simpl in L; lia).
    simpl length. replace (S f - S (length ops))%nat with (f - length ops)%nat by lia.
    destruct (parse (f - length ops) rest); reflexivity.
Qed.

Lemma decode_encode ops : Forall well_formed_op ops -> from_bytes (to_bytes ops) = Ok ops.
Proof.
  intros H. unfold from_bytes.
  rewrite <- (app_nil_r (to_bytes ops)) at 2.
  rewrite parse_prefix; [|assumption|apply to_bytes_length_ge].
  destruct (length (to_bytes ops) - length ops)%nat; simpl; rewrite app_nil_r; reflexivity.
Qed.

Lemma to_bytes_injective a b :
  Forall well_formed_op a -> Forall well_formed_op b -> to_bytes a = to_bytes b -> a = b.
Proof.
  intros Ha Hb E. pose proof (decode_encode a Ha) as Da. rewrite E, (decode_encode b Hb) in Da.
  congruence.
Qed.

Lemma parse_sound fuel : forall bs ops, Forall byte bs -> parse fuel bs = Ok ops ->
  to_bytes ops = bs /\ Forall well_formed_op ops.
Proof.
  induction fuel as [|f IH]; intros bs ops Hb H.
  - destruct bs; simpl in H; [|discriminate]. injection H as <-. split; [reflexivity|constructor].
  - destruct bs as [|b rest]; cbn [parse] in H; [injection H as <-; split; [reflexivity|constructor]|].
    inversion Hb as [|? ? Hb0 Hrest]; subst.
    destruct (opcode_decode b) as [o|] eqn:D; [|discriminate].
    apply opcode_decode_some in D as [Hoc [_ Hn]].
    destruct o.
    1:{ (* Push *)
      destruct (Nat.ltb_spec (length rest) 8) as [Hlt|Hge]; [discriminate|].
      apply bind_ok in H as [tl [Htl Hok]].
      assert (ops = OPush (word_of_bytes (firstn 8 rest)) :: tl) as -> by congruence. clear Hok.
      assert (Forall byte (skipn 8 rest)) as Hsk.
      { rewrite <- (firstn_skipn 8 rest) in Hrest. apply Forall_app in Hrest. tauto. }
      destruct (IH _ _ Hsk Htl) as [E W]. split.
      - cbn [to_bytes flat_map to_bytes1]. fold (to_bytes tl). rewrite E.
        rewrite bytes_of_word_of_bytes.
        + rewrite <- app_comm_cons, firstn_skipn. f_equal. exact Hoc.
        + rewrite firstn_length. lia.
        + rewrite <- (firstn_skipn 8 rest) in Hrest. apply Forall_app in Hrest. tauto.
      - constructor; [apply word_of_bytes_i64|assumption]. }
    all: apply bind_ok in H as [tl [Htl Hok]]; injection Hok as <-;
         destruct (IH _ _ Hrest Htl) as [E W]; split;
         [cbn [to_bytes flat_map to_bytes1]; fold (to_bytes tl); rewrite E; simpl app; f_equal; exact Hoc
         |constructor; [exact I|assumption]].
Qed.

Lemma encode_decode bs ops : Forall byte bs -> from_bytes bs = Ok ops -> to_bytes ops = bs.
Proof. intros Hb H. exact (proj1 (parse_sound _ _ _ Hb H)). Qed.

Lemma parse_fuel_enough fuel : forall bs, (length bs <= fuel)%nat -> parse fuel bs <> OutOfFuel.
Proof.
  induction fuel as [|f IH]; intros bs L.
  - destruct bs; [discriminate|simpl in L; lia].
  - destruct bs as [|b rest]; [discriminate|]. simpl in L. cbn [parse].
    destruct (opcode_decode b) as [o|]; [|discriminate].
    assert (forall k, parse f rest <> OutOfFuel -> (let* ops := parse f rest in Ok (k ops)) <> (OutOfFuel : outcome perr (list op))) as G.
    { intros k Hn. destruct (parse f rest); simpl; congruence. }
    destruct o; try (apply (G (cons _)); apply IH; lia).
    destruct (Nat.ltb_spec (length rest) 8); [discriminate|].
    assert (parse f (skipn 8 rest) <> OutOfFuel) as Hn by (apply IH; rewrite skipn_length; lia).
    destruct (parse f (skipn 8 rest)); simpl; congruence.
Qed.

Lemma from_bytes_total bs : from_bytes bs <> OutOfFuel /\ no_panic (from_bytes bs).
Proof.
  split; [apply parse_fuel_enough; lia|].
  unfold from_bytes. generalize (length bs) as fuel. intros fuel. revert bs.
  induction fuel as [|f IH]; intros bs s.
  - destruct bs; discriminate.
  - destruct bs as [|b rest]; [discriminate|]. cbn [parse].
    destruct (opcode_decode b) as [o|]; [|discriminate].
    assert (forall l k, (let* ops := parse f l in Ok (k ops)) <> (Panic s : outcome perr (list op))) as G.
    { intros l k. specialize (IH l s). destruct (parse f l); simpl; congruence. }
    destruct o; try apply G.
    destruct (Nat.ltb_spec (length rest) 8); [discriminate|apply G].
Qed.

Lemma invalid_opcode_error ops b rest :
  Forall well_formed_op ops -> opcode_decode b = None ->
  from_bytes (to_bytes ops ++ b :: rest) = Err (InvalidOpcode b).
Proof.
  intros H D. unfold from_bytes. rewrite parse_prefix.
  2: assumption.
  2:{ rewrite app_length. pose proof (to_bytes_length_ge ops). lia. }
  rewrite app_length. simpl length.
  pose proof (to_bytes_length_ge ops).
  destruct (length (to_bytes ops) + S (length rest) - length ops)%nat eqn:E; [lia|].
  cbn [parse]. rewrite D. reflexivity.
Qed.

Lemma truncated_push_error ops rest :
  Forall well_formed_op ops -> (length rest < 8)%nat ->
  from_bytes (to_bytes ops ++ opcode_of (OPush 0) :: rest) = Err NotEnoughBytes.
Proof.
  intros H L. unfold from_bytes. rewrite parse_prefix.
  2: assumption.
  2:{ rewrite app_length. pose proof (to_bytes_length_ge ops). lia. }
  rewrite app_length. simpl length.
  pose proof (to_bytes_length_ge ops).
  destruct (length (to_bytes ops) + S (length rest) - length ops)%nat eqn:E; [lia|].
  cbn [parse]. rewrite opcode_decode_encode. cbn [norm].
  destruct (Nat.ltb_spec (length rest) 8); [reflexivity|lia].
Qed.

Lemma push_immediate_be w : to_bytes1 (OPush w) = 1 :: be_bytes 8 (w mod 2 ^ 64).
Proof. reflexivity. Qed.

Lemma arg_bytes_spec o : Z.of_nat (length (to_bytes1 o)) = 1 + arg_bytes o.
Proof. destruct o; reflexivity. Qed.

(* programs compose: the concatenation of two serialisations parses to the concatenation of the programs *)
Lemma decode_concat a b : Forall well_formed_op a -> Forall well_formed_op b ->
  from_bytes (to_bytes a ++ to_bytes b) = Ok (a ++ b).
Proof.
  intros Ha Hb. rewrite <- to_bytes_app. apply decode_encode. apply Forall_app. split; assumption.
Qed.
