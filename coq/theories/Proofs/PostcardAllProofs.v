(* Binary (postcard) serde encodings of all public data types (C18): decode-after-encode round trips with an
   arbitrary suffix, hence injectivity and prefix freeness; encoded lengths of the fixed-size types; what a
   successful decode guarantees about the value. *)
From Coq Require Import ZArith List Lia Bool.
From EB Require Import Types.PostcardAll Spec.PredicateSpec Proofs.HexSerdeProofs.
Import ListNotations.
Open Scope list_scope.
Open Scope Z_scope.

(* ---------- well-formedness: what the Rust types guarantee (plus: a Vec has fewer than 2^64 elements) ---------- *)

Definition pwf_predicate_address (pa : list Z * list Z) : Prop := wf_address (fst pa) /\ wf_address (snd pa).
Definition pwf_solution_set (ss : list solution) : Prop := Forall wf_solution ss /\ zlen ss < 2 ^ 64.
Definition pwf_predicate (p : predicate) : Prop :=
  wf_pred p /\ zlen (p_nodes p) < 2 ^ 64 /\ zlen (p_edges p) < 2 ^ 64.
Definition pwf_program (bs : list Z) : Prop := Forall byte bs /\ zlen bs < 2 ^ 64.
Definition pwf_contract (c : contract) : Prop :=
  Forall pwf_predicate (c_predicates c) /\ zlen (c_predicates c) < 2 ^ 64 /\ wf_address (c_salt c).
Definition pwf_signed_contract (sc : signed_contract) : Prop :=
  pwf_contract (sc_contract sc) /\ wf_sig (sc_signature sc).

(* the human-readable well-formedness predicates plus the length bounds give the binary ones *)
Lemma pwf_contract_of_swf c :
  swf_contract c -> zlen (c_predicates c) < 2 ^ 64 ->
  Forall (fun p => zlen (p_nodes p) < 2 ^ 64 /\ zlen (p_edges p) < 2 ^ 64) (c_predicates c) ->
  pwf_contract c.
Proof.
  intros [Hp Hs] Hl Hb. split; [|split; [exact Hl | exact Hs]].
  rewrite Forall_forall in *. intros p Hin. split; [exact (Hp p Hin) | exact (Hb p Hin)].
Qed.

(* ---------- u16 ---------- *)

Lemma varint_go_fuel : forall f1 f2 n,
  (0 < f1)%nat -> (f1 <= f2)%nat -> 0 <= n < 128 ^ Z.of_nat f1 -> varint_go f1 n = varint_go f2 n.
Proof.
  induction f1 as [|f1 IH]; intros f2 n H0 Hle Hn; [lia|].
  destruct f2 as [|f2]; [lia|].
  rewrite Nat2Z.inj_succ, Z.pow_succ_r in Hn by lia.
  cbn [varint_go]. destruct (Z.ltb_spec n 128) as [Hlt|Hge]; [reflexivity|].
  f_equal. apply IH.
  - destruct f1; [|lia]. change (128 ^ Z.of_nat 0) with 1 in Hn. lia.
  - lia.
  - split; [apply Z.div_pos; lia | apply Z.div_lt_upper_bound; lia].
Qed.

(* the u16 varint is the u64 varint of the same value *)
Lemma pc_u16_varint : forall z, u16 z -> pc_u16 z = varint z.
Proof.
  intros z Hz. unfold pc_u16, varint, u16 in *. apply varint_go_fuel; [lia | lia |].
  change (128 ^ Z.of_nat 3) with 2097152. lia.
Qed.

Lemma pc_u16_length : forall z, (1 <= length (pc_u16 z) <= 3)%nat.
Proof.
  intros z. unfold pc_u16. split; [|apply varint_go_length].
  cbn [varint_go]. destruct (z <? 128); cbn [length]; lia.
Qed.

Lemma dec_u16_roundtrip : forall z rest, u16 z -> dec_u16 (pc_u16 z ++ rest) = Some (z, rest).
Proof.
  intros z rest Hz. unfold u16 in Hz. unfold dec_u16, pc_u16.
  unfold varint_dec. change (max_of_last_byte 3) with 3.
  rewrite varint_lim_roundtrip; [| lia | lia | change (128 ^ (Z.of_nat 3 - 1) * (3 + 1)) with 65536; lia].
  destruct (Z.ltb_spec z 65536); [reflexivity | lia].
Qed.

(* a decoded u16 is in range when the input consists of bytes *)
Lemma varint_dec_nonneg : forall fuel bs n r,
  Forall byte bs -> varint_dec fuel bs = Some (n, r) -> 0 <= n /\ Forall byte r.
Proof.
  intros fuel. unfold varint_dec. generalize (max_of_last_byte fuel) as m. intros m.
  induction fuel as [|f IH]; intros bs n r Hb E; [discriminate|].
  destruct bs as [|b bs]; [discriminate|]. inversion Hb as [|b0 l0 Hb0 Hbs]; subst.
  rewrite varint_dec_lim_S in E. unfold byte in Hb0. destruct (Z.ltb_spec b 128) as [Hlt|Hge].
  - assert (E' : b = n /\ bs = r).
    { destruct f; [destruct (b <=? m); [|discriminate]|]; injection E as E1 E2; split; assumption. }
    destruct E' as [<- <-]. split; [lia | exact Hbs].
  - destruct (varint_dec_lim m f bs) as [[hi r']|] eqn:E'; [|discriminate].
    injection E as E1 E2. change (b - 128 + 128 * hi = n) in E1. rewrite E2 in E'.
    destruct (IH bs hi r Hbs E') as [Hhi Hr]. split; [lia | exact Hr].
Qed.

Lemma dec_u16_sound : forall bs z r, Forall byte bs -> dec_u16 bs = Some (z, r) -> u16 z /\ Forall byte r.
Proof.
  intros bs z r Hb E. unfold dec_u16 in E.
  destruct (varint_dec 3 bs) as [[n r']|] eqn:E'; [|discriminate].
  destruct (Z.ltb_spec n 65536) as [Hlt|_]; [|discriminate]. injection E as -> ->.
  destruct (varint_dec_nonneg 3 bs z r Hb E') as [H0 Hr]. unfold u16. split; [lia | exact Hr].
Qed.

(* ---------- fixed-size hashes ---------- *)

Lemma dec_hash_roundtrip : forall n a rest,
  length a = n -> zlen a < 2 ^ 64 -> dec_hash n (pc_bytes a ++ rest) = Some (a, rest).
Proof.
  intros n a rest Hl Hb. unfold dec_hash. rewrite (dec_bytes_roundtrip a rest Hb).
  rewrite <- Hl, Nat.eqb_refl. reflexivity.
Qed.

Lemma dec_content_address_roundtrip : forall a rest,
  wf_address a -> dec_content_address (pc_content_address a ++ rest) = Some (a, rest).
Proof.
  intros a rest Ha. unfold dec_content_address, pc_content_address.
  apply dec_hash_roundtrip; [exact (proj1 Ha) | exact (wf_address_len a Ha)].
Qed.

Lemma dec_hash_length : forall n bs a r, dec_hash n bs = Some (a, r) -> length a = n.
Proof.
  intros n bs a r E. unfold dec_hash in E. destruct (dec_bytes bs) as [[a' r']|]; [|discriminate].
  destruct (Nat.eqb_spec (length a') n) as [L|_]; [|discriminate]. injection E as -> ->. exact L.
Qed.

Lemma pc_bytes_length : forall bs, length (pc_bytes bs) = (length (varint (zlen bs)) + length bs)%nat.
Proof.
  intros bs. unfold pc_bytes, pc_seq. rewrite app_length. f_equal.
  induction bs as [|b bs IH]; [reflexivity|]. cbn [flat_map app length]. rewrite IH. reflexivity.
Qed.

(* varint 32 then the 32 bytes *)
Lemma pc_content_address_shape : forall a, length a = 32%nat -> pc_content_address a = 32 :: a.
Proof.
  intros a L. unfold pc_content_address, pc_bytes, pc_seq, zlen. rewrite L.
  change (varint (Z.of_nat 32)) with [32]. cbn [app]. f_equal.
  clear L. induction a as [|b a IH]; [reflexivity|]. cbn [flat_map app]. rewrite IH. reflexivity.
Qed.

Lemma flat_map_singleton : forall l : list Z, flat_map (fun b => [b]) l = l.
Proof. induction l as [|b l IH]; [reflexivity|]. cbn [flat_map app]. rewrite IH. reflexivity. Qed.

(* varint 65, the 64 signature bytes, the id byte *)
Lemma pc_signature_shape : forall sg, length (fst sg) = 64%nat -> pc_signature sg = 65 :: fst sg ++ [snd sg].
Proof.
  intros [s id] L. cbn [fst snd] in *. unfold pc_signature, pc_bytes, pc_seq, sig_bytes, zlen. cbn [fst snd].
  rewrite app_length, L. change (varint (Z.of_nat (64 + length [id]))) with [65].
  rewrite flat_map_singleton. reflexivity.
Qed.

(* ---------- every decoder takes a non-empty prefix of its input ---------- *)

Lemma dec_u16_consumes : consumes dec_u16.
Proof.
  intros bs x r E. unfold dec_u16 in E. destruct (varint_dec 3 bs) as [[n r']|] eqn:E'; [|discriminate].
  destruct (n <? 65536); [|discriminate]. injection E as _ E. subst r'. exact (varint_dec_consumes 3 bs n r E').
Qed.

Lemma dec_hash_consumes : forall n, consumes (dec_hash n).
Proof.
  intros n bs x r E. unfold dec_hash in E. destruct (dec_bytes bs) as [[a r']|] eqn:E'; [|discriminate].
  destruct (Nat.eqb (length a) n); [|discriminate]. injection E as _ E. subst r'.
  exact (dec_bytes_consumes bs a r E').
Qed.

Lemma dec_content_address_consumes : consumes dec_content_address.
Proof. exact (dec_hash_consumes 32). Qed.

Lemma dec_predicate_address_consumes : consumes dec_predicate_address.
Proof.
  intros bs x r E. unfold dec_predicate_address in E.
  destruct (dec_content_address bs) as [[c r1]|] eqn:E1; [|discriminate].
  destruct (dec_content_address r1) as [[p r2]|] eqn:E2; [|discriminate]. injection E as _ E. subst r2.
  exact (took_trans _ _ _ (dec_content_address_consumes _ _ _ E1) (dec_content_address_consumes _ _ _ E2)).
Qed.

Lemma dec_solution_set_consumes : consumes dec_solution_set.
Proof. exact (dec_seq_consumes dec_solution dec_solution_consumes). Qed.

Lemma dec_node_consumes : consumes dec_node.
Proof.
  intros bs x r E. unfold dec_node in E.
  destruct (dec_u16 bs) as [[e r1]|] eqn:E1; [|discriminate].
  destruct (dec_content_address r1) as [[a r2]|] eqn:E2; [|discriminate]. injection E as _ E. subst r2.
  exact (took_trans _ _ _ (dec_u16_consumes _ _ _ E1) (dec_content_address_consumes _ _ _ E2)).
Qed.

Lemma dec_predicate_consumes : consumes dec_predicate.
Proof.
  intros bs x r E. unfold dec_predicate in E.
  destruct (dec_seq dec_node bs) as [[ns r1]|] eqn:E1; [|discriminate].
  destruct (dec_seq dec_u16 r1) as [[es r2]|] eqn:E2; [|discriminate]. injection E as _ E. subst r2.
  exact (took_trans _ _ _ (dec_seq_consumes _ dec_node_consumes _ _ _ E1) (dec_seq_consumes _ dec_u16_consumes _ _ _ E2)).
Qed.

Lemma dec_program_consumes : consumes dec_program.
Proof. exact dec_bytes_consumes. Qed.

Lemma dec_contract_consumes : consumes dec_contract.
Proof.
  intros bs x r E. unfold dec_contract in E.
  destruct (dec_seq dec_predicate bs) as [[ps r1]|] eqn:E1; [|discriminate].
  destruct (dec_hash 32 r1) as [[s r2]|] eqn:E2; [|discriminate]. injection E as _ E. subst r2.
  exact (took_trans _ _ _ (dec_seq_consumes _ dec_predicate_consumes _ _ _ E1) (dec_hash_consumes 32 _ _ _ E2)).
Qed.

Lemma dec_signature_consumes : consumes dec_signature.
Proof.
  intros bs x r E. unfold dec_signature in E. destruct (dec_hash 65 bs) as [[b r']|] eqn:E'; [|discriminate].
  injection E as _ E. subst r'. exact (dec_hash_consumes 65 bs b r E').
Qed.

Lemma dec_signed_contract_consumes : consumes dec_signed_contract.
Proof.
  intros bs x r E. unfold dec_signed_contract in E.
  destruct (dec_contract bs) as [[c r1]|] eqn:E1; [|discriminate].
  destruct (dec_signature r1) as [[sg r2]|] eqn:E2; [|discriminate]. injection E as _ E. subst r2.
  exact (took_trans _ _ _ (dec_contract_consumes _ _ _ E1) (dec_signature_consumes _ _ _ E2)).
Qed.

(* ---------- round trips ---------- *)

Lemma dec_predicate_address_roundtrip : forall pa rest,
  pwf_predicate_address pa -> dec_predicate_address (pc_predicate_address pa ++ rest) = Some (pa, rest).
Proof.
  intros [c p] rest [Hc Hp]. cbn [fst snd] in *. unfold dec_predicate_address, pc_predicate_address. cbn [fst snd].
  rewrite <- app_assoc, (dec_content_address_roundtrip c _ Hc), (dec_content_address_roundtrip p _ Hp). reflexivity.
Qed.

Lemma dec_solution_set_roundtrip : forall ss rest,
  pwf_solution_set ss -> dec_solution_set (pc_solution_set ss ++ rest) = Some (ss, rest).
Proof.
  intros ss rest [Hf Hl]. unfold dec_solution_set, pc_solution_set.
  apply (dec_seq_roundtrip pc_solution dec_solution wf_solution dec_solution_consumes dec_solution_roundtrip ss rest Hf Hl).
Qed.

Lemma wf_node_address : forall n, wf_node n -> wf_address (n_program n).
Proof. intros n (_ & L & F). split; assumption. Qed.

Lemma dec_node_roundtrip : forall n rest, wf_node n -> dec_node (pc_node n ++ rest) = Some (n, rest).
Proof.
  intros n rest Hn. pose proof (wf_node_address n Hn) as Ha. destruct Hn as (He & _).
  destruct n as [e a]. cbn [n_edge_start n_program] in *. unfold dec_node, pc_node. cbn [n_edge_start n_program].
  rewrite <- app_assoc, (dec_u16_roundtrip e _ He), (dec_content_address_roundtrip a _ Ha). reflexivity.
Qed.

Lemma dec_predicate_roundtrip : forall p rest,
  pwf_predicate p -> dec_predicate (pc_predicate p ++ rest) = Some (p, rest).
Proof.
  intros [ns es] rest ([Hn He] & Hnl & Hel). cbn [p_nodes p_edges] in *.
  unfold dec_predicate, pc_predicate. cbn [p_nodes p_edges]. rewrite <- app_assoc.
  rewrite (dec_seq_roundtrip pc_node dec_node wf_node dec_node_consumes dec_node_roundtrip ns _ Hn Hnl).
  rewrite (dec_seq_roundtrip pc_u16 dec_u16 u16 dec_u16_consumes dec_u16_roundtrip es _ He Hel). reflexivity.
Qed.

Lemma dec_program_roundtrip : forall bs rest,
  pwf_program bs -> dec_program (pc_program bs ++ rest) = Some (bs, rest).
Proof. intros bs rest [_ Hl]. exact (dec_bytes_roundtrip bs rest Hl). Qed.

Lemma dec_contract_roundtrip : forall c rest,
  pwf_contract c -> dec_contract (pc_contract c ++ rest) = Some (c, rest).
Proof.
  intros [ps s] rest (Hp & Hl & Hs). cbn [c_predicates c_salt] in *.
  unfold dec_contract, pc_contract. cbn [c_predicates c_salt]. rewrite <- app_assoc.
  rewrite (dec_seq_roundtrip pc_predicate dec_predicate pwf_predicate dec_predicate_consumes dec_predicate_roundtrip ps _ Hp Hl).
  rewrite (dec_hash_roundtrip 32 s rest (proj1 Hs) (wf_address_len s Hs)). reflexivity.
Qed.

Lemma dec_signature_roundtrip : forall sg rest,
  wf_sig sg -> dec_signature (pc_signature sg ++ rest) = Some (sg, rest).
Proof.
  intros sg rest Hs. destruct (sig_bytes_wf sg Hs) as [L _]. unfold dec_signature, pc_signature.
  rewrite (dec_hash_roundtrip 65 (sig_bytes sg) rest L) by (unfold zlen; rewrite L; reflexivity).
  rewrite (sig_of_bytes_sig_bytes sg (proj1 Hs)). reflexivity.
Qed.

Lemma dec_signed_contract_roundtrip : forall sc rest,
  pwf_signed_contract sc -> dec_signed_contract (pc_signed_contract sc ++ rest) = Some (sc, rest).
Proof.
  intros [c sg] rest [Hc Hs]. cbn [sc_contract sc_signature] in *.
  unfold dec_signed_contract, pc_signed_contract. cbn [sc_contract sc_signature]. rewrite <- app_assoc.
  rewrite (dec_contract_roundtrip c _ Hc), (dec_signature_roundtrip sg rest Hs). reflexivity.
Qed.

(* `postcard::from_bytes(&postcard::to_allocvec(&x))` = x *)
Lemma from_bytes_roundtrip {A} (f : A -> list Z) (d : list Z -> option (A * list Z)) (P : A -> Prop) :
  (forall x rest, P x -> d (f x ++ rest) = Some (x, rest)) ->
  forall x, P x -> from_bytes d (f x) = Some x.
Proof.
  intros Hd x Px. unfold from_bytes. rewrite <- (app_nil_r (f x)), (Hd x [] Px). reflexivity.
Qed.

(* ---------- injectivity / prefix freeness ---------- *)

Lemma pc_u16_prefix_free : forall x y r r',
  u16 x -> u16 y -> pc_u16 x ++ r = pc_u16 y ++ r' -> x = y /\ r = r'.
Proof. exact (dec_prefix_free pc_u16 dec_u16 u16 dec_u16_roundtrip). Qed.
Lemma pc_u16_injective : forall x y, u16 x -> u16 y -> pc_u16 x = pc_u16 y -> x = y.
Proof. exact (dec_injective pc_u16 dec_u16 u16 dec_u16_roundtrip). Qed.

Lemma pc_content_address_prefix_free : forall x y r r',
  wf_address x -> wf_address y -> pc_content_address x ++ r = pc_content_address y ++ r' -> x = y /\ r = r'.
Proof. exact (dec_prefix_free pc_content_address dec_content_address wf_address dec_content_address_roundtrip). Qed.
Lemma pc_content_address_injective : forall x y, wf_address x -> wf_address y -> pc_content_address x = pc_content_address y -> x = y.
Proof. exact (dec_injective pc_content_address dec_content_address wf_address dec_content_address_roundtrip). Qed.

Lemma pc_predicate_address_prefix_free : forall x y r r',
  pwf_predicate_address x -> pwf_predicate_address y -> pc_predicate_address x ++ r = pc_predicate_address y ++ r' -> x = y /\ r = r'.
Proof. exact (dec_prefix_free pc_predicate_address dec_predicate_address pwf_predicate_address dec_predicate_address_roundtrip). Qed.
Lemma pc_predicate_address_injective : forall x y, pwf_predicate_address x -> pwf_predicate_address y -> pc_predicate_address x = pc_predicate_address y -> x = y.
Proof. exact (dec_injective pc_predicate_address dec_predicate_address pwf_predicate_address dec_predicate_address_roundtrip). Qed.

Lemma pc_solution_set_prefix_free : forall x y r r',
  pwf_solution_set x -> pwf_solution_set y -> pc_solution_set x ++ r = pc_solution_set y ++ r' -> x = y /\ r = r'.
Proof. exact (dec_prefix_free pc_solution_set dec_solution_set pwf_solution_set dec_solution_set_roundtrip). Qed.
Lemma pc_solution_set_injective : forall x y, pwf_solution_set x -> pwf_solution_set y -> pc_solution_set x = pc_solution_set y -> x = y.
Proof. exact (dec_injective pc_solution_set dec_solution_set pwf_solution_set dec_solution_set_roundtrip). Qed.

Lemma pc_node_prefix_free : forall x y r r',
  wf_node x -> wf_node y -> pc_node x ++ r = pc_node y ++ r' -> x = y /\ r = r'.
Proof. exact (dec_prefix_free pc_node dec_node wf_node dec_node_roundtrip). Qed.
Lemma pc_node_injective : forall x y, wf_node x -> wf_node y -> pc_node x = pc_node y -> x = y.
Proof. exact (dec_injective pc_node dec_node wf_node dec_node_roundtrip). Qed.

Lemma pc_predicate_prefix_free : forall x y r r',
  pwf_predicate x -> pwf_predicate y -> pc_predicate x ++ r = pc_predicate y ++ r' -> x = y /\ r = r'.
Proof. exact (dec_prefix_free pc_predicate dec_predicate pwf_predicate dec_predicate_roundtrip). Qed.
Lemma pc_predicate_injective : forall x y, pwf_predicate x -> pwf_predicate y -> pc_predicate x = pc_predicate y -> x = y.
Proof. exact (dec_injective pc_predicate dec_predicate pwf_predicate dec_predicate_roundtrip). Qed.

Lemma pc_program_prefix_free : forall x y r r',
  pwf_program x -> pwf_program y -> pc_program x ++ r = pc_program y ++ r' -> x = y /\ r = r'.
Proof. exact (dec_prefix_free pc_program dec_program pwf_program dec_program_roundtrip). Qed.
Lemma pc_program_injective : forall x y, pwf_program x -> pwf_program y -> pc_program x = pc_program y -> x = y.
Proof. exact (dec_injective pc_program dec_program pwf_program dec_program_roundtrip). Qed.

Lemma pc_contract_prefix_free : forall x y r r',
  pwf_contract x -> pwf_contract y -> pc_contract x ++ r = pc_contract y ++ r' -> x = y /\ r = r'.
Proof. exact (dec_prefix_free pc_contract dec_contract pwf_contract dec_contract_roundtrip). Qed.
Lemma pc_contract_injective : forall x y, pwf_contract x -> pwf_contract y -> pc_contract x = pc_contract y -> x = y.
Proof. exact (dec_injective pc_contract dec_contract pwf_contract dec_contract_roundtrip). Qed.

Lemma pc_signature_prefix_free : forall x y r r',
  wf_sig x -> wf_sig y -> pc_signature x ++ r = pc_signature y ++ r' -> x = y /\ r = r'.
Proof. exact (dec_prefix_free pc_signature dec_signature wf_sig dec_signature_roundtrip). Qed.
Lemma pc_signature_injective : forall x y, wf_sig x -> wf_sig y -> pc_signature x = pc_signature y -> x = y.
Proof. exact (dec_injective pc_signature dec_signature wf_sig dec_signature_roundtrip). Qed.

Lemma pc_signed_contract_prefix_free : forall x y r r',
  pwf_signed_contract x -> pwf_signed_contract y -> pc_signed_contract x ++ r = pc_signed_contract y ++ r' -> x = y /\ r = r'.
Proof. exact (dec_prefix_free pc_signed_contract dec_signed_contract pwf_signed_contract dec_signed_contract_roundtrip). Qed.
Lemma pc_signed_contract_injective : forall x y, pwf_signed_contract x -> pwf_signed_contract y -> pc_signed_contract x = pc_signed_contract y -> x = y.
Proof. exact (dec_injective pc_signed_contract dec_signed_contract pwf_signed_contract dec_signed_contract_roundtrip). Qed.

Lemma pc_solution_fields : forall s,
  pc_solution s = pc_predicate_address (sol_contract s, sol_predicate s)
                  ++ pc_seq pc_words (sol_data s) ++ pc_seq pc_mutation (sol_muts s).
Proof.
  intros s. unfold pc_solution, pc_predicate_address, pc_content_address. cbn [fst snd].
  rewrite <- app_assoc. reflexivity.
Qed.

Lemma from_bytes_roundtrip_all :
  (forall a, wf_address a -> from_bytes dec_content_address (pc_content_address a) = Some a) /\
  (forall pa, pwf_predicate_address pa -> from_bytes dec_predicate_address (pc_predicate_address pa) = Some pa) /\
  (forall m, wf_mutation m -> from_bytes dec_mutation (pc_mutation m) = Some m) /\
  (forall s, wf_solution s -> from_bytes dec_solution (pc_solution s) = Some s) /\
  (forall ss, pwf_solution_set ss -> from_bytes dec_solution_set (pc_solution_set ss) = Some ss) /\
  (forall n, wf_node n -> from_bytes dec_node (pc_node n) = Some n) /\
  (forall p, pwf_predicate p -> from_bytes dec_predicate (pc_predicate p) = Some p) /\
  (forall bs, pwf_program bs -> from_bytes dec_program (pc_program bs) = Some bs) /\
  (forall c, pwf_contract c -> from_bytes dec_contract (pc_contract c) = Some c) /\
  (forall sg, wf_sig sg -> from_bytes dec_signature (pc_signature sg) = Some sg) /\
  (forall sc, pwf_signed_contract sc -> from_bytes dec_signed_contract (pc_signed_contract sc) = Some sc).
Proof.
  split; [exact (from_bytes_roundtrip _ _ _ dec_content_address_roundtrip)|].
  split; [exact (from_bytes_roundtrip _ _ _ dec_predicate_address_roundtrip)|].
  split; [exact (from_bytes_roundtrip _ _ _ dec_mutation_roundtrip)|].
  split; [exact (from_bytes_roundtrip _ _ _ dec_solution_roundtrip)|].
  split; [exact (from_bytes_roundtrip _ _ _ dec_solution_set_roundtrip)|].
  split; [exact (from_bytes_roundtrip _ _ _ dec_node_roundtrip)|].
  split; [exact (from_bytes_roundtrip _ _ _ dec_predicate_roundtrip)|].
  split; [exact (from_bytes_roundtrip _ _ _ dec_program_roundtrip)|].
  split; [exact (from_bytes_roundtrip _ _ _ dec_contract_roundtrip)|].
  split; [exact (from_bytes_roundtrip _ _ _ dec_signature_roundtrip)|].
  exact (from_bytes_roundtrip _ _ _ dec_signed_contract_roundtrip).
Qed.

(* ---------- a successful decode of bytes yields a well-formed value ---------- *)

Lemma dec_n_sound {A} (d : list Z -> option (A * list Z)) (P : A -> Prop) :
  (forall bs x r, Forall byte bs -> d bs = Some (x, r) -> P x /\ Forall byte r) ->
  forall n bs xs r, Forall byte bs -> dec_n d n bs = Some (xs, r) -> Forall P xs /\ Forall byte r /\ length xs = n.
Proof.
  intros Hd. induction n as [|n IH]; intros bs xs r Hb E; cbn [dec_n] in E.
  - injection E as <- ->. split; [constructor | split; [exact Hb | reflexivity]].
  - destruct (d bs) as [[x r1]|] eqn:E1; [|discriminate].
    destruct (dec_n d n r1) as [[xs' r2]|] eqn:E2; [|discriminate]. injection E as <- ->.
    destruct (Hd bs x r1 Hb E1) as [Px Hr1]. destruct (IH r1 xs' r Hr1 E2) as (Pxs & Hr & L).
    split; [constructor; assumption | split; [exact Hr | cbn [length]; rewrite L; reflexivity]].
Qed.

Lemma dec_seq_sound {A} (d : list Z -> option (A * list Z)) (P : A -> Prop) :
  (forall bs x r, Forall byte bs -> d bs = Some (x, r) -> P x /\ Forall byte r) ->
  forall bs xs r, Forall byte bs -> dec_seq d bs = Some (xs, r) -> Forall P xs /\ Forall byte r.
Proof.
  intros Hd bs xs r Hb E. unfold dec_seq in E. destruct (varint_dec 10 bs) as [[n r1]|] eqn:E1; [|discriminate].
  destruct (varint_dec_nonneg 10 bs n r1 Hb E1) as [_ Hr1].
  apply dec_cnt_some in E.
  destruct (dec_n_sound d P Hd (Z.to_nat n) r1 xs r Hr1 E) as (Pxs & Hr & _). split; assumption.
Qed.

Lemma dec_u8_sound : forall bs b r, Forall byte bs -> dec_u8 bs = Some (b, r) -> byte b /\ Forall byte r.
Proof.
  intros bs b r Hb E. destruct bs as [|b0 bs]; [discriminate|]. injection E as -> ->.
  inversion Hb as [|b1 l1 H1 H2]. split; assumption.
Qed.

Lemma dec_hash_sound : forall n bs a r,
  Forall byte bs -> dec_hash n bs = Some (a, r) -> (length a = n /\ Forall byte a) /\ Forall byte r.
Proof.
  intros n bs a r Hb E. pose proof (dec_hash_length n bs a r E) as L. unfold dec_hash in E.
  destruct (dec_bytes bs) as [[a' r']|] eqn:E1; [|discriminate].
  destruct (Nat.eqb (length a') n); [|discriminate]. injection E as -> ->.
  destruct (dec_seq_sound dec_u8 byte dec_u8_sound bs a r Hb E1) as [Ha Hr]. repeat split; assumption.
Qed.

Lemma dec_content_address_sound : forall bs a r,
  Forall byte bs -> dec_content_address bs = Some (a, r) -> wf_address a /\ Forall byte r.
Proof. intros bs a r. exact (dec_hash_sound 32 bs a r). Qed.

Lemma dec_node_sound : forall bs n r, Forall byte bs -> dec_node bs = Some (n, r) -> wf_node n /\ Forall byte r.
Proof.
  intros bs n r Hb E. unfold dec_node in E. destruct (dec_u16 bs) as [[e r1]|] eqn:E1; [|discriminate].
  destruct (dec_content_address r1) as [[a r2]|] eqn:E2; [|discriminate]. injection E as <- ->.
  destruct (dec_u16_sound bs e r1 Hb E1) as [He Hr1].
  destruct (dec_content_address_sound r1 a r Hr1 E2) as [[La Fa] Hr].
  split; [|exact Hr]. unfold wf_node. cbn [n_edge_start n_program]. repeat split; try assumption; apply He.
Qed.

Lemma dec_predicate_sound : forall bs p r,
  Forall byte bs -> dec_predicate bs = Some (p, r) -> wf_pred p /\ Forall byte r.
Proof.
  intros bs p r Hb E. unfold dec_predicate in E. destruct (dec_seq dec_node bs) as [[ns r1]|] eqn:E1; [|discriminate].
  destruct (dec_seq dec_u16 r1) as [[es r2]|] eqn:E2; [|discriminate]. injection E as <- ->.
  destruct (dec_seq_sound dec_node wf_node dec_node_sound bs ns r1 Hb E1) as [Hn Hr1].
  destruct (dec_seq_sound dec_u16 u16 dec_u16_sound r1 es r Hr1 E2) as [He Hr].
  split; [|exact Hr]. split; cbn [p_nodes p_edges]; assumption.
Qed.

Lemma sig_of_bytes_wf : forall b, length b = 65%nat -> Forall byte b -> wf_sig (sig_of_bytes b).
Proof.
  intros b L F. unfold wf_sig, sig_of_bytes. cbn [fst snd]. split; [|split].
  - rewrite firstn_length, L. reflexivity.
  - pose proof F as F'. rewrite <- (firstn_skipn 64 b) in F'. apply Forall_app in F'. exact (proj1 F').
  - rewrite Forall_forall in F. apply F. apply nth_In. rewrite L. lia.
Qed.

Lemma dec_contract_sound : forall bs c r,
  Forall byte bs -> dec_contract bs = Some (c, r) -> swf_contract c /\ Forall byte r.
Proof.
  intros bs c r Hb E. unfold dec_contract in E.
  destruct (dec_seq dec_predicate bs) as [[ps r1]|] eqn:E1; [|discriminate].
  destruct (dec_hash 32 r1) as [[s r2]|] eqn:E2; [|discriminate]. injection E as <- ->.
  destruct (dec_seq_sound dec_predicate wf_pred dec_predicate_sound bs ps r1 Hb E1) as [Hp Hr1].
  destruct (dec_hash_sound 32 r1 s r Hr1 E2) as [Hs Hr].
  split; [|exact Hr]. split; cbn [c_predicates c_salt]; assumption.
Qed.

Lemma dec_signed_contract_sound : forall bs sc r,
  Forall byte bs -> dec_signed_contract bs = Some (sc, r) -> swf_signed_contract sc /\ Forall byte r.
Proof.
  intros bs sc r Hb E. unfold dec_signed_contract in E.
  destruct (dec_contract bs) as [[c r1]|] eqn:E1; [|discriminate].
  destruct (dec_signature r1) as [[sg r2]|] eqn:E2; [|discriminate]. injection E as <- ->.
  destruct (dec_contract_sound bs c r1 Hb E1) as [Hc Hr1].
  unfold dec_signature in E2. destruct (dec_hash 65 r1) as [[b r3]|] eqn:E3; [|discriminate].
  injection E2 as <- ->. destruct (dec_hash_sound 65 r1 b r Hr1 E3) as [[L F] Hr].
  split; [|exact Hr]. split; cbn [sc_contract sc_signature]; [exact Hc | exact (sig_of_bytes_wf b L F)].
Qed.

(* ---------- fidelity of the varint and sequence readers ---------- *)

(* try_take_varint_u64: whatever is accepted is a u64, read from 1 to 10 bytes *)
Lemma varint_u64_canonical_range : forall bs n r,
  Forall byte bs -> varint_dec 10 bs = Some (n, r) ->
  0 <= n < 2 ^ 64 /\ exists pre, bs = pre ++ r /\ (1 <= length pre <= 10)%nat.
Proof.
  intros bs n r Hb E. unfold varint_dec in E. change (max_of_last_byte 10) with 1 in E. split.
  - pose proof (varint_lim_range 1 10 bs n r ltac:(lia) Hb E) as H.
    change (128 ^ (Z.of_nat 10 - 1) * (1 + 1)) with 18446744073709551616 in H.
    change (2 ^ 64) with 18446744073709551616. exact H.
  - exact (varint_lim_prefix 1 10 bs n r E).
Qed.

(* try_take_varint_u16 = `varint_dec 3` (third byte at most 3, no continuation); on bytes the value check of
   dec_u16 says the same thing *)
Lemma dec_u16_is_varint_dec : forall bs, Forall byte bs -> dec_u16 bs = varint_dec 3 bs.
Proof.
  intros bs Hb. unfold dec_u16. destruct (varint_dec 3 bs) as [[n r]|] eqn:E; [|reflexivity].
  unfold varint_dec in E. change (max_of_last_byte 3) with 3 in E.
  pose proof (varint_lim_range 3 3 bs n r ltac:(lia) Hb E) as H.
  change (128 ^ (Z.of_nat 3 - 1) * (3 + 1)) with 65536 in H.
  destruct (Z.ltb_spec n 65536); [reflexivity | lia].
Qed.

(* a count above the number of unread bytes is rejected *)
Lemma dec_seq_short {A} (d : list Z -> option (A * list Z)) : forall bs n r,
  varint_dec 10 bs = Some (n, r) -> zlen r < n -> dec_seq d bs = None.
Proof. intros bs n r E L. unfold dec_seq. rewrite E. apply dec_cnt_short. exact L. Qed.

(* a decoded sequence has fewer items than the input has bytes *)
Lemma dec_n_length {A} (d : list Z -> option (A * list Z)) : consumes d ->
  forall n bs xs r, dec_n d n bs = Some (xs, r) -> (length xs + length r <= length bs)%nat.
Proof.
  intros Hc. induction n as [|n IH]; intros bs xs r E; cbn [dec_n] in E.
  - injection E as E1 E2. subst xs r. cbn [length]. lia.
  - destruct (d bs) as [[x r1]|] eqn:E1; [|discriminate].
    destruct (dec_n d n r1) as [[xs' r2]|] eqn:E2; [|discriminate]. injection E as E3 E4. subst xs r2.
    apply Hc in E1. apply took_length in E1. specialize (IH r1 xs' r E2). cbn [length]. lia.
Qed.

Lemma dec_seq_length {A} (d : list Z -> option (A * list Z)) : consumes d ->
  forall bs xs r, dec_seq d bs = Some (xs, r) -> (length xs + length r < length bs)%nat.
Proof.
  intros Hc bs xs r E. unfold dec_seq in E. destruct (varint_dec 10 bs) as [[n r1]|] eqn:E1; [|discriminate].
  apply dec_cnt_some in E. apply (dec_n_length d Hc) in E.
  apply varint_dec_consumes in E1. apply took_length in E1. lia.
Qed.

(* for all sequences of these types the fuelled reader is the plain one *)
Lemma dec_seq_eq_naive_all :
  (forall bs, dec_words bs = dec_seq_naive dec_i64 bs) /\
  (forall bs, dec_bytes bs = dec_seq_naive dec_u8 bs) /\
  (forall bs, dec_seq dec_words bs = dec_seq_naive dec_words bs) /\
  (forall bs, dec_seq dec_mutation bs = dec_seq_naive dec_mutation bs) /\
  (forall bs, dec_solution_set bs = dec_seq_naive dec_solution bs) /\
  (forall bs, dec_seq dec_node bs = dec_seq_naive dec_node bs) /\
  (forall bs, dec_seq dec_u16 bs = dec_seq_naive dec_u16 bs) /\
  (forall bs, dec_seq dec_predicate bs = dec_seq_naive dec_predicate bs).
Proof.
  split; [exact (dec_seq_eq_naive _ dec_i64_consumes)|].
  split; [exact (dec_seq_eq_naive _ dec_u8_consumes)|].
  split; [exact (dec_seq_eq_naive _ dec_words_consumes)|].
  split; [exact (dec_seq_eq_naive _ dec_mutation_consumes)|].
  split; [exact (dec_seq_eq_naive _ dec_solution_consumes)|].
  split; [exact (dec_seq_eq_naive _ dec_node_consumes)|].
  split; [exact (dec_seq_eq_naive _ dec_u16_consumes)|].
  exact (dec_seq_eq_naive _ dec_predicate_consumes).
Qed.

(* ---------- examples (the values of Proofs/HexSerdeProofs.v) ---------- *)

Lemma ex_signed_contract_pwf : pwf_signed_contract ex_signed_contract.
Proof.
  unfold pwf_signed_contract, pwf_contract, pwf_predicate, wf_pred, wf_node, wf_sig, wf_address, byte. cbn.
  range_solve.
Qed.

Lemma ex_all_pwf :
  pwf_signed_contract ex_signed_contract /\ pwf_solution_set [ex_solution; ex_solution] /\
  pwf_program [1; 2; 255; 128].
Proof.
  split; [exact ex_signed_contract_pwf|]. split.
  - unfold pwf_solution_set, wf_solution, wf_address, wf_mutation, wf_words, byte, i64. cbn. range_solve.
  - unfold pwf_program, byte. cbn. range_solve.
Qed.

(* the strict readers accept exactly what the plain ones accept with 32-byte addresses; in particular every well-formed value *)
Lemma dec_solution_strict_roundtrip : forall s rest,
  wf_solution s -> dec_solution_strict (pc_solution s ++ rest) = Some (s, rest).
Proof.
  intros s rest H. unfold dec_solution_strict. rewrite (dec_solution_roundtrip s rest H).
  destruct H as [[Hc _] [[Hp _] _]]. rewrite Hc, Hp. reflexivity.
Qed.
Lemma dec_solution_strict_sound : forall bs s r,
  dec_solution_strict bs = Some (s, r) ->
  dec_solution bs = Some (s, r) /\ length (sol_contract s) = 32%nat /\ length (sol_predicate s) = 32%nat.
Proof.
  intros bs s r. unfold dec_solution_strict. destruct (dec_solution bs) as [[s' r']|] eqn:E; [|discriminate].
  destruct (Nat.eqb (length (sol_contract s')) 32) eqn:E1; [|discriminate].
  destruct (Nat.eqb (length (sol_predicate s')) 32) eqn:E2; [|discriminate].
  cbn. intros H. inversion H; subst. apply Nat.eqb_eq in E1, E2. auto.
Qed.
