(* Lemmas for C12: access ops expose the solution data; crypto ops marshal exactly the documented bytes
   to the (opaque) hash / signature oracles of the environment. *)
From Coq Require Import ZArith List Lia Bool.
From EB Require Import Vm.Step Proofs.StateReadProofs.
Open Scope list_scope.
Open Scope Z_scope.

(* a uniform description of `extend` on a stack within the limit *)
Lemma extend_eq ws s : zlen s <= 4096 ->
  extend ws s = if zlen s + zlen ws <=? 4096 then Ok (rev ws ++ s) else Err EStack.
Proof.
  intros B. destruct (Z.leb_spec (zlen s + zlen ws) 4096) as [H|H].
  - apply extend_ok; exact H.
  - apply extend_full; assumption.
Qed.

(* ---------- words4 / bytes ---------- *)
Lemma words_of_bytes_length fuel : forall bs, (length (words_of_bytes fuel bs) <= fuel)%nat.
Proof.
  induction fuel as [|f IH]; intros bs; [cbn; lia|].
  destruct bs as [|b bs]; [cbn; lia|].
  cbn [words_of_bytes length]. specialize (IH (skipn 8 (b :: bs))). lia.
Qed.

Lemma words_of_bytes_length_exact fuel : forall bs, length bs = (8 * fuel)%nat -> length (words_of_bytes fuel bs) = fuel.
Proof.
  induction fuel as [|f IH]; intros bs L; [reflexivity|].
  destruct bs as [|b bs]; [cbn [length] in L; lia|].
  cbn [words_of_bytes length]. rewrite IH; [reflexivity|]. rewrite skipn_length. lia.
Qed.

Lemma words4_length_le bs : zlen (words4 bs) <= 4.
Proof. unfold words4, zlen. pose proof (words_of_bytes_length 4 bs). lia. Qed.
Lemma words4_length bs : length bs = 32%nat -> length (words4 bs) = 4%nat.
Proof. intros L. unfold words4. apply words_of_bytes_length_exact. rewrite L. reflexivity. Qed.

Lemma Forall_firstn {A} (P : A -> Prop) n : forall l, Forall P l -> Forall P (firstn n l).
Proof.
  induction n as [|n IH]; intros l H; [constructor|].
  destruct H as [|x l Hx Hl]; [constructor|]. cbn [firstn]. constructor; [exact Hx|apply IH; exact Hl].
Qed.
Lemma Forall_skipn {A} (P : A -> Prop) n : forall l, Forall P l -> Forall P (skipn n l).
Proof.
  induction n as [|n IH]; intros l H; [exact H|].
  destruct H as [|x l Hx Hl]; [constructor|]. cbn [skipn]. apply IH; exact Hl.
Qed.

Lemma bytes_of_words_of_bytes fuel : forall bs, length bs = (8 * fuel)%nat -> Forall byte bs ->
  bytes_of_words (words_of_bytes fuel bs) = bs.
Proof.
  induction fuel as [|f IH]; intros bs L H.
  - destruct bs; [reflexivity|discriminate L].
  - destruct bs as [|b bs]; [cbn [length] in L; lia|].
    cbn [words_of_bytes]. unfold bytes_of_words. cbn [flat_map]. fold (bytes_of_words (words_of_bytes f (skipn 8 (b :: bs)))).
    rewrite bytes_of_word_of_bytes.
    + rewrite IH; [apply firstn_skipn| |apply Forall_skipn; exact H]. rewrite skipn_length. lia.
    + rewrite firstn_length. lia.
    + apply Forall_firstn. exact H.
Qed.

(* item 5: 32 bytes <-> 4 words is a bijection *)
Lemma words4_bytes32_inverse :
  (forall b, length b = 32%nat -> Forall byte b -> bytes_of_words (words4 b) = b) /\
  (forall ws, length ws = 4%nat -> Forall i64 ws -> words4 (bytes_of_words ws) = ws).
Proof.
  split.
  - intros b L H. unfold words4. apply bytes_of_words_of_bytes; [rewrite L; reflexivity|exact H].
  - intros ws L H. unfold words4. apply words_of_bytes_of_words; [exact H|lia].
Qed.

(* ---------- item 4: PredicateData, PredicateDataLen, PredicateDataSlots ---------- *)
Section Access.
Variable E : env.
Variable r : list slot.
Let data := sol_data (this_solution E).

Definition pd_in_range (len vix six : Z) : Prop :=
  0 <= six < zlen data /\ 0 <= vix /\ 0 <= len /\ vix + len <= zlen (nth (Z.to_nat six) data []).

Lemma predicate_data_eq len vix six s :
  zlen (nth (Z.to_nat six) data []) <= 18446744073709551615 ->
  step_access E OPredicateData (len :: vix :: six :: s) r =
  if (0 <=? six) && (six <? zlen data) && (0 <=? vix) && (0 <=? len)
     && (vix + len <=? zlen (nth (Z.to_nat six) data []))
  then extend (firstn (Z.to_nat len) (skipn (Z.to_nat vix) (nth (Z.to_nat six) data []))) s
  else Err EAccess.
Proof.
  intros Bs. cbn [step_access]. fold data. unfold op_predicate_data, acc_pop. cbn [pop map_err bind].
  rewrite usize_max_eq.
  destruct (Z.ltb_spec six 0) as [H1|H1].
  { destruct (Z.leb_spec 0 six); [lia|]. reflexivity. }
  destruct (Z.leb_spec 0 six) as [_|?]; [|lia]. cbn [andb].
  destruct (Z.ltb_spec vix 0) as [H2|H2].
  { destruct (Z.leb_spec 0 vix); [lia|]. rewrite !andb_false_r. reflexivity. }
  destruct (Z.leb_spec 0 vix) as [_|?]; [|lia].
  destruct (Z.ltb_spec len 0) as [H3|H3].
  { destruct (Z.leb_spec 0 len); [lia|]. rewrite !andb_false_r. reflexivity. }
  destruct (Z.leb_spec 0 len) as [_|?]; [|lia]. cbn [orb].
  destruct (Z.leb_spec (zlen data) six) as [H4|H4].
  { destruct (Z.ltb_spec six (zlen data)); [lia|]. cbn [andb].
    destruct (Z.ltb_spec 18446744073709551615 (vix + len)); reflexivity. }
  destruct (Z.ltb_spec six (zlen data)) as [_|?]; [|lia]. cbn [andb].
  destruct (Z.ltb_spec (zlen (nth (Z.to_nat six) data [])) (vix + len)) as [H5|H5].
  { destruct (Z.leb_spec (vix + len) (zlen (nth (Z.to_nat six) data []))); [lia|].
    destruct (Z.ltb_spec 18446744073709551615 (vix + len)); reflexivity. }
  destruct (Z.leb_spec (vix + len) (zlen (nth (Z.to_nat six) data []))) as [_|?]; [|lia].
  destruct (Z.ltb_spec 18446744073709551615 (vix + len)); [lia|]. reflexivity.
Qed.

Lemma pd_in_range_dec len vix six :
  (0 <=? six) && (six <? zlen data) && (0 <=? vix) && (0 <=? len)
     && (vix + len <=? zlen (nth (Z.to_nat six) data [])) = true <-> pd_in_range len vix six.
Proof.
  unfold pd_in_range. rewrite !andb_true_iff, !Z.leb_le, Z.ltb_lt. tauto.
Qed.

(* succeeds with exactly the addressed words (pushed in order: the last one on top) *)
Lemma predicate_data_ok len vix six s :
  zlen (nth (Z.to_nat six) data []) <= 18446744073709551615 ->
  pd_in_range len vix six -> zlen s + len <= 4096 ->
  step_access E OPredicateData (len :: vix :: six :: s) r =
  Ok (rev (firstn (Z.to_nat len) (skipn (Z.to_nat vix) (nth (Z.to_nat six) data []))) ++ s).
Proof.
  intros Bs Hr Hroom. rewrite predicate_data_eq by exact Bs.
  rewrite (proj2 (pd_in_range_dec len vix six) Hr).
  apply extend_ok. destruct Hr as (H1 & H2 & H3 & H4).
  rewrite zlen_firstn; [exact Hroom|]. split; [exact H3|]. rewrite zlen_skipn by lia. lia.
Qed.

(* any out-of-range request is an access error *)
Lemma predicate_data_out_of_range len vix six s :
  zlen (nth (Z.to_nat six) data []) <= 18446744073709551615 ->
  ~ pd_in_range len vix six ->
  step_access E OPredicateData (len :: vix :: six :: s) r = Err EAccess.
Proof.
  intros Bs Hr. rewrite predicate_data_eq by exact Bs.
  destruct ((0 <=? six) && (six <? zlen data) && (0 <=? vix) && (0 <=? len)
     && (vix + len <=? zlen (nth (Z.to_nat six) data []))) eqn:B; [|reflexivity].
  apply pd_in_range_dec in B. contradiction.
Qed.

(* in range but the words do not fit the stack: a stack error *)
Lemma predicate_data_overflow len vix six s :
  zlen (nth (Z.to_nat six) data []) <= 18446744073709551615 ->
  pd_in_range len vix six -> zlen s <= 4096 -> 4096 < zlen s + len ->
  step_access E OPredicateData (len :: vix :: six :: s) r = Err EStack.
Proof.
  intros Bs Hr Bst Hroom. rewrite predicate_data_eq by exact Bs.
  rewrite (proj2 (pd_in_range_dec len vix six) Hr).
  apply extend_full; [exact Bst|]. destruct Hr as (H1 & H2 & H3 & H4).
  rewrite zlen_firstn; [exact Hroom|]. split; [exact H3|]. rewrite zlen_skipn by lia. lia.
Qed.

(* fewer than three operands: an access error *)
Lemma predicate_data_short_stack s : (length s < 3)%nat -> step_access E OPredicateData s r = Err EAccess.
Proof.
  intros H. destruct s as [|a [|b [|c s]]]; try reflexivity. cbn [length] in H. lia.
Qed.

(* iff form of item 4 *)
Lemma predicate_data_spec len vix six s s' :
  zlen (nth (Z.to_nat six) data []) <= 18446744073709551615 -> zlen s <= 4096 ->
  (step_access E OPredicateData (len :: vix :: six :: s) r = Ok s' <->
   pd_in_range len vix six /\ zlen s + len <= 4096 /\
   s' = rev (firstn (Z.to_nat len) (skipn (Z.to_nat vix) (nth (Z.to_nat six) data []))) ++ s).
Proof.
  intros Bs Bst. split.
  - intros H.
    destruct ((0 <=? six) && (six <? zlen data) && (0 <=? vix) && (0 <=? len)
       && (vix + len <=? zlen (nth (Z.to_nat six) data []))) eqn:B.
    + apply pd_in_range_dec in B. destruct (Z.leb_spec (zlen s + len) 4096) as [F|F].
      * rewrite (predicate_data_ok len vix six s Bs B F) in H. injection H as <-. auto.
      * rewrite (predicate_data_overflow len vix six s Bs B Bst F) in H. discriminate.
    + rewrite predicate_data_out_of_range in H; [discriminate|exact Bs|].
      intros C. apply pd_in_range_dec in C. congruence.
  - intros (Hr & F & ->). apply predicate_data_ok; assumption.
Qed.

Lemma predicate_data_no_panic len vix six s :
  zlen (nth (Z.to_nat six) data []) <= 18446744073709551615 -> zlen s <= 4096 ->
  (exists s', step_access E OPredicateData (len :: vix :: six :: s) r = Ok s') \/
  step_access E OPredicateData (len :: vix :: six :: s) r = Err EAccess \/
  step_access E OPredicateData (len :: vix :: six :: s) r = Err EStack.
Proof.
  intros Bs Bst. rewrite predicate_data_eq by exact Bs.
  destruct ((0 <=? six) && (six <? zlen data) && (0 <=? vix) && (0 <=? len)
       && (vix + len <=? zlen (nth (Z.to_nat six) data []))); [|right; left; reflexivity].
  rewrite extend_eq by exact Bst.
  match goal with |- context [if ?c then _ else _] => destruct c end; [left; eexists; reflexivity|right; right; reflexivity].
Qed.

Lemma predicate_data_len_spec six s : zlen (six :: s) <= 4096 ->
  step_access E OPredicateDataLen (six :: s) r =
  if (0 <=? six) && (six <? zlen data) then Ok (zlen (nth (Z.to_nat six) data []) :: s) else Err EAccess.
Proof.
  intros B. rewrite zlen_cons in B. cbn [step_access]. fold data. unfold op_predicate_data_len, acc_pop.
  cbn [pop map_err bind].
  destruct (Z.ltb_spec six 0) as [H1|H1].
  { destruct (Z.leb_spec 0 six); [lia|]. reflexivity. }
  destruct (Z.leb_spec 0 six) as [_|?]; [|lia]. cbn [andb].
  destruct (Z.leb_spec (zlen data) six) as [H2|H2].
  { destruct (Z.ltb_spec six (zlen data)); [lia|]. reflexivity. }
  destruct (Z.ltb_spec six (zlen data)) as [_|?]; [|lia].
  rewrite push_ok by lia. reflexivity.
Qed.

Lemma predicate_data_len_empty : step_access E OPredicateDataLen [] r = Err EAccess.
Proof. reflexivity. Qed.

Lemma predicate_data_slots_spec s :
  step_access E OPredicateDataSlots s r = if zlen s <? 4096 then Ok (zlen data :: s) else Err EStack.
Proof.
  cbn [step_access]. fold data.
  destruct (Z.ltb_spec (zlen s) 4096); [apply push_ok|apply push_full]; assumption.
Qed.

(* ---------- item 5: ThisAddress, ThisContractAddress ---------- *)
Lemma this_address_spec s : zlen s <= 4096 -> length (sol_predicate (this_solution E)) = 32%nat ->
  step_access E OThisAddress s r =
  if zlen s + 4 <=? 4096 then Ok (rev (words4 (sol_predicate (this_solution E))) ++ s) else Err EStack.
Proof.
  intros B L. cbn [step_access]. rewrite extend_eq by exact B.
  unfold zlen at 2. rewrite words4_length by exact L. reflexivity.
Qed.

Lemma this_contract_address_spec s : zlen s <= 4096 -> length (sol_contract (this_solution E)) = 32%nat ->
  step_access E OThisContractAddress s r =
  if zlen s + 4 <=? 4096 then Ok (rev (words4 (sol_contract (this_solution E))) ++ s) else Err EStack.
Proof.
  intros B L. cbn [step_access]. rewrite extend_eq by exact B.
  unfold zlen at 2. rewrite words4_length by exact L. reflexivity.
Qed.

(* ---------- item 6: PredicateExists ---------- *)
Lemma bytes_eqb_true a b : bytes_eqb a b = true <-> a = b.
Proof. unfold bytes_eqb. destruct (zlist_eq_dec a b); split; congruence. Qed.

Lemma predicate_exists_spec w0 w1 w2 w3 s : zlen (w3 :: w2 :: w1 :: w0 :: s) <= 4096 ->
  exists b, step_access E OPredicateExists (w3 :: w2 :: w1 :: w0 :: s) r = Ok (word_of_bool b :: s) /\
    (b = true <-> exists sol, In sol (e_solutions E) /\
                              e_sha256 E (pred_data_preimage sol) = bytes_of_words [w0; w1; w2; w3]).
Proof.
  intros B. rewrite !zlen_cons in B. cbn [step_access]. unfold op_predicate_exists.
  rewrite popn4_cons. cbn [bind].
  eexists. split; [apply push_ok; lia|].
  rewrite existsb_exists. split; intros [sol [Hin H]]; exists sol; (split; [exact Hin|]); apply bytes_eqb_true; exact H.
Qed.

Lemma predicate_exists_short s : (length s < 4)%nat -> step_access E OPredicateExists s r = Err EStack.
Proof. intros H. cbn [step_access]. unfold op_predicate_exists. rewrite popn_short by exact H. reflexivity. Qed.
End Access.

Lemma pred_data_preimage_spec sol :
  pred_data_preimage sol =
  bytes_of_words (flat_map (fun slot => zlen slot :: slot) (sol_data sol)
                  ++ words4 (sol_contract sol) ++ words4 (sol_predicate sol)).
Proof. reflexivity. Qed.

(* ---------- items 7, 8: crypto ops ---------- *)
Lemma pop_bytes_ok n ws s : 0 <= n -> zlen ws = (n + 7) / 8 ->
  pop_bytes (n :: rev ws ++ s) = Ok (firstn (Z.to_nat n) (bytes_of_words ws), s).
Proof.
  intros Hn L. unfold pop_bytes. cbn [pop bind]. destruct (Z.ltb_spec n 0) as [?|_]; [lia|].
  unfold ceil8. rewrite <- L, split_len_rev. reflexivity.
Qed.

Lemma pop_bytes_error s :
  match s with
  | [] => True
  | n :: s1 => n < 0 \/ zlen s1 < (n + 7) / 8
  end -> pop_bytes s = Err EStack.
Proof.
  destruct s as [|n s1]; [reflexivity|]. intros H. unfold pop_bytes. cbn [pop bind].
  destruct (Z.ltb_spec n 0) as [?|Hn]; [reflexivity|]. unfold ceil8.
  rewrite split_len_short; [reflexivity|]. destruct H; [lia|assumption].
Qed.

Section Crypto.
Variable E : env.

Lemma sha256_op_spec n ws s : 0 <= n -> zlen ws = (n + 7) / 8 -> zlen s + 4 <= 4096 ->
  step_crypto E OSha256 (n :: rev ws ++ s) =
  Ok (rev (words4 (e_sha256 E (firstn (Z.to_nat n) (bytes_of_words ws)))) ++ s).
Proof.
  intros Hn L Hroom. cbn [step_crypto]. unfold op_sha256. rewrite pop_bytes_ok by assumption. cbn [bind].
  apply extend_ok. pose proof (words4_length_le (e_sha256 E (firstn (Z.to_nat n) (bytes_of_words ws)))). lia.
Qed.

(* with a 32-byte digest the only failure after the pops is lack of room for the 4 result words *)
Lemma sha256_op_full n ws s : 0 <= n -> zlen ws = (n + 7) / 8 -> zlen s <= 4096 ->
  length (e_sha256 E (firstn (Z.to_nat n) (bytes_of_words ws))) = 32%nat -> 4096 < zlen s + 4 ->
  step_crypto E OSha256 (n :: rev ws ++ s) = Err EStack.
Proof.
  intros Hn L B L32 Hroom. cbn [step_crypto]. unfold op_sha256. rewrite pop_bytes_ok by assumption. cbn [bind].
  apply extend_full; [exact B|]. unfold zlen at 2. rewrite words4_length by exact L32. exact Hroom.
Qed.

(* a whole number of words: exactly the bytes of those words are hashed *)
Lemma sha256_whole_words ws s : zlen s + 4 <= 4096 ->
  step_crypto E OSha256 (8 * zlen ws :: rev ws ++ s) = Ok (rev (words4 (e_sha256 E (bytes_of_words ws))) ++ s).
Proof.
  intros Hroom. pose proof (zlen_nonneg ws) as Nw.
  rewrite sha256_op_spec; [|lia| |exact Hroom].
  - rewrite firstn_exact; [reflexivity|]. rewrite bytes_of_words_length. unfold zlen. lia.
  - apply (Z.div_unique (8 * zlen ws + 7) 8 (zlen ws) 7); lia.
Qed.

Lemma sha256_op_error s :
  match s with
  | [] => True
  | n :: s1 => n < 0 \/ zlen s1 < (n + 7) / 8
  end -> step_crypto E OSha256 s = Err EStack.
Proof. intros H. cbn [step_crypto]. unfold op_sha256. rewrite pop_bytes_error by exact H. reflexivity. Qed.

Lemma verify_ed25519_marshalling key4 sig8 n ws s :
  length key4 = 4%nat -> length sig8 = 8%nat -> 0 <= n -> zlen ws = (n + 7) / 8 -> zlen s < 4096 ->
  step_crypto E OVerifyEd25519 (rev key4 ++ rev sig8 ++ n :: rev ws ++ s) =
  match e_ed25519 E (bytes_of_words key4) (bytes_of_words sig8) (firstn (Z.to_nat n) (bytes_of_words ws)) with
  | None => Err ECrypto
  | Some b => Ok (word_of_bool b :: s)
  end.
Proof.
  intros L4 L8 Hn L Hroom. cbn [step_crypto]. unfold op_verify_ed25519.
  rewrite (popn_rev 4 key4 _ L4). cbn [bind]. rewrite (popn_rev 8 sig8 _ L8). cbn [bind].
  rewrite pop_bytes_ok by assumption. cbn [bind].
  destruct (e_ed25519 E (bytes_of_words key4) (bytes_of_words sig8) (firstn (Z.to_nat n) (bytes_of_words ws)));
    [apply push_ok; exact Hroom|reflexivity].
Qed.

(* too few words for key, signature or message: a stack error before the oracle is consulted *)
Lemma verify_ed25519_short s : (length s < 13)%nat -> step_crypto E OVerifyEd25519 s = Err EStack.
Proof.
  intros H. cbn [step_crypto]. unfold op_verify_ed25519, popn.
  destruct (Nat.ltb_spec (length s) 4) as [|H4]; [reflexivity|]. cbn [bind].
  destruct (Nat.ltb_spec (length (skipn 4 s)) 8) as [|H8]; [reflexivity|]. cbn [bind].
  rewrite skipn_length in H8. rewrite pop_bytes_error; [reflexivity|].
  destruct (skipn 8 (skipn 4 s)) eqn:Es; [exact I|].
  apply (f_equal (@length Z)) in Es. rewrite !skipn_length in Es. cbn [length] in Es. lia.
Qed.

Lemma recover_secp256k1_bad_id rid sig8 h4 s : length sig8 = 8%nat -> length h4 = 4%nat ->
  rid < 0 \/ 3 < rid ->
  step_crypto E ORecoverSecp256k1 (rid :: rev sig8 ++ rev h4 ++ s) = Err ECrypto.
Proof.
  intros L8 L4 H. cbn [step_crypto]. unfold op_recover_secp256k1. cbn [pop bind].
  rewrite (popn_rev 8 sig8 _ L8). cbn [bind]. rewrite (popn_rev 4 h4 _ L4). cbn [bind].
  destruct (Z.ltb_spec rid 0); [reflexivity|]. destruct (Z.ltb_spec 3 rid); [reflexivity|lia].
Qed.

Lemma recover_secp256k1_marshalling rid sig8 h4 s : length sig8 = 8%nat -> length h4 = 4%nat ->
  0 <= rid <= 3 -> zlen s + 5 <= 4096 ->
  step_crypto E ORecoverSecp256k1 (rid :: rev sig8 ++ rev h4 ++ s) =
  match e_secp E (bytes_of_words h4) (bytes_of_words sig8) rid with
  | SecpParseErr => Err ECrypto
  | SecpNoKey => Ok (0 :: 0 :: 0 :: 0 :: 0 :: s)
  | SecpKey k => Ok (nth 32 k 0 :: rev (words4 (firstn 32 k)) ++ s)
  end.
Proof.
  intros L8 L4 H Hroom. cbn [step_crypto]. unfold op_recover_secp256k1. cbn [pop bind].
  rewrite (popn_rev 8 sig8 _ L8). cbn [bind]. rewrite (popn_rev 4 h4 _ L4). cbn [bind].
  destruct (Z.ltb_spec rid 0); [lia|]. destruct (Z.ltb_spec 3 rid); [lia|]. cbn [orb].
  destruct (e_secp E (bytes_of_words h4) (bytes_of_words sig8) rid) as [| |k].
  - reflexivity.
  - rewrite extend_ok; [reflexivity|]. rewrite !zlen_cons, zlen_nil. lia.
  - rewrite extend_ok.
    + rewrite rev_app_distr. reflexivity.
    + rewrite zlen_app, zlen_cons, zlen_nil. pose proof (words4_length_le (firstn 32 k)). lia.
Qed.

Lemma recover_secp256k1_short s : (length s < 13)%nat -> step_crypto E ORecoverSecp256k1 s = Err EStack.
Proof.
  intros H. cbn [step_crypto]. unfold op_recover_secp256k1.
  destruct s as [|rid s]; [reflexivity|]. cbn [pop bind length] in *. unfold popn.
  destruct (Nat.ltb_spec (length s) 8) as [|H8]; [reflexivity|]. cbn [bind].
  destruct (Nat.ltb_spec (length (skipn 8 s)) 4) as [|H4]; [reflexivity|].
  rewrite skipn_length in H4. lia.
Qed.
End Crypto.
