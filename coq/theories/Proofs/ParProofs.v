(* Proofs for C02: the result of every parallel section of the checker is the sequential map,
   whatever the completion order of its tasks (see Check/Par.v for the semantics and its assumptions). *)
From Coq Require Import List Arith Lia Bool Permutation Sorted.
From EB Require Import Check.Par.
Import ListNotations.
Open Scope list_scope.

(* ================= the indexed parallel map ================= *)
Section ParMapProofs.
  Context {R : Type}.
  Implicit Types (f : nat -> R) (slots : list (option R)).

  Lemma set_slot_length i (x : R) slots : length (set_slot i x slots) = length slots.
  Proof.
    revert i. induction slots as [|y r IH]; intros i; destruct i; cbn [set_slot length]; try reflexivity.
    rewrite IH. reflexivity.
  Qed.

  Lemma nth_set_slot i (x : R) slots j : j < length slots ->
    nth j (set_slot i x slots) None = if Nat.eqb i j then Some x else nth j slots None.
  Proof.
    revert i j. induction slots as [|y r IH]; intros i j Hj; cbn [length] in Hj; [lia|].
    destruct i, j; cbn [set_slot nth Nat.eqb]; try reflexivity.
    apply IH. lia.
  Qed.

  Lemma fold_finish_length f sched : forall slots, length (fold_left (finish f) sched slots) = length slots.
  Proof.
    induction sched as [|i s IH]; intros slots; cbn [fold_left]; [reflexivity|].
    rewrite IH. unfold finish. apply set_slot_length.
  Qed.

  Lemma run_par_length f n sched : length (run_par f n sched) = n.
  Proof. unfold run_par. rewrite fold_finish_length. apply repeat_length. Qed.

  (* slot j holds `f j` as soon as j has finished, and is untouched before *)
  Lemma fold_finish_nth f sched : forall slots j, j < length slots ->
    nth j (fold_left (finish f) sched slots) None =
    if existsb (Nat.eqb j) sched then Some (f j) else nth j slots None.
  Proof.
    induction sched as [|i s IH]; intros slots j Hj; cbn [fold_left existsb]; [reflexivity|].
    rewrite IH by (unfold finish; rewrite set_slot_length; exact Hj).
    unfold finish. rewrite nth_set_slot by exact Hj.
    rewrite (Nat.eqb_sym j i).
    destruct (Nat.eqb_spec i j) as [He|He]; cbn [orb].
    - subst i. destruct (existsb (Nat.eqb j) s); reflexivity.
    - reflexivity.
  Qed.

  Lemma nth_repeat_none n j : nth j (repeat (@None R) n) None = None.
  Proof. revert j. induction n as [|n IH]; intros j; destruct j; cbn [repeat nth]; auto. Qed.

  Lemma run_par_nth f n sched j : j < n ->
    nth j (run_par f n sched) None = if existsb (Nat.eqb j) sched then Some (f j) else None.
  Proof.
    intros Hj. unfold run_par. rewrite fold_finish_nth by (rewrite repeat_length; exact Hj).
    rewrite nth_repeat_none. reflexivity.
  Qed.

  Lemma existsb_eqb_in j l : existsb (Nat.eqb j) l = true <-> In j l.
  Proof.
    rewrite existsb_exists. split.
    - intros (x & Hin & He). apply Nat.eqb_eq in He. subst x. exact Hin.
    - intros Hin. exists j. split; [exact Hin|apply Nat.eqb_refl].
  Qed.

  Lemma collect_filled f : forall slots s,
    (forall j, j < length slots -> nth j slots None = Some (f (s + j))) ->
    collect slots = Some (map f (seq s (length slots))).
  Proof.
    induction slots as [|y r IH]; intros s H; cbn [collect length seq map]; [reflexivity|].
    assert (H0 := H 0 ltac:(cbn [length]; lia)). cbn [nth] in H0. rewrite Nat.add_0_r in H0. subst y.
    rewrite (IH (S s)); [reflexivity|].
    intros j Hj. assert (Hs := H (S j) ltac:(cbn [length]; lia)). cbn [nth] in Hs.
    rewrite Hs. f_equal. f_equal. lia.
  Qed.

  Lemma collect_hole : forall slots j, j < length slots -> nth j slots None = None -> collect slots = None.
  Proof.
    induction slots as [|y r IH]; intros j Hj Hn; cbn [length] in Hj; [lia|].
    destruct j; cbn [nth] in Hn.
    - subst y. reflexivity.
    - cbn [collect]. destruct y; [|reflexivity]. rewrite (IH j) by (lia || exact Hn). reflexivity.
  Qed.

  (* the slot vector is the sequential map as soon as every task has finished (at least once) ... *)
  Lemma run_par_covering f n sched : (forall i, i < n -> In i sched) ->
    collect (run_par f n sched) = Some (map f (seq 0 n)).
  Proof.
    intros Hc.
    rewrite <- (run_par_length f n sched) at 2.
    apply collect_filled. intros j Hj. rewrite run_par_length in Hj.
    rewrite run_par_nth by exact Hj. cbn [Nat.add].
    destruct (existsb (Nat.eqb j) sched) eqn:He; [reflexivity|].
    apply Hc in Hj. apply existsb_eqb_in in Hj. congruence.
  Qed.

  (* ... and the join is not passed while a task is missing *)
  Lemma run_par_incomplete f n sched i : i < n -> ~ In i sched -> collect (run_par f n sched) = None.
  Proof.
    intros Hi Hn. apply (collect_hole _ i); [rewrite run_par_length; exact Hi|].
    rewrite run_par_nth by exact Hi.
    destruct (existsb (Nat.eqb i) sched) eqn:He; [|reflexivity].
    apply existsb_eqb_in in He. contradiction.
  Qed.

  Theorem par_map_schedule_independent f n sched :
    complete n sched -> collect (run_par f n sched) = Some (map f (seq 0 n)).
  Proof.
    intros Hp. apply run_par_covering. intros i Hi.
    apply (Permutation_in i (Permutation_sym Hp)). apply in_seq. lia.
  Qed.

  Corollary par_map_two_schedules f n s1 s2 :
    complete n s1 -> complete n s2 -> run_par f n s1 = run_par f n s2.
  Proof.
    intros H1 H2. apply (nth_ext _ _ None None).
    - rewrite !run_par_length. reflexivity.
    - intros j Hj. rewrite run_par_length in Hj. rewrite !run_par_nth by exact Hj.
      assert (In j (seq 0 n)) as Hin by (apply in_seq; lia).
      assert (E1 : existsb (Nat.eqb j) s1 = true)
        by (apply existsb_eqb_in; exact (Permutation_in j (Permutation_sym H1) Hin)).
      assert (E2 : existsb (Nat.eqb j) s2 = true)
        by (apply existsb_eqb_in; exact (Permutation_in j (Permutation_sym H2) Hin)).
      rewrite E1, E2. reflexivity.
  Qed.

  (* tasks that agree pointwise give the same slots *)
  Lemma run_par_ext f g n sched : (forall i, f i = g i) -> run_par f n sched = run_par g n sched.
  Proof.
    intros He. unfold run_par. generalize (repeat (@None R) n).
    induction sched as [|i s IH]; intros slots; cbn [fold_left]; [reflexivity|].
    unfold finish at 2 4. rewrite He. apply IH.
  Qed.

  (* a list is the indexed map of its own elements: sections over a list of keys are indexed sections *)
  Lemma map_nth_seq {K} (g : K -> R) (d : K) (ks : list K) :
    map g ks = map (fun j => g (nth j ks d)) (seq 0 (length ks)).
  Proof.
    induction ks as [|k r IH]; cbn [map length seq nth]; [reflexivity|].
    rewrite <- seq_shift, map_map. cbn [nth]. rewrite <- IH. reflexivity.
  Qed.

  Theorem par_map_over_keys {K} (g : K -> R) (d : K) (ks : list K) sched :
    complete (length ks) sched ->
    collect (run_par (fun j => g (nth j ks d)) (length ks) sched) = Some (map g ks).
  Proof.
    intros Hp. rewrite (par_map_schedule_independent _ _ _ Hp). rewrite <- map_nth_seq. reflexivity.
  Qed.
End ParMapProofs.

(* ================= worker pools ================= *)
Lemma concat_all_nil (qs : list (list nat)) : Forall (fun q => q = []) qs -> concat qs = [].
Proof. induction 1 as [|q r Hq _ IH]; cbn [concat]; [reflexivity|]. subst q. exact IH. Qed.

Lemma interleave_perm qs s : interleave qs s -> Permutation s (concat qs).
Proof.
  induction 1 as [qs Hall|qs1 i q qs2 s _ IH].
  - rewrite concat_all_nil by exact Hall. constructor.
  - rewrite concat_app in *. cbn [concat app] in *.
    apply Permutation_cons_app. exact IH.
Qed.

(* any number of workers, any assignment of the tasks to them, any interleaving *)
Theorem pool_size_independent {R} (f : nat -> R) n (qs : list (list nat)) s :
  assignment n qs -> interleave qs s -> collect (run_par f n s) = Some (map f (seq 0 n)).
Proof.
  intros Ha Hi. apply par_map_schedule_independent. unfold complete.
  exact (Permutation_trans (interleave_perm _ _ Hi) Ha).
Qed.

(* ================= the write-once cell ================= *)
Section OnceCellProofs.
  Context {R C : Type}.
  Variable tasks : nat -> task R C.
  Variable init_of : nat -> C.
  Variable init : C.
  (* every closure handed to get_or_init evaluates to the same value: a pure function of the immutable inputs *)
  Hypothesis init_pure : forall i, init_of i = init.

  Definition cell_inv (st : pstate R C) : Prop := cell st = None \/ cell st = Some init.

  Lemma get_or_init_value i (st : pstate R C) : cell_inv st -> fst (get_or_init init_of i st) = init.
  Proof.
    unfold get_or_init, cell_inv. intros [H|H]; rewrite H; cbn [fst]; [apply init_pure|reflexivity].
  Qed.

  Lemma get_or_init_cell i (st : pstate R C) : cell_inv st -> cell (snd (get_or_init init_of i st)) = Some init.
  Proof.
    unfold get_or_init, cell_inv. intros [H|H]; rewrite H; cbn [snd cell]; [rewrite init_pure; reflexivity|exact H].
  Qed.

  Lemma get_or_init_slots i (st : pstate R C) : slots (snd (get_or_init init_of i st)) = slots st.
  Proof. unfold get_or_init. destruct (cell st); reflexivity. Qed.

  Lemma step_spec st e : cell_inv st ->
    slots (step tasks init_of st e) =
      match e with Finish i => set_slot i (task_with tasks init i) (slots st) | InitCell _ => slots st end /\
    cell (step tasks init_of st e) = (if touches tasks e then Some init else cell st).
  Proof.
    intros Hinv. destruct e as [i|i]; cbn [step touches].
    - unfold task_with. destruct (tasks i) as [r|k]; cbn [slots cell].
      + split; reflexivity.
      + rewrite get_or_init_slots, get_or_init_value, get_or_init_cell by exact Hinv. split; reflexivity.
    - rewrite get_or_init_slots, get_or_init_cell by exact Hinv. split; reflexivity.
  Qed.

  Lemma step_inv st e : cell_inv st -> cell_inv (step tasks init_of st e).
  Proof.
    intros Hinv. destruct (step_spec st e Hinv) as [_ Hc]. unfold cell_inv. rewrite Hc.
    destruct (touches tasks e); [right; reflexivity|exact Hinv].
  Qed.

  Lemma fold_step_spec sched : forall st, cell_inv st ->
    slots (fold_left (step tasks init_of) sched st) =
      fold_left (finish (task_with tasks init)) (finishes sched) (slots st) /\
    cell (fold_left (step tasks init_of) sched st) =
      (if existsb (touches tasks) sched then Some init else cell st).
  Proof.
    induction sched as [|e s IH]; intros st Hinv; cbn [fold_left existsb]; [split; reflexivity|].
    destruct (IH _ (step_inv st e Hinv)) as [Hs Hc]. destruct (step_spec st e Hinv) as [Hs1 Hc1].
    rewrite Hs, Hc, Hs1, Hc1. split.
    - unfold finishes. cbn [flat_map]. destruct e as [i|i]; cbn [app fold_left]; reflexivity.
    - destruct (touches tasks e); cbn [orb]; [|reflexivity].
      destruct (existsb (touches tasks) s); reflexivity.
  Qed.

  (* whichever task initialises the cell, and whenever: every reader computes with `init`, the slots are
     those of the cell-free section `task_with init`, and the cell ends as Some init iff somebody touched it *)
  Theorem once_cell_benign n sched :
    slots (run_cell tasks init_of n sched) = run_par (task_with tasks init) n (finishes sched) /\
    cell (run_cell tasks init_of n sched) = (if existsb (touches tasks) sched then Some init else None) /\
    (forall c, cell (run_cell tasks init_of n sched) = Some c -> c = init).
  Proof.
    unfold run_cell, run_par.
    destruct (fold_step_spec sched {| slots := repeat None n; cell := None; init_by := None |}) as [Hs Hc];
      [left; reflexivity|].
    cbn [slots cell] in Hs, Hc. split; [exact Hs|]. split; [exact Hc|].
    intros c H. rewrite Hc in H. destruct (existsb (touches tasks) sched); congruence.
  Qed.

  Corollary once_cell_schedule_independent n sched :
    complete n (finishes sched) ->
    collect (slots (run_cell tasks init_of n sched)) = Some (map (task_with tasks init) (seq 0 n)).
  Proof.
    intros Hc. destruct (once_cell_benign n sched) as [Hs _]. rewrite Hs.
    apply par_map_schedule_independent. exact Hc.
  Qed.
End OnceCellProofs.

(* ================= partition by index ================= *)
Section PartitionProofs.
  Context {A E : Type}.

  Fixpoint failures_from (s : nat) (rs : list (A + E)) : list (nat * E) :=
    match rs with
    | [] => []
    | inl _ :: r => failures_from (S s) r
    | inr e :: r => (s, e) :: failures_from (S s) r
    end.

  Lemma failures_from_spec : forall (rs : list (A + E)) s,
    flat_map (fun ir : nat * (A + E) => match snd ir with inr e => [(fst ir, e)] | inl _ => [] end)
             (combine (seq s (length rs)) rs) = failures_from s rs.
  Proof.
    induction rs as [|x r IH]; intros s; cbn [length seq combine flat_map failures_from]; [reflexivity|].
    rewrite IH. destruct x; reflexivity.
  Qed.

  Lemma failures_eq (rs : list (A + E)) : failures rs = failures_from 0 rs.
  Proof. unfold failures, partition_results, indexed. cbn [snd]. apply failures_from_spec. Qed.

  Lemma failures_from_bounds : forall (rs : list (A + E)) s i e, In (i, e) (failures_from s rs) ->
    s <= i /\ nth_error rs (i - s) = Some (inr e).
  Proof.
    induction rs as [|x r IH]; intros s i e Hin; cbn [failures_from] in Hin; [destruct Hin|].
    destruct x as [a|e'].
    - apply IH in Hin. destruct Hin as [Hle Hn]. split; [lia|].
      replace (i - s) with (S (i - S s)) by lia. exact Hn.
    - destruct Hin as [Heq|Hin].
      + inversion Heq; subst. split; [lia|]. rewrite Nat.sub_diag. reflexivity.
      + apply IH in Hin. destruct Hin as [Hle Hn]. split; [lia|].
        replace (i - s) with (S (i - S s)) by lia. exact Hn.
  Qed.

  Lemma failures_from_sorted : forall (rs : list (A + E)) s, StronglySorted lt (map fst (failures_from s rs)).
  Proof.
    induction rs as [|x r IH]; intros s; cbn [failures_from map]; [constructor|].
    destruct x as [a|e]; [apply IH|]. cbn [map fst]. constructor; [apply IH|].
    apply Forall_forall. intros i Hi. apply in_map_iff in Hi. destruct Hi as ([i' e'] & Hf & Hin).
    cbn [fst] in Hf. subst i'. apply failures_from_bounds in Hin. lia.
  Qed.

  (* the failures are reported in ascending index order, each with the error of that very task ... *)
  Lemma failures_sorted (rs : list (A + E)) :
    StronglySorted lt (map fst (failures rs)) /\
    (forall i e, In (i, e) (failures rs) -> nth_error rs i = Some (inr e)).
  Proof.
    rewrite failures_eq. split; [apply failures_from_sorted|].
    intros i e Hin. apply failures_from_bounds in Hin. rewrite Nat.sub_0_r in Hin. apply Hin.
  Qed.

  (* ... and do not depend on the completion order *)
  Theorem first_error_by_index_deterministic (f : nat -> A + E) n sched :
    complete n sched ->
    option_map partition_results (collect (run_par f n sched)) = Some (partition_results (map f (seq 0 n))) /\
    option_map failures (collect (run_par f n sched)) = Some (failures (map f (seq 0 n))) /\
    StronglySorted lt (map fst (failures (map f (seq 0 n)))).
  Proof.
    intros Hc. rewrite (par_map_schedule_independent f n sched Hc). cbn [option_map].
    split; [reflexivity|]. split; [reflexivity|]. apply failures_sorted.
  Qed.
End PartitionProofs.

(* ================= collect::<Result<Vec<_>,_>>() ================= *)
Section TryCollectProofs.
  Context {R : Type}.
  Variable failed : R -> bool.

  Lemma chosen_error_spec (f : nat -> R) sched :
    match chosen_error failed f sched with
    | Some i => In i sched /\ failed (f i) = true
    | None => forall i, In i sched -> failed (f i) = false
    end.
  Proof.
    unfold chosen_error. destruct (find (fun i => failed (f i)) sched) as [i|] eqn:Hf.
    - apply find_some in Hf. exact Hf.
    - intros i Hin. exact (find_none _ _ Hf i Hin).
  Qed.

  Lemma existsb_failed_seq (f : nat -> R) n :
    existsb failed (map f (seq 0 n)) = true <-> exists i, i < n /\ failed (f i) = true.
  Proof.
    rewrite existsb_exists. split.
    - intros (x & Hin & Hx). apply in_map_iff in Hin. destruct Hin as (i & He & Hi).
      apply in_seq in Hi. exists i. subst x. split; [lia|exact Hx].
    - intros (i & Hi & Hx). exists (f i). split; [|exact Hx]. apply in_map. apply in_seq. lia.
  Qed.

  (* what the parent observes - all results by index, or the bare fact that some child failed - does not
     depend on the schedule, although WHICH error rayon hands back does *)
  Theorem try_collect_projection_deterministic (f : nat -> R) n sched :
    try_schedule failed f n sched ->
    option_map observe (try_collect failed f n sched) = Some (try_collect_seq failed f n).
  Proof.
    intros Hs. unfold try_collect, try_collect_seq.
    assert (Hch := chosen_error_spec f sched).
    destruct (chosen_error failed f sched) as [i|].
    - destruct Hch as [Hin Hf]. cbn [option_map observe].
      assert (Hi : i < n).
      { destruct Hs as [Hc|[Hb _]]; [|exact (Hb i Hin)].
        apply (Permutation_in i Hc) in Hin. apply in_seq in Hin. lia. }
      assert (He : existsb failed (map f (seq 0 n)) = true) by (apply existsb_failed_seq; eauto).
      rewrite He. reflexivity.
    - destruct Hs as [Hc|[_ (i & Hin & Hf)]].
      + rewrite (par_map_schedule_independent f n sched Hc). cbn [option_map observe].
        destruct (existsb failed (map f (seq 0 n))) eqn:He; [|reflexivity].
        apply existsb_failed_seq in He. destruct He as (i & Hi & Hf).
        assert (In i sched) as Hin by (apply (Permutation_in i (Permutation_sym Hc)); apply in_seq; lia).
        rewrite (Hch i Hin) in Hf. discriminate.
      + rewrite (Hch i Hin) in Hf. discriminate.
  Qed.

  Corollary try_collect_two_schedules (f : nat -> R) n s1 s2 :
    try_schedule failed f n s1 -> try_schedule failed f n s2 ->
    option_map observe (try_collect failed f n s1) = option_map observe (try_collect failed f n s2).
  Proof.
    intros H1 H2. rewrite !try_collect_projection_deterministic by assumption. reflexivity.
  Qed.
End TryCollectProofs.

(* ================= collect into a BTreeMap ================= *)
Section KeyedProofs.
  Context {V : Type}.

  Lemma kinsert_comm (k1 k2 : nat) (v1 v2 : V) : k1 <> k2 -> forall m,
    kinsert k1 v1 (kinsert k2 v2 m) = kinsert k2 v2 (kinsert k1 v1 m).
  Proof.
    intros Hne. induction m as [|[k' v'] r IH]; cbn [kinsert].
    - destruct (Nat.eqb_spec k1 k2); [contradiction|]. destruct (Nat.eqb_spec k2 k1); [congruence|].
      destruct (Nat.ltb_spec k1 k2), (Nat.ltb_spec k2 k1); try lia; reflexivity.
    - destruct (Nat.eqb_spec k1 k'), (Nat.eqb_spec k2 k'); try congruence;
      destruct (Nat.ltb_spec k1 k'), (Nat.ltb_spec k2 k'); try lia; cbn [kinsert];
      repeat match goal with
      | |- context [Nat.eqb ?a ?b] => destruct (Nat.eqb_spec a b); try lia; try congruence
      | |- context [Nat.ltb ?a ?b] => destruct (Nat.ltb_spec a b); try lia
      end; try reflexivity.
      rewrite IH. reflexivity.
  Qed.

  Lemma fold_kinsert_perm (g : nat -> V) (l1 l2 : list nat) : Permutation l1 l2 -> NoDup l1 -> forall m,
    fold_left (fun m k => kinsert k (g k) m) l1 m = fold_left (fun m k => kinsert k (g k) m) l2 m.
  Proof.
    induction 1 as [|x l l' _ IH|x y l|l l' l'' H1 IH1 H2 IH2]; intros Hnd m; cbn [fold_left].
    - reflexivity.
    - apply IH. inversion Hnd; assumption.
    - rewrite (kinsert_comm x y); [reflexivity|].
      inversion Hnd as [|? ? Hn _]; subst. intros He. apply Hn. left. exact He.
    - rewrite IH1 by exact Hnd. apply IH2. exact (Permutation_NoDup H1 Hnd).
  Qed.

  Lemma kinsert_last (g : nat -> V) (l : list nat) k :
    Forall (fun x => x < k) l ->
    kinsert k (g k) (map (fun x => (x, g x)) l) = map (fun x => (x, g x)) (l ++ [k]).
  Proof.
    induction 1 as [|x r Hx _ IH]; cbn [map app kinsert]; [reflexivity|].
    destruct (Nat.eqb_spec k x); [lia|]. destruct (Nat.ltb_spec k x); [lia|].
    rewrite IH. reflexivity.
  Qed.

  Lemma fold_kinsert_sorted (g : nat -> V) : forall (l done : list nat),
    StronglySorted lt (done ++ l) ->
    fold_left (fun m k => kinsert k (g k) m) l (map (fun x => (x, g x)) done) = map (fun x => (x, g x)) (done ++ l).
  Proof.
    induction l as [|k r IH]; intros done Hs; cbn [fold_left]; [rewrite app_nil_r; reflexivity|].
    rewrite kinsert_last.
    - rewrite IH; rewrite <- app_assoc; cbn [app]; [reflexivity|exact Hs].
    - apply Forall_forall. intros x Hx.
      clear IH. induction done as [|d ds IHd]; [destruct Hx|].
      cbn [app] in Hs. inversion Hs as [|? ? Hs' Hall]; subst.
      destruct Hx as [Hx|Hx].
      + subst x. rewrite Forall_forall in Hall. apply Hall. apply in_or_app. right. left. reflexivity.
      + apply IHd; assumption.
  Qed.

  (* the BTreeMap built from the results of a level is the level in ascending key order with each node's
     own result, whatever the order in which the results are inserted *)
  Theorem keyed_collect_schedule_independent (g : nat -> V) (level done : list nat) :
    StronglySorted lt level -> Permutation done level ->
    collect_keyed g done = map (fun ix => (ix, g ix)) level.
  Proof.
    intros Hs Hp. unfold collect_keyed.
    assert (Hnd : NoDup level).
    { clear Hp. induction Hs as [|a l _ IH Hall]; constructor; [|exact IH].
      intros Hin. rewrite Forall_forall in Hall. apply Hall in Hin. lia. }
    rewrite (fold_kinsert_perm g done level Hp (Permutation_NoDup (Permutation_sym Hp) Hnd)).
    exact (fold_kinsert_sorted g level [] Hs).
  Qed.
End KeyedProofs.

(* ================= small concrete facts used by the examples of Properties/C02.v ================= *)
Lemma example_permutation : Permutation [2; 3; 1; 0] (seq 0 4).
Proof.
  change (Permutation (2 :: [3; 1; 0]) ([0; 1] ++ 2 :: [3])). apply Permutation_cons_app.
  change (Permutation (3 :: [1; 0]) ([0; 1] ++ 3 :: [])). apply Permutation_cons_app.
  apply perm_swap.
Qed.

Lemma example_pool : interleave [[0; 2]; [1; 3]] [1; 0; 3; 2] /\ Permutation (concat [[0; 2]; [1; 3]]) (seq 0 4).
Proof.
  split.
  - apply (il_step [[0; 2]] 1 [3] []). apply (il_step [] 0 [2] [[3]]).
    apply (il_step [[2]] 3 [] []). apply (il_step [] 2 [] [[]]).
    apply il_done. repeat constructor.
  - change (Permutation (0 :: [2; 1; 3]) ([] ++ 0 :: [1; 2; 3])). apply Permutation_cons_app.
    change (Permutation (2 :: [1; 3]) ([1] ++ 2 :: [3])). apply Permutation_cons_app. apply Permutation_refl.
Qed.
