(* Lemmas about the mutation word codec: round trip (C18), totality (C06). *)
From EB Require Import Types.MutationCodec.
Open Scope list_scope.
Open Scope Z_scope.

Definition fits (m : mutation) : Prop := 2 + zlen (m_key m) + zlen (m_value m) <= i64_max.

Lemma zlen_app {A} (a b : list A) : zlen (a ++ b) = zlen a + zlen b.
Proof. unfold zlen. rewrite app_length. lia. Qed.
Lemma zlen_cons {A} (x : A) l : zlen (x :: l) = 1 + zlen l.
Proof. unfold zlen. simpl length. lia. Qed.
Lemma zlen_nonneg {A} (l : list A) : 0 <= zlen l.
Proof. unfold zlen. lia. Qed.
Lemma zlen_nil {A} : zlen (@nil A) = 0. Proof. reflexivity. Qed.

Lemma usize_max_ge : i64_max <= usize_max. Proof. unfold i64_max, usize_max, u64_max, two63, two64. lia. Qed.
Lemma sat_usize_small z : z <= i64_max -> sat_usize z = z.
Proof. intros H. unfold sat_usize. pose proof usize_max_ge. lia. Qed.

Lemma encode_mutation_size_eq m : encode_mutation_size m = zlen (encode_mutation m).
Proof.
  unfold encode_mutation_size, encode_mutation. rewrite zlen_cons, zlen_app, zlen_cons. lia.
Qed.

Lemma slice_ok site a b ws :
  0 <= a <= b -> b <= zlen ws -> slice site a b ws = Ok (firstn (Z.to_nat (b - a)) (skipn (Z.to_nat a) ws)).
Proof.
  intros H1 H2. unfold slice.
  destruct (Z.ltb_spec b a); [lia|]. destruct (Z.ltb_spec (zlen ws) b); [lia|]. reflexivity.
Qed.

Lemma index_ok site i ws w :
  0 <= i -> nth_error ws (Z.to_nat i) = Some w -> index site i ws = Ok w.
Proof.
  intros Hi H. unfold index.
  assert (Z.to_nat i < length ws)%nat as L by (apply nth_error_Some; congruence).
  destruct (Z.ltb_spec i 0); [lia|]. destruct (Z.leb_spec (zlen ws) i); [unfold zlen in *; lia|].
  cbn [orb]. rewrite H. reflexivity.
Qed.

Lemma nth_error_app_exact {A} (l r : list A) x n : length l = n -> nth_error (l ++ x :: r) n = Some x.
Proof. intros <-. rewrite nth_error_app2 by lia. rewrite Nat.sub_diag. reflexivity. Qed.

(* decoding the encoding of one mutation, followed by anything *)
Lemma decode_mutation_encode m rest :
  fits m -> decode_mutation (encode_mutation m ++ rest) = Ok m.
Proof.
  intros F. unfold fits in F. destruct m as [key value]. cbn [m_key m_value] in *.
  pose proof (zlen_nonneg key) as Hk. pose proof (zlen_nonneg value) as Hv. pose proof (zlen_nonneg rest) as Hr.
  unfold decode_mutation, encode_mutation. cbn [m_key m_value].
  set (ws := (zlen key :: key ++ zlen value :: value) ++ rest).
  assert (Hlen : zlen ws = 2 + zlen key + zlen value + zlen rest).
  { unfold ws. rewrite zlen_app, zlen_cons, zlen_app, zlen_cons. lia. }
  destruct (Z.ltb_spec (zlen ws) 2) as [H|_]; [lia|].
  rewrite (index_ok _ 0 ws (zlen key)) by (try lia; reflexivity). cbn [bind].
  destruct (Z.ltb_spec (zlen key) 0) as [H|_]; [lia|].
  rewrite (sat_usize_small (1 + zlen key)) by lia.
  destruct (Z.leb_spec (zlen ws) (1 + zlen key)) as [H|_]; [lia|].
  rewrite slice_ok by lia. cbn [bind].
  assert (Hws : ws = zlen key :: (key ++ (zlen value :: value ++ rest))).
  { unfold ws. cbn [app]. rewrite <- app_assoc. reflexivity. }
  assert (Hidx : nth_error ws (Z.to_nat (1 + zlen key)) = Some (zlen value)).
  { rewrite Hws. replace (Z.to_nat (1 + zlen key)) with (S (length key)) by (unfold zlen; lia).
    cbn [nth_error]. apply nth_error_app_exact. reflexivity. }
  rewrite (index_ok _ _ ws (zlen value)) by (try lia; exact Hidx). cbn [bind].
  destruct (Z.ltb_spec (zlen value) 0) as [H|_]; [lia|].
  rewrite (sat_usize_small (2 + zlen key)) by lia.
  rewrite (sat_usize_small (2 + zlen key + zlen value)) by lia.
  destruct (Z.ltb_spec (zlen ws) (2 + zlen key + zlen value)) as [H|_]; [lia|].
  rewrite slice_ok by lia. cbn [bind]. f_equal. f_equal.
  - replace (Z.to_nat (1 + zlen key - 1)) with (length key) by (unfold zlen; lia).
    replace (Z.to_nat 1) with 1%nat by reflexivity.
    rewrite Hws. cbn [skipn]. apply firstn_app_exact. reflexivity.
  - replace (Z.to_nat (2 + zlen key + zlen value - (2 + zlen key))) with (length value) by (unfold zlen; lia).
    replace (Z.to_nat (2 + zlen key)) with (S (length key + 1)) by (unfold zlen; lia).
    rewrite Hws. cbn [skipn].
    replace (key ++ zlen value :: value ++ rest) with ((key ++ [zlen value]) ++ value ++ rest)
      by (rewrite <- app_assoc; reflexivity).
    rewrite (skipn_app_exact (key ++ [zlen value]) (value ++ rest)) by (rewrite app_length; simpl; lia).
    apply firstn_app_exact. reflexivity.
Qed.

Lemma decode_loop_encode ms : Forall fits ms -> forall fuel acc,
  (length (flat_map encode_mutation ms) <= fuel)%nat ->
  decode_loop fuel (flat_map encode_mutation ms) acc = Ok (rev acc ++ ms).
Proof.
  induction ms as [|m ms IH]; intros F fuel acc L.
  - cbn [flat_map]. destruct fuel; cbn [decode_loop]; rewrite app_nil_r; reflexivity.
  - inversion F as [|? ? Fm Fms]; subst.
    cbn [flat_map] in *.
    assert (E : exists x l, encode_mutation m ++ flat_map encode_mutation ms = x :: l).
    { unfold encode_mutation. cbn [app]. eauto. }
    destruct E as [x [l E]].
    destruct fuel as [|f].
    { rewrite app_length in L. unfold encode_mutation in L. simpl in L. lia. }
    cbn [decode_loop]. rewrite E. rewrite <- E.
    rewrite decode_mutation_encode by assumption. cbn [bind].
    rewrite encode_mutation_size_eq.
    replace (Z.to_nat (zlen (encode_mutation m))) with (length (encode_mutation m)) by (unfold zlen; lia).
    rewrite (skipn_app_exact (encode_mutation m) (flat_map encode_mutation ms)) by reflexivity.
    rewrite IH; try assumption.
    + cbn [rev]. rewrite <- app_assoc. reflexivity.
    + rewrite app_length in L. unfold encode_mutation in L at 1. simpl in L. lia.
Qed.

Lemma decode_encode_mutations ms :
  Forall fits ms -> decode_mutations (encode_mutations ms) = Ok ms.
Proof.
  intros F. unfold decode_mutations, encode_mutations.
  pose proof (zlen_nonneg ms) as Hn.
  destruct (Z.ltb_spec (zlen ms) 0); [lia|].
  destruct (Z.eqb_spec (zlen ms) 0) as [E|E].
  - destruct ms; [reflexivity|]. rewrite zlen_cons in E. pose proof (zlen_nonneg ms). lia.
  - rewrite decode_loop_encode by (try assumption; lia). reflexivity.
Qed.

Lemma encode_mutations_injective a b :
  Forall fits a -> Forall fits b -> encode_mutations a = encode_mutations b -> a = b.
Proof.
  intros Fa Fb E. pose proof (decode_encode_mutations a Fa) as Da.
  rewrite E, (decode_encode_mutations b Fb) in Da. congruence.
Qed.

(* ---------- totality ---------- *)
Lemma ok_inj {E A} (a b : A) : (Ok a : outcome E A) = Ok b -> a = b.
Proof. intros H. inversion H. reflexivity. Qed.

Lemma slice_no_panic site a b ws : 0 <= a <= b -> b <= zlen ws -> exists l, slice site a b ws = Ok l.
Proof. intros. rewrite slice_ok by assumption. eauto. Qed.

Lemma index_no_panic site i ws : 0 <= i < zlen ws -> exists w, index site i ws = Ok w.
Proof.
  intros H. unfold index.
  destruct (Z.ltb_spec i 0); [lia|]. destruct (Z.leb_spec (zlen ws) i); [lia|]. cbn [orb].
  destruct (nth_error ws (Z.to_nat i)) eqn:E; [eauto|].
  apply nth_error_None in E. unfold zlen in H. lia.
Qed.

Lemma sat_usize_bounds z : 0 <= z -> 0 <= sat_usize z <= z.
Proof. unfold sat_usize, usize_max, u64_max, two64. lia. Qed.

(* decode_mutation never panics and uses no fuel *)
Lemma decode_mutation_total ws :
  (forall s, decode_mutation ws <> Panic s) /\ decode_mutation ws <> OutOfFuel.
Proof.
  unfold decode_mutation.
  destruct (Z.ltb_spec (zlen ws) 2) as [H2|H2]; [split; [intros; discriminate|discriminate]|].
  destruct (index_no_panic "decode_mutation: bytes[0]" 0 ws ltac:(lia)) as [k Ek]. rewrite Ek. cbn [bind].
  destruct (Z.ltb_spec k 0) as [Hk|Hk]; [split; [intros; discriminate|discriminate]|].
  pose proof (sat_usize_bounds (1 + k) ltac:(lia)) as B1.
  assert (1 <= sat_usize (1 + k)) as B1' by (unfold sat_usize, usize_max, u64_max, two64; lia).
  destruct (Z.leb_spec (zlen ws) (sat_usize (1 + k))) as [H3|H3]; [split; [intros; discriminate|discriminate]|].
  destruct (slice_no_panic "decode_mutation: bytes[1..key_end]" 1 (sat_usize (1 + k)) ws ltac:(lia) ltac:(lia)) as [key Ekey].
  rewrite Ekey. cbn [bind].
  destruct (index_no_panic "decode_mutation: bytes[key_end]" (sat_usize (1 + k)) ws ltac:(lia)) as [vl Evl]. rewrite Evl. cbn [bind].
  destruct (Z.ltb_spec vl 0) as [Hv|Hv]; [split; [intros; discriminate|discriminate]|].
  pose proof (sat_usize_bounds (2 + k) ltac:(lia)) as B2.
  pose proof (sat_usize_bounds (sat_usize (2 + k) + vl) ltac:(lia)) as B3.
  assert (sat_usize (2 + k) <= sat_usize (sat_usize (2 + k) + vl)) as B4
    by (unfold sat_usize, usize_max, u64_max, two64 in *; lia).
  destruct (Z.ltb_spec (zlen ws) (sat_usize (sat_usize (2 + k) + vl))) as [H4|H4]; [split; [intros; discriminate|discriminate]|].
  destruct (slice_no_panic "decode_mutation: bytes[value_start..value_end]" (sat_usize (2 + k)) (sat_usize (sat_usize (2 + k) + vl)) ws
              ltac:(lia) ltac:(lia)) as [value Evalue].
  rewrite Evalue. cbn [bind]. split; [intros; discriminate|discriminate].
Qed.

Lemma encode_mutation_size_ge2 m : 2 <= encode_mutation_size m.
Proof. unfold encode_mutation_size. pose proof (zlen_nonneg (m_key m)). pose proof (zlen_nonneg (m_value m)). lia. Qed.

Lemma decode_loop_total fuel : forall ws acc, (length ws <= fuel)%nat ->
  (forall s, decode_loop fuel ws acc <> Panic s) /\ decode_loop fuel ws acc <> OutOfFuel.
Proof.
  induction fuel as [|f IH]; intros ws acc L.
  - destruct ws; [split; [intros; discriminate|discriminate]|simpl in L; lia].
  - destruct ws as [|w ws']; [split; [intros; discriminate|discriminate]|].
    cbn [decode_loop].
    destruct (decode_mutation_total (w :: ws')) as [NP NF].
    destruct (decode_mutation (w :: ws')) as [m| | |] eqn:E; cbn [bind].
    + pose proof (encode_mutation_size_ge2 m) as SZ.
      apply IH. rewrite skipn_length. simpl length in *. lia.
    + split; [intros; discriminate|discriminate].
    + exfalso. eapply NP. reflexivity.
    + exfalso. apply NF. reflexivity.
Qed.

Lemma decode_mutations_total ws :
  (forall s, decode_mutations ws <> Panic s) /\ decode_mutations ws <> OutOfFuel.
Proof.
  unfold decode_mutations. destruct ws as [|n rest]; [split; [intros; discriminate|discriminate]|].
  destruct (n <? 0); [split; [intros; discriminate|discriminate]|].
  destruct (n =? 0); [split; [intros; discriminate|discriminate]|].
  apply decode_loop_total. lia.
Qed.
