(* C03 / C01: deferral (find_deferred) is reachability in the predicate graph; the two passes partition the nodes;
   should_cache characterisation. *)
From Coq Require Import ZArith List Lia Bool Arith Permutation Relations.
From EB Require Import Check.Graph Spec.GraphRef Spec.TwoPassSpec.
Import ListNotations.
Open Scope list_scope.
Open Scope nat_scope.

(* ------------------------------------------------------------------ *)
(* Declarative notions *)

Lemma children_some_lt p u cs : children p u = Some cs -> u < length (p_nodes p).
Proof.
  unfold children, node_edges. intros H.
  destruct (nth_error (p_nodes p) u) eqn:E.
  - apply nth_error_Some. congruence.
  - discriminate.
Qed.

Lemma edge_iff p u v : edge p u v <-> exists cs, children p u = Some cs /\ In v cs.
Proof.
  unfold edge. split.
  - intros [_ H]. exact H.
  - intros [cs [H1 H2]]. split. { eapply children_some_lt; eauto. } eauto.
Qed.

(* ------------------------------------------------------------------ *)
(* memb / add_all / spread *)
Lemma memb_In x l : memb x l = true <-> In x l.
Proof.
  unfold memb. rewrite existsb_exists. split.
  - intros [y [Hy He]]. apply Nat.eqb_eq in He. subst. exact Hy.
  - intros H. exists x. split. exact H. apply Nat.eqb_refl.
Qed.
Lemma memb_false x l : memb x l = false <-> ~ In x l.
Proof. rewrite <- memb_In. destruct (memb x l); split; intros; congruence. Qed.

Lemma add_all_In xs : forall s v, In v (add_all xs s) <-> In v s \/ In v xs.
Proof.
  unfold add_all. induction xs as [|x xs IH]; intros s v; cbn [fold_left].
  - cbn. tauto.
  - rewrite IH. destruct (memb x s) eqn:Em.
    + apply memb_In in Em. cbn [In]. split.
      * intros [H|H]; auto.
      * intros [H|[H|H]]; auto. subst. auto.
    + rewrite in_app_iff. cbn [In]. tauto.
Qed.

Lemma add_all_NoDup xs : forall s, NoDup s -> NoDup (add_all xs s).
Proof.
  unfold add_all. induction xs as [|x xs IH]; intros s Hs; cbn [fold_left].
  - exact Hs.
  - apply IH. destruct (memb x s) eqn:Em.
    + exact Hs.
    + apply memb_false in Em.
      apply NoDup_rev in Hs. rewrite <- (rev_involutive (s ++ [x])). apply NoDup_rev.
      rewrite rev_app_distr. cbn. constructor.
      * rewrite <- in_rev. exact Em.
      * exact Hs.
Qed.

Definition spread_step (p : predicate) (acc : list nat) (u : nat) : list nat :=
  match children p u with Some cs => add_all cs acc | None => acc end.

Lemma spread_fold_In p l : forall acc v,
  In v (fold_left (spread_step p) l acc) <-> In v acc \/ exists u, In u l /\ edge p u v.
Proof.
  induction l as [|a l IH]; intros acc v; cbn [fold_left].
  - split. { auto. } intros [H|[u [[] _]]]. exact H.
  - rewrite IH. unfold spread_step. split.
    + intros [H|[u [Hu He]]].
      * destruct (children p a) as [cs|] eqn:Ec.
        -- apply add_all_In in H. destruct H as [H|H]. { auto. }
           right. exists a. split. { left; reflexivity. } apply edge_iff. eauto.
        -- auto.
      * right. exists u. split. { right; exact Hu. } exact He.
    + intros [H|[u [[Hu|Hu] He]]].
      * left. destruct (children p a). { apply add_all_In. auto. } exact H.
      * subst u. apply edge_iff in He. destruct He as [cs [Hc Hv]]. left. rewrite Hc. apply add_all_In. auto.
      * right. eauto.
Qed.

Lemma spread_fold_NoDup p l : forall acc, NoDup acc -> NoDup (fold_left (spread_step p) l acc).
Proof.
  induction l as [|a l IH]; intros acc H; cbn [fold_left].
  - exact H.
  - apply IH. unfold spread_step. destruct (children p a). { apply add_all_NoDup. exact H. } exact H.
Qed.

Lemma spread_eq p s : spread p s = fold_left (spread_step p) s s.
Proof. reflexivity. Qed.

Lemma spread_In p s v : In v (spread p s) <-> In v s \/ exists u, In u s /\ edge p u v.
Proof. rewrite spread_eq. apply spread_fold_In. Qed.
Lemma spread_NoDup p s : NoDup s -> NoDup (spread p s).
Proof. rewrite spread_eq. apply spread_fold_NoDup. Qed.

Lemma iter_spread_NoDup p k : forall s, NoDup s -> NoDup (iter_spread k p s).
Proof.
  induction k as [|k IH]; intros s H; cbn [iter_spread].
  - exact H.
  - apply IH. apply spread_NoDup. exact H.
Qed.

(* ------------------------------------------------------------------ *)
(* walks: l is the list of the SOURCES of the successive edges, v the end point; the start is hd v l *)
Fixpoint walk (p : predicate) (l : list nat) (v : nat) : Prop :=
  match l with
  | [] => True
  | u :: r => edge p u (hd v r) /\ walk p r v
  end.

Lemma walk_reach p l v : walk p l v -> reach p (hd v l) v.
Proof.
  induction l as [|u r IH]; cbn [walk hd]; intros H.
  - apply rt_refl.
  - destruct H as [He Hw]. eapply rt_trans. { apply rt_step. exact He. } apply IH. exact Hw.
Qed.

Lemma walk_suffix p l1 : forall l2 v, walk p (l1 ++ l2) v -> walk p l2 v.
Proof.
  induction l1 as [|a l1 IH]; intros l2 v H.
  - exact H.
  - cbn in H. destruct H as [_ H]. apply IH. exact H.
Qed.

Lemma walk_sources_lt p l v : walk p l v -> forall u, In u l -> u < length (p_nodes p).
Proof.
  induction l as [|a r IH]; cbn [walk In]; intros H u Hu.
  - contradiction.
  - destruct H as [He Hw]. destruct Hu as [Hu|Hu].
    + subst. apply He.
    + apply IH; assumption.
Qed.

Lemma NoDup_app_r {A} (l1 l2 : list A) : NoDup (l1 ++ l2) -> NoDup l2.
Proof.
  induction l1 as [|a l1 IH]; intros H.
  - exact H.
  - cbn in H. inversion H; subst. apply IH. assumption.
Qed.

(* every reachable pair is joined by a simple walk *)
Lemma reach_simple_walk p u v : reach p u v -> exists l, hd v l = u /\ walk p l v /\ NoDup l.
Proof.
  intros H. apply clos_rt_rt1n in H. induction H as [x | x y z Hxy Hyz IH].
  - exists []. cbn. repeat split. constructor.
  - destruct IH as [l [Hh [Hw Hn]]].
    destruct (in_dec Nat.eq_dec x l) as [Hin|Hnin].
    + apply in_split in Hin. destruct Hin as [l1 [l2 Hl]]. subst l.
      exists (x :: l2). split. { reflexivity. } split.
      * apply (walk_suffix p l1). exact Hw.
      * apply NoDup_app_r in Hn. exact Hn.
    + exists (x :: l). split. { reflexivity. } split.
      * cbn [walk]. split. { rewrite Hh. exact Hxy. } exact Hw.
      * constructor; assumption.
Qed.

Lemma simple_walk_short p l v : walk p l v -> NoDup l -> length l <= length (p_nodes p).
Proof.
  intros Hw Hn.
  rewrite <- (seq_length (length (p_nodes p)) 0).
  apply NoDup_incl_length. { exact Hn. }
  intros u Hu. apply in_seq. pose proof (walk_sources_lt p l v Hw u Hu). lia.
Qed.

Lemma reach_short_walk p u v :
  reach p u v <-> exists l, length l <= length (p_nodes p) /\ hd v l = u /\ walk p l v.
Proof.
  split.
  - intros H. destruct (reach_simple_walk p u v H) as [l [Hh [Hw Hn]]].
    exists l. split. { eapply simple_walk_short; eauto. } auto.
  - intros [l [_ [Hh Hw]]]. subst u. apply walk_reach. exact Hw.
Qed.

Lemma iter_spread_In p k : forall s v,
  In v (iter_spread k p s) <-> exists l, length l <= k /\ In (hd v l) s /\ walk p l v.
Proof.
  induction k as [|k IH]; intros s v; cbn [iter_spread].
  - split.
    + intros H. exists []. cbn. auto.
    + intros [l [Hl [Hh _]]]. destruct l; [exact Hh | cbn in Hl; lia].
  - rewrite IH. split.
    + intros [l [Hl [Hh Hw]]]. apply spread_In in Hh. destruct Hh as [Hh|[u [Hu He]]].
      * exists l. split. { lia. } auto.
      * exists (u :: l). split. { cbn; lia. } split. { exact Hu. } cbn [walk]. auto.
    + intros [l [Hl [Hh Hw]]]. destruct l as [|u r].
      * exists []. split. { cbn; lia. } split. { apply spread_In. left. exact Hh. } exact I.
      * cbn [walk] in Hw. destruct Hw as [He Hw]. cbn [hd] in Hh.
        exists r. split. { cbn in Hl; lia. } split.
        -- apply spread_In. right. exists u. auto.
        -- exact Hw.
Qed.

(* ------------------------------------------------------------------ *)
(* MUST 1 *)
Theorem find_deferred_spec p seed v :
  In v (find_deferred p seed) <->
  exists u, u < length (p_nodes p) /\ seed u = true /\ reach p u v.
Proof.
  unfold find_deferred. rewrite iter_spread_In. split.
  - intros [l [_ [Hh Hw]]]. apply filter_In in Hh. destruct Hh as [Hs Hseed].
    apply in_seq in Hs. exists (hd v l). split. { lia. } split. { exact Hseed. }
    apply walk_reach. exact Hw.
  - intros [u [Hu [Hseed Hr]]]. apply reach_short_walk in Hr.
    destruct Hr as [l [Hl [Hh Hw]]]. exists l. split. { exact Hl. } split.
    + rewrite Hh. apply filter_In. split. { apply in_seq. lia. } exact Hseed.
    + exact Hw.
Qed.

Theorem find_deferred_NoDup p seed : NoDup (find_deferred p seed).
Proof.
  unfold find_deferred. apply iter_spread_NoDup. apply NoDup_filter. apply seq_NoDup.
Qed.

(* "every program that performs a post-state read, and every program depending on one".
   (Closedness is not needed for this equivalence; it is needed for [find_deferred_closed_lt].) *)
Theorem find_deferred_step p seed v :
  v < length (p_nodes p) ->
  (In v (find_deferred p seed) <->
   seed v = true \/ exists par, edge p par v /\ In par (find_deferred p seed)).
Proof.
  intros Hv. split.
  - intros H. apply find_deferred_spec in H. destruct H as [u [Hu [Hs Hr]]].
    apply clos_rt_rtn1 in Hr. destruct Hr as [|y z Hyz Huy].
    + left. exact Hs.
    + right. exists y. split. { exact Hyz. } apply find_deferred_spec. exists u.
      split. { exact Hu. } split. { exact Hs. } apply clos_rtn1_rt. exact Huy.
  - intros [Hs|[par [He Hp]]]; apply find_deferred_spec.
    + exists v. split. { exact Hv. } split. { exact Hs. } apply rt_refl.
    + apply find_deferred_spec in Hp. destruct Hp as [u [Hu [Hs Hr]]].
      exists u. split. { exact Hu. } split. { exact Hs. }
      eapply rt_trans. { exact Hr. } apply rt_step. exact He.
Qed.

Corollary find_deferred_closed p seed v :
  closed_graph p -> v < length (p_nodes p) ->
  (In v (find_deferred p seed) <->
   seed v = true \/ exists par, edge p par v /\ In par (find_deferred p seed)).
Proof. intros _. apply find_deferred_step. Qed.

Lemma reach_closed_lt p u v : closed_graph p -> reach p u v -> u < length (p_nodes p) -> v < length (p_nodes p).
Proof.
  intros Hc Hr. apply clos_rt_rt1n in Hr. induction Hr as [x|x y z Hxy Hyz IH]; intros Hx.
  - exact Hx.
  - apply IH. eapply Hc. exact Hxy.
Qed.

Theorem find_deferred_closed_lt p seed v :
  closed_graph p -> In v (find_deferred p seed) -> v < length (p_nodes p).
Proof.
  intros Hc H. apply find_deferred_spec in H. destruct H as [u [Hu [_ Hr]]].
  eapply reach_closed_lt; eauto.
Qed.

(* ------------------------------------------------------------------ *)
(* EXTRA: relation to the reference [deferred_ref] of Spec/GraphRef.v (no validity/acyclicity needed) *)
Lemma parents_ref_edge p u v : In u (parents_ref p v) <-> edge p u v.
Proof.
  unfold parents_ref. rewrite in_flat_map. split.
  - intros [x [Hx Hr]]. apply repeat_spec in Hr as Hux.
    assert (Hc : count_occ Nat.eq_dec (kids p x) v > 0).
    { destruct (count_occ Nat.eq_dec (kids p x) v). { cbn in Hr. contradiction. } lia. }
    apply count_occ_In in Hc. subst u. unfold kids in Hc.
    destruct (children p x) as [cs|] eqn:Ec. { apply edge_iff. eauto. } contradiction.
  - intros He. pose proof He as [Hlt [cs [Hc Hv]]]. exists u. split.
    + apply in_seq. unfold n_nodes. lia.
    + unfold kids. rewrite Hc. apply (count_occ_In Nat.eq_dec) in Hv.
      destruct (count_occ Nat.eq_dec cs v). { lia. } cbn. auto.
Qed.

Lemma hd_snoc (l : list nat) u v : hd v (l ++ [u]) = hd u l.
Proof. destruct l; reflexivity. Qed.

Lemma walk_snoc p l : forall u v, walk p (l ++ [u]) v <-> walk p l u /\ edge p u v.
Proof.
  induction l as [|a r IH]; intros u v.
  - cbn. tauto.
  - cbn [app walk]. rewrite IH, hd_snoc. tauto.
Qed.

Lemma deferred_ref_walk p reader fuel : forall v,
  deferred_ref p reader fuel v = true <->
  exists l, length l <= fuel /\ reader (hd v l) = true /\ walk p l v.
Proof.
  induction fuel as [|f IH]; intros v; cbn [deferred_ref].
  - split.
    + intros H. exists []. cbn. auto.
    + intros [l [Hl [Hr _]]]. destruct l; [exact Hr | cbn in Hl; lia].
  - rewrite orb_true_iff, existsb_exists. split.
    + intros [H|[u [Hu Hd]]].
      * exists []. cbn. split. { lia. } auto.
      * apply IH in Hd. destruct Hd as [l [Hl [Hr Hw]]]. apply parents_ref_edge in Hu.
        exists (l ++ [u]). rewrite app_length, hd_snoc, walk_snoc. cbn [length].
        split. { lia. } auto.
    + intros [l [Hl [Hr Hw]]].
      destruct l as [|a r] using rev_ind.
      * left. exact Hr.
      * clear IHr. right. rewrite hd_snoc in Hr. apply walk_snoc in Hw. destruct Hw as [Hw He].
        exists a. split. { apply parents_ref_edge. exact He. }
        apply IH. exists r. rewrite app_length in Hl. cbn [length] in Hl. split. { lia. } auto.
Qed.

Theorem deferred_ref_reach p reader v :
  deferred_ref p reader (length (p_nodes p)) v = true <-> exists u, reader u = true /\ reach p u v.
Proof.
  rewrite deferred_ref_walk. split.
  - intros [l [_ [Hr Hw]]]. exists (hd v l). split. { exact Hr. } apply walk_reach. exact Hw.
  - intros [u [Hr Hreach]]. apply reach_short_walk in Hreach. destruct Hreach as [l [Hl [Hh Hw]]].
    exists l. subst u. auto.
Qed.

Lemma reach_from_outside p u v : reach p u v -> length (p_nodes p) <= u -> u = v.
Proof.
  intros Hr Hu. apply clos_rt_rt1n in Hr. destruct Hr as [|y z Hxy _].
  - reflexivity.
  - destruct Hxy as [Hlt _]. lia.
Qed.

(* the implementation's deferred set is exactly the reference's, on the nodes of the graph *)
Theorem find_deferred_matches_ref p reader v :
  v < length (p_nodes p) ->
  (In v (find_deferred p reader) <-> deferred_ref p reader (length (p_nodes p)) v = true).
Proof.
  intros Hv. rewrite find_deferred_spec, deferred_ref_reach. split.
  - intros [u [_ [Hs Hr]]]. eauto.
  - intros [u [Hs Hr]]. exists u. split.
    + destruct (Nat.lt_ge_cases u (length (p_nodes p))) as [Hlt|Hge]. { exact Hlt. }
      apply reach_from_outside in Hr. { subst; exact Hv. } exact Hge.
    + auto.
Qed.

(* ------------------------------------------------------------------ *)
(* MUST 2: the two passes partition the levels *)

(* structure: every level is filtered, empty results are dropped, nothing is reordered *)
Lemma remove_deferred_eq levels d :
  remove_deferred levels d = filter (fun l => negb (is_nil l)) (map (filter (keep_first d)) levels).
Proof. reflexivity. Qed.
Lemma remove_not_deferred_eq levels d :
  remove_not_deferred levels d = filter (fun l => negb (is_nil l)) (map (filter (keep_second d)) levels).
Proof. reflexivity. Qed.

Lemma concat_filter_nonnil {A} (ls : list (list A)) :
  concat (filter (fun l => negb (is_nil l)) ls) = concat ls.
Proof.
  induction ls as [|l ls IH]; cbn [filter concat].
  - reflexivity.
  - destruct l as [|x l]; cbn [is_nil negb concat]; rewrite IH; reflexivity.
Qed.

Lemma concat_map_filter {A} (f : A -> bool) (ls : list (list A)) :
  concat (map (filter f) ls) = filter f (concat ls).
Proof.
  induction ls as [|l ls IH]; cbn [map concat].
  - reflexivity.
  - rewrite IH. induction l as [|x l IHl]; cbn [filter app].
    + reflexivity.
    + destruct (f x); cbn [app]; rewrite IHl; reflexivity.
Qed.

(* the flattened first pass is the flattened level list with the deferred nodes deleted (order preserved) *)
Theorem remove_deferred_concat levels d :
  concat (remove_deferred levels d) = filter (keep_first d) (concat levels).
Proof. rewrite remove_deferred_eq, concat_filter_nonnil, concat_map_filter. reflexivity. Qed.
Theorem remove_not_deferred_concat levels d :
  concat (remove_not_deferred levels d) = filter (keep_second d) (concat levels).
Proof. rewrite remove_not_deferred_eq, concat_filter_nonnil, concat_map_filter. reflexivity. Qed.

Lemma filter_neg_pos_perm {A} (f : A -> bool) (l : list A) :
  Permutation (filter (fun x => negb (f x)) l ++ filter f l) l.
Proof.
  induction l as [|x l IH]; cbn [filter app].
  - constructor.
  - destruct (f x); cbn [negb app].
    + apply Permutation_sym. apply Permutation_cons_app. apply Permutation_sym. exact IH.
    + constructor. exact IH.
Qed.

Theorem passes_partition levels d :
  Permutation (concat (remove_deferred levels d) ++ concat (remove_not_deferred levels d)) (concat levels).
Proof.
  rewrite remove_deferred_concat, remove_not_deferred_concat.
  apply (filter_neg_pos_perm (fun x => memb x d)).
Qed.

Theorem remove_deferred_members levels d x :
  In x (concat (remove_deferred levels d)) <-> In x (concat levels) /\ ~ In x d.
Proof.
  rewrite remove_deferred_concat, filter_In. unfold keep_first.
  rewrite negb_true_iff, memb_false. tauto.
Qed.
Theorem remove_not_deferred_members levels d x :
  In x (concat (remove_not_deferred levels d)) <-> In x (concat levels) /\ In x d.
Proof.
  rewrite remove_not_deferred_concat, filter_In. unfold keep_second. rewrite memb_In. tauto.
Qed.

Lemma filter_nonnil_Forall {A} (ls : list (list A)) :
  Forall (fun l => l <> []) (filter (fun l => negb (is_nil l)) ls).
Proof.
  apply Forall_forall. intros l Hl. apply filter_In in Hl. destruct Hl as [_ Hl].
  destruct l; [discriminate | congruence].
Qed.
Theorem remove_deferred_nonempty levels d : Forall (fun l => l <> []) (remove_deferred levels d).
Proof. rewrite remove_deferred_eq. apply filter_nonnil_Forall. Qed.
Theorem remove_not_deferred_nonempty levels d : Forall (fun l => l <> []) (remove_not_deferred levels d).
Proof. rewrite remove_not_deferred_eq. apply filter_nonnil_Forall. Qed.

(* every level of a pass is a filtered original level *)
Theorem remove_deferred_levels levels d :
  Forall (fun l' => exists l, In l levels /\ l' = filter (keep_first d) l) (remove_deferred levels d).
Proof.
  apply Forall_forall. intros l' H. rewrite remove_deferred_eq in H. apply filter_In in H.
  destruct H as [H _]. apply in_map_iff in H. destruct H as [l [He Hl]]. eauto.
Qed.
Theorem remove_not_deferred_levels levels d :
  Forall (fun l' => exists l, In l levels /\ l' = filter (keep_second d) l) (remove_not_deferred levels d).
Proof.
  apply Forall_forall. intros l' H. rewrite remove_not_deferred_eq in H. apply filter_In in H.
  destruct H as [H _]. apply in_map_iff in H. destruct H as [l [He Hl]]. eauto.
Qed.

(* a node with no duplicate in the levels is run in exactly one of the passes, exactly once *)
Theorem passes_count levels d x :
  count_occ Nat.eq_dec (concat (remove_deferred levels d)) x
  + count_occ Nat.eq_dec (concat (remove_not_deferred levels d)) x
  = count_occ Nat.eq_dec (concat levels) x.
Proof.
  rewrite <- count_occ_app. apply Permutation_count_occ. apply passes_partition.
Qed.

(* should_cache *)
Theorem should_cache_spec p d v :
  should_cache p d v = true <->
  ~ In v d /\ exists c, (exists cs, children p v = Some cs /\ In c cs) /\ In c d.
Proof.
  unfold should_cache. rewrite andb_true_iff, negb_true_iff, memb_false. split.
  - intros [Hn H]. split. { exact Hn. }
    destruct (children p v) as [cs|] eqn:Ec. 2: discriminate.
    apply existsb_exists in H. destruct H as [c [Hc Hm]]. apply memb_In in Hm.
    exists c. split. { exists cs. auto. } exact Hm.
  - intros [Hn [c [[cs [Hc Hin]] Hd]]]. split. { exact Hn. }
    rewrite Hc. apply existsb_exists. exists c. split. { exact Hin. } apply memb_In. exact Hd.
Qed.

Corollary should_cache_edge p d v :
  should_cache p d v = true <-> ~ In v d /\ exists c, edge p v c /\ In c d.
Proof.
  rewrite should_cache_spec. split; intros [Hn [c [H Hd]]]; split; try exact Hn; exists c; split; try exact Hd.
  - apply edge_iff. exact H.
  - apply edge_iff in H. exact H.
Qed.

(* ------------------------------------------------------------------ *)
(* Which nodes a pass of check_predicate_inner evaluates (the recorded run events) *)
Section InnerEvents.
  Variable run : nat -> bool -> list sm -> outcome unit prog_res.
  Variable p : predicate.
  Variable collect_all : bool.

  Lemma run_level_nodes pm st : forall level rs,
    run_level run p pm st level = Ok rs -> map (fun r => fst (fst r)) rs = level.
  Proof.
    induction level as [|ix rest IH]; intros rs H; cbn [run_level] in H.
    - injection H as <-. reflexivity.
    - destruct (run ix (is_leaf p ix) (inputs_of pm st ix)) as [r| | |]; cbn [bind] in H; try discriminate.
      destruct (run_level run p pm st rest) as [rs'| | |]; cbn [bind] in H; try discriminate.
      injection H as <-. cbn [map fst]. f_equal. apply IH. reflexivity.
  Qed.

  Lemma absorb_events d : forall rs st, is_events (fst (absorb p collect_all d st rs)) = is_events st.
  Proof.
    induction rs as [|[[node r] ins] rs IH]; intros st; cbn [absorb].
    - reflexivity.
    - destruct r as [[s m|o] g|].
      + rewrite IH. destruct (should_cache p d node); reflexivity.
      + rewrite IH. reflexivity.
      + destruct collect_all. { rewrite IH. reflexivity. } reflexivity.
  Qed.

  Lemma absorb_stop d : forall rs st,
    snd (absorb p collect_all d st rs) = true -> is_failed (fst (absorb p collect_all d st rs)) <> [].
  Proof.
    induction rs as [|[[node r] ins] rs IH]; intros st; cbn [absorb].
    - discriminate.
    - destruct r as [[s m|o] g|].
      + apply IH.
      + apply IH.
      + destruct collect_all. { apply IH. }
        cbn [fst snd is_failed]. intros _ H. destruct (is_failed st); discriminate.
  Qed.

  Lemma run_levels_stop pm d : forall levels st st',
    run_levels run p collect_all pm d st levels = Ok (st', true) -> is_failed st' <> [].
  Proof.
    induction levels as [|level rest IH]; intros st st' H; cbn [run_levels] in H.
    - discriminate.
    - destruct (run_level run p pm st level) as [rs| | |]; cbn [bind] in H; try discriminate.
      destruct (absorb p collect_all d (add_events st rs) rs) as [st1 stop1] eqn:Ea.
      destruct stop1.
      + injection H as <-. pose proof (absorb_stop d rs (add_events st rs)) as Hs.
        rewrite Ea in Hs. apply Hs. reflexivity.
      + eapply IH. exact H.
  Qed.

  Lemma run_levels_events pm d : forall levels st st' stop,
    run_levels run p collect_all pm d st levels = Ok (st', stop) ->
    exists j, map fst (rev (is_events st')) = map fst (rev (is_events st)) ++ concat (firstn j levels) /\
              (stop = false -> j = length levels).
  Proof.
    induction levels as [|level rest IH]; intros st st' stop H; cbn [run_levels] in H.
    - injection H as <- <-. exists 0. cbn. rewrite app_nil_r. auto.
    - destruct (run_level run p pm st level) as [rs| | |] eqn:Er; cbn [bind] in H; try discriminate.
      destruct (absorb p collect_all d (add_events st rs) rs) as [st1 stop1] eqn:Ea.
      assert (Hev : map fst (rev (is_events st1)) = map fst (rev (is_events st)) ++ level).
      { pose proof (absorb_events d rs (add_events st rs)) as He. rewrite Ea in He. cbn [fst] in He.
        rewrite He. cbn [add_events is_events]. rewrite rev_app_distr, rev_involutive, map_app, map_map.
        cbn [fst]. f_equal. apply (run_level_nodes pm st). exact Er. }
      destruct stop1.
      + injection H as <- <-. exists 1. cbn [firstn concat]. rewrite app_nil_r. split. { exact Hev. } discriminate.
      + destruct (IH st1 st' stop H) as [j [Hj Hstop]]. exists (S j). cbn [firstn concat length].
        rewrite Hj, Hev, app_assoc. split. { reflexivity. } intros Hs. f_equal. apply Hstop. exact Hs.
  Qed.

  Variable is_def : nat -> bool.

  Definition pass_levels (mode : run_mode) (sorted : list (list nat)) : list (list nat) :=
    match mode with
    | Outputs => remove_deferred sorted (find_deferred p is_def)
    | Checks => remove_not_deferred sorted (find_deferred p is_def)
    end.

  (* the nodes evaluated by a pass are an initial run of whole levels of that pass's level list,
     and all of them unless a program failed *)
  Theorem inner_events_nodes mode cache r :
    check_predicate_inner run p collect_all is_def mode cache = Ok r ->
    (exists ix, ir_res r = Err (PInvalidNodeEdges ix) /\ ir_events r = []) \/
    exists pm sorted j,
      create_parent_map p = Ok pm /\ parallel_topo_sort p pm = Ok sorted /\
      map fst (ir_events r) = concat (firstn j (pass_levels mode sorted)) /\
      ((forall e, ir_res r <> Err (PProgramErrors e)) ->
       map fst (ir_events r) = concat (pass_levels mode sorted)).
  Proof.
    unfold check_predicate_inner. intros H.
    destruct (create_parent_map p) as [pm|[ix]| |] eqn:Ec; try discriminate.
    2: { injection H as <-. left. exists ix. auto. }
    destruct (parallel_topo_sort p pm) as [sorted|[ix]| |] eqn:Et; try discriminate.
    2: { injection H as <-. left. exists ix. auto. }
    right. fold (pass_levels mode sorted) in H.
    match type of H with bind ?X _ = _ => destruct X as [[st stop]| | |] eqn:Er end; cbn [bind] in H; try discriminate.
    injection H as <-. cbn [ir_events ir_res].
    destruct (run_levels_events _ _ _ _ _ _ Er) as [j [Hj Hstop]]. cbn [is_events rev map app] in Hj.
    exists pm, sorted, j. split. { reflexivity. } split. { exact Et. } split. { exact Hj. }
    intros Hne. rewrite Hj. destruct stop.
    - exfalso. apply run_levels_stop in Er. destruct (is_failed st) as [|f fs] eqn:Ef. { congruence. }
      apply (Hne (f :: fs)). reflexivity.
    - rewrite Hstop by reflexivity. rewrite firstn_all. reflexivity.
  Qed.

  Lemma concat_firstn_incl {A} j (ls : list (list A)) x : In x (concat (firstn j ls)) -> In x (concat ls).
  Proof.
    intros H. rewrite <- (firstn_skipn j ls), concat_app. apply in_or_app. left. exact H.
  Qed.

  (* first pass: only non-deferred nodes are evaluated; second pass: only deferred ones *)
  Theorem inner_events_split mode cache r x :
    check_predicate_inner run p collect_all is_def mode cache = Ok r ->
    In x (map fst (ir_events r)) ->
    match mode with
    | Outputs => ~ In x (find_deferred p is_def)
    | Checks => In x (find_deferred p is_def)
    end.
  Proof.
    intros H Hx. destruct (inner_events_nodes mode cache r H) as [[ix [_ He]]|[pm [sorted [j [_ [_ [Hj _]]]]]]].
    - rewrite He in Hx. contradiction.
    - rewrite Hj in Hx. apply concat_firstn_incl in Hx. destruct mode; cbn [pass_levels] in Hx.
      + apply remove_deferred_members in Hx. tauto.
      + apply remove_not_deferred_members in Hx. tauto.
  Qed.
End InnerEvents.

(* bundle for C03 *)
Theorem passes_partition_nodes levels d :
  Permutation (concat (remove_deferred levels d) ++ concat (remove_not_deferred levels d)) (concat levels) /\
  (forall x, In x (concat (remove_deferred levels d)) <-> In x (concat levels) /\ ~ In x d) /\
  (forall x, In x (concat (remove_not_deferred levels d)) <-> In x (concat levels) /\ In x d) /\
  Forall (fun l => l <> []) (remove_deferred levels d) /\
  Forall (fun l => l <> []) (remove_not_deferred levels d).
Proof.
  split. { apply passes_partition. } split. { intros x. apply remove_deferred_members. }
  split. { intros x. apply remove_not_deferred_members. }
  split. { apply remove_deferred_nonempty. } apply remove_not_deferred_nonempty.
Qed.

Theorem passes_order_preserved levels d :
  remove_deferred levels d = filter (fun l => negb (is_nil l)) (map (filter (keep_first d)) levels) /\
  remove_not_deferred levels d = filter (fun l => negb (is_nil l)) (map (filter (keep_second d)) levels) /\
  concat (remove_deferred levels d) = filter (keep_first d) (concat levels) /\
  concat (remove_not_deferred levels d) = filter (keep_second d) (concat levels).
Proof.
  split. { reflexivity. } split. { reflexivity. }
  split. { apply remove_deferred_concat. } apply remove_not_deferred_concat.
Qed.
